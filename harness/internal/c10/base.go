package c10

import (
	"bytes"
	"context"
	"crypto/sha256"
	"encoding/binary"
	"encoding/json"
	"fmt"
	"math/rand"
	"os"
	"path/filepath"
	"sort"
	"strings"
	"time"

	"github.com/benbjohnson/litestream"
	"github.com/benbjohnson/litestream/file"
	"github.com/superfly/ltx"

	"verif/harness/internal/hist"
	"verif/harness/internal/oracle"
	"verif/harness/internal/sq"
	"verif/harness/internal/vf"
)

// baseSpec names one pristine replica ("base"). A base is a pure function of
// this value (up to LTX header timestamps / WAL salts, which have fixed width
// and do not move any structure offset), so a worker or a replay can rebuild it.
type baseSpec struct {
	Seed     int64 `json:"seed"`
	PageSize int   `json:"ps"`
	AutoVac  int   `json:"av"`
	PurgeL0  bool  `json:"purge_l0"` // L0 files removed once compacted: the plan's L1/L2 files have no fallback
	Rich     bool  `json:"rich"`     // full write-kind mix (bigger files) instead of small rows
}

func (b baseSpec) key() string {
	return fmt.Sprintf("s%d-ps%d-av%d-p%v-r%v", b.Seed, b.PageSize, b.AutoVac, b.PurgeL0, b.Rich)
}

// fileMeta describes one *.ltx file of the base and its byte structure as
// found by an independent walk over the framing (no ltx.Decoder involved).
type fileMeta struct {
	Level  int    `json:"level"`
	Min    int    `json:"min"`
	Max    int    `json:"max"`
	Rel    string `json:"rel"` // path relative to the replica root
	Size   int64  `json:"size"`
	MTime  int64  `json:"mtime_ns"`
	InPlan bool   `json:"in_plan"`
	// structure
	Frames    []int64 `json:"frames"`     // start offset of every page frame
	MarkerEnd int64   `json:"marker_end"` // first byte after the 6-byte end-of-pages marker
	IndexEnd  int64   `json:"index_end"`  // first byte after the page index (incl. its 8-byte size) == start of trailer
}

func (f fileMeta) name() string { return fmt.Sprintf("L%d/%d-%d", f.Level, f.Min, f.Max) }

type baseMeta struct {
	Spec     baseSpec   `json:"spec"`
	MaxTXID  int        `json:"max_txid"`
	PageSize int        `json:"page_size"`
	Files    []fileMeta `json:"files"` // all files, plan files first in plan order
	Plan     []int      `json:"plan"`  // indices into Files
	RefSize  int        `json:"ref_size"`
	RefHash  string     `json:"ref_hash"`
	Dir      string     `json:"-"`
}

func (m *baseMeta) repDir() string  { return filepath.Join(m.Dir, "rep") }
func (m *baseMeta) refPath() string { return filepath.Join(m.Dir, "ref") }

// fingerprint identifies the byte layout the offsets of a spec refer to.
func (m *baseMeta) fingerprint() string {
	var sb strings.Builder
	for _, f := range m.Files {
		fmt.Fprintf(&sb, "%s:%d:%d;", f.name(), f.Size, f.MarkerEnd)
	}
	fmt.Fprintf(&sb, "ref:%d", m.RefSize)
	return fmt.Sprintf("%x", sha256.Sum256([]byte(sb.String())))[:12]
}

func baseDir(scratch string, b baseSpec) string {
	return filepath.Join(scratch, "c10-base-"+b.key())
}

// ensureBase returns the base for b under scratch, building it if this process
// is the first to need it (atomic publish by rename; losers use the winner's).
func ensureBase(scratch string, b baseSpec) (*baseMeta, error) {
	dir := baseDir(scratch, b)
	if m, err := loadBase(dir); err == nil {
		return m, nil
	}
	tmp, err := os.MkdirTemp(scratch, "c10-build-")
	if err != nil {
		return nil, err
	}
	defer os.RemoveAll(tmp)
	if _, err := buildBase(tmp, b); err != nil {
		return nil, fmt.Errorf("build base %s: %w", b.key(), err)
	}
	if err := os.Rename(tmp, dir); err != nil {
		// somebody else published first
		if m, err2 := loadBase(dir); err2 == nil {
			return m, nil
		}
		return nil, err
	}
	return loadBase(dir)
}

func loadBase(dir string) (*baseMeta, error) {
	b, err := os.ReadFile(filepath.Join(dir, "meta.json"))
	if err != nil {
		return nil, err
	}
	var m baseMeta
	if err := json.Unmarshal(b, &m); err != nil {
		return nil, err
	}
	m.Dir = dir
	return &m, nil
}

// buildBase runs the scripted history that produces a replica whose
// latest-TXID plan mixes a snapshot, an L2, an L1 and L0 files.
func buildBase(dir string, b baseSpec) (*baseMeta, error) {
	ctx := context.Background()
	rng := rand.New(rand.NewSource(b.Seed))
	res := &vf.Result{}
	envDir := filepath.Join(dir, "env")
	if err := os.MkdirAll(envDir, 0o755); err != nil {
		return nil, err
	}
	cfg := hist.Config{PageSize: b.PageSize, AutoVacuum: b.AutoVac, MinCheckpointPageN: 1000, TruncatePageN: 0, CheckpointInterval: 0, MaxSyncWALFrames: -1, MaxSyncLTXFiles: 0}
	e, err := hist.NewEnv(envDir, cfg, rng, res)
	if err != nil {
		return nil, err
	}
	defer e.Close()
	e.Tune = func(db *litestream.DB) {
		if b.PurgeL0 {
			db.L0Retention = time.Nanosecond
		}
	}
	if err := e.StartLS(); err != nil {
		return nil, err
	}
	small := []string{"ins-small", "ins-small", "ins-small", "update", "delete-half", "ins-small"}
	write := func(n int) error {
		for i := 0; i < n; i++ {
			if b.Rich {
				if _, err := e.AppWrite(); err != nil {
					return err
				}
			} else {
				if _, err := e.AppWriteKind(small[rng.Intn(len(small))]); err != nil {
					return err
				}
			}
			if err := e.LS.SyncAndWait(ctx); err != nil {
				return fmt.Errorf("SyncAndWait: %w", err)
			}
		}
		return nil
	}
	compact := func(level int) error {
		if _, err := e.LS.Compact(ctx, level); err != nil {
			return fmt.Errorf("Compact(%d): %w", level, err)
		}
		return nil
	}
	n := func() int { return 1 + rng.Intn(3) }
	steps := []func() error{
		func() error { return write(n() + 1) },
		func() error { return compact(1) },
		func() error { return write(n()) },
		func() error { return compact(1) },
		func() error { return compact(2) },
		func() error { return write(n()) },
		func() error {
			_, err := e.LS.Snapshot(ctx)
			return err
		},
		func() error { return write(n()) },
		func() error { return compact(1) },
		func() error { return write(n()) },
		func() error { return compact(1) },
		func() error { return compact(2) },
		func() error { return write(n()) },
		func() error { return compact(1) },
		func() error { return write(n()) },
	}
	for i, st := range steps {
		if err := st(); err != nil {
			return nil, fmt.Errorf("history step %d: %w", i, err)
		}
	}
	src, err := e.SourceImage()
	if err != nil {
		return nil, err
	}
	cctx, cancel := context.WithTimeout(ctx, 30*time.Second)
	err = e.LS.Close(cctx)
	cancel()
	if err != nil {
		return nil, fmt.Errorf("close: %w", err)
	}
	e.CloseApp()

	// publish the replica directory next to the metadata; drop the source env
	rep := filepath.Join(dir, "rep")
	if err := os.Rename(e.RepPath, rep); err != nil {
		return nil, err
	}
	m := &baseMeta{Spec: b, PageSize: b.PageSize, Dir: dir}
	m.MaxTXID = oracle.MaxTXID(rep)

	// plan files (the workload's targets; the planner is only used to pick them)
	client := file.NewReplicaClient(rep)
	plan, err := litestream.CalcRestorePlan(ctx, client, ltx.TXID(m.MaxTXID), time.Time{}, discardLogger())
	if err != nil {
		return nil, fmt.Errorf("plan: %w", err)
	}
	inPlan := map[string]int{}
	for i, p := range plan {
		inPlan[fmt.Sprintf("%d/%d-%d", p.Level, p.MinTXID, p.MaxTXID)] = i
	}
	all := oracle.ListAll(rep)
	var planFiles, others []fileMeta
	planFiles = make([]fileMeta, len(plan))
	for _, f := range all {
		fm, err := describeFile(rep, f)
		if err != nil {
			return nil, fmt.Errorf("describe %s: %w", f, err)
		}
		if i, ok := inPlan[fmt.Sprintf("%d/%d-%d", f.Level, f.Min, f.Max)]; ok {
			fm.InPlan = true
			planFiles[i] = fm
		} else {
			others = append(others, fm)
		}
	}
	m.Files = append(planFiles, others...)
	for i := range plan {
		if m.Files[i].Rel == "" {
			return nil, fmt.Errorf("plan file %d not found on disk", i)
		}
		m.Plan = append(m.Plan, i)
	}

	// reference bytes = restore of the pristine replica at the pinned TXID,
	// cross-checked once against the source image (O-SRC).
	opt := litestream.NewRestoreOptions()
	opt.TXID = ltx.TXID(m.MaxTXID)
	opt.OutputPath = filepath.Join(dir, "ref")
	if err := litestream.NewReplicaWithClient(nil, file.NewReplicaClient(rep)).Restore(ctx, opt); err != nil {
		return nil, fmt.Errorf("reference restore: %w", err)
	}
	ref, err := os.ReadFile(opt.OutputPath)
	if err != nil {
		return nil, err
	}
	if err := oracle.CompareMasked(src, ref, dir); err != nil {
		return nil, fmt.Errorf("reference restore differs from the source image: %w", err)
	}
	if d, err := sq.DumpBytes(ref, dir, true); err != nil || d.Integ != "ok" {
		return nil, fmt.Errorf("reference restore fails integrity_check: %v %v", err, d)
	}
	m.RefSize = len(ref)
	m.RefHash = fmt.Sprintf("%x", sha256.Sum256(ref))
	os.RemoveAll(envDir)
	jb, _ := json.MarshalIndent(m, "", " ")
	if err := os.WriteFile(filepath.Join(dir, "meta.json"), jb, 0o644); err != nil {
		return nil, err
	}
	return m, nil
}

// describeFile walks the LTX framing by hand: 100-byte header, page frames
// (6-byte page header, 4-byte size, data), 6-byte zero marker, page index,
// 16-byte trailer.
func describeFile(rep string, f oracle.FileRef) (fileMeta, error) {
	rel, _ := filepath.Rel(rep, f.Path)
	fm := fileMeta{Level: f.Level, Min: f.Min, Max: f.Max, Rel: rel}
	st, err := os.Stat(f.Path)
	if err != nil {
		return fm, err
	}
	fm.Size = st.Size()
	fm.MTime = st.ModTime().UnixNano()
	b, err := os.ReadFile(f.Path)
	if err != nil {
		return fm, err
	}
	off := int64(ltx.HeaderSize)
	for {
		if off+6 > int64(len(b)) {
			return fm, fmt.Errorf("page block runs past end at %d", off)
		}
		pgno := binary.BigEndian.Uint32(b[off:])
		flags := binary.BigEndian.Uint16(b[off+4:])
		if pgno == 0 && flags == 0 {
			fm.MarkerEnd = off + 6
			break
		}
		if flags&1 == 0 {
			return fm, fmt.Errorf("old frame format at %d (not produced by this tree)", off)
		}
		fm.Frames = append(fm.Frames, off)
		sz := int64(binary.BigEndian.Uint32(b[off+6:]))
		off += 10 + sz
	}
	fm.IndexEnd = int64(len(b)) - int64(ltx.TrailerSize)
	if fm.IndexEnd < fm.MarkerEnd+1+8 {
		return fm, fmt.Errorf("no room for page index")
	}
	if got := int64(binary.BigEndian.Uint64(b[fm.IndexEnd-8:])); got != fm.IndexEnd-8-fm.MarkerEnd {
		return fm, fmt.Errorf("page index size field %d, walked %d", got, fm.IndexEnd-8-fm.MarkerEnd)
	}
	return fm, nil
}

// sizeTop reports whether off is the most significant byte of a page frame's
// size prefix.
func (f fileMeta) sizeTop(off int64) bool {
	i := sort.Search(len(f.Frames), func(i int) bool { return f.Frames[i]+6 >= off })
	return i < len(f.Frames) && f.Frames[i]+6 == off
}

// boundaries returns the structure boundaries of a file.
func (f fileMeta) boundaries() []int64 {
	bs := []int64{0, 4, 100}
	for _, fr := range f.Frames {
		bs = append(bs, fr, fr+6, fr+10)
	}
	bs = append(bs, f.MarkerEnd-6, f.MarkerEnd, f.IndexEnd-8, f.IndexEnd, f.IndexEnd+8, f.Size)
	return bs
}

// offsets chooses corruption offsets in [lo, hi) of a file: every offset when
// the file is at most `every` bytes, else all structure boundaries +-8 plus a
// PRNG sample. limit > 0 caps boundary windows to the first/last frames so
// that the quick tier stays bounded.
func (f fileMeta) offsets(rng *rand.Rand, every int64, sample int, maxFrames int, hi int64) []int64 {
	if f.Size <= every {
		out := make([]int64, 0, hi)
		for o := int64(0); o < hi; o++ {
			out = append(out, o)
		}
		return out
	}
	set := map[int64]bool{}
	fr := f
	if maxFrames > 0 && len(fr.Frames) > maxFrames {
		// first, last and PRNG-chosen frames
		keep := []int64{fr.Frames[0], fr.Frames[len(fr.Frames)-1]}
		for len(keep) < maxFrames {
			keep = append(keep, fr.Frames[rng.Intn(len(fr.Frames))])
		}
		fr.Frames = keep
	}
	for _, b := range fr.boundaries() {
		for d := int64(-8); d <= 8; d++ {
			if o := b + d; o >= 0 && o < hi {
				set[o] = true
			}
		}
	}
	for i := 0; i < sample; i++ {
		set[rng.Int63n(hi)] = true
	}
	out := make([]int64, 0, len(set))
	for o := range set {
		out = append(out, o)
	}
	sort.Slice(out, func(i, j int) bool { return out[i] < out[j] })
	return out
}

// linkTree makes dst a hard-link copy of the pristine replica (same inodes,
// same mtimes). Callers never write through a link: a corrupted file is always
// a fresh inode created after removing the link.
func linkTree(src, dst string) error {
	return filepath.Walk(src, func(p string, fi os.FileInfo, err error) error {
		if err != nil {
			return err
		}
		rel, _ := filepath.Rel(src, p)
		if fi.IsDir() {
			return os.MkdirAll(filepath.Join(dst, rel), 0o755)
		}
		return os.Link(p, filepath.Join(dst, rel))
	})
}

// replaceFile puts content under path as a fresh inode with the given mtime
// (the file replica reports mtime as CreatedAt, which the planner compares).
func replaceFile(path string, content []byte, mtimeNs int64) error {
	if err := os.Remove(path); err != nil && !os.IsNotExist(err) {
		return err
	}
	if err := os.WriteFile(path, content, 0o644); err != nil {
		return err
	}
	t := time.Unix(0, mtimeNs)
	return os.Chtimes(path, t, t)
}

func sameBytes(a, b []byte) bool { return bytes.Equal(a, b) }
