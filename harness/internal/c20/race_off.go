//go:build !race

package c20

const raceEnabled = false
