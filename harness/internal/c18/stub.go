//go:build !vfs

// Package c18: a VFS read replica serves the same pages as a full restore
// (DESIGN §4 C18). The real check needs litestream's vfs.go, which is only
// compiled with -tags vfs (cgo + mattn/go-sqlite3); this file keeps the package
// linkable in the std and race variants and makes a wrong variant explicit.
package c18

import (
	"encoding/json"
	"time"

	"verif/harness/internal/vf"
)

func init() {
	vf.Register(&vf.Check{
		ID:    "C18",
		Level: "exploration",
		Rule:  "not available in this build variant (needs -tags \"verif vfs\", CGO_ENABLED=1)",
		Cases: func(run *vf.Run) ([]json.RawMessage, error) {
			return []json.RawMessage{vf.Spec(struct{}{})}, nil
		},
		RunCase: func(run *vf.Run, spec json.RawMessage, dir string) *vf.Result {
			return &vf.Result{HarnessErr: "C18 needs the vfs build variant (/verif/build.sh vfs; /verif/check selects it for C18)"}
		},
		MinEvals:    1,
		CaseTimeout: time.Minute,
	})
}
