#!/usr/bin/env python3
"""Generates MANIFEST.json from the table below (kept in one place so it stays valid)."""
import json, os, subprocess

HERE = os.path.dirname(os.path.abspath(__file__))

CHECKS = {
 "C01": dict(level="exploration", engine="E-HIST", technique="runtime monitoring: differential byte oracle (restore vs checkpointed source copy) at every acknowledgement of generated histories",
   text="Every acknowledged sync in seeded random histories over the full C01 alphabet and configuration lattice is followed by a real Restore from the replica alone; the output is compared byte-for-byte with SQLite's own checkpointed copy of the source. Held on the histories explored, not proven.",
   note="file replica only; modernc SQLite as reference for committed state; mask limited to change counter, version bytes and the _litestream_seq root page", ref="§4 C01"),
}

# properties not (yet) claimed: id -> reason
NOT_APPLICABLE = {}

def main():
    props = [json.loads(l)["id"] for l in open(os.path.join(HERE, "properties.jsonl"))]
    checks = []
    for pid in props:
        c = CHECKS.get(pid)
        if not c:
            continue
        checks.append({
            "property_id": pid,
            "quick_cmd": f"./check {pid} quick",
            "thorough_cmd": f"./check {pid} thorough",
            "evidence_file": f"/verif/evidence/{pid}.json",
            "replay_cmd_template": f"./check {pid} --replay {{path}}",
            "engine": c["engine"],
            "level_claimed": {"category": c["level"], "text": c["text"], "design_ref": c["ref"]},
            "level_note": c["note"],
            "technique": c["technique"],
        })
    na = []
    for pid in props:
        if pid not in CHECKS:
            na.append({"property_id": pid, "reason": NOT_APPLICABLE.get(pid, "check not built yet in this round; planned design in DESIGN.md §4 (runtime monitoring applies)")})
    hooks_commits = []
    try:
        out = subprocess.run(["git", "-C", "/repo", "log", "--format=%H %s"], capture_output=True, text=True).stdout
        hooks_commits = [l.split()[0] for l in out.splitlines() if " verif-hook:" in l]
    except Exception:
        pass
    m = {
        "version": 1,
        "setup_cmd": "./setup.sh",
        "hooks": {
            "guard": "verif (Go build tag)",
            "enable": "go build -tags verif (and -tags 'verif vfs' for C18); see build.sh",
            "baseline_off_cmd": "cd /repo && GOFLAGS=-mod=mod GOPROXY=off go test -vet=off -count=1 -timeout 25m ./...",
            "source_commits": hooks_commits,
            "add_only": True,
        },
        "engines": [
            {"name": "E-HIST", "path": "harness/internal/hist", "serves_properties": ["C01","C02","C04","C06","C07","C13","C14","C15","C17"], "kind_free_text": "sequential generated histories driving real SQLite connections and a real litestream DB; differential oracles"},
            {"name": "E-FAULT", "path": "harness/internal/proxy", "serves_properties": ["C05","C10"], "kind_free_text": "recording / fault-injecting ReplicaClient proxy"},
            {"name": "E-CRASH", "path": "ptsup", "serves_properties": ["C03","C16"], "kind_free_text": "ptrace supervisor killing the litestream process before the Nth fs-mutating syscall"},
            {"name": "E-TRACE", "path": "harness/internal/c11", "serves_properties": ["C11"], "kind_free_text": "strace log + offline ordering checker"},
            {"name": "E-CONC", "path": "harness/internal/c12", "serves_properties": ["C12","C02"], "kind_free_text": "go race detector under concurrent stress with delays injected at storage boundaries"},
            {"name": "E-GEN", "path": "harness/internal", "serves_properties": ["C08","C09","C19"], "kind_free_text": "input generators with independent reference oracles"},
            {"name": "E-LEASE", "path": "harness/internal/c20", "serves_properties": ["C20"], "kind_free_text": "request-level scheduler over real s3.Leaser instances + porcupine"},
        ],
        "checks": checks,
        "not_applicable": na,
        "notes": "All checks are runtime monitors over executions of the real code; see DESIGN.md. Exit 2 = inconclusive (watchdog/observed too little), never folded into held/violated.",
    }
    json.dump(m, open(os.path.join(HERE, "MANIFEST.json"), "w"), indent=1)
    print("wrote MANIFEST.json with", len(checks), "checks,", len(na), "not claimed")

if __name__ == "__main__":
    main()
