// Package c05: transient storage failures never leave gaps or false
// acknowledgements (DESIGN §4 C05). Engine: E-HIST histories over the E-FAULT
// proxy (proxy.go) with a seeded per-call fault schedule, then a fault-free
// suffix.
package c05

import (
	"context"
	"crypto/sha256"
	"encoding/json"
	"fmt"
	"math/rand"
	"os"
	"sort"
	"strings"
	"sync"
	"sync/atomic"
	"time"

	"github.com/benbjohnson/litestream"
	"github.com/benbjohnson/litestream/file"

	"verif/harness/internal/hist"
	"verif/harness/internal/oracle"
	"verif/harness/internal/vf"
)

type spec struct {
	Seed     int64       `json:"seed"`
	Ops      int         `json:"ops"`
	Cfg      hist.Config `json:"cfg"`
	Sched    Schedule    `json:"sched"`
	MetaLoss bool        `json:"meta_loss,omitempty"` // history may contain one restart with the local meta directory lost (exercises the L0 download path under faults)
	Demo     string      `json:"demo,omitempty"`      // scripted demonstration history (pinned at the front of the case list) / directed case class
	Variant  string      `json:"variant,omitempty"`   // directed class: which compaction reads its sources from the replica
}

func init() {
	vf.Register(&vf.Check{
		ID:    "C05",
		Level: "fault_enumeration",
		Rule: "generated E-HIST histories (application writes incl. rollbacks with spilled frames, DDL, VACUUM, application checkpoints, open write txn / reader across litestream ops; DB.Sync, DB.Sync + Replica.Sync with retries (monitor tick), SyncAndWait, Checkpoint(mode), Snapshot, Compact(1..3), snapshot retention + EnforceRetentionByTXID(level>=1), Close with shutdown retry (ShutdownSyncTimeout 50ms) followed by Open of the same object or a new DB object) " +
			"run over a fault-injecting ReplicaClient proxy around file.ReplicaClient. Each client call draws its fault from a seeded schedule: class {5%,30%,80%,bursts} x target {every op type, list, open, write, delete}; " +
			"faults: list/open/write/delete fail-before-effect, write/delete fail-after-effect (performed, error returned), short-read of the upload reader at byte k (partial body handed to the store or dropped), download reader error / premature EOF at byte o. " +
			"Oracles: after EVERY client call the level-0 directory of the store is contiguous 1..max with single-TXID files, and at the start of and after every client call Replica.Pos() (what Store.SyncDB reports as ReplicatedTXID) does not exceed what the store holds; after every history step Restore(latest) through a plain file client succeeds (once anything is stored), is a committed ledger state (integrity ok, no poison, dump hash == H_k) and k never regresses; " +
			"every nil SyncAndWait / Close has every level-0 file <= db.Pos() in the store and restores byte-identical (masked) to the source; after faults stop SyncAndWait succeeds within 3 tries, further writes replicate, restore == source. " +
			"Directed class (6 quick / 60 thorough): compactions whose sources are downloaded from the replica (L1->L2, L2->L3, L0->L1 after a restart without the meta directory) while every source download breaks (error / premature EOF by PRNG) at a PRNG offset behind its LTX header and never recovers, then faults stop and the compaction is retried. After every WriteLTXFile call every file newly published under a final name on the replica must decode, verify (CRC) and agree with its name. " +
			"distinct = hash(config, schedule, op sequence); non-trivial = faults of >=2 different kinds were injected into WriteLTXFile calls (directed class: >=4 late download faults delivered and a compaction gave up after the reconnect budget)",
		Assumptions: []string{"file replica client only (no network); faults are injected at the ReplicaClient interface", "L0 retention is off (L0Retention=24h) so that the level-0 listing must start at 1", "ledger dump hash identifies a committed state (sha256)", "ltx decoder/LZ4 trusted"},
		Cases:       cases,
		RunCase:     runCase,
		MinEvals:    1500,
		CaseTimeout: 10 * time.Minute,
	})
}

func cases(run *vf.Run) ([]json.RawMessage, error) {
	n := 40
	if run.Tier == "thorough" {
		n = 1000
	}
	classes := []Schedule{{Rate: 0.05}, {Rate: 0.30}, {Rate: 0.80}, {Burst: true}}
	targets := []string{"", OpWrite, "", OpList, OpWrite, OpOpen, "", OpDelete, "", OpWrite}
	var out []json.RawMessage
	// demonstration case: one premature EOF on the baseline download after the
	// local meta directory was lost (scripted, independent of the seed)
	out = append(out, vf.Spec(spec{Seed: 1, Ops: 0, Cfg: hist.Config{PageSize: 4096, MinCheckpointPageN: 1000, CheckpointInterval: int64(24 * time.Hour)}, Sched: Schedule{Target: OpOpen}, Demo: "baseline-download-premature-eof"}))
	// demonstration case: a snapshot reaches the replica while level-0 uploads
	// keep failing, then the process restarts without its meta directory
	out = append(out, vf.Spec(spec{Seed: 2, Ops: 0, Cfg: hist.Config{PageSize: 4096, MinCheckpointPageN: 1000, CheckpointInterval: int64(24 * time.Hour)}, Sched: Schedule{Target: OpWrite}, Demo: "snapshot-ahead-of-l0-then-meta-loss"}))
	// directed class: compactions whose SOURCES are downloaded from the replica
	// (level 1 -> 2, 2 -> 3, or 0 -> 1 after the local meta directory was lost)
	// while every source download breaks behind its header and never recovers
	nd := 6
	if run.Tier == "thorough" {
		nd = 60
	}
	for i := 0; i < nd; i++ {
		rng := rand.New(rand.NewSource(vf.SubSeed(run.Seed, "C05-compact", i)))
		cfg := hist.RandomConfig(rng)
		cfg.PageSize = hist.PageSizes[(i*5+2)%len(hist.PageSizes)]
		cfg.MaxSyncLTXFiles = 0
		out = append(out, vf.Spec(spec{Seed: vf.SubSeed(run.Seed, "C05-compact-case", i), Cfg: cfg, Sched: Schedule{Rate: 1, Target: OpOpen, PageArea: true},
			Demo: "compaction-source-download-faults", Variant: []string{"l1-l2", "l0-l1-after-meta-loss", "l2-l3"}[i%3]}))
	}
	nu := 3
	if run.Tier == "thorough" {
		nu = 30
	}
	for i := 0; i < nu; i++ {
		rng := rand.New(rand.NewSource(vf.SubSeed(run.Seed, "C05-upload", i)))
		cfg := hist.RandomConfig(rng)
		cfg.PageSize = hist.PageSizes[(i*3+1)%len(hist.PageSizes)]
		cfg.MaxSyncLTXFiles = 0
		cfg.MinCheckpointPageN = 1000
		out = append(out, vf.Spec(spec{Seed: vf.SubSeed(run.Seed, "C05-upload-case", i), Cfg: cfg, Sched: Schedule{Target: OpWrite}, Demo: "compaction-upload-fails"}))
	}
	for i := 0; i < n; i++ {
		rng := rand.New(rand.NewSource(vf.SubSeed(run.Seed, "C05", i)))
		cfg := hist.RandomConfig(rng)
		cfg.PageSize = hist.PageSizes[(i*3+i/8)%len(hist.PageSizes)]
		sc := classes[i%len(classes)]
		sc.Target = targets[(i/len(classes))%len(targets)]
		s := spec{Seed: vf.SubSeed(run.Seed, "C05-case", i), Ops: 60 + rng.Intn(40), Cfg: cfg, Sched: sc, MetaLoss: i%5 == 4 || i%5 == 2}
		out = append(out, vf.Spec(s))
	}
	return out, nil
}

// stuckReason fingerprints a replica that does not catch up. One cause is
// known: the baseline level-0 file fetched from the replica after the local
// meta directory was lost is installed without validation, so a download that
// ended early (clean EOF) leaves a truncated local file that every later sync
// trips over.
func stuckReason(e *hist.Env) (key, why string) {
	store := map[string]int64{}
	for _, f := range oracle.ListLevel(e.RepPath, 0) {
		store[f.String()] = f.Size
	}
	for _, f := range oracle.ListLevel(e.LS.MetaPath(), 0) {
		if sz, ok := store[f.String()]; ok && f.Size < sz {
			return "no-catch-up:local-l0-truncated-download", fmt.Sprintf(" (local %s has %d bytes, the replica's copy %d: a download that ended early was installed as the local baseline)", f, f.Size, sz)
		}
	}
	return "no-catch-up", ""
}

// l0Contiguous checks refuting event (a) on the store's own directory.
func l0Contiguous(repPath string) (max int, bad string) {
	for i, f := range oracle.ListLevel(repPath, 0) {
		if f.Min != f.Max {
			return max, fmt.Sprintf("level-0 file %s covers more than one TXID", f)
		}
		if f.Min != i+1 {
			return max, fmt.Sprintf("level-0 TXIDs on the store are not contiguous from 1: position %d holds %s", i+1, f)
		}
		max = f.Max
	}
	return max, ""
}

func runCase(run *vf.Run, raw json.RawMessage, dir string) *vf.Result {
	var s spec
	res := &vf.Result{}
	if err := json.Unmarshal(raw, &s); err != nil {
		res.HarnessErr = err.Error()
		return res
	}
	rng := rand.New(rand.NewSource(s.Seed))
	e, err := hist.NewEnv(dir, s.Cfg, rng, res)
	if err != nil {
		res.HarnessErr = err.Error()
		return res
	}
	defer e.Close()

	var px *Proxy
	e.Wrap = func(c litestream.ReplicaClient) litestream.ReplicaClient {
		fc := c.(*file.ReplicaClient)
		if px == nil {
			px = NewProxy(fc, s.Sched, s.Seed)
		} else {
			px.Rebind(fc)
		}
		return px
	}
	e.Tune = func(db *litestream.DB) {
		db.L0Retention = 24 * time.Hour // retention off for level 0
		db.ShutdownSyncTimeout = 50 * time.Millisecond
		db.ShutdownSyncInterval = 5 * time.Millisecond
	}
	if err := e.StartLS(); err != nil {
		res.HarnessErr = "open litestream: " + err.Error()
		return res
	}

	// Fingerprint of one known cause of wrong restores (shared with C04/C12):
	// at a moment the local LTX state was lost, the replica held a file at
	// level >= 1 whose MaxTXID exceeded the replica's highest level-0 TXID (an
	// empty level 0 counts as 0), e.g. a snapshot uploaded while level-0
	// uploads kept failing. litestream re-establishes its baseline from level
	// 0 only and re-issues TXIDs below the published snapshot.
	txidRestart := false
	fp := func(key string) string {
		if txidRestart {
			return key + ":snapshot-ahead-of-l0-at-reset"
		}
		return key
	}

	// (a) after every client call. The callback can run on litestream's own
	// goroutines (compaction reads its inputs from a pipe goroutine), so it only
	// touches its own state; flush() moves it into the result between steps.
	var cb struct {
		sync.Mutex
		log   []string
		evals int
		gap   string
		ahead string

		verified int
		invalid  string
	}
	var cur atomic.Pointer[litestream.DB] // the litestream.DB object currently in use
	cur.Store(e.LS)
	// Replica.Pos() is what Store.SyncDB / the /sync endpoint report as
	// ReplicatedTXID, also while an upload is outstanding: whenever it is read
	// (at the start of and after each client call) every level-0 file up to it
	// must already be in the store.
	posAhead := func(when string, c Call, max int) string {
		ls := cur.Load()
		if ls == nil || ls.Replica == nil {
			return ""
		}
		if pos := int(ls.Replica.Pos().TXID); pos > max {
			return fmt.Sprintf("%s client call {%s}: Replica.Pos() (reported as ReplicatedTXID) is %d but the store holds contiguous level-0 files only up to %d", when, c, pos, max)
		}
		return ""
	}
	px.InFlight = func(c Call) {
		max, _ := l0Contiguous(e.RepPath)
		ahead := posAhead("during", c, max)
		cb.Lock()
		defer cb.Unlock()
		cb.evals++
		if ahead != "" && cb.ahead == "" {
			cb.ahead = ahead
		}
	}
	// Every *.ltx under a final name on the replica is complete: it decodes,
	// its checksums verify and its header agrees with its name. Each published
	// file (path, size, mtime) is decoded once, right after the client call
	// that made it appear.
	var ver struct {
		sync.Mutex
		done map[string]bool
	}
	ver.done = map[string]bool{}
	verifyStore := func() (n int, bad string) {
		ver.Lock()
		defer ver.Unlock()
		for _, f := range oracle.ListAll(e.RepPath) {
			fi, err := os.Stat(f.Path)
			if err != nil {
				continue // deleted meanwhile
			}
			id := fmt.Sprintf("%s|%d|%d", f.Path, fi.Size(), fi.ModTime().UnixNano())
			if ver.done[id] {
				continue
			}
			ver.done[id] = true
			n++
			lf, err := oracle.DecodeLTX(f.Path)
			switch {
			case err != nil:
				if _, serr := os.Stat(f.Path); serr != nil {
					continue // vanished while it was being read
				}
				if bad == "" {
					bad = fmt.Sprintf("file %s (%d bytes) is published on the replica under its final name but does not decode/verify: %v", f, fi.Size(), err)
				}
			case int(lf.Hdr.MinTXID) != f.Min || int(lf.Hdr.MaxTXID) != f.Max:
				if bad == "" {
					bad = fmt.Sprintf("file %s on the replica has header TXIDs %d-%d", f, lf.Hdr.MinTXID, lf.Hdr.MaxTXID)
				}
			}
		}
		return n, bad
	}
	px.AfterCall = func(c Call) {
		max, bad := l0Contiguous(e.RepPath)
		ahead := ""
		if bad == "" {
			ahead = posAhead("after", c, max)
		}
		nver, invalid := 0, ""
		if c.Op == OpWrite {
			nver, invalid = verifyStore()
			if invalid != "" {
				invalid = fmt.Sprintf("after client call {%s}: %s", c, invalid)
			}
		}
		cb.Lock()
		defer cb.Unlock()
		cb.log = append(cb.log, "  client "+c.String())
		cb.evals += 2 + nver
		cb.verified += nver
		if invalid != "" && cb.invalid == "" {
			cb.invalid = invalid
		}
		if bad != "" && cb.gap == "" {
			cb.gap = fmt.Sprintf("after client call {%s}: %s", c, bad)
		}
		if ahead != "" && cb.ahead == "" {
			cb.ahead = ahead
		}
	}
	gapReported := false
	flush := func() bool {
		cb.Lock()
		defer cb.Unlock()
		for _, l := range cb.log {
			e.Logf("%s", l)
		}
		res.Evals += cb.evals
		res.Count("client_call_checks", cb.evals)
		res.Count("published_files_verified", cb.verified)
		cb.log, cb.evals, cb.verified = nil, 0, 0
		if cb.invalid != "" && !gapReported {
			gapReported = true
			res.Violate(fp("published-file-invalid"), "%s [%s; %s]", cb.invalid, s.Sched, s.Cfg)
		}
		if cb.ahead != "" && !gapReported {
			gapReported = true
			res.Violate(fp("replicated-position-ahead-of-store"), "%s [%s; %s]", cb.ahead, s.Sched, s.Cfg)
		}
		if cb.gap != "" && !gapReported {
			gapReported = true
			res.Violate(fp("l0-gap-after-client-call"), "%s [%s; %s]", cb.gap, s.Sched, s.Cfg)
		}
		return !gapReported
	}

	ctx := context.Background()
	lastK := int64(-1)
	// (c) after every step
	stepCheck := func(tag string) bool {
		if len(e.ReplicaFiles()) == 0 {
			return true
		}
		// a compaction level never gets a hole, whatever failed: the next compaction
		// continues at or below the TXID after the level's real end. (Overlapping files are
		// legitimate here: an upload that took effect but was reported as failed is written
		// again over a longer range; restore plans cope with nested files.)
		for level := 1; level <= 8; level++ {
			files := oracle.ListLevel(e.RepPath, level)
			maxSoFar := 0
			for i, f := range files {
				if i > 0 {
					res.Evals++
					if f.Min > maxSoFar+1 {
						res.Violate(fp("level-has-a-hole"), "%s: level %d on the store has a hole: files reach TXID %d, the next one is %s [%s; %s]", tag, level, maxSoFar, f, s.Sched, s.Cfg)
						return false
					}
				}
				if f.Max > maxSoFar {
					maxSoFar = f.Max
				}
			}
		}
		img, err := e.RestoreBytes(litestream.NewRestoreOptions())
		res.Evals++
		res.Count("step_restores", 1)
		if err != nil {
			res.Violate(fp("step-restore-failed"), "%s: Restore(latest) through a fault-free view of the store fails: %v [%s; %s]", tag, err, s.Sched, s.Cfg)
			return false
		}
		k, why := e.CheckConsistent(img)
		if why != "" {
			res.Violate(fp("step-restore-inconsistent"), "%s: Restore(latest) through a fault-free view is not a committed state: %s [%s; %s]", tag, why, s.Sched, s.Cfg)
			return false
		}
		if k < lastK {
			res.Violate(fp("step-restore-regressed"), "%s: Restore(latest) went back from commit k=%d to k=%d [%s; %s]", tag, lastK, k, s.Sched, s.Cfg)
			return false
		}
		lastK = k
		return true
	}
	// (b) at every acknowledgement; pos = local position at the ack instant
	ackCheck := func(tag string, pos int) bool {
		have := map[int]bool{}
		for _, f := range oracle.ListLevel(e.RepPath, 0) {
			have[f.Max] = true
		}
		res.Evals++
		for n := 1; n <= pos; n++ {
			if !have[n] {
				res.Violate(fp("ack-not-stored"), "%s acknowledged at local position %d but level-0 file %d is absent from the store [%s; %s]", tag, pos, n, s.Sched, s.Cfg)
				return false
			}
		}
		v, herr := e.AckCompare(tag)
		if herr != nil {
			res.HarnessErr = herr.Error()
			return false
		}
		if v != "" {
			key := fp("ack-restore-differs")
			res.Violate(key, "%s [%s; %s]", v, s.Sched, s.Cfg)
			return false
		}
		return true
	}
	localPos := func() int {
		m := 0
		for _, f := range oracle.ListLevel(e.LS.MetaPath(), 0) {
			if f.Max > m {
				m = f.Max
			}
		}
		return m
	}
	syncAndWait := func(tag string) (acked, ok bool) {
		err := e.LS.SyncAndWait(ctx)
		e.Logf("SyncAndWait err=%v (pinned=%v)", err, e.Pinned())
		if err != nil {
			res.Count("sync_wait_failed", 1)
			return false, true
		}
		res.Count("ack_sync_and_wait", 1)
		pos, perr := e.LS.Pos()
		if perr != nil {
			res.HarnessErr = "db.Pos after acknowledged sync: " + perr.Error()
			return true, false
		}
		return true, ackCheck(tag, int(pos.TXID))
	}
	closeAndReopen := func(tag string, how int) bool {
		// litestream initialises a database lazily on its first sync; Close of
		// an object that never got that far syncs nothing and acknowledges nothing
		inited := e.LS.SQLDB() != nil
		cctx, cancel := context.WithTimeout(ctx, 30*time.Second)
		err := e.LS.Close(cctx)
		cancel()
		e.Logf("Close err=%v (initialised=%v)", err, inited)
		if err == nil && !inited {
			res.Count("close_uninitialised", 1)
		} else if err == nil {
			res.Count("ack_close", 1)
			if !ackCheck(tag+" Close", localPos()) {
				return false
			}
		} else {
			res.Count("close_failed", 1)
		}
		switch how {
		case 0:
			err = e.LS.Open()
			e.Logf("Open (same object) err=%v", err)
			res.Count("reopen_same_object", 1)
		case 1:
			err = e.StartLS()
			e.Logf("new DB object, Open err=%v", err)
			res.Count("reopen_new_object", 1)
		case 2:
			meta := e.LS.MetaPath()
			maxL0, maxDerived := 0, 0
			for _, f := range e.ReplicaFiles() {
				if f.Level == 0 && f.Max > maxL0 {
					maxL0 = f.Max
				}
				if f.Level >= 1 && f.Max > maxDerived {
					maxDerived = f.Max
				}
			}
			if maxDerived > maxL0 {
				txidRestart = true
				e.Logf("note: at this loss of the local LTX state the replica holds %v: level>=1 reaches TXID %d, level 0 only %d", e.ReplicaFiles(), maxDerived, maxL0)
			}
			if rerr := os.RemoveAll(meta); rerr != nil {
				res.HarnessErr = rerr.Error()
				return false
			}
			err = e.StartLS()
			e.Logf("local meta directory lost; new DB object, Open err=%v", err)
			res.Count("reopen_meta_lost", 1)
		}
		if err != nil {
			res.HarnessErr = "reopen litestream: " + err.Error()
			return false
		}
		cur.Store(e.LS)
		return true
	}

	px.Enable(true)
	var ops []string
	if s.Demo == "snapshot-ahead-of-l0-then-meta-loss" {
		// level-0 uploads fail (before taking effect) from the start; listings,
		// and the snapshot upload to level 9, work
		px.Enable(false)
		px.ForceAll(OpWrite, 0, KindFailBefore)
		for i := 0; i < 2; i++ {
			px.BeginStep(i, int64(i))
			if _, err := e.AppWriteKind("ins-small"); err != nil {
				res.HarnessErr = err.Error()
				return res
			}
			if acked, ok := syncAndWait(fmt.Sprintf("demo op%d SyncAndWait", i)); !ok || acked {
				if acked {
					res.HarnessErr = "demo: upload was expected to fail"
				}
				return res
			}
			flush()
		}
		px.BeginStep(2, 2)
		_, err := e.LS.Snapshot(ctx)
		e.Logf("Snapshot err=%v", err)
		flush()
		e.Logf("  state: local L0 max=%d; store %v", localPos(), e.ReplicaFiles())
		px.BeginStep(3, 3)
		if !closeAndReopen("demo op3", 2) {
			return res
		}
		flush()
		px.ClearForced() // faults stop here
		ops = append(ops, "demo")
		if !stepCheck("demo") {
			return res
		}
	}
	if s.Demo == "compaction-source-download-faults" {
		px.Enable(false)
		step := 0
		next := func() { px.BeginStep(step, vf.SubSeed(s.Seed, "step", step)); step++ }
		writeSync := func(n int) bool {
			for j := 0; j < n; j++ {
				next()
				kind := []string{"ins-small", "ins-multi", "ins-big", "update", "delete-half", "ins-small"}[rng.Intn(6)]
				if _, err := e.AppWriteKind(kind); err != nil {
					res.HarnessErr = err.Error()
					return false
				}
				if _, ok := syncAndWait(fmt.Sprintf("directed op%d SyncAndWait", step)); !ok {
					return false
				}
				if !flush() {
					return false
				}
			}
			return true
		}
		compact := func(lvl int, faulted bool) error {
			next()
			_, err := e.LS.Compact(ctx, lvl)
			e.Logf("Compact(%d) err=%v (source downloads failing=%v)", lvl, err, faulted)
			switch {
			case err == nil:
				res.Count(fmt.Sprintf("directed_compact%d_ok_faulted_%v", lvl, faulted), 1)
			case err != litestream.ErrNoCompaction:
				res.Count(fmt.Sprintf("directed_compact%d_failed_faulted_%v", lvl, faulted), 1)
				if faulted && strings.Contains(err.Error(), "max retries exceeded") {
					res.Count("directed_compact_sources_exhausted", 1)
				}
			}
			return err
		}
		src, dst := 1, 2
		rounds := 2 + rng.Intn(2)
		switch s.Variant {
		case "l1-l2":
			for r := 0; r < rounds; r++ {
				if !writeSync(2 + rng.Intn(2)) {
					return res
				}
				compact(1, false)
			}
		case "l2-l3":
			src, dst = 2, 3
			for r := 0; r < rounds; r++ {
				for q := 0; q < 2; q++ {
					if !writeSync(1 + rng.Intn(2)) {
						return res
					}
					compact(1, false)
				}
				compact(2, false)
			}
		case "l0-l1-after-meta-loss":
			// after the restart only the fetched baseline exists locally: the
			// level-0 sources of the next Compact(1) come from the replica
			src, dst = 0, 1
			if !writeSync(3 + rng.Intn(4)) {
				return res
			}
			next()
			if !closeAndReopen("directed restart", 2) {
				return res
			}
			if !writeSync(1 + rng.Intn(2)) {
				return res
			}
		default:
			res.HarnessErr = "unknown variant " + s.Variant
			return res
		}
		if !flush() || !stepCheck("directed: built") {
			return res
		}
		e.Logf("  state: local L0 max=%d; store %v", localPos(), e.ReplicaFiles())
		sc := s.Sched
		sc.LevelMask = 1 << uint(src)
		px.SetSchedule(sc)
		px.Enable(true)
		e.Logf("every download of a level-%d file now breaks behind its header (persistent)", src)
		for a, n := 0, 1+rng.Intn(2); a < n; a++ {
			before := px.NumCalls()
			compact(dst, true)
			if !flush() {
				return res
			}
			if px.NumCalls() != before && !stepCheck(fmt.Sprintf("directed: after Compact(%d) with failing source downloads", dst)) {
				return res
			}
			if a == 0 && rng.Intn(2) == 0 { // uploads and listings still work
				if !writeSync(1) {
					return res
				}
			}
		}
		px.Enable(false)
		e.Logf("faults stop")
		err := compact(dst, false)
		if !flush() || !stepCheck(fmt.Sprintf("directed: Compact(%d) retried after faults stopped (err=%v)", dst, err)) {
			return res
		}
		if dst < 3 {
			compact(dst+1, false)
			if !flush() || !stepCheck(fmt.Sprintf("directed: Compact(%d) after faults stopped", dst+1)) {
				return res
			}
		}
		ops = append(ops, "directed-"+s.Variant)
		px.SetSchedule(s.Sched)
	}
	if s.Demo == "compaction-upload-fails" {
		// level-1 (and level-2) uploads fail once in each of the three ways while the
		// process keeps running; later compactions must continue where the level really
		// ends (no hole), and everything stays restorable
		px.Enable(false)
		step := 0
		next := func() { px.BeginStep(step, vf.SubSeed(s.Seed, "step", step)); step++ }
		writeSync := func(n int) bool {
			for j := 0; j < n; j++ {
				next()
				if _, err := e.AppWriteKind([]string{"ins-small", "ins-multi", "update", "ins-big"}[rng.Intn(4)]); err != nil {
					res.HarnessErr = err.Error()
					return false
				}
				if _, ok := syncAndWait(fmt.Sprintf("directed op%d SyncAndWait", step)); !ok {
					return false
				}
				if !flush() {
					return false
				}
			}
			return true
		}
		kinds := []string{KindFailBefore, KindShortRead, KindFailAfter}
		for r := 0; r < 4; r++ {
			if !writeSync(2 + rng.Intn(3)) {
				return res
			}
			lvl := 1
			if r == 3 {
				lvl = 2
			}
			kind := kinds[(r+int(s.Seed%3+3))%3]
			px.Force(OpWrite, lvl, kind, int64(100+rng.Intn(400)))
			next()
			_, err := e.LS.Compact(ctx, lvl)
			e.Logf("Compact(%d) with its upload failing (%s) err=%v", lvl, kind, err)
			if err != nil {
				res.Count("directed_compaction_upload_failed:"+kind, 1)
			}
			px.ClearForced()
			if !flush() || !stepCheck(fmt.Sprintf("directed: after Compact(%d) whose upload failed (%s)", lvl, kind)) {
				return res
			}
			if !writeSync(1 + rng.Intn(3)) {
				return res
			}
			next()
			_, err = e.LS.Compact(ctx, lvl)
			e.Logf("Compact(%d) again err=%v", lvl, err)
			if !flush() || !stepCheck(fmt.Sprintf("directed: Compact(%d) after the failed upload", lvl)) {
				return res
			}
			if lvl == 1 && r == 2 {
				next()
				_, err = e.LS.Compact(ctx, 2)
				e.Logf("Compact(2) err=%v", err)
				if !flush() || !stepCheck("directed: Compact(2)") {
					return res
				}
			}
		}
		ops = append(ops, "directed-compaction-upload-fails")
	}
	if s.Demo == "baseline-download-premature-eof" {
		// three replicated transactions, restart without the local meta
		// directory, the baseline fetch ends early once; no other fault ever
		px.Enable(false)
		for i := 0; i < 3; i++ {
			px.BeginStep(i, int64(i))
			if _, err := e.AppWriteKind("ins-small"); err != nil {
				res.HarnessErr = err.Error()
				return res
			}
			if _, ok := syncAndWait(fmt.Sprintf("demo op%d SyncAndWait", i)); !ok {
				return res
			}
			flush()
		}
		px.BeginStep(3, 3)
		if !closeAndReopen("demo op3", 2) {
			return res
		}
		px.Force(OpOpen, 0, KindEarlyEOF, 60)
		if _, err := e.AppWriteKind("ins-small"); err != nil {
			res.HarnessErr = err.Error()
			return res
		}
		if _, ok := syncAndWait("demo op4 SyncAndWait"); !ok {
			return res
		}
		ops = append(ops, "demo")
		if !flush() || !stepCheck("demo") {
			return res
		}
	}
	metaLossLeft := 0
	if s.MetaLoss {
		metaLossLeft = 1
	}
	// schedules that target downloads get histories that download more: the
	// only readers of the store are compactions above level 1 and the baseline
	// fetch after the local meta directory was lost
	openBias := s.Sched.Target == OpOpen
	if openBias {
		metaLossLeft = 3
	}
	for i := 0; i < s.Ops; i++ {
		px.BeginStep(i, vf.SubSeed(s.Seed, "step", i))
		callsBefore := px.NumCalls()
		r := rng.Intn(40)
		var op string
		e.Logf("step %d", i)
		switch {
		case r < 8:
			op = "write"
			if _, err := e.AppWrite(); err != nil {
				res.HarnessErr = err.Error()
				return res
			}
		case r < 9:
			op = "maint"
			e.Maint()
		case r < 11:
			op = "appckpt"
			e.AppCheckpoint(hist.CheckpointModes[rng.Intn(4)])
		case r < 13:
			op = "otx"
			if err := e.ToggleOpenTx(); err != nil {
				res.HarnessErr = err.Error()
				return res
			}
		case r < 14:
			op = "reader"
			e.ToggleReader()
		case r < 16:
			op = "sync"
			err := e.LS.Sync(ctx)
			e.Logf("DB.Sync err=%v", err)
		case r < 22:
			// what the monitors do: a database sync, then the replica sync, retried on failure
			op = "tick"
			err := e.LS.Sync(ctx)
			e.Logf("DB.Sync err=%v", err)
			for try := 0; try < 3; try++ {
				err := e.LS.Replica.Sync(ctx)
				e.Logf("Replica.Sync err=%v", err)
				if err == nil {
					break
				}
				res.Count("replica_sync_failed", 1)
			}
		case r < 23:
			mode := hist.CheckpointModes[rng.Intn(4)]
			op = "ckpt-" + mode
			err := e.LS.Checkpoint(ctx, mode)
			e.Logf("DB.Checkpoint(%s) err=%v", mode, err)
		case r < 25:
			op = "snapshot"
			_, err := e.LS.Snapshot(ctx)
			e.Logf("Snapshot err=%v", err)
			if err == nil {
				res.Count("snapshots_ok", 1)
			} else {
				res.Count("snapshots_failed", 1)
			}
		case r < 29:
			lvl := 1 + rng.Intn(3)
			if openBias && lvl == 1 && rng.Intn(2) == 0 {
				lvl = 2
			}
			op = fmt.Sprintf("compact%d", lvl)
			_, err := e.LS.Compact(ctx, lvl)
			e.Logf("Compact(%d) err=%v", lvl, err)
			if err == nil {
				res.Count("compactions_ok", 1)
			} else if err != litestream.ErrNoCompaction {
				res.Count("compactions_failed", 1)
			}
		case r < 30:
			op = "retention"
			// keeps the newest snapshot; lower levels are trimmed to it. Level 0 is never touched.
			minTXID, err := e.LS.EnforceSnapshotRetention(ctx, time.Now().Add(time.Hour))
			e.Logf("EnforceSnapshotRetention(all but newest) min=%d err=%v", minTXID, err)
			if err == nil && minTXID > 0 {
				lvl := 1 + rng.Intn(3)
				err := e.LS.EnforceRetentionByTXID(ctx, lvl, minTXID)
				e.Logf("EnforceRetentionByTXID(level %d, %d) err=%v", lvl, minTXID, err)
				res.Count("retention_passes", 1)
			}
		case r < 32:
			how := rng.Intn(2)
			if metaLossLeft > 0 && (rng.Intn(3) == 0 || openBias) {
				how = 2
				metaLossLeft--
			}
			op = fmt.Sprintf("close-reopen%d", how)
			if !closeAndReopen(fmt.Sprintf("op%d", i), how) {
				return res
			}
		case r < 33 && s.MetaLoss:
			// what auto-recovery does at run time: the local LTX state is dropped while
			// the process keeps running; the very next sync has to re-establish the
			// baseline from the replica through the (faulty) store
			op = "reset-local-state"
			maxL0, maxDerived := 0, 0
			for _, f := range e.ReplicaFiles() {
				if f.Level == 0 && f.Max > maxL0 {
					maxL0 = f.Max
				}
				if f.Level >= 1 && f.Max > maxDerived {
					maxDerived = f.Max
				}
			}
			if maxDerived > maxL0 {
				txidRestart = true
				e.Logf("note: at this loss of the local LTX state the replica holds %v: level>=1 reaches TXID %d, level 0 only %d", e.ReplicaFiles(), maxDerived, maxL0)
			}
			err := e.LS.ResetLocalState(ctx)
			e.Logf("ResetLocalState err=%v", err)
			if err == nil {
				res.Count("reset_local_state_at_run_time", 1)
			}
		default:
			op = "ack"
			acked, ok := syncAndWait(fmt.Sprintf("op%d SyncAndWait", i))
			if !ok {
				return res
			}
			if acked && e.Pinned() {
				res.Count("ack_with_open_txn_or_reader", 1)
			}
		}
		ops = append(ops, op)
		if !flush() {
			return res
		}
		e.Logf("  state: local L0 max=%d; store %v", localPos(), e.ReplicaFiles())
		// the store changes only through client calls: a step without any
		// cannot change what Restore(latest) returns
		if px.NumCalls() == callsBefore {
			res.Count("steps_without_client_calls", 1)
			continue
		}
		if !stepCheck(fmt.Sprintf("after op%d (%s)", i, op)) {
			return res
		}
		if res.HarnessErr != "" {
			return res
		}
	}

	// fault-free suffix
	px.BeginStep(s.Ops, vf.SubSeed(s.Seed, "step", s.Ops))
	px.Enable(false)
	e.Logf("faults stop")
	if err := e.EndOpenTx(rng.Intn(2) == 0); err != nil {
		res.HarnessErr = err.Error()
		return res
	}
	e.EndReader()
	caughtUp := false
	var lastErr error
	for try := 0; try < 3 && !caughtUp; try++ {
		err := e.LS.SyncAndWait(ctx)
		e.Logf("fault-free SyncAndWait try %d err=%v", try+1, err)
		if err == nil {
			caughtUp = true
			res.Count("caught_up_on_try", try+1)
		}
		lastErr = err
	}
	res.Evals++
	if !caughtUp {
		key, why := stuckReason(e)
		res.Violate(fp(key), "faults stopped, yet SyncAndWait failed 3 times in a row: %v%s [%s; %s]", lastErr, why, s.Sched, s.Cfg)
		return res
	}
	pos, _ := e.LS.Pos()
	if !ackCheck("first sync after faults stopped", int(pos.TXID)) || !stepCheck("after faults stopped") {
		return res
	}
	for j := 0; j < 3; j++ {
		if _, err := e.AppWrite(); err != nil {
			res.HarnessErr = err.Error()
			return res
		}
		if j == 1 {
			_, err := e.LS.Compact(ctx, 1)
			e.Logf("fault-free Compact(1) err=%v", err)
		}
		err := e.LS.SyncAndWait(ctx)
		e.Logf("fault-free SyncAndWait err=%v", err)
		res.Evals++
		if err != nil {
			res.Violate(fp("suffix-sync-failed"), "fault-free suffix: SyncAndWait fails after the replica had caught up: %v [%s; %s]", err, s.Sched, s.Cfg)
			return res
		}
		pos, _ := e.LS.Pos()
		if !ackCheck(fmt.Sprintf("fault-free suffix sync %d", j), int(pos.TXID)) || !stepCheck("fault-free suffix") {
			return res
		}
	}
	cctx, cancel := context.WithTimeout(ctx, 60*time.Second)
	err = e.LS.Close(cctx)
	cancel()
	e.Logf("final Close err=%v", err)
	res.Evals++
	if err != nil {
		res.Violate(fp("suffix-close-failed"), "fault-free suffix: Close fails: %v [%s; %s]", err, s.Sched, s.Cfg)
		return res
	}
	if !ackCheck("final Close", localPos()) {
		return res
	}

	if !flush() {
		return res
	}

	// evidence
	faults := px.Faults()
	writeKinds := 0
	total := 0
	var fk []string
	for k, n := range faults {
		res.Count("fault:"+k, n)
		total += n
		fk = append(fk, fmt.Sprintf("%s=%d", k, n))
		if strings.HasPrefix(k, OpWrite+":") {
			writeKinds++
		}
	}
	sort.Strings(fk)
	res.Count("faulted_calls", total)
	for op, n := range px.CallCounts() {
		res.Count("calls:"+op, n)
	}
	res.Count("l0_files_final", len(oracle.ListLevel(e.RepPath, 0)))
	res.Count(fmt.Sprintf("page_size_%d", s.Cfg.PageSize), 1)
	res.Count("schedule:"+s.Sched.String(), 1)
	res.Sig = fmt.Sprintf("%x", sha256.Sum256([]byte(s.Cfg.String()+s.Sched.String()+strings.Join(ops, ","))))[:16]
	res.Nontrivial = writeKinds >= 2
	if s.Demo == "compaction-source-download-faults" {
		res.Nontrivial = faults[OpOpen+":"+KindMidStream]+faults[OpOpen+":"+KindEarlyEOF] >= 4 && res.Counters["directed_compact_sources_exhausted"] >= 1
	}
	res.Sample = map[string]any{"cfg": s.Cfg.String(), "schedule": s.Sched.String(), "ops": strings.Join(ops, " "), "faults": strings.Join(fk, " "), "final_k": e.K}
	return res
}
