package c05

import (
	"context"
	"errors"
	"fmt"
	"io"
	"log/slog"
	"math/rand"
	"os"
	"sync"

	"github.com/benbjohnson/litestream"
	"github.com/benbjohnson/litestream/file"
	"github.com/superfly/ltx"
)

// ErrInjected is the root of every error the proxy fabricates.
var ErrInjected = errors.New("injected transient storage fault")

// Fault kinds (DESIGN §2, E-FAULT).
const (
	KindOK         = "ok"
	KindFailBefore = "fail-before-effect" // the call returns an error and nothing happened
	KindFailAfter  = "fail-after-effect"  // the write / delete is performed, then an error is returned
	KindShortRead  = "short-read"         // k bytes of the upload reader are consumed (and handed to the store), then the upload fails
	KindMidStream  = "error-mid-stream"   // the download reader delivers o bytes, then returns an error
	KindEarlyEOF   = "premature-eof"      // the download reader delivers o bytes, then a clean EOF although the file is longer
)

// Operation names used in schedules, counters and the call log.
const (
	OpList   = "list"
	OpOpen   = "open"
	OpWrite  = "write"
	OpDelete = "delete"
)

// Schedule is a seeded per-call fault schedule. Every call of a targeted
// operation draws from the proxy's PRNG: with probability Rate (or, for a
// burst schedule, during the "on" runs) one of the fault kinds applicable to
// the operation is injected.
type Schedule struct {
	Rate   float64 `json:"rate"`             // fault probability per targeted call (ignored when Burst)
	Burst  bool    `json:"burst,omitempty"`  // alternate runs of 2..9 faulted calls and 2..12 clean calls
	Target string  `json:"target,omitempty"` // "" = every operation type, else one of list/open/write/delete
	// LevelMask restricts the schedule to calls on these levels (bit n = level n; 0 = all levels).
	LevelMask uint32 `json:"level_mask,omitempty"`
	// PageArea makes download faults persistent and late: every OpenLTXFile of a
	// targeted file succeeds but its reader breaks (error or premature EOF, by
	// PRNG) at an absolute file offset chosen by PRNG BEHIND the LTX header, so
	// headers can be decoded, no reconnect ever gets past the page area, and a
	// reader's reconnect budget runs out.
	PageArea bool `json:"page_area,omitempty"`
}

func (s Schedule) String() string {
	t := s.Target
	if t == "" {
		t = "all"
	}
	x := ""
	if s.LevelMask != 0 {
		x += fmt.Sprintf(" levelmask=%b", s.LevelMask)
	}
	if s.PageArea {
		x += " persistent-page-area-download-faults"
	}
	if s.Burst {
		return fmt.Sprintf("burst target=%s%s", t, x)
	}
	return fmt.Sprintf("rate=%.2f target=%s%s", s.Rate, t, x)
}

// Call is one record of the call log.
type Call struct {
	Seq   int    `json:"seq"`
	Step  int    `json:"step"` // history step during which the call was made
	Op    string `json:"op"`
	Level int    `json:"level"`
	Min   uint64 `json:"min,omitempty"`
	Max   uint64 `json:"max,omitempty"`
	N     int    `json:"n,omitempty"`   // number of files (delete)
	Kind  string `json:"kind"`          // fault injected (KindOK = none)
	Off   int64  `json:"off,omitempty"` // byte count k / offset o of the fault
	Abs   bool   `json:"abs,omitempty"` // Off is an absolute file offset behind the LTX header (PageArea schedules)
	Carry bool   `json:"carry,omitempty"` // the failing Read hands out its bytes together with the error / EOF
	Err   string `json:"err,omitempty"` // error returned to litestream ("" = nil)
}

func (c Call) String() string {
	s := fmt.Sprintf("#%d step%d %s L%d", c.Seq, c.Step, c.Op, c.Level)
	if c.Op == OpDelete {
		s += fmt.Sprintf(" n=%d", c.N)
	} else if c.Op != OpList {
		s += fmt.Sprintf(" %d-%d", c.Min, c.Max)
	} else {
		s += fmt.Sprintf(" seek=%d", c.Min)
	}
	if c.Kind != KindOK {
		s += fmt.Sprintf(" FAULT=%s@%d", c.Kind, c.Off)
	}
	if c.Err != "" {
		s += " -> " + c.Err
	}
	return s
}

// Proxy is the E-FAULT recording / fault-injecting litestream.ReplicaClient
// around a file.ReplicaClient. It is an ordinary implementation of the public
// interface (including the optional 0.3.x read interface, forwarded without
// faults), so no source hook is needed.
type Proxy struct {
	mu    sync.Mutex
	fc    *file.ReplicaClient
	rng   *rand.Rand
	sched Schedule
	on    bool // faults enabled
	step  int

	burstOn   bool
	burstLeft int

	forced []forced // scripted faults, consumed in order by matching calls
	sticky []forced // scripted faults that hit every matching call until ClearForced

	calls  []Call
	faults map[string]int // "op:kind" -> injected count
	nCalls map[string]int // op -> calls

	// AfterCall, if set, runs after every client call has returned (with the
	// proxy unlocked); download faults that fire later on the returned reader
	// are reported through AfterCall as a second record with the same Seq.
	AfterCall func(c Call)
	// InFlight, if set, runs at the start of every client call, before the
	// store is touched: the instant a concurrent observer of litestream's
	// public state could look while the call is still outstanding.
	InFlight func(c Call)
}

var (
	_ litestream.ReplicaClient   = (*Proxy)(nil)
	_ litestream.ReplicaClientV3 = (*Proxy)(nil)
)

// NewProxy wraps fc. Faults are disabled until Enable is called.
func NewProxy(fc *file.ReplicaClient, sched Schedule, seed int64) *Proxy {
	return &Proxy{fc: fc, sched: sched, rng: rand.New(rand.NewSource(seed)), faults: map[string]int{}, nCalls: map[string]int{}}
}

type forced struct {
	op, kind string
	level    int
	off      int64
}

// Force scripts a fault: the next call of op on the given level gets kind at
// byte offset off, whatever the schedule says (also while faults are disabled).
func (p *Proxy) Force(op string, level int, kind string, off int64) {
	p.mu.Lock()
	defer p.mu.Unlock()
	p.forced = append(p.forced, forced{op: op, kind: kind, level: level, off: off})
}

// ForceAll scripts a persistent fault: every call of op on the given level
// gets kind until ClearForced is called.
func (p *Proxy) ForceAll(op string, level int, kind string) {
	p.mu.Lock()
	defer p.mu.Unlock()
	p.sticky = append(p.sticky, forced{op: op, kind: kind, level: level})
}

// ClearForced drops all scripted faults.
func (p *Proxy) ClearForced() {
	p.mu.Lock()
	defer p.mu.Unlock()
	p.forced, p.sticky = nil, nil
}

// Rebind points the proxy at another file client (a new litestream.DB object
// for the same replica directory); schedule, log and counters carry over.
func (p *Proxy) Rebind(fc *file.ReplicaClient) *Proxy {
	p.mu.Lock()
	defer p.mu.Unlock()
	p.fc = fc
	return p
}

// SetSchedule replaces the schedule (directed cases run in phases).
func (p *Proxy) SetSchedule(s Schedule) {
	p.mu.Lock()
	defer p.mu.Unlock()
	p.sched = s
}

// Enable switches fault injection on or off (off = the fault-free suffix).
func (p *Proxy) Enable(on bool) {
	p.mu.Lock()
	defer p.mu.Unlock()
	p.on = on
}

// BeginStep re-seeds the schedule for one history step, so that the faults of a
// step do not depend on how many calls earlier steps happened to make (the
// shutdown retry loop is paced by the wall clock).
func (p *Proxy) BeginStep(step int, seed int64) {
	p.mu.Lock()
	defer p.mu.Unlock()
	p.step = step
	p.rng = rand.New(rand.NewSource(seed))
	p.burstOn = p.rng.Intn(2) == 0
	p.burstLeft = 2 + p.rng.Intn(6)
}

// NumCalls returns the number of client calls made so far.
func (p *Proxy) NumCalls() int {
	p.mu.Lock()
	defer p.mu.Unlock()
	return len(p.calls)
}

// Calls returns a copy of the call log.
func (p *Proxy) Calls() []Call {
	p.mu.Lock()
	defer p.mu.Unlock()
	return append([]Call(nil), p.calls...)
}

// Faults returns the injected-fault counters keyed "op:kind".
func (p *Proxy) Faults() map[string]int {
	p.mu.Lock()
	defer p.mu.Unlock()
	m := map[string]int{}
	for k, v := range p.faults {
		m[k] = v
	}
	return m
}

// CallCounts returns the number of calls per operation.
func (p *Proxy) CallCounts() map[string]int {
	p.mu.Lock()
	defer p.mu.Unlock()
	m := map[string]int{}
	for k, v := range p.nCalls {
		m[k] = v
	}
	return m
}

// pick decides the fault for one call and opens its log record.
func (p *Proxy) pick(op string, level int, min, max ltx.TXID, kinds ...string) (*file.ReplicaClient, Call) {
	p.mu.Lock()
	defer p.mu.Unlock()
	c := Call{Seq: len(p.calls) + 1, Step: p.step, Op: op, Level: level, Min: uint64(min), Max: uint64(max), Kind: KindOK}
	p.nCalls[op]++
	stuck := false
	for _, f := range p.sticky {
		if f.op == op && f.level == level {
			c.Kind, stuck = f.kind, true
			if op == OpOpen && (c.Kind == KindMidStream || c.Kind == KindEarlyEOF) && p.rng.Intn(2) == 0 {
				c.Carry = true
				p.faults[op+":bytes-with-error"]++
			}
			p.faults[op+":"+c.Kind]++
			break
		}
	}
	if stuck {
		// scripted
	} else if len(p.forced) > 0 && p.forced[0].op == op && p.forced[0].level == level {
		c.Kind, c.Off = p.forced[0].kind, p.forced[0].off
		p.forced = p.forced[1:]
		p.faults[op+":"+c.Kind]++
	} else if p.on && (p.sched.Target == "" || p.sched.Target == op) && (p.sched.LevelMask == 0 || (level < 32 && p.sched.LevelMask&(1<<uint(level)) != 0)) {
		hit := false
		if p.sched.Burst {
			if p.burstLeft <= 0 {
				p.burstOn = !p.burstOn
				if p.burstOn {
					p.burstLeft = 2 + p.rng.Intn(8)
				} else {
					p.burstLeft = 2 + p.rng.Intn(11)
				}
			}
			p.burstLeft--
			hit = p.burstOn
		} else {
			hit = p.rng.Float64() < p.sched.Rate
		}
		if hit {
			c.Kind = kinds[p.rng.Intn(len(kinds))]
			switch p.rng.Intn(3) {
			case 0:
				c.Off = int64(p.rng.Intn(100)) // inside the LTX header
			case 1:
				c.Off = int64(p.rng.Intn(600))
			default:
				c.Off = int64(p.rng.Intn(40000))
			}
			if p.sched.PageArea && op == OpOpen {
				c.Kind = []string{KindMidStream, KindEarlyEOF}[p.rng.Intn(2)]
				c.Off = int64(p.rng.Intn(1 << 20))
				c.Abs = true
			}
			p.faults[op+":"+c.Kind]++
		}
	}
	p.calls = append(p.calls, c)
	fc, cb := p.fc, p.InFlight
	if cb != nil {
		p.mu.Unlock()
		cb(c)
		p.mu.Lock()
	}
	return fc, c
}

func (p *Proxy) done(c Call, err error) {
	if err != nil {
		c.Err = err.Error()
		if len(c.Err) > 160 {
			c.Err = c.Err[:160]
		}
	}
	p.mu.Lock()
	if c.Seq >= 1 && c.Seq <= len(p.calls) {
		p.calls[c.Seq-1] = c
	}
	cb := p.AfterCall
	p.mu.Unlock()
	if cb != nil {
		cb(c)
	}
}

func (p *Proxy) client() *file.ReplicaClient {
	p.mu.Lock()
	defer p.mu.Unlock()
	return p.fc
}

func (p *Proxy) Type() string                   { return p.client().Type() }
func (p *Proxy) Init(ctx context.Context) error { return p.client().Init(ctx) }
func (p *Proxy) SetLogger(l *slog.Logger)       { p.client().SetLogger(l) }
func (p *Proxy) DeleteAll(ctx context.Context) error {
	return p.client().DeleteAll(ctx)
}

func (p *Proxy) LTXFiles(ctx context.Context, level int, seek ltx.TXID, useMetadata bool) (ltx.FileIterator, error) {
	fc, c := p.pick(OpList, level, seek, 0, KindFailBefore)
	if c.Kind != KindOK {
		err := fmt.Errorf("list level %d: %w", level, ErrInjected)
		p.done(c, err)
		return nil, err
	}
	itr, err := fc.LTXFiles(ctx, level, seek, useMetadata)
	p.done(c, err)
	return itr, err
}

// faultReader delivers limit bytes of rc and then fails (or reports EOF).
type faultReader struct {
	p     *Proxy
	c     Call
	rc    io.ReadCloser
	n     int64
	limit int64
	eof   bool
	fired bool
}

func (f *faultReader) Read(b []byte) (int, error) {
	if f.c.Carry && f.n < f.limit && int64(len(b)) >= f.limit-f.n {
		// last healthy bytes and the fault in one call
		n, err := f.rc.Read(b[:f.limit-f.n])
		f.n += int64(n)
		if err != nil || f.n < f.limit {
			return n, err
		}
		_, ferr := f.Read(nil)
		return n, ferr
	}
	if f.n >= f.limit {
		if !f.fired {
			f.fired = true
			c := f.c
			if f.eof {
				c.Err = "(reader: premature EOF delivered)"
			} else {
				c.Err = "(reader: error delivered)"
			}
			if cb := f.p.AfterCall; cb != nil {
				cb(c)
			}
		}
		if f.eof {
			return 0, io.EOF
		}
		return 0, fmt.Errorf("read ltx file after %d bytes: %w", f.n, ErrInjected)
	}
	if int64(len(b)) > f.limit-f.n {
		b = b[:f.limit-f.n]
	}
	n, err := f.rc.Read(b)
	f.n += int64(n)
	return n, err
}

func (f *faultReader) Close() error { return f.rc.Close() }

func (p *Proxy) OpenLTXFile(ctx context.Context, level int, minTXID, maxTXID ltx.TXID, offset, size int64) (io.ReadCloser, error) {
	fc, c := p.pick(OpOpen, level, minTXID, maxTXID, KindFailBefore, KindMidStream, KindEarlyEOF)
	if c.Kind == KindFailBefore {
		err := fmt.Errorf("open ltx file: %w", ErrInjected)
		p.done(c, err)
		return nil, err
	}
	rc, err := fc.OpenLTXFile(ctx, level, minTXID, maxTXID, offset, size)
	if err != nil || c.Kind == KindOK {
		p.done(c, err)
		return rc, err
	}
	// make sure the fault lies inside what remains of the file, so that it is
	// really delivered (a limit beyond the end would be an ordinary read)
	if c.Abs {
		// absolute position behind the header, the same side of which every
		// reconnect of this file ends up on
		var fsz int64
		if fi, e := os.Stat(fc.LTXFilePath(level, minTXID, maxTXID)); e == nil {
			fsz = fi.Size()
		}
		abs := int64(ltx.HeaderSize)
		if fsz > ltx.HeaderSize+1 {
			abs += c.Off % (fsz - ltx.HeaderSize)
		}
		c.Off = abs
		lim := abs - offset
		if lim < 0 {
			lim = 0
		}
		p.done(c, nil)
		return &faultReader{p: p, c: c, rc: rc, limit: lim, eof: c.Kind == KindEarlyEOF}, nil
	}
	remain := size
	if remain <= 0 {
		if fi, e := os.Stat(fc.LTXFilePath(level, minTXID, maxTXID)); e == nil {
			remain = fi.Size() - offset
		}
	}
	if remain > 0 && c.Off >= remain {
		c.Off = c.Off % remain
	}
	p.done(c, nil)
	return &faultReader{p: p, c: c, rc: rc, limit: c.Off, eof: c.Kind == KindEarlyEOF}, nil
}

// shortReader hands limit bytes of r to the store and then fails; it never
// reports EOF, so the store cannot mistake the stream for a complete file.
type shortReader struct {
	r     io.Reader
	n     int64
	limit int64
}

func (s *shortReader) Read(b []byte) (int, error) {
	if s.n >= s.limit {
		return 0, fmt.Errorf("upload interrupted after %d bytes: %w", s.n, ErrInjected)
	}
	if int64(len(b)) > s.limit-s.n {
		b = b[:s.limit-s.n]
	}
	n, err := s.r.Read(b)
	s.n += int64(n)
	if err == io.EOF {
		err = fmt.Errorf("upload interrupted after %d bytes: %w", s.n, ErrInjected)
	}
	return n, err
}

func (p *Proxy) WriteLTXFile(ctx context.Context, level int, minTXID, maxTXID ltx.TXID, r io.Reader) (*ltx.FileInfo, error) {
	fc, c := p.pick(OpWrite, level, minTXID, maxTXID, KindFailBefore, KindFailAfter, KindShortRead)
	switch c.Kind {
	case KindFailBefore:
		err := fmt.Errorf("write ltx file: %w", ErrInjected)
		p.done(c, err)
		return nil, err
	case KindFailAfter:
		if _, err := fc.WriteLTXFile(ctx, level, minTXID, maxTXID, r); err != nil {
			p.done(c, err) // a genuine failure of the store
			return nil, err
		}
		err := fmt.Errorf("write ltx file (response lost after the write took effect): %w", ErrInjected)
		p.done(c, err)
		return nil, err
	case KindShortRead:
		var err error
		if c.Off%2 == 0 {
			// the store receives the partial body
			_, err = fc.WriteLTXFile(ctx, level, minTXID, maxTXID, &shortReader{r: r, limit: c.Off})
			if err == nil {
				err = fmt.Errorf("harness: store accepted an interrupted upload")
			}
		} else {
			// the connection drops before the store sees anything
			_, _ = io.CopyN(io.Discard, r, c.Off)
			err = fmt.Errorf("upload interrupted after %d bytes: %w", c.Off, ErrInjected)
		}
		p.done(c, err)
		return nil, err
	}
	info, err := fc.WriteLTXFile(ctx, level, minTXID, maxTXID, r)
	p.done(c, err)
	return info, err
}

func (p *Proxy) DeleteLTXFiles(ctx context.Context, a []*ltx.FileInfo) error {
	level := 0
	var min, max ltx.TXID
	if len(a) > 0 {
		level, min, max = a[0].Level, a[0].MinTXID, a[len(a)-1].MaxTXID
	}
	fc, c := p.pick(OpDelete, level, min, max, KindFailBefore, KindFailAfter)
	c.N = len(a)
	switch c.Kind {
	case KindFailBefore:
		err := fmt.Errorf("delete ltx files: %w", ErrInjected)
		p.done(c, err)
		return err
	case KindFailAfter:
		if err := fc.DeleteLTXFiles(ctx, a); err != nil {
			p.done(c, err)
			return err
		}
		err := fmt.Errorf("delete ltx files (response lost after the delete took effect): %w", ErrInjected)
		p.done(c, err)
		return err
	}
	err := fc.DeleteLTXFiles(ctx, a)
	p.done(c, err)
	return err
}

// 0.3.x read interface: forwarded without faults.

func (p *Proxy) GenerationsV3(ctx context.Context) ([]string, error) {
	return p.client().GenerationsV3(ctx)
}
func (p *Proxy) SnapshotsV3(ctx context.Context, generation string) ([]litestream.SnapshotInfoV3, error) {
	return p.client().SnapshotsV3(ctx, generation)
}
func (p *Proxy) WALSegmentsV3(ctx context.Context, generation string) ([]litestream.WALSegmentInfoV3, error) {
	return p.client().WALSegmentsV3(ctx, generation)
}
func (p *Proxy) OpenSnapshotV3(ctx context.Context, generation string, index int) (io.ReadCloser, error) {
	return p.client().OpenSnapshotV3(ctx, generation, index)
}
func (p *Proxy) OpenWALSegmentV3(ctx context.Context, generation string, index int, offset int64) (io.ReadCloser, error) {
	return p.client().OpenWALSegmentV3(ctx, generation, index, offset)
}
