// vhx-c12 is the private development binary of the C12 builder.
package main

import (
	"io"
	"log/slog"
	"os"

	"verif/harness/internal/vf"

	_ "verif/harness/internal/c12"
)

func main() {
	slog.SetDefault(slog.New(slog.NewTextHandler(io.Discard, nil)))
	os.Exit(vf.Main(os.Args[1:]))
}
