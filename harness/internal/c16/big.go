package c16

import (
	"bytes"
	"context"
	"crypto/sha256"
	"database/sql"
	"encoding/json"
	"errors"
	"fmt"
	"io"
	"log/slog"
	"math/rand"
	"os"
	"path/filepath"
	"strings"
	"syscall"
	"time"

	"github.com/benbjohnson/litestream"
	"github.com/benbjohnson/litestream/file"
	"github.com/superfly/ltx"

	"verif/harness/internal/hist"
	"verif/harness/internal/oracle"
	"verif/harness/internal/sq"
	"verif/harness/internal/vf"
)

// bigSpec: an in-process follower of a database larger than 4 GiB. Every byte
// offset the follower computes for a page above the 4 GiB mark needs 64-bit
// arithmetic; the initial restore goes through the ordinary restore path, so
// only transactions applied incrementally afterwards exercise it. The source is
// built cheaply (zeroblob rows, journalling off), a few rows with random content
// are placed after the bulk so that they live above the mark, and the rounds
// update exactly those rows, grow the database further and update low and high
// pages in one transaction.
type bigSpec struct {
	Kind       string   `json:"kind"` // "big"
	Idx        int      `json:"idx"`
	Seed       int64    `json:"seed"`
	PageSize   int      `json:"ps"`
	AutoVacuum int      `json:"av"`
	Rounds     []string `json:"rounds"` // upd-hi | upd-ovf | grow | grow-zero | span | shrink | multi
	RestartAt  int      `json:"restart_at"`
	Bridge     bool     `json:"bridge"` // Compact(1) with 1ns level-0 retention while the follower is down: it resumes through level 1
	IntervalMs int      `json:"interval_ms"`
}

const (
	bigWaitWall = 8 * time.Minute // initial restore of > 4 GiB happens inside one wait; still only ever inconclusive
	bigLowRows  = 30              // rows of t written before the bulk: their pages are below 1 GiB
	bigHiRows   = 24              // single-page rows of t written after the bulk
	bigOvfRows  = 4               // multi-page (overflow) rows of t written after the bulk
)

type bigRun struct {
	s    bigSpec
	res  *vf.Result
	ctx  context.Context
	dir  string
	path string
	rep  string
	out  string
	ps   int
	mark int // pages 1..mark lie below the 4 GiB offset; pgno > mark is above it
	lock int
	rng  *rand.Rand
	app  *sql.DB
	ls   *litestream.DB
	logs *hist.LogCapture
	t0   time.Time

	f     *follower
	track *sidecarTrack

	hiIDs, ovfIDs []int64
	grown         []int64 // ids of rows added by grow rounds (shrink deletes them again)
	seqRoot       int

	following    bool // the follower has finished its initial restore: later files are applied incrementally
	scannedTo    int
	hiFollowed   int // pages above the mark in level-0 files written since then
	lowFollowed  int
	spanFiles    int
	maxPgno      int
	compared     int
	bytesCmp     int64
	restartsBhd  int
	bridged      int
	ops          []string
	startedWith  bool
	sidecarStart int
	pathOK       bool
}

func (b *bigRun) logf(format string, a ...any) {
	b.res.Logf("[%6.1fs] "+format, append([]any{time.Since(b.t0).Seconds()}, a...)...)
}

func (b *bigRun) blob(n int) []byte {
	p := make([]byte, n)
	b.rng.Read(p)
	return p
}

func (b *bigRun) pageCount() (int, error) {
	var pc int
	err := b.app.QueryRow(`PRAGMA page_count`).Scan(&pc)
	return pc, err
}

func (b *bigRun) cfg() string {
	return fmt.Sprintf("big page_size=%d auto_vacuum=%d bridge=%v", b.ps, b.s.AutoVacuum, b.s.Bridge)
}

// build creates the source: low rows of t, zeroblob bulk up to the 4 GiB mark,
// then the rows the rounds work on. Technique as in C17 (journal_mode=OFF,
// synchronous=OFF during the build, then WAL).
func (b *bigRun) build() error {
	app, err := sq.Open(b.path, 5000, 0, 1)
	if err != nil {
		return err
	}
	b.app = app
	if _, err := app.Exec(fmt.Sprintf("PRAGMA page_size=%d; PRAGMA auto_vacuum=%d; PRAGMA journal_mode=OFF; PRAGMA synchronous=OFF;", b.ps, b.s.AutoVacuum)); err != nil {
		return err
	}
	if _, err := app.Exec(`CREATE TABLE big(id INTEGER PRIMARY KEY, v BLOB); CREATE TABLE t(id INTEGER PRIMARY KEY, v BLOB);`); err != nil {
		return err
	}
	var ps, av int
	if err := app.QueryRow(`PRAGMA page_size`).Scan(&ps); err != nil {
		return err
	}
	if err := app.QueryRow(`PRAGMA auto_vacuum`).Scan(&av); err != nil {
		return err
	}
	if ps != b.ps || av != b.s.AutoVacuum {
		return fmt.Errorf("pragmas not applied: page_size=%d (want %d) auto_vacuum=%d (want %d)", ps, b.ps, av, b.s.AutoVacuum)
	}
	tx, err := app.Begin()
	if err != nil {
		return err
	}
	for i := 0; i < bigLowRows; i++ {
		if _, err := tx.Exec(`INSERT INTO t(v) VALUES(?)`, b.blob(b.ps/3)); err != nil {
			tx.Rollback()
			return err
		}
	}
	if err := tx.Commit(); err != nil {
		return err
	}
	for {
		pc, err := b.pageCount()
		if err != nil {
			return err
		}
		if pc > b.mark+2 {
			break
		}
		// an overflow page carries ps-4 bytes; never more than 32 MiB per row
		n := (b.mark + 8 - pc) * (b.ps - 4)
		if n > 32<<20 {
			n = 32 << 20
		}
		if _, err := app.Exec(`INSERT INTO big(v) VALUES(zeroblob(?))`, n); err != nil {
			return fmt.Errorf("fill: %w", err)
		}
	}
	pc0, _ := b.pageCount()
	// everything allocated from here on lies above the 4 GiB mark (no free pages exist)
	tx, err = app.Begin()
	if err != nil {
		return err
	}
	for i := 0; i < bigHiRows+bigOvfRows; i++ {
		n := b.ps / 3
		if i >= bigHiRows {
			n = 2*b.ps + b.ps/2
		}
		r, err := tx.Exec(`INSERT INTO t(v) VALUES(?)`, b.blob(n))
		if err != nil {
			tx.Rollback()
			return err
		}
		id, _ := r.LastInsertId()
		if i >= bigHiRows {
			b.ovfIDs = append(b.ovfIDs, id)
		} else {
			b.hiIDs = append(b.hiIDs, id)
		}
	}
	if err := tx.Commit(); err != nil {
		return err
	}
	var jm string
	if err := app.QueryRow(`PRAGMA journal_mode=wal`).Scan(&jm); err != nil || jm != "wal" {
		return fmt.Errorf("journal_mode=wal: %v %q", err, jm)
	}
	if _, err := app.Exec(`PRAGMA synchronous=NORMAL`); err != nil {
		return err
	}
	pc, err := b.pageCount()
	if err != nil {
		return err
	}
	// independent check on the file: it is longer than 4 GiB and holds non-zero
	// pages above that offset
	fi, err := os.Stat(b.path)
	if err != nil {
		return err
	}
	if fi.Size() != int64(pc)*int64(b.ps) || fi.Size() <= 1<<32 {
		return fmt.Errorf("built file has %d bytes, page_count %d x %d, want more than 4 GiB", fi.Size(), pc, b.ps)
	}
	fh, err := os.Open(b.path)
	if err != nil {
		return err
	}
	defer fh.Close()
	nz := 0
	buf := make([]byte, b.ps)
	zero := make([]byte, b.ps)
	for off := int64(1) << 32; off < fi.Size(); off += int64(b.ps) {
		if _, err := fh.ReadAt(buf, off); err != nil {
			return err
		}
		if !bytes.Equal(buf, zero) {
			nz++
		}
	}
	if nz < bigHiRows/3+2*bigOvfRows {
		return fmt.Errorf("only %d non-zero pages above the 4 GiB offset after the build (%d pages)", nz, pc)
	}
	b.res.Count("big_built_pages_above_4GiB", pc-b.mark)
	b.res.Count("big_built_nonzero_pages_above_4GiB", nz)
	b.logf("built %d pages of %d bytes (bulk ended at page %d; 4 GiB mark = page %d, lock page %d); %d non-zero pages above 4 GiB", pc, b.ps, pc0, b.mark, b.lock, nz)
	return nil
}

func (b *bigRun) startLS() error {
	db := litestream.NewDB(b.path)
	db.MonitorInterval = 0
	db.ShutdownSyncTimeout = 0
	db.BusyTimeout = time.Second
	db.Logger = slog.New(b.logs)
	db.L0Retention = time.Nanosecond
	fc := file.NewReplicaClient(b.rep)
	db.Replica = litestream.NewReplicaWithClient(db, fc)
	db.Replica.MonitorEnabled = false
	fc.Replica = db.Replica
	b.ls = db
	return db.Open()
}

func (b *bigRun) sync() error {
	var err error
	for try := 0; try < 3; try++ {
		if err = b.ls.SyncAndWait(b.ctx); err == nil {
			b.scanNew()
			return nil
		}
		b.logf("SyncAndWait err=%v (try %d)", err, try)
	}
	return fmt.Errorf("primary SyncAndWait keeps failing: %w", err)
}

// scanNew streams the level-0 files written since the last call and counts the
// pages above the 4 GiB mark (evidence that the followed transactions reach there).
func (b *bigRun) scanNew() {
	for _, f := range oracle.ListLevel(b.rep, 0) {
		if f.Min <= b.scannedTo {
			continue
		}
		b.scannedTo = f.Max
		if !b.following {
			continue // the snapshot and what the initial restore covers
		}
		hi, low, maxp, commit, err := bigScanLTX(f.Path, b.mark, b.lock)
		if err != nil {
			b.logf("scan %s: %v", f, err)
			continue
		}
		b.hiFollowed += hi
		b.lowFollowed += low
		if hi > 0 && low > 0 {
			b.spanFiles++
		}
		if maxp > b.maxPgno {
			b.maxPgno = maxp
		}
		b.logf("%s: commit=%d pages above 4 GiB=%d, pages 2..lock-1=%d, max pgno=%d", f, commit, hi, low, maxp)
	}
}

func bigScanLTX(path string, mark, lock int) (hi, low, maxp, commit int, err error) {
	fh, err := os.Open(path)
	if err != nil {
		return
	}
	defer fh.Close()
	defer func() {
		if p := recover(); p != nil {
			err = fmt.Errorf("ltx decoder panic: %v", p)
		}
	}()
	dec := ltx.NewDecoder(fh)
	if err = dec.DecodeHeader(); err != nil {
		return
	}
	hdr := dec.Header()
	commit = int(hdr.Commit)
	buf := make([]byte, hdr.PageSize)
	for {
		var ph ltx.PageHeader
		if e := dec.DecodePage(&ph, buf); e == io.EOF {
			break
		} else if e != nil {
			err = e
			return
		}
		p := int(ph.Pgno)
		if p > mark {
			hi++
		}
		if p >= 2 && p < lock {
			low++
		}
		if p > maxp {
			maxp = p
		}
	}
	err = dec.Close()
	return
}

// round commits the application transactions of one round (no sync).
func (b *bigRun) round(kind string) error {
	inTx := func(fn func(tx *sql.Tx) error) error {
		tx, err := b.app.Begin()
		if err != nil {
			return err
		}
		if err := fn(tx); err != nil {
			tx.Rollback()
			return fmt.Errorf("round %s: %w", kind, err)
		}
		return tx.Commit()
	}
	pick := func(ids []int64, n int) []int64 {
		var out []int64
		for _, i := range b.rng.Perm(len(ids)) {
			if len(out) < n {
				out = append(out, ids[i])
			}
		}
		return out
	}
	updHi := func(tx *sql.Tx, n int) error {
		for _, id := range pick(b.hiIDs, n) {
			if _, err := tx.Exec(`UPDATE t SET v=? WHERE id=?`, b.blob(b.ps/3), id); err != nil {
				return err
			}
		}
		return nil
	}
	grow := func(tx *sql.Tx) error {
		for i := 0; i < 3; i++ {
			n := b.ps / 3
			if i == 0 {
				n = 3*b.ps + 100
			}
			r, err := tx.Exec(`INSERT INTO t(v) VALUES(?)`, b.blob(n))
			if err != nil {
				return err
			}
			id, _ := r.LastInsertId()
			b.grown = append(b.grown, id)
			if i > 0 {
				b.hiIDs = append(b.hiIDs, id)
			}
		}
		return nil
	}
	switch kind {
	case "upd-hi":
		return inTx(func(tx *sql.Tx) error { return updHi(tx, 5) })
	case "upd-ovf":
		return inTx(func(tx *sql.Tx) error {
			for _, id := range pick(b.ovfIDs, 2) {
				if _, err := tx.Exec(`UPDATE t SET v=? WHERE id=?`, b.blob(2*b.ps+b.ps/2), id); err != nil {
					return err
				}
			}
			return nil
		})
	case "grow":
		return inTx(grow)
	case "grow-zero":
		// 100 further (zero) pages from the bulk table and a random row behind them
		return inTx(func(tx *sql.Tx) error {
			if _, err := tx.Exec(`INSERT INTO big(v) VALUES(zeroblob(?))`, 100*(b.ps-4)); err != nil {
				return err
			}
			return grow(tx)
		})
	case "span":
		// one transaction: rows written before the bulk (pages below 1 GiB) and rows above 4 GiB
		return inTx(func(tx *sql.Tx) error {
			for i := 0; i < 4; i++ {
				if _, err := tx.Exec(`UPDATE t SET v=? WHERE id=?`, b.blob(b.ps/3), 1+b.rng.Intn(bigLowRows)); err != nil {
					return err
				}
			}
			return updHi(tx, 4)
		})
	case "multi":
		// several transactions within one sync
		for _, k := range []string{"upd-hi", "grow", "upd-ovf"} {
			if err := b.round(k); err != nil {
				return err
			}
		}
		return nil
	case "shrink":
		// the file gets shorter but still ends above 4 GiB (auto_vacuum=incremental only)
		if err := inTx(func(tx *sql.Tx) error {
			for _, id := range b.grown {
				if _, err := tx.Exec(`DELETE FROM t WHERE id=?`, id); err != nil {
					return err
				}
			}
			return nil
		}); err != nil {
			return err
		}
		gone := map[int64]bool{}
		for _, id := range b.grown {
			gone[id] = true
		}
		var keep []int64
		for _, id := range b.hiIDs {
			if !gone[id] {
				keep = append(keep, id)
			}
		}
		b.hiIDs, b.grown = keep, nil
		before, _ := b.pageCount()
		if _, err := b.app.Exec(`PRAGMA incremental_vacuum`); err != nil {
			return fmt.Errorf("incremental_vacuum: %w", err)
		}
		after, _ := b.pageCount()
		b.logf("shrink: %d -> %d pages", before, after)
		if after < before && after > b.mark {
			b.res.Count("big_shrink_above_4GiB", 1)
		}
		return nil
	}
	return fmt.Errorf("unknown round kind %q", kind)
}

func (b *bigRun) max() int { return oracle.MaxTXID(b.rep) }

func (b *bigRun) start() {
	_, err := os.Stat(b.out)
	b.startedWith = err == nil
	b.sidecarStart = b.track.sample("before start")
	rmax := b.max()
	b.pathOK = false
	if b.startedWith && b.sidecarStart > 0 {
		b.pathOK, _, _ = bridgePath(b.rep, b.sidecarStart)
	}
	if b.startedWith {
		b.res.Count("follower_restarts", 1)
		if b.sidecarStart > 0 && b.sidecarStart < rmax {
			b.restartsBhd++
			b.res.Count("restart_with_replica_ahead", 1)
			if !hasL0(b.rep, b.sidecarStart+1) {
				b.bridged++
				b.res.Count("restart_needs_gap_bridging", 1)
			}
		}
	}
	b.f = startInproc(b.rep, b.out, time.Duration(b.s.IntervalMs)*time.Millisecond, false)
	b.logf("follower start: db exists=%v sidecar=%d replica max=%d files=%v", b.startedWith, b.sidecarStart, rmax, oracle.ListAll(b.rep))
}

func (b *bigRun) exited(where string) {
	msg, _ := b.f.exitInfo()
	b.f = nil
	if msg == "" {
		b.res.Evals++
		b.res.Violate("follower-exited", "%s: follow mode returned nil without being cancelled", where)
		return
	}
	classifyExit(b.res, where, msg, b.startedWith, b.startedWith, b.sidecarStart, b.max(), snapshotFloor(b.rep), b.pathOK, b.cfg())
}

func (b *bigRun) stop() bool {
	if b.f.exited() {
		b.exited("before stop")
		return false
	}
	if !b.f.stop(60 * time.Second) {
		b.res.HarnessErr = "in-process follower did not return within 60s of context cancellation"
		b.f = nil
		return false
	}
	msg, _ := b.f.exitInfo()
	sc := b.track.sample("after stop")
	b.logf("follower stopped: err=%q sidecar=%d replica max=%d", msg, sc, b.max())
	b.f = nil
	if msg != "" {
		b.res.Count("graceful_stop_returned_error", 1) // as in the hist kind: not a verdict by itself
	}
	return true
}

// catchUp waits on poll cycles (never on the clock) until a cycle starts with
// the replica max applied, then compares the follower file.
func (b *bigRun) catchUp(tag string, final, cmp bool) bool {
	want := b.max()
	stable := 1
	if final {
		stable = stablePolls
	}
	status, applied := b.f.await(want, stable, stallPolls, bigWaitWall, func() { b.track.sample(tag) })
	sc := b.track.sample(tag)
	switch status {
	case awExited:
		b.exited(tag)
		return false
	case awStalled:
		b.res.Evals++
		b.f.kill()
		b.f = nil
		b.res.Violate("no-convergence", "%s: follower completed %d poll cycles without progress while the primary was idle: applied TXID %d, sidecar %d, replica max %d, files %v [%s]",
			tag, stallPolls, applied, sc, want, oracle.ListAll(b.rep), b.cfg())
		return false
	case awTimeout:
		b.f.kill()
		b.f = nil
		b.res.HarnessErr = fmt.Sprintf("%s: wall-clock limit while waiting for the in-process follower (applied=%d want=%d)", tag, applied, want)
		return false
	}
	b.logf("%s: follower reached TXID %d (sidecar %d)", tag, applied, sc)
	if applied > want {
		b.res.Evals++
		b.res.Violate("follower-ahead-of-replica", "%s: follower reports applied TXID %d, replica max is %d", tag, applied, want)
		return false
	}
	if !cmp {
		return true
	}
	// The follower is idle now (it polls, finds nothing) and the primary is
	// quiescent: the three files do not change while they are read.
	ref := filepath.Join(b.dir, "ref.db")
	defer os.Remove(ref)
	r := litestream.NewReplicaWithClient(nil, file.NewReplicaClient(b.rep))
	opt := litestream.NewRestoreOptions()
	opt.OutputPath = ref
	opt.TXID = ltx.TXID(want)
	if err := r.Restore(b.ctx, opt); err != nil {
		b.res.HarnessErr = fmt.Sprintf("%s: reference Restore(TXID=%d) failed: %v", tag, want, err)
		return false
	}
	b.logf("%s: reference restore of TXID %d written", tag, want)
	ok, err := b.compare(tag, want, ref)
	if err != nil {
		b.res.HarnessErr = fmt.Sprintf("%s: compare: %v", tag, err)
		return false
	}
	if !ok {
		return false
	}
	if sc := b.track.sample(tag + " compared"); sc > want {
		b.res.Violate("sidecar-ahead-of-replica", "%s: sidecar TXID %d is above the replica max %d", tag, sc, want)
		return false
	}
	return true
}

type bigDiff struct {
	n     int
	first int
	pages []string
}

func (d *bigDiff) add(pg, off int) {
	if d.n == 0 {
		d.first = pg
	}
	d.n++
	if len(d.pages) < 8 {
		d.pages = append(d.pages, fmt.Sprintf("%d@%d", pg, off))
	}
}

func firstDiff(a, b []byte) int {
	for i := range a {
		if a[i] != b[i] {
			return i
		}
	}
	return -1
}

// compare streams the follower file, the ordinary restore and the committed
// source image (database file overlaid with the committed WAL frames) in one
// pass. follower vs restore: page-1 bytes 18-19, 24-27, 92-99 masked (the
// existing follow mask). follower vs source: the same mask plus the
// _litestream_seq root page (litestream may bump it after the last sync).
func (b *bigRun) compare(tag string, want int, refPath string) (bool, error) {
	ps := b.ps
	if b.seqRoot == 0 {
		if err := b.app.QueryRow(`SELECT rootpage FROM sqlite_master WHERE name='_litestream_seq'`).Scan(&b.seqRoot); err != nil && err != sql.ErrNoRows {
			return false, fmt.Errorf("seq root: %w", err)
		}
	}
	walBytes, err := os.ReadFile(b.path + "-wal")
	if err != nil && !os.IsNotExist(err) {
		return false, err
	}
	wal := oracle.ParseWAL(walBytes)
	overlay := wal.CommittedPages()
	sfi, err := os.Stat(b.path)
	if err != nil {
		return false, err
	}
	srcPages := int(sfi.Size() / int64(ps))
	if wal.LastCommit > 0 {
		srcPages = int(wal.DBSize)
	}
	if pc, err := b.pageCount(); err != nil || pc != srcPages {
		return false, fmt.Errorf("source image: page_count says %d (err=%v), file+WAL say %d", pc, err, srcPages)
	}
	var files [3]*os.File
	var sizes [3]int64
	for i, p := range []string{b.out, refPath, b.path} {
		fh, err := os.Open(p)
		if err != nil {
			if i == 0 {
				b.res.Evals++
				b.res.Violate("follower-differs", "%s: follower database unreadable: %v", tag, err)
				return false, nil
			}
			return false, err
		}
		defer fh.Close()
		fi, err := fh.Stat()
		if err != nil {
			return false, err
		}
		files[i], sizes[i] = fh, fi.Size()
	}
	b.res.Evals += 2
	b.compared++
	b.res.Count("compared_with_restore", 1)
	b.res.Count("big_compared_with_source", 1)
	okAll := true
	if sizes[0] != sizes[1] {
		b.res.Violate("follower-differs", "%s: follower caught up with replica max TXID %d but differs from Restore(TXID=%d): size differs: reference %d bytes (%d pages), follower %d bytes (%d pages) [%s]",
			tag, want, want, sizes[1], sizes[1]/int64(ps), sizes[0], sizes[0]/int64(ps), b.cfg())
		okAll = false
	}
	if sizes[0] != int64(srcPages)*int64(ps) {
		b.res.Violate("big-follower-differs-from-source", "%s: follower at TXID %d has %d bytes (%d pages), the committed source has %d pages [%s]", tag, want, sizes[0], sizes[0]/int64(ps), srcPages, b.cfg())
		okAll = false
	}
	if !okAll {
		return false, nil
	}
	total := srcPages
	const chunkPages = 64
	var bufs [3][]byte
	for i := range bufs {
		bufs[i] = make([]byte, chunkPages*ps)
	}
	// chunks that need page-wise treatment: page 1, the seq root page, WAL-overlaid pages
	special := map[int]bool{0: true}
	if b.seqRoot > 0 {
		special[(b.seqRoot-1)/chunkPages] = true
	}
	for pg := range overlay {
		special[(int(pg)-1)/chunkPages] = true
	}
	mask := func(p []byte) []byte {
		q := append([]byte{}, p...)
		for _, r := range followMask {
			for i := r[0]; i < r[1]; i++ {
				q[i] = 0
			}
		}
		return q
	}
	var dRef, dSrc bigDiff
	for pg := 1; pg <= total; pg += chunkPages {
		n := chunkPages
		if pg+n-1 > total {
			n = total - pg + 1
		}
		for i := range files {
			// the source database file may be shorter than the committed image (pages only in the WAL yet)
			m, err := io.ReadFull(files[i], bufs[i][:n*ps])
			if err != nil && !(i == 2 && (err == io.ErrUnexpectedEOF || err == io.EOF)) {
				return false, fmt.Errorf("read %s at page %d: %w", files[i].Name(), pg, err)
			}
			for j := m; j < n*ps; j++ {
				bufs[i][j] = 0
			}
		}
		b.bytesCmp += int64(3 * n * ps)
		fol, ref, src := bufs[0][:n*ps], bufs[1][:n*ps], bufs[2][:n*ps]
		if !special[(pg-1)/chunkPages] && bytes.Equal(fol, ref) && bytes.Equal(fol, src) {
			continue
		}
		for i := 0; i < n; i++ {
			p := pg + i
			x, y, z := fol[i*ps:(i+1)*ps], ref[i*ps:(i+1)*ps], src[i*ps:(i+1)*ps]
			if off, ok := overlay[uint32(p)]; ok {
				z = walBytes[off+24 : off+24+int64(ps)]
			}
			if p == 1 {
				x, y, z = mask(x), mask(y), mask(z)
			}
			if !bytes.Equal(x, y) {
				dRef.add(p, firstDiff(x, y))
			}
			if p != b.seqRoot && !bytes.Equal(x, z) {
				dSrc.add(p, firstDiff(x, z))
			}
		}
	}
	b.res.Count("big_pages_compared", 2*total)
	if dRef.n > 0 {
		b.res.Violate("follower-differs", "%s: follower caught up with replica max TXID %d but differs from Restore(TXID=%d): %d of %d pages differ, first page %d (page@offset %v; pages above the 4 GiB offset start at %d) [%s]",
			tag, want, want, dRef.n, total, dRef.first, dRef.pages, b.mark+1, b.cfg())
		okAll = false
	}
	if dSrc.n > 0 {
		b.res.Violate("big-follower-differs-from-source", "%s: follower at replica max TXID %d differs from the committed source image: %d of %d pages differ, first page %d (page@offset %v; pages above the 4 GiB offset start at %d, _litestream_seq root %d masked) [%s]",
			tag, want, dSrc.n, total, dSrc.first, dSrc.pages, b.mark+1, b.seqRoot, b.cfg())
		okAll = false
	}
	b.logf("%s: compared %d pages: vs restore %d differing, vs source %d differing (%d pages taken from the WAL)", tag, total, dRef.n, dSrc.n, len(overlay))
	return okAll, nil
}

func (b *bigRun) compact1() {
	info, err := b.ls.Compact(b.ctx, 1)
	if err != nil {
		if !errors.Is(err, litestream.ErrNoCompaction) {
			b.logf("Compact(1) err=%v", err)
		}
		return
	}
	b.res.Count("primary_compact_L1", 1)
	b.logf("Compact(1) -> %d-%d; L0 now %v", info.MinTXID, info.MaxTXID, l0Set(b.rep))
}

// bigLock serialises the big cases of one run across worker processes: each
// needs about 13 GiB of scratch.
func bigLock(scratch string) (func(), error) {
	fh, err := os.OpenFile(filepath.Join(scratch, "c16-big.lock"), os.O_CREATE|os.O_RDWR, 0o644)
	if err != nil {
		return nil, err
	}
	if err := syscall.Flock(int(fh.Fd()), syscall.LOCK_EX); err != nil {
		fh.Close()
		return nil, err
	}
	return func() { _ = syscall.Flock(int(fh.Fd()), syscall.LOCK_UN); fh.Close() }, nil
}

func runBig(run *vf.Run, raw json.RawMessage, dir string) *vf.Result {
	res := &vf.Result{}
	var s bigSpec
	if err := json.Unmarshal(raw, &s); err != nil {
		res.HarnessErr = err.Error()
		return res
	}
	if run.Scratch != "" {
		unlock, err := bigLock(run.Scratch)
		if err != nil {
			res.HarnessErr = "big lock: " + err.Error()
			return res
		}
		defer unlock()
	}
	b := &bigRun{s: s, res: res, ctx: context.Background(), dir: dir, path: filepath.Join(dir, "db"), rep: filepath.Join(dir, "rep"), out: filepath.Join(dir, "follower.db"),
		ps: s.PageSize, mark: int((int64(1) << 32) / int64(s.PageSize)), lock: int(ltx.LockPgno(uint32(s.PageSize))),
		rng: rand.New(rand.NewSource(s.Seed)), logs: &hist.LogCapture{}, t0: time.Now()}
	b.track = &sidecarTrack{out: b.out, res: res}
	defer func() {
		if b.f != nil {
			b.f.kill()
		}
		if b.ls != nil && b.ls.IsOpen() {
			cctx, cancel := context.WithTimeout(b.ctx, 60*time.Second)
			_ = b.ls.Close(cctx)
			cancel()
		}
		if b.app != nil {
			b.app.Close()
		}
	}()
	fail := func(what string, err error) *vf.Result {
		res.HarnessErr = what + ": " + err.Error()
		return res
	}
	finish := func() *vf.Result {
		pc := 0
		if b.app != nil {
			pc, _ = b.pageCount()
		}
		res.Count("big_database_pages", pc)
		res.Count("big_pages_above_4GiB_in_followed_l0_files", b.hiFollowed)
		res.Count("big_pages_below_1GiB_in_followed_l0_files", b.lowFollowed)
		res.Count("big_l0_files_spanning_below_1GiB_and_above_4GiB", b.spanFiles)
		res.Count("big_rounds_compared", b.compared)
		res.Count("big_mib_compared", int(b.bytesCmp>>20))
		res.Count(fmt.Sprintf("page_size_%d", b.ps), 1)
		res.Sig = fmt.Sprintf("%x", sha256.Sum256([]byte(b.cfg()+strings.Join(b.ops, ","))))[:16]
		res.Nontrivial = pc > b.mark && b.hiFollowed >= 1 && b.spanFiles >= 1 && b.restartsBhd >= 1 && b.compared >= 2 && (!s.Bridge || b.bridged >= 1)
		res.Sample = map[string]any{"kind": "big", "cfg": b.cfg(), "interval_ms": s.IntervalMs, "ops": strings.Join(b.ops, " "), "database_pages": pc, "first_page_above_4GiB": b.mark + 1,
			"pages_above_4GiB_written_by_followed_transactions": b.hiFollowed, "highest_page_written_by_followed_transactions": b.maxPgno, "comparisons": b.compared, "bytes_compared": b.bytesCmp,
			"restarts_with_replica_ahead": b.restartsBhd, "restarts_needing_gap_bridging": b.bridged, "sidecar_sequence": b.track.seq, "final_txid": b.max(), "wall_s": int(time.Since(b.t0).Seconds())}
		return res
	}

	if err := b.build(); err != nil {
		return fail("build", err)
	}
	if err := b.startLS(); err != nil {
		return fail("litestream open", err)
	}
	if err := b.sync(); err != nil { // first sync = snapshot of the whole database
		return fail("first sync", err)
	}
	b.logf("first sync done: %v", oracle.ListAll(b.rep))
	if s.Bridge {
		// put the whole database into level 1 once, before the follower exists, so
		// that the compaction in the down-phase only covers the new transactions
		if err := b.round("upd-hi"); err != nil {
			return fail("round", err)
		}
		if err := b.sync(); err != nil {
			return fail("sync", err)
		}
		b.compact1()
	}
	b.start()
	// the initial restore is the ordinary restore path (C01/C17's subject): no comparison yet
	if !b.catchUp("initial restore", false, false) {
		return finish()
	}
	b.following = true

	for i, kind := range s.Rounds {
		tag := fmt.Sprintf("round %d %s", i, kind)
		if i == s.RestartAt {
			// graceful stop; the primary moves on while the follower is down; resume from the sidecar
			if !b.stop() {
				return finish()
			}
			b.ops = append(b.ops, "stop")
			for _, k := range []string{"upd-hi", "grow"} {
				if err := b.round(k); err != nil {
					return fail(tag, err)
				}
				if err := b.sync(); err != nil {
					return fail(tag, err)
				}
				b.ops = append(b.ops, k)
			}
			if s.Bridge {
				b.compact1()
				b.ops = append(b.ops, "compact1")
			}
		}
		if err := b.round(kind); err != nil {
			return fail(tag, err)
		}
		b.logf("%s: application transactions committed", tag)
		if err := b.sync(); err != nil {
			return fail(tag, err)
		}
		b.ops = append(b.ops, kind)
		if b.f == nil {
			b.start()
			b.ops = append(b.ops, "start")
			tag += " after restart"
		}
		if !b.catchUp(tag, i == len(s.Rounds)-1, true) {
			return finish()
		}
	}
	if b.f != nil {
		b.stop()
	}
	return finish()
}
