package c20

import (
	"fmt"
	"sync"
	"sync/atomic"
	"time"

	"github.com/anishathalye/porcupine"
)

// Oracle 2: free-running (unscheduled) histories checked by porcupine against
// a sequential lease specification. Failures are always allowed (the statement
// does not forbid a spurious refusal); a success is allowed only when the
// statement allows it:
//
//	acquire ok : no lease object, or the current lease is of the expired class
//	renew ok   : the handle passed in is the current lease
//	release ok : the handle passed in is the current lease; removes it
type leaseIn struct {
	Kind   byte
	Client int
	Live   bool   // TTL class of the caller
	ETag   string // handle passed to renew / release
}

type leaseOut struct {
	OK   bool
	ETag string // handle returned by acquire / renew
	Gen  int64
	Err  string
}

type leaseState struct {
	Cur  string // ETag of the current lease, "" = none
	Live bool
}

var leaseModel = porcupine.Model{
	Init: func() interface{} { return leaseState{} },
	Step: func(state, input, output interface{}) (bool, interface{}) {
		st, in, out := state.(leaseState), input.(leaseIn), output.(leaseOut)
		if !out.OK {
			return true, st
		}
		switch in.Kind {
		case 'A':
			return st.Cur == "" || !st.Live, leaseState{Cur: out.ETag, Live: in.Live}
		case 'N':
			return st.Cur == in.ETag, leaseState{Cur: out.ETag, Live: in.Live}
		default:
			return st.Cur == in.ETag, leaseState{}
		}
	},
	DescribeOperation: func(input, output interface{}) string {
		in, out := input.(leaseIn), output.(leaseOut)
		return fmt.Sprintf("c%d %c(%s) -> ok=%v %s gen=%d %s", in.Client, in.Kind, short(in.ETag), out.OK, short(out.ETag), out.Gen, out.Err)
	},
}

type freeResult struct {
	history  []porcupine.Operation
	verdict  porcupine.CheckResult
	overlaps int
	log      []string
}

// runFree lets the clients run without a scheduler and checks the history.
func runFree(cfg config) *freeResult {
	st := &store{yield: true}
	leasers := newLeasers(cfg, st)
	var clock atomic.Int64
	var mu sync.Mutex
	var ops []opEvent
	rec := func(e opEvent) {
		e.Clock = clock.Add(1)
		mu.Lock()
		ops = append(ops, e)
		mu.Unlock()
	}
	start := make(chan struct{})
	var wg sync.WaitGroup
	for i := range cfg {
		wg.Add(1)
		go func(i int) {
			defer wg.Done()
			<-start
			runClient(i, leasers[i], cfg[i].Prog, rec)
		}(i)
	}
	close(start)
	wg.Wait()

	fr := &freeResult{}
	open := map[int]opEvent{}
	for _, e := range ops {
		if e.Start {
			open[e.Client] = e
			continue
		}
		s := open[e.Client]
		in := leaseIn{Kind: e.Kind, Client: e.Client, Live: cfg[e.Client].TTL > 0}
		if s.Lease != nil {
			in.ETag = s.Lease.ETag
		}
		out := leaseOut{OK: e.Err == nil}
		if e.Err != nil {
			out.Err = e.Err.Error()
		} else if e.Lease != nil {
			out.ETag, out.Gen = e.Lease.ETag, e.Lease.Generation
		}
		fr.history = append(fr.history, porcupine.Operation{ClientId: e.Client, Input: in, Call: s.Clock, Output: out, Return: e.Clock})
		fr.log = append(fr.log, fmt.Sprintf("[%d,%d] %s", s.Clock, e.Clock, leaseModel.DescribeOperation(in, out)))
	}
	for a := range fr.history {
		for b := a + 1; b < len(fr.history); b++ {
			x, y := fr.history[a], fr.history[b]
			if x.ClientId != y.ClientId && x.Call < y.Return && y.Call < x.Return {
				fr.overlaps++
			}
		}
	}
	fr.verdict = porcupine.CheckOperationsTimeout(leaseModel, fr.history, 20*time.Second)
	st.mu.Lock()
	for _, e := range st.events {
		fr.log = append(fr.log, "  store: "+e.String())
	}
	st.mu.Unlock()
	return fr
}
