#!/usr/bin/env python3
"""Runs the pinned suite (hooks off) and compares with BASELINE.json's stable_pass list.
usage: suite.py [pkgpattern ...]   (default ./...)"""
import json, subprocess, sys, os
base = json.load(open('/root/.vp/BASELINE.json'))
stable = set(base['stable_pass'])
pk = sys.argv[1:] or ['./...']
env = dict(os.environ, GOFLAGS='-mod=mod', GOPROXY='off')
p = subprocess.run(['go', 'test', '-json', '-vet=off', '-count=1', '-timeout', '25m'] + pk, cwd='/repo', env=env, capture_output=True, text=True)
res = {}
for line in p.stdout.splitlines():
    try:
        e = json.loads(line)
    except Exception:
        continue
    if e.get('Test') and e.get('Action') in ('pass', 'fail', 'skip'):
        res[e['Package'] + '::' + e['Test']] = e['Action']
pkgs = set(k.split('::')[0] for k in res)
want = [t for t in stable if t.split('::')[0] in pkgs]
bad = [t for t in want if res.get(t) != 'pass']
newfail = [t for t, a in res.items() if a == 'fail' and t in stable]
print(f"packages={len(pkgs)} tests_seen={len(res)} stable_in_scope={len(want)} not_passing={len(bad)}")
for t in sorted(bad)[:40]:
    print("  NOT PASSING:", t, res.get(t))
sys.exit(1 if bad else 0)
