package hist

import (
	"errors"
	"fmt"
	"os"
	"path/filepath"
	"syscall"

	"github.com/benbjohnson/litestream"
)

// Local "disk full" faults. The litestream meta directory (local LTX staging
// area) is placed on its own small tmpfs; filling that file system with a
// ballast file makes every write litestream issues there fail with ENOSPC while
// reads, listings, renames and unlinks keep working - exactly what a full disk
// does - and removing the ballast ends the fault. The application's database and
// WAL live outside the mount and are never affected. Nothing in /repo is hooked.

// MetaDir returns the meta directory litestream derives for the source database.
func (e *Env) MetaDir() string { return litestream.NewDB(e.DBPath).MetaPath() }

// MountMeta mounts a tmpfs of the given size over the (still empty or absent)
// meta directory. It returns an error when mounting is not possible in this
// environment; callers then run without local faults and say so in the evidence.
func (e *Env) MountMeta(sizeMB int) error {
	d := e.MetaDir()
	if err := os.MkdirAll(d, 0o755); err != nil {
		return err
	}
	if err := syscall.Mount("tmpfs", d, "tmpfs", 0, fmt.Sprintf("size=%dm,mode=0755", sizeMB)); err != nil {
		return fmt.Errorf("mount tmpfs on %s: %w", d, err)
	}
	e.metaMounted = true
	return nil
}

// UnmountMeta detaches the tmpfs (lazy, so that descriptors litestream may still
// hold do not keep the case directory busy).
func (e *Env) UnmountMeta() {
	if e.metaMounted {
		_ = syscall.Unmount(e.MetaDir(), syscall.MNT_DETACH)
		e.metaMounted = false
	}
}

func (e *Env) MetaMounted() bool { return e.metaMounted }
func (e *Env) MetaIsFull() bool  { return e.metaFull }

// MetaFull switches the disk-full condition on the meta file system on or off.
func (e *Env) MetaFull(on bool) error {
	if !e.metaMounted || on == e.metaFull {
		return nil
	}
	b := filepath.Join(e.MetaDir(), ".ballast")
	if !on {
		e.metaFull = false
		if err := os.Remove(b); err != nil && !os.IsNotExist(err) {
			return err
		}
		return nil
	}
	f, err := os.OpenFile(b, os.O_CREATE|os.O_WRONLY|os.O_APPEND, 0o600)
	if err != nil {
		return err
	}
	defer f.Close()
	chunk := make([]byte, 1<<20)
	for len(chunk) > 0 {
		_, err := f.Write(chunk)
		if err == nil {
			continue
		}
		if !errors.Is(err, syscall.ENOSPC) {
			return err
		}
		chunk = chunk[:len(chunk)/2]
	}
	e.metaFull = true
	return nil
}

// MetaNearlyFull fills the meta file system but leaves about `leave` bytes free (rounded
// to the file system's 4 KiB blocks), so that an operation that stages several files gets
// its first one(s) written and then runs out of space.
func (e *Env) MetaNearlyFull(leave int64) error {
	if !e.metaMounted {
		return nil
	}
	if err := e.MetaFull(true); err != nil {
		return err
	}
	b := filepath.Join(e.MetaDir(), ".ballast")
	fi, err := os.Stat(b)
	if err != nil {
		return err
	}
	n := fi.Size() - leave
	if n < 0 {
		n = 0
	}
	return os.Truncate(b, n)
}

// ---------------------------------------------------------------------------
// the same facility for checks that do not use Env

// MountTmpfs mounts a tmpfs of sizeMB over dir (created if needed).
func MountTmpfs(dir string, sizeMB int) error {
	if err := os.MkdirAll(dir, 0o755); err != nil {
		return err
	}
	if err := syscall.Mount("tmpfs", dir, "tmpfs", 0, fmt.Sprintf("size=%dm,mode=0755", sizeMB)); err != nil {
		return fmt.Errorf("mount tmpfs on %s: %w", dir, err)
	}
	return nil
}

// UnmountTmpfs lazily detaches what MountTmpfs mounted.
func UnmountTmpfs(dir string) { _ = syscall.Unmount(dir, syscall.MNT_DETACH) }

// FillFS writes a ballast file until the file system holding dir is full.
func FillFS(dir string) error {
	f, err := os.OpenFile(filepath.Join(dir, ".ballast"), os.O_CREATE|os.O_WRONLY|os.O_APPEND, 0o600)
	if err != nil {
		return err
	}
	defer f.Close()
	chunk := make([]byte, 1<<20)
	for len(chunk) > 0 {
		if _, err := f.Write(chunk); err == nil {
			continue
		} else if !errors.Is(err, syscall.ENOSPC) {
			return err
		}
		chunk = chunk[:len(chunk)/2]
	}
	return nil
}

// FreeFS removes the ballast.
func FreeFS(dir string) error {
	if err := os.Remove(filepath.Join(dir, ".ballast")); err != nil && !os.IsNotExist(err) {
		return err
	}
	return nil
}
