package c03

import (
	"bufio"
	"context"
	"encoding/json"
	"errors"
	"fmt"
	"io"
	"log/slog"
	"os"
	"path/filepath"
	"strconv"
	"strings"
	"sync"
	"time"

	"github.com/benbjohnson/litestream"
	"github.com/benbjohnson/litestream/file"
	"github.com/superfly/ltx"
)

// VictimArg is the first argument that turns the harness binary into the
// victim: `vh victim-c03 <json VictimCfg>`. The victim is the litestream
// process of E-CRASH / E-TRACE: it owns the litestream DB object for
// <Dir>/db replicating to <Dir>/rep, has every background monitor switched
// off, reads commands on stdin and answers each with one line on stdout
// ("ok <cmd> ..." or "err <cmd> <message>"). The application (the SQLite
// writer) lives in the driver process and is never killed.
const VictimArg = "victim-c03"

// VictimCfg configures one victim process.
type VictimCfg struct {
	Dir                string `json:"dir"`
	MinCheckpointPageN int    `json:"min_ckpt"`
	TruncatePageN      int    `json:"trunc"`
	CheckpointInterval int64  `json:"ckpt_interval_ns"`
	VerifyCompaction   bool   `json:"verify_compaction,omitempty"`
}

func (c VictimCfg) DBPath() string   { return filepath.Join(c.Dir, "db") }
func (c VictimCfg) RepPath() string  { return filepath.Join(c.Dir, "rep") }
func (c VictimCfg) MetaPath() string { return filepath.Join(c.Dir, ".db-litestream") }

func init() {
	if len(os.Args) > 2 && os.Args[1] == VictimArg {
		os.Exit(victimMain(os.Args[2]))
	}
}

var quiet = slog.New(slog.NewTextHandler(io.Discard, nil))

type victim struct {
	cfg   VictimCfg
	db    *litestream.DB
	fault *faultClient
	mu    sync.Mutex // stdout

	// follow mode (one follower at a time)
	fmu      sync.Mutex
	fcancel  context.CancelFunc
	fdone    chan error
	fapplied uint64
	fentered bool
}

func (v *victim) say(format string, a ...any) {
	v.mu.Lock()
	defer v.mu.Unlock()
	// one write(2) per line: the line is the "operation reported success" event of C11
	_, _ = os.Stdout.WriteString(fmt.Sprintf(format, a...) + "\n")
}

func (v *victim) newDB() *litestream.DB {
	c := v.cfg
	db := litestream.NewDB(c.DBPath())
	db.MonitorInterval = 0
	db.ShutdownSyncTimeout = 0
	db.BusyTimeout = 200 * time.Millisecond
	db.Logger = quiet
	if c.MinCheckpointPageN > 0 {
		db.MinCheckpointPageN = c.MinCheckpointPageN
	}
	db.TruncatePageN = c.TruncatePageN
	db.CheckpointInterval = time.Duration(c.CheckpointInterval)
	db.VerifyCompaction = c.VerifyCompaction
	fc := file.NewReplicaClient(c.RepPath())
	fc.SetLogger(quiet)
	v.fault = &faultClient{ReplicaClient: fc}
	db.Replica = litestream.NewReplicaWithClient(db, v.fault)
	db.Replica.MonitorEnabled = false
	fc.Replica = db.Replica
	return db
}

// faultClient is a pass-through around the real file replica client. When armed
// (snapshot-fail / compact-fail commands) the next WriteLTXFile hands the real
// client a reader that returns an error after failAfter bytes: the fault is in
// this wrapper, everything the file client does with it is the real code.
type faultClient struct {
	litestream.ReplicaClient
	failAfter int64 // 0 = pass through
	fired     bool
}

var errInjected = errors.New("harness: injected upload stream failure")

type failingReader struct {
	r    io.Reader
	left int64
}

func (f *failingReader) Read(p []byte) (int, error) {
	if f.left <= 0 {
		return 0, errInjected
	}
	if int64(len(p)) > f.left {
		p = p[:f.left]
	}
	n, err := f.r.Read(p)
	f.left -= int64(n)
	return n, err
}

func (c *faultClient) WriteLTXFile(ctx context.Context, level int, minTXID, maxTXID ltx.TXID, r io.Reader) (*ltx.FileInfo, error) {
	if c.failAfter > 0 {
		r = &failingReader{r: r, left: c.failAfter}
		c.failAfter = 0
		c.fired = true
	}
	return c.ReplicaClient.WriteLTXFile(ctx, level, minTXID, maxTXID, r)
}

// followHandler turns the follower's own progress reports into marker lines.
type followHandler struct{ v *victim }

func (h followHandler) Enabled(context.Context, slog.Level) bool { return true }
func (h followHandler) WithAttrs([]slog.Attr) slog.Handler       { return h }
func (h followHandler) WithGroup(string) slog.Handler            { return h }
func (h followHandler) Handle(_ context.Context, r slog.Record) error {
	get := func(key string) string {
		s := ""
		r.Attrs(func(a slog.Attr) bool {
			if a.Key == key {
				s = a.Value.String()
				return false
			}
			return true
		})
		return s
	}
	switch r.Message {
	case "entering follow mode":
		t, _ := ltx.ParseTXID(get("txid"))
		h.v.fmu.Lock()
		h.v.fentered = true
		if uint64(t) > h.v.fapplied {
			h.v.fapplied = uint64(t)
		}
		h.v.fmu.Unlock()
		h.v.say("ok follow-entered %d", uint64(t))
	case "follow: applied updates":
		t, _ := ltx.ParseTXID(get("to_txid"))
		h.v.fmu.Lock()
		if uint64(t) > h.v.fapplied {
			h.v.fapplied = uint64(t)
		}
		h.v.fmu.Unlock()
		h.v.say("ok follow-applied %d", uint64(t))
	}
	return nil
}

func victimMain(arg string) int {
	v := &victim{}
	// Replicas without a DB (restore, follow) log through slog.Default(): the handler turns the
	// follower's progress reports into marker lines and drops everything else.
	slog.SetDefault(slog.New(followHandler{v}))
	if err := json.Unmarshal([]byte(arg), &v.cfg); err != nil {
		fmt.Fprintln(os.Stderr, "victim: bad config:", err)
		return 2
	}
	ctx := context.Background()
	v.db = v.newDB()
	if err := v.db.Open(); err != nil {
		v.say("err open %s", oneLine(err))
		return 3
	}
	v.say("ok open")
	sc := bufio.NewScanner(os.Stdin)
	sc.Buffer(make([]byte, 1<<16), 1<<16)
	for sc.Scan() {
		f := strings.Fields(sc.Text())
		if len(f) == 0 {
			continue
		}
		extra, err := v.exec(ctx, f)
		if err != nil {
			v.say("err %s %s", f[0], oneLine(err))
		} else {
			v.say("ok %s %s", f[0], extra)
		}
		if f[0] == "exit" {
			return 0
		}
	}
	return 0
}

func oneLine(err error) string {
	return strings.ReplaceAll(strings.ReplaceAll(err.Error(), "\n", " "), "\r", " ")
}

func kv(args []string, key, def string) string {
	for _, a := range args {
		if v, ok := strings.CutPrefix(a, key+"="); ok {
			return v
		}
	}
	return def
}

func (v *victim) pos() uint64 {
	p, err := v.db.Pos()
	if err != nil {
		return 0
	}
	return uint64(p.TXID)
}

func (v *victim) exec(ctx context.Context, f []string) (string, error) {
	db := v.db
	switch f[0] {
	case "sync":
		if err := db.Sync(ctx); err != nil {
			return "", err
		}
		return fmt.Sprint(v.pos()), nil
	case "sync-wait": // the acknowledgement: local copy + upload completed
		if err := db.SyncAndWait(ctx); err != nil {
			return "", err
		}
		return fmt.Sprint(v.pos()), nil
	case "replica-sync":
		return "", db.Replica.Sync(ctx)
	case "checkpoint":
		if len(f) < 2 {
			return "", errors.New("mode required")
		}
		return f[1], db.Checkpoint(ctx, f[1])
	case "compact":
		if len(f) < 2 {
			return "", errors.New("level required")
		}
		lvl, err := strconv.Atoi(f[1])
		if err != nil {
			return "", err
		}
		info, err := db.Compact(ctx, lvl)
		if errors.Is(err, litestream.ErrNoCompaction) {
			return "none", nil
		} else if err != nil {
			return "", err
		}
		return fmt.Sprintf("L%d/%d-%d", info.Level, uint64(info.MinTXID), uint64(info.MaxTXID)), nil
	case "snapshot":
		info, err := db.Snapshot(ctx)
		if err != nil {
			return "", err
		}
		return fmt.Sprintf("L%d/%d-%d", info.Level, uint64(info.MinTXID), uint64(info.MaxTXID)), nil
	case "retention":
		if len(f) < 2 {
			return "", errors.New("kind required")
		}
		switch f[1] {
		case "l0": // every L0 file is older than the threshold by construction (1ns)
			db.L0Retention = time.Nanosecond
			return "", db.EnforceL0RetentionByTime(ctx)
		case "snap": // what Store.EnforceSnapshotRetention does; threshold an hour ahead of every file
			minTXID, err := db.EnforceSnapshotRetention(ctx, time.Now().Add(time.Hour))
			if err != nil {
				return "", err
			}
			for _, lvl := range f[2:] {
				n, err := strconv.Atoi(lvl)
				if err != nil {
					return "", err
				}
				if err := db.EnforceRetentionByTXID(ctx, n, minTXID); err != nil {
					return "", fmt.Errorf("L%d: %w", n, err)
				}
			}
			return fmt.Sprint(uint64(minTXID)), nil
		case "txid":
			if len(f) < 4 {
				return "", errors.New("level and txid required")
			}
			lvl, _ := strconv.Atoi(f[2])
			n, _ := strconv.ParseUint(f[3], 10, 64)
			return "", db.EnforceRetentionByTXID(ctx, lvl, ltx.TXID(n))
		}
		return "", fmt.Errorf("unknown retention kind %q", f[1])
	case "snapshot-fail", "compact-fail":
		// snapshot-fail <k> | compact-fail <level> <k>: the same operation, but the upload stream
		// breaks after k bytes. The operation is expected to fail ("err ..." reply).
		if len(f) < 2 {
			return "", errors.New("byte count required")
		}
		k, err := strconv.ParseInt(f[len(f)-1], 10, 64)
		if err != nil || k <= 0 {
			return "", errors.New("bad byte count")
		}
		v.fault.failAfter, v.fault.fired = k, false
		var opErr error
		if f[0] == "snapshot-fail" {
			_, opErr = db.Snapshot(ctx)
		} else {
			if len(f) < 3 {
				return "", errors.New("level required")
			}
			lvl, _ := strconv.Atoi(f[1])
			_, opErr = db.Compact(ctx, lvl)
		}
		fired := v.fault.fired
		v.fault.failAfter = 0
		if opErr == nil {
			return fmt.Sprintf("completed-without-failure fired=%v", fired), nil
		}
		return "", opErr
	case "max-sync-wal": // byte budget of one DB.sync chunk (0 = unlimited)
		if len(f) < 2 {
			return "", errors.New("bytes required")
		}
		n, err := strconv.ParseInt(f[1], 10, 64)
		if err != nil {
			return "", err
		}
		db.MaxSyncWALBytes = n
		return f[1], nil
	case "restore": // restore <name> [ic=none|quick|full] [txid=N]   (what `litestream restore` does)
		if len(f) < 2 {
			return "", errors.New("name required")
		}
		opt := litestream.NewRestoreOptions()
		opt.OutputPath = filepath.Join(v.cfg.Dir, f[1])
		switch kv(f[2:], "ic", "none") {
		case "quick":
			opt.IntegrityCheck = litestream.IntegrityCheckQuick
		case "full":
			opt.IntegrityCheck = litestream.IntegrityCheckFull
		}
		if s := kv(f[2:], "txid", ""); s != "" {
			n, err := strconv.ParseUint(s, 10, 64)
			if err != nil {
				return "", err
			}
			opt.TXID = ltx.TXID(n)
		}
		if kv(f[2:], "bare", "") != "" {
			// output path without a directory component, relative to the working directory
			// (what `litestream restore -o restored.db ...` does)
			if err := os.Chdir(v.cfg.Dir); err != nil {
				return "", err
			}
			opt.OutputPath = f[1]
		}
		rp := v.cfg.RepPath()
		if sub := kv(f[2:], "rep", ""); sub != "" { // another replica directory under the scenario root (v0.3.x layout)
			rp = filepath.Join(v.cfg.Dir, sub)
		}
		fc := file.NewReplicaClient(rp)
		fc.SetLogger(quiet)
		r := litestream.NewReplicaWithClient(nil, fc)
		return f[1], r.Restore(ctx, opt)
	case "follow-start": // follow-start <name>: Restore(Follow) in a goroutine until follow-stop
		if len(f) < 2 {
			return "", errors.New("name required")
		}
		v.fmu.Lock()
		if v.fdone != nil {
			v.fmu.Unlock()
			return "", errors.New("follower already running")
		}
		fctx, cancel := context.WithCancel(ctx)
		v.fcancel, v.fdone, v.fapplied, v.fentered = cancel, make(chan error, 1), 0, false
		done := v.fdone
		v.fmu.Unlock()
		opt := litestream.NewRestoreOptions()
		opt.OutputPath = filepath.Join(v.cfg.Dir, f[1])
		opt.Follow = true
		opt.FollowInterval = 2 * time.Millisecond
		fc := file.NewReplicaClient(v.cfg.RepPath())
		fc.SetLogger(quiet)
		r := litestream.NewReplicaWithClient(nil, fc)
		go func() { done <- r.Restore(fctx, opt) }()
		return f[1], nil
	case "follow-wait": // follow-wait <txid>: until the follower has reported that TXID as applied
		if len(f) < 2 {
			return "", errors.New("txid required")
		}
		want, _ := strconv.ParseUint(f[1], 10, 64)
		deadline := time.Now().Add(90 * time.Second)
		for {
			v.fmu.Lock()
			got, entered, done := v.fapplied, v.fentered, v.fdone
			v.fmu.Unlock()
			if done == nil {
				return "", errors.New("no follower")
			}
			if entered && got >= want {
				return fmt.Sprint(got), nil
			}
			select {
			case err := <-done:
				v.fmu.Lock()
				v.fdone = nil
				v.fmu.Unlock()
				return "", fmt.Errorf("follower ended: %v", err)
			default:
			}
			if time.Now().After(deadline) {
				return "", fmt.Errorf("follower stuck at %d (want %d)", got, want)
			}
			time.Sleep(time.Millisecond)
		}
	case "follow-stop":
		v.fmu.Lock()
		cancel, done := v.fcancel, v.fdone
		v.fmu.Unlock()
		if done == nil {
			return "", errors.New("no follower")
		}
		cancel()
		err := <-done
		v.fmu.Lock()
		v.fdone, v.fcancel = nil, nil
		v.fmu.Unlock()
		return "", err
	case "close": // a clean shutdown that returns nil is an acknowledgement as well
		if err := db.Close(ctx); err != nil {
			return "", err
		}
		return fmt.Sprint(v.pos()), nil
	case "reopen": // new DB object in the same process
		v.db = v.newDB()
		return "", v.db.Open()
	case "pos":
		return fmt.Sprint(v.pos()), nil
	case "exit":
		return "", nil
	}
	return "", fmt.Errorf("unknown command")
}
