// ptsup: ptrace supervisor. Modes:
//   ptsup count <root> <logfile> -- cmd args...   : run to completion, log every fs-mutating syscall under <root>
//   ptsup kill  <root> <logfile> <N> -- cmd args... : SIGKILL the whole tracee group right before the N-th such syscall
#define _GNU_SOURCE
#include <errno.h>
#include <fcntl.h>
#include <signal.h>
#include <stdio.h>
#include <stdlib.h>
#include <string.h>
#include <sys/ptrace.h>
#include <sys/syscall.h>
#include <sys/types.h>
#include <sys/uio.h>
#include <sys/user.h>
#include <sys/wait.h>
#include <unistd.h>

#define MAXT 4096
static struct { pid_t tid; int insys; } T[MAXT];
static int nT;

static int *state(pid_t tid) {
  for (int i = 0; i < nT; i++) if (T[i].tid == tid) return &T[i].insys;
  if (nT < MAXT) { T[nT].tid = tid; T[nT].insys = 0; return &T[nT++].insys; }
  return NULL;
}
static void forget(pid_t tid) {
  for (int i = 0; i < nT; i++) if (T[i].tid == tid) { T[i] = T[--nT]; return; }
}

static int readstr(pid_t pid, unsigned long addr, char *buf, size_t n) {
  struct iovec l = {buf, n - 1}, r = {(void *)addr, n - 1};
  ssize_t k = process_vm_readv(pid, &l, 1, &r, 1, 0);
  if (k <= 0) {
    // fall back to shorter read (page boundary)
    size_t m = 4096 - (addr & 4095);
    if (m > n - 1) m = n - 1;
    l.iov_len = r.iov_len = m;
    k = process_vm_readv(pid, &l, 1, &r, 1, 0);
    if (k <= 0) { buf[0] = 0; return -1; }
  }
  buf[k] = 0;
  buf[strnlen(buf, k)] = 0;
  return 0;
}
static void fdpath(pid_t pid, int fd, char *buf, size_t n) {
  char p[64];
  snprintf(p, sizeof p, "/proc/%d/fd/%d", pid, fd);
  ssize_t k = readlink(p, buf, n - 1);
  if (k < 0) k = 0;
  buf[k] = 0;
}

int main(int argc, char **argv) {
  if (argc < 5) { fprintf(stderr, "usage\n"); return 2; }
  int killmode = !strcmp(argv[1], "kill");
  const char *root = argv[2];
  FILE *log = fopen(argv[3], "w");
  long N = 0;
  int ai = 4;
  if (killmode) { N = atol(argv[4]); ai = 5; }
  if (strcmp(argv[ai], "--")) { fprintf(stderr, "expected --\n"); return 2; }
  ai++;
  pid_t child = fork();
  if (child == 0) {
    setpgid(0, 0);
    ptrace(PTRACE_TRACEME, 0, 0, 0);
    raise(SIGSTOP);
    execvp(argv[ai], argv + ai);
    perror("exec");
    _exit(127);
  }
  int st;
  waitpid(child, &st, 0);
  long opts = PTRACE_O_TRACESYSGOOD | PTRACE_O_TRACECLONE | PTRACE_O_TRACEFORK | PTRACE_O_TRACEVFORK | PTRACE_O_TRACEEXEC | PTRACE_O_EXITKILL;
  ptrace(PTRACE_SETOPTIONS, child, 0, opts);
  ptrace(PTRACE_SYSCALL, child, 0, 0);
  long count = 0;
  int exitcode = 0;
  size_t rootlen = strlen(root);
  for (;;) {
    pid_t tid = waitpid(-1, &st, __WALL);
    if (tid < 0) { if (errno == ECHILD) break; if (errno == EINTR) continue; break; }
    if (WIFEXITED(st) || WIFSIGNALED(st)) {
      if (tid == child) exitcode = WIFEXITED(st) ? WEXITSTATUS(st) : 128 + WTERMSIG(st);
      forget(tid);
      continue;
    }
    if (!WIFSTOPPED(st)) continue;
    int sig = WSTOPSIG(st);
    int ev = st >> 16;
    if (sig == (SIGTRAP | 0x80)) {
      int *ins = state(tid);
      if (ins && !*ins) {
        *ins = 1;
        struct user_regs_struct r;
        if (ptrace(PTRACE_GETREGS, tid, 0, &r) == 0) {
          long nr = r.orig_rax;
          char p1[4096] = "", p2[4096] = "";
          const char *name = NULL;
          switch (nr) {
          case SYS_openat: {
            int fl = (int)r.rdx;
            if ((fl & O_ACCMODE) != O_RDONLY || (fl & (O_CREAT | O_TRUNC))) { name = "openat"; readstr(tid, r.rsi, p1, sizeof p1); }
            break; }
          case SYS_open: {
            int fl = (int)r.rsi;
            if ((fl & O_ACCMODE) != O_RDONLY || (fl & (O_CREAT | O_TRUNC))) { name = "open"; readstr(tid, r.rdi, p1, sizeof p1); }
            break; }
          case SYS_write: name = "write"; fdpath(tid, (int)r.rdi, p1, sizeof p1); break;
          case SYS_pwrite64: name = "pwrite64"; fdpath(tid, (int)r.rdi, p1, sizeof p1); break;
          case SYS_writev: name = "writev"; fdpath(tid, (int)r.rdi, p1, sizeof p1); break;
          case SYS_pwritev: name = "pwritev"; fdpath(tid, (int)r.rdi, p1, sizeof p1); break;
          case SYS_copy_file_range: name = "copy_file_range"; fdpath(tid, (int)r.rdx, p1, sizeof p1); break;
          case SYS_sendfile: name = "sendfile"; fdpath(tid, (int)r.rdi, p1, sizeof p1); break;
          case SYS_fsync: name = "fsync"; fdpath(tid, (int)r.rdi, p1, sizeof p1); break;
          case SYS_fdatasync: name = "fdatasync"; fdpath(tid, (int)r.rdi, p1, sizeof p1); break;
          case SYS_ftruncate: name = "ftruncate"; fdpath(tid, (int)r.rdi, p1, sizeof p1); break;
          case SYS_fallocate: name = "fallocate"; fdpath(tid, (int)r.rdi, p1, sizeof p1); break;
          case SYS_fchown: name = "fchown"; fdpath(tid, (int)r.rdi, p1, sizeof p1); break;
          case SYS_fchmod: name = "fchmod"; fdpath(tid, (int)r.rdi, p1, sizeof p1); break;
          case SYS_rename: name = "rename"; readstr(tid, r.rdi, p1, sizeof p1); readstr(tid, r.rsi, p2, sizeof p2); break;
          case SYS_renameat: case SYS_renameat2: name = "renameat"; readstr(tid, r.rsi, p1, sizeof p1); readstr(tid, r.r10, p2, sizeof p2); break;
          case SYS_unlink: name = "unlink"; readstr(tid, r.rdi, p1, sizeof p1); break;
          case SYS_unlinkat: name = "unlinkat"; readstr(tid, r.rsi, p1, sizeof p1); break;
          case SYS_rmdir: name = "rmdir"; readstr(tid, r.rdi, p1, sizeof p1); break;
          case SYS_mkdir: name = "mkdir"; readstr(tid, r.rdi, p1, sizeof p1); break;
          case SYS_mkdirat: name = "mkdirat"; readstr(tid, r.rsi, p1, sizeof p1); break;
          case SYS_utimensat: name = "utimensat"; readstr(tid, r.rsi, p1, sizeof p1); break;
          case SYS_fchownat: name = "fchownat"; readstr(tid, r.rsi, p1, sizeof p1); break;
          case SYS_fchmodat: name = "fchmodat"; readstr(tid, r.rsi, p1, sizeof p1); break;
          case SYS_truncate: name = "truncate"; readstr(tid, r.rdi, p1, sizeof p1); break;
          }
          if (name && (!strncmp(p1, root, rootlen) || !strncmp(p2, root, rootlen))) {
            count++;
            fprintf(log, "%ld %d %s %s %s\n", count, tid, name, p1, p2);
            if (killmode && count == N) {
              fprintf(log, "KILL before %ld\n", count);
              fflush(log);
              kill(-child, SIGKILL);
              kill(child, SIGKILL);
              // reap everything
              while (waitpid(-1, &st, __WALL) > 0 || errno == EINTR) {}
              fclose(log);
              return 137;
            }
          }
        }
      } else if (ins) {
        *ins = 0;
      }
      ptrace(PTRACE_SYSCALL, tid, 0, 0);
      continue;
    }
    if (sig == SIGTRAP && ev != 0) {
      // clone/fork/exec event
      if (ev == PTRACE_EVENT_EXEC) { int *ins = state(tid); if (ins) *ins = 0; }
      ptrace(PTRACE_SYSCALL, tid, 0, 0);
      continue;
    }
    if (sig == SIGSTOP) {
      // new thread/child initial stop (or a real SIGSTOP): is it new?
      int known = 0;
      for (int i = 0; i < nT; i++) if (T[i].tid == tid) known = 1;
      if (!known) { state(tid); ptrace(PTRACE_SYSCALL, tid, 0, 0); continue; }
    }
    if (sig == SIGTRAP) { ptrace(PTRACE_SYSCALL, tid, 0, 0); continue; }
    // deliver other signals
    ptrace(PTRACE_SYSCALL, tid, 0, sig);
  }
  fprintf(log, "TOTAL %ld exit %d\n", count, exitcode);
  fclose(log);
  return exitcode;
}
