package hist

import (
	"bytes"
	"context"
	"encoding/json"
	"fmt"
	"io"
	"log/slog"
	"net"
	"net/http"
	"path/filepath"
	"time"

	"github.com/benbjohnson/litestream"
)

// Daemon wraps the DB in a Store with a control Server on a unix socket, all
// background monitors off, so acknowledgements can be taken through
// Store.SyncDB and the /sync endpoint (what `litestream sync -wait` calls).
type Daemon struct {
	Store  *litestream.Store
	Server *litestream.Server
	Sock   string
	HTTP   *http.Client
}

func (e *Env) StartDaemon(levels litestream.CompactionLevels) (*Daemon, error) {
	e.LS = e.NewLS()
	if levels == nil {
		levels = litestream.CompactionLevels{{Level: 0}, {Level: 1, Interval: time.Nanosecond}, {Level: 2, Interval: time.Nanosecond}}
	}
	st := litestream.NewStore([]*litestream.DB{e.LS}, levels)
	st.CompactionMonitorEnabled = false
	st.L0RetentionCheckInterval = 0
	st.HeartbeatCheckInterval = 0
	st.Logger = slog.New(e.Logs)
	e.LS.SetLogger(slog.New(e.Logs))
	st.SetShutdownSyncTimeout(0)
	if e.Tune != nil {
		e.Tune(e.LS)
	}
	if err := st.Open(e.Ctx); err != nil {
		return nil, err
	}
	d := &Daemon{Store: st, Sock: filepath.Join(e.Dir, "ctl.sock")}
	d.Server = litestream.NewServer(st)
	d.Server.SocketPath = d.Sock
	if err := d.Server.Start(); err != nil {
		_ = st.Close(e.Ctx)
		return nil, err
	}
	d.HTTP = &http.Client{Transport: &http.Transport{DialContext: func(ctx context.Context, _, _ string) (net.Conn, error) {
		var dl net.Dialer
		return dl.DialContext(ctx, "unix", d.Sock)
	}}, Timeout: 60 * time.Second}
	return d, nil
}

// Post sends a JSON request to the control socket and returns status + body.
func (d *Daemon) Post(path string, body any) (int, []byte, error) {
	b, _ := json.Marshal(body)
	resp, err := d.HTTP.Post("http://unix"+path, "application/json", bytes.NewReader(b))
	if err != nil {
		return 0, nil, err
	}
	defer resp.Body.Close()
	rb, _ := io.ReadAll(resp.Body)
	return resp.StatusCode, rb, nil
}

func (d *Daemon) Get(path string) (int, []byte, error) {
	resp, err := d.HTTP.Get("http://unix" + path)
	if err != nil {
		return 0, nil, err
	}
	defer resp.Body.Close()
	rb, _ := io.ReadAll(resp.Body)
	return resp.StatusCode, rb, nil
}

// SyncWait is `litestream sync -wait`: nil means acknowledged.
func (d *Daemon) SyncWait(dbPath string) error {
	code, body, err := d.Post("/sync", litestream.SyncRequest{Path: dbPath, Wait: true, Timeout: 30})
	if err != nil {
		return err
	}
	if code != 200 {
		return fmt.Errorf("http %d: %s", code, bytes.TrimSpace(body))
	}
	return nil
}

func (d *Daemon) Close(ctx context.Context) error {
	_ = d.Server.Close()
	d.HTTP.CloseIdleConnections()
	return d.Store.Close(ctx)
}
