package main

import _ "verif/harness/internal/c12"
