package c20

import (
	"context"
	"errors"
	"fmt"
	"hash/fnv"
	"io"
	"log/slog"
	"math/rand"
	"sort"
	"strings"
	"sync"
	"time"

	"github.com/benbjohnson/litestream"
	lss3 "github.com/benbjohnson/litestream/s3"
)

// clientCfg is one litestream instance: its program over {A acquire, N renew,
// L release} and its TTL class (+1: leases live for the whole run, -1: leases
// expired at birth).
type clientCfg struct {
	Prog string `json:"prog"`
	TTL  int    `json:"ttl"`
}

type config []clientCfg

func (c config) String() string {
	var a []string
	for i, cc := range c {
		cl := "live"
		if cc.TTL < 0 {
			cl = "expired"
		}
		a = append(a, fmt.Sprintf("c%d:%s/%s", i, cc.Prog, cl))
	}
	return strings.Join(a, " ")
}

func ttlOf(class int) time.Duration {
	if class < 0 {
		return -time.Hour
	}
	return time.Hour
}

// canonical drops operations that cannot issue a request (renew/release while
// no lease handle is held); the remaining program behaves identically.
func canonical(p string) string {
	var sb strings.Builder
	holding := false
	for _, ch := range p {
		switch ch {
		case 'A':
			sb.WriteRune(ch)
			holding = true
		case 'N':
			if holding {
				sb.WriteRune(ch)
			}
		case 'L':
			if holding {
				sb.WriteRune(ch)
				holding = false
			}
		}
	}
	return sb.String()
}

// programs returns the distinct canonical programs of all raw programs of 1..maxOps operations.
func programs(maxOps int) (canon []string, raw int) {
	seen := map[string]bool{}
	var gen func(p string)
	gen = func(p string) {
		if len(p) > 0 {
			raw++
			if c := canonical(p); c != "" && !seen[c] {
				seen[c] = true
				canon = append(canon, c)
			}
		}
		if len(p) == maxOps {
			return
		}
		for _, ch := range "ANL" {
			gen(p + string(ch))
		}
	}
	gen("")
	sort.Slice(canon, func(i, j int) bool {
		if len(canon[i]) != len(canon[j]) {
			return len(canon[i]) < len(canon[j])
		}
		return canon[i] < canon[j]
	})
	return canon, raw
}

// ---------------------------------------------------------------------------

type scheduler struct {
	req  chan int
	turn []chan struct{}
	ack  chan struct{}
}

// opEvent: an operation of a client starts (Start) or returns.
type opEvent struct {
	Client int
	Kind   byte // A | N | L
	Start  bool
	Err    error
	Lease  *litestream.Lease // returned lease (A, N)
	Clock  int64             // free-running histories: logical time of the event
}

type step struct {
	Waiting []int
	Chosen  int
}

type violation struct{ Key, Msg string }

type outcome struct {
	cfg      config
	steps    []step
	granted  []int
	viol     []violation
	log      []string
	evals    int
	ops      int
	features map[string]bool
	gens     []string
	harness  string
}

func (o *outcome) sig() uint64 {
	h := fnv.New64a()
	fmt.Fprint(h, o.cfg.String(), o.granted)
	return h.Sum64()
}

func (o *outcome) nontrivial() bool {
	return o.features["acquire_refused_by_existing_lease"] || o.features["takeover_of_existing_lease_object"] ||
		o.features["taken_over_client_renews_or_releases"] || o.features["acquire_interleaved_with_other_client"] || o.features["acquire_lost_conditional_write"]
}

func newLeasers(cfg config, st *store) []*lss3.Leaser {
	ls := make([]*lss3.Leaser, len(cfg))
	for i := range cfg {
		l := lss3.NewLeaser()
		l.SetLogger(slog.New(slog.NewTextHandler(io.Discard, nil)))
		l.SetClient(&cli{st: st, id: i})
		l.Owner = fmt.Sprintf("c%d", i)
		l.TTL = ttlOf(cfg[i].TTL)
		l.Bucket = "b"
		l.Path = "db"
		ls[i] = l
	}
	return ls
}

// runClient executes one client's program against its real s3.Leaser.
func runClient(i int, l *lss3.Leaser, prog string, rec func(opEvent)) {
	ctx := context.Background()
	var cur *litestream.Lease
	for k := 0; k < len(prog); k++ {
		switch prog[k] {
		case 'A':
			rec(opEvent{Client: i, Kind: 'A', Start: true})
			lease, err := l.AcquireLease(ctx)
			if err == nil {
				cur = lease
			}
			rec(opEvent{Client: i, Kind: 'A', Err: err, Lease: lease})
		case 'N':
			if cur == nil {
				continue
			}
			rec(opEvent{Client: i, Kind: 'N', Start: true, Lease: cur})
			lease, err := l.RenewLease(ctx, cur)
			if err == nil {
				cur = lease // a failed renew keeps the old handle: the instance may try again or release
			}
			rec(opEvent{Client: i, Kind: 'N', Err: err, Lease: lease})
		case 'L':
			if cur == nil {
				continue
			}
			rec(opEvent{Client: i, Kind: 'L', Start: true, Lease: cur})
			err := l.ReleaseLease(ctx, cur)
			cur = nil
			rec(opEvent{Client: i, Kind: 'L', Err: err})
		}
	}
}

// ---------------------------------------------------------------------------
// online monitor (oracle 1)

type term struct {
	client  int
	gen     int64
	version int  // store version written by the acquiring PUT
	found   bool // the acquire's GET found a lease object
}

type clientState struct {
	lease    *litestream.Lease
	version  int // store version written by the PUT that produced lease
	believes bool
	opFirst  int // index of the first store event of the running operation
}

type monitor struct {
	cfg        config
	st         *store
	out        *outcome
	cs         []clientState
	terms      []term
	releasesOK int
	opIdx      int
	seenKey    map[string]bool
}

func (m *monitor) violate(key, format string, a ...any) {
	if m.seenKey[key] {
		return
	}
	m.seenKey[key] = true
	m.out.viol = append(m.out.viol, violation{key, fmt.Sprintf(format, a...)})
	m.out.log = append(m.out.log, "  !! "+key+": "+fmt.Sprintf(format, a...))
}

// lastPut returns the store version written by client i's most recent successful PUT at or after event index from.
func (m *monitor) lastPut(i, from int) int {
	for k := len(m.st.events) - 1; k >= from && k >= 0; k-- {
		e := m.st.events[k]
		if e.Client == i && e.Kind == "PUT" && e.Outcome == "ok" {
			return e.Version
		}
	}
	return -1
}

// takenOver: another instance acquired the lease after client i's handle was written.
func (m *monitor) takenOver(i int) (bool, term) {
	for k := len(m.terms) - 1; k >= 0; k-- {
		t := m.terms[k]
		if t.client != i && t.version > m.cs[i].version {
			return true, t
		}
	}
	return false, term{}
}

func errClass(err error) string {
	var le *litestream.LeaseExistsError
	switch {
	case err == nil:
		return "ok"
	case errors.Is(err, litestream.ErrLeaseNotHeld):
		return "ErrLeaseNotHeld"
	case errors.Is(err, lss3.ErrLeaseAlreadyReleased):
		return "ErrLeaseAlreadyReleased"
	case errors.As(err, &le):
		return "LeaseExistsError"
	default:
		return "other-error"
	}
}

// absorb processes the operation events recorded since the last call (st.mu and the op mutex are held by the caller).
func (m *monitor) absorb(ops []opEvent) {
	for ; m.opIdx < len(ops); m.opIdx++ {
		ev := ops[m.opIdx]
		i := ev.Client
		c := &m.cs[i]
		if ev.Start {
			c.opFirst = len(m.st.events)
			if ev.Kind == 'L' {
				c.believes = false // the instance gives the lease up when it calls release
			}
			continue
		}
		m.out.ops++
		cls := errClass(ev.Err)
		m.out.features[fmt.Sprintf("op_%c_%s", ev.Kind, cls)] = true
		switch ev.Kind {
		case 'A':
			var mine []reqEvent
			for _, e := range m.st.events[c.opFirst:] {
				if e.Client == i {
					mine = append(mine, e)
				}
			}
			first, last := -1, -1
			for k := c.opFirst; k < len(m.st.events); k++ {
				if m.st.events[k].Client == i {
					if first < 0 {
						first = k
					}
					last = k
				}
			}
			for k := first + 1; k < last; k++ {
				if m.st.events[k].Client != i {
					// a request of another client between this acquire's first and last request
					m.out.features["acquire_interleaved_with_other_client"] = true
				}
			}
			found := len(mine) > 0 && mine[0].Kind == "GET" && mine[0].Outcome == "ok"
			if ev.Err != nil {
				if cls == "LeaseExistsError" {
					m.out.features["acquire_refused_by_existing_lease"] = true
				}
				for _, e := range mine {
					if e.Kind == "PUT" && e.Outcome == "412" {
						m.out.features["acquire_lost_conditional_write"] = true
					}
				}
				m.out.log = append(m.out.log, fmt.Sprintf("  c%d Acquire -> %v", i, ev.Err))
				continue
			}
			ver := m.lastPut(i, c.opFirst)
			if ver < 0 {
				m.violate("acquire-succeeded-without-write", "c%d: Acquire reported success but no PUT of this client succeeded", i)
			}
			gen := ev.Lease.Generation
			m.out.log = append(m.out.log, fmt.Sprintf("  c%d Acquire -> ok generation=%d etag=%s (found lease object: %v)", i, gen, short(ev.Lease.ETag), found))
			m.out.gens = append(m.out.gens, fmt.Sprintf("c%d:%d", i, gen))
			if found {
				m.out.features["takeover_of_existing_lease_object"] = true
			}
			// generation strictly increases from one owner to the next: compare
			// with the immediately preceding ownership term when it belongs to
			// another instance (re-acquiring one's own lease is no change of owner)
			if n := len(m.terms); n > 0 && m.terms[n-1].client != i {
				p := m.terms[n-1]
				m.out.evals++
				if gen <= p.gen {
					if !found && m.releasesOK > 0 {
						m.violate(KnownKey, "c%d acquired generation %d after c%d had owned generation %d: the acquire found no lease object and a release had succeeded earlier in the schedule (generations of successive owners: %v)", i, gen, p.client, p.gen, m.out.gens)
					} else {
						m.violate("generation-not-increasing", "c%d acquired generation %d after c%d had owned generation %d (acquire found a lease object: %v, successful releases so far: %d; generations of successive owners: %v)", i, gen, p.client, p.gen, found, m.releasesOK, m.out.gens)
					}
				}
			}
			m.terms = append(m.terms, term{client: i, gen: gen, version: ver, found: found})
			c.lease, c.version, c.believes = ev.Lease, ver, m.cfg[i].TTL > 0
		case 'N', 'L':
			name := map[byte]string{'N': "Renew", 'L': "Release"}[ev.Kind]
			over, by := m.takenOver(i)
			m.out.log = append(m.out.log, fmt.Sprintf("  c%d %s -> %s (taken over before: %v)", i, name, errText(ev.Err), over))
			if over {
				m.out.features["taken_over_client_renews_or_releases"] = true
				m.out.evals++
				okErr := errors.Is(ev.Err, litestream.ErrLeaseNotHeld) || (ev.Kind == 'L' && errors.Is(ev.Err, lss3.ErrLeaseAlreadyReleased))
				switch {
				case ev.Err == nil:
					m.violate("takenover-"+strings.ToLower(name)+"-succeeded", "c%d's lease (generation %d) had been taken over by c%d (generation %d), yet its %s succeeded", i, c.lease.Generation, by.client, by.gen, name)
				case !okErr:
					m.violate("takenover-"+strings.ToLower(name)+"-wrong-error", "c%d's lease had been taken over by c%d; its %s failed with %q instead of ErrLeaseNotHeld", i, by.client, name, ev.Err.Error())
				}
			} else if ev.Err != nil {
				m.out.features["info_"+strings.ToLower(name)+"_failed_without_takeover"] = true
			}
			if ev.Kind == 'N' {
				if ev.Err == nil {
					c.lease, c.version, c.believes = ev.Lease, m.lastPut(i, c.opFirst), m.cfg[i].TTL > 0
				} else {
					c.believes = false
				}
			} else {
				if ev.Err == nil {
					m.releasesOK++
				}
				c.lease, c.believes = nil, false
			}
		}
	}
}

func errText(err error) string {
	if err == nil {
		return "ok"
	}
	return err.Error()
}

// invariant: at most one instance believes it holds an unexpired lease, and
// every such belief is backed by the object currently in the store.
func (m *monitor) invariant() {
	m.out.evals++
	holders := 0
	var who []int
	for i := range m.cs {
		c := &m.cs[i]
		if !c.believes {
			continue
		}
		if m.st.exist && m.st.etag == c.lease.ETag {
			holders++
			who = append(who, i)
			continue
		}
		last := reqEvent{}
		if n := len(m.st.events); n > 0 {
			last = m.st.events[n-1]
		}
		m.violate("live-lease-replaced", "c%d holds an unexpired lease (generation %d, etag %s) that it neither released nor failed to renew, but the store now holds etag %s after request [%s]", i, c.lease.Generation, short(c.lease.ETag), short(m.st.etagNow()), last)
		c.believes = false
	}
	if holders > 1 {
		m.violate("two-live-holders", "instances %v all hold an unexpired lease backed by the current object", who)
	}
}

// ---------------------------------------------------------------------------

// runSchedule executes cfg once. The first len(prefix) grants follow prefix,
// later ones are drawn from rng or, when rng is nil, go to the lowest waiting
// client id.
func runSchedule(cfg config, prefix []int, rng *rand.Rand) *outcome {
	n := len(cfg)
	out := &outcome{cfg: cfg, features: map[string]bool{}}
	sc := &scheduler{req: make(chan int), ack: make(chan struct{})}
	for i := 0; i < n; i++ {
		sc.turn = append(sc.turn, make(chan struct{}))
	}
	st := &store{sched: sc}
	leasers := newLeasers(cfg, st)
	var opMu sync.Mutex
	var ops []opEvent
	rec := func(e opEvent) {
		opMu.Lock()
		ops = append(ops, e)
		opMu.Unlock()
	}
	done := make(chan int, n)
	for i := 0; i < n; i++ {
		go func(i int) {
			runClient(i, leasers[i], cfg[i].Prog, rec)
			done <- i
		}(i)
	}
	mon := &monitor{cfg: cfg, st: st, out: out, cs: make([]clientState, n), seenKey: map[string]bool{}}
	waiting := map[int]bool{}
	finished := 0
	settle := func() {
		for len(waiting)+finished < n {
			select {
			case id := <-sc.req:
				waiting[id] = true
			case <-done:
				finished++
			}
		}
	}
	observe := func(check bool) {
		opMu.Lock()
		st.mu.Lock()
		mon.absorb(ops)
		if check {
			mon.invariant()
		}
		st.mu.Unlock()
		opMu.Unlock()
	}
	for k := 0; ; k++ {
		// every client is now blocked at a request or has finished: operation
		// events recorded so far are complete and no request is in flight
		settle()
		observe(k > 0)
		if finished == n {
			break
		}
		w := make([]int, 0, len(waiting))
		for id := range waiting {
			w = append(w, id)
		}
		sort.Ints(w)
		pick := w[0]
		switch {
		case k < len(prefix):
			pick = prefix[k]
			if !waiting[pick] {
				out.harness = fmt.Sprintf("schedule prefix %v: client %d is not waiting at step %d (waiting %v)", prefix, pick, k, w)
				pick = w[0]
			}
		case rng != nil:
			pick = w[rng.Intn(len(w))]
		}
		out.steps = append(out.steps, step{Waiting: w, Chosen: pick})
		out.granted = append(out.granted, pick)
		delete(waiting, pick)
		evBefore := len(st.events)
		sc.turn[pick] <- struct{}{}
		<-sc.ack
		st.mu.Lock()
		if len(st.events) > evBefore {
			out.log = append(out.log, fmt.Sprintf("step %d waiting=%v grant %s", k, w, st.events[len(st.events)-1]))
		}
		st.mu.Unlock()
	}
	return out
}

// explore enumerates every request-level interleaving of cfg exactly once
// (depth-first over the sets of clients waiting at each step).
func explore(cfg config, visit func(*outcome)) int {
	var prefix []int
	count := 0
	for {
		out := runSchedule(cfg, prefix, nil)
		count++
		visit(out)
		i := len(out.steps) - 1
		for ; i >= 0; i-- {
			s := out.steps[i]
			next := -1
			for _, w := range s.Waiting {
				if w > s.Chosen {
					next = w
					break
				}
			}
			if next >= 0 {
				prefix = append(append([]int(nil), out.granted[:i]...), next)
				break
			}
		}
		if i < 0 || out.harness != "" {
			return count
		}
	}
}
