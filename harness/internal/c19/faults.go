package c19

import (
	"bytes"
	"context"
	"errors"
	"fmt"
	"os"
	"path/filepath"
	"time"

	"github.com/benbjohnson/litestream"
	"github.com/benbjohnson/litestream/file"
)

// faultV3 makes the k-th call of one of the v0.3.x listing methods fail once (a
// transient storage error); everything else is the real file client.
type faultV3 struct {
	*file.ReplicaClient
	method string
	k      int
	n      int
	fired  bool
}

var errListing = errors.New("injected listing fault")

func (f *faultV3) hit(m string) bool {
	if m != f.method {
		return false
	}
	f.n++
	if f.n == f.k {
		f.fired = true
		return true
	}
	return false
}

func (f *faultV3) GenerationsV3(ctx context.Context) ([]string, error) {
	if f.hit("generations") {
		return nil, fmt.Errorf("list generations: %w", errListing)
	}
	return f.ReplicaClient.GenerationsV3(ctx)
}

func (f *faultV3) SnapshotsV3(ctx context.Context, generation string) ([]litestream.SnapshotInfoV3, error) {
	if f.hit("snapshots") {
		return nil, fmt.Errorf("list snapshots of %s: %w", generation, errListing)
	}
	return f.ReplicaClient.SnapshotsV3(ctx, generation)
}

func (f *faultV3) WALSegmentsV3(ctx context.Context, generation string) ([]litestream.WALSegmentInfoV3, error) {
	if f.hit("segments") {
		return nil, fmt.Errorf("list wal segments of %s: %w", generation, errListing)
	}
	return f.ReplicaClient.WALSegmentsV3(ctx, generation)
}

// listingFaults: one transient failure of one listing call during a latest-state
// restore of a legacy replica. The restore must fail, or deliver exactly what the
// fault-free restore of the same replica delivers - never another database (for
// instance the state of an older generation because the newest one could not be listed).
func (c *runner) listingFaults() bool {
	ref, rerr, _, herr := c.restore(time.Time{})
	if herr != nil {
		c.res.HarnessErr = herr.Error()
		return false
	}
	if rerr != nil {
		return true // nothing to compare with (the fault-free restore of this layout is an error)
	}
	for _, m := range []string{"generations", "snapshots", "segments"} {
		for k := 1; k <= 4; k++ {
			c.nOut++
			out := filepath.Join(c.dir, fmt.Sprintf("out-%d", c.nOut))
			fc := &faultV3{ReplicaClient: file.NewReplicaClient(c.L.rep), method: m, k: k}
			r := litestream.NewReplicaWithClient(nil, fc)
			opt := litestream.NewRestoreOptions()
			opt.OutputPath = out
			ctx, cancel := context.WithTimeout(context.Background(), 2*time.Minute)
			err := r.Restore(ctx, opt)
			cancel()
			if !fc.fired {
				for _, sfx := range []string{"", "-wal", "-shm", ".tmp"} {
					_ = os.Remove(out + sfx)
				}
				break // this method is not called that often in a restore
			}
			c.res.Evals++
			c.res.Count("listing_fault_restores", 1)
			c.res.Count("listing_fault:"+m, 1)
			if err != nil {
				c.res.Count("listing_fault_restore_failed", 1)
				if _, serr := os.Stat(out); serr == nil {
					c.violate(keyErrOutput, "restore with a transient failure of listing call #%d (%s) returned an error (%v) and left a database at the output path", k, m, err)
				}
			} else {
				got, gerr := os.ReadFile(out)
				if gerr != nil || !bytes.Equal(got, ref) {
					c.violate("v3-listing-fault-different-database", "restore (latest) with a transient failure of listing call #%d (%s) reported success, but its output (%d bytes) is not what the fault-free restore of the same replica delivers (%d bytes): a storage error was swallowed and another backup was restored", k, m, len(got), len(ref))
				} else {
					c.res.Count("listing_fault_restore_identical", 1)
				}
			}
			for _, sfx := range []string{"", "-wal", "-shm", ".tmp", ".tmp-wal", ".tmp-shm", "-txid"} {
				_ = os.Remove(out + sfx)
			}
		}
	}
	return true
}
