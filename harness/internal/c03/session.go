package c03

import (
	"bufio"
	"bytes"
	"crypto/sha256"
	"database/sql"
	"encoding/json"
	"fmt"
	"io"
	"math/rand"
	"os"
	"os/exec"
	"path/filepath"
	"sort"
	"strconv"
	"strings"
	"sync"
	"syscall"
	"time"

	"github.com/benbjohnson/litestream"
	"github.com/pierrec/lz4/v4"

	"verif/harness/internal/sq"
	"verif/harness/internal/vf"
)

// ---------------------------------------------------------------------------
// launching victims: plain, under ptsup (count / kill N), under strace

type Mode int

const (
	Plain Mode = iota
	Count
	Kill
	Strace
)

type Launch struct {
	Mode  Mode
	KillN int
	Log   string // ptsup / strace log file
	// Inject, in Strace mode, is an strace fault-injection expression for the whole victim
	// process, e.g. "fsync,fdatasync:error=EIO" (every flush fails with EIO)
	Inject string
}

// StraceSet is the syscall set traced for C11 (E-TRACE).
const StraceSet = "openat,open,creat,write,pwrite64,writev,pwritev,pwritev2,copy_file_range,sendfile,ftruncate,fallocate,fsync,fdatasync,sync_file_range,rename,renameat,renameat2,unlink,unlinkat,rmdir,mkdir,mkdirat,link,linkat,close,dup,dup2,dup3,fcntl,chdir"

func PtsupPath() string { return filepath.Join(vf.Root, "bin", "ptsup") }

var ptsupOnce sync.Once
var ptsupErr error

// EnsurePtsup (re)builds the supervisor when the binary is missing or older
// than its source.
func EnsurePtsup() error {
	ptsupOnce.Do(func() {
		src := filepath.Join(vf.Root, "ptsup", "ptsup.c")
		bin := PtsupPath()
		si, err := os.Stat(src)
		bi, berr := os.Stat(bin)
		if err != nil {
			if berr == nil {
				return // no source, but a binary: use it
			}
			ptsupErr = fmt.Errorf("ptsup: neither %s nor %s present", src, bin)
			return
		}
		if berr == nil && !bi.ModTime().Before(si.ModTime()) {
			return
		}
		_ = os.MkdirAll(filepath.Dir(bin), 0o755)
		tmp := fmt.Sprintf("%s.build%d", bin, os.Getpid())
		out, err := exec.Command("gcc", "-O2", "-o", tmp, src).CombinedOutput()
		if err != nil {
			ptsupErr = fmt.Errorf("build ptsup: %v: %s", err, out)
			return
		}
		ptsupErr = os.Rename(tmp, bin)
	})
	return ptsupErr
}

// Proc is one running victim.
type Proc struct {
	cmd    *exec.Cmd
	in     io.WriteCloser
	lines  chan string
	Async  []string // marker lines that were not the reply to a command (follow mode)
	Launch Launch
	dead   bool
	exit   int
}

// Pid returns the process id of the launched command (the victim itself in Plain mode).
func (p *Proc) Pid() int {
	if p == nil || p.cmd == nil || p.cmd.Process == nil {
		return 0
	}
	return p.cmd.Process.Pid
}

// StartVictim starts `self victim-c03 <cfg>` according to l and waits for its
// "ok open" line. alive=false means it died (was killed) before that.
func StartVictim(cfg VictimCfg, l Launch) (p *Proc, alive bool, err error) {
	self, err := os.Executable()
	if err != nil {
		return nil, false, err
	}
	cj, _ := json.Marshal(cfg)
	vargs := []string{self, VictimArg, string(cj)}
	var args []string
	switch l.Mode {
	case Plain:
		args = vargs
	case Count:
		args = append([]string{PtsupPath(), "count", cfg.Dir, l.Log, "--"}, vargs...)
	case Kill:
		args = append([]string{PtsupPath(), "kill", cfg.Dir, l.Log, strconv.Itoa(l.KillN), "--"}, vargs...)
	case Strace:
		args = []string{"strace", "-f", "-y", "-ttt", "-s", "96", "-e", "trace=" + StraceSet}
		if l.Inject != "" {
			args = append(args, "-e", "inject="+l.Inject)
		}
		args = append(append(args, "-o", l.Log, "--"), vargs...)
	}
	cmd := exec.Command(args[0], args[1:]...)
	cmd.SysProcAttr = &syscall.SysProcAttr{Setpgid: true}
	cmd.Stderr = nil
	// two Ps are plenty for the victim's pipelines; sixteen only add idle-thread churn (futex,
	// nanosleep) that the supervisor has to watch
	cmd.Env = append(os.Environ(), "GOMAXPROCS=2")
	stdin, err := cmd.StdinPipe()
	if err != nil {
		return nil, false, err
	}
	stdout, err := cmd.StdoutPipe()
	if err != nil {
		return nil, false, err
	}
	if err := cmd.Start(); err != nil {
		return nil, false, err
	}
	p = &Proc{cmd: cmd, in: stdin, lines: make(chan string, 64), Launch: l}
	go func() {
		defer close(p.lines)
		rd := bufio.NewReaderSize(stdout, 1<<16)
		for {
			line, err := rd.ReadString('\n')
			if line != "" {
				p.lines <- strings.TrimRight(line, "\n")
			}
			if err != nil {
				return
			}
		}
	}()
	reply, alive, err := p.await("open", 60*time.Second)
	if err != nil {
		p.Stop()
		return p, false, err
	}
	if alive && !strings.HasPrefix(reply, "ok") {
		p.Stop()
		return p, false, fmt.Errorf("victim failed to open: %s", reply)
	}
	return p, alive, nil
}

// await reads lines until the reply to cmd arrives. alive=false: stdout
// reached EOF (the victim is gone).
func (p *Proc) await(cmd string, timeout time.Duration) (reply string, alive bool, err error) {
	t := time.NewTimer(timeout)
	defer t.Stop()
	for {
		select {
		case line, ok := <-p.lines:
			if !ok {
				p.dead = true
				return "", false, nil
			}
			f := strings.Fields(line)
			if len(f) >= 2 && f[1] == cmd && (f[0] == "ok" || f[0] == "err") {
				return line, true, nil
			}
			p.Async = append(p.Async, line)
		case <-t.C:
			return "", true, fmt.Errorf("victim did not answer %q within %v", cmd, timeout)
		}
	}
}

// Do sends one command and returns its reply line.
func (p *Proc) Do(line string) (reply string, alive bool, err error) {
	if p.dead {
		return "", false, nil
	}
	if _, werr := io.WriteString(p.in, line+"\n"); werr != nil {
		// the victim is gone (EPIPE): drain
		for range p.lines {
		}
		p.dead = true
		return "", false, nil
	}
	return p.await(strings.Fields(line)[0], 120*time.Second)
}

// Stop closes stdin (the victim exits at EOF), waits, and makes sure nothing
// of its process group survives. Returns the exit status of the launched
// command (ptsup: 137 when the kill was performed).
func (p *Proc) Stop() int {
	if p.cmd == nil {
		return p.exit
	}
	_ = p.in.Close()
	done := make(chan struct{})
	go func() {
		for range p.lines {
		}
		_ = p.cmd.Wait()
		close(done)
	}()
	select {
	case <-done:
	case <-time.After(30 * time.Second):
		_ = syscall.Kill(-p.cmd.Process.Pid, syscall.SIGKILL)
		<-done
	}
	_ = syscall.Kill(-p.cmd.Process.Pid, syscall.SIGKILL) // stragglers of the group, if any
	p.exit = p.cmd.ProcessState.ExitCode()
	if p.exit < 0 {
		if ws, ok := p.cmd.ProcessState.Sys().(syscall.WaitStatus); ok && ws.Signaled() {
			p.exit = 128 + int(ws.Signal())
		}
	}
	p.cmd = nil
	p.dead = true
	return p.exit
}

// ---------------------------------------------------------------------------
// ptsup log

type SysEvent struct {
	N     int
	Tid   int
	Name  string
	P1    string
	P2    string
	Flags uint64
}

type PtLog struct {
	Events []SysEvent
	Killed bool // "KILL before N" present
	Total  int  // from TOTAL line (-1 if absent)
	Exit   int
}

func ReadPtLog(path string) (*PtLog, error) {
	b, err := os.ReadFile(path)
	if err != nil {
		return nil, err
	}
	l := &PtLog{Total: -1}
	for _, line := range strings.Split(string(b), "\n") {
		f := strings.Fields(line)
		if len(f) == 0 {
			continue
		}
		switch f[0] {
		case "KILL":
			l.Killed = true
			continue
		case "TOTAL":
			if len(f) >= 4 {
				l.Total, _ = strconv.Atoi(f[1])
				l.Exit, _ = strconv.Atoi(f[3])
			}
			continue
		case "INTERRUPTED":
			continue
		}
		if len(f) < 6 {
			continue
		}
		n, err := strconv.Atoi(f[0])
		if err != nil {
			continue
		}
		tid, _ := strconv.Atoi(f[1])
		// the path fields may contain " (deleted)": name is f[2], flags the last field,
		// p1 = f[3], p2 = first following field that starts with '/' or is "-"
		ev := SysEvent{N: n, Tid: tid, Name: f[2], P1: f[3]}
		ev.Flags, _ = strconv.ParseUint(strings.TrimPrefix(f[len(f)-1], "0x"), 16, 64)
		for _, x := range f[4 : len(f)-1] {
			if x == "-" || strings.HasPrefix(x, "/") {
				ev.P2 = x
				break
			}
		}
		if ev.P1 == "-" {
			ev.P1 = ""
		}
		if ev.P2 == "-" {
			ev.P2 = ""
		}
		l.Events = append(l.Events, ev)
	}
	return l, nil
}

// PathClass classifies a path below the scenario directory root.
//
//	db          the SQLite files (db, db-wal, db-shm, db-journal)
//	meta-ltx    <meta>/ltx/<level>/<min>-<max>.ltx        (final name)
//	meta-tmp    ... .ltx.tmp
//	meta-dir    directories of the meta tree
//	rep-ltx / rep-tmp / rep-dir   the same below the file replica
//	out         restore output path (final name)     out-tmp  its .tmp
//	txid        <output>-txid sidecar                 txid-tmp its .tmp
//	out-sqlite  -wal/-shm/-journal next to a restore output (integrity check)
//	root        the scenario directory itself
//	other       anything else
func PathClass(root, p string) string {
	p = strings.TrimSuffix(p, " (deleted)")
	if p == root {
		return "root"
	}
	rel, ok := strings.CutPrefix(p, root+"/")
	if !ok {
		return "outside"
	}
	switch {
	case rel == "db" || rel == "db-wal" || rel == "db-shm" || rel == "db-journal":
		return "db"
	case strings.HasPrefix(rel, ".db-litestream"):
		return "meta-" + ltxKind(rel)
	case rel == "rep" || strings.HasPrefix(rel, "rep/"):
		return "rep-" + ltxKind(rel)
	case strings.HasPrefix(rel, "out") || strings.HasPrefix(rel, "follow"):
		switch {
		case strings.HasSuffix(rel, "-txid"):
			return "txid"
		case strings.HasSuffix(rel, "-txid.tmp"):
			return "txid-tmp"
		case strings.HasSuffix(rel, ".tmp"):
			return "out-tmp"
		case strings.HasSuffix(rel, "-wal") || strings.HasSuffix(rel, "-shm") || strings.HasSuffix(rel, "-journal"):
			return "out-sqlite"
		}
		return "out"
	}
	return "other"
}

func ltxKind(rel string) string {
	switch {
	case strings.HasSuffix(rel, ".ltx"):
		return "ltx"
	case strings.HasSuffix(rel, ".tmp"):
		return "tmp"
	}
	return "dir"
}

// ---------------------------------------------------------------------------
// scenarios: deterministic step lists. The application lives in the driver.

// Step ops:
//
//	start        start a victim process (plain)
//	startT       start the victim process of the traced phase (C03: under ptsup; C11 traces every phase)
//	stop         close the victim's stdin and wait for it to exit
//	v <cmd>      victim command; "v? <cmd>" tolerates an err reply
//	w <kind>     application transaction: small | big | multi | update | delete | ddl
//	appckpt <m>  application-side wal_checkpoint(m)
//	budget <k>   set the victim's MaxSyncWALBytes to k times the WAL bytes of the last application
//	             transaction (0 = unlimited, -1 = a single frame)
//
// "v? snapshot-fail <k>" / "v? compact-fail <lvl> <k>" must be answered with err (the upload stream
// is broken by the victim's wrapper after k bytes); around them the runner applies the oracle
// "a failed write never removes or alters a previously listed replica file".
//
//	rmmeta       remove the meta directory (victim must be down)
//	save / rollback   copy db, db-wal and the meta directory aside / put them back (victim down)
type Step struct {
	Op  string
	Arg string
}

type Scenario struct {
	Name  string
	Doc   string
	Steps []Step
}

func steps(lines ...string) []Step {
	var out []Step
	for _, l := range lines {
		op, arg, _ := strings.Cut(l, " ")
		out = append(out, Step{op, arg})
	}
	return out
}

// Config is one (database, litestream) configuration of a scenario.
type Config struct {
	Name               string `json:"name"`
	PageSize           int    `json:"ps"`
	MinCheckpointPageN int    `json:"min_ckpt"`
	TruncatePageN      int    `json:"trunc"`
	CheckpointInterval int64  `json:"ckpt_interval_ns"`
	VerifyCompaction   bool   `json:"verify_compaction,omitempty"`
}

var Configs = []Config{
	{Name: "A", PageSize: 4096, MinCheckpointPageN: 1000},
	{Name: "B", PageSize: 1024, MinCheckpointPageN: 4, TruncatePageN: 40, CheckpointInterval: 1, VerifyCompaction: true},
}

func (c Config) Victim(dir string) VictimCfg {
	return VictimCfg{Dir: dir, MinCheckpointPageN: c.MinCheckpointPageN, TruncatePageN: c.TruncatePageN, CheckpointInterval: c.CheckpointInterval, VerifyCompaction: c.VerifyCompaction}
}

// Ack is one acknowledged sync and the source image recorded at that instant.
type Ack struct {
	TXID uint64
	Img  []byte
	Via  string // sync-wait | close
}

// World is one scenario execution: database, application connection, victim.
type World struct {
	Root string // scenario directory (what the supervisor watches)
	Work string // scratch for oracles (outside Root)
	Cfg  Config
	VC   VictimCfg
	Seed int64
	Rng  *rand.Rand
	App  *sql.DB
	P    *Proc
	Acks []Ack
	K    int64
	Logf func(string, ...any)

	LockProbes int // lockprobe steps executed
	// Inject is set by the step "inject <expr>" and consumed by the next traced start
	// (see Launch.Inject).
	Inject string
	// LaunchFor decides how the victim of a phase is started.
	LaunchFor func(phase int, traced bool) Launch
	// OnReply is called after every victim reply (C11 uses it for nothing; kept for evidence).
	Phase       int
	TracedPhase int // index of the phase started by startT (-1 before)
	InFlight    string
	Procs       []*Proc
	// OutputExpect: restore output name -> the acknowledgement whose image it must equal
	OutputExpect map[string]*Ack
	// LastWALGrowth: bytes the last application transaction appended to the WAL
	LastWALGrowth int64
}

func NewWorld(root, work string, cfg Config, seed int64, logf func(string, ...any)) (*World, error) {
	if err := os.MkdirAll(root, 0o755); err != nil {
		return nil, err
	}
	if err := os.MkdirAll(work, 0o755); err != nil {
		return nil, err
	}
	w := &World{Root: root, Work: work, Cfg: cfg, VC: cfg.Victim(root), Seed: seed, Rng: rand.New(rand.NewSource(seed)), Logf: logf, TracedPhase: -1}
	app, err := sq.Create(w.VC.DBPath(), cfg.PageSize, 0)
	if err != nil {
		return nil, fmt.Errorf("create db: %w", err)
	}
	w.App = app
	if _, err := app.Exec(`CREATE TABLE t(id INTEGER PRIMARY KEY, v BLOB); CREATE TABLE u(id INTEGER PRIMARY KEY, a INTEGER, v BLOB); CREATE TABLE f(id INTEGER PRIMARY KEY, v BLOB);`); err != nil {
		return nil, err
	}
	return w, nil
}

func (w *World) Close() {
	if w.P != nil {
		w.P.Stop()
		w.P = nil
	}
	if w.App != nil {
		w.App.Close()
		w.App = nil
	}
}

func (w *World) blob(n int) []byte {
	b := make([]byte, n)
	w.Rng.Read(b)
	return b
}

// AppWrite commits one application transaction of the given shape.
func (w *World) AppWrite(kind string) error {
	before := fileSize(w.VC.DBPath() + "-wal")
	defer func() { w.LastWALGrowth = fileSize(w.VC.DBPath()+"-wal") - before }()
	tx, err := w.App.Begin()
	if err != nil {
		return err
	}
	var ex error
	switch kind {
	case "small":
		_, ex = tx.Exec(`INSERT INTO t(v) VALUES(?)`, w.blob(400))
	case "big":
		_, ex = tx.Exec(`INSERT INTO t(v) VALUES(?)`, w.blob(5000))
	case "multi":
		for i := 0; i < 3 && ex == nil; i++ {
			_, ex = tx.Exec(`INSERT INTO u(a,v) VALUES(?,?)`, w.K, w.blob(300))
		}
	case "update":
		_, ex = tx.Exec(`UPDATE t SET v=? WHERE id%2=1`, w.blob(200))
	case "delete":
		_, ex = tx.Exec(`DELETE FROM t WHERE id%2=0`)
	case "fixed": // always the same pages: equal-sized transactions (same number of WAL frames)
		_, ex = tx.Exec(`INSERT INTO f(id,v) VALUES(1,?) ON CONFLICT(id) DO UPDATE SET v=excluded.v`, w.blob(9000))
	case "ddl":
		_, ex = tx.Exec(fmt.Sprintf(`CREATE TABLE x%d(id INTEGER PRIMARY KEY, a)`, w.K))
		if ex == nil {
			_, ex = tx.Exec(fmt.Sprintf(`INSERT INTO x%d(a) VALUES(?)`, w.K), w.blob(64))
		}
	default:
		ex = fmt.Errorf("unknown write kind %q", kind)
	}
	if ex == nil {
		_, ex = tx.Exec(`UPDATE ledger SET k=?`, w.K+1)
	}
	if ex != nil {
		_ = tx.Rollback()
		return ex
	}
	if err := tx.Commit(); err != nil {
		return err
	}
	w.K++
	return nil
}

func fileSize(p string) int64 {
	fi, err := os.Stat(p)
	if err != nil {
		return 0
	}
	return fi.Size()
}

// OracleError is a refuting observation made by the scenario runner itself (not a harness
// problem): checks turn it into a violation with Key.
type OracleError struct{ Key, Msg string }

func (e *OracleError) Error() string { return e.Msg }

// replicaListing maps every *.ltx file under the replica to a content hash.
func (w *World) replicaListing() map[string]string {
	out := map[string]string{}
	_ = filepath.Walk(w.VC.RepPath(), func(p string, fi os.FileInfo, err error) error {
		if err != nil || fi.IsDir() || !strings.HasSuffix(p, ".ltx") {
			return nil
		}
		b, err := os.ReadFile(p)
		if err != nil {
			return nil
		}
		rel, _ := filepath.Rel(w.VC.RepPath(), p)
		out[rel] = fmt.Sprintf("%d:%x", len(b), sha256.Sum256(b))
		return nil
	})
	return out
}

func (w *World) SourceImage() ([]byte, error) { return sq.SourceImage(w.VC.DBPath(), w.Work) }

func (w *World) LastAck() *Ack {
	if len(w.Acks) == 0 {
		return nil
	}
	return &w.Acks[len(w.Acks)-1]
}

// subst replaces @0 by the TXID of the latest acknowledgement and @k by that of the k-th.
func (w *World) subst(arg string) (string, error) {
	f := strings.Fields(arg)
	for i, x := range f {
		at := strings.Index(x, "@")
		if at < 0 {
			continue
		}
		k, err := strconv.Atoi(x[at+1:])
		if err != nil || k < 0 || k > len(w.Acks) || len(w.Acks) == 0 {
			return "", fmt.Errorf("step %q: no acknowledgement %s", arg, x[at:])
		}
		a := w.Acks[len(w.Acks)-1]
		if k > 0 {
			a = w.Acks[k-1]
		}
		f[i] = x[:at] + strconv.FormatUint(a.TXID, 10)
	}
	return strings.Join(f, " "), nil
}

func (w *World) savePath() string { return filepath.Join(w.Work, "saved") }

func copyTree(src, dst string) error {
	return filepath.Walk(src, func(p string, fi os.FileInfo, err error) error {
		if err != nil {
			return err
		}
		rel, _ := filepath.Rel(src, p)
		t := filepath.Join(dst, rel)
		if fi.IsDir() {
			return os.MkdirAll(t, 0o755)
		}
		if err := sq.CopyFile(p, t); err != nil {
			return err
		}
		return os.Chtimes(t, fi.ModTime(), fi.ModTime())
	})
}

// ErrVictimGone is returned by Run when the victim died (was killed) mid-step.
var ErrVictimGone = fmt.Errorf("victim gone")

// Run executes steps[from:]. It returns (index of the step during which the
// victim died, ErrVictimGone), or (len(steps), nil) when all steps completed,
// or another error for a harness problem / an unexpected err reply.
func (w *World) Run(steps []Step, from int) (int, error) {
	for i := from; i < len(steps); i++ {
		s := steps[i]
		w.InFlight = strings.TrimSpace(s.Op + " " + s.Arg)
		switch s.Op {
		case "start", "startT":
			if w.P != nil {
				return i, fmt.Errorf("step %d: victim already running", i)
			}
			traced := s.Op == "startT"
			if traced {
				w.TracedPhase = w.Phase
				// application data of the traced phase does not depend on how much randomness the
				// prelude consumed (the prelude may come from a snapshot, see SavePrelude)
				w.Rng = rand.New(rand.NewSource(w.Seed ^ 0x5851f42d4c957f2d))
			}
			l := Launch{Mode: Plain}
			if w.LaunchFor != nil {
				l = w.LaunchFor(w.Phase, traced)
			}
			p, alive, err := StartVictim(w.VC, l)
			w.Phase++
			if p != nil {
				w.Procs = append(w.Procs, p)
			}
			if err != nil {
				return i, err
			}
			w.P = p
			w.Logf("%s victim (mode %d) alive=%v", s.Op, l.Mode, alive)
			if !alive {
				return i, ErrVictimGone
			}
		case "stop":
			if w.P != nil {
				code := w.P.Stop()
				w.Logf("stop victim exit=%d", code)
				w.P = nil
			}
		case "v", "v?":
			if w.P == nil {
				return i, fmt.Errorf("step %d: no victim", i)
			}
			line, serr := w.subst(s.Arg)
			if serr != nil {
				return i, serr
			}
			if f := strings.Fields(line); f[0] == "restore" && len(f) >= 2 && kv(f[2:], "rep", "") == "" && kv(f[2:], "bare", "") == "" {
				exp := w.LastAck()
				if t := kv(f[2:], "txid", ""); t != "" {
					exp = nil
					n, _ := strconv.ParseUint(t, 10, 64)
					for k := range w.Acks {
						if w.Acks[k].TXID == n {
							exp = &w.Acks[k]
						}
					}
				}
				if exp != nil {
					if w.OutputExpect == nil {
						w.OutputExpect = map[string]*Ack{}
					}
					cp := *exp
					w.OutputExpect[f[1]] = &cp
				}
			}
			isFail := strings.HasPrefix(line, "snapshot-fail") || strings.HasPrefix(line, "compact-fail")
			var listed map[string]string
			if isFail {
				listed = w.replicaListing()
			}
			reply, alive, err := w.P.Do(line)
			if err != nil {
				return i, err
			}
			if isFail && alive {
				if !strings.HasPrefix(reply, "err ") {
					return i, fmt.Errorf("step %q: the injected stream failure did not make the operation fail: %s", line, reply)
				}
				now := w.replicaListing()
				var gone []string
				for name, h := range listed {
					if now[name] != h {
						gone = append(gone, name)
					}
				}
				if len(gone) > 0 {
					sort.Strings(gone)
					w.Logf("v %s -> %s", line, reply)
					return i, &OracleError{Key: "failed-write-removed-published-file", Msg: fmt.Sprintf("%q failed (%s) and afterwards previously listed replica file(s) %v are gone or altered", line, strings.TrimSpace(reply), gone)}
				}
			}
			if !alive {
				w.Logf("v %s -> victim gone", line)
				return i, ErrVictimGone
			}
			w.Logf("v %s -> %s", line, reply)
			f := strings.Fields(reply)
			if f[0] != "ok" {
				if s.Op == "v?" {
					continue
				}
				return i, fmt.Errorf("victim command %q failed: %s", s.Arg, reply)
			}
			if f[1] == "sync-wait" || f[1] == "close" {
				if len(f) < 3 {
					return i, fmt.Errorf("ack without txid: %s", reply)
				}
				txid, _ := strconv.ParseUint(f[2], 10, 64)
				img, err := w.SourceImage()
				if err != nil {
					return i, fmt.Errorf("source image at ack: %w", err)
				}
				w.Acks = append(w.Acks, Ack{TXID: txid, Img: img, Via: f[1]})
			}
		case "w":
			if err := w.AppWrite(s.Arg); err != nil {
				return i, fmt.Errorf("app write %s: %w", s.Arg, err)
			}
			w.Logf("app %s -> k=%d", s.Arg, w.K)
		case "appckpt":
			var a, b, c int
			err := w.App.QueryRow(`PRAGMA wal_checkpoint(`+s.Arg+`)`).Scan(&a, &b, &c)
			w.Logf("app wal_checkpoint(%s) busy=%d log=%d ckpt=%d err=%v", s.Arg, a, b, c, err)
		case "budget":
			if w.P == nil {
				return i, fmt.Errorf("budget without a victim")
			}
			k, _ := strconv.Atoi(s.Arg)
			n := int64(k) * w.LastWALGrowth
			if k < 0 {
				n = 1
			}
			if k > 0 && w.LastWALGrowth <= 0 {
				return i, fmt.Errorf("budget: last application transaction did not grow the WAL")
			}
			reply, alive, err := w.P.Do(fmt.Sprintf("max-sync-wal %d", n))
			if err != nil {
				return i, err
			}
			if !alive {
				return i, ErrVictimGone
			}
			w.Logf("MaxSyncWALBytes = %d (%d x %d bytes per transaction) -> %s", n, k, w.LastWALGrowth, reply)
		case "appclose":
			// the application closes its last connection (SQLite then tries to take the
			// exclusive lock on the database file, checkpoint and delete -wal/-shm; a litestream
			// process that has the database open prevents that with its shared lock)
			if w.App != nil {
				_ = w.App.Close()
				w.App = nil
			}
			w.Logf("application closed its last connection")
		case "appopen":
			if w.App == nil {
				app, err := sq.Open(w.VC.DBPath(), 50, 0, 1)
				if err != nil {
					return i, err
				}
				w.App = app
				var k int64
				if err := w.App.QueryRow(`SELECT max(k) FROM ledger`).Scan(&k); err != nil {
					return i, &OracleError{Key: "source-unreadable-after-reconnect", Msg: fmt.Sprintf("the application cannot read its database after reconnecting: %v", err)}
				}
				if k != w.K {
					return i, &OracleError{Key: "source-lost-application-commits", Msg: fmt.Sprintf("after the application reconnected its database holds ledger k=%d, the last commit that returned was k=%d", k, w.K)}
				}
				w.Logf("application reconnected (k=%d)", k)
			}
		case "lockprobe":
			// lockprobe held|free: asks the kernel from a third process (bin/lockprobe, F_GETLK)
			// who holds SQLite's shared lock on the database file. Only meaningful while the
			// application (this process) has no connection.
			if w.App != nil {
				return i, fmt.Errorf("lockprobe with the application connected")
			}
			out, err := exec.Command(filepath.Join(vf.Root, "bin", "lockprobe"), w.VC.DBPath()).Output()
			if err != nil {
				return i, fmt.Errorf("lockprobe: %v", err)
			}
			ans := strings.TrimSpace(string(out))
			w.Logf("lockprobe -> %s (expected %s)", ans, s.Arg)
			w.LockProbes++
			switch {
			case s.Arg == "held" && ans == "free":
				return i, &OracleError{Key: "source-lock-dropped", Msg: "the litestream process has the database open, but no process holds SQLite's shared lock on the database file any more: a descriptor on the database file was closed inside the litestream process, which drops every POSIX lock it held there; an application closing its last connection now checkpoints and deletes the -wal/-shm files under litestream"}
			case s.Arg == "held" && w.P != nil && ans != fmt.Sprintf("held %d", w.P.Pid()):
				return i, fmt.Errorf("lockprobe: lock held by %q, victim pid is %d", ans, w.P.Pid())
			case s.Arg == "free" && ans != "free":
				return i, &OracleError{Key: "source-lock-leaked", Msg: fmt.Sprintf("litestream has closed the database but a process still holds SQLite's shared lock on the database file (%s)", ans)}
			}
		case "inject":
			w.Inject = s.Arg
		case "plantv3":
			// plantv3 <dir> <snap|wal>: a v0.3.x replica (one generation) is written from the
			// application's current database: snapshots/00000000.snapshot.lz4 = the checkpointed
			// database file; with "wal", further application writes and wal/00000000_00000000.wal.lz4
			// = the complete WAL that follows the snapshot
			f := strings.Fields(s.Arg)
			if len(f) != 2 || w.P != nil {
				return i, fmt.Errorf("plantv3 <dir> <snap|wal>, without a running victim")
			}
			if err := w.plantV3(filepath.Join(w.VC.Dir, f[0]), f[1] == "wal"); err != nil {
				return i, fmt.Errorf("plantv3: %w", err)
			}
			w.Logf("v0.3.x replica planted in %s (%s)", f[0], f[1])
		case "rmmeta":
			if w.P != nil {
				return i, fmt.Errorf("rmmeta with a running victim")
			}
			if err := os.RemoveAll(w.VC.MetaPath()); err != nil {
				return i, err
			}
			w.Logf("meta directory removed")
		case "save":
			if w.P != nil {
				return i, fmt.Errorf("save with a running victim")
			}
			sp := w.savePath()
			_ = os.RemoveAll(sp)
			if err := os.MkdirAll(sp, 0o755); err != nil {
				return i, err
			}
			if err := sq.CopyFile(w.VC.DBPath(), filepath.Join(sp, "db")); err != nil {
				return i, err
			}
			if err := sq.CopyFile(w.VC.DBPath()+"-wal", filepath.Join(sp, "db-wal")); err != nil && !os.IsNotExist(err) {
				return i, err
			}
			if err := copyTree(w.VC.MetaPath(), filepath.Join(sp, "meta")); err != nil {
				return i, err
			}
			w.Logf("saved db, wal and meta directory (k=%d)", w.K)
		case "rollback":
			if w.P != nil {
				return i, fmt.Errorf("rollback with a running victim")
			}
			sp := w.savePath()
			w.App.Close()
			w.App = nil
			for _, sfx := range []string{"", "-wal", "-shm", "-journal"} {
				_ = os.Remove(w.VC.DBPath() + sfx)
			}
			if err := sq.CopyFile(filepath.Join(sp, "db"), w.VC.DBPath()); err != nil {
				return i, err
			}
			if err := sq.CopyFile(filepath.Join(sp, "db-wal"), w.VC.DBPath()+"-wal"); err != nil && !os.IsNotExist(err) {
				return i, err
			}
			_ = os.RemoveAll(w.VC.MetaPath())
			if err := copyTree(filepath.Join(sp, "meta"), w.VC.MetaPath()); err != nil {
				return i, err
			}
			app, err := sq.Open(w.VC.DBPath(), 50, 0, 1)
			if err != nil {
				return i, err
			}
			w.App = app
			if err := w.App.QueryRow(`SELECT max(k) FROM ledger`).Scan(&w.K); err != nil {
				return i, fmt.Errorf("reopen after rollback: %w", err)
			}
			w.Logf("database, wal and meta directory rolled back to the saved state (k=%d)", w.K)
		default:
			return i, fmt.Errorf("unknown step op %q", s.Op)
		}
	}
	w.InFlight = ""
	return len(steps), nil
}

// ---------------------------------------------------------------------------
// prelude snapshots: the state a scenario is in right before its traced phase
// starts is the same for every kill index, so the case generator saves it once
// (files + acknowledgements) and kill runs start from a copy. Without a
// snapshot (e.g. --replay in a fresh scratch directory) the prelude is simply
// executed again.

// TracedStart returns the index of the startT step.
func (sc *Scenario) TracedStart() int {
	for i, s := range sc.Steps {
		if s.Op == "startT" {
			return i
		}
	}
	return 0
}

type preludeMeta struct {
	K     int64             `json:"k"`
	Phase int               `json:"phase"`
	Acks  []preludeAck      `json:"acks"`
	Out   map[string]uint64 `json:"out,omitempty"`
}

type preludeAck struct {
	TXID uint64 `json:"txid"`
	Via  string `json:"via"`
}

// SavePrelude stores the current state (victim down, application idle) in dir.
func (w *World) SavePrelude(dir string) error {
	if w.P != nil {
		return fmt.Errorf("prelude snapshot with a running victim")
	}
	tmp := dir + ".partial"
	_ = os.RemoveAll(tmp)
	if err := os.MkdirAll(filepath.Join(tmp, "s"), 0o755); err != nil {
		return err
	}
	for _, name := range []string{"db", "db-wal"} {
		if err := sq.CopyFile(filepath.Join(w.Root, name), filepath.Join(tmp, "s", name)); err != nil && !os.IsNotExist(err) {
			return err
		}
	}
	for _, name := range []string{".db-litestream", "rep"} {
		if _, err := os.Stat(filepath.Join(w.Root, name)); err != nil {
			continue
		}
		if err := copyTree(filepath.Join(w.Root, name), filepath.Join(tmp, "s", name)); err != nil {
			return err
		}
	}
	m := preludeMeta{K: w.K, Phase: w.Phase}
	for i, a := range w.Acks {
		m.Acks = append(m.Acks, preludeAck{a.TXID, a.Via})
		if err := os.WriteFile(filepath.Join(tmp, fmt.Sprintf("ack%d.img", i)), a.Img, 0o644); err != nil {
			return err
		}
	}
	b, _ := json.Marshal(m)
	if err := os.WriteFile(filepath.Join(tmp, "meta.json"), b, 0o644); err != nil {
		return err
	}
	_ = os.RemoveAll(dir)
	return os.Rename(tmp, dir)
}

// NewWorldFromPrelude builds a world from a snapshot written by SavePrelude.
func NewWorldFromPrelude(snap, root, work string, cfg Config, seed int64, logf func(string, ...any)) (*World, error) {
	b, err := os.ReadFile(filepath.Join(snap, "meta.json"))
	if err != nil {
		return nil, err
	}
	var m preludeMeta
	if err := json.Unmarshal(b, &m); err != nil {
		return nil, err
	}
	if err := os.MkdirAll(work, 0o755); err != nil {
		return nil, err
	}
	if err := copyTree(filepath.Join(snap, "s"), root); err != nil {
		return nil, err
	}
	w := &World{Root: root, Work: work, Cfg: cfg, VC: cfg.Victim(root), Seed: seed, Rng: rand.New(rand.NewSource(seed)), Logf: logf, TracedPhase: -1, K: m.K, Phase: m.Phase}
	for i, a := range m.Acks {
		img, err := os.ReadFile(filepath.Join(snap, fmt.Sprintf("ack%d.img", i)))
		if err != nil {
			return nil, err
		}
		w.Acks = append(w.Acks, Ack{TXID: a.TXID, Via: a.Via, Img: img})
	}
	app, err := sq.Open(w.VC.DBPath(), 50, 0, 1)
	if err != nil {
		return nil, err
	}
	w.App = app
	var k int64
	if err := app.QueryRow(`SELECT max(k) FROM ledger`).Scan(&k); err != nil || k != m.K {
		return nil, fmt.Errorf("prelude snapshot: ledger %d, expected %d (%v)", k, m.K, err)
	}
	logf("state before the traced phase taken from the prelude snapshot (k=%d, %d acknowledgements)", m.K, len(m.Acks))
	return w, nil
}

// plantV3 writes a one-generation v0.3.x replica of the application's database.
func (w *World) plantV3(rep string, withWAL bool) error {
	var a, b, c int
	if err := w.App.QueryRow(`PRAGMA wal_checkpoint(TRUNCATE)`).Scan(&a, &b, &c); err != nil || a != 0 {
		return fmt.Errorf("checkpoint before snapshot: busy=%d err=%v", a, err)
	}
	dbb, err := os.ReadFile(w.VC.DBPath())
	if err != nil {
		return err
	}
	gen := filepath.Join(rep, "generations", "0123456789abcdef")
	if err := os.MkdirAll(filepath.Join(gen, "snapshots"), 0o755); err != nil {
		return err
	}
	if err := os.MkdirAll(filepath.Join(gen, "wal"), 0o755); err != nil {
		return err
	}
	lz := func(p []byte) []byte {
		var buf bytes.Buffer
		zw := lz4.NewWriter(&buf)
		_, _ = zw.Write(p)
		_ = zw.Close()
		return buf.Bytes()
	}
	if err := os.WriteFile(filepath.Join(gen, "snapshots", litestream.FormatSnapshotFilenameV3(0)), lz(dbb), 0o644); err != nil {
		return err
	}
	if !withWAL {
		return nil
	}
	for _, k := range []string{"small", "update", "multi"} {
		if err := w.AppWrite(k); err != nil {
			return err
		}
	}
	wal, err := os.ReadFile(w.VC.DBPath() + "-wal")
	if err != nil {
		return err
	}
	return os.WriteFile(filepath.Join(gen, "wal", litestream.FormatWALSegmentFilenameV3(0, 0)), lz(wal), 0o644)
}
