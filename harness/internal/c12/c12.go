// Package c12: concurrent daemon operations are race-free, deadlock-free and
// keep C01/C02 (DESIGN §4 C12, engine E-CONC).
//
// One case = one stress run. RunCase re-executes the (race-built) harness
// binary as a "stress child" with GORACE pointing at the case directory, waits
// for it under its own watchdog, and then decides from what the child left
// behind: race reports, the event log (call/return stamps of one monotonic
// clock), goroutine dumps, probe results, and the replica directories.
//
// Observations outside the statement (not decided by this check):
//
//   - database/sql rolls a transaction back by itself when the context it was
//     begun under is cancelled. litestream's long-running read transaction is
//     begun in acquireReadLock(ctx) with the context of whichever call happened
//     to run init() or the last checkpoint (execCheckpoint re-acquires it with
//     the caller's ctx). When that was a caller context that is cancelled later
//     (POST /sync with a timeout, Store.SyncDB(ctx) with defer cancel()), the
//     read lock is silently lost afterwards: nothing prevents the application
//     from checkpointing until the next checkpoint re-takes it. Replication
//     stays safe (verify() re-snapshots), so C12 is not violated by it. The
//     same mechanism hides a read lock that Close forgot to release, which is
//     why the probes here keep the context handed to UnregisterDB/Store.Close
//     alive until after the lock probe.
package c12

import (
	"bufio"
	"crypto/sha256"
	"encoding/json"
	"fmt"
	"io"
	"math/rand"
	"os"
	"os/exec"
	"path/filepath"
	"regexp"
	"runtime"
	"runtime/debug"
	"sort"
	"strings"
	"syscall"
	"time"

	"github.com/anishathalye/porcupine"

	"verif/harness/internal/vf"
)

func init() {
	vf.Register(&vf.Check{
		ID:    "C12",
		Level: "exploration",
		Rule: "case 0 is a pinned sequential demonstration (commit; SyncAndWait; commit; DB.Sync; DB.Snapshot; DB.ResetLocalState; commit; SyncAndWait; commit; SyncAndWait) of the listed finding keyed *:snapshot-ahead-of-l0-at-reset; every other case is one stress run of a -race build: one Store (1-3 databases, file replicas behind a delaying ReplicaClient proxy, monitors at 1-5 ms, compaction/snapshot/retention monitors, control Server on a unix socket), 1-2 live application writers + read-mark pinning readers, 8-32 goroutines drawing from the C12 operation set, GOMAXPROCS in {2,4,16} x proxy delay in {0,3,8,20} ms; a run is sized by completed calls (quick: >=10 s and >=1200 calls, wall cap 75 s; thorough: >=30 s and >=5000 calls, cap 180 s), the count reached is in the evidence; " +
			"schedules are real (not replayable bit for bit): the seed fixes configuration and per-goroutine operation choices. " +
			"distinct = hash(configuration); non-trivial = >=150 completed calls, >=40 distinct overlapping operation-type pairs, >=1 lock/fd probe executed and >=3 distinct ledger states among the restored TXIDs",
		Assumptions: []string{
			"file replica client only (no network)",
			"Go race detector (happens-before, reports only races that manifest in the schedules produced)",
			"modernc SQLite in the same process is the probe connection (intra-process lock bookkeeping of the SQLite unix VFS trusted)",
			"ltx decoder/LZ4 trusted; O-SRC, O-L0 and O-LEDGER as in DESIGN §2",
			"stuck-operation is decided per operation: the same call in flight >=90 s and its goroutine (or the Server handler serving it) parked in an identical litestream lock-wait stack in two dumps 10 s apart; the global completed-call counter of the interval is recorded as evidence only (other goroutines keep completing calls while one is deadlocked)",
			"restores per run are capped (quick: 90 TXIDs, 40 snapshots, 300 derived files per database; thorough: 240/100/800), evenly spaced; the number skipped is in the evidence",
		},
		Cases:       cases,
		RunCase:     runCase,
		MinEvals:    100,
		CaseTimeout: 12 * time.Minute,
		Workers:     workers,
		Finish:      finish,
	})
}

func workers(run *vf.Run) int {
	n := runtime.NumCPU() / 2
	if n > 6 {
		n = 6
	}
	if n < 1 {
		n = 1
	}
	return n
}

func cases(run *vf.Run) ([]json.RawMessage, error) {
	// A run is sized by completed calls, not by seconds: the operation
	// goroutines run for at least dur ms and until ops calls have completed,
	// under a generous wall-clock cap (the race build on a loaded machine
	// completes far fewer calls per second than on an idle one).
	n, dur, ops, capMs := 6, 10000, 1200, 75000
	if run.Tier == "thorough" {
		n, dur, ops, capMs = 40, 30000, 5000, 180000
	}
	if v := os.Getenv("VERIF_C12_DUR_MS"); v != "" {
		fmt.Sscan(v, &dur)
	}
	if v := os.Getenv("VERIF_C12_OPS"); v != "" {
		fmt.Sscan(v, &ops)
	}
	var out []json.RawMessage
	// case 0: pinned sequential demonstration of the listed finding
	// "snapshot ahead of level 0 at reset" (see demo.go)
	out = append(out, vf.Spec(Spec{Idx: 0, Seed: vf.SubSeed(run.Seed, "C12-demo-reset", 0), Profile: "demo-reset"}))
	for i := 0; i < n; i++ {
		rng := rand.New(rand.NewSource(vf.SubSeed(run.Seed, "C12", i)))
		s := Spec{
			Idx:        i + 1,
			Seed:       vf.SubSeed(run.Seed, "C12-case", i),
			DurMs:      dur,
			Ops:        ops,
			CapMs:      capMs,
			NDB:        1 + (i+int(run.Seed))%3,
			Writers:    1 + rng.Intn(2),
			G:          []int{8, 12, 16, 24, 32}[rng.Intn(5)],
			Procs:      []int{2, 4, 16}[i%3],
			MaxDelayMs: []int{20, 8, 3, 0}[(i/3)%4],
			MonMs:      1 + rng.Intn(5),
			SyncMs:     1 + rng.Intn(5),
			PageSize:   []int{512, 1024, 4096, 8192}[rng.Intn(4)],
			MinCkpt:    []int{5, 20, 200}[rng.Intn(3)],
			Trunc:      []int{50, 400, 0}[rng.Intn(3)],
			CkptMs:     []int{0, 5, 3600000}[rng.Intn(3)],
			MaxFrames:  []int{0, 4, -1}[rng.Intn(3)],
			L1Ms:       10 + rng.Intn(30),
			L2Ms:       80 + rng.Intn(120),
			SnapMs:     150 + rng.Intn(250),
			SnapRetMs:  600 + rng.Intn(900),
			L0RetMs:    50 + rng.Intn(150),
			Verify:     rng.Intn(3) == 0,
			Reset:      rng.Intn(2) == 0,
		}
		if i%3 == 2 {
			s.FaultPct = []int{4, 12}[(i/3)%2] // storage faults on top of the delays
		}
		s.StormRounds = 40
		if run.Tier == "thorough" {
			s.StormRounds = 150
		}
		if os.Getenv("VERIF_C12_NO_RESET") != "" { // development aid: leave ResetLocalState out of the operation set
			s.Reset = false
		}
		out = append(out, vf.Spec(s))
	}
	return out, nil
}

func raceBuild() bool {
	bi, ok := debug.ReadBuildInfo()
	if !ok {
		return false
	}
	for _, s := range bi.Settings {
		if s.Key == "-race" && s.Value == "true" {
			return true
		}
	}
	return false
}

var rePanic = regexp.MustCompile(`(?m)^(panic: .*|fatal error: .*|\[signal .*)$`)

// diedKey extracts the first litestream frame of the panicking goroutine.
func diedKey(stderr string) (string, string) {
	loc := rePanic.FindStringIndex(stderr)
	if loc == nil {
		return "process-died", trunc(strings.TrimSpace(stderr), 300)
	}
	msg := stderr[loc[0]:loc[1]]
	rest := stderr[loc[1]:]
	if i := strings.Index(rest, "goroutine "); i >= 0 {
		rest = rest[i:]
		if j := strings.Index(rest, "\n\n"); j > 0 {
			rest = rest[:j]
		}
		for _, ln := range strings.Split(rest, "\n") {
			if strings.HasPrefix(ln, lsPkg) {
				fn := ln
				if k := strings.LastIndex(fn, "("); k > 0 {
					fn = fn[:k]
				}
				return "process-died:" + shortFn(fn), msg
			}
		}
	}
	return "process-died", msg
}

func readEvents(path string) ([]Event, error) {
	f, err := os.Open(path)
	if err != nil {
		return nil, err
	}
	defer f.Close()
	var out []Event
	rd := bufio.NewReaderSize(f, 1<<20)
	for {
		line, err := rd.ReadBytes('\n')
		if len(line) > 1 {
			var e Event
			if json.Unmarshal(line, &e) == nil {
				out = append(out, e)
			}
		}
		if err != nil {
			break
		}
	}
	return out, nil
}

// overlap computes which operation types were observed in flight at the same
// time (same database, or one of them store-wide).
func overlap(evs []Event) map[string]int {
	idx := make([]int, len(evs))
	for i := range idx {
		idx[i] = i
	}
	sort.Slice(idx, func(a, b int) bool { return evs[idx[a]].T0 < evs[idx[b]].T0 })
	m := map[string]int{}
	var active []int
	for _, i := range idx {
		e := evs[i]
		k := 0
		for _, j := range active {
			if evs[j].T1 > e.T0 {
				active[k] = j
				k++
			}
		}
		active = active[:k]
		for _, j := range active {
			o := evs[j]
			if o.DB != "" && e.DB != "" && o.DB != e.DB {
				continue
			}
			a, b := o.Op, e.Op
			if a > b {
				a, b = b, a
			}
			m[a+" | "+b]++
		}
		active = append(active, i)
	}
	return m
}

type caseEvidence struct {
	Idx       int            `json:"idx"`
	Overlap   map[string]int `json:"overlap"`
	OpsOK     map[string]int `json:"ops_ok"`
	OpsErr    map[string]int `json:"ops_err"`
	RaceKeys  map[string]int `json:"race_keys"`
	RaceInner map[string]int `json:"race_inner"`
}

func copyFile(src, dst string) {
	in, err := os.Open(src)
	if err != nil {
		return
	}
	defer in.Close()
	out, err := os.Create(dst)
	if err != nil {
		return
	}
	defer out.Close()
	_, _ = io.Copy(out, in)
}

func runCase(run *vf.Run, raw json.RawMessage, dir string) *vf.Result {
	res := &vf.Result{}
	var s Spec
	if err := json.Unmarshal(raw, &s); err != nil {
		res.HarnessErr = err.Error()
		return res
	}
	if s.Profile == "demo-reset" {
		return runDemoReset(run, s, dir)
	}
	if !raceBuild() {
		res.HarnessErr = "C12 needs the race build of the harness (/verif/build.sh race)"
		return res
	}
	cdir := filepath.Join(dir, "c")
	if err := os.MkdirAll(cdir, 0o755); err != nil {
		res.HarnessErr = err.Error()
		return res
	}
	_ = os.WriteFile(filepath.Join(cdir, "spec.json"), raw, 0o644)
	self, err := os.Executable()
	if err != nil {
		res.HarnessErr = err.Error()
		return res
	}
	so, _ := os.Create(filepath.Join(cdir, "stdout.txt"))
	se, _ := os.Create(filepath.Join(cdir, "stderr.txt"))
	cmd := exec.Command(self, "stress-c12", cdir)
	cmd.Stdout, cmd.Stderr = so, se
	cmd.Env = append(os.Environ(),
		"GORACE=halt_on_error=0 exitcode=0 atexit_sleep_ms=0 log_path="+filepath.Join(cdir, "race"),
		fmt.Sprintf("GOMAXPROCS=%d", s.Procs))
	cmd.SysProcAttr = &syscall.SysProcAttr{Setpgid: true}
	t0 := time.Now()
	if err := cmd.Start(); err != nil {
		res.HarnessErr = "start stress child: " + err.Error()
		return res
	}
	done := make(chan error, 1)
	go func() { done <- cmd.Wait() }()
	budget := time.Duration(s.CapMs)*time.Millisecond + 300*time.Second
	timedOut := false
	var werr error
	select {
	case werr = <-done:
	case <-time.After(budget):
		timedOut = true
		_ = syscall.Kill(-cmd.Process.Pid, syscall.SIGKILL)
		werr = <-done
	}
	so.Close()
	se.Close()
	res.Count("child_wall_ms", int(time.Since(t0).Milliseconds()))
	stderrB, _ := os.ReadFile(filepath.Join(cdir, "stderr.txt"))
	exit := 0
	if werr != nil {
		exit = -1
		if ee, ok := werr.(*exec.ExitError); ok {
			exit = ee.ExitCode()
		}
	}

	ev := caseEvidence{Idx: s.Idx, OpsOK: map[string]int{}, OpsErr: map[string]int{}, RaceKeys: map[string]int{}, RaceInner: map[string]int{}}
	witness := func() string {
		wd := filepath.Join(vf.Root, "replays", fmt.Sprintf("C12-seed%d-%s-case%d-witness", run.Seed, run.Tier, s.Idx))
		_ = os.RemoveAll(wd)
		if os.MkdirAll(wd, 0o755) != nil {
			return ""
		}
		for _, pat := range []string{"race.*", "events.jsonl", "final.json", "dump-*.txt", "stderr.txt", "progress.jsonl", "spec.json"} {
			ms, _ := filepath.Glob(filepath.Join(cdir, pat))
			for _, m := range ms {
				copyFile(m, filepath.Join(wd, filepath.Base(m)))
			}
		}
		return wd
	}
	defer func() {
		if len(res.Violations) > 0 || os.Getenv("VERIF_C12_KEEP") != "" {
			if wd := witness(); wd != "" {
				res.Logf("witness files (event log, race reports, goroutine dumps): %s", wd)
			}
		}
		b, _ := json.Marshal(ev)
		_ = os.WriteFile(filepath.Join(run.Scratch, fmt.Sprintf("c12-evidence-%d.json", s.Idx)), b, 0o644)
	}()

	// ---- oracle 1: race reports
	reports, rsize, err := parseRaceLogs(cdir)
	if err != nil {
		res.HarnessErr = "race log: " + err.Error()
		return res
	}
	res.Evals++
	res.Count("race_log_bytes", int(rsize))
	res.Count("race_reports", len(reports))
	byKey := map[string][]raceReport{}
	var harnessOnly []raceReport
	for _, r := range reports {
		if !r.HasLS {
			harnessOnly = append(harnessOnly, r)
			continue
		}
		byKey[r.EntryKey] = append(byKey[r.EntryKey], r)
		ev.RaceKeys[r.EntryKey]++
		ev.RaceInner[r.Access[0].Inner+" | "+r.Access[1].Inner]++
	}
	keys := make([]string, 0, len(byKey))
	for k := range byKey {
		keys = append(keys, k)
	}
	sort.Strings(keys)
	stackKeys := map[string]bool{}
	for _, k := range keys {
		rs := byKey[k]
		sk := map[string]bool{}
		for _, r := range rs {
			sk[r.StackKey] = true
			stackKeys[r.StackKey] = true
		}
		res.Count("race_reports_litestream", len(rs))
		res.Violate(k, "%d data race report(s), %d distinct stack pair(s); first: %s", len(rs), len(sk), rs[0].brief())
		if len(res.Log) < 400 {
			for i, ln := range strings.Split(rs[0].Raw, "\n") {
				if i >= 48 {
					res.Logf("  ... (full report in the witness directory)")
					break
				}
				res.Logf("%s", ln)
			}
		}
	}
	res.Count("race_entry_pairs", len(keys))
	res.Count("race_stack_pairs", len(stackKeys))
	if len(harnessOnly) > 0 {
		res.HarnessErr = fmt.Sprintf("%d race report(s) without a litestream frame (harness race): %s", len(harnessOnly), trunc(harnessOnly[0].Raw, 1500))
	}

	// ---- event log
	evs, _ := readEvents(filepath.Join(cdir, "events.jsonl"))
	for _, e := range evs {
		if e.Err == "" {
			ev.OpsOK[e.Op]++
		} else {
			ev.OpsErr[e.Op]++
		}
	}
	res.Count("calls_completed", len(evs))
	res.Count("calls_target_per_run", s.Ops)
	nerr := 0
	for _, n := range ev.OpsErr {
		nerr += n
	}
	res.Count("calls_returned_error", nerr)
	ev.Overlap = overlap(evs)
	res.Count("overlap_pairs_distinct", len(ev.Overlap))
	res.Count("op_types_seen", len(ev.OpsOK)+countMissing(ev.OpsErr, ev.OpsOK))

	// duplicate registration in any listing
	lists := 0
	for _, e := range evs {
		if e.Reg != "list" || e.List == nil {
			continue
		}
		lists++
		res.Evals++
		for _, p := range sortedKeys(e.List) {
			if e.List[p] > 1 {
				res.Violate("duplicate-registration", "%s lists %s %d times (t=%.3fs)", e.Op, p, e.List[p], float64(e.T0)/1e9)
			}
		}
	}
	res.Count("listings_checked", lists)

	// databases for which a closed DB object was found open / initialised again
	rootCause := map[string]string{}
	rc := func(db string) string {
		if rootCause[db] != "" {
			return " (root cause: " + rootCause[db] + ")"
		}
		return ""
	}
	// mid-run probes
	probeEval := func(p ProbeResult) {
		res.Evals += 2
		res.Count("probes_lock", 1)
		res.Count("probes_fd", 1)
		if strings.HasPrefix(p.Lock, "harness:") || (len(p.FDs) > 0 && strings.HasPrefix(p.FDs[0], "harness:")) {
			res.HarnessErr = "probe: " + p.Lock + fmt.Sprint(p.FDs)
			return
		}
		if p.Lock != "" {
			res.Violate("read-lock-leaked", "%s %s (t=%.1fs): an external connection cannot complete PRAGMA wal_checkpoint(TRUNCATE): %s%s", p.DB, p.When, float64(p.AtMs)/1e3, p.Lock, rc(p.DB))
		}
		if len(p.FDs) > 0 {
			res.Violate("fd-leaked", "%s %s (t=%.1fs): descriptors still open on the database files with no application connection: %v%s", p.DB, p.When, float64(p.AtMs)/1e3, p.FDs, rc(p.DB))
		}
	}

	// ---- child outcome
	var fin Final
	fb, ferr := os.ReadFile(filepath.Join(cdir, "final.json"))
	if ferr == nil {
		ferr = json.Unmarshal(fb, &fin)
	}
	if ferr == nil {
		seen := map[string]bool{}
		for _, o := range fin.Reopened {
			what := "holds a SQLite handle again (re-initialised by a sync path queued behind Close)"
			if o.Open {
				what = "is open again with its monitors running (Open ran after the Close)"
			}
			rootCause[o.DB] = "closed-instance-reopened reported for this database"
			if seen[o.DB+what] {
				continue
			}
			seen[o.DB+what] = true
			res.Evals++
			res.Violate("closed-instance-reopened", "%s: DB object #%d, closed by UnregisterDB/DisableDB/Store.Close, %s; nothing manages it any more. Calls overlapping a close of this database: %s", o.DB, o.N, what, overlappingClose(evs, o.DB))
		}
		res.Count("db_objects_created", fin.Objects)
		res.Count("db_objects_checked_closed", fin.Objects)
		res.Evals += fin.Objects
	}
	switch {
	case timedOut:
		res.HarnessErr = fmt.Sprintf("stress child exceeded %v and was killed (not progress-confirmed => inconclusive)", budget)
		for _, p := range fin.Probes {
			probeEval(p)
		}
		return res
	case exit == 3 && ferr == nil && fin.Status == "stuck":
		res.Evals++
		for _, p := range fin.Probes {
			probeEval(p)
		}
		confirmed := false
		for _, st := range fin.Stuck {
			d1, _ := os.ReadFile(st.Dump1)
			d2, _ := os.ReadFile(st.Dump2)
			gs := stuckGoroutines(string(d1), string(d2))
			if len(gs) == 0 {
				res.Logf("call %s on %s in flight for %d ms but no goroutine is parked in an identical litestream lock-wait stack in both dumps", st.Op, st.DB, st.AgeMs)
				continue
			}
			confirmed = true
			var sb strings.Builder
			for i, g := range gs {
				if i >= 3 {
					break
				}
				fmt.Fprintf(&sb, " | goroutine %s [%s]: %s", g.ID, g.State, strings.Join(lsFrames(g), " <- "))
			}
			res.Violate("stuck-operation", "%s on %s has not returned after %.0f s; %d goroutine(s) parked in the same litestream lock-wait stack in two dumps 10 s apart (calls completed by all goroutines in between: %d)%s", st.Op, st.DB, float64(st.AgeMs)/1e3, len(gs), st.Completed[1]-st.Completed[0], sb.String())
			for _, g := range gs {
				for _, ln := range strings.Split(g.Text, "\n") {
					res.Logf("  g%s: %s", g.ID, ln)
				}
			}
		}
		if !confirmed && res.HarnessErr == "" {
			res.HarnessErr = "a call stayed in flight for more than 100 s without a confirmed lock-wait (slow run => inconclusive)"
		}
		return res
	case exit != 0 || ferr != nil || !strings.HasPrefix(fin.Status, "ok"):
		if ferr == nil && strings.HasPrefix(fin.Status, "error:") {
			res.HarnessErr = "stress child: " + fin.Status + " " + trunc(string(stderrB), 400)
			return res
		}
		res.Evals++
		key, msg := diedKey(string(stderrB))
		if key == "process-died" && !rePanic.MatchString(string(stderrB)) {
			res.HarnessErr = fmt.Sprintf("stress child exited with %d without a panic message: %s", exit, trunc(string(stderrB), 400))
			return res
		}
		res.Violate(key, "the process executing litestream died after %d completed calls: %s", len(evs), msg)
		for _, ln := range strings.Split(trunc(string(stderrB), 6000), "\n") {
			res.Logf("%s", ln)
		}
		return res
	}

	for _, p := range fin.Probes {
		probeEval(p)
	}
	for _, mf := range fin.Mains {
		res.Count("app_commits", int(mf.Commits))
		res.Count("app_rollbacks", int(mf.Rollbacks))
		res.Count("archive_miss", int(mf.ArchMiss))
	}
	for k, v := range fin.Proxy {
		res.Count("proxy_"+k, int(v))
	}
	res.Count("slow_calls_suspected", fin.SlowOps)
	for _, p := range sortedKeys(fin.FinalList) {
		res.Evals++
		if fin.FinalList[p] > 1 {
			res.Violate("duplicate-registration", "after Store.Close the store lists %s %d times", p, fin.FinalList[p])
		}
	}

	// ---- registry history (porcupine)
	var paths, initial []string
	for _, mf := range fin.Mains {
		paths = append(paths, mf.Name)
		initial = append(initial, mf.Name)
	}
	paths = append(paths, "reg0", "reg1", "prb0", "prb1")
	cr, nops := checkRegistry(evs, paths, initial)
	res.Evals += len(paths)
	res.Count("registry_history_ops", nops)
	switch cr {
	case porcupine.Illegal:
		res.Violate("registry-not-linearizable", "the history of %d Register/Unregister/listing observations has no linearization against the one-instance-per-path model", nops)
	case porcupine.Unknown:
		res.Count("registry_check_timed_out", 1)
	}

	// ---- C01 / C02 / snapshots
	cp := caps{txids: 90, snaps: 40, derived: 300}
	if run.Tier == "thorough" {
		cp = caps{txids: 240, snaps: 100, derived: 800}
	}
	distinctK := 0
	for _, mf := range fin.Mains {
		before := res.Counters["distinct_k_"+mf.Name]
		var resets []resetObs
		for _, e := range evs {
			if e.Op == "ResetLocalState" && e.DB == mf.Name && e.Err == "" {
				ro := resetObs{At: float64(e.T1) / 1e9}
				fmt.Sscanf(e.Note, "l0max=%d himax=%d", &ro.L0Max, &ro.HiMax)
				resets = append(resets, ro)
			}
		}
		// a non-PASSIVE checkpoint that failed after wal_checkpoint ran (context
		// expiry, SQLITE_BUSY) is its own witness class as well
		interrupted := ""
		for _, e := range evs {
			if e.DB != mf.Name || e.Err == "" {
				continue
			}
			for _, k := range []string{"reacquire read lock", "bump litestream seq", "cannot snapshot after checkpoint", "cannot copy wal after checkpoint"} {
				if strings.Contains(e.Err, k) {
					interrupted = fmt.Sprintf("%s at t=%.1fs: %s", e.Op, float64(e.T1)/1e9, trunc(e.Err, 90))
				}
			}
			if interrupted != "" {
				break
			}
		}
		switch {
		case strings.Contains(interrupted, "bump litestream seq"):
			res.Count("databases_with_checkpoint_failed_at_seq_bump", 1)
		case interrupted != "":
			res.Count("databases_with_checkpoint_interrupted_elsewhere", 1)
		default:
			res.Count("databases_without_interrupted_checkpoint", 1)
		}
		postRun(res, mf, dir, cp, resets, interrupted, rc(mf.Name))
		distinctK += res.Counters["distinct_k_"+mf.Name] - before
		if res.HarnessErr != "" {
			return res
		}
	}

	res.Count(fmt.Sprintf("gomaxprocs_%d", s.Procs), 1)
	res.Count(fmt.Sprintf("delay_ms_%d", s.MaxDelayMs), 1)
	res.Sig = fmt.Sprintf("%x", sha256.Sum256(raw))[:16]
	res.Nontrivial = len(evs) >= 150 && len(ev.Overlap) >= 40 && res.Counters["probes_lock"] >= 1 && distinctK >= 3
	res.Sample = map[string]any{
		"spec": s, "calls": len(evs), "overlap_pairs": len(ev.Overlap), "race_reports": len(reports),
		"probes": res.Counters["probes_lock"], "txids_checked": res.Counters["txids_checked"], "snapshots_checked": res.Counters["snapshots_checked"],
	}
	return res
}

// overlappingClose lists calls on db whose interval overlaps a closing call
// (UnregisterDB / DisableDB / stop / unregister / Close) and that returned nil
// at or after the moment that close was invoked: the candidates for having
// re-opened or re-initialised the closed object.
func overlappingClose(evs []Event, db string) string {
	isClose := func(op string) bool {
		return strings.HasPrefix(op, "UnregisterDB") || strings.HasPrefix(op, "DisableDB") || op == "POST /stop" || op == "POST /unregister" || strings.HasPrefix(op, "DB.Close")
	}
	isCand := func(op string) bool {
		for _, p := range []string{"EnableDB", "POST /start", "DB.Sync", "SyncAndWait", "Checkpoint-", "CRC64", "Store.SyncDB", "POST /sync"} {
			if strings.HasPrefix(op, p) {
				return true
			}
		}
		return false
	}
	var out []string
	for _, c := range evs {
		if c.DB != db || !isClose(c.Op) {
			continue
		}
		for _, o := range evs {
			if o.DB != db || !isCand(o.Op) || o.Err != "" {
				continue
			}
			if o.T0 < c.T1 && o.T1 > c.T0 {
				out = append(out, fmt.Sprintf("%s [%.3f..%.3fs] with %s [%.3f..%.3fs]", o.Op, float64(o.T0)/1e9, float64(o.T1)/1e9, c.Op, float64(c.T0)/1e9, float64(c.T1)/1e9))
				if len(out) >= 4 {
					return strings.Join(out, "; ")
				}
			}
		}
	}
	if len(out) == 0 {
		return "(none recorded)"
	}
	return strings.Join(out, "; ")
}

func countMissing(a, b map[string]int) int {
	n := 0
	for k := range a {
		if _, ok := b[k]; !ok {
			n++
		}
	}
	return n
}

func lsFrames(g *gStack) []string {
	var out []string
	for _, fn := range g.Funcs {
		if isLS(fn) {
			out = append(out, shortFn(fn))
		}
		if len(out) >= 5 {
			break
		}
	}
	return out
}

// finish aggregates the per-case evidence files into the run evidence.
func finish(run *vf.Run, results []*vf.Result, evd map[string]any) []vf.Violation {
	files, _ := filepath.Glob(filepath.Join(run.Scratch, "c12-evidence-*.json"))
	ovl := map[string]int{}
	ok := map[string]int{}
	er := map[string]int{}
	rk := map[string]int{}
	ri := map[string]int{}
	for _, f := range files {
		b, err := os.ReadFile(f)
		if err != nil {
			continue
		}
		var ce caseEvidence
		if json.Unmarshal(b, &ce) != nil {
			continue
		}
		for k, v := range ce.Overlap {
			ovl[k] += v
		}
		for k, v := range ce.OpsOK {
			ok[k] += v
		}
		for k, v := range ce.OpsErr {
			er[k] += v
		}
		for k, v := range ce.RaceKeys {
			rk[k] += v
		}
		for k, v := range ce.RaceInner {
			ri[k] += v
		}
	}
	evd["operation_pairs_observed_overlapping"] = ovl
	evd["operation_pairs_distinct"] = len(ovl)
	evd["calls_returned_nil_by_type"] = ok
	evd["calls_returned_error_by_type"] = er
	evd["race_reports_by_entry_pair"] = rk
	evd["race_reports_by_innermost_pair"] = ri
	return nil
}
