// Package c11: files are flushed before they are published, and published
// before acknowledged (DESIGN §4 C11). Engine E-TRACE: the victim scenarios of
// C03 run under `strace -f -y`; the log is replayed offline against the
// ordering rules R1 (data flushed before the rename), R2 (directory flushed
// before the operation reports success) and R3 (nothing is unlinked before what
// supersedes it is durable).
package c11

import (
	"encoding/json"
	"fmt"
	"os"
	"os/exec"
	"path/filepath"
	"runtime"
	"sort"
	"strings"
	"sync"
	"time"

	"verif/harness/internal/c03"
	"verif/harness/internal/vf"
)

type spec struct {
	Scenario string `json:"scenario"`
	Cfg      string `json:"cfg"`
	DataSeed int64  `json:"data_seed"`
}

// extra scenarios that only make sense for the trace check: operations that
// publish a file in a call in which nothing else is published.
var extra = []c03.Scenario{
	{
		Name: "T1",
		Doc:  "meta directory lost while down; the restarted process is only asked to shut down cleanly (Close acknowledges after fetching the baseline)",
		Steps: []c03.Step{
			{Op: "start"}, {Op: "w", Arg: "small"}, {Op: "v", Arg: "sync-wait"}, {Op: "w", Arg: "multi"}, {Op: "v", Arg: "sync-wait"}, {Op: "v", Arg: "close"}, {Op: "stop"},
			{Op: "rmmeta"},
			{Op: "startT"}, {Op: "v", Arg: "close"}, {Op: "stop"},
		},
	},
	{
		Name: "T2",
		Doc:  "meta directory lost while down; first call after the restart is a local-only sync (DB.Sync) with nothing new, then an upload-only call",
		Steps: []c03.Step{
			{Op: "start"}, {Op: "w", Arg: "small"}, {Op: "v", Arg: "sync-wait"}, {Op: "w", Arg: "big"}, {Op: "v", Arg: "sync-wait"}, {Op: "v", Arg: "close"}, {Op: "stop"},
			{Op: "rmmeta"},
			{Op: "startT"}, {Op: "v", Arg: "sync"}, {Op: "v", Arg: "replica-sync"}, {Op: "w", Arg: "small"}, {Op: "v", Arg: "sync"}, {Op: "v", Arg: "replica-sync"}, {Op: "v", Arg: "close"}, {Op: "stop"},
		},
	},
	{
		Name: "T5",
		Doc:  "v0.3.x replicas restored by the legacy path: a snapshot-only generation (no WAL segment selected), then a snapshot followed by one WAL segment; plain and with a full integrity check",
		Steps: []c03.Step{
			{Op: "w", Arg: "small"}, {Op: "w", Arg: "big"}, {Op: "w", Arg: "multi"},
			{Op: "plantv3", Arg: "v3snap snap"},
			{Op: "w", Arg: "update"},
			{Op: "plantv3", Arg: "v3wal wal"},
			{Op: "startT"},
			{Op: "v", Arg: "restore out5 rep=v3snap"},
			{Op: "v", Arg: "restore out6 rep=v3snap ic=full"},
			{Op: "v", Arg: "restore out7 rep=v3wal"},
			{Op: "v", Arg: "restore outbare1 rep=v3wal bare=1"},
			{Op: "v", Arg: "restore out8 rep=v3wal ic=quick"},
			{Op: "stop"},
		},
	},
	{
		Name: "T7",
		Doc:  "restores whose output path has no directory component (relative to the working directory), current format",
		Steps: []c03.Step{
			{Op: "start"}, {Op: "w", Arg: "small"}, {Op: "v", Arg: "sync-wait"}, {Op: "w", Arg: "multi"}, {Op: "v", Arg: "sync-wait"}, {Op: "v", Arg: "snapshot"}, {Op: "w", Arg: "update"}, {Op: "v", Arg: "sync-wait"}, {Op: "v", Arg: "close"}, {Op: "stop"},
			{Op: "startT"},
			{Op: "v", Arg: "restore outbare2 bare=1"},
			{Op: "v", Arg: "restore outbare3 bare=1 ic=full"},
			{Op: "stop"},
		},
	},
	{
		Name: "T6",
		Doc:  "restores while every fsync/fdatasync of the restoring process fails with EIO (strace fault injection): nothing may be published under the output name",
		Steps: []c03.Step{
			{Op: "start"}, {Op: "w", Arg: "small"}, {Op: "v", Arg: "sync-wait"}, {Op: "w", Arg: "big"}, {Op: "v", Arg: "sync-wait"}, {Op: "v", Arg: "compact 1"}, {Op: "w", Arg: "update"}, {Op: "v", Arg: "sync-wait"}, {Op: "v", Arg: "close"}, {Op: "stop"},
			{Op: "inject", Arg: "fsync,fdatasync:error=EIO"},
			{Op: "startT"},
			{Op: "v?", Arg: "restore out9"},
			{Op: "v?", Arg: "restore out10 ic=full"},
			{Op: "stop"},
		},
	},
	{
		Name:  "T4",
		Doc:   "chunked catch-up: MaxSyncWALBytes worth 2 / 1 application transactions (and a single frame), backlogs of 1..5 equal-sized transactions between local-only syncs, so some catch-ups end exactly on the byte budget",
		Steps: t4Steps(),
	},
}

func t4Steps() []c03.Step {
	st := []c03.Step{{Op: "start"}, {Op: "w", Arg: "fixed"}, {Op: "v", Arg: "sync-wait"}, {Op: "w", Arg: "fixed"}, {Op: "v", Arg: "sync-wait"}}
	backlog := func(n int) {
		for i := 0; i < n; i++ {
			st = append(st, c03.Step{Op: "w", Arg: "fixed"})
		}
		st = append(st, c03.Step{Op: "v", Arg: "sync"}, c03.Step{Op: "v", Arg: "replica-sync"})
	}
	st = append(st, c03.Step{Op: "budget", Arg: "2"})
	for n := 1; n <= 5; n++ {
		backlog(n)
	}
	st = append(st, c03.Step{Op: "budget", Arg: "1"})
	for n := 1; n <= 3; n++ {
		backlog(n)
	}
	st = append(st, c03.Step{Op: "budget", Arg: "-1"})
	backlog(2)
	st = append(st, c03.Step{Op: "budget", Arg: "0"}, c03.Step{Op: "w", Arg: "fixed"}, c03.Step{Op: "v", Arg: "sync-wait"}, c03.Step{Op: "v", Arg: "close"}, c03.Step{Op: "stop"})
	return st
}

func scenario(name string) *c03.Scenario {
	if s := c03.ScenarioByName(name); s != nil {
		return s
	}
	for i := range extra {
		if extra[i].Name == name {
			return &extra[i]
		}
	}
	return nil
}

func init() {
	vf.Register(&vf.Check{
		ID:    "C11",
		Level: "exploration",
		Rule: "one case = one victim scenario/configuration traced with strace -f -y (C03 scenarios S1-S5, S5b, S7 follow mode, S8 with a same-name snapshot re-upload and a compaction upload whose stream is broken by the victim-side client wrapper, plus T1/T2 in which the fetched baseline is the only file published in the call and T4 with MaxSyncWALBytes worth 2/1 transactions or one frame and backlogs of 1..5 equal-sized transactions per local sync); " +
			"every successful rename to a published name (local L0, fetched baseline L0, replica L0 / compacted / snapshot, restore output, -txid sidecar) is one R1 decision (data flushed after the last modification, before the rename) " +
			"and one R2 decision (fsync of dirname(dst) after the rename and before the next success line of the operation, or process end); every successful unlink of a local or replica LTX file is one R3 decision " +
			"(durable replica files without it still chain from TXID 1 to the highest acknowledged TXID and its TXIDs are contained in durable files of a higher level or, for a snapshot, another snapshot; a local L0 file's TXIDs are contained in durable replica files); around every injected upload failure: no previously listed replica file is gone or altered. " +
			"distinct = (scenario, config); non-trivial = at least one published rename was evaluated and at least one success line was seen",
		Assumptions: []string{
			"checks the order of the calls, not that kernel and disk honour them",
			"file identity = path at open + rename tracking (strace -y annotations)",
			"the victim's one-line replies on stdout (and, for follow mode, the follower's own 'applied updates' log record forwarded to stdout) are the 'operation reported success' events",
			"utimensat after the directory fsync in the file replica is observed but not covered by the stated rules",
			"file replica client only",
		},
		Cases:       cases,
		RunCase:     runCase,
		MinEvals:    100,
		CaseTimeout: 10 * time.Minute,
		Workers:     func(run *vf.Run) int { return 8 },
	})
}

func cases(run *vf.Run) ([]json.RawMessage, error) {
	if _, err := exec.LookPath("strace"); err != nil {
		return nil, fmt.Errorf("strace not available: %w", err)
	}
	type sc struct{ name, cfg string }
	var list []sc
	if run.Tier == "thorough" {
		for _, s := range c03.Scenarios {
			for _, c := range c03.Configs {
				list = append(list, sc{s.Name, c.Name})
			}
		}
		for _, s := range extra {
			for _, c := range c03.Configs {
				if s.Name == "T4" && c.Name != "A" {
					continue // the byte-budget arithmetic needs a WAL that is not restarted by checkpoints
				}
				list = append(list, sc{s.Name, c.Name})
			}
		}
	} else {
		list = []sc{{"S1", "B"}, {"S2", "A"}, {"S3", "A"}, {"S4", "A"}, {"S5", "A"}, {"S5b", "A"}, {"S7", "A"}, {"T1", "A"}, {"T2", "A"}, {"S3", "B"}, {"S8", "A"}, {"T4", "A"}, {"T5", "A"}, {"T6", "A"}, {"T7", "A"}}
	}
	var out []json.RawMessage
	for _, s := range list {
		out = append(out, vf.Spec(spec{Scenario: s.name, Cfg: s.cfg, DataSeed: vf.SubSeed(run.Seed, "C11-data", s.name)}))
	}
	return out, nil
}

var procsOnce sync.Once

func runCase(run *vf.Run, raw json.RawMessage, dir string) *vf.Result {
	procsOnce.Do(func() { runtime.GOMAXPROCS(2) })
	res := &vf.Result{}
	var s spec
	if err := json.Unmarshal(raw, &s); err != nil {
		res.HarnessErr = err.Error()
		return res
	}
	sc := scenario(s.Scenario)
	var cfg c03.Config
	found := false
	for _, c := range c03.Configs {
		if c.Name == s.Cfg {
			cfg, found = c, true
		}
	}
	if sc == nil || !found {
		res.HarnessErr = "unknown scenario/config"
		return res
	}
	root, work := filepath.Join(dir, "s"), filepath.Join(dir, "w")
	res.Sig = s.Scenario + "/" + s.Cfg
	res.Logf("scenario %s (%s) config %s, every victim process under strace", sc.Name, sc.Doc, cfg.Name)
	w, err := c03.NewWorld(root, work, cfg, s.DataSeed, res.Logf)
	if err != nil {
		res.HarnessErr = err.Error()
		return res
	}
	defer w.Close()
	var logs []string
	w.LaunchFor = func(phase int, traced bool) c03.Launch {
		p := filepath.Join(dir, fmt.Sprintf("strace-%d.log", phase))
		logs = append(logs, p)
		l := c03.Launch{Mode: c03.Strace, Log: p}
		if traced && w.Inject != "" {
			l.Inject, w.Inject = w.Inject, ""
			res.Count("victim_phases_with_injected_syscall_faults", 1)
		}
		return l
	}
	at, err := w.Run(sc.Steps, 0)
	oe, isOracle := err.(*c03.OracleError)
	if err != nil && !isOracle {
		res.HarnessErr = fmt.Sprintf("scenario step %d (%s): %v", at, w.InFlight, err)
		return res
	}
	w.Close()
	if isOracle {
		// the scenario stops here; the trace up to this point is still checked below
		res.Evals++
		res.Violate(oe.Key, "%s [scenario %s/%s]", oe.Msg, s.Scenario, s.Cfg)
	}

	chk := NewChecker(root)
	nev := 0
	for i, lp := range logs {
		evs, err := ParseLog(lp)
		if err != nil {
			res.HarnessErr = "strace log: " + err.Error()
			return res
		}
		if len(evs) == 0 {
			res.HarnessErr = fmt.Sprintf("strace log of process %d is empty", i)
			return res
		}
		nev += len(evs)
		chk.StartProcess(i)
		for _, ev := range evs {
			chk.Feed(ev)
		}
		chk.EndProcess()
	}
	res.Evals = chk.Evals
	for k, n := range chk.Counts {
		res.Count(k, n)
	}
	res.Count("trace_events", nev)
	res.Count("traced_processes", len(logs))
	if len(chk.Problems) > 0 {
		res.HarnessErr = "trace bookkeeping: " + strings.Join(chk.Problems, "; ")
	}
	// several witnesses of one class in one trace are one violation
	seen := map[string]bool{}
	for _, f := range chk.Findings {
		res.Logf("%s", f.Msg)
		if seen[f.Key] {
			res.Count("additional_witnesses:"+f.Key, 1)
			continue
		}
		seen[f.Key] = true
		res.Violate(f.Key, "%s [scenario %s/%s]", f.Msg, s.Scenario, s.Cfg)
	}
	if len(chk.Findings) > 0 {
		// keep the trace excerpt around the publishing calls as witness
		for i, lp := range logs {
			relevant := false
			for _, f := range chk.Findings {
				relevant = relevant || f.Phase == i
			}
			if !relevant {
				continue
			}
			for _, l := range excerpt(lp, root) {
				res.Logf("trace[%d] %s", i, l)
			}
		}
	}
	published := 0
	for k, n := range chk.Counts {
		if strings.HasPrefix(k, "renames_published:") {
			published += n
		}
	}
	res.Nontrivial = published > 0 && chk.Counts["markers"] > 0
	keys := make([]string, 0, len(chk.Counts))
	for k := range chk.Counts {
		if strings.HasPrefix(k, "renames_published:") || strings.HasPrefix(k, "R3_evaluated:") {
			keys = append(keys, fmt.Sprintf("%s=%d", k, chk.Counts[k]))
		}
	}
	sort.Strings(keys)
	res.Sample = map[string]any{"scenario": s.Scenario, "cfg": s.Cfg, "processes": len(logs), "events": nev, "evaluated": strings.Join(keys, " ")}
	return res
}

// excerpt returns the rename/unlink/fsync/marker lines of a trace (paths made relative).
func excerpt(path, root string) []string {
	b, err := os.ReadFile(path)
	if err != nil {
		return nil
	}
	var out []string
	for _, l := range strings.Split(string(b), "\n") {
		if !(strings.Contains(l, " rename") || strings.Contains(l, " unlink") || strings.Contains(l, " fsync(") || strings.Contains(l, " fdatasync(") || strings.Contains(l, " write(1<")) {
			continue
		}
		if strings.Contains(l, "ENOENT") {
			continue
		}
		l = strings.ReplaceAll(l, root+"/", "")
		if len(l) > 260 {
			l = l[:260] + "..."
		}
		out = append(out, l)
		if len(out) > 400 {
			break
		}
	}
	return out
}
