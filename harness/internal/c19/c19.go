// Package c19: legacy 0.3.x backups restore to the right state or fail
// (DESIGN §4 C19). Generated 0.3.x replica trees (from real SQLite histories)
// are restored through Replica.Restore for every request of a sweep; the
// expectation comes from an independent model over the generator's own
// records, with the expected database computed by real SQLite.
package c19

import (
	"bytes"
	"context"
	"crypto/sha256"
	"encoding/json"
	"fmt"
	"math/rand"
	"os"
	"path/filepath"
	"time"

	"github.com/benbjohnson/litestream"
	"github.com/benbjohnson/litestream/file"

	"verif/harness/internal/hist"
	"verif/harness/internal/sq"
	"verif/harness/internal/vf"
)

type spec struct {
	Seed        int64  `json:"seed"`
	Kind        string `json:"kind"` // legacy | f9 | mixed-legacy-older | mixed-ltx-older
	PageSize    int    `json:"ps"`
	AutoVacuum  int    `json:"av"`
	LTXSnapshot bool   `json:"ltx_snapshot"` // mixed: a level-9 snapshot is taken early in the current-format part
}

func init() {
	vf.Register(&vf.Check{
		ID:    "C19",
		Level: "exploration",
		Rule: "one case = one generated 0.3.x layout x all requests. Layout: application history (write kinds of E-HIST incl. rollback with spilled frames, DDL, VACUUM) on plain SQLite, WAL index boundary at every forced RESTART/TRUNCATE checkpoint; 1-3 generations (PRNG names), snapshots at index 0 and further PRNG indices (planted before, between or after the segments of their index), each WAL split at 0-3 PRNG offsets (frame boundaries, arbitrary bytes, inside the WAL header, and at the byte length of the previous index's WAL), mtimes planted >=1 min apart from a fixed base. " +
			"Requests: latest, before-first, after-last, T = every planted file time -1s/0/+1s; every single segment removed and every whole index removed x {latest, T at the removed segment, T at the next segment, T at the end of the generation}. " +
			"Not judged, only counted (undetectable_tail_*): the last segment(s) of a non-final index removed - index i then simply ends earlier and i+1 starts at offset 0, which no reader of a 0.3.x listing can tell from a complete layout; an error or the state obtained from what is listed are both accepted there. " +
			"Cases 0 and 1 are pinned demonstrations (F9 layout; timestamp arbitration against a current-format part without level-9 file). " +
			"Mixed cases add current-format files written by a real litestream DB into the same replica directory, planted entirely before or entirely after the legacy files, with and without a level-9 snapshot; requests with and without timestamp in both eras. " +
			"Expectation: model (newest snapshot <= T, contiguous segment run <= T, hole => error) over the generator's records; expected bytes = real SQLite checkpointing (dbStart_s, WAL bytes up to the position), cross-checked against the ledger value derived from recorded commit offsets. " +
			"distinct = hash(kind, page size, generation/snapshot/segment layout); non-trivial = >=2 WAL indices and >=3 segments",
		Assumptions: []string{
			"file replica client only; planted mtimes are the creation times the file client reports",
			"modernc SQLite is the reference for (database, WAL prefix) -> committed state",
			"segment mtimes increase with (index, offset) inside a generation and generations do not overlap in time (the statement is silent otherwise)",
			"a missing tail of a non-final index leaves no trace in a 0.3.x listing; that class is counted, not judged",
			"format arbitration is judged only where one format's files are all older than the other's",
		},
		Cases:       cases,
		RunCase:     runCase,
		MinEvals:    150,
		CaseTimeout: 10 * time.Minute,
	})
}

func cases(run *vf.Run) ([]json.RawMessage, error) {
	n := 12
	if run.Tier == "thorough" {
		n = 150
	}
	var out []json.RawMessage
	for i := 0; i < n; i++ {
		rng := rand.New(rand.NewSource(vf.SubSeed(run.Seed, "C19", i)))
		s := spec{Seed: vf.SubSeed(run.Seed, "C19-case", i), Kind: "legacy"}
		// page sizes rotate so every size is hit; the pinned F9 layout is case 0
		s.PageSize = hist.PageSizes[(i+3)%len(hist.PageSizes)]
		s.AutoVacuum = rng.Intn(3)
		switch {
		case i == 0:
			// pinned demonstration of F9: last index of the last generation split at the
			// byte length of the previous index's WAL (the removal sweep then removes <i+1>/0)
			s.Kind, s.PageSize = "f9", 4096
		case i == 1:
			// pinned demonstration of the timestamp arbitration witness: legacy files all
			// older, current-format files all newer with no level-9 file
			s.Kind, s.PageSize, s.LTXSnapshot = "mixed-legacy-older", 4096, false
		case i%6 == 0:
			s.Kind = "f9"
		case i%6 == 2:
			s.Kind = []string{"mixed-legacy-older", "mixed-ltx-older"}[(i/6)%2]
			s.LTXSnapshot = (i/12)%2 == 0
		case i%6 == 4:
			// current-format files planted between the newest legacy snapshot and the
			// legacy WAL segments that follow it: the legacy snapshot is older than every
			// current-format file, the newest legacy WAL segment is newer than all of them
			s.Kind = "mixed-ltx-between"
			s.LTXSnapshot = (i/6)%2 == 0
		}
		out = append(out, vf.Spec(s))
	}
	return out, nil
}

type runner struct {
	res   *vf.Result
	e     *hist.Env
	L     *layout
	era   *ltxEra
	mixed string
	rc    *refCache
	dir   string
	nOut  int
	perK  map[string]int
	selfK map[string]bool
	hashK map[string]bool // dump hashes the application really committed
}

func (c *runner) violate(key, format string, a ...any) {
	c.res.Count("violation:"+key, 1)
	c.perK[key]++
	if c.perK[key] <= 3 {
		c.res.Violate(key, format, a...)
	}
}

func (c *runner) restore(T time.Time) (got []byte, err error, left bool, herr error) {
	c.nOut++
	out := filepath.Join(c.dir, fmt.Sprintf("out-%d", c.nOut))
	defer func() {
		for _, sfx := range []string{"", "-wal", "-shm", ".tmp", ".tmp-wal", ".tmp-shm", "-txid"} {
			_ = os.Remove(out + sfx)
		}
	}()
	r := litestream.NewReplicaWithClient(nil, file.NewReplicaClient(c.L.rep))
	opt := litestream.NewRestoreOptions()
	opt.OutputPath = out
	opt.Timestamp = T
	ctx, cancel := context.WithTimeout(context.Background(), 2*time.Minute)
	defer cancel()
	err = r.Restore(ctx, opt)
	if err != nil {
		if _, serr := os.Stat(out); serr == nil {
			left = true
		}
		return nil, err, left, nil
	}
	got, rerr := os.ReadFile(out)
	if rerr != nil {
		return nil, nil, false, fmt.Errorf("restore reported success but output unreadable: %w", rerr)
	}
	return got, nil, false, nil
}

// wantFormat says which format the property designates for request T:
// "v3", "ltx" or "none" (no eligible backup in either).
func (c *runner) wantFormat(T time.Time) string {
	switch c.mixed {
	case "legacy-older": // all legacy files < all current-format files
		switch {
		case T.IsZero():
			return "ltx"
		case T.After(c.era.first):
			return "ltx"
		default:
			return "v3"
		}
	case "ltx-between":
		// only the request without a timestamp is made: the most recent backup of the
		// replica is a legacy WAL segment
		return "v3"
	case "ltx-older":
		switch {
		case T.IsZero():
			return "v3"
		case !T.Before(c.L.first):
			return "v3"
		case T.After(c.era.first):
			return "ltx"
		default:
			return "none"
		}
	}
	return "v3"
}

func (c *runner) fromLTX(img []byte) (bool, error) {
	p := filepath.Join(c.dir, "cls-img")
	if err := os.WriteFile(p, img, 0o644); err != nil {
		return false, err
	}
	defer os.Remove(p)
	root, _, _, err := sq.SeqInfo(p)
	if err != nil {
		return false, nil // unreadable: not classifiable as current-format content
	}
	return root != 0, nil
}

// check performs one restore and judges it. Returns false on a harness error.
func (c *runner) check(tag string, T time.Time) bool {
	got, err, left, herr := c.restore(T)
	if herr != nil {
		c.res.HarnessErr = herr.Error()
		return false
	}
	c.res.Evals++
	c.res.Count("restores", 1)
	if T.IsZero() {
		c.res.Count("request_latest", 1)
	} else {
		c.res.Count("request_timestamp", 1)
	}
	c.res.Logf("%s T=%s -> err=%v bytes=%d", tag, rel(T), err, len(got))
	if err != nil && left {
		c.violate(keyErrOutput, "%s T=%s: restore returned an error (%v) and left a database at the output path", tag, rel(T), err)
	}
	want := c.wantFormat(T)
	if c.mixed != "" {
		c.res.Count("mixed_want_"+want, 1)
	}
	switch want {
	case "none":
		if err == nil {
			c.violate(keyWrong, "%s T=%s: no backup of either format is at or before the requested time, restore produced a database (%d bytes)", tag, rel(T), len(got))
		} else {
			c.res.Count("expected_error_no_eligible_backup", 1)
		}
		return true
	case "ltx":
		return c.judgeLTX(tag, T, got, err)
	}
	return c.judgeV3(tag, T, got, err)
}

func (c *runner) judgeLTX(tag string, T time.Time, got []byte, err error) bool {
	key := keyArb
	if !T.IsZero() && !(c.era.hasSnap && c.era.firstSnap.Before(T)) {
		// the current format is restorable at T from its level-0 chain but has no
		// level-9 file before T
		key = keyArbNoSnap
		c.res.Count("mixed_ltx_eligible_without_level9_before_T", 1)
	}
	if err != nil {
		c.violate(key, "%s T=%s [%s]: the current-format files are all newer than every legacy file and eligible, restore failed: %v", tag, rel(T), c.mixed, err)
		return true
	}
	isLTX, herr := c.fromLTX(got)
	if herr != nil {
		c.res.HarnessErr = herr.Error()
		return false
	}
	if !isLTX {
		d, _ := sq.DumpBytes(got, c.dir, false)
		k := int64(-2)
		if d != nil {
			k = d.K
		}
		c.violate(key, "%s T=%s [%s]: the current format holds the more recent eligible backup (files at %s..%s, newest legacy file %s) but the legacy backup was restored (ledger k=%d, final k=%d)", tag, rel(T), c.mixed, rel(c.era.first), rel(c.era.last), rel(c.L.last), k, c.e.K)
		return true
	}
	k, msg := c.e.CheckConsistent(got)
	if msg != "" {
		c.violate(keyWrong, "%s T=%s [%s]: current-format restore is not a committed source state: %s", tag, rel(T), c.mixed, msg)
		return true
	}
	if T.IsZero() && k != c.e.K {
		c.violate(keyWrong, "%s [%s]: latest restore has ledger k=%d, source was at k=%d when litestream closed", tag, c.mixed, k, c.e.K)
		return true
	}
	c.res.Count("ltx_used_as_expected", 1)
	return true
}

func (c *runner) judgeV3(tag string, T time.Time, got []byte, err error) bool {
	o := c.L.expectV3(T)
	arb := func() (string, bool) { // in mixed replicas: was current-format content returned?
		if c.mixed == "" || got == nil {
			return "", false
		}
		is, _ := c.fromLTX(got)
		if is {
			return keyArb, true
		}
		return "", false
	}
	if o.wantErr {
		if err != nil {
			c.res.Count("expected_error_got_error", 1)
			return true
		}
		if k, is := arb(); is {
			c.violate(k, "%s T=%s [%s]: the legacy format holds the more recent eligible backup, current-format content was restored", tag, rel(T), c.mixed)
			return true
		}
		if o.gapKey == "" {
			c.violate(keyWrong, "%s T=%s: %s, restore produced a database (%d bytes)", tag, rel(T), o.why, len(got))
			return true
		}
		if o.gapKey == keyF9 {
			c.res.Count("f9_layout_restored_without_error", 1)
		}
		c.violate(o.gapKey, "%s T=%s: %s; restore succeeded (%d bytes) instead of failing [%s]", tag, rel(T), o.why, len(got), c.L.signature())
		return true
	}
	if o.truncatedMid {
		c.res.Count("undetectable_tail_of_nonfinal_index_missing", 1)
	}
	if err != nil {
		if o.truncatedMid {
			c.res.Count("undetectable_tail_missing_restore_failed", 1)
			return true
		}
		c.violate(keyFailed, "%s T=%s: expected the state of generation %d snapshot %d + %v, restore failed: %v [%s]", tag, rel(T), o.gen, o.snap, o.chain, err, c.L.signature())
		return true
	}
	if k, is := arb(); is {
		c.violate(k, "%s T=%s [%s]: the legacy format holds the more recent eligible backup, current-format content was restored", tag, rel(T), c.mixed)
		return true
	}
	ref, rerr := c.rc.get(c.L, o)
	if rerr != nil {
		c.res.HarnessErr = rerr.Error()
		return false
	}
	if !o.truncatedMid && !c.selfK[o.key()] {
		// oracle self-check: the SQLite-computed reference must be the state the
		// application committed as ledger k, where k comes from recorded commit offsets
		d, derr := sq.DumpBytes(ref, c.dir, true)
		if derr != nil {
			c.res.HarnessErr = "reference unreadable: " + derr.Error()
			return false
		}
		if d.K != o.k || d.Hash != c.e.Hashes[o.k] || d.Integ != "ok" {
			c.res.HarnessErr = fmt.Sprintf("oracle self-check: reference for %s has ledger k=%d integ=%s, commit records say k=%d (hash match %v)", o.key(), d.K, d.Integ, o.k, d.Hash == c.e.Hashes[o.k])
			return false
		}
		c.selfK[o.key()] = true
		c.res.Count("reference_self_checks", 1)
	}
	if bytes.Equal(got, ref) {
		c.res.Count("state_equal_bytes", 1)
	} else {
		dg, gerr := sq.DumpBytes(got, c.dir, true)
		dr, rerr := sq.DumpBytes(ref, c.dir, true)
		if rerr != nil && !o.truncatedMid {
			c.res.HarnessErr = "reference unreadable: " + rerr.Error()
			return false
		}
		same := gerr == nil && rerr == nil && dg.Hash == dr.Hash && dg.Integ == dr.Integ
		if !same {
			desc := "unreadable"
			if gerr == nil {
				desc = fmt.Sprintf("ledger k=%d integrity=%s", dg.K, dg.Integ)
			}
			c.violate(keyWrong, "%s T=%s: expected generation %d snapshot %d + %v (ledger k=%d, %d bytes); restored %d bytes, %s [%s]", tag, rel(T), o.gen, o.snap, o.chain, o.k, len(ref), len(got), desc, c.L.signature())
			return true
		}
		c.res.Count("state_equal_logical_only", 1)
	}
	if o.truncatedMid {
		// describe what such a restore hands to the user (evidence only)
		d, derr := sq.DumpBytes(got, c.dir, true)
		switch {
		case derr != nil || d.Integ != "ok":
			c.res.Count("undetectable_tail_missing_result_corrupt", 1)
		case c.hashK[d.Hash]:
			c.res.Count("undetectable_tail_missing_result_is_a_source_state", 1)
		default:
			c.res.Count("undetectable_tail_missing_result_never_existed", 1)
		}
	}
	return true
}

func (c *runner) hide(s *segFile) error {
	s.present = false
	return os.Rename(s.path, s.path+".hidden")
}

func (c *runner) unhide(s *segFile) error {
	s.present = true
	if err := os.Rename(s.path+".hidden", s.path); err != nil {
		return err
	}
	return os.Chtimes(s.path, s.t, s.t)
}

func (g *generation) endTime() time.Time {
	var t time.Time
	for _, s := range g.snaps {
		if s.t.After(t) {
			t = s.t
		}
	}
	for _, s := range g.segs {
		if s.t.After(t) {
			t = s.t
		}
	}
	return t
}

// sweepTimes: every planted legacy file time -1s/0/+1s.
func (c *runner) sweepTimes() []time.Time {
	var ts []time.Time
	for _, s := range c.L.snaps {
		ts = append(ts, s.t)
	}
	for _, s := range c.L.segs {
		ts = append(ts, s.t)
	}
	var out []time.Time
	for _, t := range ts {
		for _, d := range []time.Duration{-time.Second, 0, time.Second} {
			out = append(out, t.Add(d))
		}
	}
	return out
}

func (c *runner) removals(limit int) bool {
	n := 0
	for gi, g := range c.L.gens {
		end := g.endTime()
		for j, s := range g.segs {
			if limit > 0 && n >= limit {
				return true
			}
			n++
			if err := c.hide(s); err != nil {
				c.res.HarnessErr = err.Error()
				return false
			}
			final := j == len(g.segs)-1
			if final {
				c.res.Count("removed_final_segment_of_generation", 1)
			} else if j+1 < len(g.segs) && g.segs[j+1].index != s.index {
				c.res.Count("removed_last_segment_of_nonfinal_index", 1)
			} else if s.off == 0 {
				c.res.Count("removed_first_segment_of_index", 1)
			} else {
				c.res.Count("removed_middle_segment", 1)
			}
			tag := fmt.Sprintf("remove %s", s)
			ok := c.check(tag, time.Time{}) && c.check(tag, s.t) && c.check(tag, end)
			if ok && !final {
				ok = c.check(tag, g.segs[j+1].t)
			}
			if err := c.unhide(s); err != nil {
				c.res.HarnessErr = err.Error()
				return false
			}
			if !ok {
				return false
			}
		}
		if limit > 0 {
			continue
		}
		// whole indices
		for i, wi := range g.idx {
			if wi.wal == nil {
				continue
			}
			var hs []*segFile
			for _, s := range g.segs {
				if s.index == i {
					hs = append(hs, s)
				}
			}
			if len(hs) < 2 {
				continue // a single segment: already covered above
			}
			for _, s := range hs {
				if err := c.hide(s); err != nil {
					c.res.HarnessErr = err.Error()
					return false
				}
			}
			c.res.Count("removed_whole_index", 1)
			tag := fmt.Sprintf("remove index g%d:%d", gi, i)
			ok := c.check(tag, time.Time{}) && c.check(tag, end)
			for _, s := range hs {
				if err := c.unhide(s); err != nil {
					c.res.HarnessErr = err.Error()
					return false
				}
			}
			if !ok {
				return false
			}
		}
	}
	return true
}

func runCase(run *vf.Run, raw json.RawMessage, dir string) *vf.Result {
	var s spec
	res := &vf.Result{}
	if err := json.Unmarshal(raw, &s); err != nil {
		res.HarnessErr = err.Error()
		return res
	}
	rng := rand.New(rand.NewSource(s.Seed))
	cfg := hist.Config{PageSize: s.PageSize, AutoVacuum: s.AutoVacuum, MinCheckpointPageN: 1000, TruncatePageN: 0, CheckpointInterval: 0, MaxSyncWALFrames: -1, MaxSyncLTXFiles: 0}
	e, err := hist.NewEnv(dir, cfg, rng, res)
	if err != nil {
		res.HarnessErr = err.Error()
		return res
	}
	defer e.Close()
	gs := genSpec{maxGens: 3, plantF9: s.Kind == "f9", startTime: baseTime}
	L, err := buildLegacy(e, rng, e.RepPath, gs)
	if err != nil {
		res.HarnessErr = err.Error()
		return res
	}
	c := &runner{res: res, e: e, L: L, dir: dir, rc: &refCache{dir: dir, m: map[string][]byte{}}, perK: map[string]int{}, selfK: map[string]bool{}, hashK: map[string]bool{}}
	switch s.Kind {
	case "mixed-legacy-older":
		c.mixed = "legacy-older"
		c.era, err = buildLTX(e, rng, s.LTXSnapshot, L.last.Add(10*time.Minute))
	case "mixed-ltx-older":
		c.mixed = "ltx-older"
		c.era, err = buildLTX(e, rng, s.LTXSnapshot, baseTime.Add(-12*time.Hour))
	case "mixed-ltx-between":
		var tSnap time.Time
		for _, sn := range L.snaps {
			if sn.t.After(tSnap) {
				tSnap = sn.t
			}
		}
		tail := 0
		for _, sg := range L.segs {
			if sg.t.After(tSnap) {
				sg.t = sg.t.Add(48 * time.Hour)
				if sg.present {
					if cerr := os.Chtimes(sg.path, sg.t, sg.t); cerr != nil {
						res.HarnessErr = cerr.Error()
						return res
					}
				}
				if sg.t.After(L.last) {
					L.last = sg.t
				}
				tail++
			}
		}
		if tail == 0 {
			// no legacy WAL segment follows the newest snapshot: nothing to interleave
			res.Count("mixed_between_not_applicable(no segment after the newest snapshot)", 1)
			c.mixed = "legacy-older"
			c.era, err = buildLTX(e, rng, s.LTXSnapshot, L.last.Add(10*time.Minute))
		} else {
			c.mixed = "ltx-between"
			c.era, err = buildLTX(e, rng, s.LTXSnapshot, tSnap.Add(time.Hour))
		}
	}
	if err != nil {
		res.HarnessErr = err.Error()
		return res
	}
	e.CloseApp()
	for _, h := range e.Hashes {
		c.hashK[h] = true
	}
	if c.era != nil {
		f0 := c.era.files[0].ref
		if f0.Level != 0 || f0.Min != 1 || f0.Max != 1 {
			res.HarnessErr = fmt.Sprintf("mixed: earliest current-format file is %s, expected L0/1-1", f0)
			return res
		}
		if c.mixed == "ltx-older" && !c.era.last.Add(10*time.Minute).Before(L.first) {
			res.HarnessErr = "mixed: current-format era does not end before the legacy era"
			return res
		}
		res.Count("mixed_"+c.mixed, 1)
		res.Count("mixed_ltx_files", len(c.era.files))
	}

	// observation counters about the layout
	res.Count("layouts", 1)
	res.Count("generations", len(L.gens))
	res.Count("snapshots", len(L.snaps))
	res.Count("segments", len(L.segs))
	res.Count("wal_indices", L.nIndices())
	res.Count(fmt.Sprintf("page_size_%d", L.pageSize), 1)
	res.Count("layouts_with_cut_at_prev_wal_length", boolN(len(L.f9Plant) > 0))
	for _, sg := range L.segs {
		switch {
		case sg.off == 0:
		case sg.off < 32:
			res.Count("cut_inside_wal_header", 1)
		case sg.frameCut:
			res.Count("cut_at_frame_boundary", 1)
		default:
			res.Count("cut_inside_frame", 1)
		}
	}
	for _, sn := range L.snaps {
		if sn.index > 0 {
			res.Count("snapshot_at_nonzero_index", 1)
		}
	}
	res.Logf("layout: %s f9plant=%v", L.signature(), L.f9Plant)
	for _, sn := range L.snaps {
		res.Logf("  snapshot g%d:%d at %s", sn.gen, sn.index, rel(sn.t))
	}
	for _, sg := range L.segs {
		res.Logf("  segment %s len=%d at %s", sg, len(sg.data), rel(sg.t))
	}
	if c.era != nil {
		for _, f := range c.era.files {
			res.Logf("  ltx %s at %s", f.ref, rel(f.t))
		}
	}

	run1 := func() bool {
		if !c.check("latest", time.Time{}) {
			return false
		}
		if c.mixed == "ltx-between" {
			if !(c.era.first.After(L.snaps[0].t) && c.era.last.Before(L.last)) {
				res.HarnessErr = "mixed: current-format era is not between the legacy snapshot and the newest legacy segment"
			}
			return true // requests with a timestamp are ambiguous in this layout and are not made
		}
		firstAny, lastAny := L.first, L.last
		if c.era != nil {
			if c.era.first.Before(firstAny) {
				firstAny = c.era.first
			}
			if c.era.last.After(lastAny) {
				lastAny = c.era.last
			}
		}
		if !c.check("before-first", firstAny.Add(-time.Hour)) || !c.check("after-last", lastAny.Add(time.Hour)) {
			return false
		}
		for _, t := range c.sweepTimes() {
			if !c.check("ts", t) {
				return false
			}
		}
		if c.era != nil {
			for _, f := range c.era.files {
				if !c.check("ts-ltx", f.t.Add(time.Second)) {
					return false
				}
			}
			// between the two eras
			mid := L.last.Add(5 * time.Minute)
			if c.mixed == "ltx-older" {
				mid = c.era.last.Add(5 * time.Minute)
			}
			if !c.check("between-eras", mid) {
				return false
			}
			return c.removals(3)
		}
		if !c.listingFaults() {
			return false
		}
		return c.removals(0)
	}
	run1()

	res.Count("references_computed_by_sqlite", c.rc.n)
	res.Sig = fmt.Sprintf("%x", sha256.Sum256([]byte(s.Kind+fmt.Sprint(s.LTXSnapshot)+L.signature())))[:16]
	res.Nontrivial = L.nIndices() >= 2 && len(L.segs) >= 3
	res.Sample = map[string]any{"kind": s.Kind, "layout": L.signature(), "restores": res.Evals, "cut_at_prev_wal_length": L.f9Plant}
	return res
}

func boolN(b bool) int {
	if b {
		return 1
	}
	return 0
}
