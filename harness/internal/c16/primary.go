package c16

import (
	"context"
	"errors"
	"fmt"
	"math/rand"
	"os"
	"path/filepath"
	"strings"
	"time"

	"github.com/benbjohnson/litestream"
	"github.com/benbjohnson/litestream/file"

	"verif/harness/internal/hist"
	"verif/harness/internal/oracle"
	"verif/harness/internal/vf"
)

// followMask: the header bytes follow mode rewrites on page 1 (18-19 journal
// mode bytes, 24-27 randomised change counter) plus 92-99 (version-valid-for /
// library version) as agreed in DESIGN §4 C16.
var followMask = [][2]int{{18, 20}, {24, 28}, {92, 100}}

// primary is the never-killed side: application + litestream with compaction,
// snapshots and 1ns level-0 retention (level-0 files vanish as soon as they are
// compacted into level 1), all driven sequentially by the case.
type primary struct {
	e   *hist.Env
	ctx context.Context
	res *vf.Result
	rng *rand.Rand

	small bool // no multi-page blobs (keeps the number of kill points per scenario moderate)
	ddlN  int
}

var pageSizes = []int{512, 1024, 4096, 8192, 65536}

func pickConfig(rng *rand.Rand, i int) hist.Config {
	cfg := hist.RandomConfig(rng)
	cfg.PageSize = pageSizes[i%len(pageSizes)]
	cfg.AutoVacuum = (i / len(pageSizes)) % 3
	// keep the sync path simple: C16 is about the follower, not about sync limits
	cfg.MaxSyncWALFrames = -1
	cfg.MaxSyncLTXFiles = 0
	return cfg
}

func newPrimary(dir string, cfg hist.Config, rng *rand.Rand, res *vf.Result) (*primary, error) {
	if err := os.MkdirAll(dir, 0o755); err != nil {
		return nil, err
	}
	e, err := hist.NewEnv(dir, cfg, rng, res)
	if err != nil {
		return nil, err
	}
	e.Tune = func(db *litestream.DB) { db.L0Retention = time.Nanosecond }
	if err := e.StartLS(); err != nil {
		e.Close()
		return nil, fmt.Errorf("open litestream: %w", err)
	}
	return &primary{e: e, ctx: context.Background(), res: res, rng: rng}, nil
}

func (p *primary) close() { p.e.Close() }

func (p *primary) max() int { return oracle.MaxTXID(p.e.RepPath) }

// write commits n application transactions, each followed by an acknowledged sync.
func (p *primary) write(n int) error {
	for i := 0; i < n; i++ {
		kinds := []string{"ins-small", "ins-small", "ins-big", "ins-multi", "update", "delete-half", "delete-all", "ddl", "ins-multi"}
		if p.small {
			kinds = []string{"ins-small", "ins-small", "ins-multi", "update", "delete-half", "delete-all", "ddl", "ins-multi"}
		}
		if err := p.appWrite(kinds[p.rng.Intn(len(kinds))]); err != nil {
			return err
		}
		if err := p.sync(); err != nil {
			return err
		}
	}
	return nil
}

func (p *primary) blob(n int) []byte {
	b := make([]byte, n)
	p.rng.Read(b)
	return b
}

// appWrite commits one application transaction of the given shape on the
// primary's writer connection. (hist.Env.AppWriteKind also records a ledger
// hash per commit, which C16 does not use and which dominates the CPU cost.)
func (p *primary) appWrite(kind string) error {
	tx, err := p.e.W.Begin()
	if err != nil {
		return fmt.Errorf("primary app begin: %w", err)
	}
	tbl := fmt.Sprintf("t%d", p.rng.Intn(3))
	var ex error
	switch kind {
	case "ins-small":
		_, ex = tx.Exec(`INSERT INTO `+tbl+`(v) VALUES(?)`, p.blob(10+p.rng.Intn(200)))
	case "ins-big":
		_, ex = tx.Exec(`INSERT INTO `+tbl+`(v) VALUES(?)`, p.blob([]int{3000, 20000, 70000}[p.rng.Intn(3)]))
	case "ins-multi":
		n := 2 + p.rng.Intn(5)
		for i := 0; i < n && ex == nil; i++ {
			_, ex = tx.Exec(`INSERT INTO `+tbl+`(v) VALUES(?)`, p.blob(100+p.rng.Intn(3000)))
		}
	case "update":
		_, ex = tx.Exec(`UPDATE `+tbl+` SET v=? WHERE id%3=?`, p.blob(50), p.rng.Intn(3))
	case "delete-half":
		_, ex = tx.Exec(`DELETE FROM `+tbl+` WHERE id%2=?`, p.rng.Intn(2))
	case "delete-all":
		_, ex = tx.Exec(`DELETE FROM ` + tbl)
	case "marker":
		// a fresh table: its root page is written by this transaction only, so a
		// follower that skips this TXID keeps a stale page whatever comes later
		p.ddlN++
		_, ex = tx.Exec(fmt.Sprintf(`CREATE TABLE m%d(id INTEGER PRIMARY KEY, v BLOB)`, p.ddlN))
		if ex == nil {
			_, ex = tx.Exec(fmt.Sprintf(`INSERT INTO m%d(v) VALUES(?)`, p.ddlN), p.blob(200))
		}
	case "ddl":
		p.ddlN++
		switch p.rng.Intn(3) {
		case 0:
			_, ex = tx.Exec(fmt.Sprintf(`CREATE TABLE x%d(id INTEGER PRIMARY KEY, a, b)`, p.ddlN))
			if ex == nil {
				_, ex = tx.Exec(fmt.Sprintf(`INSERT INTO x%d(a,b) VALUES(?,?)`, p.ddlN), p.ddlN, p.blob(300))
			}
		case 1:
			_, ex = tx.Exec(fmt.Sprintf(`CREATE INDEX IF NOT EXISTS i_%s_%d ON %s(v)`, tbl, p.ddlN%2, tbl))
		case 2:
			_, ex = tx.Exec(fmt.Sprintf(`DROP INDEX IF EXISTS i_%s_%d`, tbl, p.ddlN%2))
		}
	}
	if ex == nil {
		_, ex = tx.Exec(`UPDATE ledger SET k=k+1`)
	}
	if ex != nil {
		_ = tx.Rollback()
		return fmt.Errorf("primary app %s: %w", kind, ex)
	}
	if err := tx.Commit(); err != nil {
		return fmt.Errorf("primary app %s commit: %w", kind, err)
	}
	p.e.Logf("app %s %s", kind, tbl)
	p.res.Count("app_commit_"+kind, 1)
	return nil
}

func (p *primary) sync() error {
	var err error
	for try := 0; try < 3; try++ {
		if err = p.e.LS.SyncAndWait(p.ctx); err == nil {
			return nil
		}
		p.e.Logf("SyncAndWait err=%v (try %d)", err, try)
	}
	return fmt.Errorf("primary SyncAndWait keeps failing: %w", err)
}

// marker commits a transaction whose effect no later transaction overwrites.
func (p *primary) marker() error {
	if err := p.appWrite("marker"); err != nil {
		return err
	}
	return p.sync()
}

// shrink makes the database file smaller (VACUUM after a mass delete), so that
// a later LTX file carries a Commit below the follower's current size.
func (p *primary) shrink() error {
	if err := p.appWrite("delete-all"); err != nil {
		return err
	}
	if _, err := p.e.W.Exec(`VACUUM`); err != nil {
		p.e.Logf("VACUUM err=%v", err)
	} else {
		p.res.Count("primary_vacuum", 1)
	}
	return p.sync()
}

func (p *primary) compact(level int) {
	info, err := p.e.LS.Compact(p.ctx, level)
	if err != nil {
		if !errors.Is(err, litestream.ErrNoCompaction) {
			p.e.Logf("Compact(%d) err=%v", level, err)
		}
		return
	}
	p.e.Logf("Compact(%d) -> %d-%d; L0 now %v", level, info.MinTXID, info.MaxTXID, l0Set(p.e.RepPath))
	p.res.Count(fmt.Sprintf("primary_compact_L%d", level), 1)
}

func (p *primary) snapshot() {
	info, err := p.e.LS.Snapshot(p.ctx)
	if err != nil {
		p.e.Logf("Snapshot err=%v", err)
		return
	}
	p.e.Logf("Snapshot -> 1-%d", info.MaxTXID)
	p.res.Count("primary_snapshot", 1)
}

// snapshotFloor is what the oldest retained snapshot covers: followers whose
// sidecar TXID is at least this are inside the property's precondition
// (everything above it is still bridgeable from levels >= 1).
func snapshotFloor(rep string) int {
	snaps := oracle.ListLevel(rep, litestream.SnapshotLevel)
	if len(snaps) == 0 {
		return 0
	}
	m := snaps[0].Max
	for _, s := range snaps {
		if s.Max < m {
			m = s.Max
		}
	}
	return m
}

// pruneSnapshots does what Store.EnforceSnapshotRetention does with a zero
// retention: keep only the newest snapshot and cascade the TXID floor to the
// compaction levels. It is only executed when every follower position the
// caller still wants to resume from (pos) stays covered: the snapshot that
// becomes the oldest one must not be newer than pos.
func (p *primary) pruneSnapshots(pos int) bool {
	snaps := oracle.ListLevel(p.e.RepPath, litestream.SnapshotLevel)
	if len(snaps) < 2 {
		return false
	}
	newest := snaps[len(snaps)-1].Max
	if newest > pos {
		return false
	}
	minTXID, err := p.e.LS.EnforceSnapshotRetention(p.ctx, time.Now())
	if err != nil {
		p.e.Logf("EnforceSnapshotRetention err=%v", err)
		return false
	}
	for level := 1; level <= 3; level++ {
		if err := p.e.LS.EnforceRetentionByTXID(p.ctx, level, minTXID); err != nil {
			p.e.Logf("EnforceRetentionByTXID(%d,%d) err=%v", level, minTXID, err)
		}
	}
	p.e.Logf("snapshot retention: floor=%d, files now %v", minTXID, oracle.ListAll(p.e.RepPath))
	p.res.Count("primary_snapshot_retention", 1)
	return true
}

// deepPrune takes a snapshot at the current position and then enforces TXID
// retention at that position on levels 1..3 and removes the older snapshots (what
// Store.EnforceSnapshotRetention does with a short retention): every compaction file that ends before the snapshot is
// removed except the newest file of its level. A follower that is down at an
// older TXID can afterwards only catch up through several levels (e.g. the
// surviving coarse L2 file, then the newest L1 file, then level 0).
func (p *primary) deepPrune() {
	info, err := p.e.LS.Snapshot(p.ctx)
	if err != nil {
		p.e.Logf("Snapshot err=%v", err)
		return
	}
	p.res.Count("primary_snapshot", 1)
	for level := 1; level <= 3; level++ {
		if err := p.e.LS.EnforceRetentionByTXID(p.ctx, level, info.MaxTXID); err != nil {
			p.e.Logf("EnforceRetentionByTXID(%d,%d) err=%v", level, info.MaxTXID, err)
		}
	}
	// The older snapshots go as well, as in Store.EnforceSnapshotRetention, which trims the
	// compaction levels only below the oldest snapshot it keeps. (An earlier version kept them
	// in half of the cases: a state litestream's own retention never produces, in which a
	// follower above the oldest snapshot finds its way up deleted -- a false alarm of this
	// harness, DESIGN section 11.)
	_ = p.rng.Intn(2) // PRNG stream unchanged
	if _, err := p.e.LS.EnforceSnapshotRetention(p.ctx, time.Now()); err != nil {
		p.e.Logf("EnforceSnapshotRetention err=%v", err)
	}
	p.e.Logf("deep prune at TXID %d: files now %v", info.MaxTXID, oracle.ListAll(p.e.RepPath))
	p.res.Count("primary_deep_prune", 1)
}

// bridgePath simulates which files lead from TXID k to the replica max using
// levels 0..8 only (level 0 first, then the lowest level that covers the next
// TXID). ok=false if some TXID in (k, max] is covered by no such file, i.e. the
// follower cannot catch up incrementally. levels = distinct levels >= 1 used.
func bridgePath(rep string, k int) (ok bool, levels int, path []string) {
	files := oracle.ListAll(rep)
	max := 0
	for _, f := range files {
		if f.Max > max {
			max = f.Max
		}
	}
	used := map[int]bool{}
	for p := k; p < max; {
		var pick *oracle.FileRef
		for i := range files {
			f := &files[i]
			if f.Level >= litestream.SnapshotLevel || f.Min > p+1 || f.Max <= p {
				continue
			}
			if pick == nil || f.Level < pick.Level {
				pick = f
			}
		}
		if pick == nil {
			return false, len(used), path
		}
		if pick.Level > 0 {
			used[pick.Level] = true
		}
		if n := len(path); n == 0 || !(pick.Level == 0 && strings.HasPrefix(path[n-1], "L0")) {
			path = append(path, pick.String())
		}
		p = pick.Max
	}
	return true, len(used), path
}

func l0Set(rep string) []int {
	var a []int
	for _, f := range oracle.ListLevel(rep, 0) {
		a = append(a, f.Max)
	}
	return a
}

func hasL0(rep string, txid int) bool {
	for _, f := range oracle.ListLevel(rep, 0) {
		if f.Min <= txid && txid <= f.Max {
			return true
		}
	}
	return false
}

// reference is the ordinary restore of TXID txid from the replica at rep.
func reference(rep, scratch string, txid int) ([]byte, error) {
	r := litestream.NewReplicaWithClient(nil, file.NewReplicaClient(rep))
	opt := litestream.NewRestoreOptions()
	opt.TXID = hist.TXID(txid)
	return hist.RestoreBytes(context.Background(), r, scratch, opt)
}

// linkTree snapshots a replica directory with hard links (the file client
// never modifies a published file in place).
func linkTree(src, dst string) error {
	return filepath.Walk(src, func(p string, fi os.FileInfo, err error) error {
		if err != nil {
			return err
		}
		rel, _ := filepath.Rel(src, p)
		if fi.IsDir() {
			return os.MkdirAll(filepath.Join(dst, rel), 0o755)
		}
		if filepath.Ext(p) != ".ltx" {
			return nil
		}
		return os.Link(p, filepath.Join(dst, rel))
	})
}
