package c12

import (
	"context"
	"fmt"
	"math/rand"
	"testing"

	"github.com/benbjohnson/litestream"

	"verif/harness/internal/hist"
	"verif/harness/internal/oracle"
	"verif/harness/internal/vf"
)

func TestResetRepro(t *testing.T) {
	dir := t.TempDir()
	res := &vf.Result{}
	cfg := hist.Config{PageSize: 4096, MinCheckpointPageN: 1000, TruncatePageN: 0, CheckpointInterval: 0, MaxSyncWALFrames: 0, MaxSyncLTXFiles: 0}
	e, err := hist.NewEnv(dir, cfg, rand.New(rand.NewSource(1)), res)
	if err != nil {
		t.Fatal(err)
	}
	defer e.Close()
	if err := e.StartLS(); err != nil {
		t.Fatal(err)
	}
	ctx := context.Background()
	must := func(what string, err error) {
		t.Logf("%s: err=%v", what, err)
		if err != nil {
			t.Fatalf("%s: %v", what, err)
		}
	}
	w := func() { _, err := e.AppWriteKind("ins-small"); must("app write", err) }
	w()
	must("SyncAndWait#1", e.LS.SyncAndWait(ctx)) // L0/1 on the replica
	w()
	must("DB.Sync (local L0/2 only)", e.LS.Sync(ctx))
	_, err = e.LS.Snapshot(ctx)
	must("Snapshot (L9/1-2 uploaded before L0/2)", err)
	must("ResetLocalState", e.LS.ResetLocalState(ctx))
	_, err = e.W.Exec(`INSERT INTO t1(v) VALUES(randomblob(9000)); UPDATE ledger SET k=k+1;`)
	must("app write t1 (direct)", err)
	must("SyncAndWait#2", e.LS.SyncAndWait(ctx))
	_, err = e.W.Exec(`INSERT INTO t2(v) VALUES(randomblob(9000));`)
	must("app write t2 (direct)", err)
	must("SyncAndWait#3", e.LS.SyncAndWait(ctx))
	for _, f := range oracle.ListAll(e.RepPath) {
		t.Logf("replica file %s size=%d", f, f.Size)
	}
	v, herr := e.AckCompare("final")
	t.Logf("final ack compare: violation=%q harness=%v", v, herr)
	for n := 1; n <= oracle.MaxTXID(e.RepPath); n++ {
		opt := litestream.NewRestoreOptions()
		opt.TXID = hist.TXID(n)
		img, err := e.RestoreBytes(opt)
		if err != nil {
			t.Logf("Restore(TXID=%d): %v", n, err)
			continue
		}
		k, why := e.CheckConsistent(img)
		t.Logf("Restore(TXID=%d): ledger k=%d %s", n, k, why)
	}
	fmt.Println()
}
