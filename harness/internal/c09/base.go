//go:build verif

package c09

import (
	"database/sql"
	"fmt"
	"math/rand"
	"os"
	"path/filepath"

	"verif/harness/internal/oracle"
	"verif/harness/internal/sq"
)

var pageSizes = []int{512, 1024, 2048, 4096, 8192, 16384, 32768, 65536}

// baseSpec describes one harvested (db, WAL) pair. The workload is a pure
// function of the spec (the WAL salts are SQLite's own randomness).
type baseSpec struct {
	Idx        int   `json:"idx"`
	Seed       int64 `json:"seed"`
	PageSize   int   `json:"page_size"`
	AutoVacuum int   `json:"auto_vacuum"`
	Kind       int   `json:"kind"`
}

var kindNames = []string{
	"restart+stale-tail+uncommitted-spill",
	"single-generation-never-checkpointed",
	"auto_vacuum-full-shrinking-commits+stale-tail",
	"incremental_vacuum-shrink+uncommitted-spill",
	"two-restarts+spilled-committed-txn",
	"truncate-checkpoint+rolled-back-spill-tail",
	"auto_vacuum-full-grow-then-delete-in-one-spilled-txn",
}

func (b baseSpec) String() string {
	return fmt.Sprintf("base%d[ps=%d av=%d %s]", b.Idx, b.PageSize, b.AutoVacuum, kindNames[b.Kind])
}

// makeBaseSpec: kinds rotate with the base index, page sizes rotate with the
// base index shifted by the run seed, so that 8 consecutive bases cover all 8
// page sizes and other seeds pair the sizes with other workload kinds.
func makeBaseSpec(runSeed, seed int64, i int) baseSpec {
	kind := i % len(kindNames)
	bs := baseSpec{
		Idx:      i,
		Seed:     seed,
		PageSize: pageSizes[(i+int(uint64(runSeed)%8))%len(pageSizes)],
		Kind:     kind,
	}
	switch kind {
	case 2, 6:
		bs.AutoVacuum = 1
	case 3:
		bs.AutoVacuum = 2
	default:
		bs.AutoVacuum = []int{0, 0, 1, 2}[(i/len(kindNames))%4]
	}
	return bs
}

type baseData struct {
	DB, WAL []byte
	Spec    baseSpec
}

// harvest runs the SQLite workload of bs in dir and returns the database file
// and WAL bytes as they are on disk while the application connection is still
// open (closing it would checkpoint and delete the WAL).
func harvest(dir string, bs baseSpec) (*baseData, error) {
	if err := os.MkdirAll(dir, 0o755); err != nil {
		return nil, err
	}
	p := filepath.Join(dir, "app.db")
	for _, sfx := range []string{"", "-wal", "-shm"} {
		_ = os.Remove(p + sfx)
	}
	rng := rand.New(rand.NewSource(bs.Seed))
	ps := bs.PageSize
	app, err := sq.Create(p, ps, bs.AutoVacuum)
	if err != nil {
		return nil, err
	}
	defer func() {
		app.Close()
		for _, sfx := range []string{"", "-wal", "-shm"} {
			_ = os.Remove(p + sfx)
		}
	}()

	run := func(q string, args ...any) error {
		rows, err := app.Query(q, args...)
		if err != nil {
			return fmt.Errorf("%s: %w", q, err)
		}
		for rows.Next() {
		}
		err = rows.Err()
		rows.Close()
		if err != nil {
			return fmt.Errorf("%s: %w", q, err)
		}
		return nil
	}
	blob := func(n int) []byte {
		b := make([]byte, n)
		rng.Read(b)
		return b
	}
	if err := run(`CREATE TABLE t(id INTEGER PRIMARY KEY, v BLOB)`); err != nil {
		return nil, err
	}
	if err := run(`CREATE TABLE u(id INTEGER PRIMARY KEY, n INTEGER, v BLOB)`); err != nil {
		return nil, err
	}
	if err := run(`CREATE INDEX ui ON u(n)`); err != nil {
		return nil, err
	}
	ckpt := func(mode string) error {
		var a, b, c int
		if err := app.QueryRow(`PRAGMA wal_checkpoint(`+mode+`)`).Scan(&a, &b, &c); err != nil {
			return err
		}
		if a != 0 {
			return fmt.Errorf("application checkpoint %s busy", mode)
		}
		return nil
	}
	// one committed transaction of a random kind
	commitOp := func() error {
		switch r := rng.Intn(10); {
		case r < 2:
			return run(`INSERT INTO t(v) VALUES(?)`, blob(10+rng.Intn(ps/3)))
		case r < 4:
			return run(`INSERT INTO t(v) VALUES(?)`, blob(ps+rng.Intn(3*ps/2)))
		case r < 6:
			tx, err := app.Begin()
			if err != nil {
				return err
			}
			for i, n := 0, 2+rng.Intn(2); i < n; i++ {
				if _, err := tx.Exec(`INSERT INTO u(n, v) VALUES(?, ?)`, rng.Intn(1000), blob(10+rng.Intn(ps))); err != nil {
					tx.Rollback()
					return err
				}
			}
			return tx.Commit()
		case r < 7:
			return run(`UPDATE t SET v=? WHERE id=(SELECT id FROM t ORDER BY id LIMIT 1 OFFSET ?)`, blob(10+rng.Intn(2*ps)), rng.Intn(4))
		case r < 8:
			return run(`DELETE FROM t WHERE id=(SELECT id FROM t ORDER BY id DESC LIMIT 1 OFFSET ?)`, rng.Intn(3))
		case r < 9:
			return run(`UPDATE u SET n=n+1 WHERE id%2=?`, rng.Intn(2))
		default:
			return run(`UPDATE ledger SET k=k+1`)
		}
	}
	commitOps := func(n int) error {
		for i := 0; i < n; i++ {
			if err := commitOp(); err != nil {
				return err
			}
		}
		return nil
	}
	bigRows := func(n int) error {
		for i := 0; i < n; i++ {
			if err := run(`INSERT INTO t(v) VALUES(?)`, blob(ps+rng.Intn(ps/2))); err != nil {
				return err
			}
		}
		return nil
	}
	// a write transaction whose dirty pages are spilled into the WAL before it
	// ends (cache_size tiny); end = "open" (left open while the files are
	// copied), "commit" or "rollback".
	var openTx *sql.Tx
	spill := func(end string) error {
		if err := run(`PRAGMA cache_size=1`); err != nil {
			return err
		}
		tx, err := app.Begin()
		if err != nil {
			return err
		}
		for i, n := 0, 4+rng.Intn(3); i < n; i++ {
			if _, err := tx.Exec(`INSERT INTO u(n, v) VALUES(?, ?)`, -1, blob(2*ps+rng.Intn(ps))); err != nil {
				tx.Rollback()
				return err
			}
		}
		switch end {
		case "commit":
			return tx.Commit()
		case "rollback":
			return tx.Rollback()
		}
		openTx = tx
		return nil
	}

	// fewer operations for the largest page sizes (cost is per byte, the
	// structure of the WAL is what matters)
	sc := func(n int) int {
		switch {
		case ps >= 65536:
			return max(2, n*5/10)
		case ps >= 16384:
			return max(2, n*7/10)
		}
		return n
	}
	var werr error
	step := func(f func() error) {
		if werr == nil {
			werr = f()
		}
	}
	switch bs.Kind {
	case 0:
		step(func() error { return commitOps(sc(12 + rng.Intn(4))) })
		step(func() error { return ckpt("FULL") })
		step(func() error { return commitOps(sc(6 + rng.Intn(3))) })
		step(func() error { return spill("open") })
	case 1:
		step(func() error { return commitOps(sc(10 + rng.Intn(6))) })
	case 2:
		step(func() error { return bigRows(sc(12 + rng.Intn(4))) })
		step(func() error { return commitOps(3) })
		step(func() error { return ckpt("RESTART") })
		step(func() error { return bigRows(2) })
		step(func() error { return run(`DELETE FROM t WHERE id > 5`) })
		step(func() error { return bigRows(2) })
		step(func() error { return run(`DELETE FROM t WHERE id > 2`) })
	case 3:
		step(func() error { return bigRows(sc(11 + rng.Intn(4))) })
		step(func() error { return commitOps(3) })
		step(func() error { return ckpt("FULL") })
		step(func() error { return bigRows(3) }) // pages that exist only in this WAL generation and are vacuumed away below
		step(func() error { return run(`DELETE FROM t WHERE id > 4`) })
		step(func() error { return run(`PRAGMA incremental_vacuum(3)`) })
		step(func() error { return bigRows(1) })
		step(func() error { return run(`PRAGMA incremental_vacuum`) })
		if rng.Intn(2) == 0 {
			step(func() error { return spill("open") })
		}
	case 4:
		step(func() error { return commitOps(sc(10 + rng.Intn(3))) })
		step(func() error { return ckpt("FULL") })
		step(func() error { return commitOps(sc(6 + rng.Intn(2))) })
		step(func() error { return ckpt("RESTART") })
		step(func() error { return commitOps(sc(4)) })
		step(func() error { return spill("commit") })
		step(func() error { return run(`UPDATE ledger SET k=k+1`) })
	case 5:
		step(func() error { return commitOps(4) })
		step(func() error { return ckpt("TRUNCATE") })
		step(func() error { return commitOps(sc(5 + rng.Intn(3))) })
		step(func() error { return spill("rollback") })
		if rng.Intn(2) == 0 {
			step(func() error { return run(`UPDATE ledger SET k=k+1`) })
		}
	case 6:
		// one transaction grows the database (its dirty pages, with page numbers beyond the
		// old size, are spilled into the WAL), deletes the rows again and commits: with
		// auto_vacuum=FULL the commit record carries the old size while frames for pages
		// beyond it precede it in the WAL
		step(func() error { return bigRows(sc(8 + rng.Intn(4))) })
		step(func() error { return ckpt("FULL") })
		step(func() error { return commitOps(3) })
		step(func() error {
			if err := run(`PRAGMA cache_size=1`); err != nil {
				return err
			}
			tx, err := app.Begin()
			if err != nil {
				return err
			}
			for i, n := 0, 5+rng.Intn(3); i < n; i++ {
				if _, err := tx.Exec(`INSERT INTO u(n, v) VALUES(?, ?)`, -7, blob(2*ps+rng.Intn(ps))); err != nil {
					tx.Rollback()
					return err
				}
			}
			if _, err := tx.Exec(`DELETE FROM u WHERE n = -7`); err != nil {
				tx.Rollback()
				return err
			}
			return tx.Commit()
		})
		step(func() error { return commitOps(sc(2 + rng.Intn(3))) })
		if rng.Intn(2) == 0 {
			step(func() error { return spill("open") })
		}
	default:
		return nil, fmt.Errorf("unknown base kind %d", bs.Kind)
	}
	if werr != nil {
		if openTx != nil {
			openTx.Rollback()
		}
		return nil, fmt.Errorf("%s: workload: %w", bs, werr)
	}
	db, err1 := os.ReadFile(p)
	wal, err2 := os.ReadFile(p + "-wal")
	if openTx != nil {
		openTx.Rollback()
	}
	if err1 != nil {
		return nil, err1
	}
	if err2 != nil {
		return nil, err2
	}
	if got := oracle.PageSizeOf(db); got != ps {
		return nil, fmt.Errorf("%s: database page size read back as %d", bs, got)
	}
	info := oracle.ParseWAL(wal)
	if !info.HeaderOK || info.PageSize != ps || info.LastCommit == 0 {
		return nil, fmt.Errorf("%s: harvested WAL unusable (header ok=%v page size=%d committed frames=%d)", bs, info.HeaderOK, info.PageSize, info.LastCommit)
	}
	return &baseData{DB: db, WAL: wal, Spec: bs}, nil
}

func saveBase(dir string, b *baseData) error {
	if err := os.MkdirAll(dir, 0o755); err != nil {
		return err
	}
	if err := os.WriteFile(filepath.Join(dir, "base.db"), b.DB, 0o644); err != nil {
		return err
	}
	return os.WriteFile(filepath.Join(dir, "base.wal"), b.WAL, 0o644)
}

func loadBase(dir string, bs baseSpec) (*baseData, error) {
	db, err := os.ReadFile(filepath.Join(dir, "base.db"))
	if err != nil {
		return nil, err
	}
	wal, err := os.ReadFile(filepath.Join(dir, "base.wal"))
	if err != nil {
		return nil, err
	}
	return &baseData{DB: db, WAL: wal, Spec: bs}, nil
}
