#!/bin/bash
# build.sh <std|race|vfs>: incremental build of the harness against /repo's working tree (hooks on).
# VERIF_REPO=<dir> builds against a scratch copy of the repository instead (used only to validate
# the monitors against mutants; registered checks always use /repo). Prints nothing on success.
set -eu
here="$(cd "$(dirname "$0")" && pwd)"
export GOFLAGS=-mod=mod GOPROXY=off
variant="${1:-std}"
mkdir -p "$here/bin"
cd "$here/harness"
suffix=""
modflag=()
repo="${VERIF_REPO:-/repo}"
if [ "$repo" != "/repo" ]; then
  tag="$(echo -n "$repo" | md5sum | cut -c1-8)"
  suffix="-$tag"
  sed "s#=> /repo#=> $repo#" go.mod > "$here/bin/alt-$tag.mod"
  cp go.sum "$here/bin/alt-$tag.sum"
  modflag=(-modfile="$here/bin/alt-$tag.mod")
fi
out="$here/bin/vh-$variant$suffix"
case "$variant" in
  std)  CGO_ENABLED=0 go build "${modflag[@]}" -tags verif -o "$out" ./cmd/vh ;;
  race) CGO_ENABLED=1 go build "${modflag[@]}" -race -tags verif -o "$out" ./cmd/vh ;;
  vfs)  CGO_ENABLED=1 go build "${modflag[@]}" -tags "verif vfs" -o "$out" ./cmd/vh ;;
  *) echo "unknown variant $variant" >&2; exit 2 ;;
esac
