// Package c15: timestamp restore never returns data from after the requested
// time (DESIGN §4 C15).
//
// Replication time of TXID n: ts(n) = header timestamp (ms) of the archived
// level-0 file n — a recorded value, never the clock. This check never touches
// file mtimes: the file replica reports a file's mtime as its creation time and
// sets it from the LTX header when the file is written.
package c15

import (
	"bytes"
	"context"
	"crypto/sha256"
	"encoding/json"
	"fmt"
	"io"
	"log/slog"
	"math/rand"
	"sort"
	"strings"
	"time"

	"github.com/benbjohnson/litestream"
	"github.com/benbjohnson/litestream/file"
	"github.com/superfly/ltx"

	"verif/harness/internal/hist"
	"verif/harness/internal/oracle"
	"verif/harness/internal/vf"
)

type spec struct {
	Seed    int64       `json:"seed"`
	Steps   int         `json:"steps"` // write+sync steps (each gives >=1 TXID)
	Levels  int         `json:"levels"`
	Cfg     hist.Config `json:"cfg"`
	Variant string      `json:"variant"`          // plain | compact | retention | live (conc.go)
	Tie     bool        `json:"tie"`              // second phase: a snapshot whose creation ms equals ts of its newest TXID
	RunMs   int         `json:"run_ms,omitempty"` // live variant: duration of the concurrent workload
}

func init() {
	vf.Register(&vf.Check{
		ID:    "C15",
		Level: "exploration",
		Rule: "generated histories of write + SyncAndWait steps (2 ms pause between steps so neighbouring replication times differ; equal milliseconds are treated as one class) in three variants: plain (level 0 only), compact (DB.Compact(1..L) + Snapshot, every level-0 file kept), retention (L0Retention=1ns so DB.Compact(1) removes compacted level-0 files, EnforceSnapshotRetention with an explicit cut-off taken from a recorded snapshot header time, cascade EnforceRetentionByTXID). Every level-0 file is archived when it appears. " +
			"After the history Replica.Restore(Timestamp=T) runs through a plain file client for T in {ts(n)-1ms, ts(n), ts(n)+1ms for every TXID n, midpoints, snapshot header times -1/0/+1 ms, 1 h before the first, 1 h after the last}; CalcRestoreTarget (the CLI gate) is called too and only counted. " +
			"Oracle: success => bytes == image_n (independent overlay of archived level-0 files 1..n) for an n with ts(n) < T; when level-0 files 1..max are all present the result must be image_exp with exp = largest n such that ts(m) < T for all m <= n, and an error there is a violation when exp >= 1; results are non-decreasing in T; T <= ts(1) must fail; when level-0 files were removed an error is a violation only if a chain of surviving files all replicated before T exists (level 1..8 file a..b counts as replicated at ts(b), a snapshot at its header time) and a result older than the best such chain is only counted. " +
			"Tie phase (half of the cases): a level-9 file 1..n rebuilt from image_n with header time == ts(n) is uploaded through file.ReplicaClient.WriteLTXFile (a snapshot taken in the same millisecond as its newest transaction) and the T grid is run again. " +
			"distinct = hash(config, variant, op sequence); non-trivial = >=30 timestamp restores decided, >=8 TXIDs, and for compact/retention variants >=1 plan that used a level>=1 file. " +
			"Variant live (appended after the sequential cases; 4 quick / 30 thorough): for run_ms a writer (1-3 ms between small multi-table transactions, occasional 15-65 ms silences), litestream's own monitors (1-3 ms, no retention, no compaction), a snapshotter (DB.Snapshot every 10-30 ms) and two restorers run concurrently; replication goes through a proxy that sleeps 0-6 ms in LTXFiles/WriteLTXFile and numbers every completed publication, restores go through a second proxy that sleeps 0-8 ms before listings, with T = now - {0,1,2,5,20,100} ms, now + {3,10,30} ms or the header time of a recently published level-0 file -1/0/+1 ms. " +
			"Afterwards (replica static) every recorded restore is judged on recorded values only (level-0 header times read back, T, page-wise hash of the output, publication numbers seen at call start): the output must be image_n with ts(n) < T and n >= the longest prefix of level-0 files replicated before T whose publication had completed before the call started; an error is accepted only when that prefix is empty (otherwise counted). Every level-9 file's header time S is read back and Restore(T in {ts(N), S+1ms, S}) on the static replica must give exactly the last transaction before T. " +
			"live non-trivial = >=40 restores decided, >=50 TXIDs, >=5 restores during which a file was published; distinct = (seed, config)",
		Assumptions: []string{"file replica only (mtime is the recorded replication time; never modified by the harness)", "wall clock does not step backwards during a case (checked: recorded timestamps must be non-decreasing, otherwise harness error)", "ltx.Decoder/Encoder trusted"},
		Cases:       cases,
		RunCase:     runCase,
		MinEvals:    400,
		CaseTimeout: 10 * time.Minute,
		Workers:     func(run *vf.Run) int { return 8 },
	})
}

func cases(run *vf.Run) ([]json.RawMessage, error) {
	n := 16
	if run.Tier == "thorough" {
		n = 200
	}
	var out []json.RawMessage
	for i := 0; i < n; i++ {
		rng := rand.New(rand.NewSource(vf.SubSeed(run.Seed, "C15", i)))
		cfg := hist.RandomConfig(rng)
		cfg.PageSize = []int{4096, 1024, 512, 8192, 2048, 16384, 4096, 65536}[i%8]
		cfg.AutoVacuum = (i / 2) % 3
		cfg.MaxSyncLTXFiles = 0
		s := spec{
			Seed:    vf.SubSeed(run.Seed, "C15-case", i),
			Steps:   12 + rng.Intn(8),
			Levels:  1 + (i/4)%3,
			Cfg:     cfg,
			Variant: []string{"retention", "compact", "retention", "plain"}[i%4],
			Tie:     i%2 == 0,
		}
		out = append(out, vf.Spec(s))
	}
	// live variant (conc.go): appended so that the indices above keep their meaning
	nl, runMs := 4, 4500
	if run.Tier == "thorough" {
		nl, runMs = 30, 6000
	}
	for i := 0; i < nl; i++ {
		rng := rand.New(rand.NewSource(vf.SubSeed(run.Seed, "C15-live", i)))
		cfg := hist.RandomConfig(rng)
		cfg.PageSize = []int{4096, 1024, 8192, 512, 2048, 16384, 65536, 32768}[i%8]
		cfg.AutoVacuum = i % 3
		cfg.MinCheckpointPageN = []int{50, 100, 200}[rng.Intn(3)]
		cfg.MaxSyncLTXFiles = 0
		if cfg.MaxSyncWALFrames > 0 {
			cfg.MaxSyncWALFrames = 0
		}
		out = append(out, vf.Spec(spec{Seed: vf.SubSeed(run.Seed, "C15-live-case", i), Cfg: cfg, Variant: "live", RunMs: runMs}))
	}
	return out, nil
}

const pause = 2 * time.Millisecond

type state struct {
	s   spec
	e   *hist.Env
	res *vf.Result
	rng *rand.Rand

	img      map[int][32]byte // sha256(image_n)
	snapTime map[string]int64 // level-9 path -> header timestamp (ms)
	restores int
	usedHigh int // successes whose restore plan contained a level>=1 file
}

func runCase(run *vf.Run, raw json.RawMessage, dir string) *vf.Result {
	var s spec
	res := &vf.Result{}
	if err := json.Unmarshal(raw, &s); err != nil {
		res.HarnessErr = err.Error()
		return res
	}
	if s.Variant == "live" {
		return runLive(s, dir, res)
	}
	rng := rand.New(rand.NewSource(s.Seed))
	e, err := hist.NewEnv(dir, s.Cfg, rng, res)
	if err != nil {
		res.HarnessErr = err.Error()
		return res
	}
	defer e.Close()
	e.Tune = func(db *litestream.DB) {
		db.L0Retention = 24 * time.Hour
		if s.Variant == "retention" {
			db.L0Retention = time.Nanosecond
		}
	}
	if err := e.StartLS(); err != nil {
		res.HarnessErr = "open litestream: " + err.Error()
		return res
	}
	st := &state{s: s, e: e, res: res, rng: rng, img: map[int][32]byte{}, snapTime: map[string]int64{}}
	ctx := context.Background()
	herr := func(err error) *vf.Result { res.HarnessErr = err.Error(); return res }
	var ops []string
	upload := func() bool {
		if err := e.LS.SyncAndWait(ctx); err != nil {
			e.Logf("SyncAndWait err=%v", err)
			res.Count("sync_wait_failed", 1)
			return false
		}
		if err := e.Arch.Scan(e.RepPath); err != nil {
			res.Violate("l0-file-invalid", "%v", err)
			return false
		}
		return true
	}
	for i := 0; i < s.Steps; i++ {
		// one replication step
		nw := 1 + rng.Intn(2)
		for k := 0; k < nw; k++ {
			if _, err := e.AppWrite(); err != nil {
				return herr(err)
			}
		}
		if rng.Intn(8) == 0 {
			if _, err := e.AppWriteKind("delete-all"); err != nil {
				return herr(err)
			}
			e.Maint()
			ops = append(ops, "shrink")
		}
		uploaded := upload()
		if len(res.Violations) > 0 {
			return res
		}
		ops = append(ops, "step")
		time.Sleep(pause)
		if s.Variant == "plain" || !uploaded {
			continue
		}
		switch r := rng.Intn(10); {
		case r < 3:
			lvl := 1
			if rng.Intn(3) == 0 {
				lvl = 1 + rng.Intn(s.Levels)
			}
			_, err := e.LS.Compact(ctx, lvl)
			e.Logf("compact level %d err=%v", lvl, err)
			if err == nil {
				res.Count(fmt.Sprintf("compactions_level_%d", lvl), 1)
			}
			ops = append(ops, fmt.Sprintf("compact%d", lvl))
			time.Sleep(pause)
		case r < 5:
			_, err := e.LS.Snapshot(ctx)
			e.Logf("snapshot err=%v", err)
			if err == nil {
				res.Count("snapshots", 1)
			}
			ops = append(ops, "snapshot")
			time.Sleep(pause)
		case r < 7 && s.Variant == "retention":
			// explicit cut-off: just after the header time of a PRNG-chosen existing snapshot
			snaps := oracle.ListLevel(e.RepPath, 9)
			if len(snaps) == 0 {
				break
			}
			pick := snaps[rng.Intn(len(snaps))]
			t, err := st.snapshotTime(pick)
			if err != nil {
				res.Violate("snapshot-invalid", "%s: %v", pick, err)
				return res
			}
			cut := time.UnixMilli(t + 1).UTC()
			floor, err := e.LS.EnforceSnapshotRetention(ctx, cut)
			for lvl := 1; lvl <= s.Levels && err == nil; lvl++ {
				err = e.LS.EnforceRetentionByTXID(ctx, lvl, floor)
			}
			e.Logf("EnforceSnapshotRetention(cut-off = time of %s + 1ms) floor=%d err=%v, %d snapshots left", pick, floor, err, len(oracle.ListLevel(e.RepPath, 9)))
			res.Count("snapshot_retention_passes", 1)
			ops = append(ops, "snapshot-retention")
		}
	}
	if !upload() {
		if len(res.Violations) > 0 {
			return res
		}
		return herr(fmt.Errorf("final SyncAndWait failed"))
	}
	time.Sleep(pause)
	if e.Arch.Max() == 0 {
		return herr(fmt.Errorf("history replicated nothing"))
	}
	if st.tsCheck("phase1") {
		return res
	}
	if s.Tie {
		if v, err := st.injectTieSnapshot(ctx); err != nil {
			return herr(err)
		} else if v {
			return res
		}
		ops = append(ops, "tie-snapshot")
		if st.tsCheck("phase2-tie") {
			return res
		}
	}
	res.Count("variant_"+s.Variant, 1)
	res.Count(fmt.Sprintf("page_size_%d", s.Cfg.PageSize), 1)
	res.Sig = fmt.Sprintf("%x", sha256.Sum256([]byte(fmt.Sprint(s.Cfg, s.Variant, s.Levels, s.Tie)+strings.Join(ops, ","))))[:16]
	res.Nontrivial = st.restores >= 30 && e.Arch.Max() >= 8 && (s.Variant == "plain" || st.usedHigh > 0)
	res.Sample = map[string]any{"cfg": s.Cfg.String(), "variant": s.Variant, "levels": s.Levels, "tie_phase": s.Tie, "ops": strings.Join(ops, " "),
		"txids": e.Arch.Max(), "timestamp_restores": st.restores, "replica_at_end": summary(e.RepPath)}
	return res
}

func (st *state) ts(n int) int64 { return st.e.Arch.Files[n].Hdr.Timestamp }

func (st *state) snapshotTime(f oracle.FileRef) (int64, error) {
	key := fmt.Sprintf("%s#%d", f.Path, f.Size)
	if t, ok := st.snapTime[key]; ok {
		return t, nil
	}
	lf, err := oracle.DecodeLTX(f.Path)
	if err != nil {
		return 0, err
	}
	st.snapTime[key] = lf.Hdr.Timestamp
	return lf.Hdr.Timestamp, nil
}

func (st *state) imageHash(n int) ([32]byte, error) {
	if h, ok := st.img[n]; ok {
		return h, nil
	}
	b, err := st.e.Arch.Image(n)
	if err != nil {
		return [32]byte{}, err
	}
	h := sha256.Sum256(b)
	st.img[n] = h
	return h, nil
}

// refFile is a surviving replica file with its recorded replication time.
type refFile struct {
	oracle.FileRef
	t int64
}

// reach is the reference answer for "which TXID can be assembled from files
// replicated before T": brute-force closure over chains (start at an eligible
// snapshot or at TXID 0; a next file must start at or below reached+1 and end
// above it). With l0Only it says what level-0 files alone give.
func reach(files []refFile, T int64, l0Only bool) int {
	got := map[int]bool{0: true}
	for changed := true; changed; {
		changed = false
		for _, f := range files {
			if f.t >= T || got[f.Max] || (l0Only && f.Level != 0) {
				continue
			}
			ok := f.Level == litestream.SnapshotLevel
			for r := range got {
				ok = ok || (f.Min <= r+1 && f.Max > r)
			}
			if ok {
				got[f.Max], changed = true, true
			}
		}
	}
	best := 0
	for r := range got {
		if r > best {
			best = r
		}
	}
	return best
}

// tsCheck runs the T grid against the current replica. Returns true on violation.
func (st *state) tsCheck(phase string) bool {
	e, res := st.e, st.res
	max := e.Arch.Max()
	for n := 1; n <= max; n++ {
		if _, ok := e.Arch.Files[n]; !ok {
			res.HarnessErr = fmt.Sprintf("archive has no level-0 file %d of %d", n, max)
			return true
		}
		if n > 1 && st.ts(n) < st.ts(n-1) {
			res.HarnessErr = fmt.Sprintf("recorded timestamps decrease: ts(%d)=%d ts(%d)=%d (clock stepped)", n-1, st.ts(n-1), n, st.ts(n))
			return true
		}
		if n > 1 && st.ts(n) == st.ts(n-1) {
			res.Count("neighbouring_txids_sharing_a_millisecond", 1)
		}
	}
	// surviving files with recorded times
	var files []refFile
	l0 := oracle.ListLevel(e.RepPath, 0)
	allL0 := len(l0) == max
	for i, f := range l0 {
		allL0 = allL0 && f.Max == i+1
	}
	grid := map[int64]bool{}
	for _, f := range oracle.ListAll(e.RepPath) {
		rf := refFile{FileRef: f}
		if f.Level == litestream.SnapshotLevel {
			t, err := st.snapshotTime(f)
			if err != nil {
				res.Violate("snapshot-invalid", "%s: %v", f, err)
				return true
			}
			rf.t = t
			grid[t-1], grid[t], grid[t+1] = true, true, true
			if f.Max <= max && t == st.ts(f.Max) {
				res.Count("snapshots_sharing_the_millisecond_of_their_newest_txid", 1)
			}
		} else {
			if f.Max > max {
				res.HarnessErr = fmt.Sprintf("%s beyond archived level-0 files (max %d)", f, max)
				return true
			}
			rf.t = st.ts(f.Max)
		}
		files = append(files, rf)
	}
	if allL0 {
		res.Count("grids_with_every_l0_present", 1)
	} else {
		res.Count("grids_with_l0_removed_by_retention", 1)
	}
	for n := 1; n <= max; n++ {
		t := st.ts(n)
		grid[t-1], grid[t], grid[t+1] = true, true, true
		if n > 1 && t-st.ts(n-1) >= 2 {
			grid[(t+st.ts(n-1))/2] = true
		}
	}
	grid[st.ts(1)-3600_000] = true
	grid[st.ts(max)+3600_000] = true
	var Ts []int64
	for t := range grid {
		Ts = append(Ts, t)
	}
	sort.Slice(Ts, func(i, j int) bool { return Ts[i] < Ts[j] })

	rr := e.ReadReplica()
	var prev []int // TXIDs (replicated before the previous T) matching the previous successful result
	var prevT int64
	for _, tm := range Ts {
		T := time.UnixMilli(tm).UTC()
		opt := litestream.NewRestoreOptions()
		opt.Timestamp = T
		if _, gerr := rr.CalcRestoreTarget(e.Ctx, opt); gerr != nil {
			if tm > st.ts(max) {
				res.Count("cli_gate_rejects_T_after_newest_file", 1)
			} else {
				res.Count("cli_gate_rejects_T_before_oldest_file", 1)
			}
		} else {
			res.Count("cli_gate_accepts", 1)
		}
		got, err := hist.RestoreBytes(e.Ctx, rr, e.Dir, opt)
		res.Evals++
		st.restores++
		exp := 0 // largest n with ts(m) < T for all m <= n
		for n := 1; n <= max && st.ts(n) < tm; n++ {
			exp = n
		}
		best := reach(files, tm, false)
		where := fmt.Sprintf("%s T=%d (ts(1)=%d ts(%d)=%d, %d TXIDs replicated before T, replica %s)", phase, tm, st.ts(1), max, st.ts(max), exp, summary(e.RepPath))
		if err != nil {
			e.Logf("%s T=%d -> error %v (exp=%d reach=%d)", phase, tm, err, exp, best)
			switch {
			case exp == 0:
				res.Count("T_not_after_first_backup_fails", 1)
			case allL0:
				res.Violate("fails-with-every-l0-present", "%s: timestamp restore fails although TXID %d was replicated before T and every level-0 file is present: %v", where, exp, err)
				return true
			case best > 0:
				res.Violate("fails-although-chain-before-T-exists", "%s: timestamp restore fails although surviving files replicated before T form a chain up to TXID %d: %v", where, best, err)
				return true
			default:
				res.Count("T_before_every_surviving_chain_fails", 1)
			}
			continue
		}
		h := sha256.Sum256(got)
		var match, before []int
		for n := 1; n <= max; n++ {
			ih, ierr := st.imageHash(n)
			if ierr != nil {
				res.Violate("l0-image-incomplete", "%v", ierr)
				return true
			}
			if ih == h {
				match = append(match, n)
				if st.ts(n) < tm {
					before = append(before, n)
				}
			}
		}
		e.Logf("%s T=%d -> state of TXID %v (exp=%d reach=%d)", phase, tm, match, exp, best)
		switch {
		case len(match) == 0:
			res.Violate("matches-no-replicated-state", "%s: output equals the image of no TXID 1..%d%s", where, max, st.diffHint(got, exp))
			return true
		case exp == 0:
			res.Violate("before-first-backup-succeeds", "%s: T is not after the first replicated transaction, yet the restore succeeds with the state of TXID %v", where, match)
			return true
		case len(before) == 0:
			res.Violate("returns-data-replicated-at-or-after-T", "%s: output is the state of TXID %v, replicated at %d >= T", where, match, st.ts(match[0]))
			return true
		}
		if allL0 {
			if eh, _ := st.imageHash(exp); eh != h {
				res.Violate("not-the-last-transaction-before-T", "%s: every level-0 file is present, expected the state of TXID %d (ts %d), got the state of TXID %v", where, exp, st.ts(exp), match)
				return true
			}
		} else if before[len(before)-1] < best {
			if bh, _ := st.imageHash(best); bh != h {
				res.Count("result_older_than_best_chain_before_T", 1)
			}
		}
		if len(prev) > 0 && before[len(before)-1] < prev[0] {
			res.Violate("later-T-earlier-state", "%s: T=%d gave the state of TXID %v, the later T gives the earlier state of TXID %v", where, prevT, prev, before)
			return true
		}
		prev, prevT = before, tm
		res.Count("timestamp_restores_matching_a_state_before_T", 1)
		// coverage evidence only: which levels the real plan for this T draws on
		if plan, perr := litestream.CalcRestorePlan(e.Ctx, rr.Client, 0, T, slog.New(slog.NewTextHandler(io.Discard, nil))); perr == nil {
			snap, comp := false, false
			for _, fi := range plan {
				snap = snap || fi.Level == litestream.SnapshotLevel
				comp = comp || (fi.Level > 0 && fi.Level < litestream.SnapshotLevel)
			}
			switch {
			case snap && comp:
				res.Count("plans_snapshot+compacted(+l0)", 1)
			case snap:
				res.Count("plans_snapshot(+l0)", 1)
			case comp:
				res.Count("plans_compacted(+l0)", 1)
			default:
				res.Count("plans_l0_only", 1)
			}
			if snap || comp {
				st.usedHigh++
			}
		}
		if tm == st.ts(exp)+1 {
			res.Count("T_one_ms_after_a_replication_time", 1)
		}
		if exp < max && tm == st.ts(exp+1) {
			res.Count("T_equal_to_a_replication_time", 1)
		}
	}
	return false
}

func (st *state) diffHint(got []byte, exp int) string {
	if exp == 0 {
		return ""
	}
	want, err := st.e.Arch.Image(exp)
	if err != nil {
		return ""
	}
	if bytes.Equal(want, got) {
		return ""
	}
	if err := oracle.CompareHeaderMasked(want, got, nil); err != nil {
		return fmt.Sprintf("; against TXID %d: %v", exp, err)
	}
	return ""
}

// injectTieSnapshot uploads, through the real file client, a level-9 file 1..n
// whose header time equals ts(n): what Snapshot() produces when it runs in the
// same millisecond as the sync that created TXID n.
func (st *state) injectTieSnapshot(ctx context.Context) (violated bool, harness error) {
	e := st.e
	max := e.Arch.Max()
	have := map[int]bool{}
	for _, f := range oracle.ListLevel(e.RepPath, 9) {
		have[f.Max] = true
	}
	var cand []int
	for n := 2; n <= max; n++ {
		if !have[n] && st.ts(n) > st.ts(n-1) {
			cand = append(cand, n)
		}
	}
	if len(cand) == 0 {
		st.res.Count("tie_phase_skipped", 1)
		return false, nil
	}
	n := cand[st.rng.Intn(len(cand))]
	pages, last, err := e.Arch.Compose(1, n)
	if err != nil {
		return false, err
	}
	var buf bytes.Buffer
	enc, err := ltx.NewEncoder(&buf)
	if err != nil {
		return false, err
	}
	if err := enc.EncodeHeader(ltx.Header{Version: ltx.Version, Flags: ltx.HeaderFlagNoChecksum, PageSize: last.PageSize, Commit: last.Commit,
		MinTXID: 1, MaxTXID: ltx.TXID(n), Timestamp: st.ts(n)}); err != nil {
		return false, fmt.Errorf("tie snapshot header: %w", err)
	}
	lock := ltx.LockPgno(last.PageSize)
	for pg := uint32(1); pg <= last.Commit; pg++ {
		if pg == lock {
			continue
		}
		d, ok := pages[pg]
		if !ok {
			return false, fmt.Errorf("tie snapshot: image %d lacks page %d", n, pg)
		}
		if err := enc.EncodePage(ltx.PageHeader{Pgno: pg}, d); err != nil {
			return false, fmt.Errorf("tie snapshot page %d: %w", pg, err)
		}
	}
	if err := enc.Close(); err != nil {
		return false, fmt.Errorf("tie snapshot close: %w", err)
	}
	c := file.NewReplicaClient(e.RepPath)
	if _, err := c.WriteLTXFile(ctx, litestream.SnapshotLevel, 1, ltx.TXID(n), &buf); err != nil {
		return false, fmt.Errorf("tie snapshot upload: %w", err)
	}
	e.Logf("tie snapshot 1..%d uploaded with header time ts(%d)=%d", n, n, st.ts(n))
	st.res.Count("tie_snapshots_uploaded", 1)
	return false, nil
}

func summary(root string) string {
	var sb strings.Builder
	for lvl := 0; lvl <= 9; lvl++ {
		fs := oracle.ListLevel(root, lvl)
		if len(fs) == 0 {
			continue
		}
		fmt.Fprintf(&sb, "L%d[", lvl)
		if lvl == 0 && len(fs) > 3 && fs[len(fs)-1].Max-fs[0].Min == len(fs)-1 {
			fmt.Fprintf(&sb, "%d..%d", fs[0].Min, fs[len(fs)-1].Max)
		} else {
			for i, f := range fs {
				if i > 0 {
					sb.WriteByte(' ')
				}
				fmt.Fprintf(&sb, "%d-%d", f.Min, f.Max)
			}
		}
		sb.WriteString("] ")
	}
	return strings.TrimSpace(sb.String())
}
