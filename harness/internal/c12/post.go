package c12

import (
	"bytes"
	"context"
	"fmt"
	"os"
	"path/filepath"
	"sort"
	"strings"
	"syscall"

	"github.com/benbjohnson/litestream"
	"github.com/benbjohnson/litestream/file"
	"github.com/superfly/ltx"

	"verif/harness/internal/hist"
	"verif/harness/internal/oracle"
	"verif/harness/internal/sq"
	"verif/harness/internal/vf"
)

type archFile struct {
	Level    int
	Min, Max int
	Seq      int
	Path     string
	Ino      uint64
}

// listArchive reads <arch>/<level>/<min>-<max>.<seq>.ltx.
func listArchive(dir string) []archFile {
	var out []archFile
	for lvl := 0; lvl <= 9; lvl++ {
		ents, _ := os.ReadDir(filepath.Join(dir, fmt.Sprint(lvl)))
		for _, e := range ents {
			var mn, mx, seq int
			if n, _ := fmt.Sscanf(e.Name(), "%d-%d.%d.ltx", &mn, &mx, &seq); n != 3 {
				continue
			}
			af := archFile{Level: lvl, Min: mn, Max: mx, Seq: seq, Path: filepath.Join(dir, fmt.Sprint(lvl), e.Name())}
			if fi, err := e.Info(); err == nil {
				if st, ok := fi.Sys().(*syscall.Stat_t); ok {
					af.Ino = st.Ino
				}
			}
			out = append(out, af)
		}
	}
	sort.Slice(out, func(i, j int) bool {
		a, b := out[i], out[j]
		if a.Level != b.Level {
			return a.Level < b.Level
		}
		if a.Max != b.Max {
			return a.Max < b.Max
		}
		return a.Seq < b.Seq
	})
	return out
}

func sample[T any](a []T, n int) []T {
	if n <= 0 || len(a) <= n {
		return a
	}
	out := make([]T, 0, n)
	for i := 0; i < n; i++ {
		out = append(out, a[i*(len(a)-1)/(n-1)])
	}
	return out
}

type ledger struct {
	hashes  map[int64]string
	scratch string
}

// consistent applies O-LEDGER to an image.
func (l *ledger) consistent(img []byte) (int64, string) {
	d, err := sq.DumpBytes(img, l.scratch, true)
	if err != nil {
		return -1, fmt.Sprintf("database unreadable: %v", err)
	}
	if d.Integ != "ok" {
		return d.K, "integrity_check: " + trunc(d.Integ, 160)
	}
	if d.Poison > 0 {
		return d.K, fmt.Sprintf("%d poison rows (rolled-back data) present", d.Poison)
	}
	want, ok := l.hashes[d.K]
	if !ok {
		return d.K, fmt.Sprintf("ledger value k=%d was never committed by the application", d.K)
	}
	if want != d.Hash {
		return d.K, fmt.Sprintf("content at ledger k=%d differs from what the application committed (mixture of commits)", d.K)
	}
	return d.K, ""
}

func trunc(s string, n int) string {
	if len(s) > n {
		return s[:n] + "..."
	}
	return s
}

type caps struct{ txids, snaps, derived int }

// postRun applies the C01/C02/snapshot oracles to one main database after the
// stress child has exited.
// resetObs is one ResetLocalState call that returned nil, with what the replica
// held when it returned.
type resetObs struct {
	At           float64
	L0Max, HiMax int
}

func postRun(res *vf.Result, mf MainFinal, scratch string, cp caps, resets []resetObs, interrupted, root string) {
	// Witness class "snapshot ahead of level 0 at reset" (listed finding): a
	// snapshot published at position n before L0/n was uploaded, combined with
	// a ResetLocalState that drops the local L0/n, so that TXID n is issued
	// again with other content. The class applies when, for this database, a
	// ResetLocalState returned nil during the run AND
	//   (a) at the instant it returned the replica held a file at level >= 1
	//       whose MaxTXID exceeded its highest level-0 TXID, or
	//   (b) some level >= 1 file was published on the replica before the
	//       level-0 file of its top TXID (archive publication order; this also
	//       covers a Snapshot call that was in flight across the reset).
	// It takes precedence over ":after-interrupted-checkpoint". Any other reset
	// keeps the generic key.
	sfx, note := "", ""
	if len(resets) > 0 {
		for _, r := range resets {
			if r.HiMax > r.L0Max {
				sfx = ":snapshot-ahead-of-l0-at-reset"
				note = fmt.Sprintf(" [when ResetLocalState returned at t=%.1fs the replica held a level>=1 file up to TXID %d but level 0 only up to %d]", r.At, r.HiMax, r.L0Max)
				break
			}
		}
		first := map[int]int{}
		al := listArchive(mf.Arch)
		for _, a := range al {
			if a.Level == 0 {
				if s0, ok := first[a.Max]; !ok || a.Seq < s0 {
					first[a.Max] = a.Seq
				}
			}
		}
		for _, a := range al {
			if a.Level == 0 {
				continue
			}
			if s0, ok := first[a.Max]; !ok || s0 > a.Seq {
				sfx = ":snapshot-ahead-of-l0-at-reset"
				note += fmt.Sprintf(" [L%d/%d-%d was published on the replica before L0/%d (publication order); %d ResetLocalState call(s) returned nil in this run, first at t=%.1fs]", a.Level, a.Min, a.Max, a.Max, len(resets), resets[0].At)
				break
			}
		}
		if sfx == "" {
			note = fmt.Sprintf(" [ResetLocalState returned nil on this database at t=%.1fs (replica level 0 up to %d, higher levels up to %d)]", resets[0].At, resets[0].L0Max, resets[0].HiMax)
		}
	}
	if sfx == "" && interrupted != "" {
		sfx = ":after-interrupted-checkpoint"
		note += " [a checkpoint failed after wal_checkpoint had run: " + interrupted + "]"
	}
	note += root
	ctx := context.Background()
	rep := litestream.NewReplicaWithClient(nil, file.NewReplicaClient(mf.Rep))
	led := &ledger{hashes: mf.Hashes, scratch: scratch}
	tag := mf.Name

	// ---- O-LTX on everything published under a final name (now or earlier)
	listed := oracle.ListAll(mf.Rep)
	listedSet := map[string]bool{}
	corruptListed := map[string]bool{}
	for _, f := range listed {
		listedSet[fmt.Sprintf("%d/%d-%d", f.Level, f.Min, f.Max)] = true
	}
	for _, f := range listed {
		if f.Level == 0 {
			continue // verified through the archive below
		}
		res.Evals++
		res.Count("ltx_files_verified", 1)
		if _, err := oracle.DecodeLTX(f.Path); err != nil {
			corruptListed[f.String()] = true
			res.Violate("ltx-corrupt-on-replica", "%s: %s on the replica fails verification: %v%s", tag, f, err, root)
		}
	}
	arch := listArchive(mf.Arch)
	var derived, snaps []archFile
	seenIno := map[uint64]bool{}
	l0 := map[int][]archFile{}
	for _, a := range arch {
		switch {
		case a.Level == 0:
			l0[a.Max] = append(l0[a.Max], a)
		default:
			if a.Ino != 0 && seenIno[a.Ino] {
				continue
			}
			seenIno[a.Ino] = true
			if a.Level == 9 {
				snaps = append(snaps, a)
			} else {
				derived = append(derived, a)
			}
		}
	}
	if len(derived) > cp.derived {
		res.Count("derived_files_not_verified(cap)", len(derived)-cp.derived)
	}
	for _, a := range sample(derived, cp.derived) {
		key := fmt.Sprintf("%d/%d-%d", a.Level, a.Min, a.Max)
		if listedSet[key] {
			continue // same name still listed: verified above (or replaced by a later writer)
		}
		res.Evals++
		res.Count("ltx_files_verified_archived", 1)
		if _, err := oracle.DecodeLTX(a.Path); err != nil {
			res.Violate("ltx-corrupt-on-replica", "%s: L%d/%d-%d was published on the replica (since removed by retention) and fails verification: %v", tag, a.Level, a.Min, a.Max, err)
		}
	}

	// ---- O-L0 archive
	ar := oracle.NewArchive()
	rewritten := 0
	for n, vs := range l0 {
		if vs[0].Min != vs[0].Max {
			res.Evals++
			res.Violate("txid-inconsistent", "%s: level-0 file %d-%d covers more than one TXID", tag, vs[0].Min, vs[0].Max)
			continue
		}
		var last *oracle.LTXFile
		for _, v := range vs {
			lf, err := oracle.DecodeLTX(v.Path)
			res.Evals++
			if err != nil {
				res.Violate("ltx-corrupt-on-replica", "%s: L0/%d as published on the replica fails verification: %v%s", tag, n, err, root)
				continue
			}
			if last != nil && oracle.EqualPages(lf, last.Pages) != nil {
				rewritten++
			}
			last = lf
		}
		if last != nil {
			ar.Files[n] = last
		}
	}
	res.Count("l0_archived", len(ar.Files))
	if rewritten > 0 {
		res.Count("l0_txid_republished_with_other_content", rewritten)
	}

	// ---- C01 while the writers run: every acknowledgement observed mid-run promised
	// that every application commit that had returned before the call was issued is on
	// the replica when the call returns. The replica "when the call returned" is
	// the set of level-0 files published up to the archive counter read at that moment.
	midAcks(res, mf, ar, l0, led, cp, sfx, note, tag)

	// ---- the source itself (C14 under concurrency): after litestream and the application
	// are gone, the source database must pass integrity_check and hold every commit that
	// returned to the application (conservation: commits in == commits visible)
	res.Count("app_side_checkpoints", int(mf.AppCkpts))
	if mf.SrcCopy != "" {
		if src, err := sq.CheckpointedImage(mf.SrcCopy); err != nil {
			res.Evals++
			res.Violate("source-unreadable", "%s: the source database cannot be opened/checkpointed after the run: %v%s", tag, err, root)
		} else {
			res.Evals++
			res.Count("source_conservation_checked", 1)
			if d, derr := sq.DumpBytes(src, scratch, false); derr == nil && d.LockRows > 0 {
				res.Evals++
				res.Violate("lock-table-not-empty", "%s: after the run the bookkeeping table _litestream_lock of the source holds %d committed row(s): one of litestream's lock-promotion inserts was committed instead of rolled back%s", tag, d.LockRows, root)
			} else if derr == nil {
				res.Evals++
				res.Count("lock_table_checked_empty", 1)
			}
			k, why := led.consistent(src)
			switch {
			case why != "":
				res.Violate("source-damaged", "%s: the source database after the run is not the state the application committed: %s (ledger k=%d, last commit that returned k=%d)%s", tag, why, k, mf.LastK, root)
			case k < mf.LastK:
				res.Violate("source-lost-application-commits", "%s: the source database after the run holds ledger k=%d but the application's commit k=%d had returned: committed transactions vanished from the source%s", tag, k, mf.LastK, root)
			}
		}
	}

	// ---- restores that ran concurrently with everything else: success must be a committed state
	type pendingRestore struct{ msg string }
	var pendRestores []pendingRestore
	restoreBad := func(format string, a ...any) {
		pendRestores = append(pendRestores, pendingRestore{fmt.Sprintf(format, a...)})
	}
	f38Snapshot := false // an ahead-of-its-TXID level-9 file was found for this database (listed finding F38)
	for _, r := range mf.Restores {
		res.Evals++
		res.Count("concurrent_restores_judged", 1)
		switch {
		case r.Left:
			res.Violate("concurrent-restore-left-output", "%s: a Restore(latest) that ran while the daemon was working failed (%s) and left a database at its output path%s", tag, r.Integ, root)
		case r.Integ != "ok":
			restoreBad("%s: a Restore(latest) that ran while the daemon was working reported success at t=%.2fs but its output fails integrity_check / is unreadable: %s%s", tag, float64(r.T1)/1e9, trunc(r.Integ, 160), note)
		case r.Poison > 0:
			restoreBad("%s: a Restore(latest) that ran while the daemon was working reported success at t=%.2fs with %d rows of rolled-back transactions%s", tag, float64(r.T1)/1e9, r.Poison, note)
		case mf.Hashes[r.K] == "":
			restoreBad("%s: a Restore(latest) that ran while the daemon was working reported success at t=%.2fs with ledger k=%d, which the application never committed%s", tag, float64(r.T1)/1e9, r.K, note)
		case mf.Hashes[r.K] != r.Hash:
			restoreBad("%s: a Restore(latest) that ran while the daemon was working reported success at t=%.2fs; its content at ledger k=%d differs from what the application committed (mixture of commits)%s", tag, float64(r.T1)/1e9, r.K, note)
		}
	}

	// ---- C01: final acknowledged state
	if mf.SrcCopy != "" && (mf.AckSync || mf.AckClose) {
		res.Evals++
		res.Count("final_ack_compared", 1)
		src, err := sq.CheckpointedImage(mf.SrcCopy)
		if err != nil {
			res.HarnessErr = "source image: " + err.Error()
			return
		}
		opt := litestream.NewRestoreOptions()
		opt.IntegrityCheck = litestream.IntegrityCheckFull
		got, err := hist.RestoreBytes(ctx, rep, scratch, opt)
		ack := "SyncAndWait"
		if mf.AckClose {
			ack = "Store.Close"
			if mf.AckSync {
				ack = "SyncAndWait+Store.Close"
			}
		}
		switch {
		case err != nil && len(corruptListed) > 0 && strings.Contains(err.Error(), "checksum"):
			res.Count("final_restore_failed_on_corrupt_file", 1) // consequence of ltx-corrupt-on-replica above
		case err != nil:
			res.Violate("final-ack-differs"+sfx, "%s: restore after acknowledged %s failed: %v%s", tag, ack, err, note)
		default:
			if cerr := oracle.CompareMasked(src, got, scratch); cerr != nil {
				if strings.HasPrefix(cerr.Error(), "harness:") {
					res.HarnessErr = cerr.Error()
					return
				}
				ks, _ := led.consistent(src)
				kg, why := led.consistent(got)
				res.Violate("final-ack-differs"+sfx, "%s: restore after acknowledged %s differs from the source: %v (source ledger k=%d, restored k=%d %s)%s", tag, ack, cerr, ks, kg, why, note)
			}
		}
	} else {
		res.Count("final_ack_missing", 1)
		res.Count("final_ack_missing:"+errClass(fmt.Errorf("%s", mf.AckErr)), 1)
		res.Logf("%s: no final acknowledgement (%s)", tag, mf.AckErr)
	}

	// ---- level-9 files vs image_n re-composed from archived level-0 files
	snapBad := map[int]bool{}
	if len(snaps) > cp.snaps {
		res.Count("snapshots_not_checked(cap)", len(snaps)-cp.snaps)
	}
	for _, a := range sample(snaps, cp.snaps) {
		lf, err := oracle.DecodeLTX(a.Path)
		if err != nil {
			if !listedSet[fmt.Sprintf("9/%d-%d", a.Min, a.Max)] {
				res.Evals++
				res.Violate("ltx-corrupt-on-replica", "%s: snapshot L9/%d-%d was published and fails verification: %v", tag, a.Min, a.Max, err)
			}
			snapBad[a.Max] = true
			continue
		}
		want, hdr, err := ar.Compose(1, a.Max)
		if err != nil || a.Min != 1 {
			res.Count("snapshots_unverifiable", 1)
			res.Logf("%s: snapshot %d-%d not comparable: %v", tag, a.Min, a.Max, err)
			continue
		}
		res.Evals++
		res.Count("snapshots_checked", 1)
		perr := oracle.EqualPages(lf, want)
		if perr == nil && lf.Hdr.Commit != hdr.Commit {
			perr = fmt.Errorf("commit %d, reference %d", lf.Hdr.Commit, hdr.Commit)
		}
		if perr == nil {
			continue
		}
		// What does the L0-only image say, and what does the snapshot alone say?
		img, ierr := ar.Image(a.Max)
		var kref int64 = -1
		refWhy := "unavailable"
		if ierr == nil {
			kref, refWhy = led.consistent(img)
		}
		simg := imageOf(lf)
		ks, sWhy := led.consistent(simg)
		switch {
		case refWhy != "":
			// the level-0 capture itself is wrong (or not evaluable): reported by the TXID pass
			res.Count("snapshot_mismatch_with_bad_l0_reference", 1)
			res.Logf("%s: snapshot 1-%d differs from image_%d (%v) but the L0-only image is not consistent: %s", tag, a.Max, a.Max, perr, refWhy)
		case sWhy == "" && ks == kref:
			res.Count("snapshot_bytes_differ_same_logical_state", 1)
			res.Logf("%s: snapshot 1-%d differs bytewise from image_%d (%v) but is the same committed state k=%d", tag, a.Max, a.Max, perr, ks)
		default:
			snapBad[a.Max] = true
			// attribution: where do the differing page images come from?
			var attr []string
			stale := false // some differing page is an OLDER replicated version (at or below the advertised TXID)
			for pg, d := range lf.Pages {
				if w, ok := want[pg]; ok && bytes.Equal(w, d) {
					continue
				}
				src := "no archived level-0 file"
				low, high := false, false
				for n := 1; n <= ar.Max(); n++ {
					if f := ar.Files[n]; f != nil {
						if v, ok := f.Pages[pg]; ok && bytes.Equal(v, d) {
							src = fmt.Sprintf("L0/%d", n)
							if n <= a.Max {
								low = true
							} else {
								high = true
							}
						}
					}
				}
				if low && !high {
					stale = true
				}
				if len(attr) < 6 {
					attr = append(attr, fmt.Sprintf("page %d = version of %s", pg, src))
				}
			}
			sort.Strings(attr)
			note2 := " {" + strings.Join(attr, "; ") + "}"
			res.Logf("%s: snapshot 1-%d attribution:%s", tag, a.Max, note2)
			sfx := sfx
			if !stale && sfx != ":snapshot-ahead-of-l0-at-reset" && len(resets) == 0 {
				// Listed finding F38: a level-9 file that is AHEAD of the TXID it advertises (every
				// differing page is a version replicated later, or a state between two replicated
				// TXIDs / a torn page), while the level-0 chain itself is consistent, in a run
				// without ResetLocalState on this database (with one it was F39, fixed: stale in-memory
				// WAL offset after the baseline was re-fetched). A level-9 file that holds an OLDER
				// version of some page keeps the unlisted key.
				sfx = ":level-9-file-ahead-of-its-txid"
				f38Snapshot = true
			}
			res.Violate("snapshot-content-mismatch"+sfx, "%s: level-9 file 1..%d != image_%d re-composed from the archived level-0 files (%v); L0-only image is consistent at ledger k=%d, the snapshot alone: k=%d %s%s%s", tag, a.Max, a.Max, perr, kref, ks, orOK(sWhy), note2, note)
		}
	}

	// concurrent restores judged above: the listed finding F38 explains them only if this
	// database really has a level-9 file that is ahead of its TXID
	for _, pr := range pendRestores {
		rs := sfx
		if f38Snapshot && rs != ":snapshot-ahead-of-l0-at-reset" {
			rs = ":level-9-file-ahead-of-its-txid"
		}
		res.Violate("concurrent-restore-inconsistent"+rs, "%s", pr.msg)
	}

	// ---- C02: listed TXIDs restore to one committed state, k monotone
	txset := map[int]bool{}
	var hi []int
	for _, f := range listed {
		if f.Level > 0 && !txset[f.Max] {
			txset[f.Max] = true
			hi = append(hi, f.Max)
		}
	}
	var lo []int
	for _, f := range listed {
		if f.Level == 0 && !txset[f.Max] {
			txset[f.Max] = true
			lo = append(lo, f.Max)
		}
	}
	sort.Ints(hi)
	sort.Ints(lo)
	all := len(hi) + len(lo)
	hi = sample(hi, cp.txids/2)
	lo = sample(lo, cp.txids-len(hi))
	txs := append(hi, lo...)
	sort.Ints(txs)
	if all > len(txs) {
		res.Count("txids_not_restored(cap)", all-len(txs))
	}
	lastK, lastN := int64(-1), 0
	distinctK := map[int64]bool{}
	for _, n := range txs {
		opt := litestream.NewRestoreOptions()
		opt.TXID = ltx.TXID(n)
		got, err := hist.RestoreBytes(ctx, rep, scratch, opt)
		if err != nil {
			res.Count("txid_restore_error", 1)
			res.Count("txid_restore_error:"+errClass(err), 1)
			res.Logf("%s: Restore(TXID=%d) error: %v", tag, n, err)
			continue
		}
		res.Evals++
		res.Count("txids_checked", 1)
		k, why := led.consistent(got)
		if why != "" {
			// attribution: L0-only image of the same TXID
			attr := "L0-only image unavailable"
			if img, ierr := ar.Image(n); ierr == nil {
				if _, w2 := led.consistent(img); w2 == "" {
					attr = "L0-only image_n is consistent => a derived (compacted/snapshot) file is wrong"
					if anySnapBad(snapBad, n) {
						res.Count("txid_inconsistent_explained_by_snapshot", 1)
						res.Logf("%s: Restore(TXID=%d): %s [%s; a mismatching snapshot <= %d was already reported]", tag, n, why, attr, n)
						continue
					}
				} else {
					attr = "L0-only image_n is inconsistent too (" + w2 + ") => level-0 capture"
				}
			}
			res.Violate("txid-inconsistent"+sfx, "%s: Restore(TXID=%d) is not a committed state: %s [%s]%s", tag, n, why, attr, note)
			continue
		}
		distinctK[k] = true
		if k < lastK {
			res.Violate("txid-inconsistent"+sfx, "%s: ledger regressed: TXID %d restores k=%d but TXID %d restored k=%d%s", tag, n, k, lastN, lastK, note)
		}
		lastK, lastN = k, n
	}
	res.Count("distinct_k_"+tag, len(distinctK))
}

// midAcks checks the acknowledgements recorded while the application was writing.
func midAcks(res *vf.Result, mf MainFinal, ar *oracle.Archive, l0 map[int][]archFile, led *ledger, cp caps, sfx, note, tag string) {
	if len(mf.Acks) == 0 {
		return
	}
	res.Count("mid_acks_observed", len(mf.Acks))
	// first publication sequence number of each level-0 TXID; TXIDs published more than once
	firstSeq := map[int]int{}
	multi := map[int]bool{}
	var txs []int
	for n, vs := range l0 {
		firstSeq[n] = vs[0].Seq
		for _, v := range vs {
			if v.Seq < firstSeq[n] {
				firstSeq[n] = v.Seq
			}
		}
		if len(vs) > 1 {
			multi[n] = true
		}
		txs = append(txs, n)
	}
	sort.Ints(txs)
	type cand struct {
		a AckObs
		t int
	}
	var cs []cand
	seenT := map[int]bool{}
	for _, a := range mf.Acks {
		t := 0
		for _, n := range txs {
			if int64(firstSeq[n]) <= a.Seq && n > t {
				t = n
			}
		}
		// one representative per (T, K0 above the previous representative's): keep
		// the acknowledgement with the highest K0 for each T
		if t == 0 {
			res.Evals++
			res.Violate("mid-ack-nothing-stored"+sfx, "%s: %s returned success at t=%.2fs with no level-0 file on the replica%s", tag, a.Op, float64(a.T1)/1e9, note)
			continue
		}
		if seenT[t] {
			for i := range cs {
				if cs[i].t == t && a.K0 > cs[i].a.K0 {
					cs[i].a = a
				}
			}
			continue
		}
		seenT[t] = true
		cs = append(cs, cand{a, t})
	}
	sort.Slice(cs, func(i, j int) bool { return cs[i].t < cs[j].t })
	lim := cp.txids * 3
	if len(cs) > lim {
		res.Count("mid_acks_not_checked(cap)", len(cs)-lim)
	}
	for _, c := range sample(cs, lim) {
		rew := false
		for n := range multi {
			if n <= c.t {
				rew = true
			}
		}
		if rew {
			// a TXID at or below T was published twice (local state reset): which
			// version the acknowledgement saw is not decidable from the archive
			res.Count("mid_acks_unverifiable(txid republished)", 1)
			continue
		}
		img, err := ar.Image(c.t)
		if err != nil {
			res.Count("mid_acks_unverifiable(archive incomplete)", 1)
			continue
		}
		res.Evals++
		res.Count("mid_acks_checked", 1)
		res.Count("mid_acks_checked:"+c.a.Op, 1)
		k, why := led.consistent(img)
		if why != "" {
			res.Count("mid_ack_image_inconsistent", 1) // reported by the TXID pass under its own key
			res.Logf("%s: replica image at acknowledgement (TXID %d) is not a committed state: %s", tag, c.t, why)
			continue
		}
		if k < c.a.K0 {
			res.Violate("mid-ack-lost-commit"+sfx, "%s: %s returned success at t=%.2fs; the application commit with ledger k=%d had returned before the call was issued, but the replica as published at that moment (level 0 up to TXID %d) restores ledger k=%d: an acknowledged transaction is not stored%s", tag, c.a.Op, float64(c.a.T1)/1e9, c.a.K0, c.t, k, note)
		}
	}
}

func orOK(s string) string {
	if s == "" {
		return "(consistent)"
	}
	return s
}

func anySnapBad(m map[int]bool, n int) bool {
	for k := range m {
		if k <= n {
			return true
		}
	}
	return false
}

// imageOf lays the pages of a full snapshot file out as a database image.
func imageOf(lf *oracle.LTXFile) []byte {
	ps := int(lf.Hdr.PageSize)
	img := make([]byte, int(lf.Hdr.Commit)*ps)
	for pg, d := range lf.Pages {
		if pg >= 1 && pg <= lf.Hdr.Commit {
			copy(img[int(pg-1)*ps:], d)
		}
	}
	return img
}

// errClass maps a restore error to a short class for the evidence counters.
func errClass(err error) string {
	m := err.Error()
	for _, k := range []string{"checksum", "transaction not available", "no snapshots", "nonsequential", "non-contiguous", "not contiguous", "context deadline", "no such file", "database is locked", "not registered", "database not open"} {
		if strings.Contains(m, k) {
			return strings.ReplaceAll(k, " ", "-")
		}
	}
	if len(m) > 40 {
		m = m[:40]
	}
	return strings.ReplaceAll(m, " ", "_")
}
