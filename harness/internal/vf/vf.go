// Package vf is the small framework shared by all checks: case lists derived
// from VERIF_SEED, batch worker processes (one panic must not end every
// monitor), three-valued verdicts, known findings, replay files and evidence.
package vf

import (
	"bufio"
	"bytes"
	"encoding/json"
	"fmt"
	"hash/fnv"
	"os"
	"os/exec"
	"path/filepath"
	"runtime"
	"sort"
	"strconv"
	"strings"
	"sync"
	"syscall"
	"time"
)

// Root is the /verif directory (overridable for vp run snapshots).
var Root = func() string {
	if v := os.Getenv("VERIF_ROOT"); v != "" {
		return v
	}
	return "/verif"
}()

// Violation is one refuting observation. Key is a deterministic fingerprint of
// the witness, matched against known_findings.txt.
type Violation struct {
	Key string `json:"key"`
	Msg string `json:"msg"`
}

// Result is what running one case produced.
type Result struct {
	Case       int            `json:"case"`
	Sig        string         `json:"sig"`
	Nontrivial bool           `json:"nontrivial"`
	Evals      int            `json:"evals"`
	Counters   map[string]int `json:"counters,omitempty"`
	Sample     any            `json:"sample,omitempty"`
	Violations []Violation    `json:"violations,omitempty"`
	Log        []string       `json:"log,omitempty"`
	HarnessErr string         `json:"harness_err,omitempty"`
	WallMs     int64          `json:"wall_ms,omitempty"`
}

func (r *Result) Count(k string, n int) {
	if r.Counters == nil {
		r.Counters = map[string]int{}
	}
	r.Counters[k] += n
}

func (r *Result) Violate(key, format string, a ...any) {
	r.Violations = append(r.Violations, Violation{Key: key, Msg: fmt.Sprintf(format, a...)})
}

func (r *Result) Logf(format string, a ...any) {
	r.Log = append(r.Log, fmt.Sprintf(format, a...))
}

// Run describes one invocation of a check.
type Run struct {
	ID      string
	Tier    string // quick | thorough
	Seed    int64
	Scratch string // per-run scratch directory (removed at the end)
	Workers int
}

// Check is implemented by each property package.
type Check struct {
	ID    string
	Level string // exploration | fault_enumeration
	Rule  string // how cases are generated, what makes one non-trivial/distinct
	// Assumptions / trusted base written to the evidence file.
	Assumptions []string
	// Cases returns the deterministic case list for (tier, seed). Each case is
	// an opaque JSON document handed to RunCase in a worker process.
	Cases func(run *Run) ([]json.RawMessage, error)
	// RunCase executes one case in dir (fresh, removed afterwards).
	RunCase func(run *Run, spec json.RawMessage, dir string) *Result
	// MinEvals: a run that observed fewer oracle decisions is inconclusive.
	MinEvals int
	// Per-worker-batch wall-clock watchdog; firing means inconclusive unless
	// HangIsViolation is set (C12 confirms with a progress counter itself).
	CaseTimeout time.Duration
	// Workers overrides the default worker count (0 = NumCPU).
	Workers func(run *Run) int
	// Finish lets the check add run-level evidence/violations after all cases.
	Finish func(run *Run, results []*Result, ev map[string]any) []Violation
	// Exhaustive is reported in evidence when set by Cases.
	Exhaustive bool
}

var registry = map[string]*Check{}

func Register(c *Check) { registry[c.ID] = c }

func Lookup(id string) *Check { return registry[id] }

func IDs() []string {
	var a []string
	for k := range registry {
		a = append(a, k)
	}
	sort.Strings(a)
	return a
}

// SubSeed derives a per-case seed from the run seed.
func SubSeed(seed int64, parts ...any) int64 {
	h := fnv.New64a()
	fmt.Fprint(h, seed)
	for _, p := range parts {
		fmt.Fprint(h, "|", p)
	}
	return int64(h.Sum64() >> 1)
}

func ScratchBase() string {
	if v := os.Getenv("VERIF_SCRATCH"); v != "" {
		return v
	}
	if st, err := os.Stat("/dev/shm"); err == nil && st.IsDir() {
		return "/dev/shm"
	}
	return os.TempDir()
}

// ---------------------------------------------------------------------------
// known findings

type Known struct {
	Property string
	Key      string
	Text     string
}

func LoadKnown() ([]Known, error) {
	b, err := os.ReadFile(filepath.Join(Root, "known_findings.txt"))
	if os.IsNotExist(err) {
		return nil, nil
	} else if err != nil {
		return nil, err
	}
	var out []Known
	for _, line := range strings.Split(string(b), "\n") {
		line = strings.TrimSpace(line)
		if !strings.HasPrefix(line, "known:") {
			continue // "fixed:" entries and comments suppress nothing
		}
		rest := strings.TrimSpace(strings.TrimPrefix(line, "known:"))
		k := Known{Text: rest}
		for _, f := range strings.Fields(rest) {
			if v, ok := strings.CutPrefix(f, "property="); ok {
				k.Property = v
			}
			if v, ok := strings.CutPrefix(f, "key="); ok {
				k.Key = v
			}
		}
		if k.Property != "" && k.Key != "" {
			out = append(out, k)
		}
	}
	return out, nil
}

// ---------------------------------------------------------------------------
// driver

const (
	ExitHeld         = 0
	ExitViolated     = 1
	ExitInconclusive = 2
	ExitHarness      = 3
)

// Main is the entry point used by cmd/vh.
func Main(args []string) int {
	if len(args) >= 1 && args[0] == "worker" {
		return workerMain(args[1:])
	}
	if len(args) < 2 {
		fmt.Fprintln(os.Stderr, "usage: vh <Cxx> quick|thorough | vh <Cxx> --replay <file>")
		return ExitHarness
	}
	id := args[0]
	chk := Lookup(id)
	if chk == nil {
		fmt.Fprintf(os.Stderr, "unknown check %s (have %v)\n", id, IDs())
		return ExitHarness
	}
	if args[1] == "--replay" {
		if len(args) < 3 {
			fmt.Fprintln(os.Stderr, "missing replay file")
			return ExitHarness
		}
		return replay(chk, args[2])
	}
	tier := args[1]
	if tier != "quick" && tier != "thorough" {
		fmt.Fprintln(os.Stderr, "tier must be quick or thorough")
		return ExitHarness
	}
	return drive(chk, tier)
}

func envSeed() int64 {
	if v := os.Getenv("VERIF_SEED"); v != "" {
		if n, err := strconv.ParseInt(v, 10, 64); err == nil {
			return n
		}
	}
	return 1
}

func newRun(chk *Check, tier string) (*Run, error) {
	dir, err := os.MkdirTemp(ScratchBase(), "vh-"+chk.ID+"-")
	if err != nil {
		return nil, err
	}
	run := &Run{ID: chk.ID, Tier: tier, Seed: envSeed(), Scratch: dir, Workers: runtime.NumCPU()}
	if v := os.Getenv("VERIF_WORKERS"); v != "" {
		if n, err := strconv.Atoi(v); err == nil && n > 0 {
			run.Workers = n
		}
	} else if chk.Workers != nil {
		run.Workers = chk.Workers(run)
	}
	return run, nil
}

func drive(chk *Check, tier string) int {
	start := time.Now()
	run, err := newRun(chk, tier)
	if err != nil {
		fmt.Fprintln(os.Stderr, "scratch:", err)
		return ExitHarness
	}
	defer os.RemoveAll(run.Scratch)

	known, err := LoadKnown()
	if err != nil {
		fmt.Fprintln(os.Stderr, "known findings:", err)
		return ExitHarness
	}

	specs, err := chk.Cases(run)
	if err != nil {
		fmt.Fprintln(os.Stderr, "case generation:", err)
		fmt.Printf("INCONCLUSIVE property=%s reason=case-generation-failed\n", chk.ID)
		return ExitInconclusive
	}
	// development aid (never used by registered commands): VERIF_ONLY=<substring> keeps
	// only the cases whose specification contains the substring; such a partial run
	// writes its summary outside /verif/evidence.
	if only := os.Getenv("VERIF_ONLY"); only != "" {
		var kept []json.RawMessage
		for _, sp := range specs {
			if strings.Contains(string(sp), only) {
				kept = append(kept, sp)
			}
		}
		specs = kept
	}
	specFile := filepath.Join(run.Scratch, "specs.json")
	if err := writeJSON(specFile, specs); err != nil {
		fmt.Fprintln(os.Stderr, err)
		return ExitHarness
	}

	results, inconclusive := runWorkers(chk, run, specFile, len(specs))

	// aggregate
	ev := map[string]any{}
	evals := 0
	sigs := map[string]bool{}
	counters := map[string]int{}
	var samples []any
	var viol []struct {
		r *Result
		v Violation
	}
	harnessErrs := 0
	for _, r := range results {
		if r == nil {
			continue
		}
		evals += r.Evals
		if r.Nontrivial && r.Sig != "" {
			sigs[r.Sig] = true
		}
		for k, n := range r.Counters {
			counters[k] += n
		}
		if r.Sample != nil && len(samples) < 6 {
			samples = append(samples, r.Sample)
		}
		if d := os.Getenv("VERIF_DUMPLOGS"); d != "" && len(r.Log) > 0 {
			// development aid: with VERIF_KEEPLOG=1 VERIF_DUMPLOGS=<dir> every case's log is written out
			_ = os.MkdirAll(d, 0o755)
			_ = os.WriteFile(filepath.Join(d, fmt.Sprintf("%s-case%d.log", chk.ID, r.Case)), []byte(strings.Join(r.Log, "\n")+"\n"), 0o644)
		}
		if r.HarnessErr != "" {
			harnessErrs++
			fmt.Fprintf(os.Stderr, "harness error in case %d: %s\n", r.Case, r.HarnessErr)
		}
		for _, v := range r.Violations {
			viol = append(viol, struct {
				r *Result
				v Violation
			}{r, v})
		}
	}
	var runViol []Violation
	if chk.Finish != nil {
		runViol = chk.Finish(run, results, ev)
	}

	exit := ExitHeld
	nViol := 0
	knownSeen := map[string]bool{}
	report := func(caseIdx int, spec json.RawMessage, r *Result, v Violation) {
		for _, k := range known {
			if k.Property == chk.ID && k.Key == v.Key {
				if !knownSeen[k.Key] {
					knownSeen[k.Key] = true
					fmt.Printf("KNOWN-FINDING: %s\n", k.Text)
				}
				counters["known_finding_witnesses"]++
				return
			}
		}
		nViol++
		exit = ExitViolated
		path := filepath.Join(Root, "replays", fmt.Sprintf("%s-seed%d-%s-case%d.json", chk.ID, run.Seed, tier, caseIdx))
		_ = os.MkdirAll(filepath.Dir(path), 0o755)
		_ = writeJSON(path, map[string]any{"property": chk.ID, "tier": tier, "seed": run.Seed, "case": caseIdx, "spec": spec, "violation": v, "result": r})
		if nViol <= 20 {
			fmt.Printf("VIOLATION property=%s replay=%s\n", chk.ID, path)
			fmt.Printf("  key=%s %s\n", v.Key, v.Msg)
		}
	}
	for _, x := range viol {
		var spec json.RawMessage
		if x.r.Case >= 0 && x.r.Case < len(specs) {
			spec = specs[x.r.Case]
		}
		report(x.r.Case, spec, x.r, x.v)
	}
	for _, v := range runViol {
		report(-1, nil, nil, v)
	}

	if exit == ExitHeld {
		switch {
		case inconclusive != "":
			fmt.Printf("INCONCLUSIVE property=%s reason=%s\n", chk.ID, inconclusive)
			exit = ExitInconclusive
		case harnessErrs > 0:
			fmt.Printf("INCONCLUSIVE property=%s reason=harness-errors(%d)\n", chk.ID, harnessErrs)
			exit = ExitInconclusive
		case evals < chk.MinEvals:
			fmt.Printf("INCONCLUSIVE property=%s reason=observed-too-little(evals=%d<%d)\n", chk.ID, evals, chk.MinEvals)
			exit = ExitInconclusive
		}
	}

	cov := map[string]any{
		"evaluations":         evals,
		"distinct_nontrivial": len(sigs),
		"rule":                chk.Rule,
		"samples":             samples,
		"cases":               len(specs),
		"observed":            counters,
	}
	if chk.Exhaustive {
		cov["exhaustive"] = true
	}
	for k, v := range ev {
		cov[k] = v
	}
	if len(samples) == 0 {
		cov["samples"] = []any{"(no case produced a sample)"}
	}
	evd := map[string]any{
		"property_id": chk.ID,
		"tier":        tier,
		"seed":        run.Seed,
		"level":       chk.Level,
		"coverage":    cov,
		"assumptions": chk.Assumptions,
		"wall_s":      time.Since(start).Seconds(),
		"violations":  nViol,
		"verdict":     []string{"held", "violated", "inconclusive", "harness-error"}[exit],
	}
	// Evidence describes runs against /repo only: a run against a scratch copy of the
	// repository (VERIF_REPO, used to validate the monitors against seeded changes)
	// writes its summary elsewhere and never touches /verif/evidence.
	evDir := filepath.Join(Root, "evidence")
	if r := os.Getenv("VERIF_REPO"); (r != "" && r != "/repo") || os.Getenv("VERIF_ONLY") != "" || os.Getenv("VERIF_NO_EVIDENCE") != "" {
		evDir = filepath.Join(Root, "bin", "evidence-scratch")
	}
	_ = os.MkdirAll(evDir, 0o755)
	if err := writeJSON(filepath.Join(evDir, chk.ID+".json"), evd); err != nil {
		fmt.Fprintln(os.Stderr, "evidence:", err)
	}
	fmt.Printf("%s %s seed=%d: cases=%d evaluations=%d distinct_nontrivial=%d violations=%d known=%d wall=%.1fs verdict=%s\n",
		chk.ID, tier, run.Seed, len(specs), evals, len(sigs), nViol, counters["known_finding_witnesses"], time.Since(start).Seconds(), evd["verdict"])
	keys := make([]string, 0, len(counters))
	for k := range counters {
		keys = append(keys, k)
	}
	sort.Strings(keys)
	var sb strings.Builder
	for _, k := range keys {
		fmt.Fprintf(&sb, " %s=%d", k, counters[k])
	}
	fmt.Println("  observed:" + sb.String())
	return exit
}

func writeJSON(path string, v any) error {
	b, err := json.MarshalIndent(v, "", " ")
	if err != nil {
		return err
	}
	return os.WriteFile(path, b, 0o644)
}

// runWorkers executes all cases in batch worker processes and returns one
// result per case (nil if never run) plus an inconclusive reason, if any.
func runWorkers(chk *Check, run *Run, specFile string, n int) ([]*Result, string) {
	results := make([]*Result, n)
	if n == 0 {
		return results, ""
	}
	w := run.Workers
	if w > n {
		w = n
	}
	timeout := chk.CaseTimeout
	if timeout == 0 {
		timeout = 10 * time.Minute
	}
	self, _ := os.Executable()
	var mu sync.Mutex
	inconclusive := ""
	next := 0
	take := func() int { // dynamic work distribution: each worker process handles one case id at a time from a shared list
		mu.Lock()
		defer mu.Unlock()
		if next >= n {
			return -1
		}
		i := next
		next++
		return i
	}
	var wg sync.WaitGroup
	for k := 0; k < w; k++ {
		wg.Add(1)
		go func(k int) {
			defer wg.Done()
			var wk *workerProc
			defer func() {
				if wk != nil {
					wk.stop()
				}
			}()
			for {
				i := take()
				if i < 0 {
					return
				}
				if wk == nil {
					var err error
					wk, err = startWorker(self, chk.ID, run, specFile, k)
					if err != nil {
						mu.Lock()
						inconclusive = "cannot-start-worker:" + err.Error()
						mu.Unlock()
						return
					}
				}
				res, status := wk.runCase(i, timeout)
				switch status {
				case "ok":
					results[i] = res
				case "died":
					r := &Result{Case: i, Evals: 1, Sig: fmt.Sprintf("died-%d", i)}
					tail := wk.stderrTail()
					r.Log = strings.Split(tail, "\n")
					r.Violate("process-died", "the process executing litestream died (panic/fatal) while running case %d: %s", i, firstPanicLine(tail))
					results[i] = r
					wk.stop()
					wk = nil
				case "timeout":
					dump := wk.quitAndDump()
					_ = os.MkdirAll(filepath.Join(Root, "replays"), 0o755)
					p := filepath.Join(Root, "replays", fmt.Sprintf("%s-seed%d-case%d-timeout.txt", chk.ID, run.Seed, i))
					_ = os.WriteFile(p, []byte(dump), 0o644)
					mu.Lock()
					inconclusive = fmt.Sprintf("watchdog(case=%d,dump=%s)", i, p)
					mu.Unlock()
					wk = nil
				}
			}
		}(k)
	}
	wg.Wait()
	return results, inconclusive
}

func firstPanicLine(s string) string {
	for _, l := range strings.Split(s, "\n") {
		if strings.HasPrefix(l, "panic:") || strings.HasPrefix(l, "fatal error:") || strings.Contains(l, "DATA RACE") {
			return l
		}
	}
	if len(s) > 200 {
		return s[len(s)-200:]
	}
	return s
}

type workerProc struct {
	cmd     *exec.Cmd
	in      *bufio.Writer
	inPipe  interface{ Close() error }
	out     *bufio.Reader
	errPath string
	lines   chan string
}

func startWorker(self, id string, run *Run, specFile string, k int) (*workerProc, error) {
	errPath := filepath.Join(run.Scratch, fmt.Sprintf("worker-%d-%d.stderr", k, time.Now().UnixNano()))
	ef, err := os.Create(errPath)
	if err != nil {
		return nil, err
	}
	defer ef.Close()
	cmd := exec.Command(self, "worker", id, run.Tier, strconv.FormatInt(run.Seed, 10), specFile, run.Scratch)
	cmd.Stderr = ef
	cmd.SysProcAttr = &syscall.SysProcAttr{Setpgid: true}
	stdin, err := cmd.StdinPipe()
	if err != nil {
		return nil, err
	}
	stdout, err := cmd.StdoutPipe()
	if err != nil {
		return nil, err
	}
	if err := cmd.Start(); err != nil {
		return nil, err
	}
	w := &workerProc{cmd: cmd, in: bufio.NewWriter(stdin), inPipe: stdin, errPath: errPath, lines: make(chan string, 16)}
	rd := bufio.NewReaderSize(stdout, 1<<20)
	go func() {
		defer close(w.lines)
		for {
			line, err := rd.ReadString('\n')
			if line != "" {
				w.lines <- line
			}
			if err != nil {
				return
			}
		}
	}()
	return w, nil
}

func (w *workerProc) runCase(i int, timeout time.Duration) (*Result, string) {
	fmt.Fprintf(w.in, "%d\n", i)
	if err := w.in.Flush(); err != nil {
		return nil, "died"
	}
	t := time.NewTimer(timeout)
	defer t.Stop()
	for {
		select {
		case line, ok := <-w.lines:
			if !ok {
				_ = w.cmd.Wait()
				return nil, "died"
			}
			if rest, ok := strings.CutPrefix(line, "RESULT "); ok {
				var r Result
				if err := json.Unmarshal([]byte(rest), &r); err != nil {
					return &Result{Case: i, HarnessErr: "bad result json: " + err.Error()}, "ok"
				}
				r.Case = i
				return &r, "ok"
			}
		case <-t.C:
			return nil, "timeout"
		}
	}
}

func (w *workerProc) stderrTail() string {
	b, _ := os.ReadFile(w.errPath)
	if len(b) > 6000 {
		// keep the head (panic message) and the tail
		return string(b[:3000]) + "\n...\n" + string(b[len(b)-2500:])
	}
	return string(b)
}

func (w *workerProc) quitAndDump() string {
	_ = syscall.Kill(-w.cmd.Process.Pid, syscall.SIGQUIT)
	done := make(chan struct{})
	go func() { _ = w.cmd.Wait(); close(done) }()
	select {
	case <-done:
	case <-time.After(10 * time.Second):
		_ = syscall.Kill(-w.cmd.Process.Pid, syscall.SIGKILL)
		<-done
	}
	b, _ := os.ReadFile(w.errPath)
	return string(b)
}

func (w *workerProc) stop() {
	_ = w.inPipe.Close()
	done := make(chan struct{})
	go func() { _ = w.cmd.Wait(); close(done) }()
	select {
	case <-done:
	case <-time.After(20 * time.Second):
		_ = syscall.Kill(-w.cmd.Process.Pid, syscall.SIGKILL)
		<-done
	}
}

// workerMain: vh worker <id> <tier> <seed> <specFile> <scratch>; reads case
// indices on stdin, writes "RESULT <json>" lines on stdout.
func workerMain(args []string) int {
	if len(args) < 5 {
		return ExitHarness
	}
	chk := Lookup(args[0])
	if chk == nil {
		return ExitHarness
	}
	seed, _ := strconv.ParseInt(args[2], 10, 64)
	run := &Run{ID: chk.ID, Tier: args[1], Seed: seed, Scratch: args[4], Workers: 1}
	b, err := os.ReadFile(args[3])
	if err != nil {
		fmt.Fprintln(os.Stderr, err)
		return ExitHarness
	}
	var specs []json.RawMessage
	if err := json.Unmarshal(b, &specs); err != nil {
		fmt.Fprintln(os.Stderr, err)
		return ExitHarness
	}
	out := bufio.NewWriter(os.Stdout)
	sc := bufio.NewScanner(os.Stdin)
	for sc.Scan() {
		i, err := strconv.Atoi(strings.TrimSpace(sc.Text()))
		if err != nil || i < 0 || i >= len(specs) {
			continue
		}
		fmt.Fprintf(os.Stderr, "CASE %d %s\n", i, compact(specs[i]))
		res := runOne(chk, run, specs[i], i)
		jb, _ := json.Marshal(res)
		fmt.Fprintf(out, "RESULT %s\n", jb)
		out.Flush()
	}
	return 0
}

func compact(b []byte) string {
	var buf bytes.Buffer
	if json.Compact(&buf, b) != nil {
		return string(b)
	}
	s := buf.String()
	if len(s) > 300 {
		s = s[:300] + "..."
	}
	return s
}

func runOne(chk *Check, run *Run, spec json.RawMessage, i int) *Result {
	dir, err := os.MkdirTemp(run.Scratch, fmt.Sprintf("case%d-", i))
	if err != nil {
		return &Result{Case: i, HarnessErr: err.Error()}
	}
	keep := false
	defer func() {
		if keep {
			fmt.Fprintf(os.Stderr, "VERIF_KEEP: case directory kept at %s\n", dir)
			return
		}
		os.RemoveAll(dir)
	}()
	t0 := time.Now()
	res := chk.RunCase(run, spec, dir)
	if res != nil && len(res.Violations) > 0 && os.Getenv("VERIF_KEEP") != "" {
		keep = true
	}
	if res == nil {
		res = &Result{}
	}
	res.Case = i
	res.WallMs = time.Since(t0).Milliseconds()
	if len(res.Violations) == 0 && res.HarnessErr == "" && os.Getenv("VERIF_KEEPLOG") == "" {
		res.Log = nil
	}
	return res
}

func replay(chk *Check, file string) int {
	b, err := os.ReadFile(file)
	if err != nil {
		fmt.Fprintln(os.Stderr, err)
		return ExitHarness
	}
	var doc struct {
		Tier string          `json:"tier"`
		Seed int64           `json:"seed"`
		Case int             `json:"case"`
		Spec json.RawMessage `json:"spec"`
	}
	if err := json.Unmarshal(b, &doc); err != nil {
		fmt.Fprintln(os.Stderr, err)
		return ExitHarness
	}
	if len(doc.Spec) == 0 || string(doc.Spec) == "null" {
		fmt.Fprintln(os.Stderr, "replay file has no case spec (run-level violation); re-run the check with the same VERIF_SEED")
		return ExitHarness
	}
	dir, err := os.MkdirTemp(ScratchBase(), "vh-replay-")
	if err != nil {
		return ExitHarness
	}
	if os.Getenv("VERIF_KEEP") == "" {
		defer os.RemoveAll(dir)
	}
	run := &Run{ID: chk.ID, Tier: doc.Tier, Seed: doc.Seed, Scratch: dir, Workers: 1}
	os.Setenv("VERIF_KEEPLOG", "1")
	res := runOne(chk, run, doc.Spec, doc.Case)
	for _, l := range res.Log {
		fmt.Println("  |", l)
	}
	if res.HarnessErr != "" {
		fmt.Println("harness error:", res.HarnessErr)
		return ExitInconclusive
	}
	if len(res.Violations) > 0 {
		for _, v := range res.Violations {
			fmt.Printf("VIOLATION property=%s replay=%s\n  key=%s %s\n", chk.ID, file, v.Key, v.Msg)
		}
		return ExitViolated
	}
	fmt.Println("replay: no violation")
	return ExitHeld
}

// JSON helper for specs.
func Spec(v any) json.RawMessage {
	b, err := json.Marshal(v)
	if err != nil {
		panic(err)
	}
	return b
}
