package c10

import (
	"fmt"
	"os"
	"strconv"
	"time"
)

// Explore is a development aid: build bases and print their plans.
func Explore(args []string) {
	dir, _ := os.MkdirTemp("/dev/shm", "c10-explore-")
	defer os.RemoveAll(dir)
	for _, ps := range []int{512, 1024, 4096, 65536} {
		for _, rich := range []bool{false, true} {
			seed := int64(1)
			if len(args) > 0 {
				seed, _ = strconv.ParseInt(args[0], 10, 64)
			}
			b := baseSpec{Seed: seed, PageSize: ps, PurgeL0: ps == 4096, Rich: rich}
			t0 := time.Now()
			m, err := ensureBase(dir, b)
			if err != nil {
				fmt.Println("ERR", b.key(), err)
				continue
			}
			fmt.Printf("%s built in %v max=%d ref=%d fp=%s\n", b.key(), time.Since(t0), m.MaxTXID, m.RefSize, m.fingerprint())
			tot := int64(0)
			for i, f := range m.Files {
				if f.InPlan {
					tot += f.Size
				}
				fmt.Printf("  [%d] %-12s plan=%v size=%d frames=%d markerEnd=%d indexEnd=%d\n", i, f.name(), f.InPlan, f.Size, len(f.Frames), f.MarkerEnd, f.IndexEnd)
			}
			fmt.Println("  plan bytes", tot)
		}
	}
}
