package c10

import (
	"context"
	"errors"
	"fmt"
	"io"
	"sync"

	"github.com/benbjohnson/litestream"
	"github.com/superfly/ltx"
)

var errInjected = errors.New("injected storage read fault")

// sched is one read-fault schedule: the first Repeat opens of the target plan
// file (Target = index into the plan, -1 = every plan file, each with its own
// counter) are disturbed. Kind "open": OpenLTXFile itself fails. Kind "err" /
// "eof": the download reader delivers the bytes up to absolute file offset
// Off + n*Step (n = number of faults already injected on that file) and then
// returns an error / a clean EOF although the file is longer.
type sched struct {
	Target int    `json:"target"`
	Kind   string `json:"kind"`
	Off    int64  `json:"off"`
	Step   int64  `json:"step"`
	Repeat int    `json:"repeat"`
	// Carry: the failing Read call hands out the bytes up to the fault offset
	// together with the error / EOF (io.Reader allows n > 0 with a non-nil error)
	// instead of returning them first and failing on the next call.
	Carry bool `json:"carry,omitempty"`
}

func (s sched) String() string {
	c := ""
	if s.Carry {
		c = " bytes-with-error"
	}
	return fmt.Sprintf("fault{plan-file=%d kind=%s at=%d step=%d repeat=%d%s}", s.Target, s.Kind, s.Off, s.Step, s.Repeat, c)
}

type fileKey struct {
	level    int
	min, max ltx.TXID
}

type openRec struct {
	key       fileKey
	offset    int64
	faulted   bool
	delivered int64
}

// faultProxy is an ordinary ReplicaClient (E-FAULT, download side only). It
// does not implement ReplicaClientV3, so Restore never looks for 0.3.x data.
type faultProxy struct {
	litestream.ReplicaClient
	s       sched
	targets map[fileKey]bool

	mu        sync.Mutex
	injected  map[fileKey]int
	delivered map[fileKey]int64 // bytes handed out so far per file (all opens)
	opens     int
	faults    int
	reopenOK  int
	reopenBad int
}

func newFaultProxy(inner litestream.ReplicaClient, s sched, targets []fileKey) *faultProxy {
	p := &faultProxy{ReplicaClient: inner, s: s, targets: map[fileKey]bool{}, injected: map[fileKey]int{}, delivered: map[fileKey]int64{}}
	for _, t := range targets {
		p.targets[t] = true
	}
	return p
}

type faultReader struct {
	p     *faultProxy
	key   fileKey
	rc    io.ReadCloser
	n     int64
	limit int64 // < 0: no fault
	eof   bool
	carry bool
}

func (f *faultReader) fault() error {
	if f.eof {
		return io.EOF
	}
	return fmt.Errorf("read: %w", errInjected)
}

func (f *faultReader) Read(b []byte) (int, error) {
	last := false
	if f.limit >= 0 {
		if f.n >= f.limit {
			return 0, f.fault()
		}
		if int64(len(b)) >= f.limit-f.n {
			b = b[:f.limit-f.n]
			last = true
		}
	}
	n, err := f.rc.Read(b)
	f.n += int64(n)
	f.p.mu.Lock()
	f.p.delivered[f.key] += int64(n)
	f.p.mu.Unlock()
	if err == nil && last && f.carry && f.n >= f.limit {
		return n, f.fault()
	}
	return n, err
}

func (f *faultReader) Close() error { return f.rc.Close() }

func (p *faultProxy) OpenLTXFile(ctx context.Context, level int, minTXID, maxTXID ltx.TXID, offset, size int64) (io.ReadCloser, error) {
	k := fileKey{level, minTXID, maxTXID}
	p.mu.Lock()
	p.opens++
	if offset > 0 || p.delivered[k] > 0 {
		// observation only: a resumed download should continue where the
		// previous stream stopped
		if offset == p.delivered[k] {
			p.reopenOK++
		} else {
			p.reopenBad++
		}
	}
	inject := p.targets[k] && p.injected[k] < p.s.Repeat
	n := p.injected[k]
	if inject {
		p.injected[k]++
		p.faults++
	}
	p.mu.Unlock()

	if inject && p.s.Kind == "open" {
		return nil, fmt.Errorf("open: %w", errInjected)
	}
	rc, err := p.ReplicaClient.OpenLTXFile(ctx, level, minTXID, maxTXID, offset, size)
	if err != nil {
		return nil, err
	}
	fr := &faultReader{p: p, key: k, rc: rc, limit: -1}
	if inject {
		lim := p.s.Off + int64(n)*p.s.Step - offset
		if lim < 0 {
			lim = 0
		}
		fr.limit = lim
		fr.eof = p.s.Kind == "eof"
		fr.carry = p.s.Carry
	}
	return fr, nil
}
