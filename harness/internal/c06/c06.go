// Package c06: compaction never changes what is restored; levels stay
// contiguous (DESIGN §4 C06).
package c06

import (
	"bytes"
	"context"
	"crypto/sha256"
	"encoding/json"
	"errors"
	"fmt"
	"io"
	"math/rand"
	"os"
	"strings"
	"time"

	"github.com/benbjohnson/litestream"

	"verif/harness/internal/hist"
	"verif/harness/internal/oracle"
	"verif/harness/internal/vf"
)

type spec struct {
	Seed   int64       `json:"seed"`
	Ops    int         `json:"ops"`
	Levels int         `json:"levels"` // number of compaction levels above 0 (1..8)
	Cfg    hist.Config `json:"cfg"`
	Store  bool        `json:"store"` // compactions through Store.CompactDB (interval guard) instead of DB.Compact
	Guard  bool        `json:"guard"` // with Store: 24h intervals so the "too early" guard is exercised
	// Backlog > 0: before the generated part, that many single-commit level-0 files are
	// produced and then compacted in one pass per level (large compaction inputs)
	Backlog int `json:"backlog,omitempty"`
	// Demo selects a fixed history (see runDemo)
	Demo           string `json:"demo,omitempty"`
	DemoMode       string `json:"demo_mode,omitempty"`        // application checkpoint mode of the offline-backfill demo
	DemoWriteAfter bool   `json:"demo_write_after,omitempty"` // one more application commit after that checkpoint
	DemoNewObject  bool   `json:"demo_new_object,omitempty"`  // reopen with a new DB object instead of Open() on the same one
	// DemoFailFirstSync: the first sync after reopening fails (meta file system full) after litestream
	// initialised; the application then checkpoints PASSIVE again; Snapshot
	DemoFailFirstSync bool `json:"demo_fail_first_sync,omitempty"`
	// DemoLeaveKB > 0: the meta file system is left with that many KiB free instead of none, so a
	// chunked catch-up (small MaxSyncWALBytes) writes its first chunk(s) and then fails
	DemoLeaveKB int `json:"demo_leave_kb,omitempty"`
}

func init() {
	vf.Register(&vf.Check{
		ID:    "C06",
		Level: "exploration",
		Rule: "generated histories without storage faults or retention: writes (growth, shrink by delete + VACUUM / incremental_vacuum, grow-after-shrink), syncs, DB.Compact(level) / Store.CompactDB for every level of layouts with 1..8 levels, Snapshot, and benign in-chain full snapshots (application TRUNCATE checkpoint while litestream is closed). " +
			"Every level-0 file is archived when it appears. After each compaction/snapshot every new file at level>=1 covering a..b is decoded and compared with the independent overlay of archived level-0 files a..b (page set, page bytes, Commit, header timestamp of L0 b); level listings must be contiguous and each compaction must start at previous max+1; level-9 files 1..n must equal image_n; Restore(TXID=n) must equal image_n for every restorable n, before and after. " +
			"distinct = hash(config, layout, op sequence); non-trivial = >=3 derived files verified and >=1 of them spans a commit-size decrease or a full in-chain snapshot, or >=6 derived files verified",
		Assumptions: []string{"ltx.Decoder (framing, LZ4, checksum) trusted; overlay logic independent of ltx.Compactor", "file replica only"},
		Cases:       cases,
		RunCase:     runCase,
		MinEvals:    150,
		CaseTimeout: 10 * time.Minute,
	})
}

func cases(run *vf.Run) ([]json.RawMessage, error) {
	n := 40
	if run.Tier == "thorough" {
		n = 600
	}
	var out []json.RawMessage
	// fixed history: WAL restarted by the application between two litestream syncs, then Snapshot
	out = append(out, vf.Spec(spec{Seed: 624, Levels: 1, Demo: "snapshot-after-unobserved-wal-restart",
		Cfg: hist.Config{PageSize: 4096, MinCheckpointPageN: 1000, TruncatePageN: 0, MaxSyncWALFrames: 0}}))
	// fixed histories: the application checkpoints while litestream is closed, Snapshot right after reopening
	for i, m := range []string{"PASSIVE", "FULL", "PASSIVE", "TRUNCATE"} {
		out = append(out, vf.Spec(spec{Seed: 625 + int64(i), Levels: 1, Demo: "snapshot-after-offline-backfill", DemoMode: m, DemoWriteAfter: i >= 2, DemoNewObject: i%2 == 1,
			Cfg: hist.Config{PageSize: []int{4096, 1024, 8192, 512}[i], MinCheckpointPageN: 1000, TruncatePageN: 0, MaxSyncWALFrames: 0}}))
	}
	for i, m := range []string{"none", "PASSIVE"} {
		out = append(out, vf.Spec(spec{Seed: 635 + int64(i), Levels: 1, Demo: "snapshot-after-offline-backfill", DemoMode: m, DemoNewObject: i == 1, DemoFailFirstSync: true,
			Cfg: hist.Config{PageSize: []int{4096, 1024}[i], MinCheckpointPageN: 1000, TruncatePageN: 0, MaxSyncWALFrames: 0}}))
	}
	for i, m := range []string{"PASSIVE", "TRUNCATE", "RESTART"} {
		out = append(out, vf.Spec(spec{Seed: 655 + int64(i), Levels: 1, Demo: "snapshot-after-request-scoped-checkpoint", DemoMode: m,
			Cfg: hist.Config{PageSize: []int{4096, 1024, 8192}[i], MinCheckpointPageN: 1000, TruncatePageN: 0, MaxSyncWALFrames: 0}}))
	}
	for i := 0; i < 2; i++ {
		out = append(out, vf.Spec(spec{Seed: 665 + int64(i), Levels: 1, Demo: "snapshot-stream-across-close",
			Cfg: hist.Config{PageSize: []int{4096, 1024}[i], MinCheckpointPageN: 1000, TruncatePageN: 0, MaxSyncWALFrames: 0}}))
	}
	for i, kb := range []int{8, 12, 16, 24} {
		out = append(out, vf.Spec(spec{Seed: 645 + int64(i), Levels: 1, Demo: "snapshot-after-offline-backfill", DemoMode: "none", DemoNewObject: i%2 == 1, DemoFailFirstSync: true, DemoLeaveKB: kb,
			Cfg: hist.Config{PageSize: 4096, MinCheckpointPageN: 1000, TruncatePageN: 0, MaxSyncWALFrames: 2}}))
	}
	backlogs := []int{140, 300}
	if run.Tier == "thorough" {
		backlogs = []int{70, 140, 300, 520, 1100}
	}
	for i, b := range backlogs {
		rng := rand.New(rand.NewSource(vf.SubSeed(run.Seed, "C06-backlog", i)))
		cfg := hist.RandomConfig(rng)
		cfg.PageSize = []int{4096, 512, 1024}[i%3]
		cfg.MinCheckpointPageN = 1000
		cfg.TruncatePageN = 0
		cfg.MaxSyncWALFrames = 0
		cfg.MaxSyncLTXFiles = 0
		out = append(out, vf.Spec(spec{Seed: vf.SubSeed(run.Seed, "C06-backlog-case", i), Ops: 6, Levels: 2 + i%2, Cfg: cfg, Backlog: b}))
	}
	for i := 0; i < n; i++ {
		rng := rand.New(rand.NewSource(vf.SubSeed(run.Seed, "C06", i)))
		cfg := hist.RandomConfig(rng)
		cfg.PageSize = []int{4096, 512, 1024, 8192, 65536, 2048, 16384, 32768}[i%8]
		cfg.AutoVacuum = i % 3
		cfg.MaxSyncLTXFiles = 0
		s := spec{Seed: vf.SubSeed(run.Seed, "C06-case", i), Ops: 40 + rng.Intn(40), Levels: 1 + i%8, Cfg: cfg, Store: i%3 == 2, Guard: i%6 == 5}
		out = append(out, vf.Spec(s))
	}
	return out, nil
}

type state struct {
	e        *hist.Env
	res      *vf.Result
	verified map[string]bool
	nDerived int
	nShrink  int
	restored map[int][32]byte
}

func runCase(run *vf.Run, raw json.RawMessage, dir string) *vf.Result {
	var s spec
	res := &vf.Result{}
	if err := json.Unmarshal(raw, &s); err != nil {
		res.HarnessErr = err.Error()
		return res
	}
	rng := rand.New(rand.NewSource(s.Seed))
	e, err := hist.NewEnv(dir, s.Cfg, rng, res)
	if err != nil {
		res.HarnessErr = err.Error()
		return res
	}
	defer e.Close()
	e.Tune = func(db *litestream.DB) { db.L0Retention = 24 * time.Hour }
	if s.DemoFailFirstSync {
		if err := e.MountMeta(64); err != nil {
			res.Count("local_fault_unavailable(mount failed)", 1)
			res.Logf("demo skipped: %v", err)
			return res
		}
	}
	var dmn *hist.Daemon
	var levels litestream.CompactionLevels
	if s.Store {
		levels = litestream.CompactionLevels{{Level: 0}}
		iv := time.Nanosecond
		if s.Guard {
			iv = 24 * time.Hour
		}
		for l := 1; l <= s.Levels; l++ {
			levels = append(levels, &litestream.CompactionLevel{Level: l, Interval: iv})
		}
		dmn, err = e.StartDaemon(levels)
		if err == nil {
			dmn.Store.SetL0Retention(24 * time.Hour)
		}
	} else {
		err = e.StartLS()
	}
	if err != nil {
		res.HarnessErr = "open litestream: " + err.Error()
		return res
	}
	defer func() {
		if dmn != nil {
			ctx, cancel := context.WithTimeout(context.Background(), 30*time.Second)
			_ = dmn.Close(ctx)
			cancel()
		}
	}()
	ctx := context.Background()
	st := &state{e: e, res: res, verified: map[string]bool{}, restored: map[int][32]byte{}}
	herr := func(err error) *vf.Result { res.HarnessErr = err.Error(); return res }
	var ops []string
	upload := func() bool {
		if err := e.LS.SyncAndWait(ctx); err != nil {
			e.Logf("SyncAndWait err=%v", err)
			return false
		}
		if err := e.Arch.Scan(e.RepPath); err != nil {
			res.Violate("l0-file-invalid", "%v", err)
			return false
		}
		return true
	}
	if s.Demo == "snapshot-after-unobserved-wal-restart" {
		// writes + ack; application PASSIVE checkpoint (everything is backfilled, litestream's
		// read mark is at the end of the WAL); application writes (the first one restarts the
		// WAL: new salts, shorter than litestream's old cursor); Snapshot before the next sync.
		for i := 0; i < 6; i++ {
			if _, err := e.AppWriteKind("ins-multi"); err != nil {
				return herr(err)
			}
		}
		if !upload() {
			res.HarnessErr = "demo: initial sync failed"
			return res
		}
		// restart litestream while the WAL is fully checkpointed: its read
		// transaction then starts on the database file alone and no longer keeps
		// the application from restarting the WAL
		cctx, cancel := context.WithTimeout(ctx, 30*time.Second)
		cerr := e.LS.Close(cctx)
		cancel()
		e.AppCheckpoint("PASSIVE")
		if cerr != nil {
			e.Logf("close err=%v", cerr)
		}
		if err := e.StartLS(); err != nil {
			return herr(fmt.Errorf("reopen: %w", err))
		}
		if err := e.LS.Sync(ctx); err != nil { // initialises the object: read lock taken on the fully checkpointed WAL
			e.Logf("sync after reopen err=%v", err)
		}
		if _, err := e.AppWriteKind("ins-multi"); err != nil { // restarts the WAL (2nd generation)
			return herr(err)
		}
		if !upload() {
			res.HarnessErr = "demo: sync after reopen failed"
			return res
		}
		e.AppCheckpoint("PASSIVE")
		for i := 0; i < 2; i++ { // the first one restarts the WAL again (3rd generation), unseen by litestream
			if _, err := e.AppWriteKind("ins-small"); err != nil {
				return herr(err)
			}
		}
		if b, rerr := os.ReadFile(e.DBPath + "-wal"); rerr == nil {
			w := oracle.ParseWAL(b)
			e.Logf("live WAL before snapshot: salts=%08x/%08x frames=%d size=%d", w.Salt1, w.Salt2, w.LastCommit, len(b))
		}
		info, err := e.LS.Snapshot(ctx)
		e.Logf("Snapshot after unobserved WAL restart err=%v info=%+v", err, info)
		if err == nil {
			res.Count("snapshots", 1)
		} else {
			res.Count("snapshot_refused_after_unobserved_wal_restart", 1)
		}
		ops = append(ops, "demo-snapshot-after-unobserved-wal-restart")
		if st.checkAll("demo") {
			return res
		}
		// the refusal must be temporary: after a sync the snapshot is taken
		if upload() {
			if _, err := e.LS.Snapshot(ctx); err != nil {
				res.Evals++
				res.Violate("snapshot-refused-after-sync", "Snapshot still fails after a successful sync: %v", err)
				return res
			}
			if st.checkAll("demo-after-sync") {
				return res
			}
		}
	}
	if s.Demo == "snapshot-after-request-scoped-checkpoint" {
		// a litestream checkpoint issued with a request-scoped context (what a /sync request
		// or a CLI command with a timeout does); the context is cancelled right after the
		// call returned; the application commits and checkpoints PASSIVE; Snapshot before the
		// next sync. The long-running read transaction re-started by that checkpoint must
		// still pin the WAL.
		for i := 0; i < 5; i++ {
			if _, err := e.AppWriteKind("ins-multi"); err != nil {
				return herr(err)
			}
		}
		if !upload() {
			res.HarnessErr = "demo: initial sync failed"
			return res
		}
		cctx, cancel := context.WithCancel(ctx)
		cerr := e.LS.Checkpoint(cctx, s.DemoMode)
		cancel()
		e.Logf("Checkpoint(%s) with a request-scoped context err=%v; context cancelled after the call returned", s.DemoMode, cerr)
		time.Sleep(50 * time.Millisecond) // database/sql reacts to the cancellation asynchronously
		if !upload() {
			res.HarnessErr = "demo: sync after the checkpoint failed"
			return res
		}
		e.ForceTable = 2
		for i := 0; i < 3; i++ {
			if _, err := e.AppWriteKind([]string{"ins-multi", "update", "ins-small"}[i]); err != nil {
				return herr(err)
			}
		}
		e.ForceTable = 0
		e.AppCheckpoint("PASSIVE")
		info, err := e.LS.Snapshot(ctx)
		e.Logf("Snapshot before the next sync err=%v info=%+v", err, info)
		if err == nil {
			res.Count("snapshots", 1)
		}
		ops = append(ops, "demo-snapshot-after-request-scoped-checkpoint")
		if st.checkAll("demo") {
			return res
		}
		if upload() {
			if st.checkAll("demo-after-sync") {
				return res
			}
		}
	}
	if s.Demo == "snapshot-stream-across-close" {
		// a snapshot stream with a slow consumer is in flight when litestream is closed
		// (DisableDB, shutdown); Close waits for the stream; meanwhile the application commits
		// and checkpoints PASSIVE; the rest of the stream is read. The stream must still be the
		// state of its position.
		for i := 0; i < 5; i++ {
			if _, err := e.AppWriteKind("ins-multi"); err != nil {
				return herr(err)
			}
		}
		if !upload() {
			res.HarnessErr = "demo: initial sync failed"
			return res
		}
		if err := e.LS.Checkpoint(ctx, "TRUNCATE"); err != nil {
			e.Logf("demo: checkpoint err=%v", err)
		}
		e.ForceTable = 1
		if _, err := e.AppWriteKind("ins-small"); err != nil {
			return herr(err)
		}
		if !upload() {
			res.HarnessErr = "demo: second sync failed"
			return res
		}
		pos, rc, err := e.LS.SnapshotReader(ctx)
		if err != nil {
			return herr(fmt.Errorf("demo: SnapshotReader: %w", err))
		}
		var buf bytes.Buffer
		if _, err := io.CopyN(&buf, rc, 150); err != nil {
			return herr(fmt.Errorf("demo: read stream head: %w", err))
		}
		done := make(chan error, 1)
		go func() {
			cctx, cancel := context.WithTimeout(ctx, 60*time.Second)
			defer cancel()
			done <- e.LS.Close(cctx)
		}()
		time.Sleep(150 * time.Millisecond) // Close is now waiting for the stream
		e.ForceTable = 2
		for i := 0; i < 3; i++ {
			if _, err := e.AppWriteKind([]string{"ins-multi", "update", "ins-small"}[i]); err != nil {
				return herr(err)
			}
		}
		e.ForceTable = 0
		e.AppCheckpoint("PASSIVE")
		_, rerr := io.Copy(&buf, rc)
		_ = rc.Close()
		cerr := <-done
		e.Logf("snapshot stream at TXID %d read across Close (stream err=%v, Close err=%v)", pos.TXID, rerr, cerr)
		if rerr == nil {
			res.Evals++
			lf, derr := oracle.DecodeLTXReader(&buf)
			if derr != nil {
				res.Violate("snapshot-stream-invalid", "demo: snapshot stream read across Close does not decode/verify: %v", derr)
				return res
			}
			if err := e.Arch.Scan(e.RepPath); err != nil {
				res.Violate("l0-file-invalid", "%v", err)
				return res
			}
			want, _, werr := e.Arch.Compose(1, int(pos.TXID))
			if werr != nil {
				return herr(werr)
			}
			if perr := oracle.EqualPages(lf, want); perr != nil {
				res.Violate("snapshot-pages", "demo: the snapshot stream of position %d, read across a concurrent Close, differs from applying level-0 files 1..%d: %v", pos.TXID, pos.TXID, perr)
				return res
			}
			res.Count("snapshot_streams_read_across_close", 1)
		}
		if err := e.StartLS(); err != nil {
			return herr(fmt.Errorf("reopen: %w", err))
		}
		ops = append(ops, "demo-snapshot-stream-across-close")
		if upload() {
			if st.checkAll("demo-after-reopen") {
				return res
			}
		}
	}
	if s.Demo == "snapshot-after-offline-backfill" {
		// writes + ack; litestream closed; the application commits and runs a PASSIVE
		// checkpoint (nobody pins the WAL: every frame is backfilled into the database file,
		// the WAL is neither restarted nor truncated); litestream reopened; Snapshot before
		// the first sync of the new session
		for i := 0; i < 6; i++ {
			if _, err := e.AppWriteKind("ins-multi"); err != nil {
				return herr(err)
			}
		}
		if !upload() {
			res.HarnessErr = "demo: initial sync failed"
			return res
		}
		if s.DemoFailFirstSync {
			// everything so far is checkpointed into the database file; the live WAL then
			// only ever holds pages of table t0 (and the ledger), so that pages of t1/t2
			// changed while litestream is closed exist in the database file alone
			if err := e.LS.Checkpoint(ctx, "TRUNCATE"); err != nil {
				e.Logf("demo: checkpoint err=%v", err)
			}
			e.ForceTable = 1
			for i := 0; i < 2; i++ {
				if _, err := e.AppWriteKind("ins-small"); err != nil {
					return herr(err)
				}
			}
			if !upload() {
				res.HarnessErr = "demo: second sync failed"
				return res
			}
		}
		cctx, cancel := context.WithTimeout(ctx, 30*time.Second)
		cerr := e.LS.Close(cctx)
		cancel()
		if cerr != nil {
			e.Logf("close err=%v", cerr)
		}
		for i := 0; i < 3; i++ {
			if s.DemoFailFirstSync {
				e.ForceTable = 2 + i%2 // t1, t2
			}
			if _, err := e.AppWriteKind([]string{"ins-multi", "update", "ins-small"}[i]); err != nil {
				return herr(err)
			}
		}
		e.ForceTable = 0
		if s.DemoMode != "none" {
			e.AppCheckpoint(s.DemoMode)
		}
		if s.DemoWriteAfter {
			if _, err := e.AppWriteKind("ins-small"); err != nil {
				return herr(err)
			}
		}
		if s.DemoNewObject {
			err = e.StartLS()
		} else {
			err = e.LS.Open()
		}
		if err != nil {
			return herr(fmt.Errorf("reopen: %w", err))
		}
		if s.DemoFailFirstSync {
			// the first sync of the new session initialises litestream (its read transaction
			// now pins the WAL at the current end) but cannot stage its LTX file: disk full.
			// The application's next PASSIVE checkpoint may then backfill every frame up to
			// that read mark, i.e. frames litestream has not copied yet.
			if s.DemoLeaveKB > 0 {
				// room for the first chunk(s) of a chunked catch-up only
				if err := e.MetaNearlyFull(int64(s.DemoLeaveKB) << 10); err != nil {
					return herr(err)
				}
			} else if err := e.MetaFull(true); err != nil {
				return herr(err)
			}
			serr := e.LS.Sync(ctx)
			if p, perr := e.LS.Pos(); perr == nil {
				e.Logf("position after the failing catch-up: TXID %d", p.TXID)
			}
			e.Logf("first sync after reopen with the meta file system full: err=%v", serr)
			if err := e.MetaFull(false); err != nil {
				return herr(err)
			}
			e.AppCheckpoint("PASSIVE")
		}
		if s.DemoFailFirstSync {
			// upload whatever level-0 files the partial catch-up produced, so that a snapshot
			// published at that position can be compared with the level-0 image
			if err := e.LS.Replica.Sync(ctx); err != nil {
				e.Logf("Replica.Sync before the snapshot err=%v", err)
			}
		}
		info, err := e.LS.Snapshot(ctx)
		e.Logf("Snapshot right after reopen (application checkpointed %s while litestream was closed) err=%v info=%+v", s.DemoMode, err, info)
		if err == nil {
			res.Count("snapshots", 1)
		} else {
			res.Count("snapshot_refused_after_offline_backfill", 1)
		}
		ops = append(ops, "demo-snapshot-after-offline-backfill")
		if st.checkAll("demo") {
			return res
		}
		if upload() {
			if _, err := e.LS.Snapshot(ctx); err != nil {
				res.Evals++
				res.Violate("snapshot-refused-after-sync", "Snapshot still fails after a successful sync: %v", err)
				return res
			}
			if st.checkAll("demo-after-sync") {
				return res
			}
		}
	}
	if s.Backlog > 0 {
		for i := 0; i < s.Backlog; i++ {
			if _, err := e.AppWriteKind([]string{"ins-small", "update", "ins-small", "delete-half"}[rng.Intn(4)]); err != nil {
				return herr(err)
			}
			if err := e.LS.Sync(ctx); err != nil {
				e.Logf("backlog sync err=%v", err)
			}
		}
		ops = append(ops, fmt.Sprintf("backlog%d", s.Backlog))
		if upload() {
			res.Count("backlog_level0_files", len(oracle.ListLevel(e.RepPath, 0)))
			for lvl := 1; lvl <= s.Levels; lvl++ {
				_, err := e.LS.Compact(ctx, lvl)
				e.Logf("backlog compact level %d err=%v", lvl, err)
			}
			if st.checkAll("backlog") {
				return res
			}
		}
	}
	for i := 0; i < s.Ops; i++ {
		r := rng.Intn(24)
		var op string
		switch {
		case r < 8:
			op = "write"
			if _, err := e.AppWrite(); err != nil {
				return herr(err)
			}
		case r < 9:
			op = "shrink"
			if _, err := e.AppWriteKind("delete-all"); err != nil {
				return herr(err)
			}
			e.Maint()
		case r < 10:
			op = "grow"
			for k := 0; k < 2; k++ {
				if _, err := e.AppWriteKind("ins-big"); err != nil {
					return herr(err)
				}
			}
		case r < 13:
			op = "sync"
			upload()
		case r < 14:
			op = "ckpt"
			_ = e.LS.Checkpoint(ctx, hist.CheckpointModes[rng.Intn(4)])
		case r < 15 && s.Store:
			// process restart: a fresh Store/DB object finds the populated levels on the
			// replica; the first sync sets the replica position, later compactions must
			// continue where each level ended
			op = "restart-daemon"
			upload()
			cctx, cancel := context.WithTimeout(ctx, 30*time.Second)
			cerr := dmn.Close(cctx)
			cancel()
			if cerr != nil {
				e.Logf("daemon close err=%v", cerr)
			}
			dmn, err = e.StartDaemon(levels)
			if err != nil {
				return herr(fmt.Errorf("restart daemon: %w", err))
			}
			dmn.Store.SetL0Retention(24 * time.Hour)
			res.Count("daemon_restarts", 1)
			if _, err := e.AppWriteKind("ins-small"); err != nil {
				return herr(err)
			}
			upload()
		case r < 15 && !s.Store && rng.Intn(2) == 0:
			op = "restart"
			upload()
			cctx, cancel := context.WithTimeout(ctx, 30*time.Second)
			cerr := e.LS.Close(cctx)
			cancel()
			if cerr != nil {
				e.Logf("close err=%v", cerr)
			}
			if err := e.StartLS(); err != nil {
				return herr(fmt.Errorf("reopen: %w", err))
			}
			res.Count("plain_restarts", 1)
			if _, err := e.AppWriteKind("ins-small"); err != nil {
				return herr(err)
			}
			upload()
		case r < 15 && !s.Store:
			op = "benign-snapshot-in-chain"
			// application TRUNCATE checkpoint while litestream is closed; nothing unreplicated is lost
			if !upload() {
				break
			}
			cctx, cancel := context.WithTimeout(ctx, 30*time.Second)
			cerr := e.LS.Close(cctx)
			cancel()
			if cerr != nil {
				e.Logf("close err=%v", cerr)
			}
			e.AppCheckpoint("TRUNCATE")
			if _, err := e.AppWriteKind("ins-small"); err != nil {
				return herr(err)
			}
			if err := e.StartLS(); err != nil {
				return herr(fmt.Errorf("reopen: %w", err))
			}
			res.Count("benign_restart_with_app_truncate", 1)
		case r < 17:
			op = "snapshot"
			if rng.Intn(3) == 0 && !s.Store {
				// snapshot without a preceding WAL sync: only pending level-0 files are
				// uploaded, so application activity since the last sync (including an
				// application checkpoint that lets the next write restart the WAL) is
				// not yet reflected in litestream's position
				op = "snapshot-nosync"
				if err := e.LS.Replica.Sync(ctx); err != nil {
					break
				}
				if err := e.Arch.Scan(e.RepPath); err != nil {
					res.Violate("l0-file-invalid", "%v", err)
					return res
				}
			} else if !upload() {
				break
			}
			var err error
			if s.Store {
				_, err = dmn.Store.CompactDB(ctx, e.LS, dmn.Store.SnapshotLevel())
			} else {
				_, err = e.LS.Snapshot(ctx)
			}
			e.Logf("snapshot err=%v", err)
			if err == nil {
				res.Count("snapshots", 1)
			}
			if st.checkAll(fmt.Sprintf("op%d-snapshot", i)) {
				return res
			}
		default:
			lvl := 1 + rng.Intn(s.Levels)
			op = fmt.Sprintf("compact%d", lvl)
			if !upload() {
				break
			}
			var err error
			if s.Store {
				var cl *litestream.CompactionLevel
				cl, err = levels.Level(lvl)
				if err == nil {
					_, err = dmn.Store.CompactDB(ctx, e.LS, cl)
				}
				if errors.Is(err, litestream.ErrCompactionTooEarly) {
					res.Count("compaction_too_early_guard", 1)
				}
			} else {
				_, err = e.LS.Compact(ctx, lvl)
			}
			e.Logf("compact level %d err=%v", lvl, err)
			if err == nil {
				res.Count(fmt.Sprintf("compactions_level_%d", lvl), 1)
			}
			if st.checkAll(fmt.Sprintf("op%d-compact%d", i, lvl)) {
				return res
			}
		}
		if op != "" {
			ops = append(ops, op)
		}
	}
	// final: compact every level bottom-up, then check again
	if upload() {
		for lvl := 1; lvl <= s.Levels; lvl++ {
			if s.Store && s.Guard {
				break
			}
			_, err := e.LS.Compact(ctx, lvl)
			e.Logf("final compact level %d err=%v", lvl, err)
		}
		if st.checkAll("final") {
			return res
		}
	}
	res.Sig = fmt.Sprintf("%x", sha256.Sum256([]byte(fmt.Sprint(s.Cfg, s.Levels, s.Store, s.Guard)+strings.Join(ops, ","))))[:16]
	res.Nontrivial = (st.nDerived >= 3 && st.nShrink >= 1) || st.nDerived >= 6
	res.Sample = map[string]any{"cfg": s.Cfg.String(), "levels": s.Levels, "store": s.Store, "guard": s.Guard, "ops": strings.Join(ops, " "), "derived_files_verified": st.nDerived, "spanning_shrink": st.nShrink}
	return res
}

// checkAll applies the C06 oracles to the current replica. Returns true on violation.
func (st *state) checkAll(tag string) bool {
	e, res := st.e, st.res
	if err := e.Arch.Scan(e.RepPath); err != nil {
		res.Violate("l0-file-invalid", "%s: %v", tag, err)
		return true
	}
	for level := 1; level <= 9; level++ {
		files := oracle.ListLevel(e.RepPath, level)
		for i, fi := range files {
			if level != 9 && i > 0 {
				res.Evals++
				if files[i-1].Max+1 != fi.Min {
					res.Violate("level-not-contiguous", "%s: level %d is not contiguous/non-overlapping: %s then %s", tag, level, files[i-1], fi)
					return true
				}
			}
			if level != 9 && i == 0 {
				res.Evals++
				if fi.Min != 1 {
					// the first compaction of a level starts at TXID 1 (nothing retained away in these histories)
					res.Violate("level-does-not-start-at-1", "%s: first file of level %d is %s", tag, level, fi)
					return true
				}
			}
			if st.verified[fi.Path] {
				continue
			}
			lf, err := oracle.DecodeLTX(fi.Path)
			res.Evals++
			if err != nil {
				res.Violate("derived-file-invalid", "%s: %s does not decode/verify: %v", tag, fi, err)
				return true
			}
			if int(lf.Hdr.MinTXID) != fi.Min || int(lf.Hdr.MaxTXID) != fi.Max {
				res.Violate("derived-file-header-mismatch", "%s: %s header says %d-%d", tag, fi, lf.Hdr.MinTXID, lf.Hdr.MaxTXID)
				return true
			}
			if level == 9 && fi.Min != 1 {
				res.Violate("snapshot-min-not-1", "%s: snapshot %s", tag, fi)
				return true
			}
			want, last, err := e.Arch.Compose(fi.Min, fi.Max)
			if err != nil {
				res.Violate("derived-file-without-l0", "%s: %s: %v", tag, fi, err)
				return true
			}
			if lf.Hdr.Commit != last.Commit {
				res.Violate("derived-file-commit", "%s: %s has Commit %d, applying level-0 files %d..%d gives %d", tag, fi, lf.Hdr.Commit, fi.Min, fi.Max, last.Commit)
				return true
			}
			if level != 9 && lf.Hdr.Timestamp != last.Timestamp {
				res.Violate("derived-file-timestamp", "%s: %s carries timestamp %d, its newest input (L0 %d) has %d", tag, fi, lf.Hdr.Timestamp, fi.Max, last.Timestamp)
				return true
			}
			if err := oracle.EqualPages(lf, want); err != nil {
				key := "derived-file-pages"
				if level == 9 {
					key = "snapshot-pages"
				}
				res.Violate(key, "%s: %s differs from applying level-0 files %d..%d in order: %v", tag, fi, fi.Min, fi.Max, err)
				return true
			}
			st.verified[fi.Path] = true
			st.nDerived++
			res.Count(fmt.Sprintf("derived_files_verified_level_%d", level), 1)
			// does the range span a size decrease or a full snapshot?
			prev := uint32(0)
			for n := fi.Min; n <= fi.Max; n++ {
				h := e.Arch.Files[n].Hdr
				if (prev != 0 && h.Commit < prev) || (n > fi.Min && uint32(len(e.Arch.Files[n].Pages)) >= h.Commit-1 && h.Commit > 3) {
					st.nShrink++
					res.Count("derived_files_spanning_shrink_or_full_snapshot", 1)
					break
				}
				prev = h.Commit
			}
		}
	}
	// Restore(TXID=n) == image_n for every restorable n, whichever mix of levels the plan uses
	rr := e.ReadReplica()
	max := e.Arch.Max()
	step := 1
	if max > 40 {
		step = max / 40
	}
	for n := 1; n <= max; n += step {
		opt := litestream.NewRestoreOptions()
		opt.TXID = hist.TXID(n)
		got, err := hist.RestoreBytes(e.Ctx, rr, e.Dir, opt)
		res.Evals++
		res.Count("txid_restores_compared", 1)
		if err != nil {
			res.Violate("txid-restore-failed", "%s: Restore(TXID=%d) fails although level-0 files 1..%d are all present: %v", tag, n, n, err)
			return true
		}
		want, err := e.Arch.Image(n)
		if err != nil {
			res.Violate("l0-image-incomplete", "%s: %v", tag, err)
			return true
		}
		if !bytes.Equal(got, want) {
			if err := oracle.CompareHeaderMasked(want, got, nil); err != nil {
				res.Violate("restore-differs-from-l0-image", "%s: Restore(TXID=%d) differs from applying level-0 files 1..%d: %v", tag, n, n, err)
				return true
			}
		}
		h := sha256.Sum256(got)
		if old, ok := st.restored[n]; ok && old != h {
			res.Violate("restore-changed-after-compaction", "%s: Restore(TXID=%d) returned different bytes than before this compaction/snapshot", tag, n)
			return true
		}
		st.restored[n] = h
	}
	return false
}
