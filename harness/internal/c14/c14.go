// Package c14: litestream never alters the application's data in the source
// database (DESIGN §4 C14). Differential replay: one deterministic application
// history runs twice, without litestream (control) and with litestream
// operations inserted at PRNG-chosen points (treatment); afterwards everything
// the application can read must be identical.
package c14

import (
	"context"
	"crypto/sha256"
	"database/sql"
	"encoding/json"
	"fmt"
	"log/slog"
	"math/rand"
	"os"
	"path/filepath"
	"sort"
	"strings"
	"time"

	"github.com/benbjohnson/litestream"
	"github.com/benbjohnson/litestream/file"

	"verif/harness/internal/hist"
	"verif/harness/internal/sq"
	"verif/harness/internal/vf"
)

type spec struct {
	Seed    int64       `json:"seed"`    // application history
	LSSeed  int64       `json:"ls_seed"` // litestream operation placement (treatment only)
	Items   int         `json:"items"`
	Density int         `json:"density"` // a litestream op is inserted after an application step with probability Density/10
	Cfg     hist.Config `json:"cfg"`
	// DiskFull: the litestream meta directory (local LTX staging area) lives on its own
	// small tmpfs and about one litestream operation in five runs while that file system
	// is full (every write litestream issues there fails with ENOSPC)
	DiskFull bool `json:"disk_full,omitempty"`
	// Kind "locks": cross-process scenario (litestream in a process of its own), see locks.go
	// StartDelete: the application created its database in rollback-journal mode (DELETE);
	// litestream switches it to WAL when it first opens it, and it must stay in WAL mode
	StartDelete bool   `json:"start_delete,omitempty"`
	Kind        string `json:"kind,omitempty"`
	LockVariant int    `json:"lock_variant,omitempty"`
}

func init() {
	vf.Register(&vf.Check{
		ID:    "C14",
		Level: "exploration",
		Rule: "paired replays of one generated deterministic application history (literal blobs, no random()/time in SQL): multi-statement transactions committed or rolled back (cache_size=4, so open transactions spill frames), autocommit INSERT/UPDATE/DELETE, DDL (create/drop table and index, add column), VACUUM, incremental_vacuum, PRAGMA user_version / application_id, application checkpoints in 4 modes, a second connection holding a long read transaction, disconnect/reconnect of every application connection. " +
			"control = no litestream; treatment = litestream open on the database with DB.Sync / SyncAndWait / Checkpoint(4 modes) / Snapshot / Compact(1,2) / Close+Open (same object) / Close+new DB object inserted by a separate PRNG after application steps, also inside open application transactions and while the application is disconnected; inside an open application write transaction one Sync / Snapshot / Checkpoint in three is started in a goroutine of its own and joined only after the application has ended that transaction (the call meets the held write lock and is in flight across the commit), x configuration lattice (page size, auto_vacuum, checkpoint thresholds, sync chunking). " +
			"Oracle after the history (on a recovered copy of db+wal): logical dump (schema text + rows in rowid order of every non-_litestream_ object) equal; sqlite_master of the treatment = control + a subset of {_litestream_seq, _litestream_lock}; _litestream_lock empty; integrity_check ok; journal_mode wal; user_version and application_id equal; everything the application read during the history (rows affected, long-reader aggregates) equal. At every quiescent point of the treatment: _litestream_lock empty and the database header still says WAL. " +
			"distinct = hash(config, application history, litestream op sequence); non-trivial = >=5 application commits, >=1 litestream op inside an open application transaction, >=1 litestream-driven checkpoint completed",
		Assumptions: []string{"file replica client only", "modernc SQLite executes the application and the reference dumps", "an application statement that meets SQLITE_BUSY is retried until it succeeds (the two runs must commit the same transactions); results of explicit application checkpoints are not compared"},
		Cases:       cases,
		RunCase:     runCase,
		MinEvals:    300,
		CaseTimeout: 10 * time.Minute,
	})
}

func cases(run *vf.Run) ([]json.RawMessage, error) {
	n := 24
	if run.Tier == "thorough" {
		n = 400
	}
	var out []json.RawMessage
	for i := 0; i < n; i++ {
		rng := rand.New(rand.NewSource(vf.SubSeed(run.Seed, "C14", i)))
		cfg := hist.RandomConfig(rng)
		cfg.PageSize = hist.PageSizes[i%len(hist.PageSizes)]
		cfg.AutoVacuum = (i / len(hist.PageSizes)) % 3
		if i%3 == 0 { // make litestream-driven checkpoints frequent in a third of the cases
			cfg.MinCheckpointPageN = 1 + rng.Intn(5)
		}
		out = append(out, vf.Spec(spec{
			Seed:    vf.SubSeed(run.Seed, "C14-app", i),
			LSSeed:  vf.SubSeed(run.Seed, "C14-ls", i),
			Items:   45 + rng.Intn(30),
			Density: 2 + rng.Intn(4),
			Cfg:     cfg,
		}))
	}
	// local disk-full episodes (appended so that the cases above keep their indices)
	nf := 12
	if run.Tier == "thorough" {
		nf = 200
	}
	for i := 0; i < nf; i++ {
		rng := rand.New(rand.NewSource(vf.SubSeed(run.Seed, "C14F", i)))
		cfg := hist.RandomConfig(rng)
		cfg.PageSize = hist.PageSizes[(i+2)%len(hist.PageSizes)]
		cfg.AutoVacuum = i % 3
		if i%2 == 0 {
			cfg.MinCheckpointPageN = 1 + rng.Intn(5)
		}
		out = append(out, vf.Spec(spec{
			Seed:     vf.SubSeed(run.Seed, "C14F-app", i),
			LSSeed:   vf.SubSeed(run.Seed, "C14F-ls", i),
			Items:    45 + rng.Intn(30),
			Density:  4 + rng.Intn(3),
			Cfg:      cfg,
			DiskFull: true,
		}))
	}
	// databases the application created in rollback-journal mode
	nd := 6
	if run.Tier == "thorough" {
		nd = 60
	}
	for i := 0; i < nd; i++ {
		rng := rand.New(rand.NewSource(vf.SubSeed(run.Seed, "C14D", i)))
		cfg := hist.RandomConfig(rng)
		cfg.PageSize = hist.PageSizes[(i+4)%len(hist.PageSizes)]
		cfg.AutoVacuum = i % 3
		out = append(out, vf.Spec(spec{
			Seed:        vf.SubSeed(run.Seed, "C14D-app", i),
			LSSeed:      vf.SubSeed(run.Seed, "C14D-ls", i),
			Items:       40 + rng.Intn(25),
			Density:     3 + rng.Intn(3),
			Cfg:         cfg,
			StartDelete: true,
		}))
	}
	nl := 2
	if run.Tier == "thorough" {
		nl = 6
	}
	for i := 0; i < nl; i++ {
		out = append(out, vf.Spec(spec{Kind: "locks", LockVariant: i, Seed: vf.SubSeed(run.Seed, "C14-locks", i)}))
	}
	return out, nil
}

// ---------------------------------------------------------------------------
// the application history

type step struct {
	Kind string // exec | ckpt | disconnect | connect | rbegin | rcheck | rend
	SQL  string
	// bookkeeping for the generator / evidence
	OpensTx, ClosesTx, Commit bool
}

func genHistory(seed int64, items int) []step {
	rng := rand.New(rand.NewSource(seed))
	blob := func(n int) string {
		b := make([]byte, n)
		rng.Read(b)
		return fmt.Sprintf("x'%x'", b)
	}
	size := func() int { return []int{12, 200, 1500, 5000, 20000}[rng.Intn(5)] }
	var h []step
	ex := func(q string) { h = append(h, step{Kind: "exec", SQL: q}) }
	ex(`PRAGMA cache_size=4`)
	ex(`CREATE TABLE a(id INTEGER PRIMARY KEY, v BLOB, w TEXT)`)
	ex(`CREATE TABLE b(id INTEGER PRIMARY KEY, v BLOB, n INTEGER)`)
	reader := false
	extra := 0
	for i := 0; i < items; i++ {
		switch r := rng.Intn(22); {
		case r < 7: // multi-statement transaction; the first statement after BEGIN is a write
			h = append(h, step{Kind: "exec", SQL: "BEGIN", OpensTx: true})
			n := 1 + rng.Intn(5)
			for j := 0; j < n; j++ {
				switch rng.Intn(4) {
				case 0, 1:
					ex(fmt.Sprintf(`INSERT INTO a(v,w) VALUES(%s,'t%d')`, blob(size()), i))
				case 2:
					ex(fmt.Sprintf(`INSERT INTO b(v,n) VALUES(%s,%d)`, blob(size()), rng.Intn(1000)))
				case 3:
					ex(fmt.Sprintf(`UPDATE b SET n=n+%d WHERE id%%%d=0`, 1+rng.Intn(9), 2+rng.Intn(3)))
				}
			}
			if rng.Intn(5) == 0 {
				h = append(h, step{Kind: "exec", SQL: "ROLLBACK", ClosesTx: true})
			} else {
				h = append(h, step{Kind: "exec", SQL: "COMMIT", ClosesTx: true, Commit: true})
			}
		case r < 10:
			h = append(h, step{Kind: "exec", SQL: fmt.Sprintf(`INSERT INTO %s(v) VALUES(%s)`, []string{"a", "b"}[rng.Intn(2)], blob(size())), Commit: true})
		case r < 12:
			h = append(h, step{Kind: "exec", SQL: fmt.Sprintf(`UPDATE a SET w='u%d' WHERE id%%%d=%d`, rng.Intn(1000), 2+rng.Intn(4), rng.Intn(2)), Commit: true})
		case r < 14:
			h = append(h, step{Kind: "exec", SQL: fmt.Sprintf(`DELETE FROM %s WHERE id%%%d=1`, []string{"a", "b"}[rng.Intn(2)], 2+rng.Intn(3)), Commit: true})
		case r < 15:
			h = append(h, step{Kind: "exec", SQL: `VACUUM`, Commit: true})
		case r < 16:
			ex(fmt.Sprintf(`PRAGMA incremental_vacuum(%d)`, rng.Intn(6)))
		case r < 18:
			extra++
			switch rng.Intn(5) {
			case 0:
				h = append(h, step{Kind: "exec", SQL: fmt.Sprintf(`CREATE TABLE IF NOT EXISTS c%d(x, y DEFAULT %d)`, extra%3, extra), Commit: true})
				h = append(h, step{Kind: "exec", SQL: fmt.Sprintf(`INSERT INTO c%d(x) VALUES(%s)`, extra%3, blob(40)), Commit: true})
			case 1:
				h = append(h, step{Kind: "exec", SQL: fmt.Sprintf(`CREATE INDEX IF NOT EXISTS ia%d ON a(w)`, extra%2), Commit: true})
			case 2:
				h = append(h, step{Kind: "exec", SQL: fmt.Sprintf(`DROP INDEX IF EXISTS ia%d`, extra%2), Commit: true})
			case 3:
				h = append(h, step{Kind: "exec", SQL: fmt.Sprintf(`DROP TABLE IF EXISTS c%d`, extra%3), Commit: true})
			case 4:
				h = append(h, step{Kind: "exec", SQL: fmt.Sprintf(`ALTER TABLE b ADD COLUMN e%d DEFAULT 'd%d'`, extra, extra), Commit: true})
			}
		case r < 19:
			if rng.Intn(2) == 0 {
				h = append(h, step{Kind: "exec", SQL: fmt.Sprintf(`PRAGMA user_version=%d`, 1+rng.Intn(100000)), Commit: true})
			} else {
				h = append(h, step{Kind: "exec", SQL: fmt.Sprintf(`PRAGMA application_id=%d`, 1+rng.Intn(100000)), Commit: true})
			}
		case r < 20:
			h = append(h, step{Kind: "ckpt", SQL: hist.CheckpointModes[rng.Intn(4)]})
		case r < 21:
			switch {
			case !reader:
				h = append(h, step{Kind: "rbegin"})
				reader = true
			case rng.Intn(2) == 0:
				h = append(h, step{Kind: "rcheck"})
			default:
				h = append(h, step{Kind: "rcheck"}, step{Kind: "rend"})
				reader = false
			}
		default:
			if reader {
				h = append(h, step{Kind: "rcheck"}, step{Kind: "rend"})
				reader = false
			}
			h = append(h, step{Kind: "disconnect"}, step{Kind: "connect"}, step{Kind: "exec", SQL: `PRAGMA cache_size=4`})
		}
	}
	if reader {
		h = append(h, step{Kind: "rcheck"}, step{Kind: "rend"})
	}
	return h
}

// ---------------------------------------------------------------------------
// one replay

type world struct {
	dir, path string
	cfg       hist.Config
	res       *vf.Result
	treatment bool

	w   *sql.DB // application connection (1 pooled connection)
	r   *sql.DB // second application connection (long reader)
	rtx *sql.Tx

	trace []string // everything the application read

	ls       *litestream.DB
	meta     string // meta directory on its own tmpfs ("" = no disk-full episodes)
	hdrF     *os.File
	startDelete, everInit bool
	logs     *hist.LogCapture
	lsRng    *rand.Rand
	lsOps    []string
	inTx     bool
	nInTx    int // litestream ops executed inside an open application transaction
	nOffline int // litestream ops executed while the application had no connection
	commits  int
	busyRetr int
	reported map[string]bool // quiescent-point violations already raised (one per key and case)
	// pending: a litestream call started while an application write transaction was open and
	// still in flight while the application goes on (and commits); joined once the transaction ended
	pending  *pendingOp
	nOverlap int
}

type pendingOp struct {
	name string
	done chan error
}

// startOverlap starts one litestream call that needs SQLite's write lock in a goroutine of its
// own: it meets the application's open write transaction and is still running when that commits.
func (w *world) startOverlap(ctx context.Context) {
	p := &pendingOp{done: make(chan error, 1)}
	ls := w.ls
	switch r := w.lsRng.Intn(4); {
	case r == 0:
		p.name = "Sync"
		go func() { p.done <- ls.Sync(ctx) }()
	case r == 1:
		p.name = "Snapshot"
		go func() { _, err := ls.Snapshot(ctx); p.done <- err }()
	default:
		mode := hist.CheckpointModes[w.lsRng.Intn(4)]
		p.name = "Checkpoint-" + mode
		go func() { p.done <- ls.Checkpoint(ctx, mode) }()
	}
	w.pending = p
	w.logf("  litestream %s started concurrently with the open application transaction", p.name)
}

func (w *world) joinPending() {
	p := w.pending
	if p == nil {
		return
	}
	w.pending = nil
	var err error
	select {
	case err = <-p.done:
	case <-time.After(2 * time.Minute):
		w.res.HarnessErr = "litestream " + p.name + " started inside an application transaction did not return within 2 minutes"
		return
	}
	w.nOverlap++
	name := p.name + "(overlapping)"
	w.logf("  litestream %s returned err=%v", name, err)
	w.lsOps = append(w.lsOps, name)
	if err == nil {
		w.res.Count("ls_ok_"+name, 1)
	} else {
		w.res.Count("ls_failed_"+name, 1)
	}
	w.quiescent(name)
}

func (w *world) violateOnce(key, format string, a ...any) {
	if w.reported == nil {
		w.reported = map[string]bool{}
	}
	if w.reported[key] {
		return
	}
	w.reported[key] = true
	w.res.Violate(key, format, a...)
}

func (w *world) logf(format string, a ...any) {
	tag := "control  "
	if w.treatment {
		tag = "treatment"
	}
	w.res.Logf(tag+" "+format, a...)
}

var errBlocked = fmt.Errorf("application blocked")

func isBusy(err error) bool {
	if err == nil {
		return false
	}
	s := err.Error()
	return strings.Contains(s, "SQLITE_BUSY") || strings.Contains(s, "database is locked") || strings.Contains(s, "SQLITE_LOCKED")
}

func (w *world) newLS() *litestream.DB {
	db := litestream.NewDB(w.path)
	db.MonitorInterval = 0
	db.ShutdownSyncTimeout = 0
	db.BusyTimeout = 20 * time.Millisecond
	db.Logger = slog.New(w.logs)
	c := w.cfg
	db.MinCheckpointPageN = c.MinCheckpointPageN
	db.TruncatePageN = c.TruncatePageN
	db.CheckpointInterval = time.Duration(c.CheckpointInterval)
	switch {
	case c.MaxSyncWALFrames > 0:
		db.MaxSyncWALBytes = int64(c.MaxSyncWALFrames) * int64(c.PageSize+24)
	case c.MaxSyncWALFrames == 0:
		db.MaxSyncWALBytes = 0
	default:
		db.MaxSyncWALBytes = 64 << 20
	}
	fc := file.NewReplicaClient(filepath.Join(w.dir, "rep"))
	db.Replica = litestream.NewReplicaWithClient(db, fc)
	db.Replica.MonitorEnabled = false
	db.Replica.MaxSyncLTXFiles = c.MaxSyncLTXFiles
	fc.Replica = db.Replica
	return db
}

// quiescent runs the per-quiescent-point oracle of the treatment: the lock
// table is empty and the database header still announces WAL mode.
func (w *world) quiescent(after string) {
	// header bytes 18/19 (file format write/read version): 2 = WAL
	// The header is read through ONE descriptor that stays open for the whole replay:
	// closing any descriptor on the database file inside this process would drop the
	// POSIX locks SQLite (application and litestream connections) holds on it.
	if w.hdrF == nil {
		w.hdrF, _ = os.Open(w.path)
	}
	if w.ls != nil && w.ls.SQLDB() != nil {
		w.everInit = true
	}
	// a database created in rollback-journal mode announces WAL only once litestream has opened it
	if f := w.hdrF; f != nil && (!w.startDelete || w.everInit) {
		hdr := make([]byte, 100)
		_, rerr := f.ReadAt(hdr, 0)
		if rerr == nil {
			w.res.Evals++
			if hdr[18] != 2 || hdr[19] != 2 {
				w.violateOnce("journal-mode-changed", "after litestream %s the source database header no longer announces WAL mode (write/read version %d/%d) [%s]", after, hdr[18], hdr[19], w.cfg)
			}
		}
	}
	p, err := sql.Open("sqlite", "file:"+w.path+"?mode=ro&_pragma=busy_timeout(50)")
	if err != nil {
		return
	}
	defer p.Close()
	p.SetMaxOpenConns(1)
	var n int
	err = p.QueryRow(`SELECT count(*) FROM _litestream_lock`).Scan(&n)
	if err != nil {
		w.res.Count("lock_probe_skipped", 1) // table not created yet, or no wal/shm for a read-only connection
		return
	}
	w.res.Evals++
	w.res.Count("lock_probes", 1)
	if n != 0 {
		w.violateOnce("lock-table-not-empty", "after litestream %s the bookkeeping table _litestream_lock holds %d committed row(s) [%s]", after, n, w.cfg)
	}
}

// lsOp runs one PRNG-chosen litestream operation (treatment only).
func (w *world) lsOp(ctx context.Context) {
	rng := w.lsRng
	var name string
	var err error
	full := false
	if w.meta != "" && rng.Intn(5) == 0 {
		if ferr := hist.FillFS(w.meta); ferr != nil {
			w.res.HarnessErr = "fill meta fs: " + ferr.Error()
			return
		}
		full = true
		w.res.Count("diskfull_episodes", 1)
		defer func() {
			if ferr := hist.FreeFS(w.meta); ferr != nil && w.res.HarnessErr == "" {
				w.res.HarnessErr = "free meta fs: " + ferr.Error()
			}
		}()
	}
	defer func() {
		if full && err != nil {
			w.res.Count("ls_failed_while_disk_full", 1)
		}
	}()
	r := rng.Intn(20)
	if w.startDelete && r >= 18 {
		r = 16 // keep the DB object that found the database in rollback-journal mode (Close+Open, same object)
	}
	if full && r >= 16 {
		r %= 16 // no Close/Open while the disk is full: a failing Open is legitimate there
	}
	switch {
	case r < 5:
		name = "Sync"
		err = w.ls.Sync(ctx)
	case r < 8:
		name = "SyncAndWait"
		err = w.ls.SyncAndWait(ctx)
	case r < 12:
		mode := hist.CheckpointModes[rng.Intn(4)]
		name = "Checkpoint-" + mode
		err = w.ls.Checkpoint(ctx, mode)
	case r < 14:
		name = "Snapshot"
		_, err = w.ls.Snapshot(ctx)
	case r < 16:
		lvl := 1 + rng.Intn(2)
		name = fmt.Sprintf("Compact%d", lvl)
		_, err = w.ls.Compact(ctx, lvl)
		if err == litestream.ErrNoCompaction {
			err = nil
		}
	case r < 18:
		name = "Close+Open"
		cctx, cancel := context.WithTimeout(ctx, 30*time.Second)
		err = w.ls.Close(cctx)
		cancel()
		w.quiescent("Close")
		if oerr := w.ls.Open(); oerr != nil {
			w.res.HarnessErr = "litestream Open: " + oerr.Error()
		}
	default:
		name = "Close+NewDB"
		cctx, cancel := context.WithTimeout(ctx, 30*time.Second)
		err = w.ls.Close(cctx)
		cancel()
		w.quiescent("Close")
		w.ls = w.newLS()
		if oerr := w.ls.Open(); oerr != nil {
			w.res.HarnessErr = "litestream Open: " + oerr.Error()
		}
	}
	where := ""
	if w.inTx {
		w.nInTx++
		where = " (inside an open application transaction)"
	}
	if w.w == nil {
		w.nOffline++
		where += " (application disconnected)"
	}
	w.logf("  litestream %s err=%v%s", name, err, where)
	w.lsOps = append(w.lsOps, name)
	if err == nil {
		w.res.Count("ls_ok_"+name, 1)
	} else {
		w.res.Count("ls_failed_"+name, 1)
	}
	w.quiescent(name)
}

func (w *world) maybeLS(ctx context.Context, density int) {
	if !w.treatment {
		return
	}
	if w.pending != nil {
		if w.inTx {
			return // litestream calls stay sequential among themselves
		}
		w.joinPending()
		if w.res.HarnessErr != "" {
			return
		}
	}
	if w.inTx && w.w != nil && w.meta == "" && !w.startDelete && w.lsRng.Intn(3) == 0 {
		w.startOverlap(ctx)
		return
	}
	for k := 0; k < 2 && w.lsRng.Intn(10) < density; k++ {
		w.lsOp(ctx)
		if w.res.HarnessErr != "" {
			return
		}
	}
}

func (w *world) connect() error {
	d, err := sq.Open(w.path, 50, 0, 1)
	if err != nil {
		return err
	}
	w.w = d
	r, err := sq.Open(w.path, 50, 0, 1)
	if err != nil {
		return err
	}
	w.r = r
	return nil
}

func (w *world) disconnect() {
	if w.rtx != nil {
		_ = w.rtx.Rollback()
		w.rtx = nil
	}
	if w.r != nil {
		w.r.Close()
		w.r = nil
	}
	if w.w != nil {
		w.w.Close()
		w.w = nil
	}
}

const readerQuery = `SELECT (SELECT count(*) FROM a), (SELECT coalesce(sum(length(v)),0) FROM a), (SELECT count(*) FROM b), (SELECT coalesce(sum(n),0) FROM b), (SELECT count(*) FROM sqlite_master WHERE name NOT LIKE '\_litestream\_%' ESCAPE '\')`

func (w *world) readerRead() (string, error) {
	var a, b, c, d, e int64
	if err := w.rtx.QueryRow(readerQuery).Scan(&a, &b, &c, &d, &e); err != nil {
		return "", err
	}
	return fmt.Sprintf("%d/%d/%d/%d/%d", a, b, c, d, e), nil
}

// replay runs the history once. A returned error is a harness problem.
func (w *world) replay(ctx context.Context, s spec, h []step) error {
	if err := os.MkdirAll(w.dir, 0o755); err != nil {
		return err
	}
	d, err := sq.Create(w.path, s.Cfg.PageSize, s.Cfg.AutoVacuum)
	if err != nil {
		return fmt.Errorf("create db: %w", err)
	}
	w.w = d
	w.startDelete = s.StartDelete && w.treatment
	if w.startDelete { // (the control run uses WAL mode throughout: only the data is compared with it)
		var jm string
		if err := d.QueryRow(`PRAGMA journal_mode=DELETE`).Scan(&jm); err != nil || jm != "delete" {
			return fmt.Errorf("journal_mode=DELETE: %v %q", err, jm)
		}
	}
	if w.r, err = sq.Open(w.path, 50, 0, 1); err != nil {
		return err
	}
	if w.treatment {
		w.ls = w.newLS()
		if s.DiskFull {
			w.meta = w.ls.MetaPath()
			if err := hist.MountTmpfs(w.meta, 64); err != nil {
				w.res.Count("local_fault_unavailable(mount failed)", 1)
				w.logf("no disk-full episodes in this case: %v", err)
				w.meta = ""
			}
		}
		if err := w.ls.Open(); err != nil {
			return fmt.Errorf("litestream open: %w", err)
		}
		if w.startDelete {
			// litestream's first sync switches the database to WAL mode before the
			// application's readers and writers start to overlap
			err := w.ls.Sync(ctx)
			w.logf("first litestream sync on the rollback-journal database err=%v", err)
			w.quiescent("first Sync")
		}
	}
	for i, st := range h {
		switch st.Kind {
		case "exec":
			var res sql.Result
			var err error
			for try := 0; ; try++ {
				res, err = w.w.ExecContext(ctx, st.SQL)
				if err == nil || !isBusy(err) {
					break
				}
				w.busyRetr++
				w.logf("step %d busy (%v), retrying the same statement", i, err)
				if try >= 200 && w.pending != nil {
					w.joinPending()
					try = 0
					continue
				}
				if try >= 200 {
					if w.treatment {
						// The control run executed the same statement without contention and no
						// litestream call is in flight (the history is sequential): litestream kept
						// a lock on the source after its last operation returned, so the
						// application can no longer make the changes it makes without litestream.
						last := "(none)"
						if len(w.lsOps) > 0 {
							last = w.lsOps[len(w.lsOps)-1]
						}
						w.res.Evals++
						w.res.Violate("app-statement-blocked", "application statement %q (step %d) stays SQLITE_BUSY for %d attempts although no litestream call is in flight; the same history without litestream executes it at once. Last litestream operation: %s [%s]", short(st.SQL), i, try, last, w.cfg)
						return errBlocked
					}
					return fmt.Errorf("application statement %q stays busy: %v", short(st.SQL), err)
				}
				time.Sleep(2 * time.Millisecond)
			}
			if err != nil {
				return fmt.Errorf("application statement %q failed: %v", short(st.SQL), err)
			}
			n, _ := res.RowsAffected()
			w.trace = append(w.trace, fmt.Sprintf("%d:%d", i, n))
			w.logf("step %d %s -> rows=%d", i, short(st.SQL), n)
			if st.OpensTx {
				w.inTx = true
			}
			if st.ClosesTx {
				w.inTx = false
			}
			if st.Commit {
				w.commits++
			}
		case "ckpt":
			var a, b, c int
			err := w.w.QueryRowContext(ctx, `PRAGMA wal_checkpoint(`+st.SQL+`)`).Scan(&a, &b, &c)
			w.logf("step %d app wal_checkpoint(%s) busy=%d log=%d ckpt=%d err=%v (result not compared)", i, st.SQL, a, b, c, err)
			if err == nil && a == 0 {
				w.res.Count("app_checkpoint_ok_"+st.SQL, 1)
			}
		case "disconnect":
			w.disconnect()
			w.logf("step %d application closes all its connections", i)
		case "connect":
			if err := w.connect(); err != nil {
				return err
			}
			w.logf("step %d application reconnects", i)
		case "rbegin":
			tx, err := w.r.BeginTx(ctx, nil)
			if err != nil {
				return fmt.Errorf("reader begin: %w", err)
			}
			w.rtx = tx
			v, err := w.readerRead()
			if err != nil {
				return fmt.Errorf("reader read: %w", err)
			}
			w.trace = append(w.trace, fmt.Sprintf("%d:r=%s", i, v))
			w.logf("step %d long reader begins, sees %s", i, v)
		case "rcheck":
			v, err := w.readerRead()
			if err != nil {
				return fmt.Errorf("reader read: %w", err)
			}
			w.trace = append(w.trace, fmt.Sprintf("%d:r=%s", i, v))
			w.logf("step %d long reader re-reads, sees %s", i, v)
		case "rend":
			_ = w.rtx.Rollback()
			w.rtx = nil
			w.logf("step %d long reader ends", i)
		}
		w.maybeLS(ctx, s.Density)
		if w.res.HarnessErr != "" {
			return fmt.Errorf("%s", w.res.HarnessErr)
		}
	}
	// end: litestream closes before or after the application, by its own PRNG
	lsFirst := w.treatment && w.lsRng.Intn(2) == 0
	if w.startDelete {
		lsFirst = false // the application is gone when litestream shuts down
	}
	closeLS := func() {
		if !w.treatment {
			return
		}
		w.joinPending()
		cctx, cancel := context.WithTimeout(ctx, 60*time.Second)
		err := w.ls.Close(cctx)
		cancel()
		w.logf("final litestream Close err=%v (application connected=%v)", err, w.w != nil)
		w.quiescent("final Close")
	}
	if lsFirst {
		closeLS()
	}
	w.disconnect()
	if !lsFirst {
		closeLS()
	}
	return nil
}

func short(q string) string {
	if len(q) > 70 {
		return q[:70] + "…"
	}
	return q
}

// ---------------------------------------------------------------------------
// the final dump

type final struct {
	D       *sq.Dump
	Master  []string // every sqlite_master row: type|name|tbl_name|sql
	Journal string
	AppID   int64
	Tables  map[string]string // per-table row hash (diagnostics)
}

func dumpFinal(path, scratch string) (*final, error) {
	img, err := sq.SourceImage(path, scratch)
	if err != nil {
		return nil, fmt.Errorf("recovered copy: %w", err)
	}
	f, err := os.CreateTemp(scratch, "final")
	if err != nil {
		return nil, err
	}
	p := f.Name()
	defer os.Remove(p)
	if _, err := f.Write(img); err != nil {
		f.Close()
		return nil, err
	}
	f.Close()
	out := &final{Tables: map[string]string{}}
	if out.D, err = sq.DumpDB(p, true); err != nil {
		return nil, err
	}
	d, err := sql.Open("sqlite", "file:"+p+"?mode=ro")
	if err != nil {
		return nil, err
	}
	defer d.Close()
	d.SetMaxOpenConns(1)
	rows, err := d.Query(`SELECT type, name, tbl_name, coalesce(sql,'') FROM sqlite_master ORDER BY type, name`)
	if err != nil {
		return nil, err
	}
	var tables []string
	for rows.Next() {
		var t, n, tn, q string
		if err := rows.Scan(&t, &n, &tn, &q); err != nil {
			rows.Close()
			return nil, err
		}
		out.Master = append(out.Master, t+"|"+n+"|"+tn+"|"+q)
		if t == "table" && !strings.HasPrefix(n, "sqlite_") && !strings.HasPrefix(n, "_litestream_") {
			tables = append(tables, n)
		}
	}
	rows.Close()
	if err := d.QueryRow(`PRAGMA journal_mode`).Scan(&out.Journal); err != nil {
		return nil, err
	}
	if err := d.QueryRow(`PRAGMA application_id`).Scan(&out.AppID); err != nil {
		return nil, err
	}
	for _, t := range tables {
		hh := sha256.New()
		rs, err := d.Query(`SELECT rowid, * FROM "` + t + `" ORDER BY rowid`)
		if err != nil {
			return nil, err
		}
		cols, _ := rs.Columns()
		vals := make([]any, len(cols))
		ptrs := make([]any, len(cols))
		for i := range vals {
			ptrs[i] = &vals[i]
		}
		n := 0
		for rs.Next() {
			if err := rs.Scan(ptrs...); err != nil {
				rs.Close()
				return nil, err
			}
			n++
			fmt.Fprintf(hh, "%v\n", vals)
		}
		rs.Close()
		out.Tables[t] = fmt.Sprintf("%d rows %x", n, hh.Sum(nil)[:6])
	}
	return out, nil
}

var bookkeeping = map[string]bool{"_litestream_seq": true, "_litestream_lock": true}

func runCase(run *vf.Run, raw json.RawMessage, dir string) *vf.Result {
	var s spec
	res := &vf.Result{}
	if err := json.Unmarshal(raw, &s); err != nil {
		res.HarnessErr = err.Error()
		return res
	}
	if s.Kind == "locks" {
		return runLocks(s, dir, res)
	}
	ctx := context.Background()
	h := genHistory(s.Seed, s.Items)

	ctl := &world{dir: filepath.Join(dir, "control"), cfg: s.Cfg, res: res}
	ctl.path = filepath.Join(ctl.dir, "db")
	trt := &world{dir: filepath.Join(dir, "treatment"), cfg: s.Cfg, res: res, treatment: true, lsRng: rand.New(rand.NewSource(s.LSSeed)), logs: &hist.LogCapture{}}
	trt.path = filepath.Join(trt.dir, "db")
	defer func() {
		ctl.disconnect()
		trt.disconnect()
		if trt.ls != nil && trt.ls.IsOpen() {
			cctx, cancel := context.WithTimeout(ctx, 20*time.Second)
			_ = trt.ls.Close(cctx)
			cancel()
		}
		if trt.meta != "" {
			hist.UnmountTmpfs(trt.meta)
		}
	}()
	if err := ctl.replay(ctx, s, h); err != nil {
		res.HarnessErr = "control run: " + err.Error()
		return res
	}
	if err := trt.replay(ctx, s, h); err != nil {
		if err == errBlocked {
			return res
		}
		if res.HarnessErr == "" {
			res.HarnessErr = "treatment run: " + err.Error()
		}
		return res
	}
	fc, err := dumpFinal(ctl.path, dir)
	if err != nil {
		res.HarnessErr = "control dump: " + err.Error()
		return res
	}
	if fc.D.Integ != "ok" || fc.Journal != "wal" {
		res.HarnessErr = fmt.Sprintf("control run is not sane: integrity=%q journal_mode=%q", fc.D.Integ, fc.Journal)
		return res
	}
	ft, err := dumpFinal(trt.path, dir)
	res.Evals++
	if err != nil {
		res.Violate("source-unreadable", "the source database cannot be read after the history with litestream: %v [%s]", err, s.Cfg)
		return res
	}

	// 1. logical dump
	res.Evals++
	if fc.D.Hash != ft.D.Hash {
		var diff []string
		cs := map[string]bool{}
		for _, l := range fc.D.Schema {
			cs[l] = true
		}
		ts := map[string]bool{}
		for _, l := range ft.D.Schema {
			ts[l] = true
			if !cs[l] {
				diff = append(diff, "schema only with litestream: "+short(l))
			}
		}
		for _, l := range fc.D.Schema {
			if !ts[l] {
				diff = append(diff, "schema only without litestream: "+short(l))
			}
		}
		for t, v := range fc.Tables {
			if ft.Tables[t] != v {
				diff = append(diff, fmt.Sprintf("table %s: without litestream %s, with litestream %s", t, v, ft.Tables[t]))
			}
		}
		sort.Strings(diff)
		res.Violate("dump-differs", "user-visible schema/rows of the source differ from the litestream-free replay of the same history: %s [%s]", strings.Join(diff, "; "), s.Cfg)
	}
	// 2. sqlite_master: only the two bookkeeping tables may be added
	res.Evals++
	cm := map[string]bool{}
	for _, l := range fc.Master {
		cm[l] = true
	}
	tm := map[string]bool{}
	for _, l := range ft.Master {
		tm[l] = true
		if cm[l] {
			continue
		}
		f := strings.SplitN(l, "|", 4)
		if !(f[0] == "table" && bookkeeping[f[1]]) {
			res.Violate("foreign-schema-object", "sqlite_master of the source has an entry the litestream-free replay lacks and that is not one of the two bookkeeping tables: %s [%s]", short(l), s.Cfg)
		} else {
			res.Count("bookkeeping_tables_present", 1)
		}
	}
	for _, l := range fc.Master {
		if !tm[l] {
			res.Violate("schema-object-missing", "sqlite_master of the source lacks an entry of the litestream-free replay: %s [%s]", short(l), s.Cfg)
		}
	}
	// 3. lock table empty
	res.Evals++
	if ft.D.LockRows > 0 {
		res.Violate("lock-table-not-empty", "after the history _litestream_lock holds %d row(s) [%s]", ft.D.LockRows, s.Cfg)
	}
	// 4. integrity, 5. journal mode
	res.Evals += 2
	if ft.D.Integ != "ok" {
		res.Violate("integrity-check-failed", "PRAGMA integrity_check on the source after the history: %s [%s]", ft.D.Integ, s.Cfg)
	}
	if ft.Journal != "wal" {
		res.Violate("journal-mode-changed", "PRAGMA journal_mode of the source after the history is %q, not wal [%s]", ft.Journal, s.Cfg)
	}
	// 6. user_version / application_id
	res.Evals++
	if fc.D.UserVer != ft.D.UserVer || fc.AppID != ft.AppID {
		res.Violate("header-field-differs", "user_version/application_id: %d/%d without litestream, %d/%d with litestream [%s]", fc.D.UserVer, fc.AppID, ft.D.UserVer, ft.AppID, s.Cfg)
	}
	// 7. what the application read while running
	res.Evals++
	if a, b := strings.Join(ctl.trace, " "), strings.Join(trt.trace, " "); a != b {
		at := "?"
		for i := range ctl.trace {
			if i >= len(trt.trace) || ctl.trace[i] != trt.trace[i] {
				at = ctl.trace[i]
				if i < len(trt.trace) {
					at += " vs " + trt.trace[i]
				}
				break
			}
		}
		res.Violate("reads-differ", "the application read something different during the history (step:value) %s [%s]", at, s.Cfg)
	}

	// evidence
	ckpts := 0
	for msg, n := range trt.logs.Snapshot() {
		if strings.Contains(msg, "checkpoint") {
			res.Count("log:"+trim(msg), n)
			if strings.HasPrefix(msg, "checkpoint") {
				ckpts += n
			}
		}
	}
	for _, m := range hist.CheckpointModes {
		ckpts += res.Counters["ls_ok_Checkpoint-"+m]
	}
	res.Count("ls_ops", len(trt.lsOps))
	res.Count("ls_ops_overlapping_an_application_commit", trt.nOverlap)
	res.Count("ls_ops_inside_open_app_txn", trt.nInTx)
	res.Count("ls_ops_while_app_disconnected", trt.nOffline)
	res.Count("app_commits", trt.commits)
	res.Count("app_busy_retries_control", ctl.busyRetr)
	res.Count("app_busy_retries_treatment", trt.busyRetr)
	res.Count("app_steps", len(h))
	res.Count(fmt.Sprintf("page_size_%d", s.Cfg.PageSize), 1)
	res.Count(fmt.Sprintf("auto_vacuum_%d", s.Cfg.AutoVacuum), 1)
	hs := sha256.New()
	for _, st := range h {
		fmt.Fprintln(hs, st.Kind, st.SQL)
	}
	res.Sig = fmt.Sprintf("%x", sha256.Sum256([]byte(s.Cfg.String()+fmt.Sprintf("%x", hs.Sum(nil))+strings.Join(trt.lsOps, ","))))[:16]
	res.Nontrivial = trt.commits >= 5 && trt.nInTx >= 1 && ckpts >= 1
	res.Sample = map[string]any{"cfg": s.Cfg.String(), "app_steps": len(h), "app_commits": trt.commits, "ls_ops": strings.Join(trt.lsOps, " "), "ls_ops_in_open_txn": trt.nInTx, "tables": len(ft.Tables), "rows": ft.D.Rows}
	return res
}

func trim(s string) string {
	if len(s) > 60 {
		return s[:60]
	}
	return s
}
