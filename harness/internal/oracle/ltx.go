// Package oracle contains the reference computations the monitors compare
// litestream's behaviour against. Nothing here calls litestream's own
// compaction/restore logic; only ltx.Decoder (framing, LZ4, CRC64) is trusted.
package oracle

import (
	"bytes"
	"fmt"
	"io"
	"os"
	"path/filepath"
	"sort"

	"github.com/superfly/ltx"
)

type LTXFile struct {
	Hdr     ltx.Header
	Trailer ltx.Trailer
	Pages   map[uint32][]byte
	Order   []uint32 // page numbers in file order
}

// DecodeLTX fully decodes and verifies (checksums) one LTX file.
func DecodeLTX(path string) (*LTXFile, error) {
	f, err := os.Open(path)
	if err != nil {
		return nil, err
	}
	defer f.Close()
	return DecodeLTXReader(f)
}

func DecodeLTXReader(r io.Reader) (lf *LTXFile, err error) {
	defer func() {
		if p := recover(); p != nil {
			err = fmt.Errorf("ltx decoder panic: %v", p)
		}
	}()
	dec := ltx.NewDecoder(r)
	if err := dec.DecodeHeader(); err != nil {
		return nil, err
	}
	lf = &LTXFile{Hdr: dec.Header(), Pages: map[uint32][]byte{}}
	for {
		var ph ltx.PageHeader
		buf := make([]byte, lf.Hdr.PageSize)
		if err := dec.DecodePage(&ph, buf); err == io.EOF {
			break
		} else if err != nil {
			return nil, err
		}
		if _, dup := lf.Pages[ph.Pgno]; dup {
			return nil, fmt.Errorf("duplicate page %d in ltx file", ph.Pgno)
		}
		lf.Pages[ph.Pgno] = buf
		lf.Order = append(lf.Order, ph.Pgno)
	}
	if err := dec.Close(); err != nil {
		return nil, err
	}
	lf.Trailer = dec.Trailer()
	return lf, nil
}

type FileRef struct {
	Level    int
	Min, Max int
	Path     string
	Size     int64
}

func (f FileRef) String() string { return fmt.Sprintf("L%d/%d-%d", f.Level, f.Min, f.Max) }

// ListLevel lists *.ltx files of one level under root/ltx/<level>, sorted.
func ListLevel(root string, level int) []FileRef {
	dir := filepath.Join(root, "ltx", fmt.Sprint(level))
	ents, _ := os.ReadDir(dir)
	var a []FileRef
	for _, e := range ents {
		mn, mx, err := ltx.ParseFilename(e.Name())
		if err != nil {
			continue
		}
		var sz int64
		if fi, err := e.Info(); err == nil {
			sz = fi.Size()
		}
		a = append(a, FileRef{level, int(mn), int(mx), filepath.Join(dir, e.Name()), sz})
	}
	sort.Slice(a, func(i, j int) bool { return a[i].Min < a[j].Min || (a[i].Min == a[j].Min && a[i].Max < a[j].Max) })
	return a
}

// ListAll lists all levels 0..9.
func ListAll(root string) []FileRef {
	var a []FileRef
	for l := 0; l <= 9; l++ {
		a = append(a, ListLevel(root, l)...)
	}
	return a
}

// NonFinalNames returns entries in root/ltx/* that are not valid final names
// (e.g. *.tmp leftovers).
func NonFinalNames(root string) []string {
	var out []string
	for l := 0; l <= 9; l++ {
		dir := filepath.Join(root, "ltx", fmt.Sprint(l))
		ents, _ := os.ReadDir(dir)
		for _, e := range ents {
			if _, _, err := ltx.ParseFilename(e.Name()); err != nil {
				out = append(out, filepath.Join(dir, e.Name()))
			}
		}
	}
	return out
}

func MaxTXID(root string) int {
	m := 0
	for _, f := range ListAll(root) {
		if f.Max > m {
			m = f.Max
		}
	}
	return m
}

// Archive keeps a decoded copy of every level-0 file ever seen on a replica so
// that retention cannot take the reference away (O-L0).
type Archive struct {
	Files map[int]*LTXFile
}

func NewArchive() *Archive { return &Archive{Files: map[int]*LTXFile{}} }

// Scan archives new level-0 files found under root. A TXID seen twice must
// decode to the same content (a level-0 TXID denotes one state).
func (a *Archive) Scan(root string) error {
	for _, fi := range ListLevel(root, 0) {
		if fi.Min != fi.Max {
			return fmt.Errorf("level-0 file %s covers more than one TXID", fi)
		}
		if _, ok := a.Files[fi.Max]; ok {
			continue
		}
		lf, err := DecodeLTX(fi.Path)
		if err != nil {
			return fmt.Errorf("decode %s: %w", fi, err)
		}
		if int(lf.Hdr.MinTXID) != fi.Min || int(lf.Hdr.MaxTXID) != fi.Max {
			return fmt.Errorf("%s: header says %d-%d", fi, lf.Hdr.MinTXID, lf.Hdr.MaxTXID)
		}
		a.Files[fi.Max] = lf
	}
	return nil
}

func (a *Archive) Max() int {
	m := 0
	for n := range a.Files {
		if n > m {
			m = n
		}
	}
	return m
}

// Compose overlays archived level-0 files from..to (inclusive) in order on an
// empty page map and drops pages beyond the final commit.
func (a *Archive) Compose(from, to int) (map[uint32][]byte, ltx.Header, error) {
	pages := map[uint32][]byte{}
	var last ltx.Header
	for n := from; n <= to; n++ {
		lf, ok := a.Files[n]
		if !ok {
			return nil, last, fmt.Errorf("archive has no level-0 file for TXID %d", n)
		}
		for pg, d := range lf.Pages {
			pages[pg] = d
		}
		last = lf.Hdr
		for pg := range pages {
			if pg > last.Commit {
				delete(pages, pg)
			}
		}
	}
	return pages, last, nil
}

// Image returns the database image as of TXID n (pages 1..commit; the lock
// page, if inside the range, is zero).
func (a *Archive) Image(n int) ([]byte, error) {
	pages, last, err := a.Compose(1, n)
	if err != nil {
		return nil, err
	}
	ps := int(last.PageSize)
	lock := ltx.LockPgno(last.PageSize)
	img := make([]byte, int(last.Commit)*ps)
	for pg := uint32(1); pg <= last.Commit; pg++ {
		d, ok := pages[pg]
		if !ok {
			if pg == lock {
				continue
			}
			return nil, fmt.Errorf("image %d: page %d never written by level-0 files 1..%d", n, pg, n)
		}
		copy(img[int(pg-1)*ps:], d)
	}
	return img, nil
}

// EqualPages compares a decoded file with a composed page map.
func EqualPages(got *LTXFile, want map[uint32][]byte) error {
	if len(got.Pages) != len(want) {
		var missing, extra []uint32
		for pg := range want {
			if _, ok := got.Pages[pg]; !ok {
				missing = append(missing, pg)
			}
		}
		for pg := range got.Pages {
			if _, ok := want[pg]; !ok {
				extra = append(extra, pg)
			}
		}
		sort.Slice(missing, func(i, j int) bool { return missing[i] < missing[j] })
		sort.Slice(extra, func(i, j int) bool { return extra[i] < extra[j] })
		return fmt.Errorf("page set differs: has %d pages, reference %d (missing %v extra %v)", len(got.Pages), len(want), head(missing), head(extra))
	}
	var bad []uint32
	for pg, d := range want {
		if !bytes.Equal(d, got.Pages[pg]) {
			bad = append(bad, pg)
		}
	}
	if len(bad) > 0 {
		sort.Slice(bad, func(i, j int) bool { return bad[i] < bad[j] })
		return fmt.Errorf("page content differs on pages %v", head(bad))
	}
	return nil
}

func head(a []uint32) []uint32 {
	if len(a) > 8 {
		return a[:8]
	}
	return a
}
