#!/usr/bin/env python3
"""Registry of the independently seeded changes (kept under /verif/seeded/<id>/) and a runner
that re-confirms each one (demonstration passes on HEAD, fails with the patch) and runs the
relevant checks against it through a scratch worktree (VERIF_REPO), never touching /repo.

usage: seeds.py import            copy patch/demo/notes from /tmp/seed/... into /verif/seeded/
       seeds.py run [id ...]      evaluate (all or the given ids), update meta.json
       seeds.py table             print the markdown table for DESIGN.md
"""
import json, os, re, shutil, subprocess, sys

ROOT = os.path.dirname(os.path.dirname(os.path.abspath(__file__)))
SEEDED = os.path.join(ROOT, "seeded")

# id: (property, source dir, demo destination, go test -run regex, package, checks to run, test flags,
#      what the change does, what it needs in order to manifest)
S = {
 "C01-1": ("C01", "/tmp/seed/C01/_seed/1", "seed_demo_1_test.go", "TestSeedDemo1", ".", ["C04"], "",
   "detectFullCheckpoint: `len(m) >= 1` -> `> 1`: exactly one unseen WAL generation is no longer detected",
   "litestream stopped cleanly; the application checkpoints+restarts the WAL twice while it is down, each generation shorter than the previous; restart"),
 "C01-2": ("C01", "/tmp/seed/C01/_seed/2", "seed_demo_2_test.go", "TestSeedDemo2", ".", ["C01"], "",
   "DB.Close: final sync limited to one MaxSyncWALBytes chunk (the chunk loop lives in DB.Sync)",
   "WAL backlog at Close larger than MaxSyncWALBytes spanning more than one transaction"),
 "C02-1": ("C02", "/tmp/seed/C02/_seed/1", "seed_demo_1_test.go", "TestSeedDemo1$", ".", ["C02", "C01"], "",
   "pageMap returns the end offset of the last frame read instead of the last committed frame",
   "a sync while an unsynced commit is followed by spilled uncommitted frames (open or rolled-back large transaction)"),
 "C02-2": ("C02", "/tmp/seed/C02/_seed/2", "seed_demo_2_test.go", "TestSeedDemo2$", ".", ["C02"], "",
   "PASSIVE checkpoints proceed without the checkpoint lock while a snapshot is streaming",
   "slow snapshot upload + concurrent commits + a litestream PASSIVE checkpoint during it"),
 "C03-1": ("C03", "/tmp/seed/C03/_seed/1", "seed_demo_1_test.go", "TestSeedDemo1", ".", ["C03"], "",
   "Replica.calcPos lists only the tail of level 0 (seek = local TXID): position 0 when the replica is behind",
   "acknowledged syncs, L0->L1 compaction + L0 retention, kill with an un-uploaded local L0 file, restart"),
 "C03-2": ("C03", "/tmp/seed/C03/_seed/2", "seed_demo_2_test.go", "TestSeedDemo2", ".", ["C03"], "",
   "Restore creates <output>.tmp with O_EXCL and registers its removal after the open",
   "a restore killed between temp-file creation and rename; the next restore to the same path"),
 "C04-1": ("C04", "/tmp/seed/C04/_seed/1", "seed_demo_1_test.go", "TestSeedDemo1", ".", ["C04"], "",
   "prevGenerationContinues additionally requires the frame at the old cursor to be a commit frame",
   "while down: first unseen transaction touches >=2 pages, checkpoint+restart, new generation shorter than the old cursor"),
 "C04-2": ("C04", "/tmp/seed/C04/_seed/2", "seed_demo_2_test.go", "TestSeedDemo2", ".", ["C04"], "",
   "checkDatabaseBehindReplica returns early when the local position is non-zero",
   "database, WAL and meta directory rolled back together to an older copy, restart"),
 "C05-1": ("C05", "/tmp/seed/C05/_seed/1", "seed_demo_1_test.go", "TestSeedDemo1_", ".", ["C05"], "",
   "Compactor.Compact: the compaction error is shadowed, the pipe closes cleanly, a truncated file is published",
   "compaction whose sources are read from the replica with a download error after the headers that outlasts the retries"),
 "C05-2": ("C05", "/tmp/seed/C05/_seed/2", "seed_demo_2_test.go", "TestSeedDemo2_", ".", ["C05"], "",
   "checkDatabaseBehindReplica treats a failed L0 listing as 'no replica data'",
   "local position zero or behind (restart without meta dir) and the first two listings fail"),
 "C06-1": ("C06", "/tmp/seed/C06/_seed/1", "seed_demo_1_test.go", "TestSeedDemo1", ".", ["C06"], "",
   "snapshotReader: `if walCommit > 0` -> `if walCommit > commit`: snapshot sized from the main file after a WAL-only shrink",
   "DELETE+VACUUM synced but not checkpointed, then Snapshot, restore plan ending on that snapshot"),
 "C06-2": ("C06", "/tmp/seed/C06/_seed/2", "seed_demo_2_test.go", "TestSeedDemo2", ".", ["C06"], "",
   "compaction input capped at 128 files after the min/max bookkeeping: output named a..a+128 holds a..a+127",
   "more than 128 source files pending in one compaction pass"),
 "C07-1": ("C07", "/tmp/seed/C07/_seed/1", "seed_demo_1_test.go", "TestSeedDemo1_", ".", ["C07"], "",
   "EnforceL0RetentionByTime: `break` at the first too-recent file becomes `continue`",
   "compacted L0 files with non-monotonic ages around the threshold"),
 "C07-2": ("C07", "/tmp/seed/C07/_seed/2", "seed_demo_2_test.go", "TestSeedDemo2_", ".", ["C07"], "",
   "EnforceSnapshotRetention tracks the newest snapshot by CreatedAt while the keep-last guard stays positional",
   "all snapshots expired and the highest-TXID snapshot not strictly the newest by mtime, after an earlier cascading pass"),
 "C08-1": ("C08", "/tmp/seed/C08/_seed/1", "seed_demo_1_test.go", "TestSeedDemo1", ".", ["C08"], "",
   "CalcRestorePlan opens the level iterators with seek = snapshot max + 1",
   "a compacted file straddling the snapshot end with the bridging L0 files pruned"),
 "C08-2": ("C08", "/tmp/seed/C08/_seed/2", "seed_demo_2_test.go", "TestSeedDemo2", ".", ["C08"], "",
   "restoreLevelCursor.refresh gives up at the first file ending past the target TXID",
   "explicit TXID target with nested files inside one level"),
 "C09-1": ("C09", "/tmp/seed/C09/_seed/1", "seed_demo_1_test.go", "TestSeedDemo1_", ".", ["C09", "C02"], "",
   "pageMap without the per-transaction map: frames after the last commit are deleted afterwards, losing committed versions they overwrote",
   "spilled open/rolled-back transaction whose tail rewrites a page committed earlier in the same sync window"),
 "C09-2": ("C09", "/tmp/seed/C09/_seed/2", "seed_demo_2_test.go", "TestSeedDemo2_", ".", ["C09"], "",
   "resumed WAL reader never verifies checksums again (seeded flag)",
   "incremental sync starting mid-WAL with a salt-valid but checksum-invalid frame behind the offset (torn tail after a crash)"),
 "C10-1": ("C10", "/tmp/seed/C10/_seed/1", "seed_demo_1_test.go", "TestSeedDemo1_", ".", ["C10", "C08"], "",
   "CalcRestorePlan's end-of-plan gap check looks only at cursors[0] (the always-empty highest level)",
   "latest-state restore with a file missing from the middle of the chain and later files present"),
 "C10-2": ("C10", "/tmp/seed/C10/_seed/2", "seed_demo_2_test.go", "TestSeedDemo2_", ".", ["C10"], "",
   "Restore opens <output>.tmp without O_TRUNC",
   "a stale larger <output>.tmp left by a killed restore, then a restore of a smaller database"),
 "C11-1": ("C11", "/tmp/seed/C11/_seed/1", "file/seed_demo_1_test.go", "TestSeedDemo1_", "./file/", ["C11"], "",
   "file.ReplicaClient.WriteLTXFile's error clean-up also removes the final name",
   "a same-name rewrite (second Snapshot at one position, retried compaction) that fails mid-stream"),
 "C11-2": ("C11", "/tmp/seed/C11/_seed/2", "seed_demo_2_test.go", "TestSeedDemo2_", ".", ["C11"], "",
   "DB.sync skips the directory fsync when the chunk was limited by MaxSyncWALBytes",
   "small MaxSyncWALBytes and a backlog whose last chunk hits the budget exactly at the WAL end"),
 "C12-1": ("C12", "/tmp/seed/C12/_seed/1", "seed_demo_1_test.go", "TestSeedDemo1_", ".", ["C12"], "",
   "Store.DBs() returns the internal slice instead of a copy",
   "UnregisterDB overlapping an enumeration by a monitor or status handler, >=2 databases"),
 "C12-2": ("C12", "/tmp/seed/C12/_seed/2", "seed_demo_2_test.go", "TestSeedDemo2_", ".", ["C12"], "",
   "RegisterDB's second duplicate check compares pointers instead of paths",
   "truly concurrent registration of the same path"),
 "C13-1": ("C13", "/tmp/seed/C13/_seed/1", "seed_demo_1_test.go", "TestSeedDemo1", ".", ["C13"], "",
   "threshold checkpoint becomes edge-triggered (`newWALSize > origWALSize`)",
   "the sync crossing the threshold cannot checkpoint (busy writer / snapshot stream), then the application goes idle"),
 "C13-2": ("C13", "/tmp/seed/C13/_seed/2", "seed_demo_2_test.go", "TestSeedDemo2", ".", ["C13"], "",
   "syncLocked drops `|| result.syncedToWALEnd` from the gate before checkpointIfNeeded",
   "small MaxSyncWALBytes: a sync whose last chunk is full never evaluates a checkpoint"),
 "C14-1": ("C14", "/tmp/seed/C14/_seed/1", "seed_demo_1_test.go", "TestSeedDemo1", ".", ["C14"], "",
   "syncUnderWriteLock commits the _litestream_lock insert instead of rolling back",
   "non-PASSIVE checkpoint that cannot restart the WAL because an application reader is open"),
 "C14-2": ("C14", "/tmp/seed/C14/_seed/2", "seed_demo_2_test.go", "TestSeedDemo2", ".", ["C14"], "",
   "checkpoint boundary snapshot: write transaction left open on the db.sync error branch",
   "TRUNCATE checkpoint that restarts the WAL plus a local file-system fault (ENOSPC, unusable L0 staging dir) in the boundary snapshot"),
 "C15-1": ("C15", "/tmp/seed/C15/_seed/1", "seed_demo_1_test.go", "TestSeedDemo1_", ".", ["C15"], "",
   "snapshot files stamped with the database file's mtime instead of now",
   "snapshot while replicated transactions are un-checkpointed; T between the db mtime and the replication time"),
 "C15-2": ("C15", "/tmp/seed/C15/_seed/2", "seed_demo_2_test.go", "TestSeedDemo2_", ".", ["C15"], "",
   "timestamp filter moved from the level cursor to the plan loop (stops at the best candidate at/after T)",
   "at least one compaction and a T strictly inside a compacted file's time range"),
 "C16-1": ("C16", "/tmp/seed/C16/_seed/1", "seed_demo_1_test.go", "TestSeedDemo1_", ".", ["C16"], "",
   "applyNewLTXFiles: re-check after bridging a gap removed",
   "restart from an old sidecar where the gap must be bridged through more than one higher level"),
 "C16-2": ("C16", "/tmp/seed/C16/_seed/2", "seed_demo_2_test.go", "TestSeedDemo2_", ".", ["C16"], "",
   "WriteTXIDFile unlinks the sidecar before renaming the new one into place",
   "SIGKILL exactly between the unlink and the rename"),
 "C17-1": ("C17", "/tmp/seed/C17/_seed/1", "seed_demo_1_test.go", "TestSeedDemo1_", ".", ["C17"], "",
   "lock-page guard removed from the growth-fill loop of writeLTXFromWAL",
   "database replicated below 1 GiB, then one incremental sync covers growth across the lock page"),
 "C17-2": ("C17", "/tmp/seed/C17/_seed/2", "seed_demo_2_test.go", "TestSeedDemo2_", ".", ["C17"], "",
   "writeLTXFromDB reads sequentially through a buffered reader that is not advanced at the lock page",
   "database over 1 GiB with checkpointed pages past the lock page when a snapshot-type LTX is written"),
 "C18-1": ("C18", "/tmp/seed/C18/_seed/1", "_seed_demo1/demo_test.go", "TestSeedC18_1", "./_seed_demo1/", ["C18"], "-tags vfs",
   "VFS poll: an index entry is kept when the polled file has the same MaxTXID (`>` -> `>=`)",
   "page last written by the last transaction of an L1 compaction; L0 retention deletes the L0 file; page not cached"),
 "C18-2": ("C18", "/tmp/seed/C18/_seed/2", "_seed_demo2/demo_test.go", "TestSeedC18_2", "./_seed_demo2/", ["C18"], "-tags vfs",
   "VFS poll: the time-travel skip check moved from apply time to function entry",
   "a poll in flight on a slow listing while SetTargetTime is called, with new LTX files since the position"),
 "C19-1": ("C19", "/tmp/seed/C19/_seed/1", "seed_demo_1_test.go", "TestSeedDemo1", ".", ["C19"], "",
   "RestoreV3 no longer sorts snapshots by creation time (generation-ID order)",
   "two generations whose IDs sort differently from their creation times"),
 "C19-2": ("C19", "/tmp/seed/C19/_seed/2", "seed_demo_2_test.go", "TestSeedDemo2", ".", ["C19"], "",
   "applyWALSegmentsV3 starts at the first listed index instead of the snapshot's index",
   "segment N/0 of the snapshot's own index removed, WAL N consisting of that single segment, a later index present"),
 "C20-1": ("C20", "/tmp/seed/C20/_seed/1", "s3/seed_demo_1_test.go", "TestSeedDemo1", "./s3/", ["C20"], "",
   "AcquireLease retries a lost conditional PUT with the lease built from the first read (stale generation)",
   "A's GET, B's whole acquire with a lapsed lease, A's PUT gets 412 and retries"),
 "C20-2": ("C20", "/tmp/seed/C20/_seed/2", "s3/seed_demo_2_test.go", "TestSeedDemo2", "./s3/", ["C20"], "",
   "RenewLease 'recovers' from a 412 by matching the generation only",
   "A acquires, lapses, B takes over and releases, C acquires at generation 1 again, A renews its stale handle"),
 # ---- second wave (three changes per property, different functions)
 "C01-3": ("C01", "/tmp/seed2/C01/_seed/1", "seed_demo_1_test.go", "^(TestSeedDemo1)$", ".", ['C01', 'C04'], "",
   'DB.Close resets syncState field by field and omits syncedToWALEnd',
   'same-object Close/Open with app writes and a WAL shrink (TRUNCATE / last connection closed) while closed'),
 "C01-4": ("C01", "/tmp/seed2/C01/_seed/2", "seed_demo_2_test.go", "^(TestSeedDemo2)$", ".", ['C01', 'C12'], "",
   'Replica.syncOnce returns nil after waiting for an in-flight sync instead of doing its own pass',
   'SyncAndWait/Close while another replica sync that sampled an older position is in flight'),
 "C01-5": ("C01", "/tmp/seed2/C01/_seed/3", "seed_demo_3_test.go", "^(TestSeedDemo3)$", ".", ['C01'], "",
   'Store.SyncDB skips Replica.Sync when the request itself created no new LTX file',
   'DB monitor already produced the L0 file, replica has not uploaded it; `sync -wait` returns no_change'),
 "C02-3": ("C02", "/tmp/seed2/C02/_seed/1", "seed_demo_1_test.go", "^(TestSeedDemo1)$", ".", ['C02', 'C06'], "",
   'snapshotWALEndOffset: lastSyncedWALOffset fast path hoisted above the WAL-restart check',
   'PASSIVE checkpoint restarts the WAL, the post-checkpoint copy fails (ENOSPC), commits continue, snapshot before the next successful sync'),
 "C02-4": ("C02", "/tmp/seed2/C02/_seed/2", "seed_demo_2_test.go", "^(TestSeedDemo2)$", ".", ['C02', 'C01'], "",
   'snapshot-type L0 syncs honour MaxSyncWALBytes',
   'snapshot sync on a WAL longer than the budget whose frames an application PASSIVE checkpoint already backfilled while a reader pins the WAL'),
 "C02-5": ("C02", "/tmp/seed2/C02/_seed/3", "seed_demo_3_test.go", "^(TestSeedDemo3)$", ".", ['C02', 'C09'], "",
   'pageMap without txMap (pending slice): an uncommitted frame overwrites then deletes the committed offset',
   'sync while a spilled/rolled-back transaction touches pages committed in the same batch'),
 "C04-3": ("C04", "/tmp/seed2/C04/_seed/1", "seed_demo_1_test.go", "^(TestSeedDemo1_TwoWALRestartsWhileDown)$", ".", ['C04'], "",
   'verifyWithExecutor passes the salts to detectFullCheckpoint in chronological order {prev, cur}',
   'down: RESTART checkpoint, writes, RESTART checkpoint, fewer writes, all generations shorter than the old cursor'),
 "C04-4": ("C04", "/tmp/seed2/C04/_seed/2", "seed_demo_2_test.go", "^(TestSeedDemo2_StopStartWithTruncateWhileStopped)$", ".", ['C04'], "",
   'syncedToWALEnd survives Close when the final sync succeeded',
   'IPC stop/start of the same object with writes + TRUNCATE + small write while stopped'),
 "C04-5": ("C04", "/tmp/seed2/C04/_seed/3", "seed_demo_3_test.go", "^(TestSeedDemo3_RuntimeResetDuringReplicaHiccup)$", ".", ['C04', 'C05'], "",
   'newSyncExecutor logs a failing checkDatabaseBehindReplica instead of returning it',
   'run-time local-state reset and a transient listing failure on the very next sync'),
 "C05-3": ("C05", "/tmp/seed2/C05/_seed/1", "seed_demo_1_test.go", "^(TestSeedC05_1_SnapshotAheadOfFailingL0Uploads)$", ".", ['C05'], "",
   'Replica.calcPos takes the maximum over level 0 and the snapshot level',
   'L0 uploads fail while commits continue, a snapshot upload succeeds during the outage, position recomputed'),
 "C05-4": ("C05", "/tmp/seed2/C05/_seed/2", "seed_demo_2_test.go", "^(TestSeedC05_2_RestoreRidesOutMidStreamDownloadError)$", ".", ['C10', 'C05'], "",
   'ResumableReader.Read does not advance the offset when an error arrives together with n>0 bytes',
   'mid-stream download error whose failing Read also carries data'),
 "C05-5": ("C05", "/tmp/seed2/C05/_seed/3", "seed_demo_3_test.go", "^(TestSeedC05_3_ListingErrorAfterLocalReset)$", ".", ['C05', 'C04'], "",
   'checkDatabaseBehindReplica logs and ignores a listing error',
   'local LTX state reset and the very next L0 listing fails'),
 "C06-3": ("C06", "/tmp/seed2/C06/_seed/1", "seed_demo_1_test.go", "^(TestSeedDemo1_CompactionOfLargeBacklog)$", ".", ['C06'], "",
   'compaction pass capped at 64 inputs after the min/max bookkeeping',
   'more than 64 source files pending for one pass'),
 "C06-4": ("C06", "/tmp/seed2/C06/_seed/2", "seed_demo_2_test.go", "^(TestSeedDemo2_SnapshotOfShrunkDatabase)$", ".", ['C06'], "",
   'snapshotReader: commit = max(file size, walCommit)',
   'grow, checkpoint, DELETE+VACUUM synced (WAL-only shrink), snapshot before the next checkpoint'),
 "C06-5": ("C06", "/tmp/seed2/C06/_seed/3", "seed_demo_3_test.go", "^(TestSeedDemo3_CompactionAfterRestart)$", ".", ['C06'], "",
   'Replica.MaxLTXFileInfo seeks to the replica position (filters on MinTXID): compacted levels look empty after a restart',
   'levels populated, fresh DB object, replica sync sets the position, then Store.CompactDB'),
 "C07-3": ("C07", "/tmp/seed2/C07/_seed/1", "seed_demo_1_test.go", "^(TestSeedDemo1_L0RetentionNonMonotonicAges)$", ".", ['C07'], "",
   'EnforceL0RetentionByTime: break -> continue, counting loop dropped',
   'L0 ages not monotonic in TXID order with compacted old files behind a young one'),
 "C07-4": ("C07", "/tmp/seed2/C07/_seed/2", "seed_demo_2_test.go", "^(TestSeedDemo2_SnapshotRetentionAfterIdlePeriod)$", ".", ['C07'], "",
   'EnforceSnapshotRetention: lastInfo becomes a defensive copy, the pointer comparison guard goes dead',
   'two snapshots, cascading pass, L0 retention, idle period, second pass with every snapshot expired'),
 "C07-5": ("C07", "/tmp/seed2/C07/_seed/3", "seed_demo_3_test.go", "^(TestSeedDemo3_L0RetentionAfterCompactionBacklog)$", ".", ['C07', 'C06'], "",
   'compaction cap of 128 inputs over-claims the output name; L0 retention trusts it',
   'backlog of >128 source files in one pass followed by L0 retention'),
 "C09-3": ("C09", "/tmp/seed2/C09/_seed/1", "seed_demo_1_test.go", "^(TestSeedDemo1_TransactionCommitsAfterMidwaySync)$", ".", ['C09', 'C02', 'C01'], "",
   'DB.sync takes the end of the copied WAL range from the reader position',
   'sync while a write transaction has spilled frames after a commit in the same window; it then commits'),
 "C09-4": ("C09", "/tmp/seed2/C09/_seed/2", "seed_demo_2_test.go", "^(TestSeedDemo2_SyncWhileTransactionSpills)$", ".", ['C09', 'C02'], "",
   'pageMap without txMap: trailing uncommitted transaction deletes committed entries',
   'sync during an open spilled transaction overlapping pages committed since the previous sync; rollback'),
 "C09-5": ("C09", "/tmp/seed2/C09/_seed/3", "seed_demo_3_test.go", "^(TestSeedDemo3_SnapshotAfterShrink)$", ".", ['C06', 'C09'], "",
   'snapshotReader: commit = max(commit, walCommit)',
   'DELETE+VACUUM still WAL-only, snapshot before the next checkpoint'),
 "C12-3": ("C12", "/tmp/seed2/C12/_seed/1", "seed_demo_1_test.go", "^(TestSeedDemo1_ConcurrentRegisterSamePath)$", ".", ['C12'], "",
   'RegisterDB: second duplicate check and append in separate critical sections',
   'two registrations of one path leaving Open() together under registry-lock contention'),
 "C12-4": ("C12", "/tmp/seed2/C12/_seed/2", "seed_demo_2_test.go", "^(TestSeedDemo2_StoreSyncRacesUnregister)$", ".", ['C12'], "",
   'DB.Close fast path for a never-initialised database skips closed=true',
   'Close before the first sync, then an operation that still reaches the object (SyncDB racing UnregisterDB); the first demo test also asserted that a sync on a closed database returns nil, which fix 94c91f9 (F25) deliberately changed, so only the second test is used'),
 "C12-5": ("C12", "/tmp/seed2/C12/_seed/3", "seed_demo_3_test.go", "^(TestSeedDemo3_StatusQueriesDuringSync)$", ".", ['C12'], "",
   'SyncDiagnostic takes syncDiag.RLock recursively',
   'a sync phase transition (Lock) between the two RLock calls: deadlock holding the executor semaphore'),
 "C13-3": ("C13", "/tmp/seed2/C13/_seed/1", "seed_demo_1_test.go", "^(TestSeedDemo1_WALBoundedAfterFailedSnapshotUpload)$", ".", ['C13', 'C12', 'C05'], "",
   'DB.Snapshot closes the snapshot stream only after a successful upload',
   'fault partway through a snapshot upload: the checkpoint read-lock is never released'),
 "C13-4": ("C13", "/tmp/seed2/C13/_seed/2", "seed_demo_2_test.go", "^(TestSeedDemo2_WALBoundedWithChunkedSyncAfterBurst)$", ".", ['C13'], "",
   'MinCheckpointPageN rule fires only when this sync grew the WAL (`newWALSize > origWALSize`)',
   'small MaxSyncWALBytes, one earlier burst, then trickle writes'),
 "C13-5": ("C13", "/tmp/seed2/C13/_seed/3", "seed_demo_3_test.go", "^(TestSeedDemo3_IdleSilentAfterBurstPastTruncateThreshold)$", ".", ['C13'], "",
   'origWALSize falls back to the WAL file size whenever the previous sync did not reach the end',
   'burst exceeding TruncatePageN between two syncs, then idle'),
 "C15-3": ("C15", "/tmp/seed2/C15/_seed/1", "seed_demo_1_test.go", "^(TestSeedDemo1_TimestampRestoreAfterL0Retention)$", ".", ['C15'], "",
   'CalcRestorePlan resolves the timestamp to a TXID via level 0 (first L0 at/after T minus one)',
   'compaction + L0 retention, T inside the pruned range; T before the first backup'),
 "C15-4": ("C15", "/tmp/seed2/C15/_seed/2", "seed_demo_2_test.go", "^(TestSeedDemo2_TransactionReplicatedDuringRestore)$", ".", ['C15'], "",
   "Restore treats a timestamp after the newest backup as 'latest'",
   'a file replicated between the TimeBounds check and the plan listings'),
 "C15-5": ("C15", "/tmp/seed2/C15/_seed/3", "seed_demo_3_test.go", "^(TestSeedDemo3_SnapshotRequestedDuringSync)$", ".", ['C15'], "",
   'snapshot stamped with time.Now() captured before waiting on the executor semaphore',
   'a sync in flight produces TXID N with a later stamp; T in (stamp, t_N]'),
 # ---- third wave (three changes per property for the properties that had two)
 "C03-3": ("C03", "/tmp/seed3/C03/_seed/1", "seed3_demo1_test.go", "^(TestSeed3Demo1_)", ".", ['C03', 'C02'], "",
   "snapshotWALEndOffset: 'WAL was cut back' guard on the fallback to the last L0 header's WAL extent uses >= instead of >",
   "restart, then a snapshot before any sync of the new process copies WAL frames (previous process killed during its first snapshot upload), un-checkpointed frames in a fully synced WAL"),
 "C03-4": ("C03", "/tmp/seed3/C03/_seed/2", "seed3_demo2_test.go", "^(TestSeed3Demo2_)", ".", ['C03'], "",
   "checkDatabaseBehindReplica downloads the baseline L0 file in place under its final name",
   "database behind the replica at start and a kill during the download; restart then fails forever on the half-written file"),
 "C03-5": ("C03", "/tmp/seed3/C03/_seed/3", "seed3_demo3_test.go", "^(TestSeed3Demo3_)", ".", ['C03', 'C16'], "",
   "WriteTXIDFile rewrites the -txid sidecar in place (O_TRUNC + write + fsync) instead of tmp + rename",
   "follow mode and a kill between the open(O_TRUNC) and the write: empty sidecar, restart refuses"),
 "C08-3": ("C08", "/tmp/seed3/C08/_seed/1", "seed3_demo1_test.go", "^(TestSeed3Demo1_)", ".", ['C08'], "",
   "restoreLevelCursor.ensureCurrent drops any file whose MaxTXID is at or below the highest MaxTXID already listed at that level",
   "a level listing a wide file followed by a file nested inside it, and a TXID/timestamp target that excludes the wide file but not the nested one"),
 "C08-4": ("C08", "/tmp/seed3/C08/_seed/2", "seed3_demo2_test.go", "^(TestSeed3Demo2_)", ".", ['C08', 'C15'], "",
   "CalcRestorePlan snapshot selection: timestamp filter `!CreatedAt.Before(ts)` -> `CreatedAt.After(ts)`",
   "timestamp exactly equal to the creation time of a snapshot-level file"),
 "C08-5": ("C08", "/tmp/seed3/C08/_seed/3", "seed3_demo3_test.go", "^(TestSeed3Demo3_)", ".", ['C08', 'C10'], "",
   "CalcRestorePlan trailing gap check guarded by `currentMax > startTXID` instead of `len(infos) > 0`",
   "latest-state restore where TXID snapshot.Max+1 is missing from every level while files exist beyond the hole"),
 "C10-3": ("C10", "/tmp/seed3/C10/_seed/1", "seed3_demo1_test.go", "^(TestSeed3Demo1)", ".", ['C10'], "",
   "failed integrity check removes the output only when the check reports rows; a PRAGMA that itself errors leaves the bad database in place",
   "integrity check requested and a source damaged in page 1 or the schema root"),
 "C10-4": ("C10", "/tmp/seed3/C10/_seed/2", "seed3_demo2_test.go", "^(TestSeed3Demo2)", ".", ['C10'], "",
   "Restore treats a zero-length regular file at the output path as absent and renames over it",
   "an existing empty output file (possibly with a live -wal next to it)"),
 "C10-5": ("C10", "/tmp/seed3/C10/_seed/3", "seed3_demo3_test.go", "^(TestSeed3Demo3)", ".", ['C10'], "",
   "Restore uses a private copy of DecodeDatabaseTo that stops after the last page: the compactor's end-of-stream checksum failure is never observed",
   "a byte flip inside page payload that still LZ4-decompresses"),
 "C11-3": ("C11", "/tmp/seed3/C11/_seed/1", "seed3_demo1_test.go", "^(TestSeed3Demo1_)", ".", ['C11'], "",
   "WriteTXIDFile skips FsyncDir when the -txid sidecar already existed",
   "second or later sidecar write for the same path (follow-mode progress updates, restarted follower)"),
 "C11-4": ("C11", "/tmp/seed3/C11/_seed/2", "seed3_demo2_test.go", "^(TestSeed3Demo2_)", ".", ['C11', 'C19'], "",
   "RestoreV3: snapshot f.Sync() removed, one fsync added at the end of WAL application, skipped by the early return for zero segments",
   "v0.3.x restore where no WAL segment is selected (snapshot-only backup or a timestamp filtering every segment out)"),
 "C11-5": ("C11", "/tmp/seed3/C11/_seed/3", "seed3_demo3_test.go", "^(TestSeed3Demo3_)", ".", ['C11'], "",
   "Replica.Restore: shadowed err drops every non-ENOSPC fsync error, the database is renamed into place unflushed",
   "fsync of <out>.tmp failing with a non-disk-full error (EIO)"),
 "C14-3": ("C14", "/tmp/seed3/C14/_seed/1", "seed3_demo1_test.go", "^(TestSeed3Demo1_)", ".", ['C14', 'C12'], "",
   "DB.Close removes <db>-wal and <db>-shm when the WAL is 0 bytes long",
   "application connection still open and the WAL emptied by the application's TRUNCATE checkpoint while Close waits for an in-flight snapshot stream"),
 "C14-4": ("C14", "/tmp/seed3/C14/_seed/2", "seed3_demo2_test.go", "^(TestSeed3Demo2_)", ".", ['C14', 'C10'], "",
   "EnsureExists + Restore treat a zero-length database file as missing and rename over it",
   "application has already opened its new, still-empty database; a replica backup exists; more than one WAL generation written"),
 "C14-5": ("C14", "/tmp/seed3/C14/_seed/3", "seed3_demo3_test.go", "^(TestSeed3Demo3_)", ".", ['C14'], "-count=1",
   "snapshot stream opens and closes its own descriptor on the database file, dropping every POSIX lock the process holds on it",
   "application in another process; it closes its last connection and writes again after a snapshot; litestream's later checkpoint truncates the source"),
 "C16-3": ("C16", "/tmp/seed3/C16/_seed/1", "seed3_demo1_internal_test.go", "^(TestSeed3Demo1_)", ".", ['C16'], "",
   "fillFollowGap stop condition `MinTXID > currentTXID+1` -> `MinTXID > gapMinTXID`: a higher-level file starting inside the gap is applied",
   "L1 no longer reaches back to the follower's position but L2 does (retention by TXID; slow or restarted follower)"),
 "C16-4": ("C16", "/tmp/seed3/C16/_seed/2", "seed3_demo2_test.go", "^(TestSeed3Demo2_)", ".", ['C16'], "",
   "follow: header page-size sanity check placed before the `pageSize == 1 -> 65536` normalisation",
   "source database with 64 KiB pages"),
 "C16-5": ("C16", "/tmp/seed3/C16/_seed/3", "seed3_demo3_internal_test.go", "^(TestSeed3Demo3_)", ".", ['C16'], "",
   "applyLTXFile computes the page offset in uint32: pages beyond 4 GiB land at offset mod 2^32",
   "database larger than 4 GiB with a followed transaction touching a page above that mark"),
 "C17-3": ("C17", "/tmp/seed3/C17/_seed/1", "seed3_demo1_internal_test.go", "^(TestSeed3Demo1_)", ".", ['C17', 'C01'], "",
   "Restore writes through a sparseFileWriter that seeks over all-zero pages: a database ending on the lock page comes out one page short",
   "committed range ends exactly on the lock page (SQLite itself never produces such a database) or has trailing zero pages (application running with secure_delete)"),
 "C17-4": ("C17", "/tmp/seed3/C17/_seed/2", "seed3_demo2_internal_test.go", "^(TestSeed3Demo2_)", ".", ['C17', 'C16'], "",
   "follow-mode applyLTXFile truncates/syncs only when the file shrank: the file is never extended to include a trailing lock page",
   "followed LTX file with Commit == LockPgno while the follower file is shorter - an input SQLite never produces (it skips the lock page when the database grows and when it shrinks), so on the property's input domain the change is equivalent; kept as a documented non-detection"),
 "C17-5": ("C17", "/tmp/seed3/C17/_seed/3", "seed3_demo3_internal_test.go", "^(TestSeed3Demo3_)", ".", ['C17'], "",
   "snapshotReader pre-flight check that pages past the end of the file are in the WAL does not exempt the lock page",
   "snapshot while growth across the lock page is still only in the WAL"),
 "C18-3": ("C18", "/tmp/seed3/C18/_seed/1", "cmd/litestream-vfs/seed3_demo1_test.go", "^(TestSeed3Demo1_)", "./cmd/litestream-vfs/", ['C18'], '-tags=vfs,verif',
   "VFS pollLevel: shrink trim of the polled batch rewritten as a range loop that also drops the entry for the new last page",
   "one poll that sees a transaction writing page P followed by a shrink to exactly P pages that does not rewrite P"),
 "C18-4": ("C18", "/tmp/seed3/C18/_seed/2", "cmd/litestream-vfs/seed3_demo2_test.go", "^(TestSeed3Demo2_)", "./cmd/litestream-vfs/", ['C18'], '-tags=vfs,verif',
   "VFS rebuildIndex resets pending/pendingReplace only when no SHARED lock is held (cooperates with Unlock)",
   "time travel set inside a read transaction during which a poll staged newer pages"),
 "C18-5": ("C18", "/tmp/seed3/C18/_seed/3", "cmd/litestream-vfs/seed3_demo3_test.go", "^(TestSeed3Demo3_)", "./cmd/litestream-vfs/", ['C18'], '-tags=vfs,verif',
   "VFS ResetTime re-enables hydrated reads after litestream_time=latest",
   "hydration complete, time travel, a primary commit during the time-travel window, reset to latest"),
 "C19-3": ("C19", "/tmp/seed3/C19/_seed/1", "seed3_demo1_test.go", "^(TestSeed3Demo1_)", ".", ['C19'], "",
   "shouldUseV3Restore measures v0.3.x recency from the newest legacy snapshot only (no TimeBoundsV3)",
   "both formats, no timestamp, newest legacy snapshot older than the newest LTX file, a legacy WAL segment newer than it"),
 "C19-4": ("C19", "/tmp/seed3/C19/_seed/2", "seed3_demo2_test.go", "^(TestSeed3Demo2_)", ".", ['C19'], "",
   "findBestV3SnapshotForTimestamp keeps only the last snapshot of each generation as a candidate",
   "both formats, timestamp T, a legacy generation with snapshots straddling T, an eligible LTX snapshot older than the eligible legacy one"),
 "C19-5": ("C19", "/tmp/seed3/C19/_seed/3", "seed3_demo3_test.go", "^(TestSeed3Demo3_)", ".", ['C19'], "",
   "filterWALSegmentsV3 makes the timestamp bound exclusive (`After` -> `!Before`)",
   "legacy restore with a timestamp exactly equal to a WAL segment's creation time"),
 "C20-3": ("C20", "/tmp/seed3/C20/_seed/1", "s3/seed3_demo1_test.go", "^(TestSeed3Demo1_)", "./s3/", ['C20'], "",
   "Lease.IsExpired returns true 2 s before ExpiresAt (LeaseExpiryMargin); AcquireLease reuses it to judge other instances' leases",
   "an acquire by another instance within the last 2 s of a live lease"),
 "C20-4": ("C20", "/tmp/seed3/C20/_seed/2", "s3/seed3_demo2_test.go", "^(TestSeed3Demo2_)", "./s3/", ['C20'], "",
   "ReleaseLease drops the If-Match precondition when the caller's lease is already expired",
   "A expires, B takes over, A releases its old lease, a third instance acquires"),
 "C20-5": ("C20", "/tmp/seed3/C20/_seed/3", "s3/seed3_demo3_test.go", "^(TestSeed3Demo3_)", "./s3/", ['C20'], "",
   "AcquireLease supersedes a live lease whose Owner equals its own",
   "two distinct instances with the same Owner string, the second acquiring while the first's lease is live"),
 # ---- fourth wave (two changes per property, after the fixes of this round)
 "C01-6": ("C01", "/tmp/seed4/C01/_seed/1", "seed4_demo1_test.go", "^(TestSeed4Demo1_)", ".", ['C01', 'C02', 'C09'], "",
   'wal_reader.go pageMap refactored to one map with deletion of entries past the last commit: a page changed by a committed, not yet synced transaction and again by an uncommitted tail loses its committed version',
   'sync while the application has an open write transaction whose dirty pages were cache-spilled to the WAL, touching a page committed since the last sync'),
 "C01-7": ("C01", "/tmp/seed4/C01/_seed/2", "seed4_demo2_test.go", "^(TestSeed4Demo2_)", ".", ['C04', 'C01'], "",
   'prevGenerationContinues only counts the frame behind the last synced offset if it is a commit record',
   'litestream closed; the application commits a transaction of two or more frames, checkpoints completely, commits a short transaction that restarts the WAL; litestream reopens'),
 "C02-6": ("C02", "/tmp/seed4/C02/_seed/1", "seed4_demo1_test.go", "^(TestSeed4Demo1_)", ".", ['C04', 'C02'], "",
   'detectFullCheckpoint `len(m) >= 1` -> `> 1` (same idea as C01-1, written independently for C02)',
   'litestream stopped at the end of the WAL; the application restarts the WAL exactly twice, each generation shorter; restart'),
 "C02-7": ("C02", "/tmp/seed4/C02/_seed/2", "seed4_demo2_internal_test.go", "^(TestSeed4Demo2_)", ".", ['C06', 'C02', 'C12'], "",
   'walUncopiedSinceInit cleared by any sync that produced a file (`result.synced || !result.limited`)',
   'startup backlog larger than MaxSyncWALBytes (chunked catch-up), an application checkpoint after init, a snapshot between two chunks'),
 "C03-6": ("C03", "/tmp/seed4/C03/_seed/1", "seed4_demo1_test.go", "^(TestSeed4Demo1_)", ".", ['C16', 'C03'], "",
   'follow-mode Restore: the TXID sidecar write before the database rename dropped as a duplicate (re-introduces F15)',
   'restore -f killed between renaming the database and writing the sidecar'),
 "C03-7": ("C03", "/tmp/seed4/C03/_seed/2", "seed4_demo2_test.go", "^(TestSeed4Demo2_)", ".", ['C03', 'C04'], "",
   'checkDatabaseBehindReplica call removed from init(); the remaining call only runs when the local position is zero',
   "kill midway through ResetLocalState's RemoveAll leaving some level-0 files but not the newest; restart: position looks valid but is behind the replica"),
 "C04-6": ("C04", "/tmp/seed4/C04/_seed/1", "seed4_demo1_test.go", "^(TestSeed4Demo1_)", ".", ['C04'], "",
   'verifyWithExecutor: cursor exactly one frame into the WAL with changed salts no longer forces a snapshot',
   'cursor left one frame into the WAL by a litestream checkpoint; litestream down while the application writes and restarts the WAL (new generation >= 2 frames); restart with the same meta dir'),
 "C04-7": ("C04", "/tmp/seed4/C04/_seed/2", "seed4_demo2_test.go", "^(TestSeed4Demo2_)", ".", ['C04'], "",
   'lastPageMatch reads only the frame header: the page image is no longer compared',
   'database and -wal rolled back to an earlier copy of the same WAL generation with the meta dir kept; the application writes past the old cursor with the same page number at the cursor'),
 "C05-6": ("C05", "/tmp/seed4/C05/_seed/1", "seed4_demo1_test.go", "^(TestSeed4Demo1_)", ".", ['C05'], "",
   'Replica.syncOnce uploads pending L0 files in concurrent batches of 4; after a batch error calcPos (max L0 on the replica) jumps over the hole',
   'backlog of >= 2 pending L0 files and a transient upload failure of a non-last member of a batch while a later member succeeds'),
 "C05-7": ("C05", "/tmp/seed4/C05/_seed/2", "seed4_demo2_test.go", "^(TestSeed4Demo2_)", ".", ['C05', 'C06'], "",
   'Compactor.Compact: when OpenLTXFile fails on a later source it compacts the files opened so far; the output is named for a range it does not contain',
   'remote-source compaction with >= 2 sources and a transient open failure on a non-first source'),
 "C06-6": ("C06", "/tmp/seed4/C06/_seed/1", "seed4_demo1_test.go", "^(TestSeed4Demo1_)", ".", ['C06'], "",
   "Compactor.Compact early exit using the cached newest source (for a DB the local L0 file, not the replica's): output named up to the local max",
   'replica lag: write, DB.Sync, no Replica.Sync yet, Compact(1)'),
 "C06-7": ("C06", "/tmp/seed4/C06/_seed/2", "seed4_demo2_test.go", "^(TestSeed4Demo2_)", ".", ['C06', 'C12'], "",
   'DB.MaxLTXFileInfo no longer holds the cache lock across the remote LIST: a stale lookup overwrites the entry a concurrent compaction just stored',
   'cold cache after a restart plus a level-1 lookup racing with a finishing Compact(1)'),
 "C07-6": ("C07", "/tmp/seed4/C07/_seed/1", "seed4_demo1_test.go", "^(TestSeed4Demo1_)", ".", ['C07', 'C12'], "",
   "Store.EnforceSnapshotRetention keeps retention floors in a map keyed by the database file's base name",
   "two databases in one Store whose files share a base name; A's expired-snapshot TXID exceeds B's newest snapshot"),
 "C07-7": ("C07", "/tmp/seed4/C07/_seed/2", "seed4_demo2_test.go", "^(TestSeed4Demo2_)", ".", ['C05', 'C07', 'C06'], "",
   "Compactor publishes the destination level's new max to the cache before the upload and does not roll it back on failure",
   'one L1 upload fails transiently while the process keeps running; a later L1 compaction seeks past the failed range; L0 retention deletes the only copies'),
 "C08-6": ("C08", "/tmp/seed4/C08/_seed/1", "seed4_demo1_test.go", "^(TestSeed4Demo1_)", ".", ['C08'], "",
   "CalcRestorePlan's trailing gap check looks only at the level-0 cursor",
   'latest restore, a real TXID gap, and no L0 file beyond the gap (L1 holds 1-5 and 7-10, L0 pruned)'),
 "C08-7": ("C08", "/tmp/seed4/C08/_seed/2", "seed4_demo2_test.go", "^(TestSeed4Demo2_)", ".", ['C08', 'C15'], "",
   'CalcRestorePlan: for a timestamp before every snapshot it falls back to the oldest retained snapshot',
   "timestamp restore with a requested time earlier than every snapshot's CreatedAt"),
 "C09-6": ("C09", "/tmp/seed4/C09/_seed/1", "seed4_demo1_test.go", "^(TestSeed4Demo1_)", ".", ['C09', 'C04'], "",
   "NewWALReaderWithOffset: the caller's salts are overwritten by readHeader(), a resumed reader accepts a previous frame from a newer WAL generation",
   'resume offset past the header, WAL restarted since the last sync and regrown beyond the old offset'),
 "C09-7": ("C09", "/tmp/seed4/C09/_seed/2", "seed4_demo2_test.go", "^(TestSeed4Demo2_)", ".", ['C09', 'C01'], "",
   'pageMap prunes pages beyond the commit size only when a commit record lowered the size',
   'a single transaction that spills high page numbers and commits at the old size (auto_vacuum=FULL, small cache, grow-then-delete in one transaction)'),
 "C10-6": ("C10", "/tmp/seed4/C10/_seed/1", "seed4_demo1_test.go", "^(TestSeed4Demo1_)", ".", ['C10'], "",
   "file.ReplicaClient.LTXFiles no longer lists zero-length files: Restore's size check never sees a plan file truncated to 0",
   'truncate at offset 0 of the newest plan file (the level-0 tail)'),
 "C10-7": ("C10", "/tmp/seed4/C10/_seed/2", "seed4_demo2_test.go", "^(TestSeed4Demo2_)", ".", ['C10'], "",
   'Restore claims the output path with an O_EXCL placeholder; an early return leaves a 0-byte file at the output path',
   'any plan file truncated to fewer than 100 bytes'),
 "C11-6": ("C11", "/tmp/seed4/C11/_seed/1", "seed4_demo1_test.go", "^(TestSeed4Demo1_)", ".", ['C11'], "",
   'checkDatabaseBehindReplica fsyncs <meta>/ltx instead of <meta>/ltx/0 after renaming the fetched baseline',
   'database-behind-replica sequence (meta directory lost, restart)'),
 "C11-7": ("C11", "/tmp/seed4/C11/_seed/2", "seed4_demo2_test.go", "^(TestSeed4Demo2_)", ".", ['C11'], "",
   'syncParentDir helper returns nil when filepath.Dir(path) == "."',
   'restore output path without a directory component'),
 "C12-6": ("C12", "/tmp/seed4/C12/_seed/1", "seed4_demo1_test.go", "^(TestSeed4Demo1_)", ".", ['C12'], "",
   "DB.Close acquires the executor with the caller's context (lockExec) instead of context.WithoutCancel",
   'Close with a deadline that expires while another operation holds the executor: returns before any cleanup'),
 "C12-7": ("C12", "/tmp/seed4/C12/_seed/2", "seed4_demo2_test.go", "^(TestSeed4Demo2_)", ".", ['C12', 'C13'], "",
   'DB.Snapshot closes the stream only after a successful upload (same idea as C13-3)',
   'a storage fault that makes a level-9 upload return an error before draining the stream'),
 "C13-6": ("C13", "/tmp/seed4/C13/_seed/1", "seed4_demo1_test.go", "^(TestSeed4Demo1_)", ".", ['C13'], "",
   'checkpointIfNeeded truncate rule checks only the offset the sync started from',
   'TruncatePageN below MinCheckpointPageN and the WAL crossing the truncate threshold between two syncs'),
 "C13-7": ("C13", "/tmp/seed4/C13/_seed/2", "seed4_demo2_test.go", "^(TestSeed4Demo2_)", ".", ['C13'], "",
   'two cooperating sites: the bookkeeping frame is copied at once after a PASSIVE checkpoint that could not restart the WAL; MinCheckpointPageN rule guarded by syncedSinceCheckpoint',
   "a short application read transaction overlapping one sync's checkpoint, then the application goes idle"),
 "C14-6": ("C14", "/tmp/seed4/C14/_seed/1", "seed4_demo1_test.go", "^(TestSeed4Demo1_)", ".", ['C14', 'C12'], "",
   'promoteToWriteTx helper: the busy retry of the _litestream_lock insert runs on db.db instead of the transaction and autocommits a row',
   "an application write transaction holding the lock for longer than litestream's busy timeout exactly when litestream promotes its own transaction"),
 "C14-7": ("C14", "/tmp/seed4/C14/_seed/2", "seed4_demo2_test.go", "^(TestSeed4Demo2_)", ".", ['C14'], "",
   'init records the journal mode it found and Close switches a non-WAL database back to it',
   'a database that was not in WAL mode when litestream first touched it, clean Close, no other connection open'),
 "C15-6": ("C15", "/tmp/seed4/C15/_seed/1", "seed4_demo1_test.go", "^(TestSeed4Demo1_)", ".", ['C15', 'C08'], "",
   'restoreLevelCursor.refresh: `!CreatedAt.Before(T)` -> `CreatedAt.After(T)` (inclusive boundary for non-snapshot files)',
   'T exactly equal to the creation time of an L0 or compacted file'),
 "C15-7": ("C15", "/tmp/seed4/C15/_seed/2", "seed4_demo2_test.go", "^(TestSeed4Demo2_)", ".", ['C15', 'C08'], "",
   'CalcRestorePlan moves a whole-second target +1 s',
   'T on a whole second and a transaction replicated within [T, T+1s)'),
 "C16-6": ("C16", "/tmp/seed4/C16/_seed/1", "seed4_demo1_test.go", "^(TestSeed4Demo1_)", ".", ['C16'], "",
   'follow-resume check refuses when earliestSnapshot.MaxTXID > saved TXID',
   'follower restarted while its saved TXID is below the earliest snapshot although every later LTX file still exists'),
 "C16-7": ("C16", "/tmp/seed4/C16/_seed/2", "seed4_demo2_test.go", "^(TestSeed4Demo2_)", ".", ['C16'], "",
   'fillFollowGap stops escalating to higher levels once a level shows a gap',
   'L0 compacted away, the covering L1 file removed by retention, an L2 file still covers the follower position'),
 "C17-6": ("C17", "/tmp/seed4/C17/_seed/1", "seed4_demo1_test.go", "^(TestSeed4Demo1_)", ".", ['C17', 'C16'], "",
   'follow-mode applyLTXFile rejects a page written beyond the end of the file, with no exemption across the lock page',
   'follower started while the database is under 1 GiB; the source then grows across the lock page'),
 "C17-7": ("C17", "/tmp/seed4/C17/_seed/2", "seed4_demo2_test.go", "^(TestSeed4Demo2_)", ".", ['C17'], "",
   'writeLTXFromDB split into runs below and above the lock page with `commit > lockPgno+1`',
   'a full copy taken while the database has exactly lockPgno+1 pages'),
 "C18-6": ("C18", "/tmp/seed4/C18/_seed/1", "cmd/litestream-vfs/seed4_demo1_test.go", "^(TestSeed4Demo1_)", "./cmd/litestream-vfs/", ['C18'], "-tags=vfs,verif",
   "Hydrator.CatchUp skips restore-plan files whose MinTXID (was MaxTXID) is at or before the hydrated copy's TXID",
   "hydrated copy behind the position and an L1+ file straddling the copy's TXID with at least one more plan file after it"),
 "C18-7": ("C18", "/tmp/seed4/C18/_seed/2", "cmd/litestream-vfs/seed4_demo2_test.go", "^(TestSeed4Demo2_)", "./cmd/litestream-vfs/", ['C18'], "-tags=vfs,verif",
   'VFS pollLevel: shrink detection limited to level 0',
   'a read replica that catches up through L1 across a VACUUM / auto_vacuum shrink'),
 "C19-6": ("C19", "/tmp/seed4/C19/_seed/1", "seed4_demo1_test.go", "^(TestSeed4Demo1_)", ".", ['C19'], "",
   'applyWALSegmentsV3 starts a new WAL file on an index change; the first listed segment of an index is accepted at any offset',
   'a WAL index with exactly two segments whose offset-0 segment is missing'),
 "C19-7": ("C19", "/tmp/seed4/C19/_seed/2", "seed4_demo2_test.go", "^(TestSeed4Demo2_)", ".", ['C19'], "",
   'RestoreV3 logs and skips a SnapshotsV3 listing error for a generation',
   "two legacy generations and a transient listing error for the newest one during RestoreV3's collection pass"),
 "C20-6": ("C20", "/tmp/seed4/C20/_seed/1", "s3/seed4_demo1_test.go", "^(TestSeed4Demo1_)", "./s3/", ['C20'], "",
   "RenewLease writes the caller's lease back with If-None-Match:* when the lock object is gone",
   'A acquires, expires; B acquires, releases; A renews its old lease'),
 "C20-7": ("C20", "/tmp/seed4/C20/_seed/2", "s3/seed4_demo2_test.go", "^(TestSeed4Demo2_)", "./s3/", ['C20'], "",
   'writeLease stores ExpiresAt truncated to the second; the holder keeps full precision',
   "a contender acquiring in the last sub-second of the holder's lease"),
}


# remarks printed in the table (why a change is not, or no longer, detected; rebased patches)
REMARK = {
 "C05-4": "not a violation of the property as stated: with the change a mid-stream download error that carries data makes the restore FAIL (the stream is resumed at a stale offset and the checksum rejects it); C10 allows an error, C05 only asks that the replica stays restorable through a fault-free view. The demonstration asks for a transparent retry, which the property permits but does not demand. Kept as a documented non-detection; the bytes-with-error read shape was added to C05 and C10 because of it",
 "C17-4": "equivalent on the property's input domain: it needs an LTX file whose Commit equals the lock page number, and SQLite never produces such a database (allocateBtreePage and the auto-vacuum truncation both step over the lock page)",
 "C12-2": "neutralised by fix 0b54bc0 (F26): registrations of one path are serialised, so the weakened second duplicate check is never exercised concurrently; the demonstration no longer fails",
 "C12-3": "caught by the C12 registration storm before fix 0b54bc0 (F26) (Store.DBs listed the path up to 16 times); that fix serialises registrations of one path, after which the change is harmless and its demonstration no longer fails",
 "C12-4": "the first test of the demonstration asserted that a sync on a closed database returns nil, which fix 94c91f9 (F25) deliberately changed; the second test is used",
 "C09-6": "the sub-agent's demonstration passes with the patch on the current HEAD (the history it uses is sent to a full snapshot by DB.verify before the reader is resumed); the change itself is caught by C09 (a reader resumed with the salts of another generation returns frames) and by C04",
 "C02-6": "same idea as C01-1, written independently for C02; the property it breaks is C04's",
 "C02-7": "patch rebased on fix c9f4234 (patch.orig.diff is the sub-agent's original)",
 "C04-6": "patch rebased on fix 99e28af (patch.orig.diff is the sub-agent's original)",
 "C14-3": "the demonstration was invalidated by fix e77bb49 (F35): it expects the application's TRUNCATE checkpoint to succeed while Close is still waiting for an open snapshot stream, which is exactly the behaviour that fix removed (it now times out with and without the patch); the change is still caught by C12",
 "C18-5": "patch rebased on the hydration fixes (patch.orig.diff is the sub-agent's original)",
}


def do_import():
    for sid, t in S.items():
        src = t[1]
        dst = os.path.join(SEEDED, sid)
        if os.path.exists(os.path.join(dst, "patch.diff")) or not os.path.exists(os.path.join(src, "patch.diff")):
            continue
        os.makedirs(dst, exist_ok=True)
        for f in ("patch.diff", "demo_test.go", "NOTES.md"):
            p = os.path.join(src, f)
            if os.path.exists(p):
                shutil.copy(p, os.path.join(dst, f))
        write_meta(sid, None)
    print("imported", len(S))


def write_meta(sid, results):
    prop, src, dest, rx, pkg, checks, flags, what, needs = S[sid]
    mp = os.path.join(SEEDED, sid, "meta.json")
    meta = {}
    if os.path.exists(mp):
        meta = json.load(open(mp))
    meta.update({
        "id": sid, "breaks_property": prop, "change": what, "needs_to_manifest": needs,
        "demonstration": {"file": "demo_test.go", "place_at": dest,
                          "command": f"go test {flags} -vet=off -count=1 -run '{rx}' {pkg}".replace("  ", " ")},
        "origin": "written by an independent sub-agent that saw only the property text and a scratch worktree of /repo",
    })
    if results is not None:
        meta["confirmed"] = results["confirmed"]
        meta["ran"] = results["ran"]
        meta["checks"] = results["checks"]
        meta["repo_head"] = results["head"]
    json.dump(meta, open(mp, "w"), indent=1)


def run(ids):
    head = subprocess.run(["git", "-C", "/repo", "rev-parse", "--short", "HEAD"], capture_output=True, text=True).stdout.strip()
    for sid in ids:
        prop, src, dest, rx, pkg, checks, flags, what, needs = S[sid]
        d = os.path.join(SEEDED, sid)
        env = dict(os.environ)
        if flags:
            env["SEED_TEST_FLAGS"] = flags
            env["CGO_ENABLED"] = "1"
        p = subprocess.run([os.path.join(ROOT, "tools", "seedeval.sh"), d, dest, rx, pkg] + checks, capture_output=True, text=True, env=env)
        out = p.stdout + p.stderr
        m = re.search(r"demo clean: \[(.*?)\] mutated: \[(.*?)\]", out)
        clean, mut = (m.group(1), m.group(2)) if m else ("?", "?")
        confirmed = clean.startswith("ok") and "FAIL" in mut
        cres = {}
        for c in checks:
            mm = re.search(rf"check {c} exit=(\d+) ?(.*)", out)
            if mm:
                keys = re.findall(r"key=(\S+)", out.split(f"check {c} exit=")[1].split("SEED ")[0])
                cres[c] = {"exit": int(mm.group(1)), "summary": mm.group(2)[:160], "caught": mm.group(1) == "1", "keys": sorted(set(keys))[:4]}
        write_meta(sid, {"confirmed": confirmed, "ran": f"tools/seedeval.sh {d} {dest} '{rx}' {pkg} {' '.join(checks)} (scratch worktree of /repo HEAD + patch, VERIF_REPO)", "checks": cres, "head": head})
        print(sid, "confirmed" if confirmed else "NOT-CONFIRMED", {c: ("CAUGHT" if r["caught"] else f"missed(exit={r['exit']})") for c, r in cres.items()}, flush=True)


def table():
    print("| id | change | needs | demonstration confirmed | caught by (quick tier) | remark |")
    print("|----|--------|-------|------|------|------|")
    for sid in S:
        mp = os.path.join(SEEDED, sid, "meta.json")
        meta = json.load(open(mp)) if os.path.exists(mp) else {}
        cs = meta.get("checks", {})
        caught = ", ".join(f"{c} ({'; '.join(r['keys'][:2])})" for c, r in cs.items() if r.get("caught")) or "**missed**"
        missed = [c for c, r in cs.items() if not r.get("caught")]
        if missed and caught != "**missed**":
            caught += "; not by " + ", ".join(missed)
        print(f"| {sid} | {S[sid][7]} | {S[sid][8]} | {'yes' if meta.get('confirmed') else 'no (see remark)'} | {caught} | {REMARK.get(sid, '')} |")


def design():
    """rewrites the table region of DESIGN.md"""
    import io, contextlib
    buf = io.StringIO()
    with contextlib.redirect_stdout(buf):
        table()
    dp = os.path.join(ROOT, "DESIGN.md")
    d = open(dp).read()
    a, b = d.index("<!-- SEEDTABLE-BEGIN -->"), d.index("<!-- SEEDTABLE-END -->")
    d = d[:a] + "<!-- SEEDTABLE-BEGIN -->\n" + buf.getvalue() + d[b:]
    open(dp, "w").write(d)
    print("DESIGN.md table rewritten:", buf.getvalue().count("\n") - 2, "rows")


if __name__ == "__main__":
    cmd = sys.argv[1] if len(sys.argv) > 1 else "table"
    if cmd == "import":
        do_import()
    elif cmd == "run":
        run(sys.argv[2:] or list(S))
    elif cmd == "design":
        design()
    else:
        table()
