package c19

import (
	"fmt"
	"os"
	"path/filepath"
	"sort"
	"strings"
	"time"

	"verif/harness/internal/sq"
)

// Violation keys.
const (
	keyF9        = "gap-at-index-start-offset-equals-prev-wal-length"
	keyGap       = "v3-gap-not-detected"
	keyWrong     = "v3-restore-wrong-state"
	keyFailed    = "v3-restore-failed"
	keyArb       = "v3-format-arbitration"
	keyArbNoSnap = "v3-format-arbitration-ltx-without-level9-before-timestamp"
	keyErrOutput = "v3-error-but-output-present"
)

// chainPart: the first n bytes of the WAL of index idx are applied.
type chainPart struct {
	idx int
	n   int64
}

// outcome is what the property demands for one request on one layout state.
type outcome struct {
	wantErr bool
	why     string // reason for wantErr
	gapKey  string // violation key if the gap goes undetected
	gen     int
	snap    int // snapshot index
	chain   []chainPart
	k       int64 // ledger value of the expected state (from the generator's commit records)
	// truncatedMid: the tail of a non-final index is absent but nothing in the
	// listing shows it (index i ends early, index i+1 starts at offset 0). No
	// reader of this format can see that gap; an error or the state obtained by
	// applying what is listed are both accepted, and the class is only counted.
	truncatedMid bool
}

func (o *outcome) key() string {
	var sb strings.Builder
	fmt.Fprintf(&sb, "g%d s%d", o.gen, o.snap)
	for _, c := range o.chain {
		fmt.Fprintf(&sb, " %d:%d", c.idx, c.n)
	}
	return sb.String()
}

// expectV3 is the independent model of the property for the legacy format:
// newest snapshot not newer than T (any, for T zero); the contiguous run of
// segments of that snapshot's generation from (snapshot index, offset 0) among
// those not newer than T; a hole in offsets or indices ⇒ error.
func (L *layout) expectV3(T time.Time) *outcome {
	var best *snapFile
	for _, s := range L.snaps {
		if !T.IsZero() && s.t.After(T) {
			continue
		}
		if best == nil || s.t.After(best.t) {
			best = s
		}
	}
	if best == nil {
		return &outcome{wantErr: true, why: "no snapshot at or before the requested time"}
	}
	g := L.gens[best.gen]
	var list []*segFile
	for _, sg := range g.segs {
		if !sg.present || sg.index < best.index {
			continue
		}
		if !T.IsZero() && sg.t.After(T) {
			continue
		}
		list = append(list, sg)
	}
	sort.Slice(list, func(a, b int) bool {
		if list[a].index != list[b].index {
			return list[a].index < list[b].index
		}
		return list[a].off < list[b].off
	})
	o := &outcome{gen: best.gen, snap: best.index, k: g.idx[best.index].kStart}
	maxIdx := -1
	for _, sg := range list {
		if sg.index > maxIdx {
			maxIdx = sg.index
		}
	}
	curIdx, curOff := best.index, int64(0)
	flush := func() {
		if curOff > 0 {
			o.chain = append(o.chain, chainPart{curIdx, curOff})
		}
	}
	for _, sg := range list {
		switch {
		case sg.index == curIdx && sg.off == curOff:
			curOff += int64(len(sg.data))
		case sg.index == curIdx+1 && sg.off == 0 && curOff > 0:
			if curOff < int64(len(g.idx[curIdx].wal)) {
				o.truncatedMid = true
			}
			flush()
			curIdx, curOff = sg.index, int64(len(sg.data))
		default:
			o.wantErr = true
			o.why = fmt.Sprintf("gap: next expected segment %d/%d (or %d/0), listing continues with %d/%d", curIdx, curOff, curIdx+1, sg.index, sg.off)
			o.gapKey = keyGap
			if curOff > 0 && sg.index == curIdx+1 && sg.off == curOff && maxIdx == curIdx+1 {
				// F9 class: the offset-0 segment of index i+1 is missing, a later segment of
				// i+1 starts exactly at the byte length reached in index i, no later index.
				o.gapKey = keyF9
			}
			return o
		}
	}
	flush()
	// ledger value from the generator's commit records
	for _, c := range o.chain {
		for _, cr := range g.idx[c.idx].commits {
			if cr.endOff <= c.n && cr.k > o.k {
				o.k = cr.k
			}
		}
	}
	return o
}

// reference asks real SQLite for the database obtained from the generator's
// records: dbStart of the snapshot index, then each WAL (prefix) checkpointed.
type refCache struct {
	dir string
	m   map[string][]byte
	n   int
}

func (rc *refCache) get(L *layout, o *outcome) ([]byte, error) {
	k := o.key()
	if b, ok := rc.m[k]; ok {
		return b, nil
	}
	rc.n++
	d, err := os.MkdirTemp(rc.dir, "ref")
	if err != nil {
		return nil, err
	}
	defer os.RemoveAll(d)
	p := filepath.Join(d, "db")
	g := L.gens[o.gen]
	img := g.idx[o.snap].dbStart
	if err := os.WriteFile(p, img, 0o644); err != nil {
		return nil, err
	}
	for _, c := range o.chain {
		if err := os.WriteFile(p+"-wal", g.idx[c.idx].wal[:c.n], 0o644); err != nil {
			return nil, err
		}
		_ = os.Remove(p + "-shm")
		img, err = sq.CheckpointedImage(p)
		if err != nil {
			return nil, fmt.Errorf("reference (index %d, %d bytes): %w", c.idx, c.n, err)
		}
	}
	rc.m[k] = img
	return img, nil
}
