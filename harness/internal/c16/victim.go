package c16

import (
	"bufio"
	"context"
	"fmt"
	"io"
	"log/slog"
	"os"
	"os/signal"
	"strconv"
	"sync"
	"syscall"
	"time"

	"github.com/benbjohnson/litestream"
	"github.com/benbjohnson/litestream/file"
	"github.com/superfly/ltx"
)

// pollState is what the harness knows about a follower's progress. It is fed
// by the counting ReplicaClient proxy (in-process follower) or by the POLL
// lines the victim process prints (follower process). A "poll" is one call of
// LTXFiles(level 0, seek>0): follow mode makes exactly one at the start of
// every poll cycle with seek = lastTXID+1, and only writes the sidecar for a
// cycle before starting the next one. A listing with seek 0 belongs to the
// restore plan of the initial restore.
type pollState struct {
	mu    sync.Mutex
	polls int // poll cycles started
	last  int // follower's applied TXID when the latest poll cycle started (seek-1)
	plans int // level-0 listings with seek 0 (restore plan)
}

func (p *pollState) note(seek int) {
	p.mu.Lock()
	if seek == 0 {
		p.plans++
	} else {
		p.polls++
		p.last = seek - 1
	}
	p.mu.Unlock()
}

func (p *pollState) get() (polls, last int) {
	p.mu.Lock()
	defer p.mu.Unlock()
	return p.polls, p.last
}

// pollClient is an ordinary ReplicaClient that forwards everything to the file
// client and reports level-0 listings. It hides the v0.3.x interface of the
// file client, which follow mode does not use.
type pollClient struct {
	litestream.ReplicaClient
	onList func(seek int)
}

func (c *pollClient) LTXFiles(ctx context.Context, level int, seek ltx.TXID, useMetadata bool) (ltx.FileIterator, error) {
	if level == 0 && c.onList != nil {
		c.onList(int(seek))
	}
	return c.ReplicaClient.LTXFiles(ctx, level, seek, useMetadata)
}

func discard() *slog.Logger { return slog.New(slog.NewTextHandler(io.Discard, nil)) }

func followOptions(out string, interval time.Duration) litestream.RestoreOptions {
	opt := litestream.NewRestoreOptions()
	opt.OutputPath = out
	opt.Follow = true
	opt.FollowInterval = interval
	return opt
}

// victimMain: <self> victim-c16 <replica dir> <output path> <interval ms> [gate]
// Runs Replica.Restore in follow mode until stdin reaches EOF or SIGTERM
// arrives (graceful stop) or the process is killed. Prints "POLL <n> <seek>"
// per level-0 listing and a final "EXIT OK" / "EXIT ERR <msg>".
func victimMain(args []string) int {
	slog.SetDefault(discard())
	if len(args) < 3 {
		fmt.Println("EXIT ERR usage: victim-c16 <replica> <output> <interval-ms>")
		return 3
	}
	rep, out := args[0], args[1]
	ms, _ := strconv.Atoi(args[2])
	if ms <= 0 {
		ms = 10
	}
	gated := len(args) > 3 && args[3] == "gate"
	ctx, cancel := context.WithCancel(context.Background())
	permits := make(chan struct{}, 4096)
	go func() { // stdin: "P" lines permit one poll cycle each (gated mode); EOF = graceful stop
		sc := bufio.NewScanner(os.Stdin)
		for sc.Scan() {
			select {
			case permits <- struct{}{}:
			default:
			}
		}
		cancel()
	}()
	sigc := make(chan os.Signal, 1)
	signal.Notify(sigc, syscall.SIGTERM, syscall.SIGINT)
	go func() { <-sigc; cancel() }()

	w := bufio.NewWriter(os.Stdout)
	var mu sync.Mutex
	n := 0
	pc := &pollClient{ReplicaClient: file.NewReplicaClient(rep), onList: func(seek int) {
		mu.Lock()
		n++
		fmt.Fprintf(w, "POLL %d %d\n", n, seek)
		w.Flush()
		mu.Unlock()
		if gated && seek > 0 {
			// The driver decides when a poll cycle may look at the replica, so that
			// a replica change is never observed half-way through a cycle.
			select {
			case <-permits:
			case <-ctx.Done():
			}
		}
	}}
	r := litestream.NewReplicaWithClient(nil, pc)
	err := r.Restore(ctx, followOptions(out, time.Duration(ms)*time.Millisecond))
	mu.Lock()
	defer mu.Unlock()
	if err != nil {
		fmt.Fprintf(w, "EXIT ERR %s\n", oneLine(err.Error()))
		w.Flush()
		return 1
	}
	fmt.Fprintln(w, "EXIT OK")
	w.Flush()
	return 0
}

func oneLine(s string) string {
	b := []byte(s)
	for i, c := range b {
		if c == '\n' || c == '\r' {
			b[i] = ' '
		}
	}
	return string(b)
}
