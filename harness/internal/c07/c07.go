// Package c07: retention never deletes what the latest restore needs
// (DESIGN §4 C07).
package c07

import (
	"bytes"
	"context"
	"database/sql"
	"crypto/sha256"
	"encoding/json"
	"fmt"
	"io"
	"log/slog"
	"math/rand"
	"os"
	"path/filepath"
	"strings"
	"time"

	"github.com/benbjohnson/litestream"
	"github.com/benbjohnson/litestream/file"
	"github.com/superfly/ltx"

	"verif/harness/internal/hist"
	"verif/harness/internal/oracle"
	"verif/harness/internal/sq"
	"verif/harness/internal/vf"
)

type spec struct {
	Seed     int64       `json:"seed"`
	Ops      int         `json:"ops"`
	Levels   int         `json:"levels"` // compaction levels above 0 (1..3)
	Cfg      hist.Config `json:"cfg"`
	Mode     string      `json:"mode"`    // db | store | compactor (which retention entry points are driven)
	Enabled  bool        `json:"enabled"` // RetentionEnabled at start
	L0RetMin int         `json:"l0_ret_min"`
	SnRetMin int         `json:"snap_ret_min"`
	OldPct   int         `json:"old_pct"` // share of planted ages on the old side of the threshold
	// Twin (store mode): the Store manages a second database whose file has the same base name
	// in another directory and whose replica is far ahead in TXIDs; its retention pass runs
	// right before every Store retention pass of the database under observation
	Twin bool `json:"twin,omitempty"`
}

// twin is the second database of a Store (same file name, other directory, own replica).
type twin struct {
	db  *litestream.DB
	app *sql.DB
	rep string
	n   int
}

func (st *state) startTwin(dir string) error {
	e := st.e
	tdir := filepath.Join(dir, "twin")
	if err := os.MkdirAll(tdir, 0o755); err != nil {
		return err
	}
	path := filepath.Join(tdir, filepath.Base(e.DBPath))
	app, err := sq.Create(path, 4096, 0)
	if err != nil {
		return err
	}
	if _, err := app.Exec(`CREATE TABLE tw(id INTEGER PRIMARY KEY, v BLOB)`); err != nil {
		return err
	}
	db := litestream.NewDB(path)
	db.MonitorInterval = 0
	db.ShutdownSyncTimeout = 0
	db.BusyTimeout = 20 * time.Millisecond
	db.Logger = slog.New(e.Logs)
	db.L0Retention = st.l0Ret
	db.RetentionEnabled = st.s.Enabled
	t := &twin{db: db, app: app, rep: filepath.Join(dir, "twin-rep")}
	fc := file.NewReplicaClient(t.rep)
	db.Replica = litestream.NewReplicaWithClient(db, fc)
	db.Replica.MonitorEnabled = false
	fc.Replica = db.Replica
	if err := st.dmn.Store.RegisterDB(db); err != nil {
		return err
	}
	st.twin = t
	// far ahead of anything the observed database reaches (it runs < 60 operations)
	if err := st.twinAdvance(150, true); err != nil {
		return err
	}
	return st.twinAdvance(4, true)
}

// twinAdvance commits and replicates n transactions on the twin, optionally takes a
// snapshot and compacts, and makes every file of the twin's replica look older than all thresholds.
func (st *state) twinAdvance(n int, snapshot bool) error {
	t := st.twin
	ctx := st.e.Ctx
	for i := 0; i < n; i++ {
		t.n++
		if _, err := t.app.Exec(`INSERT INTO tw(v) VALUES(?)`, []byte(fmt.Sprintf("twin-%d", t.n))); err != nil {
			return fmt.Errorf("twin write: %w", err)
		}
		if err := t.db.SyncAndWait(ctx); err != nil {
			return fmt.Errorf("twin SyncAndWait: %w", err)
		}
	}
	if snapshot {
		if _, err := t.db.Snapshot(ctx); err != nil {
			return fmt.Errorf("twin Snapshot: %w", err)
		}
	}
	old := time.Now().Add(-(st.snRet + st.l0Ret + 96*time.Hour))
	for _, f := range oracle.ListAll(t.rep) {
		_ = os.Chtimes(f.Path, old, old)
	}
	return nil
}

func init() {
	vf.Register(&vf.Check{
		ID:    "C07",
		Level: "exploration",
		Rule: "generated histories over {app writes (growth, shrink + VACUUM), SyncAndWait, DB.Compact(level) / Store.CompactDB, Snapshot, retention passes} in three modes: db (DB.EnforceSnapshotRetention(explicit cut-off) + cascade EnforceRetentionByTXID over all levels, DB.EnforceL0RetentionByTime, the L0 pass inside DB.Compact(1)), store (Store.EnforceSnapshotRetention, Store.SetRetentionEnabled toggles; in half of these histories the Store also manages a second database with the same file name in another directory whose replica is 150+ TXIDs ahead and whose retention pass runs right before each pass of the observed database), compactor (a stand-alone litestream.Compactor on the replica as the VFS uses it: EnforceSnapshotRetention(duration), EnforceL0Retention, EnforceRetentionByTXID); RetentionEnabled in {true,false}; direct EnforceRetentionByTXID(level 0..L, floor) with floor <= newest snapshot MaxTXID+1 (0/1 when no snapshot exists). " +
			"File ages are planted: every file that appears on the replica (and its local copy) gets mtime = now - (threshold +/- {10 min, 2 h, 3 d}) by PRNG, thresholds (L0Retention, SnapshotRetention) >= 1 h, re-planted at random before passes, so newer TXIDs can look older. Level-0 files are archived when they appear. " +
			"After every pass: a snapshot existed before => one remains; surviving level-0 files are one contiguous run ending at the newest level-0 TXID; Restore(latest) through a plain file client == image of the newest archived TXID; then write + SyncAndWait must succeed and the restored bytes == checkpointed source copy. " +
			"distinct = hash(config, mode, op sequence); non-trivial = >=2 passes that removed replica files (RetentionEnabled=false histories: >=3 passes that removed local files or none remotely) with >=1 snapshot present",
		Assumptions: []string{"file replica only: CreatedAt is the file mtime, which the harness plants", "planted ages are >= 10 min away from every threshold, so the wall clock of the run does not matter", "ltx.Decoder trusted; level-0 overlay independent of litestream"},
		Cases:       cases,
		RunCase:     runCase,
		MinEvals:    300,
		CaseTimeout: 10 * time.Minute,
		Workers: func(run *vf.Run) int {
			return 8
		},
	})
}

func cases(run *vf.Run) ([]json.RawMessage, error) {
	n := 40
	if run.Tier == "thorough" {
		n = 800
	}
	var out []json.RawMessage
	for i := 0; i < n; i++ {
		rng := rand.New(rand.NewSource(vf.SubSeed(run.Seed, "C07", i)))
		cfg := hist.RandomConfig(rng)
		cfg.PageSize = []int{4096, 512, 1024, 8192, 2048, 4096, 16384, 65536}[i%8]
		cfg.AutoVacuum = (i / 8) % 3
		cfg.MaxSyncLTXFiles = []int{0, 0, 3}[rng.Intn(3)]
		s := spec{
			Seed:     vf.SubSeed(run.Seed, "C07-case", i),
			Ops:      35 + rng.Intn(25),
			Levels:   1 + (i/3)%3,
			Cfg:      cfg,
			Mode:     []string{"db", "store", "compactor", "db", "store"}[i%5],
			Enabled:  i%4 != 3,
			L0RetMin: []int{60, 300, 4 * 24 * 60}[rng.Intn(3)],
			SnRetMin: []int{60, 26 * 60, 5 * 24 * 60}[rng.Intn(3)],
			OldPct:   []int{50, 75, 90}[rng.Intn(3)],
		}
		s.Twin = s.Mode == "store" && i%2 == 1
		out = append(out, vf.Spec(s))
	}
	return out, nil
}

var deltas = []time.Duration{10 * time.Minute, 2 * time.Hour, 72 * time.Hour}

type state struct {
	s       spec
	e       *hist.Env
	res     *vf.Result
	rng     *rand.Rand
	dmn     *hist.Daemon
	comp    *litestream.Compactor
	enabled bool
	l0Ret   time.Duration
	snRet   time.Duration

	twin      *twin
	planted   map[string]bool
	passes    int
	delPasses int // passes that removed replica files
	localN    int // local LTX files counted at the last listing()
	sawSnap   bool
}

func runCase(run *vf.Run, raw json.RawMessage, dir string) *vf.Result {
	var s spec
	res := &vf.Result{}
	if err := json.Unmarshal(raw, &s); err != nil {
		res.HarnessErr = err.Error()
		return res
	}
	rng := rand.New(rand.NewSource(s.Seed))
	e, err := hist.NewEnv(dir, s.Cfg, rng, res)
	if err != nil {
		res.HarnessErr = err.Error()
		return res
	}
	defer e.Close()
	st := &state{s: s, e: e, res: res, rng: rng, enabled: s.Enabled, planted: map[string]bool{},
		l0Ret: time.Duration(s.L0RetMin) * time.Minute, snRet: time.Duration(s.SnRetMin) * time.Minute}
	e.Tune = func(db *litestream.DB) {
		db.L0Retention = st.l0Ret
		db.RetentionEnabled = s.Enabled
	}
	var levels litestream.CompactionLevels
	if s.Mode == "store" {
		levels = litestream.CompactionLevels{{Level: 0}}
		for l := 1; l <= s.Levels; l++ {
			levels = append(levels, &litestream.CompactionLevel{Level: l, Interval: time.Nanosecond})
		}
		st.dmn, err = e.StartDaemon(levels)
		if err == nil {
			st.dmn.Store.SnapshotInterval = time.Nanosecond
			st.dmn.Store.SnapshotRetention = st.snRet
			st.dmn.Store.SetL0Retention(st.l0Ret)
			st.dmn.Store.SetRetentionEnabled(s.Enabled)
		}
	} else {
		err = e.StartLS()
	}
	if err != nil {
		res.HarnessErr = "open litestream: " + err.Error()
		return res
	}
	defer func() {
		if st.dmn != nil {
			ctx, cancel := context.WithTimeout(context.Background(), 30*time.Second)
			_ = st.dmn.Close(ctx)
			cancel()
		}
	}()
	if s.Twin && st.dmn != nil {
		if err := st.startTwin(dir); err != nil {
			res.HarnessErr = "twin database: " + err.Error()
			return res
		}
		defer st.twin.app.Close()
	}
	if s.Mode == "compactor" {
		// what the VFS does: a Compactor that only knows the replica client
		st.comp = litestream.NewCompactor(file.NewReplicaClient(e.RepPath), slog.New(slog.NewTextHandler(io.Discard, nil)))
		st.comp.RetentionEnabled = s.Enabled
	}
	ctx := context.Background()
	herr := func(err error) *vf.Result { res.HarnessErr = err.Error(); return res }
	var ops []string

	for i := 0; i < s.Ops; i++ {
		r := rng.Intn(100)
		var op string
		switch {
		case r < 28:
			op = "write"
			if _, err := e.AppWrite(); err != nil {
				return herr(err)
			}
		case r < 31:
			op = "shrink"
			if _, err := e.AppWriteKind("delete-all"); err != nil {
				return herr(err)
			}
			e.Maint()
		case r < 34:
			op = "ckpt"
			err := e.LS.Checkpoint(ctx, hist.CheckpointModes[rng.Intn(4)])
			e.Logf("DB.Checkpoint err=%v", err)
		case r < 52:
			op = "sync"
			st.upload()
		case r < 66:
			lvl := 1
			if rng.Intn(5) >= 3 {
				lvl = 1 + rng.Intn(s.Levels)
			}
			op = fmt.Sprintf("compact%d", lvl)
			if rng.Intn(3) != 0 && !st.upload() {
				break
			}
			if err := e.Arch.Scan(e.RepPath); err != nil {
				res.Violate("l0-file-invalid", "%v", err)
				return res
			}
			before := st.listing()
			hadSnap := len(oracle.ListLevel(e.RepPath, 9)) > 0
			var err error
			if st.dmn != nil {
				var cl *litestream.CompactionLevel
				if cl, err = levels.Level(lvl); err == nil {
					_, err = st.dmn.Store.CompactDB(ctx, e.LS, cl)
				}
			} else {
				_, err = e.LS.Compact(ctx, lvl)
			}
			e.Logf("compact level %d err=%v", lvl, err)
			if err == nil {
				res.Count(fmt.Sprintf("compactions_level_%d", lvl), 1)
			}
			st.plantNew()
			if lvl == 1 && err == nil {
				// DB.Compact(1) runs the level-0 retention pass itself
				if st.afterPass(fmt.Sprintf("op%d-compact1-l0-pass", i), "l0-after-compaction", before, hadSnap) {
					return res
				}
			}
		case r < 74:
			op = "snapshot"
			if !st.upload() {
				break
			}
			var err error
			if st.dmn != nil && rng.Intn(2) == 0 {
				_, err = st.dmn.Store.CompactDB(ctx, e.LS, st.dmn.Store.SnapshotLevel())
			} else {
				_, err = e.LS.Snapshot(ctx)
			}
			e.Logf("snapshot err=%v", err)
			if err == nil {
				res.Count("snapshots", 1)
			}
			st.plantNew()
		case r < 78:
			op = "replant"
			st.replant(3)
		case r < 80 && st.dmn != nil:
			op = "toggle-retention"
			st.enabled = !st.enabled
			st.dmn.Store.SetRetentionEnabled(st.enabled)
			e.Logf("Store.SetRetentionEnabled(%v)", st.enabled)
			res.Count("store_retention_toggles", 1)
		default:
			kind, viol, herr2 := st.retentionPass(ctx, i)
			op = kind
			if herr2 != nil {
				return herr(herr2)
			}
			if viol {
				return res
			}
		}
		if op != "" {
			ops = append(ops, op)
		}
	}
	res.Count("mode_"+s.Mode, 1)
	res.Count(fmt.Sprintf("page_size_%d", s.Cfg.PageSize), 1)
	if !s.Enabled {
		res.Count("histories_retention_disabled_at_start", 1)
	}
	res.Sig = fmt.Sprintf("%x", sha256.Sum256([]byte(fmt.Sprint(s.Cfg, s.Mode, s.Levels, s.Enabled, s.L0RetMin, s.SnRetMin, s.OldPct)+strings.Join(ops, ","))))[:16]
	if s.Enabled {
		res.Nontrivial = st.delPasses >= 2 && st.sawSnap
	} else {
		res.Nontrivial = st.passes >= 3 && st.sawSnap
	}
	res.Sample = map[string]any{"cfg": s.Cfg.String(), "mode": s.Mode, "levels": s.Levels, "retention_enabled": s.Enabled,
		"l0_retention": st.l0Ret.String(), "snapshot_retention": st.snRet.String(), "ops": strings.Join(ops, " "),
		"passes": st.passes, "passes_deleting_replica_files": st.delPasses}
	return res
}

// upload = SyncAndWait + archive of new level-0 files + planting of ages.
func (st *state) upload() bool {
	e := st.e
	serr := e.LS.SyncAndWait(e.Ctx)
	if serr != nil {
		e.Logf("SyncAndWait err=%v", serr)
		st.res.Count("sync_wait_failed", 1)
	}
	if err := e.Arch.Scan(e.RepPath); err != nil {
		st.res.Violate("l0-file-invalid", "%v", err)
		return false
	}
	st.plantNew()
	return serr == nil
}

type listing map[string]oracle.FileRef

func (st *state) listing() listing {
	m := listing{}
	for _, f := range oracle.ListAll(st.e.RepPath) {
		m[f.String()] = f
	}
	st.localN = len(oracle.ListAll(st.e.LS.MetaPath()))
	return m
}

// threshold that governs a file of this level.
func (st *state) thresholdFor(level int) time.Duration {
	switch {
	case level == 0:
		return st.l0Ret
	case level == litestream.SnapshotLevel:
		return st.snRet
	case st.rng.Intn(2) == 0:
		return st.l0Ret
	}
	return st.snRet
}

// plant sets the mtime of a replica file (and of its local copy) to
// now - (threshold +/- delta); never closer than 10 min to the threshold.
func (st *state) plant(f oracle.FileRef) {
	thr := st.thresholdFor(f.Level)
	d := deltas[st.rng.Intn(len(deltas))]
	old := st.rng.Intn(100) < st.s.OldPct
	var age time.Duration
	if old {
		age = thr + d
	} else {
		if thr-d < 10*time.Minute {
			d = deltas[0] // thresholds are >= 1 h, so the file stays >= 50 min old
		}
		age = thr - d
	}
	t := time.Now().Add(-age)
	if err := os.Chtimes(f.Path, t, t); err != nil {
		return // file already gone
	}
	lp := st.e.LS.LTXPath(f.Level, ltx.TXID(f.Min), ltx.TXID(f.Max))
	_ = os.Chtimes(lp, t, t)
	st.planted[f.Path] = true
	st.e.Logf("plant %s age=%v (%s than %v)", f, age, map[bool]string{true: "older", false: "younger"}[old], thr)
	if old {
		st.res.Count("files_planted_older_than_threshold", 1)
	} else {
		st.res.Count("files_planted_younger_than_threshold", 1)
	}
}

func (st *state) plantNew() {
	for _, f := range oracle.ListAll(st.e.RepPath) {
		if !st.planted[f.Path] {
			st.plant(f)
		}
	}
}

func (st *state) replant(oneIn int) {
	for _, f := range oracle.ListAll(st.e.RepPath) {
		if st.rng.Intn(oneIn) == 0 {
			st.plant(f)
		}
	}
}

// agesObserved records, as evidence, which guarded paths the coming pass can
// reach given the planted ages (never used as an oracle).
func (st *state) agesObserved() {
	e := st.e
	now := time.Now()
	isOld := func(f oracle.FileRef, thr time.Duration) bool {
		fi, err := os.Stat(f.Path)
		return err == nil && fi.ModTime().Before(now.Add(-thr))
	}
	snaps := oracle.ListLevel(e.RepPath, 9)
	if len(snaps) > 0 {
		all := true
		for _, f := range snaps {
			all = all && isOld(f, st.snRet)
		}
		if all {
			st.res.Count("pass_with_every_snapshot_older_than_retention", 1)
		}
		if len(snaps) > 1 && isOld(snaps[len(snaps)-1], st.snRet) && !isOld(snaps[0], st.snRet) {
			st.res.Count("pass_with_newest_snapshot_looking_older_than_oldest", 1)
		}
	}
	maxL1 := 0
	for _, f := range oracle.ListLevel(e.RepPath, 1) {
		if f.Max > maxL1 {
			maxL1 = f.Max
		}
	}
	l0 := oracle.ListLevel(e.RepPath, 0)
	youngSeen, inverted, oldUncompacted := false, false, false
	for _, f := range l0 {
		o := isOld(f, st.l0Ret)
		if !o {
			youngSeen = true
		} else if youngSeen && f.Max <= maxL1 {
			inverted = true
		}
		if o && maxL1 > 0 && f.Max > maxL1 {
			oldUncompacted = true
		}
	}
	if inverted {
		st.res.Count("pass_with_old_compacted_l0_behind_a_young_one", 1)
	}
	if oldUncompacted {
		st.res.Count("pass_with_old_l0_not_yet_in_l1", 1)
	}
}

// retentionPass runs one retention entry point chosen by the PRNG.
func (st *state) retentionPass(ctx context.Context, i int) (kind string, violated bool, harness error) {
	e, rng, res := st.e, st.rng, st.res
	if rng.Intn(3) == 0 {
		st.replant(2)
	}
	st.agesObserved()
	if err := e.Arch.Scan(e.RepPath); err != nil {
		res.Violate("l0-file-invalid", "%v", err)
		return "", true, nil
	}
	before := st.listing()
	snaps := oracle.ListLevel(e.RepPath, 9)
	hadSnap := len(snaps) > 0
	which := rng.Intn(3)
	var err error
	switch which {
	case 0: // snapshot retention by age + cascade below the oldest kept snapshot
		var floor ltx.TXID
		switch {
		case st.comp != nil:
			kind = "compactor-snapshot-retention"
			floor, err = st.comp.EnforceSnapshotRetention(ctx, st.snRet)
			if err == nil && rng.Intn(2) == 0 {
				kind += "+cascade"
				for lvl := 1; lvl <= st.s.Levels && err == nil; lvl++ {
					err = st.comp.EnforceRetentionByTXID(ctx, lvl, floor)
				}
			}
		case st.dmn != nil:
			kind = "store-snapshot-retention"
			if st.twin != nil {
				if terr := st.twinAdvance(2, true); terr != nil {
					return "", false, terr
				}
				terr := st.dmn.Store.EnforceSnapshotRetention(ctx, st.twin.db)
				e.Logf("Store.EnforceSnapshotRetention(twin database, replica max %d) err=%v", oracle.MaxTXID(st.twin.rep), terr)
				res.Count("twin_retention_passes", 1)
				kind = "store-snapshot-retention(after twin)"
			}
			err = st.dmn.Store.EnforceSnapshotRetention(ctx, e.LS)
		default:
			kind = "db-snapshot-retention+cascade"
			floor, err = e.LS.EnforceSnapshotRetention(ctx, time.Now().Add(-st.snRet))
			for lvl := 1; lvl <= st.s.Levels && err == nil; lvl++ {
				err = e.LS.EnforceRetentionByTXID(ctx, lvl, floor)
			}
		}
		e.Logf("%s floor=%d enabled=%v err=%v", kind, floor, st.enabled, err)
	case 1: // level-0 retention by time
		if st.comp != nil {
			kind = "compactor-l0-retention"
			err = st.comp.EnforceL0Retention(ctx, st.l0Ret)
		} else {
			kind = "db-l0-retention-by-time"
			err = e.LS.EnforceL0RetentionByTime(ctx)
		}
		e.Logf("%s enabled=%v err=%v", kind, st.enabled, err)
	case 2: // explicit floor, never above newest snapshot + 1
		var floor int
		if hadSnap {
			sOld, sNew := snaps[0].Max, snaps[len(snaps)-1].Max
			floor = []int{0, 1 + rng.Intn(sNew), sOld, sOld + 1, sNew, sNew + 1, sNew + 1, sNew + 1}[rng.Intn(8)]
		} else {
			floor = rng.Intn(2)
		}
		lvl := 0
		if rng.Intn(3) != 0 {
			lvl = 1 + rng.Intn(st.s.Levels)
		}
		kind = fmt.Sprintf("retention-by-txid-l%d", lvl)
		if st.comp != nil {
			err = st.comp.EnforceRetentionByTXID(ctx, lvl, ltx.TXID(floor))
		} else {
			err = e.LS.EnforceRetentionByTXID(ctx, lvl, ltx.TXID(floor))
		}
		e.Logf("EnforceRetentionByTXID(level=%d, floor=%d) snapshots=%v enabled=%v err=%v", lvl, floor, snaps, st.enabled, err)
	}
	label := kind
	if which == 2 {
		label = "retention-by-txid"
	}
	res.Count("pass:"+label, 1)
	if err != nil {
		res.Count("pass_returned_error", 1)
	}
	tag := fmt.Sprintf("op%d-%s", i, kind)
	if st.afterPass(tag, kind, before, hadSnap) {
		return kind, true, nil
	}
	// the history goes on: replication must still work
	if _, err := e.AppWriteKind("ins-small"); err != nil {
		return kind, false, err
	}
	if err := e.LS.SyncAndWait(ctx); err != nil {
		res.Evals++
		res.Violate("sync-after-retention-failed", "%s: SyncAndWait after the retention pass fails: %v", tag, err)
		return kind, true, nil
	}
	if err := e.Arch.Scan(e.RepPath); err != nil {
		res.Violate("l0-file-invalid", "%s: %v", tag, err)
		return kind, true, nil
	}
	v, herr := e.AckCompare(tag + "-next-ack")
	if herr != nil {
		return kind, false, herr
	}
	if v != "" {
		res.Violate("ack-after-retention-differs", "%s", v)
		return kind, true, nil
	}
	st.plantNew()
	return kind, false, nil
}

// afterPass applies the C07 oracles to the replica. Returns true on violation.
func (st *state) afterPass(tag, kind string, before listing, hadSnap bool) bool {
	e, res := st.e, st.res
	st.passes++
	localBefore := st.localN
	after := st.listing()
	removed := 0
	for k, f := range before {
		if _, ok := after[k]; !ok {
			removed++
			res.Count(fmt.Sprintf("replica_files_removed_level_%d", f.Level), 1)
			e.Logf("%s removed %s", tag, f)
		}
	}
	if n := localBefore - st.localN; n > 0 {
		res.Count("local_files_removed", n)
	}
	if removed > 0 {
		st.delPasses++
		res.Count("passes_removing_replica_files", 1)
		if !st.enabled {
			// observation only (the statement forbids losing what the latest restore needs, checked below)
			res.Count("replica_files_removed_while_retention_disabled", removed)
		}
	}
	if !st.enabled {
		res.Count("passes_with_retention_disabled", 1)
	}
	// (1) at least one snapshot remains once one exists
	snaps := oracle.ListLevel(e.RepPath, 9)
	if hadSnap {
		st.sawSnap = true
		res.Evals++
		if len(snaps) == 0 {
			res.Violate("no-snapshot-left", "%s: snapshots existed before the pass, none remains", tag)
			return true
		}
	}
	// (2) surviving level-0 files: one contiguous run ending at the newest
	newest := e.Arch.Max()
	l0 := oracle.ListLevel(e.RepPath, 0)
	if newest > 0 {
		res.Evals++
		if len(l0) == 0 {
			res.Violate("l0-newest-missing", "%s: no level-0 file left, newest level-0 TXID was %d", tag, newest)
			return true
		}
		for i := 1; i < len(l0); i++ {
			if l0[i].Min != l0[i-1].Max+1 {
				res.Violate("l0-hole", "%s: surviving level-0 files are not contiguous: %s then %s (of %d..%d)", tag, l0[i-1], l0[i], l0[0].Min, l0[len(l0)-1].Max)
				return true
			}
		}
		if l0[len(l0)-1].Max != newest {
			res.Violate("l0-newest-missing", "%s: surviving level-0 run ends at %d, newest level-0 TXID is %d", tag, l0[len(l0)-1].Max, newest)
			return true
		}
	}
	// (3) the latest TXID is restorable and equals the reference image
	if newest > 0 {
		if m := oracle.MaxTXID(e.RepPath); m != newest {
			res.HarnessErr = fmt.Sprintf("%s: replica max TXID %d but newest archived level-0 TXID %d", tag, m, newest)
			return true
		}
		want, err := e.Arch.Image(newest)
		if err != nil {
			res.Violate("l0-image-incomplete", "%s: %v", tag, err)
			return true
		}
		got, err := e.RestoreBytes(litestream.NewRestoreOptions())
		res.Evals++
		res.Count("latest_restores_compared", 1)
		if err != nil {
			res.Violate("latest-restore-failed", "%s: Restore(latest) fails after the pass (newest TXID %d, replica now %s): %v", tag, newest, summary(after), err)
			return true
		}
		if !bytes.Equal(got, want) {
			if err := oracle.CompareHeaderMasked(want, got, nil); err != nil {
				res.Violate("latest-restore-differs", "%s: Restore(latest) differs from the image of TXID %d (replica now %s): %v", tag, newest, summary(after), err)
				return true
			}
		}
	}
	return false
}

func summary(l listing) string {
	var per [10][]string
	for _, f := range l {
		per[f.Level] = append(per[f.Level], fmt.Sprintf("%d-%d", f.Min, f.Max))
	}
	var sb strings.Builder
	for lvl, a := range per {
		if len(a) == 0 {
			continue
		}
		sortRanges(a)
		fmt.Fprintf(&sb, "L%d[%s] ", lvl, strings.Join(a, " "))
	}
	return strings.TrimSpace(sb.String())
}

func sortRanges(a []string) {
	key := func(s string) (int, int) {
		var x, y int
		fmt.Sscanf(s, "%d-%d", &x, &y)
		return x, y
	}
	for i := 1; i < len(a); i++ {
		for j := i; j > 0; j-- {
			x1, y1 := key(a[j-1])
			x2, y2 := key(a[j])
			if x1 < x2 || (x1 == x2 && y1 <= y2) {
				break
			}
			a[j-1], a[j] = a[j], a[j-1]
		}
	}
}
