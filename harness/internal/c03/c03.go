// Package c03: killing litestream at any instant loses nothing acknowledged and
// needs no repair (DESIGN §4 C03). Engine E-CRASH: the victim (victim.go) runs
// under the ptrace supervisor /verif/ptsup and is SIGKILLed immediately before
// its N-th file-system-mutating system call; the application and all oracles
// live in the worker process.
package c03

import (
	"context"
	"encoding/json"
	"fmt"
	"math/rand"
	"os"
	"path/filepath"
	"runtime"
	"sort"
	"strconv"
	"strings"
	"sync"
	"time"

	"github.com/benbjohnson/litestream"
	"github.com/benbjohnson/litestream/file"
	"github.com/superfly/ltx"

	"verif/harness/internal/oracle"
	"verif/harness/internal/vf"
)

type spec struct {
	Scenario string `json:"scenario"`
	Cfg      string `json:"cfg"`
	N        int    `json:"n"`         // kill immediately before the N-th fs-mutating syscall of the traced phase
	DataSeed int64  `json:"data_seed"` // application data (same in the count run and in every kill run)
	M        int    `json:"m"`         // number of such syscalls seen in the count run
	Expect   string `json:"expect"`    // what the count run saw at index N (information only)
	Why      string `json:"why"`       // all | boundary | sample
	// Failed is set when the scenario does not even complete without any kill (count run
	// and an unsupervised re-run both fail on a victim command): reported as a violation.
	Failed string `json:"failed,omitempty"`
}

func init() {
	vf.Register(&vf.Check{
		ID:    "C03",
		Level: "fault_enumeration",
		Rule: "scripted victim scenarios S1 (sync/upload/checkpoints), S2 (+compaction L1/L2, snapshot), S3 (+L0, snapshot and TXID retention), S4 (restore plain / integrity-checked / by TXID), " +
			"S5 (meta directory lost: baseline fetch at init), S5b (database+meta rolled back: local L0 cleared, baseline fetch), S7 (follow-mode restore with -txid sidecar), thorough also S6 (the real `litestream replicate` binary with millisecond monitors, 200 PRNG kill indices, logical oracle); a count run under ptsup gives the " +
			"M file-system-mutating syscalls of the traced phase; one case = (scenario, config, N): SIGKILL of the whole litestream process immediately before the N-th call, then (a) every *.ltx under a final name " +
			"in meta and replica directory decodes with valid checksums and agrees with its file name, restore outputs under their final name equal the image they were asked for, sidecars parse; " +
			"(b) Restore(TXID=last acknowledged) from the post-kill replica equals the source image recorded at that acknowledgement; (c) a fresh victim process, two more application transactions, " +
			"sync-wait succeeds within 3 attempts and Restore(latest, full integrity check) equals the source. quick: every N of S2 and S4, for the other scenarios every rename/unlink/fsync/first-write-of-a-file " +
			"boundary plus a PRNG sample; thorough: every N of every scenario under two configurations. distinct = (scenario, config, N); non-trivial = the killed call touched the meta directory, the replica or a restore output (not only SQLite's own files)",
		Assumptions: []string{
			"SIGKILL of the process, not power loss: page-cache contents survive (the flush-ordering half is C11)",
			"file replica client only",
			"ptsup kills at the syscall-enter stop, i.e. before the call takes effect (self-checked on every killed rename: the source name must still exist)",
			"writes through mmap (SQLite -shm) are not kill points",
			"ltx decoder/LZ4 and modernc SQLite are trusted base",
		},
		Cases:       cases,
		RunCase:     runCase,
		Finish:      finish,
		MinEvals:    200,
		CaseTimeout: 5 * time.Minute,
		Workers: func(run *vf.Run) int {
			// every kill run is worker + ptsup + victim; leave room for the other jobs on the box
			return run.Workers
		},
	})
}

// ---------------------------------------------------------------------------
// count runs and case selection

type countResult struct {
	sc   *Scenario
	cfg  Config
	log  *PtLog
	acks int
	err  error
}

// runScenario executes a whole scenario with the traced phase launched as l.
// snap: directory of a prelude snapshot to start from (used when it exists) or,
// with save=true, to write once the prelude has been executed.
func runScenario(sc *Scenario, cfg Config, root, work string, seed int64, l Launch, snap string, save bool, logf func(string, ...any)) (*World, int, error) {
	launch := func(phase int, traced bool) Launch {
		if traced {
			return l
		}
		return Launch{Mode: Plain}
	}
	ts := sc.TracedStart()
	if ts > 0 && snap != "" && !save {
		if _, err := os.Stat(filepath.Join(snap, "meta.json")); err == nil {
			w, err := NewWorldFromPrelude(snap, root, work, cfg, seed, logf)
			if err != nil {
				return w, 0, fmt.Errorf("prelude snapshot: %w", err)
			}
			w.LaunchFor = launch
			at, err := w.Run(sc.Steps, ts)
			return w, at, err
		}
	}
	w, err := NewWorld(root, work, cfg, seed, logf)
	if err != nil {
		return nil, 0, err
	}
	w.LaunchFor = launch
	if ts > 0 && save && snap != "" {
		at, err := w.Run(sc.Steps[:ts], 0)
		if err != nil {
			return w, at, err
		}
		if err := w.SavePrelude(snap); err != nil {
			return w, ts, fmt.Errorf("save prelude: %w", err)
		}
	}
	from := 0
	if ts > 0 && save && snap != "" {
		from = ts
	}
	at, err := w.Run(sc.Steps, from)
	return w, at, err
}

func preludeDir(run *vf.Run, sc, cfg string) string {
	return filepath.Join(run.Scratch, fmt.Sprintf("prelude-%s-%s", sc, cfg))
}

func dataSeed(seed int64, sc string) int64 { return vf.SubSeed(seed, "C03-data", sc) }

func countRun(run *vf.Run, sc *Scenario, cfg Config) *countResult {
	r := &countResult{sc: sc, cfg: cfg}
	base := filepath.Join(run.Scratch, fmt.Sprintf("count-%s-%s", sc.Name, cfg.Name))
	defer os.RemoveAll(base)
	logPath := filepath.Join(base, "pt.log")
	if err := os.MkdirAll(base, 0o755); err != nil {
		r.err = err
		return r
	}
	var hist []string
	w, _, err := runScenario(sc, cfg, filepath.Join(base, "s"), filepath.Join(base, "w"), dataSeed(run.Seed, sc.Name), Launch{Mode: Count, Log: logPath},
		preludeDir(run, sc.Name, cfg.Name), true, func(f string, a ...any) { hist = append(hist, fmt.Sprintf(f, a...)) })
	if w != nil {
		defer w.Close()
	}
	if err != nil {
		r.err = fmt.Errorf("count run of %s/%s: %v (history: %s)", sc.Name, cfg.Name, err, strings.Join(hist, " | "))
		return r
	}
	w.Close()
	r.acks = len(w.Acks)
	r.log, r.err = ReadPtLog(logPath)
	if r.err == nil && (r.log.Total < 0 || r.log.Total != len(r.log.Events)) {
		r.err = fmt.Errorf("count run of %s/%s: supervisor log incomplete (total=%d events=%d)", sc.Name, cfg.Name, r.log.Total, len(r.log.Events))
	}
	return r
}

// boundaries returns the indices (1-based) of the calls at which the visible
// state changes shape: every rename, every unlink of a final name, every
// fsync/fdatasync outside SQLite's own files, every file creation and the
// first write to a file after its creation.
func boundaries(root string, evs []SysEvent) map[int]bool {
	out := map[int]bool{}
	written := map[string]bool{}
	for _, e := range evs {
		c := PathClass(root, e.P1)
		switch e.Name {
		case "rename", "renameat":
			out[e.N] = true
			written[e.P2] = written[e.P1]
			delete(written, e.P1)
		case "unlink", "unlinkat", "rmdir":
			if !strings.HasSuffix(c, "-tmp") && c != "db" {
				out[e.N] = true
			}
			delete(written, e.P1)
		case "fsync", "fdatasync":
			if c != "db" {
				out[e.N] = true
			}
		case "openat", "open", "creat", "openat2":
			if e.Flags&uint64(os.O_CREATE|os.O_TRUNC) != 0 && c != "db" {
				out[e.N] = true
				delete(written, e.P1)
			}
		case "write", "pwrite64", "writev", "pwritev", "pwritev2", "copy_file_range", "sendfile":
			if !written[e.P1] && c != "db" {
				out[e.N] = true
			}
			written[e.P1] = true
		}
	}
	return out
}

func nontrivialClass(c string) bool {
	switch c {
	case "db", "root", "outside", "other", "":
		return false
	}
	return true
}

func describe(root string, e SysEvent) string {
	c := PathClass(root, e.P1)
	if e.P2 != "" {
		if c2 := PathClass(root, e.P2); nontrivialClass(c2) {
			c = c2
		}
	}
	return e.Name + ":" + c
}

func cases(run *vf.Run) ([]json.RawMessage, error) {
	if err := EnsurePtsup(); err != nil {
		return nil, err
	}
	type job struct {
		sc   *Scenario
		cfg  Config
		mode string // all | boundary+sample
	}
	var jobs []job
	if run.Tier == "thorough" {
		for i := range Scenarios {
			for _, c := range Configs {
				jobs = append(jobs, job{&Scenarios[i], c, "all"})
			}
		}
	} else {
		for i := range Scenarios {
			sc := &Scenarios[i]
			switch sc.Name {
			case "S2", "S4":
				jobs = append(jobs, job{sc, Configs[0], "all"})
			default:
				jobs = append(jobs, job{sc, Configs[0], "sample"})
			}
		}
	}
	if only := os.Getenv("VERIF_C03_ONLY"); only != "" {
		// development aid (mutant validation): restrict the run to some scenarios, e.g. "S2,S4"
		var keep []job
		for _, j := range jobs {
			for _, n := range strings.Split(only, ",") {
				if j.sc.Name == n {
					keep = append(keep, j)
				}
			}
		}
		jobs = keep
	}
	results := make([]*countResult, len(jobs))
	var wg sync.WaitGroup
	for i, j := range jobs {
		wg.Add(1)
		go func(i int, j job) {
			defer wg.Done()
			results[i] = countRun(run, j.sc, j.cfg)
		}(i, j)
	}
	wg.Wait()
	var out []json.RawMessage
	for i, j := range jobs {
		r := results[i]
		if r.err != nil {
			// Is it the supervisor or litestream? Re-run the scenario unsupervised.
			base := filepath.Join(run.Scratch, fmt.Sprintf("plain-%s-%s", j.sc.Name, j.cfg.Name))
			var hist []string
			w, _, perr := runScenario(j.sc, j.cfg, filepath.Join(base, "s"), filepath.Join(base, "w"), dataSeed(run.Seed, j.sc.Name), Launch{Mode: Plain},
				preludeDir(run, j.sc.Name, j.cfg.Name), true, func(f string, a ...any) { hist = append(hist, fmt.Sprintf(f, a...)) })
			if w != nil {
				w.Close()
			}
			os.RemoveAll(base)
			if perr == nil {
				return nil, r.err // the scenario is fine without the supervisor: a harness problem
			}
			if len(hist) > 12 {
				hist = hist[len(hist)-12:]
			}
			out = append(out, vf.Spec(spec{Scenario: j.sc.Name, Cfg: j.cfg.Name, Failed: fmt.Sprintf("%v (last steps: %s)", perr, strings.Join(hist, " | "))}))
			continue
		}
		root := filepath.Join(run.Scratch, fmt.Sprintf("count-%s-%s", j.sc.Name, j.cfg.Name), "s")
		m := len(r.log.Events)
		if m == 0 {
			return nil, fmt.Errorf("count run of %s/%s saw no file-system-mutating syscall", j.sc.Name, j.cfg.Name)
		}
		byCall := map[string]int{}
		for _, e := range r.log.Events {
			byCall[describe(root, e)]++
		}
		countSummary[j.sc.Name+"/"+j.cfg.Name] = map[string]any{"fs_mutating_syscalls": m, "acks_in_scenario": r.acks, "selection": j.mode, "by_call": byCall}
		pick := map[int]string{}
		if j.mode == "all" {
			for n := 1; n <= m; n++ {
				pick[n] = "all"
			}
		} else {
			b := boundaries(root, r.log.Events)
			for n := range b {
				pick[n] = "boundary"
			}
			// PRNG sample of the rest: one in twenty, at least 6
			rng := rand.New(rand.NewSource(vf.SubSeed(run.Seed, "C03-sample", j.sc.Name, j.cfg.Name)))
			var rest []int
			for n := 1; n <= m; n++ {
				if pick[n] == "" {
					rest = append(rest, n)
				}
			}
			rng.Shuffle(len(rest), func(a, b int) { rest[a], rest[b] = rest[b], rest[a] })
			k := len(rest) / 20
			if k < 6 {
				k = 6
			}
			if k > len(rest) {
				k = len(rest)
			}
			for _, n := range rest[:k] {
				pick[n] = "sample"
			}
		}
		ns := make([]int, 0, len(pick))
		for n := range pick {
			ns = append(ns, n)
		}
		sort.Ints(ns)
		for _, n := range ns {
			out = append(out, vf.Spec(spec{Scenario: j.sc.Name, Cfg: j.cfg.Name, N: n, DataSeed: dataSeed(run.Seed, j.sc.Name), M: m,
				Expect: describe(root, r.log.Events[n-1]), Why: pick[n]}))
		}
	}
	if only := os.Getenv("VERIF_C03_ONLY"); run.Tier == "thorough" && (only == "" || strings.Contains(","+only+",", ",S6,")) {
		// S6: the real binary, 200 PRNG-chosen kill indices
		seed := dataSeed(run.Seed, "S6")
		m, err := s6CountRun(run, seed)
		if err != nil {
			return nil, err
		}
		countSummary["S6/real-binary"] = map[string]any{"fs_mutating_syscalls_in_count_run": m, "selection": "200 PRNG indices"}
		rng := rand.New(rand.NewSource(vf.SubSeed(run.Seed, "C03-S6")))
		for i := 0; i < 200; i++ {
			out = append(out, vf.Spec(spec{Scenario: "S6", Cfg: "real", N: 1 + rng.Intn(m), DataSeed: seed, M: m, Why: "sample"}))
		}
	}
	return out, nil
}

// countSummary is filled by cases() and reported by finish() (same process).
var countSummary = map[string]any{}

func finish(run *vf.Run, results []*vf.Result, ev map[string]any) []vf.Violation {
	ev["count_runs"] = countSummary
	notKilled := 0
	for _, r := range results {
		if r != nil && r.Counters["not_killed_n_beyond_run"] > 0 {
			notKilled++
		}
	}
	ev["kill_index_beyond_run"] = notKilled
	return nil
}

func configByName(n string) (Config, bool) {
	for _, c := range Configs {
		if c.Name == n {
			return c, true
		}
	}
	return Config{}, false
}

// ---------------------------------------------------------------------------
// one kill run

func runCase(run *vf.Run, raw json.RawMessage, dir string) *vf.Result {
	procsOnce.Do(func() { runtime.GOMAXPROCS(2) }) // the worker mostly waits for its victim
	res := &vf.Result{}
	var s spec
	if err := json.Unmarshal(raw, &s); err != nil {
		res.HarnessErr = err.Error()
		return res
	}
	if err := EnsurePtsup(); err != nil {
		res.HarnessErr = err.Error()
		return res
	}
	if s.Failed != "" {
		res.Evals = 1
		res.Sig = "scenario-failed-" + s.Scenario + "-" + s.Cfg
		res.Violate("scenario-fails-without-kill", "scenario %s/%s does not complete even when the litestream process is never killed (it is stopped and restarted cleanly between phases): %s", s.Scenario, s.Cfg, s.Failed)
		return res
	}
	if s.Scenario == "S6" {
		return runS6(run, s, dir, res)
	}
	sc := ScenarioByName(s.Scenario)
	cfg, ok := configByName(s.Cfg)
	if sc == nil || !ok {
		res.HarnessErr = "unknown scenario/config in spec"
		return res
	}
	if err := EnsurePtsup(); err != nil {
		res.HarnessErr = err.Error()
		return res
	}
	root, work := filepath.Join(dir, "s"), filepath.Join(dir, "w")
	logPath := filepath.Join(dir, "pt.log")
	res.Sig = fmt.Sprintf("%s/%s/%d", s.Scenario, s.Cfg, s.N)
	res.Logf("scenario %s (%s) config %s: kill before fs-mutating syscall %d of %d (count run saw %s there)", sc.Name, sc.Doc, cfg.Name, s.N, s.M, s.Expect)

	w, at, err := runScenario(sc, cfg, root, work, s.DataSeed, Launch{Mode: Kill, KillN: s.N, Log: logPath}, preludeDir(run, sc.Name, cfg.Name), false, res.Logf)
	if w != nil {
		defer w.Close()
	}
	if oe, ok := err.(*OracleError); ok {
		res.Evals++
		res.Violate(oe.Key, "%s", oe.Msg)
		return res
	}
	if err != nil && err != ErrVictimGone {
		res.HarnessErr = fmt.Sprintf("scenario step %d: %v", at, err)
		return res
	}
	if err == nil {
		// the scenario ran to its end: N was beyond this run's number of calls
		res.Count("not_killed_n_beyond_run", 1)
		res.Sample = map[string]any{"scenario": sc.Name, "cfg": cfg.Name, "n": s.N, "killed": false}
		return res
	}
	// the victim is gone: it must be because the supervisor killed it
	inflight := w.InFlight
	code := 0
	if w.P != nil {
		code = w.P.Stop()
		w.P = nil
	}
	pl, lerr := ReadPtLog(logPath)
	if lerr != nil {
		res.HarnessErr = "supervisor log: " + lerr.Error()
		return res
	}
	if code >= 200 && code <= 203 {
		res.HarnessErr = fmt.Sprintf("supervisor failed (exit %d: 200 usage, 201 cannot trace, 202 exec failed, 203 interrupted)", code)
		return res
	}
	if !pl.Killed || len(pl.Events) != s.N {
		// died on its own: that is a crash of the litestream process, not a kill
		res.Evals++
		res.Violate("victim-died-by-itself", "victim process ended during %q without being killed by the supervisor (exit %d, %d fs calls seen, wanted kill at %d)", inflight, code, len(pl.Events), s.N)
		return res
	}
	killEv := pl.Events[len(pl.Events)-1]
	kd := describe(root, killEv)
	res.Logf("killed (supervisor exit %d) during %q immediately before: %s %s %s", code, inflight, killEv.Name, killEv.P1, killEv.P2)
	res.Count("kill:"+kd, 1)
	res.Count("killed_during:"+strings.Fields(inflight + " -")[0]+":"+firstWord(strings.TrimPrefix(strings.TrimPrefix(inflight, "v "), "startT")), 1)
	res.Count("kills", 1)
	res.Nontrivial = nontrivialClass(PathClass(root, killEv.P1)) || (killEv.P2 != "" && nontrivialClass(PathClass(root, killEv.P2)))

	// self-check of the injector: the killed call must not have taken effect
	if strings.HasPrefix(killEv.Name, "rename") {
		if _, err := os.Lstat(killEv.P1); err != nil {
			res.HarnessErr = fmt.Sprintf("injector self-check: killed before rename(%s -> %s) but the source name is gone: %v", killEv.P1, killEv.P2, err)
			return res
		}
		res.Count("selfcheck_rename_not_executed", 1)
	}

	// (a) nothing half-written under a final name
	postKillFiles(w, res)
	// (b) the last acknowledged sync is still restorable, exactly
	if a := w.LastAck(); a != nil {
		checkAckRestorable(w, res, a)
	} else {
		res.Count("killed_before_first_ack", 1)
	}
	if len(res.Violations) > 0 {
		return res
	}
	// (c) restart without any manual step, more writes, next ack restores exactly
	restartAndAck(w, res, sc, inflight)

	res.Sample = map[string]any{"scenario": sc.Name, "cfg": cfg.Name, "n": s.N, "killed_before": kd, "during": inflight, "acks_before_kill": len(w.Acks)}
	return res
}

func firstWord(s string) string {
	f := strings.Fields(s)
	if len(f) == 0 {
		return "start"
	}
	return f[0]
}

func readReplica(rep string) *litestream.Replica {
	c := file.NewReplicaClient(rep)
	c.SetLogger(quiet)
	return litestream.NewReplicaWithClient(nil, c)
}

var procsOnce sync.Once
var restoreN int
var restoreMu sync.Mutex

func restoreBytes(w *World, opt litestream.RestoreOptions) ([]byte, error) {
	restoreMu.Lock()
	restoreN++
	out := filepath.Join(w.Work, fmt.Sprintf("oracle-restore-%d", restoreN))
	restoreMu.Unlock()
	opt.OutputPath = out
	defer func() {
		for _, sfx := range []string{"", ".tmp", "-txid", "-wal", "-shm"} {
			os.Remove(out + sfx)
		}
	}()
	if err := readReplica(w.VC.RepPath()).Restore(context.Background(), opt); err != nil {
		return nil, err
	}
	return os.ReadFile(out)
}

// postKillFiles is check (a).
func postKillFiles(w *World, res *vf.Result) {
	for _, tree := range []struct{ name, path string }{{"meta", w.VC.MetaPath()}, {"replica", w.VC.RepPath()}} {
		_ = filepath.Walk(tree.path, func(p string, fi os.FileInfo, err error) error {
			if err != nil || fi.IsDir() {
				return nil
			}
			if !strings.HasSuffix(p, ".ltx") {
				if strings.HasSuffix(p, ".tmp") {
					res.Count("postkill_tmp_files_present", 1)
				}
				return nil
			}
			res.Evals++
			res.Count("postkill_ltx_verified_"+tree.name, 1)
			rel, _ := filepath.Rel(tree.path, p)
			mn, mx, perr := ltx.ParseFilename(filepath.Base(p))
			level, lerr := strconv.Atoi(filepath.Base(filepath.Dir(p)))
			if perr != nil || lerr != nil {
				res.Violate("ltx-final-name-unparseable:"+tree.name, "post-kill: %s file %s has a .ltx name that does not parse", tree.name, rel)
				return nil
			}
			lf, derr := oracle.DecodeLTX(p)
			if derr != nil {
				res.Violate("half-written-ltx-under-final-name:"+tree.name, "post-kill: %s file %s (%d bytes) under its final name does not decode/verify: %v", tree.name, rel, fi.Size(), derr)
				return nil
			}
			if lf.Hdr.MinTXID != mn || lf.Hdr.MaxTXID != mx {
				res.Violate("ltx-header-disagrees-with-name:"+tree.name, "post-kill: %s file %s has header TXIDs %d-%d", tree.name, rel, lf.Hdr.MinTXID, lf.Hdr.MaxTXID)
			}
			if level == 0 && mn != mx {
				res.Violate("l0-spans-txids:"+tree.name, "post-kill: level-0 file %s covers more than one TXID", rel)
			}
			return nil
		})
	}
	// restore outputs and sidecars directly under the scenario root
	ents, _ := os.ReadDir(w.Root)
	for _, e := range ents {
		p := filepath.Join(w.Root, e.Name())
		switch PathClass(w.Root, p) {
		case "out":
			res.Evals++
			res.Count("postkill_output_checked", 1)
			b, err := os.ReadFile(p)
			if err != nil {
				res.HarnessErr = err.Error()
				return
			}
			if strings.HasPrefix(e.Name(), "follow") {
				// follow mode updates the file in place after publishing it: only its shape is
				// checked here (convergence after a kill is C16's)
				ps := oracle.PageSizeOf(b)
				if ps == 0 || len(b) == 0 || len(b)%ps != 0 || string(b[:15]) != "SQLite format 3" {
					res.Violate("follow-output-malformed", "post-kill: follow output %s (%d bytes) is not a whole number of pages with a SQLite header", e.Name(), len(b))
				}
				continue
			}
			want := w.OutputExpect[e.Name()]
			if want == nil {
				res.HarnessErr = "no expectation recorded for restore output " + e.Name()
				return
			}
			if err := oracle.CompareMasked(want.Img, b, w.Work); err != nil {
				if strings.HasPrefix(err.Error(), "harness:") {
					res.HarnessErr = err.Error()
					return
				}
				res.Violate("restore-output-incomplete", "post-kill: restore output %s exists under its final name but is not the database of TXID %d it was asked for: %v", e.Name(), want.TXID, err)
			}
		case "txid":
			res.Evals++
			res.Count("postkill_sidecar_checked", 1)
			t, err := litestream.ReadTXIDFile(strings.TrimSuffix(p, "-txid"))
			if err != nil || t == 0 {
				b, _ := os.ReadFile(p)
				res.Violate("sidecar-unparseable", "post-kill: TXID sidecar %s does not parse (%v): %q", e.Name(), err, string(b))
			} else if max := oracle.MaxTXID(w.VC.RepPath()); int(t) > max {
				res.Violate("sidecar-ahead-of-replica", "post-kill: TXID sidecar %s says %d but the replica ends at %d", e.Name(), uint64(t), max)
			}
		}
	}
}

// checkAckRestorable is check (b).
func checkAckRestorable(w *World, res *vf.Result, a *Ack) {
	opt := litestream.NewRestoreOptions()
	opt.TXID = ltx.TXID(a.TXID)
	got, err := restoreBytes(w, opt)
	res.Evals++
	res.Count("postkill_ack_restore_compared", 1)
	if err != nil {
		res.Violate("acked-txid-not-restorable", "post-kill: Restore(TXID=%d), the last sync acknowledged (%s) before the kill, fails: %v", a.TXID, a.Via, err)
		return
	}
	if err := oracle.CompareMasked(a.Img, got, w.Work); err != nil {
		if strings.HasPrefix(err.Error(), "harness:") {
			res.HarnessErr = err.Error()
			return
		}
		res.Violate("acked-txid-restores-differently", "post-kill: Restore(TXID=%d) differs from the source image recorded when that sync was acknowledged: %v", a.TXID, err)
	}
}

// restartAndAck is check (c), followed by the "needs no repair" half for restores: the
// restore (or follow-mode restore) that was running when the process was killed is issued
// again, to the same output path, without any clean-up by hand.
func restartAndAck(w *World, res *vf.Result, sc *Scenario, inflight string) {
	p, alive, err := StartVictim(w.VC, Launch{Mode: Plain})
	if err != nil || !alive {
		res.Evals++
		res.Violate("restart-fails", "after the kill a fresh litestream process does not come up: %v", err)
		if p != nil {
			p.Stop()
		}
		return
	}
	defer p.Stop()
	for _, k := range []string{"small", "multi"} {
		if err := w.AppWrite(k); err != nil {
			res.HarnessErr = "app write after restart: " + err.Error()
			return
		}
	}
	var reply string
	acked := false
	for try := 1; try <= 3 && !acked; try++ {
		var alive bool
		reply, alive, err = p.Do("sync-wait")
		if err != nil {
			res.HarnessErr = err.Error()
			return
		}
		if !alive {
			res.Evals++
			res.Violate("restarted-process-died", "the restarted litestream process died during sync-wait attempt %d", try)
			return
		}
		res.Logf("restart: sync-wait attempt %d -> %s", try, reply)
		if strings.HasPrefix(reply, "ok ") {
			acked = true
			res.Count(fmt.Sprintf("restart_ack_on_attempt_%d", try), 1)
		}
	}
	res.Evals++
	if !acked {
		res.Violate("no-ack-after-restart", "after restart, sync-wait failed 3 times; last answer: %s", reply)
		return
	}
	src, err := w.SourceImage()
	if err != nil {
		res.HarnessErr = "source image: " + err.Error()
		return
	}
	opt := litestream.NewRestoreOptions()
	opt.IntegrityCheck = litestream.IntegrityCheckFull
	got, err := restoreBytes(w, opt)
	res.Evals++
	res.Count("restart_ack_restore_compared", 1)
	if err != nil {
		res.Violate("restore-after-restart-fails", "after restart and an acknowledged sync, Restore() fails: %v", err)
		return
	}
	if err := oracle.CompareMasked(src, got, w.Work); err != nil {
		if strings.HasPrefix(err.Error(), "harness:") {
			res.HarnessErr = err.Error()
			return
		}
		res.Violate("restore-after-restart-differs", "after restart and an acknowledged sync, Restore() differs from the source: %v", err)
		return
	}
	ackTXID := uint64(0)
	if f := strings.Fields(reply); len(f) >= 3 {
		ackTXID, _ = strconv.ParseUint(f[2], 10, 64)
	}
	retryKilledRestore(w, res, p, sc, inflight, src, ackTXID)
}

// retryKilledRestore re-issues the restore that the kill interrupted.
func retryKilledRestore(w *World, res *vf.Result, p *Proc, sc *Scenario, inflight string, src []byte, ackTXID uint64) {
	do := func(cmd string) (string, bool) {
		reply, alive, err := p.Do(cmd)
		if err != nil {
			res.HarnessErr = err.Error()
			return "", false
		}
		if !alive {
			res.Evals++
			res.Violate("restarted-process-died", "the restarted litestream process died during %q", cmd)
			return "", false
		}
		res.Logf("restart: %s -> %s", cmd, reply)
		return reply, true
	}
	// follow mode (S7): the follower ran for the whole traced phase
	follows := false
	for _, st := range sc.Steps {
		if st.Op == "v" && strings.HasPrefix(st.Arg, "follow-start ") {
			follows = true
			name := strings.Fields(st.Arg)[1]
			res.Evals++
			res.Count("follow_retried_after_kill", 1)
			for _, cmd := range []string{"follow-start " + name, fmt.Sprintf("follow-wait %d", ackTXID), "follow-stop"} {
				reply, ok := do(cmd)
				if !ok {
					return
				}
				if !strings.HasPrefix(reply, "ok ") {
					res.Violate("follow-retry-failed-after-kill", "after the kill and a restart, starting follow-mode restore to the same output path %s again does not work without manual clean-up: %q answered %s", name, cmd, reply)
					return
				}
			}
			got, err := os.ReadFile(filepath.Join(w.Root, name))
			if err != nil {
				res.Violate("follow-retry-failed-after-kill", "after the re-started follower reported TXID %d the output %s cannot be read: %v", ackTXID, name, err)
				return
			}
			// a follow-mode output keeps the file-format version bytes (header 18..19) of the pages
			// it applies in place; they are masked for follower images (DESIGN §2, CompareFollower)
			a, b := append([]byte{}, src...), append([]byte{}, got...)
			if len(a) >= 20 && len(b) >= 20 {
				a[18], a[19], b[18], b[19] = 0, 0, 0, 0
			}
			if err := oracle.CompareMasked(a, b, w.Work); err != nil {
				if strings.HasPrefix(err.Error(), "harness:") {
					res.HarnessErr = err.Error()
					return
				}
				res.Violate("follow-retry-differs", "after the kill, a restart and the re-started follower reporting TXID %d, %s differs from the source: %v", ackTXID, name, err)
			}
			return
		}
	}
	_ = follows
	arg, ok := strings.CutPrefix(inflight, "v ")
	if !ok || !strings.HasPrefix(arg, "restore ") {
		return
	}
	line, err := w.subst(arg)
	if err != nil {
		res.HarnessErr = err.Error()
		return
	}
	f := strings.Fields(line)
	name := f[1]
	if _, err := os.Stat(filepath.Join(w.Root, name)); err == nil {
		// the kill came after the output was published (checked complete above): a second
		// restore to an existing path is refused by design
		res.Count("restore_retry_skipped_output_already_published", 1)
		return
	}
	res.Evals++
	res.Count("restore_retried_after_kill", 1)
	reply, alive := do(line)
	if !alive {
		return
	}
	if !strings.HasPrefix(reply, "ok ") {
		res.Violate("restore-retry-failed-after-kill", "the restore that was killed (%q) cannot be repeated to the same output path after a restart without cleaning up by hand: %s", line, reply)
		return
	}
	want, wantTXID := src, ackTXID
	if kv(f[2:], "txid", "") != "" {
		exp := w.OutputExpect[name]
		if exp == nil {
			res.HarnessErr = "no expectation recorded for " + name
			return
		}
		want, wantTXID = exp.Img, exp.TXID
	}
	got, err := os.ReadFile(filepath.Join(w.Root, name))
	if err != nil {
		res.Violate("restore-retry-failed-after-kill", "repeated restore %q reported success but %s cannot be read: %v", line, name, err)
		return
	}
	if err := oracle.CompareMasked(want, got, w.Work); err != nil {
		if strings.HasPrefix(err.Error(), "harness:") {
			res.HarnessErr = err.Error()
			return
		}
		res.Violate("restore-retry-differs", "repeated restore %q succeeded but %s is not the database of TXID %d: %v", line, name, wantTXID, err)
	}
}
