//go:build verif

package c09

import (
	"bytes"
	"context"
	"crypto/sha256"
	"database/sql"
	"encoding/json"
	"fmt"
	"io"
	"math/rand"
	"os"
	"os/exec"
	"path/filepath"
	"sort"
	"strings"
	"sync"
	"time"

	"github.com/benbjohnson/litestream"

	"verif/harness/internal/oracle"
	"verif/harness/internal/vf"

	_ "modernc.org/sqlite"
)

type spec struct {
	Idx     int      `json:"idx"` // case index (names the witness directory)
	Base    baseSpec `json:"base"`
	MutSeed int64    `json:"mut_seed"`
	M       int      `json:"m"`  // mutants per base
	Lo      int      `json:"lo"` // this case handles mutants [lo,hi)
	Hi      int      `json:"hi"`
	BaseDir string   `json:"base_dir,omitempty"` // load base.db/base.wal from here instead of harvesting (exact replay)
	Demo    bool     `json:"demo,omitempty"`     // the pinned demonstration of the forged-commit-size finding
}

func init() {
	vf.Register(&vf.Check{
		ID:    "C09",
		Level: "exploration",
		Rule: "inputs = real (db, WAL) pairs harvested from modernc SQLite workloads (8 page sizes; restarts leaving stale-generation tails; spilled uncommitted / rolled-back tails; auto_vacuum and incremental_vacuum shrinking commits) x seeded mutations of the WAL bytes " +
			"{truncation at every frame boundary and inside headers/payloads, bit flips in WAL header / frame header fields / payload, frame duplication / insertion / swap / move, salt edits (header with and without header re-checksum, single frame, suffix, stale<->current), commit-field edits with and without re-checksumming the following chain, re-encoding to the other checksum byte order (alone and composed with the other classes), garbage / zero / torn tails, synthetic stale generations}; " +
			"every input is decided against real SQLite recovery (copy without -shm, open, wal_checkpoint(TRUNCATE)) for each reader configuration: PageMap from the header, VerifPageMap chunked with budget {1 frame, 3 frames, 64 MiB} from the header, and NewWALReaderWithOffset from commit boundaries of the valid prefix with budget {0, 1 frame, 3 frames, 64 MiB}, chunks chained exactly as DB.sync does; at each of those boundaries a reader resumed with the salts of another WAL generation must refuse or return nothing. " +
			"one evaluation = one (input, reader configuration) image comparison (+ chunk-end and chunk-union tests). " +
			"case 0 is a pinned demonstration input of the known finding forged-commit-size-breaks-writer-invariants. non-trivial input = committed prefix non-empty and (recovered image or committed prefix differs from the unmutated WAL's, or frames follow the last commit, or a forged commit size breaks the writer invariants); distinct = (base, mutation class, outcome class) over non-trivial inputs",
		Assumptions: []string{
			"modernc SQLite recovery + wal_checkpoint(TRUNCATE) is the reference for what SQLite treats as committed; cross-checked on a sample against the C SQLite of python3's sqlite3 module",
			"the reference decoder O-WAL is used only for input geometry, commit-boundary selection and diagnostics and is itself compared with SQLite on every input",
			"WALReader is driven directly (NewWALReader / NewWALReaderWithOffset / PageMap / VerifPageMap hook) and the publication step of DB.sync is mirrored by the harness (overlay, growth pages from the database file, trim to commit)",
			"forged frames with page number 0 and valid checksums are outside the property's quantifier and are not generated",
			"every input is judged, including re-checksummed commit-field edits; when the forged size breaks one of the two invariants of every SQLite-written WAL (a commit frame's page number <= the size it commits; a transaction writes every page it grows the database by) any disagreement is reported under the single key forged-commit-size-breaks-writer-invariants (computed from the input, whatever symptom fires; symptoms are counted under forged_sizes_symptom:*); the few such inputs SQLite itself refuses to recover cannot be judged and are counted",
			"case 0 of both tiers is the pinned demonstration of that finding (replays/C09-observation-forged-commit-size: base.db + base.wal, commit field of frame 1 set below its own page number, chain re-checksummed); when the files are missing the same workload is harvested again",
		},
		Cases:       cases,
		RunCase:     runCase,
		Finish:      finish,
		MinEvals:    8000,
		CaseTimeout: 20 * time.Minute,
	})
}

// forgedKey is the known-finding class: disagreements on inputs whose
// re-checksummed commit-field edit breaks the SQLite writer invariants.
const forgedKey = "forged-commit-size-breaks-writer-invariants"

// demoDir holds the pinned demonstration input of that finding.
func demoDir() string {
	return filepath.Join(vf.Root, "replays", "C09-observation-forged-commit-size")
}

// demoBase is the workload the demonstration input was harvested from (used
// when the saved files are not there).
var demoBase = baseSpec{Idx: 1000, Seed: 4242, PageSize: 512, AutoVacuum: 0, Kind: 1}

func tierShape(tier string) (bases, mutants, batch int) {
	if tier == "thorough" {
		return 40, 1000, 50
	}
	return 12, 150, 25
}

func basesDir(run *vf.Run) string { return filepath.Join(run.Scratch, "c09-bases") }

func cases(run *vf.Run) ([]json.RawMessage, error) {
	nb, nm, batch := tierShape(run.Tier)
	// harvest the bases once, in the driver, so that every worker mutates the
	// same bytes; a worker (or a replay) that does not find them re-harvests.
	specs := make([]baseSpec, nb)
	errs := make([]error, nb)
	var wg sync.WaitGroup
	sem := make(chan struct{}, 8)
	for i := 0; i < nb; i++ {
		specs[i] = makeBaseSpec(run.Seed, vf.SubSeed(run.Seed, "C09-base", i), i)
		if run.Scratch == "" {
			continue
		}
		wg.Add(1)
		go func(i int) {
			defer wg.Done()
			sem <- struct{}{}
			defer func() { <-sem }()
			d := filepath.Join(basesDir(run), fmt.Sprint(i))
			b, err := harvest(filepath.Join(d, "work"), specs[i])
			if err == nil {
				err = saveBase(d, b)
			}
			errs[i] = err
		}(i)
	}
	wg.Wait()
	for _, err := range errs {
		if err != nil {
			return nil, err
		}
	}
	var out []json.RawMessage
	out = append(out, vf.Spec(spec{Idx: 0, Base: demoBase, Demo: true, M: 1, Lo: 0, Hi: 1}))
	for i := 0; i < nb; i++ {
		for lo := 0; lo < nm; lo += batch {
			out = append(out, vf.Spec(spec{Idx: len(out), Base: specs[i], MutSeed: vf.SubSeed(run.Seed, "C09-mut", i), M: nm, Lo: lo, Hi: min(lo+batch, nm)}))
		}
	}
	return out, nil
}

type pyItem struct {
	dir  string
	name string
	s    []byte
}

type caseCtx struct {
	run  *vf.Run
	s    spec
	dir  string
	res  *vf.Result
	base *baseData
	g    geom
	ps   int

	origInfo *oracle.WALInfo
	origS    []byte
	saved    int
	triples  map[string]bool
	py       []pyItem

	// reusable buffers (multi-megabyte images; fresh allocations dominated the profile)
	walBuf, refBuf, imgBuf, workBuf, sBuf []byte
	snapBufs                              [][]byte
}

func runCase(run *vf.Run, raw json.RawMessage, dir string) *vf.Result {
	res := &vf.Result{}
	var s spec
	if err := json.Unmarshal(raw, &s); err != nil {
		res.HarnessErr = err.Error()
		return res
	}
	c := &caseCtx{run: run, s: s, dir: dir, res: res, triples: map[string]bool{}}
	var err error
	switch {
	case s.Demo:
		if c.base, err = loadBase(demoDir(), s.Base); err != nil {
			res.Logf("saved demonstration base not found (%v): harvesting the same workload again", err)
			c.base, err = harvest(filepath.Join(dir, "harvest"), s.Base)
		}
	case s.BaseDir != "":
		c.base, err = loadBase(s.BaseDir, s.Base)
	case os.Getenv("VERIF_C09_BASE") != "":
		c.base, err = loadBase(os.Getenv("VERIF_C09_BASE"), s.Base)
	default:
		if c.base, err = loadBase(filepath.Join(basesDir(run), fmt.Sprint(s.Base.Idx)), s.Base); err != nil {
			res.Logf("base not found in the run scratch (%v): harvesting it again (WAL salts will differ from the original run)", err)
			c.base, err = harvest(filepath.Join(dir, "harvest"), s.Base)
		}
	}
	if err != nil {
		res.HarnessErr = "base: " + err.Error()
		return res
	}
	c.g = geometry(c.base)
	c.ps = c.g.ps
	if c.g.ps != s.Base.PageSize || c.g.commit == 0 {
		res.HarnessErr = fmt.Sprintf("%s: base WAL unusable (page size %d, committed frames %d)", s.Base, c.g.ps, c.g.commit)
		return res
	}
	be := reencode(c.base.WAL, c.g.ps, c.g.valid)
	if bi := oracle.ParseWAL(be); !bi.BigEndian || bi.LastCommit != c.g.commit || len(bi.Valid) != c.g.valid {
		res.HarnessErr = fmt.Sprintf("%s: byte-order re-encoding is not equivalent by the reference decoder (%d/%d frames vs %d/%d)", s.Base, bi.LastCommit, len(bi.Valid), c.g.commit, c.g.valid)
		return res
	}
	c.origInfo = oracle.ParseWAL(c.base.WAL)
	if img, _, err := c.sqliteRecover(c.base.WAL); err != nil {
		res.HarnessErr = fmt.Sprintf("%s: SQLite cannot recover the unmutated pair: %v", s.Base, err)
		return res
	} else {
		c.origS = append([]byte{}, img...)
	}
	var muts []mutant
	if s.Demo {
		// commit field of the first non-final commit frame carrying a page > 1
		// := that page number - 1, following checksum chain recomputed
		for _, ix := range c.g.commitIx[:len(c.g.commitIx)-1] {
			if fr := c.g.frames[ix]; fr.Pgno > 1 && ix > 0 {
				muts = []mutant{{Class: "commit-lt-pgno+rechk", Op: "commit", A: ix, V: fr.Pgno - 1, Rechk: true}}
				break
			}
		}
		if len(muts) == 0 {
			res.HarnessErr = "demonstration base has no commit frame to forge"
			return res
		}
		res.Count("pinned_demonstration_cases", 1)
	} else {
		muts = buildMutants(c.base, s.MutSeed, s.M)
		if s.Lo == 0 {
			c.describeBase()
		}
	}
	for j := s.Lo; j < s.Hi && j < len(muts); j++ {
		c.walBuf = apply(muts[j], c.base, be, c.g, c.walBuf)
		c.runMutant(j, muts[j], c.walBuf)
		if res.HarnessErr != "" {
			return res
		}
	}
	c.pyCross()

	keys := make([]string, 0, len(c.triples))
	for k := range c.triples {
		keys = append(keys, k)
	}
	sort.Strings(keys)
	res.Nontrivial = len(keys) > 0
	res.Sig = fmt.Sprintf("%x", sha256.Sum256([]byte(strings.Join(keys, "\n"))))[:16]
	res.Sample = map[string]any{"base": s.Base.String(), "wal_frames": c.g.nfr, "valid_frames": c.g.valid, "committed_frames": c.g.commit,
		"db_pages": c.g.basePgs, "mutants": fmt.Sprintf("%d..%d of %d", s.Lo, s.Hi, s.M), "nontrivial_classes": keys}
	return res
}

func (c *caseCtx) describeBase() {
	r := c.res
	g := c.g
	r.Count("bases", 1)
	r.Count(fmt.Sprintf("base_page_size_%d", g.ps), 1)
	r.Count("base_kind:"+kindNames[c.s.Base.Kind], 1)
	if g.nfr > g.valid {
		r.Count("base_with_stale_generation_tail", 1)
	}
	if g.valid > g.commit {
		r.Count("base_with_uncommitted_valid_tail", 1)
	}
	shrink, spilled := 0, 0
	prev := g.basePgs
	run := 0
	for _, fr := range g.frames[:g.commit] {
		run++
		if fr.Commit != 0 {
			if fr.Commit < prev {
				shrink++
			}
			prev = fr.Commit
			if run > 8 {
				spilled++
			}
			run = 0
		}
	}
	if shrink > 0 {
		r.Count("base_with_shrinking_commit", 1)
	}
	if spilled > 0 {
		r.Count("base_with_txn_over_8_frames", 1)
	}
	r.Count("base_commits", len(g.commitIx))
	r.Count("base_frames", g.nfr)
}

// sqliteRecover is the deciding oracle: what real SQLite makes of (db, wal).
// The pair is written to a fresh path without -shm, opened, checkpointed with
// TRUNCATE and closed; the database file is the recovered committed state.
// PRAGMA wal_checkpoint needs the schema; when the recovered page 1 does not
// parse (only seen with forged commit sizes) the pragma fails after recovery
// has run, and closing the last connection performs the same checkpoint and
// deletes the WAL - that result is used then (via="close").
func (c *caseCtx) sqliteRecover(wal []byte) (img []byte, via string, err error) {
	d := filepath.Join(c.dir, "rec")
	if err := os.MkdirAll(d, 0o755); err != nil {
		return nil, "", err
	}
	p := filepath.Join(d, "db")
	_ = os.Remove(p + "-shm")
	_ = os.Remove(p + "-journal")
	if err := rewriteFile(p, c.base.DB); err != nil {
		return nil, "", err
	}
	if err := rewriteFile(p+"-wal", wal); err != nil {
		return nil, "", err
	}
	db, err := sql.Open("sqlite", "file:"+p+"?_pragma=busy_timeout(2000)")
	if err != nil {
		return nil, "", err
	}
	db.SetMaxOpenConns(1)
	var a, b, n int
	perr := db.QueryRow(`PRAGMA wal_checkpoint(TRUNCATE)`).Scan(&a, &b, &n)
	if cerr := db.Close(); cerr != nil {
		return nil, "", fmt.Errorf("close reference copy: %w", cerr)
	}
	via = "pragma"
	if perr != nil {
		if _, serr := os.Stat(p + "-wal"); serr == nil || !os.IsNotExist(serr) {
			return nil, "", fmt.Errorf("checkpoint reference copy: %w (WAL still present after close)", perr)
		}
		via = "close"
	} else if a != 0 {
		return nil, "", fmt.Errorf("checkpoint reference copy busy")
	}
	if c.sBuf, err = readInto(p, c.sBuf); err != nil {
		return nil, "", err
	}
	return c.sBuf, via, nil
}

// rewriteFile makes path hold exactly data, overwriting in place when the file
// exists (on tmpfs that keeps the pages instead of freeing and faulting them in
// again for every input).
func rewriteFile(path string, data []byte) error {
	f, err := os.OpenFile(path, os.O_RDWR|os.O_CREATE, 0o644)
	if err != nil {
		return err
	}
	if _, err := f.WriteAt(data, 0); err != nil {
		f.Close()
		return err
	}
	if err := f.Truncate(int64(len(data))); err != nil {
		f.Close()
		return err
	}
	return f.Close()
}

func readInto(path string, buf []byte) ([]byte, error) {
	f, err := os.Open(path)
	if err != nil {
		return nil, err
	}
	defer f.Close()
	st, err := f.Stat()
	if err != nil {
		return nil, err
	}
	n := int(st.Size())
	if cap(buf) < n {
		buf = make([]byte, n, n+n/4)
	}
	buf = buf[:n]
	if _, err := io.ReadFull(f, buf); err != nil {
		return nil, err
	}
	return buf, nil
}

func (c *caseCtx) saveWitness(j int, m mutant, wal []byte, note string) string {
	c.saved++
	if c.saved > 3 {
		return "(witness files not saved: more than 3 in this case)"
	}
	d := filepath.Join(vf.Root, "replays", fmt.Sprintf("C09-seed%d-%s-case%d-m%d", c.run.Seed, c.run.Tier, c.s.Idx, j))
	if err := os.MkdirAll(d, 0o755); err != nil {
		return "(cannot save witness: " + err.Error() + ")"
	}
	_ = os.WriteFile(filepath.Join(d, "base.db"), c.base.DB, 0o644)
	_ = os.WriteFile(filepath.Join(d, "base.wal"), c.base.WAL, 0o644)
	_ = os.WriteFile(filepath.Join(d, "mutant.wal"), wal, 0o644)
	_ = os.WriteFile(filepath.Join(d, "info.txt"), []byte(fmt.Sprintf("%s\nmutant #%d: %s\n%s\nexact replay: VERIF_C09_BASE=%s /verif/check C09 --replay <replay file>\n(base.db + mutant.wal is the failing input; base.wal is the unmutated WAL)\n", c.s.Base, j, m, note, d)), 0o644)
	return d
}

func (c *caseCtx) runMutant(j int, m mutant, wal []byte) {
	res := c.res
	ctx := context.Background()
	ps := c.ps
	fs := int64(24 + ps)
	tag := fmt.Sprintf("%s mutant#%d %s", c.s.Base, j, m)
	res.Count("inputs", 1)
	res.Count("class:"+m.Class, 1)
	if m.BE {
		res.Count("inputs_big_endian_checksums", 1)
	}

	// --- input classification by the reference decoder
	info := oracle.ParseWAL(wal)
	forgedCommit := m.Op == "commit" && m.Rechk
	wf, wfWhy := wellFormed(info, c.g.basePgs)
	if !wf && !forgedCommit {
		// never seen: a WAL written by SQLite (or a non-forging mutation of one)
		// that breaks the writer invariants would make the restriction below
		// unsound, so it is decided like every other input and reported.
		res.Count("writer_invariant_broken_without_forging", 1)
		res.Logf("%s: %s", tag, wfWhy)
		wf = true
	}

	// --- oracle: real SQLite, and the reference decoder checked against it
	S, via, err := c.sqliteRecover(wal)
	if err != nil {
		res.Count("sqlite_recovery_error", 1)
		res.Logf("%s: SQLite recovery error: %v", tag, err)
		if !wf {
			res.Count("forged_size_inputs_sqlite_itself_refuses", 1)
		} else {
			res.HarnessErr = fmt.Sprintf("%s: SQLite recovery failed: %v (witness %s)", tag, err, c.saveWitness(j, m, wal, "sqlite error: "+err.Error()))
		}
		return
	}
	res.Count("sqlite_image_via_"+via, 1)
	c.refBuf = refImage(c.base.DB, wal, info, c.refBuf)
	if R := c.refBuf; !bytes.Equal(R, S) {
		d := c.saveWitness(j, m, wal, "O-WAL vs SQLite: "+firstDiff(S, R, ps))
		res.HarnessErr = fmt.Sprintf("%s: reference decoder O-WAL disagrees with SQLite recovery (%s; decoder: header ok=%v valid=%d committed=%d dbsize=%d) witness=%s", tag, firstDiff(S, R, ps), info.HeaderOK, len(info.Valid), info.LastCommit, info.DBSize, d)
		return
	}
	res.Count("owal_equals_sqlite", 1)
	if j%11 == 0 && len(c.py) < 3 {
		c.pyQueue(j, m, wal, S)
	}

	// --- outcome class of the input
	var outcome string
	switch {
	case !info.HeaderOK:
		outcome = "wal-header-rejected"
	case info.LastCommit == 0:
		outcome = "no-committed-frame"
	case info.LastCommit == c.origInfo.LastCommit && info.DBSize == c.origInfo.DBSize:
		outcome = "prefix-same"
	case info.LastCommit < c.origInfo.LastCommit:
		outcome = "prefix-shorter"
	case info.LastCommit > c.origInfo.LastCommit:
		outcome = "prefix-longer"
	default:
		outcome = "prefix-same-length-other-size"
	}
	imgChanged := !bytes.Equal(S, c.origS)
	if imgChanged {
		outcome += "/image-differs"
	} else {
		outcome += "/image-same"
	}
	nfr := 0
	if info.HeaderOK && len(wal) >= 32 {
		nfr = (len(wal) - 32) / int(fs)
	}
	tail := info.LastCommit > 0 && nfr > info.LastCommit
	if tail {
		outcome += "/tail"
		if len(info.Valid) > info.LastCommit {
			res.Count("inputs_with_valid_uncommitted_tail", 1)
		} else {
			res.Count("inputs_with_invalid_or_stale_tail", 1)
		}
	}
	if !wf {
		outcome += "/forged-size-breaks-writer-invariants"
		res.Count("inputs_forged_commit_size_breaks_writer_invariants", 1)
	}
	res.Count("outcome:"+outcome, 1)
	prefixChanged := info.LastCommit != c.origInfo.LastCommit || info.DBSize != c.origInfo.DBSize
	if info.LastCommit > 0 && (imgChanged || prefixChanged || tail || !wf) {
		c.triples[fmt.Sprintf("%d/%s/%s", c.s.Base.Idx, m.Class, outcome)] = true
		res.Count("inputs_nontrivial", 1)
	}

	commitEnds := map[int64]bool{}
	var commitIdx []int
	for _, fr := range info.Valid {
		if fr.Index < info.LastCommit && fr.Commit != 0 {
			commitEnds[fr.Offset+fs] = true
			commitIdx = append(commitIdx, fr.Index)
		}
	}

	// judge one reader configuration
	judge := func(cfg string, run *lsRun, whole *lsRun) {
		kind := strings.SplitN(cfg, "@", 2)[0]
		res.Count("reader_calls", run.Calls)
		fail := func(key, format string, a ...any) {
			msg := fmt.Sprintf(format, a...)
			if !wf {
				// Known finding: a re-checksummed commit-field edit whose forged
				// size breaks the writer invariants (see wellFormed). One key for
				// the whole family, derived from the input, whatever symptom
				// fires; the symptom is kept as an observation counter. The
				// pinned demonstration (case 0) holds the witness files.
				res.Count("forged_sizes_symptom:"+key, 1)
				res.Logf("%s [%s]: %s", tag, cfg, msg)
				res.Violate(forgedKey, "%s [%s]: input breaks SQLite writer invariants (%s); symptom=%s: %s; demonstration files: %s", tag, cfg, wfWhy, key, msg, demoDir())
				return
			}
			d := c.saveWitness(j, m, wal, cfg+": "+msg)
			res.Logf("%s [%s]: %s", tag, cfg, msg)
			res.Violate(key, "%s [%s]: %s; input files: %s (base.db + mutant.wal)", tag, cfg, msg, d)
		}
		{
			res.Evals++
			res.Count("cfg:"+kind, 1)
			res.Count("chunks_published", run.Chunks)
			res.Count("chunks_limited_by_budget", run.Limited)
			if run.Fallback > 0 {
				res.Count("prev_frame_mismatch_fallbacks", run.Fallback)
			}
			if run.Status != "ok" && run.Status != "header-rejected" {
				res.Count("ls_status:"+run.Status, 1)
			}
		}
		if !bytes.Equal(run.Img, S) {
			key := "image-differs"
			switch {
			case run.Status == "db-read-beyond-eof":
				key = "sync-error-db-read-beyond-eof"
			case run.Status != "ok":
				key = "reader-" + run.Status
			}
			over := ""
			if len(run.Ends) > 0 && info.LastCommit > 0 {
				last := run.Ends[len(run.Ends)-1]
				ref := info.Valid[info.LastCommit-1].Offset + fs
				switch {
				case last > ref:
					over = fmt.Sprintf(" (litestream read to %d, beyond SQLite's last commit at %d)", last, ref)
					key += "-overread"
				case last < ref:
					over = fmt.Sprintf(" (litestream stopped at %d, SQLite's last commit ends at %d)", last, ref)
					key += "-underread"
				}
			} else if info.LastCommit > 0 {
				over = " (litestream published nothing)"
				key += "-nothing-published"
			} else if len(run.Ends) > 0 {
				over = " (SQLite recovers nothing from this WAL)"
				key += "-overread"
			}
			fail(key, "replicated image != SQLite recovery: %s%s; status=%s %s chunks=%d commit=%d sqlite(committed frames=%d dbsize=%d)",
				firstDiff(S, run.Img, ps), over, run.Status, run.Detail, run.Chunks, run.Commit, info.LastCommit, info.DBSize)
			return
		}
		for _, e := range run.Ends {
			if !commitEnds[e] {
				fail("chunk-end-not-commit-frame", "chunk end offset %d is not the end of a commit frame of the committed prefix (ends %v)", e, run.Ends)
				return
			}
		}
		if whole != nil && whole.Status == "ok" && run.Status == "ok" {
			same := len(whole.Union) == len(run.Union)
			if same {
				for k, v := range whole.Union {
					if run.Union[k] != v {
						same = false
						break
					}
				}
			}
			if !same {
				// offsets differ: only a refutation if the selected bytes differ
				diff := false
				for k, v := range whole.Union {
					w, ok := run.Union[k]
					if !ok || !bytes.Equal(wal[v+24:v+fs], wal[w+24:w+fs]) {
						diff = true
					}
				}
				for k := range run.Union {
					if _, ok := whole.Union[k]; !ok {
						diff = true
					}
				}
				if diff {
					fail("chunk-union-differs", "union of chunk page maps (%d pages) != unchunked page map (%d pages)", len(run.Union), len(whole.Union))
					return
				}
				res.Count("chunk_union_other_offsets_same_bytes", 1)
			} else {
				res.Count("chunk_union_equals_unchunked_map", 1)
			}
		}
		if !wf {
			res.Count("forged_sizes_symptom:none(agrees-with-sqlite)", 1)
		}
	}

	// 1. PageMap from the header (what a first sync / snapshot uses)
	whole := lsReplicate(ctx, c.base.DB, wal, ps, 32, c.base.DB, 0, true, &c.imgBuf)
	judge("PageMap@header", whole, nil)
	if whole.Status == "ok" {
		// the selected frames against the reference decoder (diagnostic)
		refPages := info.CommittedPages()
		same := true
		for k, v := range whole.Union {
			if refPages[k] != v {
				same = false
			}
		}
		for k := range refPages {
			if _, ok := whole.Union[k]; !ok && k <= info.DBSize {
				same = false
			}
		}
		if same {
			res.Count("pagemap_equals_reference_decoder", 1)
		} else {
			res.Count("pagemap_offsets_differ_from_reference_decoder", 1)
		}
	}
	// 2. chunked catch-up from the header
	type budget struct {
		name string
		n    int64
	}
	budgets := []budget{{"1frame", fs}, {"3frames", 3 * fs}, {"64MiB", 64 << 20}}
	for _, b := range budgets {
		judge("chunked-"+b.name+"@header", lsReplicate(ctx, c.base.DB, wal, ps, 32, c.base.DB, b.n, false, &c.imgBuf), whole)
	}
	// 3. resumed readers from commit boundaries of the valid prefix: the
	// first, the last and one drawn at random
	if len(commitIdx) > 0 {
		want := map[int]bool{}
		rng := rand.New(rand.NewSource(c.s.MutSeed ^ int64(j)*7919))
		want[commitIdx[len(commitIdx)-1]] = true
		want[commitIdx[0]] = true
		want[commitIdx[rng.Intn(len(commitIdx))]] = true
		all := append([]budget{{"unlimited", 0}}, budgets...)
		for _, bd := range boundaries(c.base.DB, wal, info, want, &c.workBuf, &c.snapBufs) {
			res.Count("resume_offsets", 1)
			for _, b := range all {
				judge(fmt.Sprintf("resume-%s@%d", b.name, bd.Offset), lsReplicate(ctx, c.base.DB, wal, ps, bd.Offset, bd.Img, b.n, false, &c.imgBuf), nil)
			}
			// a position saved under another WAL generation (other salts) must not be continued
			// inside this one: the frame in front of the offset carries this generation's salts
			if wf && len(wal) >= 32 {
				s1, s2 := be32(wal[16:])-1, be32(wal[20:])^0x5bd1e995
				res.Evals++
				res.Count("stale_salt_resumes", 1)
				rd, err := litestream.NewWALReaderWithOffset(ctx, bytes.NewReader(wal), bd.Offset, s1, s2, discard)
				if err != nil {
					res.Count("stale_salt_resume_refused", 1)
				} else if pm, end, commit, perr := rd.PageMap(ctx); perr == nil && len(pm) > 0 {
					msg := fmt.Sprintf("a reader resumed at offset %d with the salts of another WAL generation (%08x/%08x, header has %08x/%08x) returns %d pages up to offset %d (commit %d) instead of refusing", bd.Offset, s1, s2, be32(wal[16:]), be32(wal[20:]), len(pm), end, commit)
					d := c.saveWitness(j, m, wal, "stale-salts: "+msg)
					res.Violate("stale-salt-resume-returns-frames", "%s: %s; input files: %s (base.db + mutant.wal)", tag, msg, d)
				} else {
					res.Count("stale_salt_resume_returned_nothing", 1)
				}
			}
		}
	}
}

// ---------------------------------------------------------------------------
// cross-check of the deciding oracle with the C SQLite of python3

const pyScript = `
import sqlite3, sys
print("version", sqlite3.sqlite_version)
for d in sys.argv[1:]:
    try:
        con = sqlite3.connect(d + "/db", isolation_level=None)
        con.execute("PRAGMA wal_checkpoint(TRUNCATE)").fetchall()
        con.close()
        print("ok", d)
    except Exception as e:
        print("err", d, repr(e))
`

// pythonBin prefers the system interpreter: a pyenv shim in PATH costs tens of
// seconds per start on a loaded machine.
func pythonBin() string {
	if st, err := os.Stat("/usr/bin/python3"); err == nil && !st.IsDir() {
		return "/usr/bin/python3"
	}
	return "python3"
}

func (c *caseCtx) pyQueue(j int, m mutant, wal, S []byte) {
	d := filepath.Join(c.dir, fmt.Sprintf("py%d", j))
	if os.MkdirAll(d, 0o755) != nil {
		return
	}
	if os.WriteFile(filepath.Join(d, "db"), c.base.DB, 0o644) != nil || os.WriteFile(filepath.Join(d, "db-wal"), wal, 0o644) != nil {
		return
	}
	c.py = append(c.py, pyItem{dir: d, name: fmt.Sprintf("%s mutant#%d %s", c.s.Base, j, m), s: append([]byte{}, S...)})
}

func (c *caseCtx) pyCross() {
	if len(c.py) == 0 {
		return
	}
	args := []string{"-c", pyScript}
	for _, it := range c.py {
		args = append(args, it.dir)
	}
	ctx, cancel := context.WithTimeout(context.Background(), 4*time.Minute)
	defer cancel()
	t0 := time.Now()
	out, err := exec.CommandContext(ctx, pythonBin(), args...).CombinedOutput()
	if err != nil || !bytes.Contains(out, []byte("version ")) {
		c.res.Count("c_sqlite_cross_check_skipped", len(c.py))
		c.res.Count(fmt.Sprintf("c_sqlite_cross_check_skipped_reason:%.40v/after=%ds", err, int(time.Since(t0).Seconds())), 1)
		c.res.Logf("python3 sqlite3 unavailable: %v %s", err, out)
		return
	}
	for _, it := range c.py {
		if !bytes.Contains(out, []byte("ok "+it.dir+"\n")) {
			c.res.Count("c_sqlite_cross_check_error", 1)
			c.res.Logf("python3 sqlite3 failed on %s: %s", it.name, out)
			continue
		}
		got, err := os.ReadFile(filepath.Join(it.dir, "db"))
		if err != nil {
			c.res.Count("c_sqlite_cross_check_error", 1)
			continue
		}
		if !bytes.Equal(got, it.s) {
			c.res.HarnessErr = fmt.Sprintf("%s: C SQLite (python3) and modernc SQLite recover different images: %s", it.name, firstDiff(it.s, got, c.ps))
			return
		}
		c.res.Count("c_sqlite_cross_check_equal", 1)
	}
}

// ---------------------------------------------------------------------------

func finish(run *vf.Run, results []*vf.Result, ev map[string]any) []vf.Violation {
	triples := map[string]bool{}
	classes := map[string]bool{}
	for _, r := range results {
		if r == nil {
			continue
		}
		m, ok := r.Sample.(map[string]any)
		if !ok {
			continue
		}
		l, _ := m["nontrivial_classes"].([]any)
		for _, x := range l {
			if s, ok := x.(string); ok {
				triples[s] = true
				if p := strings.SplitN(s, "/", 3); len(p) == 3 {
					classes[p[1]] = true
				}
			}
		}
		// keep the evidence samples small
		if len(l) > 6 {
			m["nontrivial_classes"] = append(l[:6:6], fmt.Sprintf("... %d more", len(l)-6))
		}
	}
	ev["distinct_nontrivial"] = len(triples)
	ev["distinct_nontrivial_unit"] = "(base, mutation class, outcome class) over non-trivial inputs"
	ev["mutation_classes_with_nontrivial_inputs"] = len(classes)
	if out, err := exec.Command(pythonBin(), "-c", "import sqlite3; print(sqlite3.sqlite_version)").Output(); err == nil {
		ev["c_sqlite_version"] = strings.TrimSpace(string(out))
	} else {
		ev["c_sqlite_version"] = "unavailable (cross-check skipped)"
	}
	return nil
}
