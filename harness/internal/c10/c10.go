// Package c10: restore fails loudly rather than produce a wrong or partial
// database (DESIGN §4 C10).
//
// Structure: the driver's case list consists of "outer" cases, each a batch of
// items (one item = one Restore call judged by the oracle). The worker that
// runs an outer case does not call litestream itself: it starts a grandchild
// process (the same binary in `worker` mode with an item list of its own) and
// feeds it one item at a time. A panic inside litestream's restore goroutine
// therefore kills only the grandchild; the worker knows which item was
// running, reads the panic from the grandchild's stderr, records a violation
// keyed on that exact witness, restarts the grandchild and goes on.
package c10

import (
	"bufio"
	"encoding/json"
	"fmt"
	"hash/fnv"
	"io"
	"log/slog"
	"math/rand"
	"os"
	"os/exec"
	"path/filepath"
	"strconv"
	"strings"
	"sync"
	"syscall"
	"time"

	"verif/harness/internal/vf"
)

func discardLogger() *slog.Logger { return slog.New(slog.NewTextHandler(io.Discard, nil)) }

// outer is one driver-level case.
type outer struct {
	Base baseSpec `json:"base"`
	Fp   string   `json:"fp"`
	Kind string   `json:"kind"` // corrupt | faults | integrity | preexist | staletmp

	File     int     `json:"file,omitempty"`
	Name     string  `json:"name,omitempty"` // L<level>/<min>-<max>, for the reader of a replay file
	Op       string  `json:"op,omitempty"`
	Offs     []int64 `json:"offs,omitempty"`
	MaskSeed int64   `json:"mask_seed,omitempty"`
	Masks    []byte  `json:"masks,omitempty"` // explicit flip masks parallel to Offs (else derived from MaskSeed)
	Files    []int   `json:"files,omitempty"` // op == delete: one item per file

	Groups [][]sched   `json:"groups,omitempty"`
	Integ  []integSpec `json:"integ,omitempty"`
	Pre    []preSpec   `json:"pre,omitempty"`
	Tmp    []tmpSpec   `json:"tmp,omitempty"`
}

const f6Key = "panic:truncated-within-8-bytes-after-page-block"

func init() {
	vf.Register(&vf.Check{
		ID:    "C10",
		Level: "fault_enumeration",
		Rule: "replicas built by scripted E-HIST histories (seeded write mix, Compact(1)/Compact(2)/Snapshot interleaved so that the plan for the pinned latest TXID is snapshot + L2 + L1 + L0 files; several page sizes, L0 kept or purged); " +
			"per plan file: delete; truncate / flip one byte at every offset (files up to the tier's size bound) or at every framing boundary (header, each page frame start/+6/+10, end-of-pages marker, page index, trailer) +-8 bytes plus a PRNG sample; " +
			"read-fault schedules through a ReplicaClient proxy (open error, mid-stream error, premature EOF at framing-aware and random byte offsets of a plan file or of every plan file, repeated 1..5 times, retry budget 3); " +
			"deletions are judged against the pinned TXID and, for every file that is not the newest of the chain, also against an unpinned latest-state restore, on the full replica and on the replica thinned to the files of the plan; " +
			"checksum-valid b-tree page mutations re-encoded with ltx.Encoder for Restore(IntegrityCheck quick|full); pre-existing output paths (file, empty file, directory, symlink); a stale <output>.tmp (larger / smaller / same size, read-only, directory) left by a killed restore. " +
			"Each Restore is one evaluation: nil => output bytes == restore of the pristine replica at the same TXID; error => no file at the output path; death of the restoring process => violation of its own class. " +
			"distinct = (replica layout fingerprint, file, operation, offsets/schedules); non-trivial = the disturbed file belongs to the pinned restore plan (always true by construction for corruptions and fault schedules), SQLite itself rejects the mutated image (integrity cases), the output path existed (pre-existing cases)",
		Assumptions: []string{
			"file replica client only (no network); the read-fault proxy is an ordinary ReplicaClient",
			"reference bytes = Restore of the pristine replica at the pinned TXID, cross-checked once per replica against the checkpointed source image (O-SRC mask)",
			"ltx.Encoder/Decoder are used to build checksum-valid mutated files and to locate page versions; framing offsets come from an independent walk over the file bytes",
			"a .tmp file left next to the output after a failure is counted, not judged (the statement names only the output path); a dangling symlink at the output path is counted, not judged",
		},
		Cases:       cases,
		RunCase:     runCase,
		MinEvals:    500,
		CaseTimeout: 15 * time.Minute,
	})
}

// ---------------------------------------------------------------------------
// case list

type tierCfg struct {
	bases      []baseSpec
	every      int64 // files up to this size: every offset
	sample     int
	maxFrames  int
	chunk      int
	schedsPer  int // fault schedules per base
	groupSize  int
	groupsPer  int // groups per outer case
	integPages int
}

func tier(run *vf.Run) tierCfg {
	s := run.Seed
	rot := []int{1024, 2048, 8192, 16384, 32768, 65536}
	r := int(uint64(vf.SubSeed(s, "C10-rot")) % uint64(len(rot)))
	bs := func(i int, ps, av int, purge, rich bool) baseSpec {
		return baseSpec{Seed: vf.SubSeed(s, "C10-base", i) % 1000000, PageSize: ps, AutoVac: av, PurgeL0: purge, Rich: rich}
	}
	if run.Tier == "thorough" {
		return tierCfg{
			bases: []baseSpec{
				bs(0, 512, 0, false, false),
				bs(1, 4096, 0, true, true),
				bs(2, rot[r], 1, false, false),
				bs(3, 1024, 2, true, false),
				bs(4, rot[(r+3)%len(rot)], 0, false, true),
			},
			every: 8192, sample: 1200, maxFrames: 0, chunk: 400,
			schedsPer: 120, groupSize: 6, groupsPer: 2, integPages: 6,
		}
	}
	return tierCfg{
		bases: []baseSpec{
			bs(0, 512, 0, false, false),
			bs(1, 4096, 0, true, true),
			bs(2, rot[r], 1, false, false),
		},
		every: 0, sample: 24, maxFrames: 2, chunk: 200,
		schedsPer: 20, groupSize: 5, groupsPer: 1, integPages: 1,
	}
}

func cases(run *vf.Run) ([]json.RawMessage, error) {
	cfg := tier(run)
	metas := make([]*baseMeta, len(cfg.bases))
	errs := make([]error, len(cfg.bases))
	var wg sync.WaitGroup
	for i, b := range cfg.bases {
		wg.Add(1)
		go func(i int, b baseSpec) {
			defer wg.Done()
			metas[i], errs[i] = ensureBase(run.Scratch, b)
		}(i, b)
	}
	wg.Wait()
	for _, err := range errs {
		if err != nil {
			return nil, err
		}
	}
	// Order of the list = order of dispatch: truncation batches first (while
	// the decoder panic of DESIGN §5 F6 is unrepaired each of them costs eight
	// process restarts, so they are the long poles), then the sleep-bound fault
	// schedules, then everything else.
	var truncs, faults, rest []json.RawMessage
	for bi, m := range metas {
		fp := m.fingerprint()
		rng := rand.New(rand.NewSource(vf.SubSeed(run.Seed, "C10-cases", bi)))

		// (b) fault schedules
		scheds := genScheds(rng, m, cfg.schedsPer)
		var groups [][]sched
		for i := 0; i < len(scheds); i += cfg.groupSize {
			groups = append(groups, scheds[i:min(i+cfg.groupSize, len(scheds))])
		}
		for i := 0; i < len(groups); i += cfg.groupsPer {
			faults = append(faults, vf.Spec(outer{Base: m.Spec, Fp: fp, Kind: "faults", Groups: groups[i:min(i+cfg.groupsPer, len(groups))]}))
		}

		// (a) corruptions
		rest = append(rest, vf.Spec(outer{Base: m.Spec, Fp: fp, Kind: "corrupt", Op: "delete", Files: m.Plan}))
		for _, fi := range m.Plan {
			f := m.Files[fi]
			for _, op := range []string{"trunc", "flip"} {
				offs := f.offsets(rng, cfg.every, cfg.sample, cfg.maxFrames, f.Size)
				for i := 0; i < len(offs); i += cfg.chunk {
					sp := vf.Spec(outer{Base: m.Spec, Fp: fp, Kind: "corrupt", File: fi, Name: f.name(), Op: op,
						Offs: offs[i:min(i+cfg.chunk, len(offs))], MaskSeed: vf.SubSeed(run.Seed, "C10-mask", bi, fi)})
					if op == "trunc" {
						truncs = append(truncs, sp)
					} else {
						rest = append(rest, sp)
					}
				}
			}
		}

		if bi == 0 {
			// the one high-bit flip of a size prefix's top byte (see maskFor)
			f := m.Files[m.Plan[0]]
			rest = append(rest, vf.Spec(outer{Base: m.Spec, Fp: fp, Kind: "corrupt", File: m.Plan[0], Name: f.name(), Op: "flip",
				Offs: []int64{f.Frames[0] + 6}, Masks: []byte{0x10}}))
		}

		// (c) integrity
		var integ []integSpec
		for p := 0; p < cfg.integPages; p++ {
			for _, mode := range []string{"full", "quick"} {
				for _, mut := range []string{"type", "ncell", "cellptr", "swap"} {
					integ = append(integ, integSpec{Mode: mode, Page: rng.Intn(1000), Mut: mut})
				}
			}
		}
		integ = append(integ, integSpec{Mode: "full", Mut: "magic"}, integSpec{Mode: "quick", Mut: "magic"})
		rest = append(rest, vf.Spec(outer{Base: m.Spec, Fp: fp, Kind: "integrity", Integ: integ}))

		// (d) pre-existing output
		var pre []preSpec
		for i, v := range []string{"file", "empty", "dir", "symlink", "dangling"} {
			pre = append(pre, preSpec{Variant: v, Pin: true})
			pre = append(pre, preSpec{Variant: v, Pin: false, Integrity: []string{"", "quick", "full"}[i%3]})
		}
		pre = append(pre, preSpec{Variant: "file", Pin: true, Corrupt: true}, preSpec{Variant: "empty", Pin: true, Integrity: "full", Corrupt: true})
		rest = append(rest, vf.Spec(outer{Base: m.Spec, Fp: fp, Kind: "preexist", Pre: pre}))

		// (e) stale <output>.tmp
		var stale []tmpSpec
		for i, v := range []string{"larger", "larger", "larger", "smaller", "same", "readonly", "dir"} {
			stale = append(stale, tmpSpec{Variant: v, Pin: i%2 == 0, Integrity: []string{"", "full", "quick"}[i%3], Seed: vf.SubSeed(run.Seed, "C10-tmp", bi, i)})
		}
		rest = append(rest, vf.Spec(outer{Base: m.Spec, Fp: fp, Kind: "staletmp", Tmp: stale}))
	}
	return append(append(truncs, faults...), rest...), nil
}

// genScheds draws n fault schedules for a base: targets rotate over the plan
// files, kinds and repeat counts cycle so that every (kind, repeat) cell is
// present, offsets are drawn from framing-aware positions and uniformly.
func genScheds(rng *rand.Rand, m *baseMeta, n int) []sched {
	kinds := []string{"err", "eof", "open", "eof", "err"}
	rot := rng.Intn(len(kinds))
	var out []sched
	for i := 0; i < n; i++ {
		t := i % len(m.Plan)
		f := m.Files[m.Plan[t]]
		s := sched{Target: t, Kind: kinds[(i/5+rot)%len(kinds)], Repeat: 1 + i%5}
		aware := []int64{0, 1, 50, 99, 100, 106, 110, f.MarkerEnd - 6, f.MarkerEnd - 1, f.MarkerEnd, f.MarkerEnd + 1, f.MarkerEnd + 4, f.MarkerEnd + 7, f.MarkerEnd + 8, f.IndexEnd - 8, f.IndexEnd, f.IndexEnd + 8, f.Size - 1}
		if len(f.Frames) > 1 {
			aware = append(aware, f.Frames[1], f.Frames[len(f.Frames)-1]+10)
		}
		if rng.Intn(3) == 0 {
			s.Off = rng.Int63n(f.Size)
		} else {
			s.Off = aware[rng.Intn(len(aware))]
		}
		if s.Off < 0 {
			s.Off = 0
		}
		if s.Off >= f.Size {
			s.Off = f.Size - 1
		}
		s.Step = []int64{0, 0, 1, 7, 64}[rng.Intn(5)]
		s.Carry = s.Kind != "open" && i%2 == 1
		if i%17 == 16 {
			s.Target = -1 // every plan file, each with its own budget
		}
		out = append(out, s)
	}
	return out
}

// maskFor picks the flip mask for an offset. The most significant byte of a
// page frame's 4-byte size prefix is flipped only in its low bits: the decoder
// allocates whatever the prefix says before reading (ltx decoder.go,
// make([]byte, dataSize)), so mask 0xFF there means a 4 GiB zeroed allocation
// per restore - times 16 workers that would endanger the host and every other
// job on it (one such restore was seen to take from 0.2 s to more than 3 min
// depending on host load). A 256 MiB variant (mask 0x10) is exercised by one
// dedicated, single item per run instead (see cases) and counted as an
// observation.
func maskFor(seed, off int64, sizeTop bool) byte {
	h := fnv.New32a()
	fmt.Fprint(h, seed, "|", off)
	masks := []byte{0x01, 0x02, 0x04, 0x08, 0x10, 0x20, 0x40, 0x80, 0xFF, 0x55}
	if sizeTop {
		masks = []byte{0x01, 0x02, 0x04}
	}
	return masks[h.Sum32()%uint32(len(masks))]
}

// expand turns an outer case into its items.
func (o *outer) expand(m *baseMeta) []item {
	var its []item
	mk := func() item { return item{Inner: true, Base: o.Base, Fp: o.Fp, Kind: o.Kind} }
	switch o.Kind {
	case "corrupt":
		if o.Op == "delete" {
			// pristine thinned replica first (evidence that thinning alone
			// does not disturb the restore), then every deletion against the
			// pinned TXID and, for files that are not the newest of the chain,
			// against "latest" - on the full and on the thinned replica
			for _, unpin := range []bool{false, true} {
				it := mk()
				it.File, it.Op, it.Thin, it.Unpin = o.Files[0], "none", true, unpin
				its = append(its, it)
			}
			newest := o.Files[len(o.Files)-1]
			for _, fi := range o.Files {
				for _, thin := range []bool{false, true} {
					for _, unpin := range []bool{false, true} {
						if unpin && fi == newest {
							continue // the older state is the legitimate latest then
						}
						it := mk()
						it.File, it.Op, it.Thin, it.Unpin = fi, "delete", thin, unpin
						its = append(its, it)
					}
				}
			}
			break
		}
		if o.Op == "trunc" {
			// a plan file that is present but cut short (also to zero bytes) must make the
			// latest-state restore fail as well: unlike a deleted newest file it is visible,
			// so an older state is not a legitimate answer
			for _, off := range []int64{0, 1, 50} {
				it := mk()
				it.File, it.Op, it.Off, it.Unpin = o.File, "trunc", off, true
				its = append(its, it)
			}
		}
		for i, off := range o.Offs {
			it := mk()
			it.File, it.Op, it.Off = o.File, o.Op, off
			if o.Op == "flip" {
				if i < len(o.Masks) {
					it.Mask = o.Masks[i]
				} else {
					it.Mask = maskFor(o.MaskSeed, off, m.Files[o.File].sizeTop(off))
				}
			}
			its = append(its, it)
		}
	case "faults":
		for _, g := range o.Groups {
			it := mk()
			it.Scheds = g
			its = append(its, it)
		}
	case "integrity":
		for i := range o.Integ {
			it := mk()
			it.Integ = &o.Integ[i]
			its = append(its, it)
		}
	case "preexist":
		for i := range o.Pre {
			it := mk()
			it.Pre = &o.Pre[i]
			its = append(its, it)
		}
	case "staletmp":
		for i := range o.Tmp {
			it := mk()
			it.Tmp = &o.Tmp[i]
			its = append(its, it)
		}
	}
	return its
}

// ---------------------------------------------------------------------------
// running

func runCase(run *vf.Run, raw json.RawMessage, dir string) *vf.Result {
	var probe struct {
		Inner bool `json:"inner"`
	}
	if err := json.Unmarshal(raw, &probe); err != nil {
		return &vf.Result{HarnessErr: err.Error()}
	}
	if probe.Inner {
		var it item
		if err := json.Unmarshal(raw, &it); err != nil {
			return &vf.Result{HarnessErr: err.Error()}
		}
		return runItem(run, &it, dir)
	}
	var o outer
	if err := json.Unmarshal(raw, &o); err != nil {
		return &vf.Result{HarnessErr: err.Error()}
	}
	return runOuter(run, &o, dir)
}

func runOuter(run *vf.Run, o *outer, dir string) *vf.Result {
	res := &vf.Result{}
	m, err := ensureBase(run.Scratch, o.Base)
	if err != nil {
		res.HarnessErr = err.Error()
		return res
	}
	if m.fingerprint() != o.Fp {
		res.HarnessErr = fmt.Sprintf("base %s rebuilt with layout %s, case was generated for %s", o.Base.key(), m.fingerprint(), o.Fp)
		return res
	}
	queue := o.expand(m)
	if len(queue) == 0 {
		res.HarnessErr = "empty case"
		return res
	}
	self, err := os.Executable()
	if err != nil {
		res.HarnessErr = err.Error()
		return res
	}
	var gc *grandchild
	defer func() {
		if gc != nil {
			gc.stop()
		}
	}()
	gen := 0
	start := func(items []item) error {
		gen++
		specFile := filepath.Join(dir, fmt.Sprintf("items-%d.json", gen))
		specs := make([]json.RawMessage, len(items))
		for i := range items {
			specs[i] = vf.Spec(items[i])
		}
		jb, _ := json.Marshal(specs)
		if err := os.WriteFile(specFile, jb, 0o644); err != nil {
			return err
		}
		var err error
		gc, err = startGrandchild(self, run, specFile, filepath.Join(dir, fmt.Sprintf("gc-%d.stderr", gen)))
		return err
	}
	itemTimeout := 3 * time.Minute
	for len(queue) > 0 {
		if err := start(queue); err != nil {
			res.HarnessErr = "start grandchild: " + err.Error()
			return res
		}
		batch := queue
		queue = nil
		for i := 0; i < len(batch); i++ {
			it := &batch[i]
			r, status := gc.runCase(i, itemTimeout)
			switch status {
			case "ok":
				merge(res, r, it, m)
			case "timeout":
				dump := gc.kill(true)
				res.HarnessErr = fmt.Sprintf("item did not finish within %v: %s\n%s", itemTimeout, it.describe(m), tail(dump, 3000))
				gc = nil
				return res
			case "died":
				stderr := gc.stderr()
				gc.kill(false)
				gc = nil
				if it.Kind == "faults" && len(it.Scheds) > 1 {
					// several schedules were in flight: re-run them one by one
					// so that the death is attributed to exactly one
					for _, s := range it.Scheds {
						single := *it
						single.Scheds = []sched{s}
						queue = append(queue, single)
					}
					res.Count("fault:group-rerun-after-process-death", 1)
				} else {
					recordDeath(res, it, m, stderr)
				}
				// the rest of this batch goes to a fresh grandchild
				queue = append(queue, batch[i+1:]...)
				i = len(batch)
			}
		}
		if gc != nil {
			gc.stop()
			gc = nil
		}
	}
	h := fnv.New64a()
	fmt.Fprint(h, o.Fp, o.Kind, o.File, o.Op, o.Offs, o.Files, o.Groups, o.Integ, o.Pre, o.Tmp)
	res.Sig = fmt.Sprintf("%x", h.Sum64())
	if o.Kind == "corrupt" || o.Kind == "faults" || o.Kind == "staletmp" {
		res.Nontrivial = true
	}
	res.Count(fmt.Sprintf("replica:page_size_%d", m.PageSize), 1)
	res.Sample = map[string]any{"base": o.Base.key(), "kind": o.Kind, "file": o.Name, "op": o.Op, "items": res.Evals, "plan": planNames(m)}
	return res
}

func planNames(m *baseMeta) string {
	var a []string
	for _, i := range m.Plan {
		a = append(a, m.Files[i].name())
	}
	return strings.Join(a, " ")
}

func merge(res, r *vf.Result, it *item, m *baseMeta) {
	res.Evals += r.Evals
	for k, n := range r.Counters {
		res.Count(k, n)
	}
	if r.Nontrivial {
		res.Nontrivial = true
	}
	if r.HarnessErr != "" && res.HarnessErr == "" {
		res.HarnessErr = it.describe(m) + ": " + r.HarnessErr
	}
	if len(r.Violations) > 0 {
		res.Violations = append(res.Violations, r.Violations...)
		res.Log = append(res.Log, r.Log...)
	} else if len(res.Log) < 400 {
		res.Log = append(res.Log, r.Log...)
	}
}

// recordDeath turns the death of the restoring process into a violation keyed
// on the witness.
func recordDeath(res *vf.Result, it *item, m *baseMeta, stderr string) {
	res.Evals++
	what := it.describe(m)
	first, stack := panicSummary(stderr)
	key := "process-died-in-restore:" + it.Kind
	level := -1
	switch it.Kind {
	case "corrupt":
		f := m.Files[it.File]
		level = f.Level
		key = "process-died-in-restore:" + it.Op + ":" + f.region(it.Off)
		if it.Op == "trunc" && it.Off >= f.MarkerEnd && it.Off < f.MarkerEnd+8 &&
			strings.Contains(first, "slice bounds out of range") && strings.Contains(stack, "ltx.(*Decoder).Close") {
			key = f6Key
		}
		res.Count(fmt.Sprintf("corrupt:%s:L%d:panic", it.Op, level), 1)
		res.Count(fmt.Sprintf("region:%s:%s:panic", it.Op, f.region(it.Off)), 1)
	case "faults":
		key = "process-died-in-restore:read-fault-" + it.Scheds[0].Kind
		res.Count("fault:"+it.Scheds[0].Kind+":panic", 1)
	default:
		res.Count(it.Kind+":panic", 1)
	}
	res.Violate(key, "%s: the process running Restore died: %s [%s]", what, first, stack)
	res.Logf("%s -> PROCESS DIED", what)
	for _, l := range strings.Split(tail(stderr, 2500), "\n") {
		res.Logf("  stderr| %s", l)
	}
}

// panicSummary extracts the panic line and the first litestream/ltx frames.
func panicSummary(stderr string) (first, stack string) {
	lines := strings.Split(stderr, "\n")
	start := -1
	for i, l := range lines {
		if strings.HasPrefix(l, "panic:") || strings.HasPrefix(l, "fatal error:") {
			start = i
			break
		}
	}
	if start < 0 {
		return "no panic message on stderr: " + tail(stderr, 200), ""
	}
	first = lines[start]
	var fr []string
	for _, l := range lines[start+1:] {
		if strings.HasPrefix(l, "\t") || l == "" || strings.HasPrefix(l, "goroutine ") {
			continue
		}
		if i := strings.LastIndex(l, "("); i > 0 {
			l = l[:i]
		}
		if strings.HasPrefix(l, "panic") || strings.HasPrefix(l, "runtime.") {
			continue
		}
		fr = append(fr, l)
		if len(fr) == 4 {
			break
		}
	}
	return first, strings.Join(fr, " <- ")
}

func tail(s string, n int) string {
	if len(s) > n {
		return s[len(s)-n:]
	}
	return s
}

// ---------------------------------------------------------------------------
// grandchild process (speaks vf's worker protocol)

type grandchild struct {
	cmd     *exec.Cmd
	in      *bufio.Writer
	inPipe  io.Closer
	lines   chan string
	exited  chan struct{}
	errPath string
}

// The grandchild stays in the worker's process group (the driver's watchdog
// kills that group) and ends by itself when its stdin closes.
func startGrandchild(self string, run *vf.Run, specFile, errPath string) (*grandchild, error) {
	ef, err := os.Create(errPath)
	if err != nil {
		return nil, err
	}
	defer ef.Close()
	cmd := exec.Command(self, "worker", "C10", run.Tier, strconv.FormatInt(run.Seed, 10), specFile, run.Scratch)
	cmd.Stderr = ef
	// Restore is a two-goroutine pipeline; on a host that runs 16 workers plus
	// other jobs a 16-P runtime per grandchild only burns time in the scheduler
	cmd.Env = append(os.Environ(), "GOMAXPROCS=2")
	stdin, err := cmd.StdinPipe()
	if err != nil {
		return nil, err
	}
	stdout, err := cmd.StdoutPipe()
	if err != nil {
		return nil, err
	}
	if err := cmd.Start(); err != nil {
		return nil, err
	}
	g := &grandchild{cmd: cmd, in: bufio.NewWriter(stdin), inPipe: stdin, lines: make(chan string, 16), exited: make(chan struct{}), errPath: errPath}
	rd := bufio.NewReaderSize(stdout, 1<<20)
	go func() {
		for {
			line, err := rd.ReadString('\n')
			if line != "" {
				g.lines <- line
			}
			if err != nil {
				break
			}
		}
		close(g.lines)
		_ = g.cmd.Wait()
		close(g.exited)
	}()
	return g, nil
}

func (g *grandchild) runCase(i int, timeout time.Duration) (*vf.Result, string) {
	fmt.Fprintf(g.in, "%d\n", i)
	if err := g.in.Flush(); err != nil {
		return nil, "died"
	}
	t := time.NewTimer(timeout)
	defer t.Stop()
	for {
		select {
		case line, ok := <-g.lines:
			if !ok {
				return nil, "died"
			}
			if rest, ok := strings.CutPrefix(line, "RESULT "); ok {
				var r vf.Result
				if err := json.Unmarshal([]byte(rest), &r); err != nil {
					return &vf.Result{HarnessErr: "bad item result: " + err.Error()}, "ok"
				}
				return &r, "ok"
			}
		case <-t.C:
			return nil, "timeout"
		}
	}
}

func (g *grandchild) waitExit(d time.Duration) bool {
	select {
	case <-g.exited:
		return true
	case <-time.After(d):
		return false
	}
}

// stderr returns what the (dead or dying) grandchild wrote to stderr.
func (g *grandchild) stderr() string {
	g.waitExit(10 * time.Second)
	b, _ := os.ReadFile(g.errPath)
	return string(b)
}

// kill ends the grandchild; with dump it asks for a goroutine dump first.
func (g *grandchild) kill(dump bool) string {
	if !g.waitExit(0) {
		if dump {
			_ = g.cmd.Process.Signal(syscall.SIGQUIT)
			g.waitExit(5 * time.Second)
		}
		_ = g.cmd.Process.Kill()
		g.waitExit(10 * time.Second)
	}
	_ = g.inPipe.Close()
	b, _ := os.ReadFile(g.errPath)
	return string(b)
}

func (g *grandchild) stop() {
	_ = g.inPipe.Close()
	if !g.waitExit(20 * time.Second) {
		_ = g.cmd.Process.Kill()
		g.waitExit(10 * time.Second)
	}
}
