package c16

import (
	"crypto/sha256"
	"encoding/json"
	"fmt"
	"math/rand"
	"os"
	"path/filepath"
	"sort"
	"strings"
	"time"

	"verif/harness/internal/oracle"
	"verif/harness/internal/vf"
)

const (
	stallPolls  = 50               // poll cycles without progress that decide "does not converge"
	stablePolls = 3                // further idle poll cycles required at quiescence
	waitWall    = 90 * time.Second // wall-clock limit per wait: only ever yields inconclusive
	followMs    = 10
)

// stage is a frozen view of the primary's replica (hard-link snapshot). The
// follower reads the replica through a symlink that the driver switches
// atomically from stage to stage, so every stage is applied in exactly one
// poll cycle and the follower's syscall sequence is reproducible.
type stage struct {
	Dir   string
	Max   int    // replica max TXID
	Floor int    // what the oldest snapshot covers
	L0    []int  // level-0 TXIDs present
	Desc  string // what the primary did to get here
	Ref   []byte // Restore(TXID=Max)
}

type scenario struct {
	Seed   int64
	Cfg    string
	Stages []*stage
	Deep   bool
	Struct string // structural description (signature input)
}

// buildScenario runs a seeded primary history and freezes nStages replica states.
func buildScenario(seed int64, idx int, dir string, nStages int, deep bool, res *vf.Result) (*scenario, error) {
	rng := rand.New(rand.NewSource(seed))
	cfg := pickConfig(rng, idx)
	p, err := newPrimary(filepath.Join(dir, "prim"), cfg, rng, res)
	if err != nil {
		return nil, err
	}
	defer p.close()
	p.small = true
	sc := &scenario{Seed: seed, Cfg: cfg.String(), Deep: deep}
	freeze := func(desc string) error {
		k := len(sc.Stages)
		st := &stage{Dir: filepath.Join(dir, fmt.Sprintf("stage%d", k)), Max: p.max(), Floor: snapshotFloor(p.e.RepPath), L0: l0Set(p.e.RepPath), Desc: desc}
		if err := linkTree(p.e.RepPath, st.Dir); err != nil {
			return err
		}
		ref, err := reference(st.Dir, dir, st.Max)
		if err != nil {
			return fmt.Errorf("reference restore of stage %d (TXID %d): %w", k, st.Max, err)
		}
		st.Ref = ref
		sc.Stages = append(sc.Stages, st)
		res.Logf("stage %d: max=%d floor=%d L0=%v files=%v :: %s", k, st.Max, st.Floor, st.L0, oracle.ListAll(st.Dir), desc)
		return nil
	}
	// stage 0: a small database with a snapshot older than the replica max
	if err := p.write(2 + rng.Intn(2)); err != nil {
		return nil, err
	}
	p.snapshot()
	if err := p.write(1 + rng.Intn(2)); err != nil {
		return nil, err
	}
	if err := freeze("writes, snapshot, writes"); err != nil {
		return nil, err
	}
	// later stages: writes + maintenance; the shapes rotate so that every
	// scenario contains L0 gaps that need level 1 and level 2 files, a shrink,
	// a fresh snapshot and a snapshot-retention pass.
	shapes := []string{"compact1", "shrink+compact1+tail", "compact1+compact2+tail", "snapshot+compact1", "plain", "compact1+prune+tail", "shrink", "compact1+compact2"}
	off := rng.Intn(len(shapes))
	if deep {
		// A follower that goes down in stage 0 or 1 and comes back two or three
		// stages later finds its next level-0 and level-1 files gone: the way up is
		// the coarse L2 file, then the newest L1 file, then level 0.
		shapes = []string{"marker+compact1+compact2", "marker+compact1+deepprune+tail", "plain", "marker+compact1+compact2+tail", "marker+compact1+deepprune+tail", "shrink"}
		off = 0
	}
	for k := 1; k < nStages; k++ {
		shape := shapes[(off+k-1)%len(shapes)]
		if err := p.write(1 + rng.Intn(3)); err != nil {
			return nil, err
		}
		for _, step := range strings.Split(shape, "+") {
			switch step {
			case "compact1":
				p.compact(1)
			case "compact2":
				p.compact(2)
			case "snapshot":
				p.snapshot()
			case "shrink":
				if err := p.shrink(); err != nil {
					return nil, err
				}
			case "tail":
				if err := p.write(1 + rng.Intn(2)); err != nil {
					return nil, err
				}
			case "prune":
				// keep only the newest snapshot, provided a follower that reached the
				// previous stage stays resumable (that snapshot is not newer than it)
				if !p.pruneSnapshots(sc.Stages[len(sc.Stages)-1].Max) {
					res.Logf("prune skipped")
				}
			case "marker":
				if err := p.marker(); err != nil {
					return nil, err
				}
			case "deepprune":
				p.deepPrune()
			case "plain":
			}
		}
		if p.max() <= sc.Stages[len(sc.Stages)-1].Max {
			if err := p.write(1); err != nil {
				return nil, err
			}
		}
		if err := freeze(shape); err != nil {
			return nil, err
		}
	}
	var sb strings.Builder
	fmt.Fprintf(&sb, "%s;", sc.Cfg)
	for _, st := range sc.Stages {
		fmt.Fprintf(&sb, "%d/%d/%v/%s;", st.Max, st.Floor, st.L0, st.Desc)
	}
	sc.Struct = sb.String()
	return sc, nil
}

// ---------------------------------------------------------------------------

type killSpec struct {
	Kind    string `json:"kind"` // "kill"
	Scn     int    `json:"scn"`
	Seed    int64  `json:"seed"`
	Stages  int    `json:"stages"`
	Part    int    `json:"part"`
	Parts   int    `json:"parts"`
	Sample  int    `json:"sample"`  // kill points per scenario (0 = all)
	Double  int    `json:"double"`  // number of double-kill runs in this part
	Windows bool   `json:"windows"` // also kill at every point between db publication and first sidecar publication
	// InprocRestart: after a kill the follower is restarted inside the worker
	// process instead of as a new victim process (same Replica.Restore call on the
	// files the killed process left; saves one process start per kill run).
	InprocRestart bool `json:"inproc_restart"`
	// Deep: stage shapes that leave a follower which was down for 2-3 stages with a
	// way up through >= 2 compaction levels only; the primary advances up to 3 stages.
	Deep bool `json:"deep"`
}

type campaign struct {
	sc    *scenario
	res   *vf.Result
	dir   string
	self  string
	ptsup string
	runN  int
	// restart after a kill inside this process (quick tier)
	inprocRestart bool
	// coverage
	killClasses map[string]int
}

type runResult struct {
	killed    []ptEntry // the syscalls that were about to execute when the follower was killed
	total     int
	log       *ptLog
	completed bool // reached final quiescence and compared
	multi     int  // restarts whose way up led through >= 2 compaction levels
}

func (c *campaign) publish(link string, k int) error {
	tmp := link + ".new"
	_ = os.Remove(tmp)
	if err := os.Symlink(c.sc.Stages[k].Dir, tmp); err != nil {
		return err
	}
	return os.Rename(tmp, link)
}

func (c *campaign) compare(tag string, k int, out string) bool {
	got, err := os.ReadFile(out)
	c.res.Evals++
	c.res.Count("compared_with_restore", 1)
	if err != nil {
		c.res.Violate("follower-differs", "%s: follower database unreadable at quiescence: %v", tag, err)
		return false
	}
	st := c.sc.Stages[k]
	if err := oracle.CompareHeaderMasked(st.Ref, got, followMask); err != nil {
		c.res.Violate("follower-differs", "%s: follower at quiescence (stage %d, replica max TXID %d) differs from Restore(TXID=%d): %v [%s]", tag, k, st.Max, st.Max, err, c.sc.Cfg)
		return false
	}
	return true
}

// classifyExit turns a follower that ended by itself into a violation (or not).
// sidecar: last sidecar TXID (0 = none), dbExists: output file present before the start.
func classifyExit(res *vf.Result, tag, msg string, restarted, dbExists bool, sidecar, repMax, floor int, pathOK bool, cfg string) {
	res.Evals++
	switch {
	case restarted && dbExists && sidecar < 0:
		res.Count("exit_sidecar_unreadable", 1)
		res.Violate("sidecar-corrupt", "%s: restarted follower cannot resume, its -txid sidecar is unreadable (torn write?): %s", tag, msg)
	case restarted && dbExists && sidecar == 0:
		res.Count("exit_refused_no_sidecar", 1)
		res.Violate("resume-refused-no-sidecar", "%s: restarted follower refuses to resume: the restored database was published but its first -txid sidecar was not (killed in between): %s", tag, msg)
	case restarted && dbExists && (sidecar > repMax || (sidecar < floor && !pathOK)):
		// outside the property's precondition (history pruned below the follower, or follower ahead of the replica).
		// A sidecar below the oldest snapshot alone is inside it as long as every TXID above the sidecar is
		// still covered by the files of levels 0..8 (pathOK).
		res.Count("exit_outside_precondition", 1)
		res.Logf("%s: follower exited outside the precondition (sidecar=%d replica max=%d floor=%d): %s", tag, sidecar, repMax, floor, msg)
	case strings.Contains(msg, "is ahead of latest snapshot"):
		res.Count("exit_refused_ahead_of_snapshot", 1)
		res.Violate("resume-refused-ahead-of-snapshot", "%s: restarted follower refuses to resume although its sidecar TXID %d is <= the replica max TXID %d and >= the oldest snapshot's TXID %d: %s", tag, sidecar, repMax, floor, msg)
	case restarted:
		res.Count("exit_resume_error_other", 1)
		res.Violate("resume-error", "%s: restarted follower exited with an error (sidecar=%d, replica max=%d, oldest snapshot=%d, db exists=%v): %s [%s]", tag, sidecar, repMax, floor, dbExists, msg, cfg)
	default:
		res.Count("exit_first_start_error", 1)
		res.Violate("follower-exited", "%s: follower exited with an error on its first start: %s [%s]", tag, msg, cfg)
	}
}

// run drives one follower life: incarnation i runs under "ptsup kill kills[i]";
// after the last kill the follower is restarted unsupervised (or, for the count
// run, the only incarnation runs under "ptsup count"). adv[i] is how many stages
// the primary moves on while the follower is down after kill i.
func (c *campaign) run(tag string, count bool, kills []int, adv []int) (*runResult, error) {
	c.runN++
	w := filepath.Join(c.dir, fmt.Sprintf("run%d", c.runN))
	fol := filepath.Join(w, "fol") // ptsup root: only the follower's own files live here
	if err := os.MkdirAll(fol, 0o755); err != nil {
		return nil, err
	}
	defer os.RemoveAll(w)
	out := filepath.Join(fol, "f.db")
	link := filepath.Join(w, "rep")
	last := len(c.sc.Stages) - 1
	ptr := 0
	if err := c.publish(link, ptr); err != nil {
		return nil, err
	}
	track := &sidecarTrack{out: out, res: c.res}
	rr := &runResult{}
	res := c.res
	for inc := 0; ; inc++ {
		mode, n := "", 0
		switch {
		case inc < len(kills):
			mode, n = "kill", kills[inc]
		case count && inc == 0:
			mode = "count"
		}
		ptlog := filepath.Join(w, fmt.Sprintf("pt%d.log", inc))
		_, statErr := os.Stat(out)
		dbExists := statErr == nil
		sidecarAtStart := track.sample(fmt.Sprintf("%s start of incarnation %d", tag, inc)) // -1 = unreadable
		pathOK := false
		if inc > 0 && dbExists && sidecarAtStart > 0 && sidecarAtStart < c.sc.Stages[ptr].Max {
			if !hasL0(c.sc.Stages[ptr].Dir, sidecarAtStart+1) {
				res.Count("restart_needs_gap_bridging", 1)
			}
			ok, levels, path := bridgePath(c.sc.Stages[ptr].Dir, sidecarAtStart)
			pathOK = ok
			switch {
			case !ok:
				res.Count("restart_without_incremental_path", 1)
			case levels >= 2:
				res.Count("restart_bridges_ge2_levels", 1)
				rr.multi++
			}
			res.Logf("%s: restart path from %d: ok=%v levels=%d %v", tag, sidecarAtStart, ok, levels, path)
		}
		var f *follower
		if mode == "" && c.inprocRestart {
			f = startInproc(link, out, followMs*time.Millisecond, true)
			res.Count("restarts_in_process", 1)
		} else {
			var err error
			f, err = startProc(c.self, c.ptsup, mode, n, fol, ptlog, link, out, followMs)
			if err != nil {
				return nil, fmt.Errorf("start follower: %w", err)
			}
			if inc > 0 {
				res.Count("restarts_as_process", 1)
			}
		}
		res.Logf("%s: incarnation %d mode=%s n=%d stage=%d dbExists=%v sidecar=%d", tag, inc, mode, n, ptr, dbExists, sidecarAtStart)
		killedNow := false
	drive:
		for {
			st := c.sc.Stages[ptr]
			status, applied := f.await(st.Max, 1, stallPolls, waitWall, func() { track.sample(tag + " while running") })
			track.sample(tag + " after wait")
			switch status {
			case awReached:
				if applied > st.Max {
					res.Evals++
					res.Violate("follower-ahead-of-replica", "%s: follower reports applied TXID %d, replica max is %d", tag, applied, st.Max)
					f.kill()
					return rr, nil
				}
				// Block the follower at a poll-cycle boundary: comparisons are made on a
				// follower that is provably not writing, and the next stage becomes
				// visible as a whole to one poll cycle.
				if !f.holdAtPoll(waitWall) {
					f.release()
					if f.exited() {
						continue // killed or ended meanwhile: handled by the next await
					}
					f.kill()
					return nil, fmt.Errorf("%s: follower did not start another poll cycle within the wall-clock limit", tag)
				}
				if ptr < last {
					if !c.compare(fmt.Sprintf("%s stage %d", tag, ptr), ptr, out) {
						f.kill()
						return rr, nil
					}
					ptr++
					if err := c.publish(link, ptr); err != nil {
						f.kill()
						return nil, err
					}
					f.release()
					continue
				}
				// final stage: the primary has stopped; require further idle poll cycles
				f.release()
				status, _ = f.await(st.Max, stablePolls, stallPolls, waitWall, nil)
				if status == awExited {
					continue // handled on the next round
				}
				if status != awReached {
					f.kill()
					return nil, fmt.Errorf("%s: follower left quiescence: %s", tag, status)
				}
				if !f.holdAtPoll(waitWall) {
					f.release()
					if f.exited() {
						continue
					}
					f.kill()
					return nil, fmt.Errorf("%s: follower did not start another poll cycle within the wall-clock limit", tag)
				}
				ok := c.compare(tag+" final", ptr, out)
				if sc := track.sample(tag + " final"); sc > st.Max {
					res.Violate("sidecar-ahead-of-replica", "%s: sidecar TXID %d is above the replica max %d", tag, sc, st.Max)
				}
				if !f.stop(30 * time.Second) {
					return nil, fmt.Errorf("%s: follower did not stop within 30s after stdin EOF", tag)
				}
				if msg, code := f.exitInfo(); code != 0 {
					// e.g. the kill index fell on the final fsync of the shutdown path
					res.Count("graceful_stop_nonzero_exit", 1)
					res.Logf("%s: graceful stop ended with code %d: %s", tag, code, msg)
				}
				if mode != "" {
					if d := os.Getenv("VERIF_C16_KEEP"); d != "" && count {
						if b, err := os.ReadFile(ptlog); err == nil {
							_ = os.WriteFile(filepath.Join(d, fmt.Sprintf("count-%d-%d.log", c.sc.Seed%1000, os.Getpid())), b, 0o644)
						}
					}
					if l, err := readPtLog(ptlog); err == nil {
						rr.log, rr.total = l, l.Total
						if l.Total == 0 {
							rr.total = len(l.Entries)
						}
					}
				}
				rr.completed = ok
				return rr, nil
			case awExited:
				var l *ptLog
				if mode != "" {
					l, _ = readPtLog(ptlog)
				}
				if mode == "kill" && l != nil && l.Killed {
					killedNow = true
					if len(l.Entries) > 0 {
						e := l.Entries[len(l.Entries)-1]
						rr.killed = append(rr.killed, e)
						cl := classify(e, out) + ":" + e.Sys
						c.killClasses[cl]++
						res.Count("kill:"+cl, 1)
						res.Logf("%s: killed before syscall #%d %s %s %s (stage %d)", tag, e.N, e.Sys, e.P1, e.P2, ptr)
					}
					break drive
				}
				msg, code := f.exitInfo()
				if code == 0 {
					return nil, fmt.Errorf("%s: follower exited 0 without being asked to", tag)
				}
				if code >= 128 {
					return nil, fmt.Errorf("%s: follower process ended by a signal the harness did not send (code %d): %s", tag, code, msg)
				}
				classifyExit(res, tag, msg, inc > 0, dbExists, sidecarAtStart, st.Max, st.Floor, pathOK, c.sc.Cfg)
				return rr, nil
			case awStalled:
				res.Evals++
				sc := track.sample(tag + " stalled")
				f.kill()
				if dbExists && inc > 0 && sidecarAtStart < st.Floor && !pathOK {
					res.Count("stall_outside_precondition", 1)
					return rr, nil
				}
				res.Violate("no-convergence", "%s: follower completed %d poll cycles without progress: applied TXID %d, sidecar %d, replica max %d (stage %d, L0=%v, oldest snapshot %d) [%s]", tag, stallPolls, applied, sc, st.Max, ptr, st.L0, st.Floor, c.sc.Cfg)
				return rr, nil
			default:
				f.kill()
				return nil, fmt.Errorf("%s: wall-clock limit while waiting for the follower (applied=%d want=%d)", tag, applied, st.Max)
			}
		}
		if !killedNow {
			return rr, nil
		}
		// the follower is dead; the primary moves on while it is down
		sc := track.sample(tag + " after kill")
		_, statErr = os.Stat(out)
		state := "db+sidecar"
		switch {
		case statErr != nil && sc <= 0:
			state = "nothing-published"
		case statErr != nil:
			state = "sidecar-without-db"
		case sc <= 0:
			state = "db-without-sidecar"
		}
		res.Count("state_after_kill:"+state, 1)
		a := 0
		if inc < len(adv) {
			a = adv[inc]
		}
		np := ptr
		for a > 0 && np < last {
			// only move on while the follower can still catch up incrementally: every
			// TXID above its sidecar is covered by some file of levels 0..8
			if statErr == nil && sc > 0 {
				if ok, _, _ := bridgePath(c.sc.Stages[np+1].Dir, sc); !ok {
					break
				}
			}
			np++
			a--
		}
		if np != ptr {
			res.Count("primary_advanced_while_follower_down", 1)
			ptr = np
			if err := c.publish(link, ptr); err != nil {
				return nil, err
			}
		}
		res.Logf("%s: after kill: state=%s sidecar=%d; replica now stage %d (max %d)", tag, state, sc, ptr, c.sc.Stages[ptr].Max)
	}
}

func runKill(run *vf.Run, raw json.RawMessage, dir string) *vf.Result {
	res := &vf.Result{}
	var s killSpec
	if err := json.Unmarshal(raw, &s); err != nil {
		res.HarnessErr = err.Error()
		return res
	}
	self, err := os.Executable()
	if err != nil {
		res.HarnessErr = err.Error()
		return res
	}
	ptsup := findPtsup()
	if ptsup == "" {
		res.HarnessErr = "ptrace supervisor missing (" + filepath.Join(vf.Root, "bin", "ptsup") + "): run /verif/setup.sh"
		return res
	}
	sc, err := buildScenario(s.Seed, s.Scn, dir, s.Stages, s.Deep, res)
	if err != nil {
		res.HarnessErr = "scenario: " + err.Error()
		return res
	}
	c := &campaign{sc: sc, res: res, dir: dir, self: self, ptsup: ptsup, killClasses: map[string]int{}, inprocRestart: s.InprocRestart}
	// count run: the unkilled follower must converge through every stage
	cr, err := c.run("count-run", true, nil, nil)
	if err != nil {
		res.HarnessErr = err.Error()
		return res
	}
	if !cr.completed || cr.log == nil || cr.total == 0 {
		if len(res.Violations) == 0 {
			res.HarnessErr = "count run did not complete"
		}
		return res
	}
	T := cr.total
	res.Count("count_runs", 1)
	res.Count("fs_mutating_syscalls_in_count_runs", T)
	// choose kill points
	rng := rand.New(rand.NewSource(vf.SubSeed(s.Seed, "kill-points", s.Part)))
	var points []int
	if s.Sample <= 0 || s.Sample >= T {
		for n := 1; n <= T; n++ {
			if n%s.Parts == s.Part {
				points = append(points, n)
			}
		}
	} else {
		u := rand.New(rand.NewSource(vf.SubSeed(s.Seed, "kill-offset"))).Float64()
		for j := 0; j < s.Sample; j++ {
			if j%s.Parts != s.Part {
				continue
			}
			n := 1 + int((float64(j)+u)*float64(T)/float64(s.Sample))
			if n > T {
				n = T
			}
			points = append(points, n)
		}
	}
	if s.Windows {
		points = append(points, publicationWindow(cr.log)...)
	}
	sort.Ints(points)
	points = dedup(points)
	completed := 0
	for _, n := range points {
		advMax := 3
		if s.Deep {
			advMax = 4
		}
		r, err := c.run(fmt.Sprintf("kill@%d", n), false, []int{n}, []int{rng.Intn(advMax)})
		if err != nil {
			res.HarnessErr = err.Error()
			return res
		}
		res.Count("kill_runs", 1)
		if len(r.killed) > 0 {
			res.Count("kill_runs_killed", 1)
		}
		if r.completed {
			completed++
			res.Count("kill_runs_converged", 1)
		}
		if unexpectedViolations(res) >= 3 {
			break
		}
	}
	for i := 0; i < s.Double; i++ {
		n := 1 + rng.Intn(T)
		m := 1 + rng.Intn(30)
		r, err := c.run(fmt.Sprintf("kill@%d+%d", n, m), false, []int{n, m}, []int{rng.Intn(3), rng.Intn(3)})
		if err != nil {
			res.HarnessErr = err.Error()
			return res
		}
		res.Count("double_kill_runs", 1)
		if len(r.killed) == 2 {
			res.Count("double_kill_runs_killed_twice", 1)
		}
		if r.completed {
			completed++
		}
	}
	var kc []string
	for k := range c.killClasses {
		kc = append(kc, k)
	}
	sort.Strings(kc)
	res.Sig = fmt.Sprintf("%x", sha256.Sum256([]byte(sc.Struct+fmt.Sprint(points))))[:16]
	res.Nontrivial = res.Counters["kill_runs_killed"] > 0 && (res.Counters["primary_advanced_while_follower_down"] > 0 || completed > 0)
	res.Sample = map[string]any{"kind": "kill", "cfg": sc.Cfg, "stages": stageSummary(sc), "fs_mutating_syscalls": T, "kill_points": points, "killed_at": kc}
	return res
}

func findPtsup() string {
	for _, p := range []string{os.Getenv("VERIF_PTSUP"), filepath.Join(vf.Root, "bin", "ptsup"), "/verif/bin/ptsup"} {
		if p == "" {
			continue
		}
		if st, err := os.Stat(p); err == nil && !st.IsDir() {
			return p
		}
	}
	return ""
}

func stageSummary(sc *scenario) []string {
	var a []string
	for i, st := range sc.Stages {
		a = append(a, fmt.Sprintf("#%d max=%d floor=%d L0=%v (%s)", i, st.Max, st.Floor, st.L0, st.Desc))
	}
	return a
}

func dedup(a []int) []int {
	var o []int
	for i, v := range a {
		if i == 0 || v != a[i-1] {
			o = append(o, v)
		}
	}
	return o
}

// publicationWindow returns every kill index between the publication of the
// restored database and the publication of its first sidecar (whichever comes
// first), plus one index on either side.
func publicationWindow(l *ptLog) []int {
	db, sc := 0, 0
	for _, e := range l.Entries {
		if !strings.HasPrefix(e.Sys, "rename") {
			continue
		}
		if db == 0 && strings.HasSuffix(e.P2, "/f.db") {
			db = e.N
		}
		if sc == 0 && strings.HasSuffix(e.P2, "/f.db-txid") {
			sc = e.N
		}
	}
	if db == 0 || sc == 0 {
		return nil
	}
	lo, hi := db, sc
	if lo > hi {
		lo, hi = hi, lo
	}
	var a []int
	for n := lo; n <= hi+1; n++ {
		a = append(a, n)
	}
	return a
}
