//go:build verif

package c09

import (
	"encoding/json"
	"fmt"
	"os"
	"testing"

	"verif/harness/internal/vf"
)

func TestDumpSpecs(t *testing.T) {
	run := &vf.Run{ID: "C09", Tier: "quick", Seed: 1}
	specs, err := cases(run)
	if err != nil {
		t.Fatal(err)
	}
	// one whole-base case per base
	for i := 0; i < 12; i++ {
		var s spec
		json.Unmarshal(specs[i*6], &s)
		s.Lo, s.Hi = 0, s.M
		b, _ := json.Marshal(map[string]any{"tier": "quick", "seed": 1, "case": i * 6, "spec": s})
		os.WriteFile(fmt.Sprintf("/dev/shm/c09-mut/base%d.json", i), b, 0o644)
	}
}
