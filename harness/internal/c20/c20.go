// Package c20: at most one instance holds an unexpired replica lease (DESIGN
// §4 C20). Real s3.Leaser instances run over one in-memory conditional-write
// store; a scheduler grants individual storage requests so that a schedule is
// a sequence of client ids at request granularity (engine E-LEASE).
package c20

import (
	"bytes"
	"encoding/binary"
	"encoding/json"
	"fmt"
	"math/rand"
	"os"
	"path/filepath"
	"sort"
	"strings"
	"time"

	"github.com/anishathalye/porcupine"

	"verif/harness/internal/vf"
)

// KnownKey is the witness class of DESIGN §5 F7.
const KnownKey = "generation-restarts-after-release"

type spec struct {
	Kind string `json:"kind"` // demo | exh | rand | free
	// demo: one fixed schedule
	Cfg   config `json:"cfg,omitempty"`
	Sched []int  `json:"sched,omitempty"`
	// exh: client 0 is First, client 1 ranges over every (canonical program of <= MaxOps operations, TTL class)
	First  *clientCfg `json:"first,omitempty"`
	MaxOps int        `json:"max_ops,omitempty"`
	// rand: N random schedules of Clients clients; free: N free-running histories
	Seed    int64 `json:"seed,omitempty"`
	N       int   `json:"n,omitempty"`
	Clients int   `json:"clients,omitempty"`
}

type plan struct {
	maxOps               int // exhaustive: raw programs of 1..maxOps operations
	randCases, randPer   int
	freeCases, freePer   int
	randClients, randOps int
}

func planFor(tier string) plan {
	if tier == "thorough" {
		return plan{maxOps: 3, randCases: 100, randPer: 500, freeCases: 100, freePer: 20, randClients: 3, randOps: 4}
	}
	return plan{maxOps: 3, randCases: 6, randPer: 50, freeCases: 4, freePer: 25, randClients: 3, randOps: 4}
}

func init() {
	vf.Register(&vf.Check{
		ID:    "C20",
		Level: "exploration",
		Rule: "real s3.Leaser instances over one in-memory object store with S3 conditional-request semantics; every GetObject/PutObject/DeleteObject blocks until the scheduler grants it. " +
			"EXHAUSTIVE sub-space: 2 instances x every program of 1..k operations over {acquire, renew, release} (k=3 in both tiers; programs are canonicalised by dropping renew/release issued while no lease handle is held, which make no request) x TTL class {live for the whole run (+1h), expired at birth (-1h)} per instance x EVERY request-level interleaving (depth-first over the set of instances blocked at a request). " +
			"Near-expiry pairs: a holder with a TTL of 0.8-2.5 s and an immediate acquire by another instance, judged on recorded values (the holder's ExpiresAt vs a clock reading taken after the competing acquire returned; pairs where the clock had passed ExpiresAt are not evaluable). " +
			"Added: seeded random schedules of 3 instances with programs of up to 4 operations, and free-running (unscheduled) histories checked by porcupine against a sequential lease specification, all in the -race build. " +
			"Online oracle after every granted request: instances whose last successful acquire/renew (live class) was not followed by their own release or a failed renew must still own the object in the store (ETag) and number <= 1; a taken-over instance's renew/release must fail with ErrLeaseNotHeld (release: or ErrLeaseAlreadyReleased when the object is gone); each successful acquire's generation must exceed that of the previous different owner. " +
			"One evaluation = one invariant evaluation after a granted request, one taken-over/generation decision, or one porcupine verdict. " +
			"distinct = (programs, TTL classes, sequence of granted client ids); non-trivial = the schedule contains contention: an acquire refused because of an existing lease, an acquire that lost its conditional write, a takeover of an existing lease object, a renew/release by a taken-over instance, or another instance's request between the requests of one acquire",
		Assumptions: []string{
			"store semantics: PUT If-None-Match:* fails with 412 when the object exists; PUT If-Match fails with 412 when the object is missing or its ETag differs; DELETE If-Match returns 404 NoSuchKey when the object is missing and 412 on ETag mismatch; ETag = quoted MD5 of the body; no transient storage errors",
			"lease liveness is a configuration class (TTL +1h / -1h), never a clock reading; time.Now() only influences ExpiresAt/ETag values",
			"free-running histories are real goroutine schedules: a replay re-runs the workload, the witness is the recorded history",
		},
		Cases:       cases,
		RunCase:     runCase,
		Finish:      finish,
		MinEvals:    3000,
		CaseTimeout: 10 * time.Minute,
		Exhaustive:  true,
	})
}

func demoSpec() spec {
	// F7 demonstration: acquire A, release A, acquire B
	return spec{Kind: "demo", Cfg: config{{Prog: "AL", TTL: 1}, {Prog: "A", TTL: 1}}, Sched: []int{0, 0, 0, 1, 1}}
}

func cases(run *vf.Run) ([]json.RawMessage, error) {
	p := planFor(run.Tier)
	out := []json.RawMessage{vf.Spec(demoSpec())}
	progs, _ := programs(p.maxOps)
	for _, pr := range progs {
		for _, ttl := range []int{1, -1} {
			out = append(out, vf.Spec(spec{Kind: "exh", First: &clientCfg{Prog: pr, TTL: ttl}, MaxOps: p.maxOps}))
		}
	}
	for i := 0; i < p.randCases; i++ {
		out = append(out, vf.Spec(spec{Kind: "rand", Seed: vf.SubSeed(run.Seed, "C20-rand", i), N: p.randPer, Clients: p.randClients, MaxOps: p.randOps}))
	}
	for i := 0; i < p.freeCases; i++ {
		out = append(out, vf.Spec(spec{Kind: "free", Seed: vf.SubSeed(run.Seed, "C20-free", i), N: p.freePer, Clients: p.randClients, MaxOps: p.randOps}))
	}
	// near-expiry pairs (see near.go): 2 cases x 12 pairs in quick, 8 x 40 in thorough
	nn, per := 2, 12
	if run.Tier == "thorough" {
		nn, per = 8, 40
	}
	for i := 0; i < nn; i++ {
		out = append(out, vf.Spec(spec{Kind: "near", Seed: vf.SubSeed(run.Seed, "C20-near", i), N: per}))
	}
	return out, nil
}

// ---------------------------------------------------------------------------

type collector struct {
	res       *vf.Result
	perKey    map[string]int
	sigs      map[uint64]bool
	schedules int
	sample    map[string]any
}

func (c *collector) add(o *outcome) {
	c.schedules++
	c.res.Evals += o.evals
	c.res.Count("schedules", 1)
	c.res.Count("requests_granted", len(o.granted))
	c.res.Count("operations_completed", o.ops)
	for f := range o.features {
		c.res.Count("schedules_with_"+f, 1)
	}
	if o.nontrivial() {
		c.res.Count("schedules_nontrivial", 1)
		c.sigs[o.sig()] = true
	}
	if o.harness != "" && c.res.HarnessErr == "" {
		c.res.HarnessErr = o.harness
	}
	for _, v := range o.viol {
		c.perKey[v.Key]++
		c.res.Count("witnesses_"+v.Key, 1)
		if c.perKey[v.Key] <= 2 {
			c.res.Logf("---- schedule %v of [%s] (key %s)", o.granted, o.cfg, v.Key)
			for _, l := range o.log {
				c.res.Logf("%s", l)
			}
			c.res.Violate(v.Key, "[%s] schedule %v: %s", o.cfg, o.granted, v.Msg)
		}
	}
	if c.sample == nil && o.nontrivial() && len(o.viol) == 0 {
		c.sample = map[string]any{"clients": o.cfg.String(), "granted": fmt.Sprint(o.granted), "log": o.log}
	}
}

func (c *collector) finish(run *vf.Run, tag string) {
	for k, n := range c.perKey {
		if n > 2 {
			c.res.Logf("%d further witnesses with key %s not listed", n-2, k)
		}
	}
	var b []byte
	for h := range c.sigs {
		b = binary.LittleEndian.AppendUint64(b, h)
	}
	if err := os.WriteFile(filepath.Join(run.Scratch, "c20-sigs-"+tag+".bin"), b, 0o644); err != nil && c.res.HarnessErr == "" {
		c.res.HarnessErr = err.Error()
	}
}

func randomConfig(rng *rand.Rand, clients, maxOps int) config {
	cfg := make(config, clients)
	for i := range cfg {
		for {
			n := 1 + rng.Intn(maxOps)
			raw := "A" // an instance that never acquires makes no request
			for len(raw) < n {
				raw += string("ANL"[rng.Intn(3)])
			}
			if p := canonical(raw); p != "" {
				cfg[i].Prog = p
				break
			}
		}
		cfg[i].TTL = 1
		if rng.Intn(2) == 0 {
			cfg[i].TTL = -1
		}
	}
	return cfg
}

// stderrMark / raceReportsSince look at this worker's own stderr file for race detector reports.
func stderrMark() (string, int64) {
	p, err := os.Readlink("/proc/self/fd/2")
	if err != nil {
		return "", 0
	}
	fi, err := os.Stat(p)
	if err != nil || !fi.Mode().IsRegular() {
		return "", 0
	}
	return p, fi.Size()
}

func raceReportsSince(path string, off int64) (int, string) {
	if path == "" {
		return 0, ""
	}
	b, err := os.ReadFile(path)
	if err != nil || int64(len(b)) <= off {
		return 0, ""
	}
	b = b[off:]
	n := bytes.Count(b, []byte("WARNING: DATA RACE"))
	if n == 0 {
		return 0, ""
	}
	if len(b) > 4000 {
		b = b[:4000]
	}
	return n, string(b)
}

func runCase(run *vf.Run, raw json.RawMessage, dir string) *vf.Result {
	var s spec
	res := &vf.Result{}
	if err := json.Unmarshal(raw, &s); err != nil {
		res.HarnessErr = err.Error()
		return res
	}
	errPath, errOff := stderrMark()
	if raceEnabled {
		res.Count("cases_run_under_race_detector", 1)
	}
	col := &collector{res: res, perKey: map[string]int{}, sigs: map[uint64]bool{}}
	switch s.Kind {
	case "demo":
		o := runSchedule(s.Cfg, s.Sched, nil)
		col.add(o)
		col.finish(run, "demo")
		res.Sample = map[string]any{"kind": "demo (acquire A, release A, acquire B)", "clients": s.Cfg.String(), "granted": fmt.Sprint(o.granted), "log": o.log}
		res.Count("demo_schedules", 1)
	case "exh":
		progs, _ := programs(s.MaxOps)
		configs := 0
		for _, pr := range progs {
			for _, ttl := range []int{1, -1} {
				cfg := config{*s.First, {Prog: pr, TTL: ttl}}
				n := explore(cfg, col.add)
				configs++
				res.Count("exh_schedules", n)
			}
		}
		res.Count("exh_configs", configs)
		col.finish(run, fmt.Sprintf("exh-%s-%d", s.First.Prog, s.First.TTL))
		res.Sample = map[string]any{"kind": "exh", "client0": s.First, "client1": "every canonical program x TTL class", "configs": configs, "schedules": col.schedules, "example": col.sample}
	case "near":
		runNear(s.Seed, s.N, res)
		res.Sig = fmt.Sprintf("near-%d", s.Seed)
		res.Nontrivial = res.Counters["near_expiry_pairs_evaluated"] >= 3
		res.Sample = map[string]any{"kind": "near-expiry", "pairs": s.N}
		return res
	case "rand":
		rng := rand.New(rand.NewSource(s.Seed))
		for k := 0; k < s.N; k++ {
			cfg := randomConfig(rng, s.Clients, s.MaxOps)
			col.add(runSchedule(cfg, nil, rand.New(rand.NewSource(rng.Int63()))))
			res.Count("random_schedules", 1)
		}
		col.finish(run, fmt.Sprintf("rand-%d", s.Seed))
		res.Sample = map[string]any{"kind": "rand", "schedules": s.N, "example": col.sample}
	case "free":
		rng := rand.New(rand.NewSource(s.Seed))
		for k := 0; k < s.N; k++ {
			cfg := randomConfig(rng, s.Clients, s.MaxOps)
			fr := runFree(cfg)
			res.Evals++
			res.Count("free_histories", 1)
			res.Count("free_history_operations", len(fr.history))
			if fr.overlaps > 0 {
				res.Count("free_histories_with_overlapping_operations", 1)
			}
			switch fr.verdict {
			case porcupine.Ok:
				res.Count("porcupine_ok", 1)
			case porcupine.Unknown:
				res.HarnessErr = "porcupine timed out"
			default:
				res.Count("porcupine_illegal", 1)
				if len(res.Violations) < 2 {
					res.Logf("---- free-running history of [%s]", cfg)
					for _, l := range fr.log {
						res.Logf("%s", l)
					}
					res.Violate("history-not-linearizable", "[%s]: free-running history of %d operations is not linearizable against the sequential lease specification (a success the statement forbids): %s", cfg, len(fr.history), strings.Join(fr.log[:len(fr.history)], " | "))
				}
			}
			if res.Sample == nil && fr.overlaps > 0 {
				res.Sample = map[string]any{"kind": "free", "clients": cfg.String(), "history": fr.log[:len(fr.history)]}
			}
		}
		res.Nontrivial = res.Counters["free_histories_with_overlapping_operations"] > 0
	default:
		res.HarnessErr = "unknown kind " + s.Kind
	}
	if n, text := raceReportsSince(errPath, errOff); n > 0 {
		res.Count("race_reports", n)
		res.Logf("%s", text)
		first := ""
		for _, l := range strings.Split(text, "\n") {
			if strings.Contains(l, "litestream") {
				first = strings.TrimSpace(l)
				break
			}
		}
		res.Violate("data-race", "the race detector reported %d data race(s) while instances ran concurrently: %s", n, first)
	}
	if s.Kind != "free" {
		res.Nontrivial = len(col.sigs) > 0
	}
	res.Sig = fmt.Sprintf("%s-%v-%d", s.Kind, s.First, s.Seed)
	return res
}

func finish(run *vf.Run, results []*vf.Result, ev map[string]any) []vf.Violation {
	p := planFor(run.Tier)
	progs, rawN := programs(p.maxOps)
	wantConfigs := len(progs) * 2 * len(progs) * 2
	gotConfigs, schedules := 0, 0
	complete := true
	for _, r := range results {
		if r == nil {
			complete = false
			continue
		}
		gotConfigs += r.Counters["exh_configs"]
		schedules += r.Counters["exh_schedules"]
		if r.HarnessErr != "" {
			complete = false
		}
	}
	if gotConfigs != wantConfigs {
		complete = false
	}
	seen := map[uint64]bool{}
	files, _ := filepath.Glob(filepath.Join(run.Scratch, "c20-sigs-*.bin"))
	sort.Strings(files)
	for _, f := range files {
		b, err := os.ReadFile(f)
		if err != nil {
			continue
		}
		for i := 0; i+8 <= len(b); i += 8 {
			seen[binary.LittleEndian.Uint64(b[i:])] = true
		}
	}
	ev["exhaustive"] = complete
	ev["exhaustive_subspace"] = map[string]any{
		"instances": 2, "max_operations_per_program": p.maxOps, "raw_programs": rawN, "canonical_programs": progs,
		"ttl_classes": []string{"live(+1h)", "expired(-1h)"}, "configurations_expected": wantConfigs, "configurations_explored": gotConfigs,
		"interleavings_explored": schedules, "complete": complete,
	}
	ev["distinct_nontrivial"] = len(seen)
	fmt.Printf("C20: exhaustive sub-space complete=%v (%d configurations, %d interleavings); distinct non-trivial schedules: %d\n", complete, gotConfigs, schedules, len(seen))
	return nil
}
