//go:build verif

package c09

import (
	"encoding/binary"
	"fmt"
	"math/rand"

	"verif/harness/internal/oracle"
)

// ---------------------------------------------------------------------------
// WAL byte helpers used only to *generate* inputs (never to judge them).

func walBO(w []byte) binary.ByteOrder {
	if len(w) >= 4 && binary.BigEndian.Uint32(w)&1 == 1 {
		return binary.BigEndian
	}
	return binary.LittleEndian
}

func genCksum(bo binary.ByteOrder, s0, s1 uint32, b []byte) (uint32, uint32) {
	for i := 0; i+8 <= len(b); i += 8 {
		s0 += bo.Uint32(b[i:]) + s1
		s1 += bo.Uint32(b[i+4:]) + s0
	}
	return s0, s1
}

// rehead recomputes the header checksum in place.
func rehead(w []byte) {
	s0, s1 := genCksum(walBO(w), 0, 0, w[:24])
	binary.BigEndian.PutUint32(w[24:], s0)
	binary.BigEndian.PutUint32(w[28:], s1)
}

// rechain recomputes the checksums of frames [from, upto) in place, chaining
// from the stored checksum of the frame before (or the header).
func rechain(w []byte, ps, from, upto int) {
	fs := 24 + ps
	bo := walBO(w)
	var s0, s1 uint32
	if from == 0 {
		s0, s1 = binary.BigEndian.Uint32(w[24:]), binary.BigEndian.Uint32(w[28:])
	} else {
		p := 32 + (from-1)*fs
		s0, s1 = binary.BigEndian.Uint32(w[p+16:]), binary.BigEndian.Uint32(w[p+20:])
	}
	for f := from; f < upto; f++ {
		p := 32 + f*fs
		if p+fs > len(w) {
			return
		}
		s0, s1 = genCksum(bo, s0, s1, w[p:p+8])
		s0, s1 = genCksum(bo, s0, s1, w[p+24:p+fs])
		binary.BigEndian.PutUint32(w[p+16:], s0)
		binary.BigEndian.PutUint32(w[p+20:], s1)
	}
}

// reencode returns a copy of w whose checksums use the other byte order: the
// magic's low bit is toggled, the header checksum and the checksum chain of the
// first valid frames are recomputed. Frames beyond (stale generations) stay.
func reencode(w []byte, ps, valid int) []byte {
	o := append([]byte{}, w...)
	binary.BigEndian.PutUint32(o[0:], binary.BigEndian.Uint32(o[0:])^1)
	rehead(o)
	rechain(o, ps, 0, valid)
	return o
}

// ---------------------------------------------------------------------------

// mutant is a small, deterministic description of one input; the bytes are
// produced on demand by apply.
type mutant struct {
	Class string // reporting class
	Op    string
	BE    bool // derived from the byte-order re-encoded base
	A, B  int
	V     uint32
	Rechk bool
	Seed  int64
}

func (m mutant) String() string {
	s := fmt.Sprintf("%s{op=%s a=%d b=%d v=%d", m.Class, m.Op, m.A, m.B, m.V)
	if m.Rechk {
		s += " rechk"
	}
	if m.BE {
		s += " be"
	}
	return s + "}"
}

// geometry of the base WAL as the generator sees it
type geom struct {
	ps, fs   int
	nfr      int // whole frames present in the file
	valid    int // frames valid by salt+checksum chain
	commit   int // frames up to the last commit (mxFrame)
	frames   []oracle.WALFrame
	salt1    uint32
	salt2    uint32
	basePgs  uint32 // pages in the database file
	commitIx []int  // indexes of commit frames within the committed prefix
}

func geometry(b *baseData) geom {
	info := oracle.ParseWAL(b.WAL)
	g := geom{ps: info.PageSize, fs: 24 + info.PageSize, valid: len(info.Valid), commit: info.LastCommit, frames: info.Valid, salt1: info.Salt1, salt2: info.Salt2}
	g.nfr = (len(b.WAL) - 32) / g.fs
	g.basePgs = uint32(len(b.DB) / g.ps)
	for _, fr := range info.Valid {
		if fr.Commit != 0 && fr.Index < info.LastCommit {
			g.commitIx = append(g.commitIx, fr.Index)
		}
	}
	return g
}

// buildMutants returns the deterministic mutant list (length n) for a base.
func buildMutants(b *baseData, seed int64, n int) []mutant {
	g := geometry(b)
	rng := rand.New(rand.NewSource(seed))
	var out []mutant
	out = append(out, mutant{Class: "orig", Op: "orig"}, mutant{Class: "byteorder", Op: "orig", BE: true})

	// truncation at frame boundaries: every boundary when the budget allows,
	// else every boundary of the valid prefix plus an even sample of the rest.
	capN := n * 3 / 10
	var bounds []int
	if g.nfr+1 <= capN {
		for f := 0; f <= g.nfr; f++ {
			bounds = append(bounds, f)
		}
	} else {
		seen := map[int]bool{}
		add := func(f int) {
			if !seen[f] && f >= 0 && f <= g.nfr {
				seen[f] = true
				bounds = append(bounds, f)
			}
		}
		for f := 0; f <= g.valid && len(bounds) < capN-4; f++ {
			add(f)
		}
		for k := 0; len(bounds) < capN && k < 4*capN; k++ {
			add(g.valid + 1 + rng.Intn(g.nfr-g.valid+1))
		}
	}
	for _, f := range bounds {
		out = append(out, mutant{Class: "trunc-frame-boundary", Op: "trunc", A: 32 + f*g.fs})
	}

	type gen struct {
		w int
		f func() mutant
	}
	vfr := func() int { // a frame index, mostly inside the valid prefix
		if g.valid > 0 && rng.Intn(10) < 8 {
			return rng.Intn(g.valid)
		}
		return rng.Intn(g.nfr)
	}
	gens := []gen{
		{4, func() mutant {
			return mutant{Class: "trunc-frame-boundary", Op: "trunc", A: 32 + rng.Intn(g.nfr+1)*g.fs, BE: true}
		}},
		{10, func() mutant {
			switch r := rng.Intn(10); {
			case r < 1:
				return mutant{Class: "trunc-in-header", Op: "trunc", A: rng.Intn(32)}
			case r < 5:
				return mutant{Class: "trunc-in-frame-header", Op: "trunc", A: 32 + vfr()*g.fs + 1 + rng.Intn(23)}
			default:
				return mutant{Class: "trunc-in-payload", Op: "trunc", A: 32 + vfr()*g.fs + 24 + rng.Intn(g.ps)}
			}
		}},
		{6, func() mutant {
			return mutant{Class: "flip-wal-header", Op: "flip", A: rng.Intn(32), B: rng.Intn(8)}
		}},
		{12, func() mutant {
			o := rng.Intn(24)
			cls := []string{"flip-fh-pgno", "flip-fh-commit", "flip-fh-salt", "flip-fh-salt", "flip-fh-cksum", "flip-fh-cksum"}[o/4]
			return mutant{Class: cls, Op: "flip", A: 32 + vfr()*g.fs + o, B: rng.Intn(8)}
		}},
		{10, func() mutant {
			return mutant{Class: "flip-payload", Op: "flip", A: 32 + vfr()*g.fs + 24 + rng.Intn(g.ps), B: rng.Intn(8)}
		}},
		{6, func() mutant {
			i := vfr()
			j := rng.Intn(g.nfr + 1)
			switch rng.Intn(3) {
			case 0:
				if j >= g.nfr {
					j = g.nfr - 1
				}
				if i == j {
					j = (j + 1) % g.nfr
				}
				return mutant{Class: "dup-overwrite", Op: "dup-over", A: i, B: j}
			case 1:
				return mutant{Class: "dup-insert", Op: "dup-ins", A: i, B: j}
			default:
				return mutant{Class: "dup-after-valid", Op: "dup-ins", A: i, B: g.valid}
			}
		}},
		{6, func() mutant {
			lim := g.valid
			if lim < 2 {
				lim = g.nfr
			}
			i := rng.Intn(lim)
			j := rng.Intn(lim)
			if i == j {
				j = (j + 1) % lim
			}
			if rng.Intn(3) == 0 {
				return mutant{Class: "reorder-move", Op: "move", A: i, B: j}
			}
			return mutant{Class: "reorder-swap", Op: "swap", A: i, B: j}
		}},
		{12, func() mutant {
			which := rng.Intn(2) // salt1 or salt2
			delta := []uint32{1, 0xffffffff, 1 << uint(rng.Intn(32)), rng.Uint32() | 1}[rng.Intn(4)]
			hasStale := g.nfr > g.valid
			switch r := rng.Intn(12); {
			case r < 2:
				return mutant{Class: "salt-header", Op: "salt-hdr", A: which, V: delta}
			case r < 4:
				return mutant{Class: "salt-header+rechk", Op: "salt-hdr", A: which, V: delta, Rechk: true}
			case r < 8:
				return mutant{Class: "salt-frame", Op: "salt-frame", A: rng.Intn(max(g.valid, 1)), B: which, V: delta}
			case r < 9 && hasStale:
				return mutant{Class: "salt-header-to-stale+rechk", Op: "salt-hdr-stale"}
			case r < 10 && hasStale:
				return mutant{Class: "salt-stale-frame-to-current", Op: "salt-stale-cur", A: g.valid}
			default:
				return mutant{Class: "salt-suffix", Op: "salt-suffix", A: rng.Intn(max(g.valid, 1)), B: which, V: delta}
			}
		}},
		{20, func() mutant { return commitEdit(g, rng) }},
		{8, func() mutant {
			sd := rng.Int63()
			switch rng.Intn(7) {
			case 0:
				return mutant{Class: "garbage-append-short", Op: "garbage-append", A: 1 + rng.Intn(23), Seed: sd}
			case 1:
				return mutant{Class: "garbage-append-partial-frame", Op: "garbage-append", A: 24 + rng.Intn(g.ps), Seed: sd}
			case 2:
				return mutant{Class: "garbage-append-frames", Op: "garbage-append", A: (1 + rng.Intn(3)) * g.fs, Seed: sd}
			case 3:
				return mutant{Class: "garbage-append-salted-frame", Op: "garbage-salted", A: g.fs, Seed: sd}
			case 4:
				f := g.commit + rng.Intn(g.nfr-g.commit+1)
				return mutant{Class: "garbage-overwrite-tail", Op: "garbage-over", A: 32 + f*g.fs, Seed: sd}
			case 5:
				return mutant{Class: "garbage-append-zeros", Op: "zeros-append", A: (1 + rng.Intn(3)) * g.fs}
			default:
				// torn write: the end of one frame replaced by zeros
				f := vfr()
				return mutant{Class: "torn-frame", Op: "zeros-over", A: 32 + f*g.fs + 24 + rng.Intn(g.ps), B: 32 + (f+1)*g.fs}
			}
		}},
		{6, func() mutant {
			if len(g.commitIx) == 0 {
				return mutant{Class: "trunc-frame-boundary", Op: "trunc", A: 32}
			}
			j := g.commitIx[rng.Intn(len(g.commitIx))] + 1
			return mutant{Class: "stale-generation-synth", Op: "stale-synth", A: j, V: rng.Uint32()}
		}},
	}
	tot := 0
	for _, x := range gens {
		tot += x.w
	}
	for len(out) < n {
		r := rng.Intn(tot)
		for _, x := range gens {
			if r < x.w {
				m := x.f()
				if !m.BE && rng.Intn(4) == 0 {
					m.BE = true
				}
				out = append(out, m)
				break
			}
			r -= x.w
		}
	}
	return out[:n]
}

// commitEdit picks an edit of the commit field (frame header bytes 4..7) of a
// frame of the valid chain.
func commitEdit(g geom, rng *rand.Rand) mutant {
	if g.valid == 0 {
		return mutant{Class: "trunc-frame-boundary", Op: "trunc", A: 32}
	}
	f := rng.Intn(g.valid)
	if len(g.commitIx) > 0 && rng.Intn(3) == 0 {
		f = g.commitIx[rng.Intn(len(g.commitIx))]
	}
	fr := g.frames[f]
	// database size before this frame's transaction
	cur := g.basePgs
	maxPg := fr.Pgno
	for i := f - 1; i >= 0; i-- {
		if g.frames[i].Commit != 0 {
			cur = g.frames[i].Commit
			break
		}
		if g.frames[i].Pgno > maxPg {
			maxPg = g.frames[i].Pgno
		}
	}
	rechk := rng.Intn(10) < 7
	m := mutant{Op: "commit", A: f, Rechk: rechk}
	if fr.Commit == 0 {
		// forge a commit marker on a frame inside a transaction
		switch rng.Intn(6) {
		case 0:
			m.Class, m.V = "commit-set-grow", max(cur, maxPg)+1
		case 1:
			m.Class, m.V = "commit-set-small", fr.Pgno
		case 2:
			m.Class, m.V = "commit-set-lt-pgno", fr.Pgno-1
			if m.V == 0 {
				m.Class, m.V = "commit-set", max(cur, maxPg)
			}
		default:
			m.Class, m.V = "commit-set", max(cur, maxPg)
		}
	} else {
		switch rng.Intn(8) {
		case 6:
			m.Class, m.V = "commit-lt-pgno", fr.Pgno-1
			if m.V == 0 {
				m.Class = "commit-clear"
			}
		case 7:
			m.Class, m.V = "commit-big", fr.Commit+1000
		case 0, 1:
			m.Class, m.V = "commit-clear", 0
		case 2:
			m.Class, m.V = "commit-dec", fr.Commit-1
			if m.V == 0 {
				m.Class, m.V = "commit-inc", fr.Commit+1
			}
		case 3:
			m.Class, m.V = "commit-inc", fr.Commit+1
		case 4:
			m.Class, m.V = "commit-to-pgno", fr.Pgno
		default:
			m.Class, m.V = "commit-inc", fr.Commit+2+uint32(rng.Intn(5))
		}
	}
	if rechk {
		m.Class += "+rechk"
	}
	return m
}

// apply produces the mutated WAL bytes. src is the base WAL (or its
// byte-order re-encoding when m.BE); g is the base geometry.
func apply(m mutant, b *baseData, be []byte, g geom, buf []byte) []byte {
	src := b.WAL
	if m.BE {
		src = be
	}
	fs, ps := g.fs, g.ps
	clone := func() []byte { return append(buf[:0], src...) }
	frame := func(w []byte, i int) []byte { return w[32+i*fs : 32+(i+1)*fs] }
	switch m.Op {
	case "orig":
		return clone()
	case "trunc":
		a := min(m.A, len(src))
		return append(buf[:0], src[:a]...)
	case "flip":
		w := clone()
		if m.A < len(w) {
			w[m.A] ^= 1 << uint(m.B)
		}
		return w
	case "dup-over":
		w := clone()
		copy(frame(w, m.B), frame(src, m.A))
		return w
	case "dup-ins":
		j := min(m.B, g.nfr)
		w := append(buf[:0], src[:32+j*fs]...)
		w = append(w, frame(src, m.A)...)
		return append(w, src[32+j*fs:]...)
	case "swap":
		w := clone()
		copy(frame(w, m.A), frame(src, m.B))
		copy(frame(w, m.B), frame(src, m.A))
		return w
	case "move":
		// remove frame A and re-insert it at position B
		var fr [][]byte
		for i := 0; i < g.nfr; i++ {
			if i != m.A {
				fr = append(fr, frame(src, i))
			}
		}
		w := append(buf[:0], src[:32]...)
		for i := 0; i <= len(fr); i++ {
			if i == m.B {
				w = append(w, frame(src, m.A)...)
			}
			if i < len(fr) {
				w = append(w, fr[i]...)
			}
		}
		return append(w, src[32+g.nfr*fs:]...)
	case "salt-hdr":
		w := clone()
		p := 16 + 4*m.A
		binary.BigEndian.PutUint32(w[p:], binary.BigEndian.Uint32(w[p:])+m.V)
		if m.Rechk {
			rehead(w)
		}
		return w
	case "salt-frame":
		w := clone()
		p := 32 + m.A*fs + 8 + 4*m.B
		binary.BigEndian.PutUint32(w[p:], binary.BigEndian.Uint32(w[p:])+m.V)
		return w
	case "salt-suffix":
		w := clone()
		for f := m.A; f < g.valid; f++ {
			p := 32 + f*fs + 8 + 4*m.B
			binary.BigEndian.PutUint32(w[p:], binary.BigEndian.Uint32(w[p:])+m.V)
		}
		return w
	case "salt-hdr-stale":
		w := clone()
		copy(w[16:24], frame(src, g.valid)[8:16])
		rehead(w)
		return w
	case "salt-stale-cur":
		w := clone()
		copy(frame(w, m.A)[8:16], src[16:24])
		return w
	case "commit":
		w := clone()
		binary.BigEndian.PutUint32(frame(w, m.A)[4:], m.V)
		if m.Rechk {
			rechain(w, ps, m.A, g.valid)
		}
		return w
	case "garbage-append":
		w := clone()
		rb := make([]byte, m.A)
		rand.New(rand.NewSource(m.Seed)).Read(rb)
		return append(w, rb...)
	case "garbage-salted":
		w := clone()
		rb := make([]byte, fs)
		rand.New(rand.NewSource(m.Seed)).Read(rb)
		copy(rb[8:16], src[16:24])
		return append(w, rb...)
	case "garbage-over":
		w := clone()
		if m.A < len(w) {
			rand.New(rand.NewSource(m.Seed)).Read(w[m.A:])
		}
		return w
	case "zeros-append":
		return append(clone(), make([]byte, m.A)...)
	case "zeros-over":
		w := clone()
		for i := m.A; i < m.B && i < len(w); i++ {
			w[i] = 0
		}
		return w
	case "stale-synth":
		// the whole valid chain re-salted as an older generation G0 (salt1-1,
		// other salt2, own checksum chain); the current generation covers only
		// the first A frames, G0's frames follow it.
		g0 := append([]byte{}, src...)
		binary.BigEndian.PutUint32(g0[16:], binary.BigEndian.Uint32(g0[16:])-1)
		binary.BigEndian.PutUint32(g0[20:], m.V)
		rehead(g0)
		for f := 0; f < g.valid; f++ {
			copy(frame(g0, f)[8:16], g0[16:24])
		}
		rechain(g0, ps, 0, g.valid)
		w := clone()
		copy(w[32+m.A*fs:32+g.valid*fs], g0[32+m.A*fs:32+g.valid*fs])
		return w
	}
	panic("unknown mutation op " + m.Op)
}
