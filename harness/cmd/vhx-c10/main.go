// vhx-c10 is the private development binary of check C10.
package main

import (
	"io"
	"log/slog"
	"os"

	"verif/harness/internal/c10"
	"verif/harness/internal/vf"
)

func main() {
	slog.SetDefault(slog.New(slog.NewTextHandler(io.Discard, nil)))
	if len(os.Args) > 1 && os.Args[1] == "explore" {
		c10.Explore(os.Args[2:])
		return
	}
	os.Exit(vf.Main(os.Args[1:]))
}
