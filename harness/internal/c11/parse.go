package c11

import (
	"bufio"
	"fmt"
	"os"
	"strconv"
	"strings"
)

// Event is one completed system call of the strace log (`strace -f -y -ttt`).
type Event struct {
	Line int // line number of the completing line
	Pid  int
	Name string
	Args []string
	Ret  int64  // numeric return value (-1 on error)
	RetP string // path annotation of the return value (open: "3</path>")
	Err  string // errno name when Ret == -1
	Exit bool   // "+++ exited with N +++" / "+++ killed by SIG +++"
}

// ParseLog reads one strace output file. Calls split into
// "<unfinished ...>" / "<... name resumed>" are joined and take the position
// of the resuming line (that is when the call completed).
func ParseLog(path string) ([]Event, error) {
	f, err := os.Open(path)
	if err != nil {
		return nil, err
	}
	defer f.Close()
	sc := bufio.NewScanner(f)
	sc.Buffer(make([]byte, 1<<20), 1<<20)
	pending := map[int]string{}
	var out []Event
	ln := 0
	for sc.Scan() {
		ln++
		line := sc.Text()
		// "<pid> <ts> rest"
		sp1 := strings.IndexByte(line, ' ')
		if sp1 < 0 {
			continue
		}
		pid, err := strconv.Atoi(line[:sp1])
		if err != nil {
			continue
		}
		rest := strings.TrimLeft(line[sp1:], " ")
		sp2 := strings.IndexByte(rest, ' ')
		if sp2 < 0 {
			continue
		}
		rest = rest[sp2+1:]
		switch {
		case strings.HasPrefix(rest, "+++ "):
			out = append(out, Event{Line: ln, Pid: pid, Name: "+++", Exit: true, Args: []string{rest}})
			continue
		case strings.HasPrefix(rest, "--- "):
			continue // signal
		}
		if strings.HasSuffix(rest, "<unfinished ...>") {
			pending[pid] = strings.TrimSuffix(rest, "<unfinished ...>")
			continue
		}
		if strings.HasPrefix(rest, "<... ") {
			i := strings.Index(rest, " resumed>")
			if i < 0 {
				continue
			}
			head, ok := pending[pid]
			if !ok {
				continue // began before the trace started
			}
			delete(pending, pid)
			rest = head + rest[i+len(" resumed>"):]
		}
		ev, ok := parseCall(rest)
		if !ok {
			continue
		}
		ev.Line, ev.Pid = ln, pid
		out = append(out, ev)
	}
	return out, sc.Err()
}

// parseCall parses `name(args) = ret [ERR (text)]`.
func parseCall(s string) (Event, bool) {
	var ev Event
	op := strings.IndexByte(s, '(')
	if op <= 0 {
		return ev, false
	}
	ev.Name = s[:op]
	for _, c := range ev.Name {
		if !(c == '_' || c >= 'a' && c <= 'z' || c >= '0' && c <= '9') {
			return ev, false
		}
	}
	// scan arguments up to the matching ')'
	i := op + 1
	start := i
	depth := 0
	inq := false
	for ; i < len(s); i++ {
		c := s[i]
		if inq {
			if c == '\\' {
				i++
			} else if c == '"' {
				inq = false
			}
			continue
		}
		switch c {
		case '"':
			inq = true
		case '<', '[', '{', '(':
			depth++
		case '>', ']', '}':
			if depth > 0 {
				depth--
			}
		case ')':
			if depth > 0 {
				depth--
				continue
			}
			ev.Args = append(ev.Args, strings.TrimSpace(s[start:i]))
			goto done
		case ',':
			if depth == 0 {
				ev.Args = append(ev.Args, strings.TrimSpace(s[start:i]))
				start = i + 1
			}
		}
	}
	return ev, false
done:
	rest := strings.TrimSpace(s[i+1:])
	rest, ok := strings.CutPrefix(rest, "=")
	if !ok {
		return ev, false
	}
	rest = strings.TrimSpace(rest)
	f := strings.Fields(rest)
	if len(f) == 0 {
		return ev, false
	}
	r := f[0]
	if r == "?" {
		ev.Ret = -1
		ev.Err = "?"
		return ev, true
	}
	if lt := strings.IndexByte(r, '<'); lt > 0 {
		ev.RetP = strings.TrimSuffix(rest[lt+1:], ">")
		if gt := strings.LastIndexByte(ev.RetP, '>'); gt >= 0 {
			ev.RetP = ev.RetP[:gt]
		}
		r = r[:lt]
	}
	n, err := strconv.ParseInt(r, 0, 64)
	if err != nil {
		return ev, false
	}
	ev.Ret = n
	if n == -1 && len(f) > 1 {
		ev.Err = f[1]
	}
	return ev, true
}

// fdArg splits "13</path/x>" into (13, "/path/x").
func fdArg(a string) (int, string) {
	lt := strings.IndexByte(a, '<')
	if lt <= 0 {
		n, err := strconv.Atoi(a)
		if err != nil {
			return -1, ""
		}
		return n, ""
	}
	n, err := strconv.Atoi(a[:lt])
	if err != nil {
		return -1, ""
	}
	p := a[lt+1:]
	if gt := strings.LastIndexByte(p, '>'); gt >= 0 {
		p = p[:gt]
	}
	return n, p
}

// strArg decodes a quoted strace string argument (C escapes, optional "...").
func strArg(a string) (string, bool) {
	a = strings.TrimSuffix(a, "...")
	if len(a) < 2 || a[0] != '"' || a[len(a)-1] != '"' {
		return "", false
	}
	s, err := strconv.Unquote(a)
	if err == nil {
		return s, true
	}
	// strace uses octal escapes like \0 and \17 that Go's Unquote rejects
	var b strings.Builder
	in := a[1 : len(a)-1]
	for i := 0; i < len(in); i++ {
		c := in[i]
		if c != '\\' || i+1 >= len(in) {
			b.WriteByte(c)
			continue
		}
		i++
		switch in[i] {
		case 'n':
			b.WriteByte('\n')
		case 't':
			b.WriteByte('\t')
		case 'r':
			b.WriteByte('\r')
		case 'v':
			b.WriteByte('\v')
		case 'f':
			b.WriteByte('\f')
		case '"', '\\':
			b.WriteByte(in[i])
		case 'x':
			if i+2 < len(in) {
				if v, err := strconv.ParseUint(in[i+1:i+3], 16, 8); err == nil {
					b.WriteByte(byte(v))
					i += 2
				}
			}
		default:
			if in[i] >= '0' && in[i] <= '7' {
				j := i
				for j < len(in) && j < i+3 && in[j] >= '0' && in[j] <= '7' {
					j++
				}
				v, _ := strconv.ParseUint(in[i:j], 8, 16)
				b.WriteByte(byte(v))
				i = j - 1
			} else {
				b.WriteByte(in[i])
			}
		}
	}
	return b.String(), true
}

// atPath resolves a (dirfd, "path") argument pair to an absolute path.
func atPath(dirArg, pathArg string) (string, error) {
	p, ok := strArg(pathArg)
	if !ok {
		return "", fmt.Errorf("unparseable path argument %q", pathArg)
	}
	if strings.HasPrefix(p, "/") {
		return p, nil
	}
	_, base := fdArg(dirArg) // AT_FDCWD</cwd> or 5</dir>
	if base == "" {
		return "", fmt.Errorf("relative path %q without directory annotation", p)
	}
	if p == "" {
		return base, nil
	}
	return base + "/" + p, nil
}
