package c10

import (
	"bytes"
	"context"
	"database/sql"
	"encoding/binary"
	"fmt"
	"math/rand"
	"os"
	"path/filepath"
	"sort"
	"strings"
	"sync"
	"time"

	"github.com/benbjohnson/litestream"
	"github.com/benbjohnson/litestream/file"
	"github.com/superfly/ltx"

	"verif/harness/internal/oracle"
	"verif/harness/internal/vf"
)

// item is one oracle decision's worth of work, executed inside the grandchild
// process (a panic in litestream's goroutines kills only that process and the
// parent knows exactly which item it was running).
type item struct {
	Inner bool     `json:"inner"`
	Base  baseSpec `json:"base"`
	Fp    string   `json:"fp"`
	Kind  string   `json:"kind"` // corrupt | faults | integrity | preexist | staletmp

	// corrupt
	File int    `json:"file,omitempty"` // index into baseMeta.Files
	Op   string `json:"op,omitempty"`   // delete | trunc | flip
	Off  int64  `json:"off,omitempty"`
	Mask byte   `json:"mask,omitempty"`
	// Unpin: restore the latest state (no TXID target) instead of the pinned
	// TXID. Used for deletions of files that are not the newest of the chain
	// (then "latest" still means the replica's max TXID) and for truncations of
	// any plan file (a file that is present but cut short, even to zero bytes,
	// is visible: an older state is not a legitimate answer).
	Unpin bool `json:"unpin,omitempty"`
	// Thin: the replica holds only the files of the plan (what retention
	// leaves once superseded files are gone), so no other level can stand in.
	Thin bool `json:"thin,omitempty"`

	// stale <output>.tmp
	Tmp *tmpSpec `json:"tmp,omitempty"`

	// faults (run concurrently inside one item: the retry back-off is sleep-bound)
	Scheds []sched `json:"scheds,omitempty"`

	// integrity
	Integ *integSpec `json:"integ,omitempty"`

	// preexist
	Pre *preSpec `json:"pre,omitempty"`
}

type integSpec struct {
	Mode string `json:"mode"` // full | quick
	Page int    `json:"page"` // index into the list of b-tree pages of the reference image
	Mut  string `json:"mut"`  // type | ncell | cellptr | swap | magic
}

type tmpSpec struct {
	Variant   string `json:"variant"`   // larger | smaller | same | dir | readonly
	Integrity string `json:"integrity"` // "", quick, full
	Pin       bool   `json:"pin"`
	Seed      int64  `json:"seed"`
}

type preSpec struct {
	Variant   string `json:"variant"` // file | empty | dir | symlink | dangling | self
	Pin       bool   `json:"pin"`
	Integrity string `json:"integrity"` // "", quick, full
	Corrupt   bool   `json:"corrupt"`   // replica additionally truncated (restore would fail anyway)
}

// loaded bases (per process)
type loadedBase struct {
	meta  *baseMeta
	ref   []byte
	files map[int][]byte
}

var (
	loadedMu sync.Mutex
	loaded   = map[string]*loadedBase{}
)

func getBase(scratch string, b baseSpec, fp string) (*loadedBase, error) {
	loadedMu.Lock()
	defer loadedMu.Unlock()
	if lb, ok := loaded[b.key()]; ok {
		return lb, nil
	}
	m, err := ensureBase(scratch, b)
	if err != nil {
		return nil, err
	}
	if fp != "" && m.fingerprint() != fp {
		return nil, fmt.Errorf("base %s was rebuilt with a different byte layout (%s, case list was made for %s); offsets would not mean the same", b.key(), m.fingerprint(), fp)
	}
	ref, err := os.ReadFile(m.refPath())
	if err != nil {
		return nil, err
	}
	lb := &loadedBase{meta: m, ref: ref, files: map[int][]byte{}}
	loaded[b.key()] = lb
	return lb, nil
}

func (lb *loadedBase) fileBytes(i int) ([]byte, error) {
	loadedMu.Lock()
	defer loadedMu.Unlock()
	if b, ok := lb.files[i]; ok {
		return b, nil
	}
	b, err := os.ReadFile(filepath.Join(lb.meta.repDir(), lb.meta.Files[i].Rel))
	if err != nil {
		return nil, err
	}
	lb.files[i] = b
	return b, nil
}

// region names the part of the LTX framing an offset falls in.
func (f fileMeta) region(off int64) string {
	switch {
	case off < int64(ltx.HeaderSize):
		return "header"
	case off < f.MarkerEnd-6:
		return "page-block"
	case off < f.MarkerEnd:
		return "end-marker"
	case off < f.IndexEnd:
		return "page-index"
	default:
		return "trailer"
	}
}

func (it *item) describe(m *baseMeta) string {
	switch it.Kind {
	case "corrupt":
		f := m.Files[it.File]
		switch it.Op {
		case "delete", "none":
			target, shape := "pinned TXID", "full replica"
			if it.Unpin {
				target = "latest (no TXID given)"
			}
			if it.Thin {
				shape = "replica thinned to the files of the plan"
			}
			if it.Op == "none" {
				return fmt.Sprintf("base %s: %s, nothing deleted, restore target %s", m.Spec.key(), shape, target)
			}
			return fmt.Sprintf("base %s: delete plan file %s (%d bytes) from the %s, restore target %s (replica max TXID %d)", m.Spec.key(), f.name(), f.Size, shape, target, m.MaxTXID)
		case "trunc":
			return fmt.Sprintf("base %s: truncate plan file %s (%d bytes, end of page block at %d) to %d bytes (%s, end-of-pages marker %+d)", m.Spec.key(), f.name(), f.Size, f.MarkerEnd, it.Off, f.region(it.Off), it.Off-f.MarkerEnd)
		default:
			return fmt.Sprintf("base %s: flip byte %d of plan file %s (%d bytes) with mask 0x%02x (%s)", m.Spec.key(), it.Off, f.name(), f.Size, it.Mask, f.region(it.Off))
		}
	case "faults":
		var a []string
		for _, s := range it.Scheds {
			a = append(a, s.String())
		}
		return fmt.Sprintf("base %s: read-fault schedules %s", m.Spec.key(), strings.Join(a, " "))
	case "integrity":
		return fmt.Sprintf("base %s: b-tree page #%d mutated (%s) inside a re-encoded, checksum-valid plan file; Restore with integrity check %s", m.Spec.key(), it.Integ.Page, it.Integ.Mut, it.Integ.Mode)
	case "preexist":
		return fmt.Sprintf("base %s: output path pre-exists (%s) pin=%v integrity=%q corrupt-replica=%v", m.Spec.key(), it.Pre.Variant, it.Pre.Pin, it.Pre.Integrity, it.Pre.Corrupt)
	case "staletmp":
		return fmt.Sprintf("base %s: stale <output>.tmp present before Restore (%s) pin=%v integrity=%q", m.Spec.key(), it.Tmp.Variant, it.Tmp.Pin, it.Tmp.Integrity)
	}
	return it.Kind
}

// runItem executes one item in this process.
func runItem(run *vf.Run, it *item, dir string) *vf.Result {
	res := &vf.Result{}
	lb, err := getBase(run.Scratch, it.Base, it.Fp)
	if err != nil {
		res.HarnessErr = err.Error()
		return res
	}
	// the exact action goes to stderr BEFORE litestream runs: if the process
	// dies the parent finds it there
	fmt.Fprintf(os.Stderr, "C10-ITEM %s\n", it.describe(lb.meta))
	switch it.Kind {
	case "corrupt":
		runCorrupt(res, lb, it, dir)
	case "faults":
		runFaults(res, lb, it, dir)
	case "integrity":
		runIntegrity(res, lb, it, dir)
	case "preexist":
		runPreexist(res, lb, it, dir)
	case "staletmp":
		runStaleTmp(res, lb, it, dir)
	default:
		res.HarnessErr = "unknown item kind " + it.Kind
	}
	return res
}

func pinned(lb *loadedBase) litestream.RestoreOptions {
	opt := litestream.NewRestoreOptions()
	opt.TXID = ltx.TXID(lb.meta.MaxTXID)
	return opt
}

// judge applies the C10 oracle to one finished Restore call whose output path
// did not exist beforehand. Returns the outcome class.
func judge(res *vf.Result, what, keySuffix string, err error, out string, ref []byte) string {
	res.Evals++
	fi, statErr := os.Lstat(out)
	exists := statErr == nil
	if _, e := os.Lstat(out + ".tmp"); e == nil {
		// not forbidden by the statement (only the output path is named)
		res.Count("obs:tmp-file-left-behind", 1)
	}
	if err == nil {
		if !exists {
			res.Violate("success-without-output:"+keySuffix, "%s: Restore returned nil but the output path does not exist", what)
			return "success-no-output"
		}
		got, rerr := os.ReadFile(out)
		if rerr != nil || !bytes.Equal(got, ref) {
			res.Violate("success-with-different-content:"+keySuffix, "%s: Restore returned nil but the output (%d bytes, read err=%v) differs from the reference restore of the pristine replica (%d bytes): %s", what, len(got), rerr, len(ref), firstDiff(got, ref))
			return "success-different"
		}
		return "success-identical"
	}
	if exists {
		kind := "partial or wrong"
		if got, rerr := os.ReadFile(out); rerr == nil && bytes.Equal(got, ref) {
			kind = "complete"
		}
		res.Violate("error-but-output-exists:"+keySuffix, "%s: Restore returned an error (%v) but left a %s file (%d bytes) at the output path", what, err, kind, fi.Size())
		return "error-output-left"
	}
	return "error"
}

func firstDiff(a, b []byte) string {
	n := len(a)
	if len(b) < n {
		n = len(b)
	}
	for i := 0; i < n; i++ {
		if a[i] != b[i] {
			return fmt.Sprintf("first differing byte at offset %d", i)
		}
	}
	return fmt.Sprintf("common prefix of %d bytes, lengths %d vs %d", n, len(a), len(b))
}

func errClass(err error) string {
	if err == nil {
		return "nil"
	}
	s := err.Error()
	for _, k := range []string{"checksum mismatch", "unexpected EOF", "max retries exceeded", "invalid ltx file", "no such file", "non-contiguous", "transaction not available", "decompress", "output path already exists", "integrity check", "invalid page header", "invalid flags", "unexpected pgno", "nonsequential page numbers", "out-of-order page numbers", "bad magic number", "invalid LTX file", "invalid page size", "page number required", "transaction ids out of order", "EOF"} {
		if strings.Contains(s, k) {
			return strings.ReplaceAll(k, " ", "-")
		}
	}
	return "other"
}

// ---------------------------------------------------------------------------
// (a) single corruption

func runCorrupt(res *vf.Result, lb *loadedBase, it *item, dir string) {
	m := lb.meta
	f := m.Files[it.File]
	rep := filepath.Join(dir, "rep")
	if err := linkTree(m.repDir(), rep); err != nil {
		res.HarnessErr = "link tree: " + err.Error()
		return
	}
	if it.Thin {
		for _, o := range m.Files {
			if !o.InPlan {
				if err := os.Remove(filepath.Join(rep, o.Rel)); err != nil {
					res.HarnessErr = "thin replica: " + err.Error()
					return
				}
			}
		}
	}
	target := filepath.Join(rep, f.Rel)
	orig, err := lb.fileBytes(it.File)
	if err != nil {
		res.HarnessErr = err.Error()
		return
	}
	switch it.Op {
	case "delete":
		err = os.Remove(target)
	case "none":
	case "trunc":
		if it.Off < 0 || it.Off > int64(len(orig)) {
			res.HarnessErr = fmt.Sprintf("offset %d outside file of %d bytes", it.Off, len(orig))
			return
		}
		err = replaceFile(target, orig[:it.Off], f.MTime)
	case "flip":
		if it.Off < 0 || it.Off >= int64(len(orig)) || it.Mask == 0 {
			res.HarnessErr = fmt.Sprintf("bad flip offset %d / mask %d for file of %d bytes", it.Off, it.Mask, len(orig))
			return
		}
		b := append([]byte{}, orig...)
		b[it.Off] ^= it.Mask
		err = replaceFile(target, b, f.MTime)
	default:
		err = fmt.Errorf("unknown op %s", it.Op)
	}
	if err != nil {
		res.HarnessErr = "apply corruption: " + err.Error()
		return
	}
	out := filepath.Join(dir, "out")
	opt := pinned(lb)
	class := it.Op
	if it.Unpin {
		// the deleted file is not the newest of the chain, so the latest
		// state of the replica is still the reference state
		opt = litestream.NewRestoreOptions()
		class += ":latest"
	}
	if it.Thin {
		class += ":thin"
	}
	opt.OutputPath = out
	r := litestream.NewReplicaWithClient(nil, file.NewReplicaClient(rep))
	t0 := time.Now()
	rerr := r.Restore(context.Background(), opt)
	what := it.describe(m)
	outcome := judge(res, what, class, rerr, out, lb.ref)
	res.Logf("%s -> %s (err=%v)", what, outcome, rerr)
	if it.Op == "none" {
		res.Count(fmt.Sprintf("corrupt:%s:%s", class, outcome), 1)
	} else {
		res.Count(fmt.Sprintf("corrupt:%s:L%d:%s", class, f.Level, outcome), 1)
	}
	if it.Op == "flip" && f.sizeTop(it.Off) && it.Mask >= 0x10 {
		res.Count("obs:flip-size-prefix-top-byte-256MiB-allocation:"+outcome, 1)
		res.Count("obs:flip-size-prefix-top-byte-256MiB-allocation:restore-ms", int(time.Since(t0).Milliseconds()))
	}
	if it.Op != "delete" && it.Op != "none" {
		res.Count(fmt.Sprintf("region:%s:%s:%s", it.Op, f.region(it.Off), outcome), 1)
	}
	if rerr != nil {
		res.Count("restore-error:"+errClass(rerr), 1)
	}
}

// ---------------------------------------------------------------------------
// (b) read-fault schedules

func planKeys(m *baseMeta) []fileKey {
	var ks []fileKey
	for _, i := range m.Plan {
		f := m.Files[i]
		ks = append(ks, fileKey{f.Level, ltx.TXID(f.Min), ltx.TXID(f.Max)})
	}
	return ks
}

func runFaults(res *vf.Result, lb *loadedBase, it *item, dir string) {
	m := lb.meta
	keys := planKeys(m)
	type outc struct {
		s       sched
		outcome string
		err     error
		sub     *vf.Result
		p       *faultProxy
		wall    time.Duration
	}
	outs := make([]outc, len(it.Scheds))
	var wg sync.WaitGroup
	for i, s := range it.Scheds {
		wg.Add(1)
		go func(i int, s sched) {
			defer wg.Done()
			sub := &vf.Result{}
			var targets []fileKey
			if s.Target < 0 {
				targets = keys
			} else {
				targets = []fileKey{keys[s.Target%len(keys)]}
			}
			p := newFaultProxy(file.NewReplicaClient(m.repDir()), s, targets)
			out := filepath.Join(dir, fmt.Sprintf("out-%d", i))
			opt := pinned(lb)
			opt.OutputPath = out
			r := litestream.NewReplicaWithClient(nil, p)
			t0 := time.Now()
			err := r.Restore(context.Background(), opt)
			what := fmt.Sprintf("base %s: %s", m.Spec.key(), s)
			o := judge(sub, what, "read-fault-"+s.Kind, err, out, lb.ref)
			outs[i] = outc{s, o, err, sub, p, time.Since(t0)}
		}(i, s)
	}
	wg.Wait()
	for _, o := range outs {
		res.Evals += o.sub.Evals
		res.Violations = append(res.Violations, o.sub.Violations...)
		for k, n := range o.sub.Counters {
			res.Count(k, n)
		}
		res.Logf("%s -> %s (err=%v) opens=%d faults-injected=%d resumed-at-right-offset=%d resumed-elsewhere=%d wall=%v", o.s, o.outcome, o.err, o.p.opens, o.p.faults, o.p.reopenOK, o.p.reopenBad, o.wall.Round(time.Millisecond))
		budget := "within-retry-budget"
		if o.s.Repeat > 3 {
			budget = "beyond-retry-budget"
		}
		res.Count(fmt.Sprintf("fault:%s:%s:%s", o.s.Kind, budget, o.outcome), 1)
		res.Count(fmt.Sprintf("fault:repeat%d:%s", o.s.Repeat, o.outcome), 1)
		res.Count("fault:injected", o.p.faults)
		res.Count("obs:fault:resumed-at-right-offset", o.p.reopenOK)
		if o.p.reopenBad > 0 {
			res.Count("obs:fault:resumed-at-other-offset", o.p.reopenBad)
		}
		if o.p.faults == 0 {
			res.Count("fault:schedule-never-triggered", 1)
		}
		if o.err != nil {
			res.Count("restore-error:"+errClass(o.err), 1)
		}
	}
}

// ---------------------------------------------------------------------------
// (c) integrity-check removal

// btreePages lists the pages of a database image that carry a b-tree page
// type byte (2, 5, 10, 13), page 1 included (type byte at offset 100).
func btreePages(img []byte, ps int) []int {
	var out []int
	for pg := 1; pg*ps <= len(img); pg++ {
		off := (pg - 1) * ps
		if pg == 1 {
			off += 100
		}
		switch img[off] {
		case 2, 5, 10, 13:
			// a real b-tree page has a plausible cell count and content start
			n := int(binary.BigEndian.Uint16(img[off+3:]))
			if n >= 1 && n < ps/4 {
				out = append(out, pg)
			}
		}
	}
	return out
}

func mutatePage(pg int, page []byte, mut string) ([]byte, error) {
	p := append([]byte{}, page...)
	h := 0
	if pg == 1 {
		h = 100
	}
	switch mut {
	case "type":
		p[h] = 0x07
	case "ncell":
		binary.BigEndian.PutUint16(p[h+3:], 0xFFF0)
	case "cellptr":
		hdr := 8
		if p[h] == 2 || p[h] == 5 {
			hdr = 12
		}
		binary.BigEndian.PutUint16(p[h+hdr:], uint16(len(p)-1))
	case "swap":
		hdr := 8
		if p[h] == 2 || p[h] == 5 {
			hdr = 12
		}
		n := int(binary.BigEndian.Uint16(p[h+3:]))
		if n < 2 {
			// single cell: point it at the page header instead
			binary.BigEndian.PutUint16(p[h+hdr:], uint16(h+1))
		} else {
			a := append([]byte{}, p[h+hdr:h+hdr+2]...)
			copy(p[h+hdr:], p[h+hdr+2*(n-1):h+hdr+2*n])
			copy(p[h+hdr+2*(n-1):], a)
		}
	case "magic":
		if pg != 1 {
			return nil, fmt.Errorf("magic mutation needs page 1")
		}
		for i := 0; i < 16; i++ {
			p[i] = 0
		}
	default:
		return nil, fmt.Errorf("unknown mutation %s", mut)
	}
	return p, nil
}

// reencode writes lf with one page replaced through ltx.Encoder, so that the
// page-level and file-level checksums of the result are valid.
func reencode(lf *oracle.LTXFile, pgno uint32, newPage []byte) ([]byte, error) {
	var buf bytes.Buffer
	enc, err := ltx.NewEncoder(&buf)
	if err != nil {
		return nil, err
	}
	if err := enc.EncodeHeader(lf.Hdr); err != nil {
		return nil, err
	}
	for _, pg := range lf.Order {
		d := lf.Pages[pg]
		if pg == pgno {
			d = newPage
		}
		if err := enc.EncodePage(ltx.PageHeader{Pgno: pg}, d); err != nil {
			return nil, err
		}
	}
	enc.SetPostApplyChecksum(lf.Trailer.PostApplyChecksum)
	if err := enc.Close(); err != nil {
		return nil, err
	}
	return buf.Bytes(), nil
}

// sqliteVerdict runs the pragma on a private copy with the harness's own
// connection (independent of litestream's checkIntegrity) and says whether
// SQLite accepts the image.
func sqliteVerdict(img []byte, dir, pragma string) (ok bool, detail string) {
	sub, err := os.MkdirTemp(dir, "verdict")
	if err != nil {
		return false, err.Error()
	}
	defer os.RemoveAll(sub)
	p := filepath.Join(sub, "db")
	if err := os.WriteFile(p, img, 0o644); err != nil {
		return false, err.Error()
	}
	db, err := sql.Open("sqlite", "file:"+p)
	if err != nil {
		return false, err.Error()
	}
	defer db.Close()
	db.SetMaxOpenConns(1)
	var s string
	if err := db.QueryRow("PRAGMA " + pragma).Scan(&s); err != nil {
		return false, "error: " + err.Error()
	}
	return s == "ok", s
}

func runIntegrity(res *vf.Result, lb *loadedBase, it *item, dir string) {
	m := lb.meta
	ps := m.PageSize
	cands := btreePages(lb.ref, ps)
	if len(cands) == 0 {
		res.HarnessErr = "no b-tree page found in the reference image"
		return
	}
	pg := cands[it.Integ.Page%len(cands)]
	if it.Integ.Mut == "magic" {
		pg = 1
	}
	// which plan file provides the final version of the page?
	provider := -1
	var plf *oracle.LTXFile
	for _, fi := range m.Plan {
		lf, err := oracle.DecodeLTX(filepath.Join(m.repDir(), m.Files[fi].Rel))
		if err != nil {
			res.HarnessErr = "decode pristine plan file: " + err.Error()
			return
		}
		if _, ok := lf.Pages[uint32(pg)]; ok {
			provider, plf = fi, lf
		}
	}
	if provider < 0 {
		res.HarnessErr = fmt.Sprintf("page %d not found in any plan file", pg)
		return
	}
	refPage := lb.ref[(pg-1)*ps : pg*ps]
	if !bytes.Equal(plf.Pages[uint32(pg)], refPage) {
		res.HarnessErr = fmt.Sprintf("page %d of %s is not the version in the reference image", pg, m.Files[provider].name())
		return
	}
	np, err := mutatePage(pg, refPage, it.Integ.Mut)
	if err != nil {
		res.HarnessErr = err.Error()
		return
	}
	enc, err := reencode(plf, uint32(pg), np)
	if err != nil {
		res.HarnessErr = "re-encode: " + err.Error()
		return
	}
	if _, err := oracle.DecodeLTXReader(bytes.NewReader(enc)); err != nil {
		res.HarnessErr = "re-encoded file does not verify: " + err.Error()
		return
	}
	rep := filepath.Join(dir, "rep")
	if err := linkTree(m.repDir(), rep); err != nil {
		res.HarnessErr = err.Error()
		return
	}
	f := m.Files[provider]
	if err := replaceFile(filepath.Join(rep, f.Rel), enc, f.MTime); err != nil {
		res.HarnessErr = err.Error()
		return
	}
	ctx := context.Background()
	what := fmt.Sprintf("base %s: page %d (final version in %s) mutated (%s), file re-encoded with valid checksums", m.Spec.key(), pg, f.name(), it.Integ.Mut)

	// 1. what the replica now says the database is (no integrity check)
	out0 := filepath.Join(dir, "out0")
	opt := pinned(lb)
	opt.OutputPath = out0
	if err := litestream.NewReplicaWithClient(nil, file.NewReplicaClient(rep)).Restore(ctx, opt); err != nil {
		res.HarnessErr = "restore of checksum-valid mutated replica without integrity check failed: " + err.Error()
		return
	}
	img, err := os.ReadFile(out0)
	if err != nil {
		res.HarnessErr = err.Error()
		return
	}
	want := append([]byte{}, lb.ref...)
	copy(want[(pg-1)*ps:], np)
	if !bytes.Equal(img, want) {
		res.HarnessErr = "mutated replica did not restore to reference+mutated page (harness expectation)"
		return
	}
	// 2. independent verdict
	pragma := "integrity_check"
	mode := litestream.IntegrityCheckFull
	if it.Integ.Mode == "quick" {
		pragma, mode = "quick_check", litestream.IntegrityCheckQuick
	}
	okIndep, detail := sqliteVerdict(img, dir, pragma)
	if len(detail) > 120 {
		detail = detail[:120]
	}
	// 3. Restore with the integrity check
	out := filepath.Join(dir, "out")
	opt = pinned(lb)
	opt.OutputPath = out
	opt.IntegrityCheck = mode
	rerr := litestream.NewReplicaWithClient(nil, file.NewReplicaClient(rep)).Restore(ctx, opt)
	res.Evals++
	_, statErr := os.Lstat(out)
	exists := statErr == nil
	outcome := ""
	switch {
	case rerr != nil && exists:
		outcome = "error-output-left"
		res.Violate("failed-integrity-check-left-output", "%s: Restore(%s) returned %v but the output file is still there (independent %s says: %s)", what, it.Integ.Mode, rerr, pragma, detail)
	case rerr != nil:
		outcome = "error-output-removed"
	case !exists:
		outcome = "success-no-output"
		res.Violate("success-without-output:integrity", "%s: Restore(%s) returned nil but there is no output", what, it.Integ.Mode)
	default:
		got, _ := os.ReadFile(out)
		switch {
		case !bytes.Equal(got, img):
			outcome = "success-different"
			res.Violate("success-with-different-content:integrity", "%s: Restore(%s) returned nil with content that differs from the same restore without the check: %s", what, it.Integ.Mode, firstDiff(got, img))
		case !okIndep:
			outcome = "success-check-missed"
			res.Violate("integrity-check-passed-a-damaged-database", "%s: Restore(%s) returned nil and kept the output although PRAGMA %s on the same bytes says: %s", what, it.Integ.Mode, pragma, detail)
		default:
			outcome = "success-sqlite-accepts-mutation"
		}
	}
	for _, suf := range []string{"-wal", "-shm"} {
		if _, e := os.Lstat(out + suf); e == nil {
			res.Count("obs:integrity:"+suf[1:]+"-left-behind", 1)
		}
	}
	if !okIndep {
		res.Nontrivial = true
		res.Count("integrity:independent-check-rejects", 1)
	} else {
		res.Count("integrity:independent-check-accepts", 1)
	}
	res.Count(fmt.Sprintf("integrity:%s:%s:%s", it.Integ.Mode, it.Integ.Mut, outcome), 1)
	res.Logf("%s -> Restore(%s) err=%v output-exists=%v; independent %s: %s", what, it.Integ.Mode, rerr, exists, pragma, detail)
}

// ---------------------------------------------------------------------------
// (d) output path pre-exists

type pathState struct {
	kind    string // file | dir | symlink | absent
	content []byte
	link    string
	entries []string
	mode    os.FileMode
}

func snapPath(p string) pathState {
	fi, err := os.Lstat(p)
	if err != nil {
		return pathState{kind: "absent"}
	}
	st := pathState{mode: fi.Mode()}
	switch {
	case fi.Mode()&os.ModeSymlink != 0:
		st.kind = "symlink"
		st.link, _ = os.Readlink(p)
	case fi.IsDir():
		st.kind = "dir"
		ents, _ := os.ReadDir(p)
		for _, e := range ents {
			b, _ := os.ReadFile(filepath.Join(p, e.Name()))
			st.entries = append(st.entries, fmt.Sprintf("%s:%x", e.Name(), b))
		}
		sort.Strings(st.entries)
	default:
		st.kind = "file"
		st.content, _ = os.ReadFile(p)
	}
	return st
}

func (a pathState) equal(b pathState) bool {
	return a.kind == b.kind && a.mode == b.mode && bytes.Equal(a.content, b.content) && a.link == b.link && strings.Join(a.entries, "|") == strings.Join(b.entries, "|")
}

func (a pathState) String() string {
	switch a.kind {
	case "file":
		return fmt.Sprintf("regular file, %d bytes, mode %v", len(a.content), a.mode)
	case "dir":
		return fmt.Sprintf("directory with %d entries", len(a.entries))
	case "symlink":
		return "symlink -> " + a.link
	}
	return a.kind
}

func runPreexist(res *vf.Result, lb *loadedBase, it *item, dir string) {
	m := lb.meta
	rep := m.repDir()
	if it.Pre.Corrupt {
		rep = filepath.Join(dir, "rep")
		if err := linkTree(m.repDir(), rep); err != nil {
			res.HarnessErr = err.Error()
			return
		}
		f := m.Files[m.Plan[len(m.Plan)-1]]
		orig, err := lb.fileBytes(m.Plan[len(m.Plan)-1])
		if err == nil {
			err = replaceFile(filepath.Join(rep, f.Rel), orig[:len(orig)/2], f.MTime)
		}
		if err != nil {
			res.HarnessErr = err.Error()
			return
		}
	}
	out := filepath.Join(dir, "out")
	planted := []byte("precious user data that restore must not touch\n" + strings.Repeat("x", 5000))
	var aux pathState
	auxPath := filepath.Join(dir, "elsewhere")
	var err error
	switch it.Pre.Variant {
	case "file":
		err = os.WriteFile(out, planted, 0o600)
	case "empty":
		err = os.WriteFile(out, nil, 0o644)
	case "dir":
		if err = os.Mkdir(out, 0o755); err == nil {
			err = os.WriteFile(filepath.Join(out, "inside"), planted, 0o644)
		}
	case "symlink":
		if err = os.WriteFile(auxPath, planted, 0o644); err == nil {
			err = os.Symlink(auxPath, out)
		}
	case "dangling":
		err = os.Symlink(auxPath, out)
	default:
		err = fmt.Errorf("unknown variant %s", it.Pre.Variant)
	}
	if err != nil {
		res.HarnessErr = "plant: " + err.Error()
		return
	}
	before := snapPath(out)
	aux = snapPath(auxPath)
	opt := litestream.NewRestoreOptions()
	if it.Pre.Pin {
		opt.TXID = ltx.TXID(m.MaxTXID)
	}
	switch it.Pre.Integrity {
	case "quick":
		opt.IntegrityCheck = litestream.IntegrityCheckQuick
	case "full":
		opt.IntegrityCheck = litestream.IntegrityCheckFull
	}
	opt.OutputPath = out
	rerr := litestream.NewReplicaWithClient(nil, file.NewReplicaClient(rep)).Restore(context.Background(), opt)
	after := snapPath(out)
	auxAfter := snapPath(auxPath)
	what := it.describe(m)
	res.Logf("%s: before=%s after=%s err=%v", what, before, after, rerr)
	if _, e := os.Lstat(out + ".tmp"); e == nil {
		res.Count("obs:tmp-file-left-behind", 1)
	}
	if it.Pre.Variant == "dangling" {
		// os.Stat follows the link and reports "not exist"; whether a
		// dangling link counts as an existing output path is not settled by
		// the statement, so this variant is recorded, not judged.
		switch {
		case rerr == nil && after.kind == "file":
			res.Count("obs:preexist:dangling-symlink-replaced-by-restored-file", 1)
		case rerr == nil:
			res.Count("obs:preexist:dangling-symlink-followed", 1)
		default:
			res.Count("obs:preexist:dangling-symlink-refused", 1)
		}
		return
	}
	res.Evals++
	res.Nontrivial = true
	changed := !before.equal(after) || !aux.equal(auxAfter)
	switch {
	case changed:
		res.Violate("existing-output-overwritten", "%s: the path held [%s] before Restore and [%s] afterwards (Restore returned %v)", what, before, after, rerr)
		res.Count("preexist:"+it.Pre.Variant+":overwritten", 1)
	case rerr == nil:
		res.Violate("success-with-different-content:preexisting-output", "%s: Restore returned nil although the output path already existed and was left as it was (it does not hold the restored database)", what)
		res.Count("preexist:"+it.Pre.Variant+":success-untouched", 1)
	default:
		res.Count("preexist:"+it.Pre.Variant+":refused-untouched", 1)
		res.Count("restore-error:"+errClass(rerr), 1)
	}
}

// ---------------------------------------------------------------------------
// (e) stale temp file next to the output path (left by a restore that was
// killed): the outcome must still be an error or exactly the reference bytes.

func runStaleTmp(res *vf.Result, lb *loadedBase, it *item, dir string) {
	m := lb.meta
	out := filepath.Join(dir, "out")
	tmp := out + ".tmp"
	rng := rand.New(rand.NewSource(it.Tmp.Seed))
	fill := func(n int) []byte {
		b := make([]byte, n)
		rng.Read(b)
		return b
	}
	var err error
	switch it.Tmp.Variant {
	case "larger":
		err = os.WriteFile(tmp, fill(len(lb.ref)+m.PageSize*(1+rng.Intn(40))+rng.Intn(m.PageSize)), 0o644)
	case "smaller":
		err = os.WriteFile(tmp, fill(1+rng.Intn(len(lb.ref)-1)), 0o644)
	case "same":
		err = os.WriteFile(tmp, fill(len(lb.ref)), 0o644)
	case "readonly":
		err = os.WriteFile(tmp, fill(len(lb.ref)+m.PageSize*3), 0o444)
	case "dir":
		if err = os.Mkdir(tmp, 0o755); err == nil {
			err = os.WriteFile(filepath.Join(tmp, "inside"), fill(100), 0o644)
		}
	default:
		err = fmt.Errorf("unknown variant %s", it.Tmp.Variant)
	}
	if err != nil {
		res.HarnessErr = "plant stale temp file: " + err.Error()
		return
	}
	opt := litestream.NewRestoreOptions()
	if it.Tmp.Pin {
		opt.TXID = ltx.TXID(m.MaxTXID)
	}
	switch it.Tmp.Integrity {
	case "quick":
		opt.IntegrityCheck = litestream.IntegrityCheckQuick
	case "full":
		opt.IntegrityCheck = litestream.IntegrityCheckFull
	}
	opt.OutputPath = out
	rerr := litestream.NewReplicaWithClient(nil, file.NewReplicaClient(m.repDir())).Restore(context.Background(), opt)
	what := it.describe(m)
	outcome := judge(res, what, "stale-tmp-"+it.Tmp.Variant, rerr, out, lb.ref)
	res.Nontrivial = true
	res.Logf("%s -> %s (err=%v)", what, outcome, rerr)
	res.Count(fmt.Sprintf("staletmp:%s:%s", it.Tmp.Variant, outcome), 1)
	if rerr != nil {
		res.Count("restore-error:"+errClass(rerr), 1)
	}
}
