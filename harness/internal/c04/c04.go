// Package c04: when continuity with the WAL cannot be proven, litestream
// re-snapshots (DESIGN §4 C04).
package c04

import (
	"bytes"
	"context"
	"crypto/sha256"
	"encoding/json"
	"errors"
	"fmt"
	"math/rand"
	"os"
	"path/filepath"
	"strings"
	"time"

	"github.com/benbjohnson/litestream"

	"verif/harness/internal/hist"
	"verif/harness/internal/oracle"
	"verif/harness/internal/sq"
	"verif/harness/internal/vf"
)

type spec struct {
	Kind   string      `json:"kind"` // gen | demo-F1 | demo-F2 | demo-F3
	Seed   int64       `json:"seed"`
	Cfg    hist.Config `json:"cfg"`
	Daemon bool        `json:"daemon"`
	Dist   []string    `json:"dist"` // disturbance classes to apply, in order
}

// disturbance classes (the cross product named by the property)
var distKinds = []string{
	"close-open-same-object", "restart-new-object", "ipc-stop-start",
	"meta-deleted-offline", "reset-offline", "reset-at-runtime", "auto-recover-missing-l0",
	"app-closes-last-connection", "db-replaced-older", "db-replaced-newer",
	"data-dir-rolled-back", "db-wal-rolled-back",
}

// offline activity shapes
var offKinds = []string{"none", "writes", "writes+PASSIVE", "writes+FULL", "writes+RESTART", "writes+TRUNCATE"}
var afterKinds = []string{"none", "shorter", "equal", "longer"}

func init() {
	vf.Register(&vf.Check{
		ID:    "C04",
		Level: "exploration",
		Rule: "generated histories = prefix (normal ops, >=1 ack) + 1..2 disturbances + suffix ending in an ack; disturbances enumerate {Close+Open same object, new DB object, IPC /stop+/start, meta dir deleted offline, reset offline, ResetLocalState at run time, auto-recover after a missing pending L0, application closes its last connection while litestream is down, database file replaced by an older/newer copy} x offline application activity {none, writes, writes + checkpoint PASSIVE|FULL|RESTART|TRUNCATE, then writes making the new WAL generation shorter/equal/longer than the old cursor}; writes before and after the offline checkpoint touch different tables. " +
			"Oracles: first ack after the disturbance restores byte-for-byte to the source (O-SRC mask); a successful Replica.Sync/SyncAndWait leaves replica max TXID == DB.Pos().TXID and the replica advanced if the source changed; level-0 files at or below the replica's previous max TXID are never replaced by different content. " +
			"distinct = hash(config, disturbance classes, offline shapes); non-trivial = offline activity committed >=1 transaction or local state was lost, and the post-disturbance ack was compared",
		Assumptions: []string{"file replica only", "the application is the only writer while litestream is down"},
		Cases:       cases,
		RunCase:     runCase,
		MinEvals:    60,
		CaseTimeout: 10 * time.Minute,
	})
}

func cases(run *vf.Run) ([]json.RawMessage, error) {
	n := 80
	if run.Tier == "thorough" {
		n = 1000
	}
	var out []json.RawMessage
	base := hist.Config{PageSize: 4096, MinCheckpointPageN: 1000, TruncatePageN: 0, CheckpointInterval: 0, MaxSyncWALFrames: 0}
	out = append(out, vf.Spec(spec{Kind: "demo-F1", Seed: 101, Cfg: base}))
	out = append(out, vf.Spec(spec{Kind: "demo-F2", Seed: 102, Cfg: base}))
	out = append(out, vf.Spec(spec{Kind: "demo-F3", Seed: 103, Cfg: base}))
	out = append(out, vf.Spec(spec{Kind: "demo-F19", Seed: 119, Cfg: base}))
	out = append(out, vf.Spec(spec{Kind: "demo-F36", Seed: 136, Cfg: base}))
	out = append(out, vf.Spec(spec{Kind: "demo-F37", Seed: 139, Cfg: base}))
	for i, ps := range []int{4096, 1024, 16384} {
		c := base
		c.PageSize = ps
		out = append(out, vf.Spec(spec{Kind: "aligned-db-wal-rollback", Seed: 137 + int64(i), Cfg: c}))
	}
	// directed shape: k whole WAL generations written and checkpointed unseen while litestream
	// is down, each shorter than the one before (only the salts tell them apart)
	nShape := 6
	if run.Tier == "thorough" {
		nShape = 60
	}
	for i := 0; i < nShape; i++ {
		rng := rand.New(rand.NewSource(vf.SubSeed(run.Seed, "C04-shape", i)))
		cfg := hist.RandomConfig(rng)
		cfg.PageSize = []int{4096, 1024, 8192}[i%3]
		cfg.MinCheckpointPageN = 1000
		cfg.TruncatePageN = 0
		cfg.MaxSyncLTXFiles = 0
		d := []string{"restart-new-object", "close-open-same-object", "ipc-stop-start"}[i%3]
		out = append(out, vf.Spec(spec{Kind: "shape-shrinking-generations", Seed: vf.SubSeed(run.Seed, "C04-shape-case", i), Cfg: cfg, Daemon: d == "ipc-stop-start", Dist: []string{d}}))
	}
	for i := 0; i < n; i++ {
		rng := rand.New(rand.NewSource(vf.SubSeed(run.Seed, "C04", i)))
		cfg := hist.RandomConfig(rng)
		cfg.PageSize = []int{4096, 512, 1024, 8192, 65536, 2048, 16384, 32768}[i%8]
		if rng.Intn(2) == 0 {
			cfg.MinCheckpointPageN = 1000 // keep litestream's own checkpoints out of the way half the time
		}
		cfg.MaxSyncLTXFiles = 0
		s := spec{Kind: "gen", Seed: vf.SubSeed(run.Seed, "C04-case", i), Cfg: cfg, Daemon: i%5 == 4}
		// every class is covered: class i%len first, an optional random second one
		s.Dist = append(s.Dist, distKinds[i%len(distKinds)])
		if rng.Intn(3) == 0 {
			s.Dist = append(s.Dist, distKinds[rng.Intn(len(distKinds))])
		}
		out = append(out, vf.Spec(s))
	}
	return out, nil
}

type world struct {
	*hist.Env
	// identicalAtCursor: after the database and its WAL were rolled back and the WAL regrew,
	// the frame in front of litestream's old cursor carries the same page number and the same
	// page image as the frame litestream had copied there, although earlier frames differ
	// (witness predicate of the listed finding F36; computed from the two WAL files)
	identicalAtCursor bool
	rollbackMode      string // "" (PRNG) | aligned | identical
	s                 spec
	dmn               *hist.Daemon
	rng               *rand.Rand
	res               *vf.Result
	l0Hash            map[int][32]byte // content hash of every level-0 file seen on the replica
	shapes            []string
	lostLoc           bool
	offCommits        int
	// snapAhead: at a moment local LTX state was lost, the replica held a file at
	// level>=1 whose MaxTXID exceeded its highest level-0 TXID (known finding F19)
	snapAhead bool
	// forceShrinking: offline rounds have no writes before their checkpoint and each
	// new WAL generation is shorter than the previous one
	forceShrinking bool
}

func (w *world) scanL0() (max int, v string) {
	for _, f := range oracle.ListLevel(w.RepPath, 0) {
		b, err := os.ReadFile(f.Path)
		if err != nil {
			continue
		}
		h := sha256.Sum256(b)
		if old, ok := w.l0Hash[f.Max]; ok && old != h {
			return max, fmt.Sprintf("level-0 file for TXID %d on the replica was replaced by different content (old chain grafted over)", f.Max)
		}
		w.l0Hash[f.Max] = h
		if f.Max > max {
			max = f.Max
		}
	}
	return max, ""
}

func (w *world) ls() *litestream.DB { return w.LS }

// noteLocalStateLost evaluates the F19 predicate on the replica listing.
func (w *world) noteLocalStateLost() {
	w.lostLoc = true
	l0 := 0
	for _, f := range oracle.ListLevel(w.RepPath, 0) {
		if f.Max > l0 {
			l0 = f.Max
		}
	}
	for _, f := range oracle.ListAll(w.RepPath) {
		if f.Level >= 1 && f.Max > l0 {
			w.snapAhead = true
			w.Logf("replica holds %s beyond its highest level-0 TXID %d while local state is lost", f, l0)
			w.res.Count("local_state_lost_with_snapshot_ahead_of_l0", 1)
		}
	}
}

func (w *world) suffix() string {
	if w.snapAhead {
		return ":snapshot-ahead-of-l0-at-reset"
	}
	if w.identicalAtCursor {
		return ":identical-page-image-at-cursor-after-db-wal-rollback"
	}
	return ""
}

// ackCheck: acknowledged sync + oracles (a),(b),(c).
func (w *world) ackCheck(tag string, mustAdvanceFrom int) bool {
	ctx := context.Background()
	err := w.LS.SyncAndWait(ctx)
	w.Logf("%s: SyncAndWait err=%v", tag, err)
	if err != nil {
		// one retry: the first sync after some disturbances legitimately reports
		// the discontinuity and succeeds on the next call
		err = w.LS.SyncAndWait(ctx)
		w.Logf("%s: SyncAndWait (2nd) err=%v", tag, err)
	}
	if err != nil {
		err = w.LS.SyncAndWait(ctx)
		w.Logf("%s: SyncAndWait (3rd) err=%v", tag, err)
	}
	if err != nil {
		w.res.Count("ack_failed_after_disturbance", 1)
		w.res.Evals++
		w.res.Violate("no-ack-after-disturbance"+w.suffix(), "%s: SyncAndWait keeps failing after the disturbance (3 attempts): %v -- replication does not resume without manual intervention [%s]", tag, err, w.s.Cfg)
		return true
	}
	pos, perr := w.LS.Pos()
	if perr != nil {
		w.res.HarnessErr = perr.Error()
		return true
	}
	max, v := w.scanL0()
	w.res.Evals++
	if v != "" {
		w.res.Violate("l0-replaced"+w.suffix(), "%s: %s", tag, v)
		return true
	}
	rmax := oracle.MaxTXID(w.RepPath)
	if rmax < int(pos.TXID) {
		w.res.Violate("success-but-replica-behind"+w.suffix(), "%s: SyncAndWait returned nil but the replica's highest TXID is %d while the database position is %d", tag, rmax, pos.TXID)
		return true
	}
	_ = max
	if v, herr := w.AckCompare(tag); herr != nil {
		w.res.HarnessErr = herr.Error()
		return true
	} else if v != "" {
		key := "ack-restore-differs-after-disturbance" + w.suffix()
		w.res.Violate(key, "%s [%s] shapes=%v", v, w.s.Cfg, w.shapes)
		return true
	}
	return false
}

// offlineActivity runs application activity while litestream is not attached:
// 1..3 rounds of (writes, checkpoint in some mode, writes that make the new WAL
// generation shorter than / equal to / longer than a reference length). With
// several rounds the WAL is restarted more than once while litestream is down,
// each generation sized relative to the previous one.
func (w *world) offlineActivity() error {
	off := offKinds[w.rng.Intn(len(offKinds))]
	if w.forceShrinking {
		off = []string{"writes+FULL", "writes+RESTART", "writes+TRUNCATE"}[w.rng.Intn(3)]
	}
	if off == "none" {
		w.shapes = append(w.shapes, "off:none")
		return nil
	}
	rounds := 1
	if strings.HasPrefix(off, "writes+") {
		rounds = []int{1, 1, 2, 2, 3}[w.rng.Intn(5)]
	}
	if w.forceShrinking {
		rounds = 2 + w.rng.Intn(2)
	}
	ref, _ := oracle.LiveWALFrames(w.DBPath + "-wal") // litestream's old cursor, then the previous generation's length
	tables := []string{"t0", "t2", "t1"}
	for r := 0; r < rounds; r++ {
		after := afterKinds[w.rng.Intn(len(afterKinds))]
		mode := ""
		if m, ok := strings.CutPrefix(off, "writes+"); ok {
			mode = m
			if r > 0 {
				mode = hist.CheckpointModes[1+w.rng.Intn(3)] // FULL/RESTART/TRUNCATE
			}
		}
		w.shapes = append(w.shapes, fmt.Sprintf("off:writes+%s/after:%s", mode, after))
		// writes before the checkpoint (none in some rounds: then the generation
		// litestream last saw is not extended and only whole unseen generations
		// separate its cursor from the live WAL)
		n := w.rng.Intn(4)
		if mode == "" && n == 0 {
			n = 1
		}
		if w.forceShrinking {
			n = 0
		}
		for i := 0; i < n; i++ {
			ok, err := w.writeTable(tables[r%3])
			if err != nil {
				return err
			}
			if ok {
				w.offCommits++
			}
		}
		if mode == "" {
			break
		}
		w.AppCheckpoint(mode)
		// writes after the checkpoint go to another table so a later page image cannot hide a lost update
		if w.forceShrinking {
			after = "shorter"
		}
		target := 0
		switch after {
		case "shorter":
			target = ref / 2
		case "equal":
			target = ref
		case "longer":
			target = ref + 3 + w.rng.Intn(5)
		}
		for i := 0; i < 40; i++ {
			fr, _ := oracle.LiveWALFrames(w.DBPath + "-wal")
			if after == "none" || (i > 0 && fr >= target) {
				break
			}
			ok, err := w.writeTable(tables[(r+1)%3])
			if err != nil {
				return err
			}
			if ok {
				w.offCommits++
			}
		}
		ref, _ = oracle.LiveWALFrames(w.DBPath + "-wal")
	}
	return nil
}

func (w *world) writeTable(tbl string) (bool, error) {
	tx, err := w.W.Begin()
	if err != nil {
		return false, nil
	}
	b := make([]byte, 40+w.rng.Intn(400))
	w.rng.Read(b)
	var ex error
	if w.rng.Intn(3) == 0 {
		_, ex = tx.Exec(`UPDATE `+tbl+` SET v=? WHERE id IN (SELECT id FROM `+tbl+` ORDER BY id LIMIT 2)`, b)
	} else {
		_, ex = tx.Exec(`INSERT INTO `+tbl+`(v) VALUES(?)`, b)
	}
	if ex == nil {
		_, ex = tx.Exec(`UPDATE ledger SET k=?`, w.K+1)
	}
	if ex != nil {
		_ = tx.Rollback()
		return false, nil
	}
	if err := tx.Commit(); err != nil {
		return false, nil
	}
	w.K++
	w.Logf("offline app write %s -> k=%d", tbl, w.K)
	return true, w.Record()
}

// updateFixed is a transaction of constant shape: the first row of tbl gets a new value of
// the same length, the ledger is bumped. Every such transaction writes the same pages, so
// two timelines of the same WAL generation put the same page numbers into the same frames.
func (w *world) updateFixed(tbl string) (bool, error) {
	tx, err := w.W.Begin()
	if err != nil {
		return false, nil
	}
	b := make([]byte, 64)
	w.rng.Read(b)
	if w.rollbackMode == "identical" {
		// the value is a function of the ledger counter: an application that redoes the same
		// work after the rollback writes the same bytes again
		for i := range b {
			b[i] = byte(w.K + 1)
		}
	}
	_, ex := tx.Exec(`UPDATE `+tbl+` SET v=? WHERE id=(SELECT min(id) FROM `+tbl+`)`, b)
	if ex == nil {
		_, ex = tx.Exec(`UPDATE ledger SET k=?`, w.K+1)
	}
	if ex != nil {
		_ = tx.Rollback()
		return false, nil
	}
	if err := tx.Commit(); err != nil {
		return false, nil
	}
	w.K++
	w.Logf("offline app fixed-shape update %s -> k=%d", tbl, w.K)
	return true, w.Record()
}

func (w *world) closeLS() error {
	ctx, cancel := context.WithTimeout(context.Background(), 60*time.Second)
	defer cancel()
	if w.dmn != nil {
		return w.dmn.Store.DisableDB(ctx, w.DBPath)
	}
	return w.LS.Close(ctx)
}

func (w *world) restartNewObject() error {
	if w.dmn != nil {
		ctx, cancel := context.WithTimeout(context.Background(), 60*time.Second)
		defer cancel()
		_ = w.dmn.Close(ctx)
		d, err := w.StartDaemon(nil)
		w.dmn = d
		return err
	}
	return w.StartLS()
}

func (w *world) disturb(kind string) error {
	ctx := context.Background()
	w.Logf("DISTURBANCE %s", kind)
	w.res.Count("dist:"+kind, 1)
	w.shapes = append(w.shapes, kind)
	switch kind {
	case "close-open-same-object":
		if err := w.closeLS(); err != nil {
			return fmt.Errorf("close: %w", err)
		}
		if err := w.offlineActivity(); err != nil {
			return err
		}
		if w.dmn != nil {
			return w.dmn.Store.EnableDB(ctx, w.DBPath)
		}
		return w.LS.Open()
	case "ipc-stop-start":
		if w.dmn == nil {
			return w.disturb("close-open-same-object")
		}
		code, body, err := w.dmn.Post("/stop", litestream.StopRequest{Path: w.DBPath, Timeout: 30})
		w.Logf("POST /stop -> %d %s err=%v", code, strings.TrimSpace(string(body)), err)
		if err != nil || code != 200 {
			return fmt.Errorf("stop: %v %d", err, code)
		}
		if err := w.offlineActivity(); err != nil {
			return err
		}
		code, body, err = w.dmn.Post("/start", litestream.StartRequest{Path: w.DBPath, Timeout: 30})
		w.Logf("POST /start -> %d %s err=%v", code, strings.TrimSpace(string(body)), err)
		if err != nil || code != 200 {
			return fmt.Errorf("start: %v %d %s", err, code, body)
		}
		return nil
	case "restart-new-object":
		if err := w.closeLS(); err != nil {
			return fmt.Errorf("close: %w", err)
		}
		if err := w.offlineActivity(); err != nil {
			return err
		}
		return w.restartNewObject()
	case "meta-deleted-offline":
		if err := w.closeLS(); err != nil {
			return fmt.Errorf("close: %w", err)
		}
		w.noteLocalStateLost()
		if err := os.RemoveAll(w.LS.MetaPath()); err != nil {
			return err
		}
		if err := w.offlineActivity(); err != nil {
			return err
		}
		return w.restartNewObject()
	case "reset-offline":
		if err := w.closeLS(); err != nil {
			return fmt.Errorf("close: %w", err)
		}
		w.noteLocalStateLost()
		if err := w.NewLS().ResetLocalState(ctx); err != nil {
			return err
		}
		if err := w.offlineActivity(); err != nil {
			return err
		}
		return w.restartNewObject()
	case "reset-at-runtime":
		if w.rng.Intn(2) == 0 {
			if _, err := w.AppWriteKind("ins-small"); err != nil {
				return err
			}
			_ = w.LS.Sync(ctx) // a local L0 file not yet uploaded is lost by the reset
			if w.rng.Intn(3) == 0 {
				// ... and a snapshot may already advertise that position on the replica
				if _, err := w.LS.Snapshot(ctx); err == nil {
					w.res.Count("snapshot_before_l0_upload", 1)
				}
			}
		}
		w.noteLocalStateLost()
		if err := w.LS.ResetLocalState(ctx); err != nil {
			return err
		}
		if w.rng.Intn(2) == 0 {
			ok, err := w.writeTable("t0")
			if ok {
				w.offCommits++
			}
			return err
		}
		return nil
	case "auto-recover-missing-l0":
		// what Replica.monitor does with AutoRecoverEnabled: a pending local L0
		// file is missing -> Sync returns an auto-recoverable LTXError -> reset.
		if _, err := w.AppWriteKind("ins-small"); err != nil {
			return err
		}
		if err := w.LS.Sync(ctx); err != nil {
			w.Logf("sync before deleting pending L0: %v", err)
			return nil
		}
		pos, err := w.LS.Pos()
		if err != nil {
			return err
		}
		p := w.LS.LTXPath(0, pos.TXID, pos.TXID)
		if err := os.Remove(p); err != nil {
			w.Logf("no pending local L0 to delete: %v", err)
			return nil
		}
		err = w.LS.Replica.Sync(ctx)
		var le *litestream.LTXError
		w.Logf("Replica.Sync with missing local L0 %s err=%v", p, err)
		if err != nil && errors.As(err, &le) && le.IsAutoRecoverable() {
			w.noteLocalStateLost()
			w.res.Count("auto_recover_triggered", 1)
			return w.LS.ResetLocalState(ctx)
		}
		if err != nil {
			// not auto-recoverable: the daemon would keep retrying; nothing more to do here
			w.noteLocalStateLost()
			return w.LS.ResetLocalState(ctx)
		}
		return nil
	case "app-closes-last-connection":
		if err := w.closeLS(); err != nil {
			return fmt.Errorf("close: %w", err)
		}
		if err := w.offlineActivity(); err != nil {
			return err
		}
		w.CloseApp()
		_, statErr := os.Stat(w.DBPath + "-wal")
		w.Logf("application closed its last connection; wal exists afterwards: %v", statErr == nil)
		if err := w.OpenApp(); err != nil {
			return err
		}
		if w.rng.Intn(2) == 0 {
			ok, err := w.writeTable("t2")
			if err != nil {
				return err
			}
			if ok {
				w.offCommits++
			}
		}
		return w.restartNewObject()
	case "db-replaced-older", "db-replaced-newer":
		return w.replaceDB(kind)
	case "data-dir-rolled-back":
		return w.rollbackDataDir()
	case "db-wal-rolled-back":
		return w.rollbackDBWAL()
	}
	return fmt.Errorf("unknown disturbance %s", kind)
}

// replaceDB swaps the database file for another version of itself while
// litestream is down: an older copy taken earlier in the history, or a copy
// that was advanced independently ("newer").
func (w *world) replaceDB(kind string) error {
	if err := w.closeLS(); err != nil {
		return fmt.Errorf("close: %w", err)
	}
	img, err := w.SourceImage()
	if err != nil {
		return err
	}
	older := kind == "db-replaced-older"
	if older {
		// advance the live database a little, then put the earlier image back
		for i := 0; i < 2; i++ {
			if _, err := w.writeTable("t0"); err != nil {
				return err
			}
		}
	}
	w.CloseApp()
	keepWAL := w.rng.Intn(2) == 0 && !older
	if !keepWAL {
		os.Remove(w.DBPath + "-wal")
		os.Remove(w.DBPath + "-shm")
	}
	if err := os.WriteFile(w.DBPath, img, 0o644); err != nil {
		return err
	}
	if !keepWAL {
		os.Remove(w.DBPath + "-wal")
		os.Remove(w.DBPath + "-shm")
	}
	// the ledger of the world follows the file that is now in place
	d, err := sq.DumpDB(w.DBPath, false)
	if err != nil {
		return fmt.Errorf("dump replaced db: %w", err)
	}
	w.K = d.K
	if err := w.OpenApp(); err != nil {
		return err
	}
	var jm string
	_ = w.W.QueryRow(`PRAGMA journal_mode=wal`).Scan(&jm)
	w.Logf("database file replaced by %s image (k=%d, wal kept=%v, journal_mode=%s)", kind, w.K, keepWAL, jm)
	if !older {
		for i := 0; i < 2+w.rng.Intn(3); i++ {
			ok, err := w.writeTable("t2")
			if err != nil {
				return err
			}
			if ok {
				w.offCommits++
			}
		}
	} else if err := w.Record(); err != nil {
		return err
	}
	w.offCommits++ // the replacement itself changes what the source is
	return w.restartNewObject()
}

// rollbackDataDir models a volume / VM snapshot rollback: database, WAL and
// litestream's meta directory are all put back to an earlier consistent copy
// (taken with everything stopped) after replication had moved on.
func (w *world) rollbackDataDir() error {
	ctx := context.Background()
	if err := w.closeLS(); err != nil {
		return fmt.Errorf("close: %w", err)
	}
	w.CloseApp()
	snap := filepath.Join(w.Dir, fmt.Sprintf("voldump-%d", len(w.shapes)))
	if err := os.MkdirAll(snap, 0o755); err != nil {
		return err
	}
	meta := w.LS.MetaPath()
	if err := sq.CopyFile(w.DBPath, filepath.Join(snap, "db")); err != nil {
		return err
	}
	walKept := sq.CopyFile(w.DBPath+"-wal", filepath.Join(snap, "db-wal")) == nil
	if err := copyTree(meta, filepath.Join(snap, "meta")); err != nil {
		return err
	}
	kSnap := w.K
	// replication moves on
	if err := w.OpenApp(); err != nil {
		return err
	}
	if err := w.restartNewObject(); err != nil {
		return err
	}
	for i := 0; i < 2+w.rng.Intn(4); i++ {
		if _, err := w.writeTable("t0"); err != nil {
			return err
		}
		if w.rng.Intn(2) == 0 {
			_ = w.LS.SyncAndWait(ctx)
		}
	}
	if w.ackCheck("before rollback", 0) {
		return nil
	}
	// stop everything and roll the data directory back
	if err := w.closeLS(); err != nil {
		return fmt.Errorf("close: %w", err)
	}
	w.CloseApp()
	os.Remove(w.DBPath + "-wal")
	os.Remove(w.DBPath + "-shm")
	if err := sq.CopyFile(filepath.Join(snap, "db"), w.DBPath); err != nil {
		return err
	}
	if walKept {
		if err := sq.CopyFile(filepath.Join(snap, "db-wal"), w.DBPath+"-wal"); err != nil {
			return err
		}
	}
	if err := os.RemoveAll(meta); err != nil {
		return err
	}
	if err := copyTree(filepath.Join(snap, "meta"), meta); err != nil {
		return err
	}
	w.K = kSnap
	w.Logf("data directory rolled back to the copy taken at k=%d (db, wal=%v, meta dir)", kSnap, walKept)
	if err := w.OpenApp(); err != nil {
		return err
	}
	if err := w.Record(); err != nil {
		return err
	}
	w.offCommits++
	if err := w.restartNewObject(); err != nil {
		return err
	}
	for i := 0; i < 1+w.rng.Intn(3); i++ {
		ok, err := w.writeTable("t2")
		if err != nil {
			return err
		}
		if ok {
			w.offCommits++
		}
	}
	return nil
}

// rollbackDBWAL: the database file and its -wal (same WAL generation, frames not yet
// checkpointed) are put back to an earlier raw copy while litestream's meta directory and
// the replica stay at the later state; the application then writes again, up to or past
// the place in the WAL where litestream's cursor was.
func (w *world) rollbackDBWAL() error {
	ctx := context.Background()
	if err := w.LS.SyncAndWait(ctx); err != nil {
		w.Logf("SyncAndWait before the copy err=%v", err)
	}
	snap := filepath.Join(w.Dir, fmt.Sprintf("dbwal-%d", len(w.shapes)))
	if err := os.MkdirAll(snap, 0o755); err != nil {
		return err
	}
	if err := sq.CopyFile(w.DBPath, filepath.Join(snap, "db")); err != nil {
		return err
	}
	walKept := sq.CopyFile(w.DBPath+"-wal", filepath.Join(snap, "db-wal")) == nil
	kSnap := w.K
	// replication moves on in the same WAL generation
	moved := 1 + w.rng.Intn(4)
	aligned := w.rng.Intn(2) == 0
	if w.rollbackMode != "" {
		aligned = true
	}
	if aligned && moved < 2 {
		moved = 2
	}
	if aligned {
		// make sure the rows the fixed-shape updates touch exist before the copy is taken
		for _, t := range []string{"t0", "t1"} {
			if _, err := w.W.Exec(`INSERT INTO ` + t + `(v) SELECT zeroblob(64) WHERE NOT EXISTS (SELECT 1 FROM ` + t + `)`); err != nil {
				return err
			}
		}
		if err := w.LS.SyncAndWait(ctx); err != nil {
			w.Logf("SyncAndWait err=%v", err)
		}
		_ = os.Remove(filepath.Join(snap, "db"))
		if err := sq.CopyFile(w.DBPath, filepath.Join(snap, "db")); err != nil {
			return err
		}
		walKept = sq.CopyFile(w.DBPath+"-wal", filepath.Join(snap, "db-wal")) == nil
		if err := w.Record(); err != nil {
			return err
		}
		kSnap = w.K
	}
	for i := 0; i < moved; i++ {
		var err error
		if aligned {
			_, err = w.updateFixed("t0")
		} else {
			_, err = w.writeTable("t0")
		}
		if err != nil {
			return err
		}
		if w.rng.Intn(2) == 0 {
			_ = w.LS.SyncAndWait(ctx)
		}
	}
	if w.ackCheck("before db+wal rollback", 0) {
		return nil
	}
	if err := w.closeLS(); err != nil {
		return fmt.Errorf("close: %w", err)
	}
	oldWAL, _ := os.ReadFile(w.DBPath + "-wal") // the timeline litestream has copied completely
	w.CloseApp()
	os.Remove(w.DBPath + "-wal")
	os.Remove(w.DBPath + "-shm")
	if err := sq.CopyFile(filepath.Join(snap, "db"), w.DBPath); err != nil {
		return err
	}
	if walKept {
		if err := sq.CopyFile(filepath.Join(snap, "db-wal"), w.DBPath+"-wal"); err != nil {
			return err
		}
	}
	w.K = kSnap
	w.Logf("database and wal (kept=%v) rolled back to the raw copy taken at k=%d; meta directory and replica stay", walKept, kSnap)
	if err := w.OpenApp(); err != nil {
		return err
	}
	if err := w.Record(); err != nil {
		return err
	}
	w.offCommits++
	if aligned {
		// the new timeline: one fixed-shape update of ANOTHER table first, then the same
		// fixed-shape updates of t0 again (other content): the WAL regrows past litestream's
		// old cursor with the same page numbers in the same frames - only the page images,
		// and the transaction below the cursor, differ
		if ok, err := w.updateFixed("t1"); err != nil {
			return err
		} else if ok {
			w.offCommits++
		}
		if w.rollbackMode == "identical" {
			// the same fixed-shape updates of t0 as before: the ledger page in front of the
			// old cursor ends up with the very same image (it only holds the counter)
			for i := 0; i < moved; i++ {
				if ok, err := w.updateFixed("t0"); err != nil {
					return err
				} else if ok {
					w.offCommits++
				}
			}
		} else {
			// ledger-only transactions (one frame each) up to the old cursor: the frame in
			// front of it is the ledger page again, with another counter value
			for i := 0; i < 2*moved-2; i++ {
				if _, err := w.W.Exec(`UPDATE ledger SET k=k+1`); err != nil {
					return err
				}
				w.K++
				if err := w.Record(); err != nil {
					return err
				}
				w.offCommits++
			}
			if ok, err := w.updateFixed("t0"); err != nil {
				return err
			} else if ok {
				w.offCommits++
			}
		}
	} else {
		for i := w.rng.Intn(5); i > 0; i-- {
			ok, err := w.writeTable([]string{"t2", "t0", "t1"}[w.rng.Intn(3)])
			if err != nil {
				return err
			}
			if ok {
				w.offCommits++
			}
		}
	}
	// witness predicate of F36
	if newWAL, err := os.ReadFile(w.DBPath + "-wal"); err == nil && len(oldWAL) > 32 && len(newWAL) >= len(oldWAL) {
		fs := w.Cfg.PageSize + 24
		a, b := oldWAL[len(oldWAL)-fs:], newWAL[len(oldWAL)-fs:len(oldWAL)]
		samePg := bytes.Equal(a[:4], b[:4])
		sameImg := bytes.Equal(a[24:], b[24:])
		differsBefore := !bytes.Equal(oldWAL[32:len(oldWAL)-fs], newWAL[32:len(oldWAL)-fs])
		w.Logf("frame in front of the old cursor (offset %d): same page number=%v same page image=%v earlier frames differ=%v", len(oldWAL), samePg, sameImg, differsBefore)
		if samePg && sameImg && differsBefore {
			w.identicalAtCursor = true
			w.Res.Count("db_wal_rollback_identical_image_at_cursor", 1)
		} else if samePg && differsBefore {
			w.Res.Count("db_wal_rollback_same_page_other_image_at_cursor", 1)
		}
	}
	return w.restartNewObject()
}

func copyTree(src, dst string) error {
	return filepath.Walk(src, func(p string, fi os.FileInfo, err error) error {
		if err != nil {
			if os.IsNotExist(err) {
				return nil
			}
			return err
		}
		rel, _ := filepath.Rel(src, p)
		t := filepath.Join(dst, rel)
		if fi.IsDir() {
			return os.MkdirAll(t, 0o755)
		}
		return sq.CopyFile(p, t)
	})
}

func runCase(run *vf.Run, raw json.RawMessage, dir string) *vf.Result {
	var s spec
	res := &vf.Result{}
	if err := json.Unmarshal(raw, &s); err != nil {
		res.HarnessErr = err.Error()
		return res
	}
	rng := rand.New(rand.NewSource(s.Seed))
	e, err := hist.NewEnv(dir, s.Cfg, rng, res)
	if err != nil {
		res.HarnessErr = err.Error()
		return res
	}
	defer e.Close()
	w := &world{Env: e, s: s, rng: rng, res: res, l0Hash: map[int][32]byte{}}
	w.forceShrinking = s.Kind == "shape-shrinking-generations"
	if s.Daemon {
		w.dmn, err = e.StartDaemon(nil)
	} else {
		err = e.StartLS()
	}
	if err != nil {
		res.HarnessErr = "open litestream: " + err.Error()
		return res
	}
	defer func() {
		if w.dmn != nil {
			ctx, cancel := context.WithTimeout(context.Background(), 30*time.Second)
			_ = w.dmn.Close(ctx)
			cancel()
		}
	}()
	ctx := context.Background()
	herr := func(err error) *vf.Result { res.HarnessErr = err.Error(); return res }

	switch s.Kind {
	case "demo-F36":
		w.rollbackMode = "identical"
		if err := w.rollbackDBWAL(); err != nil {
			return herr(err)
		}
		w.ackCheck("after disturbance (db-wal-rolled-back, identical page image at the cursor)", 0)
	case "aligned-db-wal-rollback":
		w.rollbackMode = "aligned"
		if err := w.rollbackDBWAL(); err != nil {
			return herr(err)
		}
		w.ackCheck("after disturbance (db-wal-rolled-back, same page number at the cursor)", 0)
	case "demo-F1", "demo-F2", "demo-F3", "demo-F19", "demo-F37":
		if v := runDemo(w, s.Kind); v != nil {
			return herr(v)
		}
	default:
		// prefix
		for i := 0; i < 6+rng.Intn(10); i++ {
			switch r := rng.Intn(10); {
			case r < 5 || w.forceShrinking: // the directed shape wants one long first generation
				if w.forceShrinking {
					if _, err := e.AppWriteKind("ins-multi"); err != nil {
						return herr(err)
					}
					break
				}
				if _, err := e.AppWrite(); err != nil {
					return herr(err)
				}
			case r < 6:
				e.AppCheckpoint(hist.CheckpointModes[rng.Intn(4)])
			case r < 8:
				_ = e.LS.Sync(ctx)
			case r < 9:
				_ = e.LS.Checkpoint(ctx, hist.CheckpointModes[rng.Intn(4)])
			default:
				_ = e.LS.SyncAndWait(ctx)
			}
		}
		if w.ackCheck("prefix", 0) {
			return res
		}
		for di, d := range s.Dist {
			if err := w.disturb(d); err != nil {
				// a disturbance step that litestream itself refuses (e.g. Open fails)
				// is reported: replication must resume without manual intervention
				res.Evals++
				res.Violate("resume-failed", "disturbance %q: litestream did not come back: %v [%s] shapes=%v", d, err, s.Cfg, w.shapes)
				return res
			}
			// optional application writes between the disturbance and the ack
			for i := 0; i < rng.Intn(3); i++ {
				if _, err := e.AppWrite(); err != nil {
					return herr(err)
				}
			}
			if rng.Intn(3) == 0 {
				_ = e.LS.Sync(ctx)
			}
			if w.ackCheck(fmt.Sprintf("after disturbance %d (%s)", di+1, d), 0) {
				return res
			}
			// suffix
			for i := 0; i < 2+rng.Intn(4); i++ {
				if _, err := e.AppWrite(); err != nil {
					return herr(err)
				}
				if rng.Intn(2) == 0 {
					_ = e.LS.Sync(ctx)
				}
			}
			if w.ackCheck(fmt.Sprintf("suffix %d", di+1), 0) {
				return res
			}
		}
	}
	for msg, n := range e.Logs.Snapshot() {
		if strings.Contains(msg, "reason=") || strings.Contains(msg, "behind") || strings.Contains(msg, "fetched") {
			if len(msg) > 80 {
				msg = msg[:80]
			}
			res.Count("log:"+msg, n)
		}
	}
	res.Sig = fmt.Sprintf("%x", sha256.Sum256([]byte(s.Kind+s.Cfg.String()+strings.Join(w.shapes, ","))))[:16]
	res.Nontrivial = w.offCommits >= 1 || w.lostLoc
	res.Sample = map[string]any{"kind": s.Kind, "cfg": s.Cfg.String(), "daemon": s.Daemon, "shapes": w.shapes, "offline_commits": w.offCommits}
	return res
}

// runDemo executes the three fixed histories that lost data on the original tree.
func runDemo(w *world, kind string) error {
	ctx := context.Background()
	for i := 0; i < 3; i++ {
		if _, err := w.writeTable("t0"); err != nil {
			return err
		}
	}
	if w.ackCheck("prefix", 0) {
		return nil
	}
	switch kind {
	case "demo-F37":
		// a long first WAL generation, ack, litestream restarted; while it is down the
		// application restarts the WAL twice: a middle generation that is written and
		// checkpointed completely unseen, and a current one that is shorter than the first but
		// LONGER than the middle one (its tail is a rolled-back transaction with spilled
		// frames), so nothing of the middle generation is left in the WAL file
		w.shapes = append(w.shapes, "restart-new-object", "off:two-restarts/middle-generation-overwritten")
		for i := 0; i < 10; i++ {
			if _, err := w.AppWriteKind("ins-multi"); err != nil {
				return err
			}
		}
		if w.ackCheck("long first generation", 0) {
			return nil
		}
		if err := w.closeLS(); err != nil {
			return err
		}
		w.AppCheckpoint("RESTART")
		for i := 0; i < 4; i++ {
			if ok, err := w.writeTable("t2"); err != nil {
				return err
			} else if ok {
				w.offCommits++
			}
		}
		w.AppCheckpoint("RESTART")
		for i := 0; i < 2; i++ {
			if ok, err := w.writeTable("t1"); err != nil {
				return err
			} else if ok {
				w.offCommits++
			}
		}
		if _, err := w.AppWriteKind("rollback-spill"); err != nil {
			return err
		}
		if b, err := os.ReadFile(w.DBPath + "-wal"); err == nil {
			wl := oracle.ParseWAL(b)
			w.Logf("WAL before the restart: %d bytes, current generation salts %08x/%08x, last commit frame %d", len(b), wl.Salt1, wl.Salt2, wl.LastCommit)
		}
		if err := w.restartNewObject(); err != nil {
			return err
		}
	case "demo-F1":
		// ack; Close; app updates t0, wal_checkpoint(TRUNCATE), inserts into t2; Open (same object); ack
		w.shapes = append(w.shapes, "close-open-same-object", "off:writes+TRUNCATE/after:longer")
		if err := w.closeLS(); err != nil {
			return err
		}
		if _, err := w.W.Exec(`UPDATE t0 SET v=zeroblob(33)`); err != nil {
			return err
		}
		if _, err := w.W.Exec(`UPDATE ledger SET k=k+1`); err != nil {
			return err
		}
		w.K++
		if err := w.Record(); err != nil {
			return err
		}
		w.AppCheckpoint("TRUNCATE")
		if _, err := w.writeTable("t2"); err != nil {
			return err
		}
		w.offCommits += 2
		if err := w.LS.Open(); err != nil {
			return err
		}
	case "demo-F2":
		// ack; close; app writes (old generation grows past the cursor), FULL checkpoint, fewer writes (WAL restarts, shorter); new DB object; ack
		w.shapes = append(w.shapes, "restart-new-object", "off:writes+FULL/after:shorter")
		if err := w.closeLS(); err != nil {
			return err
		}
		for i := 0; i < 4; i++ {
			if _, err := w.writeTable("t0"); err != nil {
				return err
			}
		}
		w.AppCheckpoint("FULL")
		if _, err := w.writeTable("t2"); err != nil {
			return err
		}
		w.offCommits += 5
		if err := w.restartNewObject(); err != nil {
			return err
		}
	case "demo-F19":
		// ack; app commit; DB.Sync only (L0/n local, not uploaded); Snapshot (L9/1-n uploaded);
		// ResetLocalState; multi-page app commits; acks. TXID n is re-issued with other content
		// below the snapshot that already advertises it (known finding F19).
		w.shapes = append(w.shapes, "reset-at-runtime", "snapshot-before-l0-upload")
		if _, err := w.writeTable("t0"); err != nil {
			return err
		}
		if err := w.LS.Sync(ctx); err != nil {
			return err
		}
		if _, err := w.LS.Snapshot(ctx); err != nil {
			return err
		}
		w.noteLocalStateLost()
		if err := w.LS.ResetLocalState(ctx); err != nil {
			return err
		}
		for i := 0; i < 2; i++ {
			if _, err := w.W.Exec(`INSERT INTO t1(v) VALUES(zeroblob(9000)); UPDATE ledger SET k=k+1;`); err != nil {
				return err
			}
			w.K++
			if err := w.Record(); err != nil {
				return err
			}
			w.offCommits++
			if w.ackCheck(fmt.Sprintf("after reset, write %d", i+1), 0) {
				return nil
			}
		}
	case "demo-F3":
		// acks to TXID n; ResetLocalState at run time; app write; ack
		w.shapes = append(w.shapes, "reset-at-runtime")
		if _, err := w.writeTable("t0"); err != nil {
			return err
		}
		if w.ackCheck("second ack", 0) {
			return nil
		}
		w.lostLoc = true
		if err := w.LS.ResetLocalState(ctx); err != nil {
			return err
		}
		if _, err := w.writeTable("t2"); err != nil {
			return err
		}
		w.offCommits++
	}
	if w.ackCheck("after disturbance ("+kind+")", 0) {
		return nil
	}
	if _, err := w.writeTable("t1"); err != nil {
		return err
	}
	w.ackCheck("suffix", 0)
	return nil
}
