package c20

import (
	"bytes"
	"context"
	"crypto/md5"
	"fmt"
	"io"
	"runtime"
	"sync"

	"github.com/aws/aws-sdk-go-v2/service/s3"
	"github.com/aws/smithy-go"
)

// store is ONE in-memory object (the lease file) with S3 conditional-request
// semantics: If-None-Match:* and If-Match on PUT, If-Match on DELETE, MD5
// ETags, 412 PreconditionFailed / 404 NoSuchKey as smithy API errors. Every
// request passes through a gate; with a scheduler attached it blocks there
// until the scheduler grants it, so a schedule is a sequence of client ids at
// request granularity.
type store struct {
	mu      sync.Mutex
	exist   bool
	body    []byte
	etag    string
	version int // bumped by every successful PUT / DELETE
	events  []reqEvent

	sched *scheduler // nil: free running
	yield bool       // free running: yield around requests to mix goroutines
}

// reqEvent is one storage request as the store saw it.
type reqEvent struct {
	Client  int
	Kind    string // GET | PUT | DELETE
	Cond    string // "", "If-None-Match:*", "If-Match"
	Outcome string // ok | 404 | 412
	Version int    // store version after the request
	ETag    string // store ETag after the request ("" = no object)
}

func (e reqEvent) String() string {
	return fmt.Sprintf("c%d %s %s -> %s (object v%d etag=%s)", e.Client, e.Kind, e.Cond, e.Outcome, e.Version, short(e.ETag))
}

func short(etag string) string {
	if len(etag) > 9 {
		return etag[1:9]
	}
	if etag == "" {
		return "-"
	}
	return etag
}

func apiErr(code string) error { return &smithy.GenericAPIError{Code: code, Message: code} }

// cli is the S3API handed to one s3.Leaser.
type cli struct {
	st *store
	id int
}

// enter blocks until the request may run and returns the function to call when it is done.
func (c *cli) enter() func() {
	s := c.st
	if s.sched == nil {
		if s.yield {
			runtime.Gosched()
		}
		return func() {
			if s.yield {
				runtime.Gosched()
			}
		}
	}
	s.sched.req <- c.id
	<-s.sched.turn[c.id]
	return func() { s.sched.ack <- struct{}{} }
}

func (s *store) record(client int, kind, cond, outcome string) {
	s.events = append(s.events, reqEvent{Client: client, Kind: kind, Cond: cond, Outcome: outcome, Version: s.version, ETag: s.etagNow()})
}

func (s *store) etagNow() string {
	if !s.exist {
		return ""
	}
	return s.etag
}

func (c *cli) GetObject(_ context.Context, _ *s3.GetObjectInput, _ ...func(*s3.Options)) (*s3.GetObjectOutput, error) {
	defer c.enter()()
	s := c.st
	s.mu.Lock()
	defer s.mu.Unlock()
	if !s.exist {
		s.record(c.id, "GET", "", "404")
		return nil, apiErr("NoSuchKey")
	}
	s.record(c.id, "GET", "", "ok")
	et := s.etag
	return &s3.GetObjectOutput{Body: io.NopCloser(bytes.NewReader(append([]byte(nil), s.body...))), ETag: &et}, nil
}

func (c *cli) PutObject(_ context.Context, in *s3.PutObjectInput, _ ...func(*s3.Options)) (*s3.PutObjectOutput, error) {
	b, rerr := io.ReadAll(in.Body)
	defer c.enter()()
	if rerr != nil {
		return nil, rerr
	}
	s := c.st
	s.mu.Lock()
	defer s.mu.Unlock()
	cond := ""
	switch {
	case in.IfNoneMatch != nil && *in.IfNoneMatch == "*":
		cond = "If-None-Match:*"
		if s.exist {
			s.record(c.id, "PUT", cond, "412")
			return nil, apiErr("PreconditionFailed")
		}
	case in.IfMatch != nil:
		cond = "If-Match"
		if !s.exist || s.etag != *in.IfMatch {
			s.record(c.id, "PUT", cond, "412")
			return nil, apiErr("PreconditionFailed")
		}
	}
	s.body, s.exist = b, true
	s.etag = fmt.Sprintf("\"%x\"", md5.Sum(b))
	s.version++
	s.record(c.id, "PUT", cond, "ok")
	et := s.etag
	return &s3.PutObjectOutput{ETag: &et}, nil
}

func (c *cli) DeleteObject(_ context.Context, in *s3.DeleteObjectInput, _ ...func(*s3.Options)) (*s3.DeleteObjectOutput, error) {
	defer c.enter()()
	s := c.st
	s.mu.Lock()
	defer s.mu.Unlock()
	cond := ""
	if in.IfMatch != nil {
		cond = "If-Match"
		if !s.exist {
			s.record(c.id, "DELETE", cond, "404")
			return nil, apiErr("NoSuchKey")
		}
		if s.etag != *in.IfMatch {
			s.record(c.id, "DELETE", cond, "412")
			return nil, apiErr("PreconditionFailed")
		}
	}
	if s.exist {
		s.version++
	}
	s.exist, s.body, s.etag = false, nil, ""
	s.record(c.id, "DELETE", cond, "ok")
	return &s3.DeleteObjectOutput{}, nil
}
