// vhx-c05 is the private development binary of checks C05, C14, C17.
package main

import (
	"io"
	"log/slog"
	"os"

	_ "verif/harness/internal/c05"
	_ "verif/harness/internal/c14"
	_ "verif/harness/internal/c17"
	"verif/harness/internal/vf"
)

func main() {
	slog.SetDefault(slog.New(slog.NewTextHandler(io.Discard, nil)))
	os.Exit(vf.Main(os.Args[1:]))
}
