#!/bin/bash
# build.sh <std|race|vfs>: incremental build of the harness against /repo (hooks on).
set -eu
here="$(cd "$(dirname "$0")" && pwd)"
export GOFLAGS=-mod=mod GOPROXY=off
variant="${1:-std}"
mkdir -p "$here/bin"
cd "$here/harness"
case "$variant" in
  std)  CGO_ENABLED=0 go build -tags verif -o "$here/bin/vh-std" ./cmd/vh ;;
  race) CGO_ENABLED=1 go build -race -tags verif -o "$here/bin/vh-race" ./cmd/vh ;;
  vfs)  CGO_ENABLED=1 go build -tags "verif vfs" -o "$here/bin/vh-vfs" ./cmd/vh ;;
  *) echo "unknown variant $variant" >&2; exit 2 ;;
esac
