//go:build verif

package c09

import (
	"bytes"
	"context"
	"errors"
	"fmt"
	"io"
	"log/slog"

	"github.com/benbjohnson/litestream"

	"verif/harness/internal/oracle"
)

var discard = slog.New(slog.NewTextHandler(io.Discard, nil))

// refImage is O-WAL's answer to "what does SQLite recover": the database file
// overlaid with the latest committed version of every page up to the last
// valid commit frame, cut (or zero-extended, as a checkpoint does) to the
// committed size. Without a committed frame the database file is untouched.
func refImage(db, wal []byte, info *oracle.WALInfo, buf []byte) []byte {
	img := append(buf[:0], db...)
	if info.LastCommit == 0 {
		return img
	}
	ps := info.PageSize
	img = resize(img, int(info.DBSize)*ps)
	for pgno, off := range info.CommittedPages() {
		if pgno == 0 || pgno > info.DBSize {
			continue
		}
		copy(img[(int(pgno)-1)*ps:int(pgno)*ps], wal[off+24:off+24+int64(ps)])
	}
	return img
}

func resize(img []byte, n int) []byte {
	if len(img) >= n {
		return img[:n]
	}
	old := len(img)
	if cap(img) >= n {
		img = img[:n]
		clear(img[old:])
		return img
	}
	out := make([]byte, n, n+n/4)
	copy(out, img)
	return out
}

// wellFormed reports whether the committed prefix respects two invariants of
// every WAL SQLite writes itself: (1) a commit frame's page number is not above
// the database size it commits (pagerWalFrames drops pages above the new size
// from a commit), (2) every page a transaction grows the database by is
// written by that transaction. Re-checksummed commit-field edits can break
// them; such byte strings are recoverable by SQLite but cannot come from it.
func wellFormed(info *oracle.WALInfo, basePgs uint32) (bool, string) {
	prev := basePgs
	txn := map[uint32]bool{}
	for _, fr := range info.Valid {
		if fr.Index >= info.LastCommit {
			break
		}
		txn[fr.Pgno] = true
		if fr.Commit == 0 {
			continue
		}
		if fr.Pgno > fr.Commit {
			return false, fmt.Sprintf("commit frame %d carries page %d above its own commit size %d", fr.Index, fr.Pgno, fr.Commit)
		}
		for p := prev + 1; p <= fr.Commit; p++ {
			if !txn[p] {
				return false, fmt.Sprintf("transaction ending at frame %d grows the database %d -> %d without writing page %d", fr.Index, prev, fr.Commit, p)
			}
			if p-prev > 1<<20 {
				break
			}
		}
		prev = fr.Commit
		txn = map[uint32]bool{}
	}
	return true, ""
}

// boundary is a commit boundary of the valid prefix: the replica state a
// DB.sync that stopped there would have published (pages above the commit
// dropped), used as the starting image of a resumed reader.
type boundary struct {
	Offset int64 // offset just after the commit frame
	Commit uint32
	Img    []byte
}

// boundaries replays the committed prefix transaction by transaction with the
// reference decoder and returns the images at the chosen commit-frame indexes.
// work and snaps are reusable buffers.
func boundaries(db, wal []byte, info *oracle.WALInfo, want map[int]bool, work *[]byte, snaps *[][]byte) []boundary {
	ps := info.PageSize
	fs := int64(24 + ps)
	img := append((*work)[:0], db...)
	pend := map[uint32]int64{}
	var out []boundary
	for _, fr := range info.Valid {
		if fr.Index >= info.LastCommit {
			break
		}
		pend[fr.Pgno] = fr.Offset
		if fr.Commit == 0 {
			continue
		}
		img = resize(img, int(fr.Commit)*ps)
		for pgno, off := range pend {
			if pgno == 0 || pgno > fr.Commit {
				continue
			}
			copy(img[(int(pgno)-1)*ps:int(pgno)*ps], wal[off+24:off+24+int64(ps)])
		}
		clear(pend)
		if want[fr.Index] {
			k := len(out)
			for len(*snaps) <= k {
				*snaps = append(*snaps, nil)
			}
			(*snaps)[k] = append((*snaps)[k][:0], img...)
			out = append(out, boundary{Offset: fr.Offset + fs, Commit: fr.Commit, Img: (*snaps)[k]})
		}
	}
	*work = img
	return out
}

// lsRun is what the litestream side did with one reader configuration.
type lsRun struct {
	Img      []byte
	Status   string // ok | header-rejected | page-map-error | db-read-beyond-eof | negative-size
	Detail   string
	Chunks   int
	Calls    int
	Ends     []int64 // end offset reported by every chunk that published pages
	Union    map[uint32]int64
	Commit   uint32 // commit of the last published chunk (0 if none)
	Limited  int    // chunks that stopped at the byte budget
	Fallback int    // PrevFrameMismatch fall-backs to the header
}

// lsReplicate mirrors DB.sync's use of WALReader: open a reader at the saved
// position (header, or NewWALReaderWithOffset with the header salts), build
// the page map under the byte budget, publish the selected pages on top of the
// previous replica state (pages the database grew by that are not in the map
// are read from the database file, pages above the reported commit are
// dropped), move the position to the reported end, repeat until a call
// publishes nothing. usePageMap selects the exported PageMap (no budget).
func lsReplicate(ctx context.Context, db, wal []byte, ps int, start int64, startImg []byte, maxBytes int64, usePageMap bool, buf *[]byte) *lsRun {
	run := &lsRun{Img: append((*buf)[:0], startImg...), Status: "ok", Union: map[uint32]int64{}}
	defer func() { *buf = run.Img }()
	var salt1, salt2 uint32
	if len(wal) >= 24 {
		salt1 = be32(wal[16:])
		salt2 = be32(wal[20:])
	}
	offset := start
	prevCommit := uint32(len(run.Img) / ps)
	maxIter := len(wal)/(24+ps) + 4
	for iter := 0; iter < maxIter; iter++ {
		var rd *litestream.WALReader
		var err error
		run.Calls++
		if offset == litestream.WALHeaderSize {
			if rd, err = litestream.NewWALReader(bytes.NewReader(wal), discard); err != nil {
				run.Status, run.Detail = "header-rejected", err.Error()
				return run
			}
		} else {
			var pfm *litestream.PrevFrameMismatchError
			rd, err = litestream.NewWALReaderWithOffset(ctx, bytes.NewReader(wal), offset, salt1, salt2, discard)
			if errors.As(err, &pfm) {
				run.Fallback++
				offset = litestream.WALHeaderSize
				if rd, err = litestream.NewWALReader(bytes.NewReader(wal), discard); err != nil {
					run.Status, run.Detail = "header-rejected", err.Error()
					return run
				}
			} else if err != nil {
				run.Status, run.Detail = "header-rejected", err.Error()
				return run
			}
		}
		var m map[uint32]int64
		var maxOffset int64
		var commit uint32
		var limited bool
		if usePageMap {
			m, maxOffset, commit, err = rd.PageMap(ctx)
		} else {
			m, maxOffset, commit, limited, err = rd.VerifPageMap(ctx, maxBytes)
		}
		if err != nil {
			run.Status, run.Detail = "page-map-error", err.Error()
			return run
		}
		if maxOffset == 0 {
			return run // "no new wal pages"
		}
		if maxOffset-offset < 0 {
			run.Status, run.Detail = "negative-size", fmt.Sprintf("maxOffset=%d start=%d (db.go asserts sz >= 0)", maxOffset, offset)
			return run
		}
		if limited {
			run.Limited++
		}
		// publish: writeLTXFromDB / writeLTXFromWAL
		if commit > prevCommit {
			for pgno := prevCommit + 1; pgno <= commit; pgno++ {
				if _, ok := m[pgno]; ok {
					continue
				}
				if int(pgno)*ps > len(db) {
					run.Status = "db-read-beyond-eof"
					run.Detail = fmt.Sprintf("chunk at %d: commit=%d prevCommit=%d page %d is neither in the page map nor in the database file (%d pages)", offset, commit, prevCommit, pgno, len(db)/ps)
					return run
				}
			}
			old := len(run.Img)
			run.Img = resize(run.Img, int(commit)*ps)
			for pgno := uint32(old/ps) + 1; pgno <= commit; pgno++ {
				if _, ok := m[pgno]; !ok {
					copy(run.Img[(int(pgno)-1)*ps:int(pgno)*ps], db[(int(pgno)-1)*ps:int(pgno)*ps])
				}
			}
		} else {
			run.Img = resize(run.Img, int(commit)*ps)
		}
		for pgno, off := range m {
			if pgno == 0 || pgno > commit {
				run.Status, run.Detail = "page-map-error", fmt.Sprintf("page map holds page %d with commit %d", pgno, commit)
				return run
			}
			if off < 32 || off+24+int64(ps) > int64(len(wal)) {
				run.Status, run.Detail = "page-map-error", fmt.Sprintf("page map offset %d outside the WAL (%d bytes)", off, len(wal))
				return run
			}
			copy(run.Img[(int(pgno)-1)*ps:int(pgno)*ps], wal[off+24:off+24+int64(ps)])
			run.Union[pgno] = off
		}
		for pgno := range run.Union {
			if pgno > commit {
				delete(run.Union, pgno)
			}
		}
		run.Chunks++
		run.Ends = append(run.Ends, maxOffset)
		run.Commit = commit
		prevCommit = commit
		offset = maxOffset
	}
	run.Status, run.Detail = "page-map-error", "no fixpoint: the reader kept publishing"
	return run
}

func be32(b []byte) uint32 {
	return uint32(b[0])<<24 | uint32(b[1])<<16 | uint32(b[2])<<8 | uint32(b[3])
}

// firstDiff describes the first differing page of two images.
func firstDiff(a, b []byte, ps int) string {
	if len(a) != len(b) {
		return fmt.Sprintf("size %d vs %d bytes (%d vs %d pages)", len(a), len(b), len(a)/ps, len(b)/ps)
	}
	n := 0
	first := ""
	for pg := 0; pg*ps < len(a); pg++ {
		if !bytes.Equal(a[pg*ps:(pg+1)*ps], b[pg*ps:(pg+1)*ps]) {
			if first == "" {
				off := 0
				for i := 0; i < ps; i++ {
					if a[pg*ps+i] != b[pg*ps+i] {
						off = i
						break
					}
				}
				first = fmt.Sprintf("page %d @%d", pg+1, off)
			}
			n++
		}
	}
	return fmt.Sprintf("%d pages differ, first %s", n, first)
}
