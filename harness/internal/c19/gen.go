package c19

import (
	"bytes"
	"context"
	"fmt"
	"math/rand"
	"os"
	"path/filepath"
	"sort"
	"strings"
	"time"

	"github.com/benbjohnson/litestream"
	"github.com/pierrec/lz4/v4"

	"verif/harness/internal/hist"
	"verif/harness/internal/oracle"
)

// baseTime is the fixed origin of every planted mtime. All planted times are
// whole minutes apart (>= 1 min), so no verdict depends on how long a run takes.
var baseTime = time.Unix(1700000000, 0).UTC()

// commitRec: application commit k ended at byte endOff of the WAL of its index.
type commitRec struct {
	endOff int64
	k      int64
}

// walIndex is what the generator recorded for one WAL index of a generation:
// the database file at the start of the index (the snapshot candidate), the
// complete WAL bytes of the index (header + every frame valid by salt and
// checksum, including an uncommitted tail), and where each commit ended.
type walIndex struct {
	dbStart []byte
	kStart  int64
	wal     []byte
	commits []commitRec
	mode    string // checkpoint mode that closed the index
	salt1   uint32
}

type snapFile struct {
	gen, index int
	t          time.Time
	path       string
}

type segFile struct {
	gen, index int
	off        int64
	data       []byte
	t          time.Time
	path       string
	present    bool
	frameCut   bool // starts at a frame boundary (or 0)
}

func (s *segFile) String() string { return fmt.Sprintf("g%d:%d/%d", s.gen, s.index, s.off) }

type generation struct {
	name  string
	idx   []*walIndex
	snaps []*snapFile
	segs  []*segFile // sorted by (index, off)
}

// layout is one generated 0.3.x replica tree together with the generator's
// own records (which the oracle uses; it never reads the replica files).
type layout struct {
	rep      string
	pageSize int
	gens     []*generation
	snaps    []*snapFile // all, in planting order
	segs     []*segFile  // all, in planting order
	first    time.Time   // earliest planted legacy time
	last     time.Time   // latest planted legacy time
	f9Plant  []string    // "g/index" where a cut equal to the previous WAL's length was planted
}

func lz(b []byte) []byte {
	var buf bytes.Buffer
	w := lz4.NewWriter(&buf)
	_, _ = w.Write(b)
	_ = w.Close()
	return buf.Bytes()
}

// historian produces WAL indices by running application transactions on plain
// SQLite (no litestream) and forcing RESTART/TRUNCATE checkpoints.
type historian struct {
	e   *hist.Env
	rng *rand.Rand
}

func (h *historian) checkpoint(mode string) error {
	var busy, logN, ckpt int
	if err := h.e.W.QueryRow(`PRAGMA wal_checkpoint(`+mode+`)`).Scan(&busy, &logN, &ckpt); err != nil {
		return fmt.Errorf("generator checkpoint(%s): %w", mode, err)
	}
	if busy != 0 || logN != ckpt {
		return fmt.Errorf("generator checkpoint(%s) incomplete: busy=%d log=%d ckpt=%d", mode, busy, logN, ckpt)
	}
	h.e.Res.Count("gen_checkpoint_"+mode, 1)
	return nil
}

// walNow returns the valid part of the live WAL file and its parse.
func (h *historian) walNow() ([]byte, *oracle.WALInfo, error) {
	b, err := os.ReadFile(h.e.DBPath + "-wal")
	if err != nil && !os.IsNotExist(err) {
		return nil, nil, err
	}
	pw := oracle.ParseWAL(b)
	if !pw.HeaderOK {
		return nil, pw, nil
	}
	n := int64(32) + int64(len(pw.Valid))*int64(pw.PageSize+24)
	return b[:n], pw, nil
}

// runIndex records one WAL index: dbStart, 1..5 committed transactions (plus
// rollbacks with spilled frames, VACUUM / incremental_vacuum), the WAL bytes,
// then a forced checkpoint that makes the next writer restart the WAL.
func (h *historian) runIndex(prevSalt uint32, havePrev bool, minLen int64) (*walIndex, error) {
	e := h.e
	wi := &walIndex{kStart: e.K}
	b, err := os.ReadFile(e.DBPath)
	if err != nil {
		return nil, err
	}
	wi.dbStart = b
	target := 1 + h.rng.Intn(5)
	committed := 0
	var curLen int64
	for tries := 0; (committed < target || curLen <= minLen) && tries < 60; tries++ {
		if h.rng.Intn(10) == 0 {
			e.Maint()
			continue
		}
		ok, err := e.AppWrite()
		if err != nil {
			return nil, err
		}
		if !ok {
			continue
		}
		committed++
		_, pw, err := h.walNow()
		if err != nil {
			return nil, err
		}
		if !pw.HeaderOK || pw.LastCommit == 0 {
			return nil, fmt.Errorf("generator: no commit frame in WAL after commit k=%d", e.K)
		}
		wi.commits = append(wi.commits, commitRec{endOff: 32 + int64(pw.LastCommit)*int64(pw.PageSize+24), k: e.K})
		curLen = 32 + int64(len(pw.Valid))*int64(pw.PageSize+24)
	}
	if committed == 0 {
		return nil, fmt.Errorf("generator: no transaction committed in 60 tries")
	}
	if h.rng.Intn(4) == 0 { // uncommitted spilled tail at the end of the index
		if _, err := e.AppWriteKind("rollback-spill"); err != nil {
			return nil, err
		}
	}
	w, pw, err := h.walNow()
	if err != nil {
		return nil, err
	}
	if !pw.HeaderOK || pw.LastCommit == 0 {
		return nil, fmt.Errorf("generator: WAL of index has no commit")
	}
	if pw.PageSize != e.Cfg.PageSize {
		return nil, fmt.Errorf("generator: WAL page size %d != %d", pw.PageSize, e.Cfg.PageSize)
	}
	if havePrev && pw.Salt1 == prevSalt {
		return nil, fmt.Errorf("generator: WAL was not restarted after the forced checkpoint (salt unchanged)")
	}
	if len(pw.Valid) > pw.LastCommit {
		e.Res.Count("gen_index_with_uncommitted_tail", 1)
	}
	wi.wal = append([]byte{}, w...)
	wi.salt1 = pw.Salt1
	wi.mode = []string{"TRUNCATE", "RESTART"}[h.rng.Intn(2)]
	if err := h.checkpoint(wi.mode); err != nil {
		return nil, err
	}
	return wi, nil
}

// genSpec controls the shape of the legacy part.
type genSpec struct {
	maxGens   int
	plantF9   bool // guarantee a generation whose last index is split at the previous WAL's length
	startTime time.Time
}

// buildLegacy runs the history and emits the 0.3.x tree under rep.
func buildLegacy(e *hist.Env, rng *rand.Rand, rep string, gs genSpec) (*layout, error) {
	h := &historian{e: e, rng: rng}
	L := &layout{rep: rep, pageSize: e.Cfg.PageSize}
	if err := h.checkpoint("TRUNCATE"); err != nil {
		return nil, err
	}
	nGen := 1 + rng.Intn(gs.maxGens)
	var prevSalt uint32
	havePrev := false
	names := map[string]bool{}
	total := 0
	for g := 0; g < nGen; g++ {
		gen := &generation{}
		for {
			gen.name = fmt.Sprintf("%016x", rng.Uint64())
			if !names[gen.name] {
				names[gen.name] = true
				break
			}
		}
		nIdx := 1 + rng.Intn(3)
		if nGen == 1 && nIdx < 2 {
			nIdx = 2
		}
		if g > 0 && rng.Intn(8) == 0 {
			nIdx = 0 // a generation that only got as far as its first snapshot
		}
		if gs.plantF9 && g == nGen-1 && nIdx < 2 {
			nIdx = 2
		}
		if g == nGen-1 && total+nIdx < 2 {
			nIdx = 2 - total
		}
		total += nIdx
		if nIdx == 0 {
			b, err := os.ReadFile(e.DBPath)
			if err != nil {
				return nil, err
			}
			gen.idx = append(gen.idx, &walIndex{dbStart: b, kStart: e.K}) // snapshot candidate only, no WAL
		}
		for i := 0; i < nIdx; i++ {
			var minLen int64
			if gs.plantF9 && g == nGen-1 && i == nIdx-1 {
				// the last WAL must be longer than its predecessor so that a split at
				// the predecessor's byte length exists
				minLen = int64(len(gen.idx[i-1].wal))
			}
			wi, err := h.runIndex(prevSalt, havePrev, minLen)
			if err != nil {
				return nil, err
			}
			prevSalt, havePrev = wi.salt1, true
			gen.idx = append(gen.idx, wi)
		}
		L.gens = append(L.gens, gen)
		if g+1 < nGen && rng.Intn(2) == 0 {
			// changes made while nothing replicated (why a new generation starts)
			n := 1 + rng.Intn(3)
			for j := 0; j < n; j++ {
				if _, err := e.AppWrite(); err != nil {
					return nil, err
				}
			}
			if err := h.checkpoint("TRUNCATE"); err != nil {
				return nil, err
			}
			havePrev = false
			e.Res.Count("gen_unreplicated_interval", 1)
		}
	}
	if err := L.emit(rng, gs); err != nil {
		return nil, err
	}
	return L, nil
}

// emit writes the tree: per generation snapshots at several indices, WAL
// indices split at PRNG offsets, planted mtimes in creation order.
func (L *layout) emit(rng *rand.Rand, gs genSpec) error {
	clock := gs.startTime
	tick := func() time.Time {
		clock = clock.Add(time.Duration(1+rng.Intn(4)) * time.Minute)
		return clock
	}
	fs := int64(L.pageSize + 24)
	for gi, gen := range L.gens {
		if gi > 0 {
			clock = clock.Add(10 * time.Minute)
		}
		snapDir := filepath.Join(L.rep, "generations", gen.name, "snapshots")
		walDir := filepath.Join(L.rep, "generations", gen.name, "wal")
		if err := os.MkdirAll(snapDir, 0o755); err != nil {
			return err
		}
		if err := os.MkdirAll(walDir, 0o755); err != nil {
			return err
		}
		writeSnap := func(i int) error {
			s := &snapFile{gen: gi, index: i, t: tick()}
			s.path = filepath.Join(snapDir, litestream.FormatSnapshotFilenameV3(i))
			if err := os.WriteFile(s.path, lz(gen.idx[i].dbStart), 0o644); err != nil {
				return err
			}
			if err := os.Chtimes(s.path, s.t, s.t); err != nil {
				return err
			}
			gen.snaps = append(gen.snaps, s)
			L.snaps = append(L.snaps, s)
			return nil
		}
		for i, wi := range gen.idx {
			hasSnap := i == 0 || rng.Intn(5) < 2
			snapAfter := 0 // number of segments of this index written before the snapshot
			if wi.wal == nil {
				if err := writeSnap(i); err != nil {
					return err
				}
				continue
			}
			// cut points
			cuts := map[int64]bool{0: true}
			nfr := (int64(len(wi.wal)) - 32) / fs
			k := rng.Intn(4)
			for c := 0; c < k; c++ {
				if rng.Intn(4) == 0 {
					// not a frame boundary: any byte, sometimes inside the WAL header
					var o int64
					if rng.Intn(4) == 0 {
						o = 1 + rng.Int63n(31)
					} else {
						o = 1 + rng.Int63n(int64(len(wi.wal))-1)
					}
					cuts[o] = true
				} else if nfr > 1 {
					cuts[32+fs*(1+rng.Int63n(nfr-1))] = true
				} else {
					cuts[32] = true
				}
			}
			if i > 0 && gen.idx[i-1].wal != nil {
				pl := int64(len(gen.idx[i-1].wal))
				pinned := gs.plantF9 && gi == len(L.gens)-1 && i == len(gen.idx)-1
				if (pinned || rng.Intn(4) == 0) && pl < int64(len(wi.wal)) {
					cuts[pl] = true
					L.f9Plant = append(L.f9Plant, fmt.Sprintf("%d/%d", gi, i))
					if pinned {
						// the pinned demonstration: the segment at the previous WAL's length
						// is the first one after offset 0
						for c := range cuts {
							if c > 0 && c < pl {
								delete(cuts, c)
							}
						}
					}
				}
			}
			var u []int64
			for c := range cuts {
				u = append(u, c)
			}
			sort.Slice(u, func(a, b int) bool { return u[a] < u[b] })
			if hasSnap && i > 0 {
				snapAfter = rng.Intn(len(u) + 1)
			}
			for j, c := range u {
				if hasSnap && j == snapAfter {
					if err := writeSnap(i); err != nil {
						return err
					}
				}
				end := int64(len(wi.wal))
				if j+1 < len(u) {
					end = u[j+1]
				}
				s := &segFile{gen: gi, index: i, off: c, data: wi.wal[c:end], t: tick(), present: true}
				s.frameCut = c == 0 || (c >= 32 && (c-32)%fs == 0)
				s.path = filepath.Join(walDir, litestream.FormatWALSegmentFilenameV3(i, c))
				if err := os.WriteFile(s.path, lz(s.data), 0o644); err != nil {
					return err
				}
				if err := os.Chtimes(s.path, s.t, s.t); err != nil {
					return err
				}
				gen.segs = append(gen.segs, s)
				L.segs = append(L.segs, s)
			}
			if hasSnap && snapAfter == len(u) {
				if err := writeSnap(i); err != nil {
					return err
				}
			}
		}
	}
	L.first, L.last = L.snaps[0].t, clock
	for _, s := range L.snaps {
		if s.t.Before(L.first) {
			L.first = s.t
		}
	}
	return nil
}

func (L *layout) nIndices() int {
	n := 0
	for _, g := range L.gens {
		for _, wi := range g.idx {
			if wi.wal != nil {
				n++
			}
		}
	}
	return n
}

// signature describes the layout shape (distinctness of cases).
func (L *layout) signature() string {
	var sb strings.Builder
	fmt.Fprintf(&sb, "ps=%d", L.pageSize)
	for _, g := range L.gens {
		sb.WriteString(" gen[")
		var sn []string
		for _, s := range g.snaps {
			sn = append(sn, fmt.Sprint(s.index))
		}
		fmt.Fprintf(&sb, "snaps=%s segs=", strings.Join(sn, ","))
		for j, s := range g.segs {
			if j > 0 {
				sb.WriteByte(',')
			}
			fmt.Fprintf(&sb, "%d/%d", s.index, s.off)
		}
		sb.WriteString("]")
	}
	return sb.String()
}

func rel(t time.Time) string {
	if t.IsZero() {
		return "latest"
	}
	d := t.Sub(baseTime)
	return fmt.Sprintf("base%+ds", int64(d/time.Second))
}

// ---------------------------------------------------------------------------
// current-format part of mixed replicas: a real litestream DB replicates the
// same database into the same replica directory; afterwards the LTX files get
// planted mtimes (the file replica's CreatedAt) in TXID order.

type ltxFile struct {
	ref oracle.FileRef
	t   time.Time
}

type ltxEra struct {
	files     []ltxFile // sorted by planted time
	first     time.Time
	last      time.Time
	src       []byte // committed source image after litestream was closed
	firstSnap time.Time
	hasSnap   bool
}

func buildLTX(e *hist.Env, rng *rand.Rand, snapshot bool, start time.Time) (*ltxEra, error) {
	ctx := context.Background()
	if err := e.StartLS(); err != nil {
		return nil, fmt.Errorf("open litestream: %w", err)
	}
	n := 3 + rng.Intn(4)
	for i := 0; i < n; i++ {
		for tries := 0; tries < 20; tries++ {
			ok, err := e.AppWrite()
			if err != nil {
				return nil, err
			}
			if ok {
				break
			}
		}
		if err := e.LS.SyncAndWait(ctx); err != nil {
			return nil, fmt.Errorf("SyncAndWait: %w", err)
		}
		if snapshot && i == 1 {
			if _, err := e.LS.Snapshot(ctx); err != nil {
				return nil, fmt.Errorf("Snapshot: %w", err)
			}
			e.Res.Count("ltx_level9_snapshot_taken", 1)
		}
		if i == 2 && rng.Intn(2) == 0 {
			if _, err := e.LS.Compact(ctx, 1); err == nil {
				e.Res.Count("ltx_level1_compaction", 1)
			}
		}
	}
	cctx, cancel := context.WithTimeout(ctx, 60*time.Second)
	err := e.LS.Close(cctx)
	cancel()
	if err != nil {
		return nil, fmt.Errorf("close litestream: %w", err)
	}
	era := &ltxEra{}
	src, err := e.SourceImage()
	if err != nil {
		return nil, err
	}
	era.src = src
	for _, f := range oracle.ListAll(e.RepPath) {
		off := map[int]time.Duration{0: 0, 9: 3 * time.Minute}[f.Level]
		if f.Level > 0 && f.Level < 9 {
			off = time.Duration(f.Level) * time.Minute
			if off > 2*time.Minute {
				off = 2 * time.Minute
			}
		}
		t := start.Add(time.Duration(f.Max)*4*time.Minute + off)
		if err := os.Chtimes(f.Path, t, t); err != nil {
			return nil, err
		}
		era.files = append(era.files, ltxFile{ref: f, t: t})
		if f.Level == 9 && (!era.hasSnap || t.Before(era.firstSnap)) {
			era.hasSnap, era.firstSnap = true, t
		}
	}
	if len(era.files) == 0 {
		return nil, fmt.Errorf("litestream produced no LTX files")
	}
	sort.Slice(era.files, func(i, j int) bool { return era.files[i].t.Before(era.files[j].t) })
	era.first, era.last = era.files[0].t, era.files[len(era.files)-1].t
	return era, nil
}
