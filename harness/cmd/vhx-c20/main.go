// private development binary for C20 (removed when the check is registered in cmd/vh)
package main

import (
	"io"
	"log/slog"
	"os"

	"verif/harness/internal/vf"

	_ "verif/harness/internal/c20"
)

func main() {
	slog.SetDefault(slog.New(slog.NewTextHandler(io.Discard, nil)))
	os.Exit(vf.Main(os.Args[1:]))
}
