// Package c13: checkpoint policy keeps the WAL bounded and an idle database
// silent (DESIGN §4 C13).
package c13

import (
	"context"
	"crypto/sha256"
	"encoding/json"
	"errors"
	"fmt"
	"io"
	"math/rand"
	"strings"
	"sync/atomic"
	"time"

	"github.com/benbjohnson/litestream"
	"github.com/superfly/ltx"

	"verif/harness/internal/hist"
	"verif/harness/internal/oracle"
	"verif/harness/internal/vf"
)

type spec struct {
	Kind string      `json:"kind"` // gen | demo-trunc-below-min | demo-min-one
	Seed int64       `json:"seed"`
	Ops  int         `json:"ops"`
	Cfg  hist.Config `json:"cfg"`
}

const idleSyncs = 10
const idleBudget = 6 // B of DESIGN §4 C13

func init() {
	vf.Register(&vf.Check{
		ID:    "C13",
		Level: "exploration",
		Rule: "generated write/sync histories (bursts below/at/above each threshold, single transactions larger than the threshold, chunked catch-up with MaxSyncWALBytes of 1..3 frames, readers and open transactions that pin the WAL for a while) over the threshold lattice incl. TruncatePageN < MinCheckpointPageN and CheckpointInterval=1ns; " +
			"after every successful DB.Sync with nothing pinned, SQLite's mxFrame of the live WAL generation (reference decoder) must be <= min(MinCheckpointPageN, effective TruncatePageN); after the last application write, 10 idle syncs may create at most 6 new TXIDs in total and none in syncs 7..10. " +
			"distinct = hash(config, op sequence); non-trivial = >=3 bound evaluations where the WAL had exceeded the threshold before the sync, or an idle phase following >=5 commits",
		Assumptions: []string{"frames counted up to the last valid commit frame of the current generation", "file replica only"},
		Cases:       cases,
		RunCase:     runCase,
		MinEvals:    50,
		CaseTimeout: 10 * time.Minute,
	})
}

func cases(run *vf.Run) ([]json.RawMessage, error) {
	n := 48
	if run.Tier == "thorough" {
		n = 600
	}
	var out []json.RawMessage
	// demonstration cases for the two configurations in which the statement failed on the original tree
	out = append(out, vf.Spec(spec{Kind: "demo-trunc-below-min", Seed: 11, Ops: 12, Cfg: hist.Config{PageSize: 4096, MinCheckpointPageN: 50, TruncatePageN: 20, CheckpointInterval: 0, MaxSyncWALFrames: 0}}))
	out = append(out, vf.Spec(spec{Kind: "demo-min-one", Seed: 12, Ops: 8, Cfg: hist.Config{PageSize: 4096, MinCheckpointPageN: 1, TruncatePageN: 0, CheckpointInterval: 0, MaxSyncWALFrames: 0}}))
	for i := 0; i < n; i++ {
		rng := rand.New(rand.NewSource(vf.SubSeed(run.Seed, "C13", i)))
		cfg := hist.RandomConfig(rng)
		cfg.PageSize = []int{4096, 512, 1024, 8192, 65536, 2048}[i%6]
		cfg.MaxSyncLTXFiles = 0
		out = append(out, vf.Spec(spec{Kind: "gen", Seed: vf.SubSeed(run.Seed, "C13-case", i), Ops: 30 + rng.Intn(40), Cfg: cfg}))
	}
	// the same histories with faults in between: the local LTX staging area runs out of
	// space for the duration of one sync, and snapshot uploads fail partway. Once the fault
	// is over, the next successful sync has to restore the bound (appended: the cases above
	// keep their indices)
	nf := 16
	if run.Tier == "thorough" {
		nf = 200
	}
	for i := 0; i < nf; i++ {
		rng := rand.New(rand.NewSource(vf.SubSeed(run.Seed, "C13F", i)))
		cfg := hist.RandomConfig(rng)
		cfg.PageSize = []int{4096, 512, 1024, 8192, 65536, 2048}[(i+1)%6]
		cfg.MaxSyncLTXFiles = 0
		out = append(out, vf.Spec(spec{Kind: "gen-fault", Seed: vf.SubSeed(run.Seed, "C13F-case", i), Ops: 30 + rng.Intn(40), Cfg: cfg}))
	}
	return out, nil
}

// failUpload is a ReplicaClient proxy whose next snapshot-level upload, when armed,
// consumes part of the stream and fails.
type failUpload struct {
	litestream.ReplicaClient
	arm atomic.Bool
}

func (p *failUpload) WriteLTXFile(ctx context.Context, level int, minTXID, maxTXID ltx.TXID, r io.Reader) (*ltx.FileInfo, error) {
	if level == litestream.SnapshotLevel && p.arm.CompareAndSwap(true, false) {
		_, _ = io.CopyN(io.Discard, r, 700)
		return nil, errors.New("injected upload fault (snapshot upload broken partway)")
	}
	return p.ReplicaClient.WriteLTXFile(ctx, level, minTXID, maxTXID, r)
}

func threshold(c hist.Config) int {
	thr := c.MinCheckpointPageN
	tp := c.TruncatePageN
	if tp == 0 {
		tp = litestream.DefaultTruncatePageN
	}
	if tp < thr {
		thr = tp
	}
	return thr
}

func runCase(run *vf.Run, raw json.RawMessage, dir string) *vf.Result {
	var s spec
	res := &vf.Result{}
	if err := json.Unmarshal(raw, &s); err != nil {
		res.HarnessErr = err.Error()
		return res
	}
	rng := rand.New(rand.NewSource(s.Seed))
	e, err := hist.NewEnv(dir, s.Cfg, rng, res)
	if err != nil {
		res.HarnessErr = err.Error()
		return res
	}
	defer e.Close()
	faulty := s.Kind == "gen-fault"
	canFill := false
	upl := &failUpload{}
	if faulty {
		if err := e.MountMeta(64); err != nil {
			res.Count("local_fault_unavailable(mount failed)", 1)
		} else {
			canFill = true
		}
		e.Wrap = func(c litestream.ReplicaClient) litestream.ReplicaClient { upl.ReplicaClient = c; return upl }
	}
	if err := e.StartLS(); err != nil {
		res.HarnessErr = "open litestream: " + err.Error()
		return res
	}
	ctx := context.Background()
	thr := threshold(s.Cfg)
	cfgClass := ""
	if tp := s.Cfg.TruncatePageN; tp != 0 && tp < s.Cfg.MinCheckpointPageN {
		cfgClass = ":trunc<min"
	}
	var ops []string
	commits := 0
	overBefore := 0
	frames := func() int {
		n, err := oracle.LiveWALFrames(e.DBPath + "-wal")
		if err != nil {
			return -1
		}
		return n
	}
	syncAndCheck := func(tag string) bool {
		before := frames()
		err := e.LS.Sync(ctx)
		after := frames()
		e.Logf("%s DB.Sync err=%v frames before=%d after=%d thr=%d pinned=%v", tag, err, before, after, thr, e.Pinned())
		if err != nil || e.Pinned() || after < 0 {
			return false
		}
		res.Evals++
		res.Count("bound_evaluations", 1)
		if before > thr {
			overBefore++
			res.Count("bound_evaluations_wal_over_threshold_before_sync", 1)
		}
		if after > thr {
			res.Violate("wal-bound-exceeded"+cfgClass, "%s: after a successful sync with nothing pinned the live WAL holds %d frames, lowest configured threshold is %d [%s]", tag, after, thr, s.Cfg)
			return true
		}
		return false
	}
	burst := func(n int) error {
		for i := 0; i < n; i++ {
			ok, err := e.AppWriteKind([]string{"ins-small", "ins-multi", "update", "ins-small", "delete-half"}[rng.Intn(5)])
			if err != nil {
				return err
			}
			if ok {
				commits++
			}
		}
		return nil
	}
	herr := func(err error) *vf.Result { res.HarnessErr = err.Error(); return res }

	switch s.Kind {
	case "demo-trunc-below-min":
		// burst of ~25 frames: above TruncatePageN=20, below MinCheckpointPageN=50
		if err := burst(3); err != nil {
			return herr(err)
		}
		if syncAndCheck("warmup") {
			return res
		}
		for frames() < 24 {
			if err := burst(1); err != nil {
				return herr(err)
			}
		}
		ops = append(ops, "burst-to-25-frames", "sync")
		if syncAndCheck("after burst") {
			return res
		}
	case "demo-min-one":
		if err := burst(4); err != nil {
			return herr(err)
		}
		ops = append(ops, "burst4", "sync")
		if syncAndCheck("after burst") {
			return res
		}
	default:
		for i := 0; i < s.Ops; i++ {
			r := rng.Intn(20)
			var op string
			if faulty && rng.Intn(6) == 0 {
				if canFill && rng.Intn(2) == 0 {
					op = "sync-while-disk-full"
					if err := e.MetaFull(true); err != nil {
						return herr(err)
					}
					err := e.LS.Sync(ctx)
					e.Logf("DB.Sync with the meta file system full err=%v", err)
					if err != nil {
						res.Count("syncs_failed_while_disk_full", 1)
					}
					if err := e.MetaFull(false); err != nil {
						return herr(err)
					}
				} else {
					op = "snapshot-upload-fails"
					upl.arm.Store(true)
					_, err := e.LS.Snapshot(ctx)
					upl.arm.Store(false)
					e.Logf("Snapshot with a failing upload err=%v", err)
					if err != nil {
						res.Count("snapshot_uploads_failed", 1)
					}
				}
				ops = append(ops, op)
				continue
			}
			switch {
			case r < 7:
				// burst sized around the threshold
				n := 1 + rng.Intn(4)
				if rng.Intn(4) == 0 {
					n = thr/2 + rng.Intn(thr+2)
					if n > 60 {
						n = 60
					}
				}
				op = fmt.Sprintf("burst%d", n)
				if err := burst(n); err != nil {
					return herr(err)
				}
			case r < 8:
				op = "bigtxn"
				ok, err := e.AppWriteKind("ins-big")
				if err != nil {
					return herr(err)
				}
				if ok {
					commits++
				}
			case r < 9:
				op = "rollback-spill"
				if _, err := e.AppWriteKind("rollback-spill"); err != nil {
					return herr(err)
				}
			case r < 10:
				op = "otx"
				if err := e.ToggleOpenTx(); err != nil {
					return herr(err)
				}
			case r < 11:
				op = "reader"
				e.ToggleReader()
			case r < 12:
				op = "maint"
				e.Maint()
			case r < 13:
				op = "syncwait"
				err := e.LS.SyncAndWait(ctx)
				e.Logf("SyncAndWait err=%v", err)
			default:
				op = "sync"
				if syncAndCheck(fmt.Sprintf("op%d", i)) {
					return res
				}
			}
			ops = append(ops, op)
		}
	}
	// idle phase
	if err := e.EndOpenTx(rng.Intn(2) == 0); err != nil {
		return herr(err)
	}
	e.EndReader()
	if err := e.LS.SyncAndWait(ctx); err != nil {
		e.Logf("pre-idle SyncAndWait err=%v", err)
		res.Count("pre_idle_sync_failed", 1)
	} else {
		pos0, err := e.LS.Pos()
		if err != nil {
			return herr(err)
		}
		txids := []uint64{uint64(pos0.TXID)}
		okIdle := true
		for k := 1; k <= idleSyncs; k++ {
			if err := e.LS.Sync(ctx); err != nil {
				e.Logf("idle sync %d err=%v", k, err)
				okIdle = false
				break
			}
			p, err := e.LS.Pos()
			if err != nil {
				return herr(err)
			}
			txids = append(txids, uint64(p.TXID))
		}
		if okIdle {
			res.Evals++
			res.Count("idle_phases", 1)
			total := int(txids[idleSyncs] - txids[0])
			tail := int(txids[idleSyncs] - txids[6])
			res.Count(fmt.Sprintf("idle_new_files_%d", total), 1)
			e.Logf("idle phase: TXID after each idle sync %v", txids)
			if total > idleBudget || tail > 0 {
				class := ""
				if s.Cfg.MinCheckpointPageN == 1 {
					class = ":min=1"
				}
				res.Violate("idle-not-quiescent"+class, "application idle, %d repeated syncs created %d new LTX files (%d of them in syncs 7..10): TXIDs %v [%s]", idleSyncs, total, tail, txids, s.Cfg)
				return res
			}
			if fr := frames(); fr > thr {
				res.Violate("wal-bound-exceeded"+cfgClass, "after the idle phase the live WAL holds %d frames, threshold %d [%s]", fr, thr, s.Cfg)
			}
		}
	}
	res.Sig = fmt.Sprintf("%x", sha256.Sum256([]byte(s.Kind+s.Cfg.String()+strings.Join(ops, ","))))[:16]
	res.Nontrivial = overBefore >= 3 || commits >= 5
	res.Sample = map[string]any{"kind": s.Kind, "cfg": s.Cfg.String(), "threshold": thr, "ops": strings.Join(ops, " "), "commits": commits, "evaluations_with_wal_over_threshold": overBefore}
	return res
}
