package c14

import (
	"fmt"
	"path/filepath"
	"strings"

	"verif/harness/internal/c03"
	"verif/harness/internal/vf"
)

// Cross-process part of C14. The application lives in this process, litestream in a
// victim process of its own (as in a real deployment). Around every litestream operation
// the application closes its last connection, a third process asks the kernel who holds
// SQLite's shared lock on the database file (it must be the litestream process: that
// lock is what keeps SQLite's last-connection clean-up from checkpointing and deleting
// the -wal/-shm files under litestream), and reconnects; the ledger must then hold
// every commit that returned.
func lockSteps(variant int) []c03.Step {
	var st []c03.Step
	add := func(lines ...string) {
		for _, l := range lines {
			op, arg, _ := strings.Cut(l, " ")
			st = append(st, c03.Step{Op: op, Arg: arg})
		}
	}
	probe := func() { add("appclose", "lockprobe held", "appopen") }
	add("start", "w small", "w multi", "v sync-wait")
	probe()
	ops := [][]string{
		{"v snapshot"},
		{"w big", "v sync-wait"},
		{"v checkpoint PASSIVE"},
		{"w update", "v sync"},
		{"v compact 1"},
		{"v checkpoint TRUNCATE"},
		{"w small", "v sync-wait", "v snapshot"},
		{"v checkpoint RESTART"},
		{"w multi", "v sync-wait", "v compact 1", "v compact 2"},
	}
	for i := range ops {
		add(ops[(i+variant*4)%len(ops)]...)
		probe()
	}
	// the application goes away for a while and comes back (its last connection closes
	// with litestream running, then it writes again)
	add("appclose", "lockprobe held", "appopen", "w small", "w big", "v sync-wait")
	probe()
	add("v close", "appclose", "lockprobe free", "appopen", "stop")
	return st
}

func runLocks(s spec, dir string, res *vf.Result) *vf.Result {
	cfg := c03.Configs[s.LockVariant%len(c03.Configs)]
	w, err := c03.NewWorld(filepath.Join(dir, "root"), filepath.Join(dir, "work"), cfg, s.Seed, res.Logf)
	if err != nil {
		res.HarnessErr = err.Error()
		return res
	}
	defer w.Close()
	steps := lockSteps(s.LockVariant)
	at, err := w.Run(steps, 0)
	res.Evals += w.LockProbes
	res.Count("cross_process_lock_probes", w.LockProbes)
	if oe, ok := err.(*c03.OracleError); ok {
		res.Evals++
		res.Violate(oe.Key, "%s [step %d: %s; config %s]", oe.Msg, at, w.InFlight, cfg.Name)
		return res
	}
	if err != nil {
		res.HarnessErr = fmt.Sprintf("locks scenario step %d (%s): %v", at, w.InFlight, err)
		return res
	}
	res.Sig = fmt.Sprintf("locks-%d", s.LockVariant)
	res.Nontrivial = w.LockProbes >= 8
	res.Sample = map[string]any{"kind": "cross-process lock probes", "variant": s.LockVariant, "probes": w.LockProbes, "config": cfg.Name}
	return res
}
