package c20

import (
	"context"
	"errors"
	"fmt"
	"io"
	"log/slog"
	"math/rand"
	"time"

	"github.com/benbjohnson/litestream"
	lss3 "github.com/benbjohnson/litestream/s3"

	"verif/harness/internal/vf"
)

// Near-expiry sub-check. The scheduled sub-spaces use lease-liveness CLASSES (+1 h,
// -1 h), so "the other instance's lease is still live, but only just" never occurs
// there. Here instance A holds a lease with a short TTL (0.8-2.5 s) and instance B
// (and sometimes C) tries to acquire immediately afterwards. The verdict uses recorded
// values only: the ExpiresAt the holder's lease object carries, and a clock reading
// taken AFTER the competing acquire returned. If that reading is still before
// ExpiresAt, the lease was unexpired during the whole acquire, so the acquire must
// have been refused; if the machine stalled past ExpiresAt the pair is not evaluable
// and only counted.
func runNear(seed int64, n int, res *vf.Result) {
	rng := rand.New(rand.NewSource(seed))
	ctx := context.Background()
	for k := 0; k < n; k++ {
		st := &store{}
		mk := func(id int, ttl time.Duration) *lss3.Leaser {
			l := lss3.NewLeaser()
			l.SetLogger(slog.New(slog.NewTextHandler(io.Discard, nil)))
			l.SetClient(&cli{st: st, id: id})
			l.Owner = fmt.Sprintf("c%d", id)
			l.TTL = ttl
			l.Bucket = "b"
			l.Path = "db"
			return l
		}
		ttl := time.Duration(800+rng.Intn(1700)) * time.Millisecond
		a, b := mk(0, ttl), mk(1, time.Hour)
		held, err := a.AcquireLease(ctx)
		if err != nil {
			res.HarnessErr = fmt.Sprintf("near-expiry: first acquire on an empty store failed: %v", err)
			return
		}
		shape := rng.Intn(3)
		if shape == 1 { // the holder renews first (short TTL again)
			if r, err := a.RenewLease(ctx, held); err == nil {
				held = r
			} else {
				res.HarnessErr = fmt.Sprintf("near-expiry: renew by the only holder failed: %v", err)
				return
			}
		}
		if shape == 2 { // a little of the lease's life has passed (still well inside it)
			time.Sleep(time.Duration(rng.Intn(int(ttl/4/time.Millisecond)+1)) * time.Millisecond)
		}
		got, berr := b.AcquireLease(ctx)
		after := time.Now()
		res.Count("near_expiry_pairs", 1)
		if !after.Before(held.ExpiresAt) {
			res.Count("near_expiry_pairs_not_evaluable(clock passed ExpiresAt)", 1)
			continue
		}
		res.Evals++
		res.Count("near_expiry_pairs_evaluated", 1)
		left := held.ExpiresAt.Sub(after)
		switch {
		case berr == nil:
			res.Violate("two-live-holders:near-expiry", "instance c0 holds generation %d until %s (TTL %s); instance c1's acquire returned at %s, %d ms BEFORE that expiry, and succeeded with generation %d: two instances hold an unexpired lease [shape %d; store: %v]",
				held.Generation, held.ExpiresAt.Format(time.RFC3339Nano), ttl, after.Format(time.RFC3339Nano), left.Milliseconds(), got.Generation, shape, st.events)
			return
		default:
			var le *litestream.LeaseExistsError
			if !errors.As(berr, &le) {
				res.Count("near_expiry_refused_with_other_error", 1)
				res.Logf("near-expiry: acquire refused with %v", berr)
			}
		}
		// the refused instance must not be able to renew or release the holder's lease either
		if rng.Intn(2) == 0 {
			if err := a.ReleaseLease(ctx, held); err != nil {
				res.Violate("holder-cannot-release:near-expiry", "the holder's release of its own unexpired lease failed after a refused acquire by another instance: %v", err)
				return
			}
		}
	}
}
