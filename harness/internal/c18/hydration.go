//go:build vfs

package c18

// Hydration dimension of C18: the VFS file is opened through litestream.VFS
// with HydrationEnabled, so that ReadAt is served from the local hydrated copy
// once the background restore has completed.
//
// VFSFile keeps its *Hydrator in an unexported field and the verif hooks export
// no accessor for it, so the harness observes the hydrator through the only
// channel it writes to: its logger. The handler below is installed as the
// VFS's slog handler; the hydration goroutine calls it synchronously, which
// gives two deterministic things:
//   - the end of hydration: "hydration complete" is logged after SetComplete()
//     and the cache purge (failures log "hydration failed" / "hydration catch-up
//     failed" / "hydration truncate failed" / "hydration initialization failed"),
//   - a suspension point: the handler can hold the hydration goroutine at the
//     first "opening ltx file for hydration" (Hydrator.Restore, no mutex held)
//     or "resuming hydration from persistent file" (runHydration, no mutex held)
//     until the harness releases it -- a slow restore of a large database.

import (
	"context"
	"fmt"
	"log/slog"
	"os"
	"path/filepath"
	"strconv"
	"strings"
	"sync"
	"sync/atomic"
	"time"

	"github.com/benbjohnson/litestream"
	"github.com/psanford/sqlite3vfs"
	"github.com/superfly/ltx"
)

// Violation keys of the hydration dimension. Each is decided by a predicate
// over the history (what happened while the hydrated copy was being built or
// how the position moved past it), never by the symptom.
const (
	// a poll advanced the position while the background hydration was in flight
	keyHydPoll = "hydration-misses-poll-in-flight"
	// SetTargetTime ran while the hydration was in flight; it completed during time travel
	keyHydTT = "hydration-completes-during-time-travel"
	// ResetTime moved the position of a view that serves from its hydrated copy (no time travel before)
	keyHydReset = "reset-time-moves-position-past-hydrated-file"
	// a persistent hydrated copy was resumed and level-0 files between its TXID and the position are gone
	keyHydResume = "hydration-resume-level0-gap"
)

type hydWatch struct {
	mu        sync.Mutex
	done      chan struct{} // closed when the hydration goroutine has finished (either way)
	finished  bool
	completed bool
	failed    string
	disabled  int // "hydration disabled for time travel"
	applyErrs int // "failed to apply updates to hydrated file"
	resumed   string
	catchUp   string
	catchUps  int  // "catching up hydration" records of this hydration
	livelock  bool // the goroutine kept catching up without ever reaching the position

	gate    atomic.Bool
	entered chan struct{}
	release chan struct{}
	gatedAt string
}

func newHydWatch(gated bool) *hydWatch {
	w := &hydWatch{done: make(chan struct{}), entered: make(chan struct{}), release: make(chan struct{})}
	w.gate.Store(gated)
	return w
}

func (w *hydWatch) finish(completed bool, failed string) {
	w.mu.Lock()
	defer w.mu.Unlock()
	if w.finished {
		return
	}
	w.finished, w.completed, w.failed = true, completed, failed
	close(w.done)
}

func (w *hydWatch) state() (finished, completed bool, failed string, disabled, applyErrs int) {
	w.mu.Lock()
	defer w.mu.Unlock()
	return w.finished, w.completed, w.failed, w.disabled, w.applyErrs
}

// serving is the harness's model of Hydrator.Complete(): the hydration
// finished and no SetTargetTime has switched hydrated reads off since.
func (w *hydWatch) serving() bool {
	if w == nil {
		return false
	}
	_, completed, _, disabled, _ := w.state()
	return completed && disabled == 0
}

type hydHandler struct {
	cur *atomic.Pointer[hydWatch]
}

func newHydHandler() *hydHandler { return &hydHandler{cur: &atomic.Pointer[hydWatch]{}} }

func (h *hydHandler) Enabled(context.Context, slog.Level) bool { return true }
func (h *hydHandler) WithAttrs([]slog.Attr) slog.Handler       { return h }
func (h *hydHandler) WithGroup(string) slog.Handler            { return h }

func attrs(r slog.Record) string {
	var parts []string
	r.Attrs(func(a slog.Attr) bool {
		parts = append(parts, a.Key+"="+a.Value.String())
		return true
	})
	return strings.Join(parts, " ")
}

func (h *hydHandler) Handle(_ context.Context, r slog.Record) error {
	w := h.cur.Load()
	if w == nil {
		return nil
	}
	switch r.Message {
	case "opening ltx file for hydration", "resuming hydration from persistent file":
		if r.Message[0] == 'r' {
			w.mu.Lock()
			w.resumed = attrs(r)
			w.mu.Unlock()
		}
		if w.gate.CompareAndSwap(true, false) {
			w.mu.Lock()
			w.gatedAt = r.Message
			w.mu.Unlock()
			close(w.entered)
			<-w.release
		}
	case "catching up hydration":
		w.mu.Lock()
		w.catchUp = attrs(r)
		w.catchUps++
		n := w.catchUps
		w.mu.Unlock()
		if n == 60 {
			// logical step count, not a clock: the harness is blocked in awaitHydration and the
			// primary is not writing, so the position does not move; sixty catch-up rounds
			// without completion mean the goroutine does not converge
			w.mu.Lock()
			w.livelock = true
			w.mu.Unlock()
			w.finish(false, "60 catch-up rounds without reaching the position: "+attrs(r))
		}
	case "hydration complete":
		w.finish(true, "")
	case "hydration failed", "hydration catch-up failed", "hydration truncate failed", "hydration initialization failed, continuing without hydration":
		w.finish(false, r.Message+" "+attrs(r))
	case "hydration disabled for time travel":
		w.mu.Lock()
		w.disabled++
		w.mu.Unlock()
	case "failed to apply updates to hydrated file":
		w.mu.Lock()
		w.applyErrs++
		w.mu.Unlock()
	}
	return nil
}

func (h *harness) hydPath(label string) string {
	if h.s.Hyd != "persist" {
		return "" // litestream.VFS uses a temp file under os.TempDir() (= the case directory)
	}
	return filepath.Join(h.e.Dir, "hyd-"+label+".db")
}

// newHydratedFile opens a VFSFile the way SQLite would (VFS.Open on the main
// database), with hydration enabled. gated holds the hydration goroutine at
// its first step until releaseHydration.
func (h *harness) newHydratedFile(gated bool) (*litestream.VFSFile, *viewClient, *hydWatch, error) {
	c := h.newClient()
	hh := newHydHandler()
	w := newHydWatch(gated)
	hh.cur.Store(w)
	v := litestream.NewVFS(c, slog.New(hh))
	v.PollInterval = 24 * time.Hour
	if h.s.Cache > 0 {
		v.CacheSize = h.s.Cache * h.ps
	}
	v.HydrationEnabled = true
	v.HydrationPath = h.hydPath("direct")
	sf, _, err := v.Open("db", sqlite3vfs.OpenMainDB|sqlite3vfs.OpenReadOnly)
	if err != nil {
		return nil, nil, nil, err
	}
	f, ok := sf.(*litestream.VFSFile)
	if !ok {
		_ = sf.Close()
		return nil, nil, nil, fmt.Errorf("VFS.Open returned %T", sf)
	}
	return f, c, w, nil
}

// persistedTXID reads the TXID a persistent hydrated copy says it is at.
func persistedTXID(path string) int {
	if path == "" {
		return 0
	}
	if _, err := os.Stat(path); err != nil {
		return 0
	}
	b, err := os.ReadFile(path + ".meta")
	if err != nil {
		return 0
	}
	n, err := strconv.ParseUint(strings.TrimSpace(string(b)), 10, 64)
	if err != nil {
		return 0
	}
	return int(n)
}

// missedRange: transactions (lo, hi] (only the listed ones if only != nil)
// whose pages the history says never reached the hydrated copy.
type missedRange struct {
	key    string
	lo, hi int
	only   map[int]bool
	why    string
}

func (v *view) missedHit(lw int) *missedRange {
	for i := range v.missed {
		m := &v.missed[i]
		if lw > m.lo && lw <= m.hi && (m.only == nil || m.only[lw]) {
			return m
		}
	}
	return nil
}

func (v *view) miss(key string, lo, hi int, only map[int]bool, why string) {
	v.missed = append(v.missed, missedRange{key: key, lo: lo, hi: hi, only: only, why: why})
}

// noteResume records the history predicate of keyHydResume: the hydrated copy
// is resumed at TXID r (its catch-up lists level 0 from r+1) and level-0 files
// in (r, pos] are no longer on the replica.
func (h *harness) noteResume(v *view, r int) {
	pos := int(v.f.Pos().TXID)
	if r <= 0 || r > pos {
		delete(h.persistMissed, v.label) // restored from scratch
		return
	}
	v.resumeFrom = r
	if prior := h.persistMissed[v.label]; len(prior) > 0 {
		for _, m := range prior {
			m.why = "inherited with the persistent hydrated copy from an earlier Open of this history: " + strings.TrimPrefix(m.why, "inherited with the persistent hydrated copy from an earlier Open of this history: ")
			v.missed = append(v.missed, m)
		}
		h.res.Count("hydration_resumed_copy_with_inherited_missed_ranges", 1)
	}
	h.res.Count("hydration_resumed_from_persistent_file", 1)
	gone := map[int]bool{}
	var names []string
	for n := r + 1; n <= pos; n++ {
		if _, err := os.Stat(h.client.LTXFilePath(0, ltx.TXID(n), ltx.TXID(n))); os.IsNotExist(err) {
			gone[n] = true
			if len(names) < 8 {
				names = append(names, strconv.Itoa(n))
			}
		}
	}
	why := ""
	if len(gone) > 0 {
		if len(gone) > len(names) {
			names = append(names, "...")
		}
		why = fmt.Sprintf("persistent hydrated copy resumed at TXID %d, position %d, level-0 files no longer on the replica: %s", r, pos, strings.Join(names, ","))
		v.miss(keyHydResume, r, pos, gone, why)
		h.res.Count("hydration_resume_with_level0_gap", 1)
	}
	h.e.Logf("%s view: persistent hydrated copy at TXID %d, position %d, level-0 gap: %q", v.label, r, pos, why)
}

// awaitHydration blocks until the hydration goroutine of the view has
// finished. It is the only wait in the hydration dimension and is driven by the
// goroutine's own "hydration complete" / failure log record.
func (h *harness) awaitHydration(v *view) bool {
	w := v.hw
	if w == nil {
		return false
	}
	select {
	case <-w.done:
	case <-time.After(90 * time.Second):
		h.res.HarnessErr = "hydration did not finish within 90s"
		return false
	}
	_, completed, failed, _, _ := w.state()
	w.mu.Lock()
	resumed, catchUp, livelock := w.resumed, w.catchUp, w.livelock
	w.mu.Unlock()
	if livelock {
		h.res.Evals++
		h.res.Violate("hydration-does-not-converge", "%s view: the hydration goroutine ran 60 catch-up rounds while the replica was not changing and never reached the view's position (last: %s): the hydrated copy never completes and the goroutine spins [%s]", v.label, catchUp, h.s.Cfg)
	}
	h.e.Logf("%s view hydration finished: complete=%v %s resumed=%q catch-up=%q", v.label, completed, failed, resumed, catchUp)
	if completed {
		// the copy is restored (or caught up) to the position the goroutine saw when it started
		v.hydAt = int(v.posAtOpen)
		h.res.Count("hydration_completed", 1)
		if resumed != "" {
			h.res.Count("hydration_completed_by_resume", 1)
		}
		if catchUp != "" {
			h.res.Count("hydration_catch_up_ran", 1)
		}
	} else {
		h.res.Count("hydration_failed", 1)
	}
	return completed
}

// gatedOpenEntered waits until the held hydration goroutine has reached its
// suspension point (or has finished without passing one).
func (h *harness) gatedOpenEntered(v *view) bool {
	select {
	case <-v.hw.entered:
		v.gated = true
		v.posAtGate = v.f.Pos().TXID
		v.hw.mu.Lock()
		at := v.hw.gatedAt
		v.hw.mu.Unlock()
		h.e.Logf("%s view: hydration goroutine held at %q, position %d", v.label, at, v.posAtGate)
		h.res.Count("hydration_held_in_flight", 1)
		return true
	case <-v.hw.done:
		h.e.Logf("%s view: hydration finished without reaching a suspension point", v.label)
		h.awaitHydration(v)
		return false
	case <-time.After(60 * time.Second):
		h.res.HarnessErr = "held hydration did not reach its suspension point within 60s"
		return false
	}
}

// releaseHydration lets a held hydration run to its end and compares the view
// with the reference it has to serve now: Restore(Timestamp=T) if a target
// time is set, the restore at Pos() otherwise.
func (h *harness) releaseHydration(v *view) {
	if v == nil || !v.gated {
		return
	}
	v.gated = false
	close(v.hw.release)
	if !h.awaitHydration(v) {
		return
	}
	if v.tt {
		fx := v.ttFx
		fx.ref = v.ttTXID
		fx.kind = "hydration-completes-in-time-travel"
		h.compares++
		h.res.Count("compare_"+fx.kind, 1)
		ok := h.compareBytes(v, fx, v.ttWant, v.ttWhat)
		h.e.Logf("%s view %s: view pos=%d -> ok=%v", v.label, fx.kind, v.f.Pos().TXID, ok)
		return
	}
	fx := facts{kind: "hydration-completes", desc: fmt.Sprintf("hydration started at position %d, now %d", v.posAtOpen, v.f.Pos().TXID)}
	h.compare(v, fx)
}

// hydClassify applies the hydration predicates. They are history predicates
// that have to explain every page of the symptom (as cursorSeedingExplains
// does for F18); a page they do not explain leaves the violation generic.
//
//   - time-travel view: SetTargetTime ran while the hydration was in flight, the
//     hydration has completed since, and for every bad page the version the
//     hydrated copy holds is by the history not the one of the view's TXID: its
//     last writer up to the hydrated copy's TXID differs from its last writer up
//     to the view's TXID, or is a transaction that never reached the copy (see
//     below), or the page lies beyond the hydrated copy's size.
//   - latest view served from the hydrated copy: the last writer (<= the
//     reference TXID) of every bad page is a transaction the history says never
//     reached the hydrated copy: polled (or reached through ResetTime) while the
//     hydration was in flight, skipped by a ResetTime that moved the position, or
//     missing from level 0 when a persistent copy was resumed.
func (h *harness) hydClassify(v *view, fx facts) (string, string) {
	if v.hw == nil || len(fx.badPages) == 0 || fx.ref == 0 {
		return "", ""
	}
	_, completed, _, disabled, _ := v.hw.state()
	if v.tt {
		if v.ttDuringHyd == "" || !completed || disabled > 0 {
			return "", ""
		}
		var commit uint32
		if lf := h.e.Arch.Files[v.hydAt]; lf != nil {
			commit = lf.Hdr.Commit
		}
		for _, pg := range fx.badPages {
			lw := h.lastWriter(pg, v.hydAt)
			if lw == h.lastWriter(pg, v.ttTXID) && v.missedHit(lw) == nil && uint32(pg) <= commit {
				return "", ""
			}
		}
		return keyHydTT, fmt.Sprintf("%s and has completed since (hydrated copy at TXID %d, view stands for TXID %d); %s", v.ttDuringHyd, v.hydAt, v.ttTXID, fx.desc)
	}
	if !v.hw.serving() {
		return "", ""
	}
	var first *missedRange
	for _, pg := range fx.badPages {
		hit := v.missedHit(h.lastWriter(pg, fx.ref))
		if hit == nil {
			return "", ""
		}
		if first == nil {
			first = hit
		}
	}
	if first == nil {
		return "", ""
	}
	return first.key, first.why + "; every differing page was last written by a transaction in that range; " + fx.desc
}
