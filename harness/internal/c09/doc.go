// Package c09: only frames SQLite itself treats as committed are ever
// replicated (DESIGN §4 C09). The check itself needs the `verif` build tag
// (it calls WALReader.VerifPageMap); this file keeps the package importable
// without it.
package c09
