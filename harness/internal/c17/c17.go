// Package c17: databases crossing SQLite's lock-byte page at the 1 GiB offset
// replicate and restore correctly (DESIGN §4 C17).
package c17

import (
	"bytes"
	"context"
	"database/sql"
	"encoding/json"
	"fmt"
	"io"
	"log/slog"
	"math/rand"
	"os"
	"path/filepath"
	"time"

	"github.com/benbjohnson/litestream"
	"github.com/benbjohnson/litestream/file"
	"github.com/superfly/ltx"

	"verif/harness/internal/hist"
	"verif/harness/internal/oracle"
	"verif/harness/internal/sq"
	"verif/harness/internal/vf"
)

type spec struct {
	PageSize  int    `json:"ps"`
	Placement string `json:"placement"` // cross | before | beyond
	Seed      int64  `json:"seed"`
}

func init() {
	vf.Register(&vf.Check{
		ID:    "C17",
		Level: "exploration",
		Rule: "for each page size a database is built to 30 pages below SQLite's lock-byte page (pgno = 1GiB/pagesize + 1; zeroblob rows, journal_mode=OFF, then WAL, auto_vacuum=INCREMENTAL) and litestream is started (first sync = snapshot path below the boundary). Placements: " +
			"cross = grow to just below the lock page, sync, then ONE transaction that grows the database across the lock page, sync (incremental path with the lock page inside the growth range); " +
			"before = grow across in small transactions, sync, then delete + incremental_vacuum so that the database ends exactly on the page before the lock page, sync (shrink across the boundary); " +
			"justbeyond = grow across, then delete + incremental_vacuum so that the database ends exactly one page behind the lock page, sync, Checkpoint(TRUNCATE) (full level-0 copy of a database file of exactly lock+1 pages), one more write + sync; beyond = small MinCheckpointPageN, several transactions growing to 40 pages beyond the lock page within ONE sync, then Checkpoint(TRUNCATE) (the database file itself extends beyond the lock page; full level-0 snapshot written from it), one more write + sync. Then Compact(1), Restore(latest) (L0/L1 plan), Snapshot (snapshot path with the lock page inside the committed range), Close. " +
			"Oracle: every litestream call returns nil; every LTX file on the replica is decoded as a stream (CRC verified) and must not contain the lock page; the level-9 snapshot must hold exactly pages 1..Commit without the lock page and each page must equal the source; the restored file equals the checkpointed source page by page (mask: page1[24:28], page1[92:100], _litestream_seq root page), has the same size, and its lock page is all zero. " +
			"distinct = (page size, placement); non-trivial = the placement was reached exactly (page_count checked) and, for cross/beyond, at least one level-0 file has Commit beyond the lock page while its predecessor's Commit is below it",
		Assumptions: []string{"file replica client only", "the source is checkpointed in place (application and litestream quiescent, litestream closed) to obtain the committed source image; 1 GiB copies are avoided", "ltx decoder/LZ4 trusted"},
		Cases:       cases,
		RunCase:     runCase,
		MinEvals:    1000,
		CaseTimeout: 40 * time.Minute,
		Workers: func(run *vf.Run) int {
			return 3 // each case holds ~2.2 GB of scratch (source + restored file)
		},
	})
}

func cases(run *vf.Run) ([]json.RawMessage, error) {
	sizes := []int{65536}
	if run.Tier == "thorough" {
		// big ones first so the long cases do not end up alone at the tail
		sizes = []int{512, 1024, 2048, 4096, 8192, 16384, 32768, 65536}
	}
	var out []json.RawMessage
	for _, ps := range sizes {
		for _, pl := range []string{"cross", "before", "beyond", "justbeyond"} {
			out = append(out, vf.Spec(spec{PageSize: ps, Placement: pl, Seed: vf.SubSeed(run.Seed, "C17", ps, pl)}))
		}
	}
	return out, nil
}

type env struct {
	ctx  context.Context
	dir  string
	path string
	ps   int
	lock int
	app  *sql.DB
	ls   *litestream.DB
	rng  *rand.Rand
	res  *vf.Result
	logs *hist.LogCapture
	t0   time.Time
}

func (e *env) logf(format string, a ...any) {
	e.res.Logf("[%6.1fs] "+format, append([]any{time.Since(e.t0).Seconds()}, a...)...)
}

func (e *env) pageCount() (int, error) {
	var pc int
	err := e.app.QueryRow(`PRAGMA page_count`).Scan(&pc)
	return pc, err
}

func (e *env) blob(n int) []byte {
	b := make([]byte, n)
	e.rng.Read(b)
	return b
}

// build creates the database up to target pages with journalling off.
func (e *env) build(target int) error {
	app, err := sq.Open(e.path, 5000, 0, 1)
	if err != nil {
		return err
	}
	e.app = app
	if _, err := app.Exec(fmt.Sprintf("PRAGMA page_size=%d; PRAGMA auto_vacuum=2; PRAGMA journal_mode=OFF; PRAGMA synchronous=OFF;", e.ps)); err != nil {
		return err
	}
	if _, err := app.Exec(`CREATE TABLE big(id INTEGER PRIMARY KEY, v BLOB); CREATE TABLE t(id INTEGER PRIMARY KEY, v BLOB);`); err != nil {
		return err
	}
	var ps, av int
	if err := app.QueryRow(`PRAGMA page_size`).Scan(&ps); err != nil {
		return err
	}
	if err := app.QueryRow(`PRAGMA auto_vacuum`).Scan(&av); err != nil {
		return err
	}
	if ps != e.ps || av != 2 {
		return fmt.Errorf("pragmas not applied: page_size=%d (want %d) auto_vacuum=%d (want 2)", ps, e.ps, av)
	}
	// give t a non-trivial b-tree so that later small inserts add one page at a time
	tx, err := app.Begin()
	if err != nil {
		return err
	}
	for i := 0; i < 240; i++ {
		if _, err := tx.Exec(`INSERT INTO t(v) VALUES(?)`, e.blob(e.ps/3)); err != nil {
			tx.Rollback()
			return err
		}
	}
	if err := tx.Commit(); err != nil {
		return err
	}
	for {
		pc, err := e.pageCount()
		if err != nil {
			return err
		}
		remain := target - pc
		if remain < 12 {
			break
		}
		// overflow pages carry ps-4 bytes; pointer-map pages add 5/ps; keep 3% in hand
		n := int(float64(remain-6) * float64(e.ps-4) * 0.97)
		if n > 32<<20 {
			n = 32 << 20
		}
		if n < e.ps {
			break
		}
		if _, err := app.Exec(`INSERT INTO big(v) VALUES(zeroblob(?))`, n); err != nil {
			return fmt.Errorf("fill: %w", err)
		}
	}
	if err := e.growTo(target); err != nil {
		return err
	}
	var jm string
	if err := app.QueryRow(`PRAGMA journal_mode=wal`).Scan(&jm); err != nil || jm != "wal" {
		return fmt.Errorf("journal_mode=wal: %v %q", err, jm)
	}
	if _, err := app.Exec(`PRAGMA synchronous=NORMAL`); err != nil {
		return err
	}
	return nil
}

// growTo inserts small rows (one transaction each) until page_count >= n.
func (e *env) growTo(n int) error {
	for i := 0; i < 100000; i++ {
		pc, err := e.pageCount()
		if err != nil {
			return err
		}
		if pc >= n {
			return nil
		}
		if _, err := e.app.Exec(`INSERT INTO t(v) VALUES(?)`, e.blob(e.ps/3)); err != nil {
			return fmt.Errorf("grow: %w", err)
		}
	}
	return fmt.Errorf("growTo(%d) does not terminate", n)
}

// settle brings page_count to exactly n (from either side).
func (e *env) settle(n int) error {
	for i := 0; i < 600; i++ {
		pc, err := e.pageCount()
		if err != nil {
			return err
		}
		switch {
		case pc == n:
			return nil
		case pc < n:
			if _, err := e.app.Exec(`INSERT INTO t(v) VALUES(?)`, e.blob(e.ps/3)); err != nil {
				return err
			}
		default:
			k := pc - n
			if _, err := e.app.Exec(`DELETE FROM t WHERE id IN (SELECT id FROM t ORDER BY id DESC LIMIT ?)`, 3*k+6); err != nil {
				return err
			}
			if _, err := e.app.Exec(fmt.Sprintf(`PRAGMA incremental_vacuum(%d)`, k)); err != nil {
				return err
			}
		}
	}
	pc, _ := e.pageCount()
	return fmt.Errorf("cannot bring page_count to %d (is %d)", n, pc)
}

func (e *env) startLS(minCkpt int) error {
	db := litestream.NewDB(e.path)
	db.MonitorInterval = 0
	db.ShutdownSyncTimeout = 0
	db.BusyTimeout = time.Second
	db.Logger = slog.New(e.logs)
	if minCkpt > 0 {
		db.MinCheckpointPageN = minCkpt
	}
	fc := file.NewReplicaClient(filepath.Join(e.dir, "rep"))
	db.Replica = litestream.NewReplicaWithClient(db, fc)
	db.Replica.MonitorEnabled = false
	fc.Replica = db.Replica
	e.ls = db
	return db.Open()
}

// must records a violation when a litestream call fails: nothing contends with it.
func (e *env) must(op string, err error) bool {
	e.res.Evals++
	e.logf("%s err=%v", op, err)
	if err != nil {
		pc, _ := e.pageCount()
		e.res.Violate("op-failed:"+op, "%s fails on a database of %d pages (page size %d, lock page %d): %v", op, pc, e.ps, e.lock, err)
		return false
	}
	e.res.Count("ok_"+op, 1)
	return true
}

func maskPage1(b []byte) {
	for _, r := range [][2]int{{24, 28}, {92, 100}} {
		for i := r[0]; i < r[1]; i++ {
			b[i] = 0
		}
	}
}

// scanLTX streams one LTX file: no lock page; CRC verified by Close. If src is
// non-nil every page is also compared with the source file (snapshot check).
func (e *env) scanLTX(f oracle.FileRef, src *os.File, seqRoot int) (hdr ltx.Header, pages int, err error) {
	fh, err := os.Open(f.Path)
	if err != nil {
		return hdr, 0, err
	}
	defer fh.Close()
	defer func() {
		if p := recover(); p != nil {
			err = fmt.Errorf("ltx decoder panic: %v", p)
		}
	}()
	dec := ltx.NewDecoder(fh)
	if err := dec.DecodeHeader(); err != nil {
		return hdr, 0, err
	}
	hdr = dec.Header()
	if int(hdr.PageSize) != e.ps {
		return hdr, 0, fmt.Errorf("page size %d in header", hdr.PageSize)
	}
	buf := make([]byte, e.ps)
	ref := make([]byte, e.ps)
	next := uint32(1)
	lockSeen := false
	var diff []uint32
	for {
		var ph ltx.PageHeader
		if err := dec.DecodePage(&ph, buf); err == io.EOF {
			break
		} else if err != nil {
			return hdr, pages, err
		}
		pages++
		if int(ph.Pgno) == e.lock {
			lockSeen = true
		}
		if src != nil {
			if int(next) == e.lock {
				next++
			}
			if ph.Pgno != next {
				return hdr, pages, fmt.Errorf("snapshot holds page %d where page %d is expected", ph.Pgno, next)
			}
			next++
			if int(ph.Pgno) == seqRoot {
				continue
			}
			if _, err := src.ReadAt(ref, int64(ph.Pgno-1)*int64(e.ps)); err != nil {
				return hdr, pages, fmt.Errorf("source page %d: %w", ph.Pgno, err)
			}
			if ph.Pgno == 1 {
				maskPage1(buf)
				maskPage1(ref)
			}
			e.res.Evals++
			if !bytes.Equal(buf, ref) && len(diff) < 8 {
				diff = append(diff, ph.Pgno)
			}
		}
	}
	if err := dec.Close(); err != nil {
		return hdr, pages, err
	}
	e.res.Evals++
	if lockSeen {
		e.res.Violate("lock-page-in-ltx", "replicated file %s (page size %d, Commit %d) contains the lock page %d", f, e.ps, hdr.Commit, e.lock)
	}
	if src != nil {
		e.res.Evals++
		want := hdr.Commit
		if int(want) >= e.lock {
			want--
		}
		if uint32(pages) != want {
			e.res.Violate("snapshot-page-set", "snapshot %s has %d pages, expected %d (Commit %d without the lock page)", f, pages, want, hdr.Commit)
		}
		if len(diff) > 0 {
			e.res.Violate("snapshot-differs", "snapshot %s differs from the source on pages %v (page size %d, lock page %d)", f, diff, e.ps, e.lock)
		}
	}
	return hdr, pages, nil
}

// compareFiles is the streaming O-SRC comparison of the restored file with the
// checkpointed source.
func (e *env) compareFiles(srcPath, gotPath string) error {
	sfi, err := os.Stat(srcPath)
	if err != nil {
		return err
	}
	gfi, err := os.Stat(gotPath)
	if err != nil {
		return err
	}
	e.res.Evals++
	if sfi.Size() != gfi.Size() {
		e.res.Violate("size-differs", "restored file has %d bytes (%d pages), source %d bytes (%d pages); page size %d, lock page %d", gfi.Size(), gfi.Size()/int64(e.ps), sfi.Size(), sfi.Size()/int64(e.ps), e.ps, e.lock)
		return nil
	}
	r1, s1, n1, err := sq.SeqInfo(srcPath)
	if err != nil {
		return fmt.Errorf("source seq: %w", err)
	}
	r2, s2, n2, err := sq.SeqInfo(gotPath)
	e.res.Evals++
	if err != nil {
		e.res.Violate("restored-unreadable", "restored database cannot be read: %v", err)
		return nil
	}
	if r1 != r2 {
		e.res.Violate("restore-differs", "_litestream_seq root page differs: source %d restored %d", r1, r2)
		return nil
	}
	if s2 > s1 || n2 > n1 {
		e.res.Violate("restore-differs", "_litestream_seq restored (rows=%d seq=%d) is ahead of the source (rows=%d seq=%d)", n2, s2, n1, s1)
	}
	sf, err := os.Open(srcPath)
	if err != nil {
		return err
	}
	defer sf.Close()
	gf, err := os.Open(gotPath)
	if err != nil {
		return err
	}
	defer gf.Close()
	const chunkPages = 64
	a := make([]byte, e.ps*chunkPages)
	b := make([]byte, e.ps*chunkPages)
	zero := make([]byte, e.ps)
	total := int(sfi.Size() / int64(e.ps))
	var bad []int
	for pg := 1; pg <= total; pg += chunkPages {
		n := chunkPages
		if pg+n-1 > total {
			n = total - pg + 1
		}
		if _, err := io.ReadFull(sf, a[:n*e.ps]); err != nil {
			return fmt.Errorf("read source: %w", err)
		}
		if _, err := io.ReadFull(gf, b[:n*e.ps]); err != nil {
			return fmt.Errorf("read restored: %w", err)
		}
		if pg > 1 && (e.lock < pg || e.lock >= pg+n) && (r1 < pg || r1 >= pg+n) && bytes.Equal(a[:n*e.ps], b[:n*e.ps]) {
			e.res.Evals += n
			continue
		}
		for i := 0; i < n; i++ {
			p := pg + i
			x, y := a[i*e.ps:(i+1)*e.ps], b[i*e.ps:(i+1)*e.ps]
			e.res.Evals++
			switch {
			case p == e.lock:
				if !bytes.Equal(y, zero) {
					e.res.Violate("lock-page-not-empty", "the lock page %d of the restored file is not all zero (page size %d)", e.lock, e.ps)
				}
				e.res.Count("lock_page_inside_restored_file", 1)
				continue
			case p == r1 && r1 != 0:
				continue
			case p == 1:
				maskPage1(x)
				maskPage1(y)
			}
			if !bytes.Equal(x, y) && len(bad) < 10 {
				bad = append(bad, p)
			}
		}
	}
	if len(bad) > 0 {
		e.res.Violate("restore-differs", "restored file differs from the source on pages %v (page size %d, lock page %d, %d pages)", bad, e.ps, e.lock, total)
	}
	e.res.Count("pages_compared", total)
	return nil
}

func runCase(run *vf.Run, raw json.RawMessage, dir string) *vf.Result {
	var s spec
	res := &vf.Result{}
	if err := json.Unmarshal(raw, &s); err != nil {
		res.HarnessErr = err.Error()
		return res
	}
	e := &env{ctx: context.Background(), dir: dir, path: filepath.Join(dir, "db"), ps: s.PageSize, lock: int(ltx.LockPgno(uint32(s.PageSize))),
		rng: rand.New(rand.NewSource(s.Seed)), res: res, logs: &hist.LogCapture{}, t0: time.Now()}
	defer func() {
		if e.ls != nil && e.ls.IsOpen() {
			cctx, cancel := context.WithTimeout(e.ctx, 60*time.Second)
			_ = e.ls.Close(cctx)
			cancel()
		}
		if e.app != nil {
			e.app.Close()
		}
	}()
	herr := func(what string, err error) *vf.Result {
		res.HarnessErr = what + ": " + err.Error()
		return res
	}
	if err := e.build(e.lock - 30); err != nil {
		return herr("build", err)
	}
	pc, _ := e.pageCount()
	e.logf("built %d pages of %d bytes, lock page %d", pc, e.ps, e.lock)
	if pc >= e.lock-2 {
		return herr("build", fmt.Errorf("overshot: %d pages, lock page %d", pc, e.lock))
	}
	minCkpt := 0
	if s.Placement == "beyond" {
		minCkpt = 5
	}
	if err := e.startLS(minCkpt); err != nil {
		return herr("litestream open", err)
	}
	ctx := e.ctx
	if !e.must("SyncAndWait(first, snapshot path below the lock page)", e.ls.SyncAndWait(ctx)) {
		return res
	}
	reached := false
	switch s.Placement {
	case "cross":
		if err := e.growTo(e.lock - 3); err != nil {
			return herr("grow", err)
		}
		pc, _ = e.pageCount()
		if pc >= e.lock {
			return herr("grow", fmt.Errorf("overshot to %d", pc))
		}
		if !e.must("SyncAndWait(just below the lock page)", e.ls.SyncAndWait(ctx)) {
			return res
		}
		tx, err := e.app.Begin()
		if err != nil {
			return herr("begin", err)
		}
		for i := 0; i < 12; i++ {
			if _, err := tx.Exec(`INSERT INTO t(v) VALUES(?)`, e.blob(e.ps+e.ps/2)); err != nil {
				tx.Rollback()
				return herr("crossing insert", err)
			}
		}
		if err := tx.Commit(); err != nil {
			return herr("crossing commit", err)
		}
		pc2, _ := e.pageCount()
		e.logf("one transaction grew the database from %d to %d pages (lock page %d)", pc, pc2, e.lock)
		reached = pc < e.lock && pc2 > e.lock
		if !e.must("SyncAndWait(one transaction crossing the lock page)", e.ls.SyncAndWait(ctx)) {
			return res
		}
	case "before":
		if err := e.growTo(e.lock + 8); err != nil {
			return herr("grow", err)
		}
		if !e.must("SyncAndWait(grown across the lock page in small transactions)", e.ls.SyncAndWait(ctx)) {
			return res
		}
		if err := e.settle(e.lock - 1); err != nil {
			return herr("settle", err)
		}
		pc, _ = e.pageCount()
		e.logf("database now ends exactly on the page before the lock page: %d pages", pc)
		reached = pc == e.lock-1
		if !e.must("SyncAndWait(shrunk to the page before the lock page)", e.ls.SyncAndWait(ctx)) {
			return res
		}
	case "beyond":
		if err := e.growTo(e.lock + 40); err != nil {
			return herr("grow", err)
		}
		pc2, _ := e.pageCount()
		e.logf("several transactions grew the database from %d to %d pages without a sync in between", pc, pc2)
		reached = pc2 >= e.lock+40
		if !e.must("SyncAndWait(growth across the lock page within one sync)", e.ls.SyncAndWait(ctx)) {
			return res
		}
		// TRUNCATE restarts the WAL: the database file itself now extends beyond
		// the lock page and litestream writes a full level-0 snapshot from it
		if !e.must("Checkpoint(TRUNCATE)", e.ls.Checkpoint(ctx, litestream.CheckpointModeTruncate)) {
			return res
		}
		if _, err := e.app.Exec(`INSERT INTO t(v) VALUES(?)`, e.blob(e.ps/3)); err != nil {
			return herr("insert", err)
		}
		if !e.must("SyncAndWait(after checkpoint)", e.ls.SyncAndWait(ctx)) {
			return res
		}
		if fi, err := os.Stat(e.path); err == nil {
			e.logf("database file is now %d pages long", fi.Size()/int64(e.ps))
			if fi.Size()/int64(e.ps) > int64(e.lock) {
				res.Count("db_file_extends_beyond_lock_page", 1)
			}
		}
	case "justbeyond":
		// the database ends exactly one page behind the lock page when full copies are taken
		// from the database file (boundary snapshot of a TRUNCATE checkpoint, level-9 snapshot)
		if err := e.growTo(e.lock + 8); err != nil {
			return herr("grow", err)
		}
		if !e.must("SyncAndWait(grown across the lock page in small transactions)", e.ls.SyncAndWait(ctx)) {
			return res
		}
		if err := e.settle(e.lock + 1); err != nil {
			// With auto_vacuum the pointer-map page that would fall on the lock page is moved to
			// lock+1 (page size 1024: (lock-2) is a multiple of the pointer-map period), and a
			// database never ends on a pointer-map page: this size does not exist for this page size.
			res.Count("justbeyond_size_does_not_exist(pointer-map page behind the lock page)", 1)
			e.logf("page_count %d cannot be reached: %v", e.lock+1, err)
			if err := e.growTo(e.lock + 2); err != nil {
				return herr("grow", err)
			}
		}
		pc, _ = e.pageCount()
		e.logf("database now ends behind the lock page: %d pages (lock page %d)", pc, e.lock)
		reached = pc == e.lock+1
		if !e.must("SyncAndWait(shrunk to one page behind the lock page)", e.ls.SyncAndWait(ctx)) {
			return res
		}
		if !e.must("Checkpoint(TRUNCATE)", e.ls.Checkpoint(ctx, litestream.CheckpointModeTruncate)) {
			return res
		}
		if _, err := e.app.Exec(`UPDATE t SET v=? WHERE id=(SELECT min(id) FROM t)`, e.blob(e.ps/4)); err != nil {
			return herr("update", err)
		}
		if !e.must("SyncAndWait(after checkpoint)", e.ls.SyncAndWait(ctx)) {
			return res
		}
	default:
		return herr("spec", fmt.Errorf("unknown placement %q", s.Placement))
	}
	_, err := e.ls.Compact(ctx, 1)
	if !e.must("Compact(1)", err) {
		return res
	}
	// restore through the L0/L1 plan (no level-9 file exists yet)
	out := filepath.Join(dir, "restored")
	opt := litestream.NewRestoreOptions()
	opt.OutputPath = out
	rr := litestream.NewReplicaWithClient(nil, file.NewReplicaClient(filepath.Join(dir, "rep")))
	if !e.must("Restore(latest)", rr.Restore(ctx, opt)) {
		return res
	}
	_, err = e.ls.Snapshot(ctx)
	if !e.must("Snapshot", err) {
		return res
	}
	cctx, cancel := context.WithTimeout(ctx, 5*time.Minute)
	err = e.ls.Close(cctx)
	cancel()
	if !e.must("Close", err) {
		return res
	}
	// committed source image: checkpoint in place (everything is quiescent)
	var a, b, c int
	if err := e.app.QueryRow(`PRAGMA wal_checkpoint(TRUNCATE)`).Scan(&a, &b, &c); err != nil || a != 0 {
		return herr("checkpoint source", fmt.Errorf("busy=%d err=%v", a, err))
	}
	finalPages, _ := e.pageCount()
	e.app.Close()
	e.app = nil
	e.logf("source checkpointed in place: %d pages", finalPages)

	if err := e.compareFiles(e.path, out); err != nil {
		return herr("compare", err)
	}
	os.Remove(out)
	e.logf("restored file compared")

	src, err := os.Open(e.path)
	if err != nil {
		return herr("open source", err)
	}
	defer src.Close()
	seqRoot, _, _, err := sq.SeqInfo(e.path)
	if err != nil {
		return herr("source seq", err)
	}
	files := oracle.ListAll(filepath.Join(dir, "rep"))
	crossing := 0
	prevCommit := uint32(0)
	for _, f := range files {
		var cmp *os.File
		if f.Level == litestream.SnapshotLevel {
			cmp = src
		}
		hdr, pages, err := e.scanLTX(f, cmp, seqRoot)
		if err != nil {
			res.Evals++
			res.Violate("ltx-invalid", "replicated file %s does not decode/verify: %v", f, err)
			continue
		}
		res.Count("ltx_files_scanned", 1)
		res.Count("ltx_pages_scanned", pages)
		res.Count(fmt.Sprintf("ltx_files_level_%d", f.Level), 1)
		if int(hdr.Commit) > e.lock {
			res.Count("ltx_files_with_commit_beyond_lock_page", 1)
		}
		if f.Level == 0 {
			if prevCommit != 0 && int(prevCommit) < e.lock && int(hdr.Commit) > e.lock {
				crossing++
			}
			if prevCommit != 0 && int(prevCommit) > e.lock && int(hdr.Commit) < e.lock {
				res.Count("l0_files_shrinking_across_lock_page", 1)
			}
			prevCommit = hdr.Commit
		}
	}
	res.Count("l0_files_growing_across_lock_page", crossing)
	e.logf("%d LTX files scanned", len(files))
	for msg, n := range e.logs.Snapshot() {
		if msg == "filling wal growth pages from database" {
			res.Count("log:growth-page fill", n)
		}
	}
	res.Count(fmt.Sprintf("page_size_%d", e.ps), 1)
	res.Count("placement_"+s.Placement, 1)
	res.Sig = fmt.Sprintf("ps%d-%s", e.ps, s.Placement)
	res.Nontrivial = reached && (s.Placement == "before" || s.Placement == "justbeyond" || crossing >= 1)
	res.Sample = map[string]any{"page_size": e.ps, "lock_page": e.lock, "placement": s.Placement, "final_pages": finalPages, "ltx_files": len(files), "wall_s": int(time.Since(e.t0).Seconds())}
	return res
}
