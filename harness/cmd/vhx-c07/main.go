// vhx-c07 is the private development binary of checks C07 and C15.
package main

import (
	"io"
	"log/slog"
	"os"

	"verif/harness/internal/vf"

	_ "verif/harness/internal/c07"
	_ "verif/harness/internal/c15"
)

func main() {
	slog.SetDefault(slog.New(slog.NewTextHandler(io.Discard, nil)))
	os.Exit(vf.Main(os.Args[1:]))
}
