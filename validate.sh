#!/bin/bash
# validates MANIFEST.json and all evidence files against the schemas
python3-vt - <<'PY'
import json,glob,sys,jsonschema
ok=True
try:
    jsonschema.validate(json.load(open('/verif/MANIFEST.json')), json.load(open('/root/.vp/MANIFEST.schema.json')))
    print("MANIFEST ok")
except Exception as e:
    ok=False; print("MANIFEST:",str(e)[:300])
es=json.load(open('/root/.vp/EVIDENCE.schema.json'))
for f in sorted(glob.glob('/verif/evidence/*.json')):
    try:
        jsonschema.validate(json.load(open(f)), es); print(f,"ok")
    except Exception as e:
        ok=False; print(f,str(e)[:300])
sys.exit(0 if ok else 1)
PY
