/* lockprobe <database file>
 * Asks the kernel (F_GETLK, nothing is acquired) whether any OTHER process holds a POSIX
 * lock that conflicts with an exclusive lock on SQLite's SHARED byte range of the file
 * (SHARED_FIRST = 0x40000002, 510 bytes). Prints "held <pid>" or "free". In WAL mode every
 * connection keeps a shared lock there for as long as it is open; SQLite's last-connection
 * clean-up (checkpoint, delete -wal/-shm) is guarded by exactly this lock.
 */
#include <fcntl.h>
#include <stdio.h>
#include <string.h>
#include <unistd.h>
#include <errno.h>

int main(int argc, char **argv) {
  if (argc != 2) { fprintf(stderr, "usage: lockprobe <file>\n"); return 2; }
  int fd = open(argv[1], O_RDWR);
  if (fd < 0) { printf("error open: %s\n", strerror(errno)); return 1; }
  struct flock fl;
  memset(&fl, 0, sizeof fl);
  fl.l_type = F_WRLCK;
  fl.l_whence = SEEK_SET;
  fl.l_start = 0x40000002;
  fl.l_len = 510;
  if (fcntl(fd, F_GETLK, &fl) < 0) { printf("error getlk: %s\n", strerror(errno)); return 1; }
  if (fl.l_type == F_UNLCK) printf("free\n"); else printf("held %d\n", (int)fl.l_pid);
  return 0;
}
