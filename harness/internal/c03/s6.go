package c03

// S6: the real `litestream replicate` binary (built from the repository under
// test) with millisecond intervals for monitor, upload, compaction, snapshots
// and retention, killed before a PRNG-chosen file-system-mutating syscall.
// Acknowledgements are taken like `litestream sync -wait` does (POST /sync on
// the control socket). Because the daemon's monitors run on their own clock,
// the oracle here is the logical one (O-LEDGER): the application records a
// dump hash H_k after every commit k; after the kill Restore(latest) from the
// replica must be a state k >= k(last ack) with hash H_k and a clean
// integrity_check. Thorough tier only.

import (
	"bytes"
	"context"
	"crypto/md5"
	"encoding/json"
	"fmt"
	"io"
	"net"
	"net/http"
	"os"
	"os/exec"
	"path/filepath"
	"strconv"
	"strings"
	"sync"
	"syscall"
	"time"

	"github.com/benbjohnson/litestream"

	"verif/harness/internal/oracle"
	"verif/harness/internal/sq"
	"verif/harness/internal/vf"
)

const s6Rounds = 14

var realBinOnce sync.Once
var realBinErr error

func realBinPath(run *vf.Run) string { return filepath.Join(run.Scratch, "litestream-real") }

// ensureRealBinary builds cmd/litestream of the repository the harness itself
// is built against (same replace directive / VERIF_REPO modfile).
func ensureRealBinary(run *vf.Run) (string, error) {
	out := realBinPath(run)
	realBinOnce.Do(func() {
		if _, err := os.Stat(out); err == nil {
			return
		}
		modDir := filepath.Join(vf.Root, "harness")
		if _, err := os.Stat(filepath.Join(modDir, "go.mod")); err != nil {
			modDir = "/verif/harness"
		}
		args := []string{"build", "-o", out + ".tmp"}
		if repo := os.Getenv("VERIF_REPO"); repo != "" && repo != "/repo" {
			tag := fmt.Sprintf("%x", md5.Sum([]byte(repo)))[:8]
			args = append(args, "-modfile="+filepath.Join(vf.Root, "bin", "alt-"+tag+".mod"))
		}
		args = append(args, "github.com/benbjohnson/litestream/cmd/litestream")
		cmd := exec.Command("go", args...)
		cmd.Dir = modDir
		cmd.Env = append(os.Environ(), "GOFLAGS=-mod=mod", "GOPROXY=off", "CGO_ENABLED=0")
		if b, err := cmd.CombinedOutput(); err != nil {
			realBinErr = fmt.Errorf("build real litestream binary: %v: %s", err, b)
			return
		}
		realBinErr = os.Rename(out+".tmp", out)
	})
	return out, realBinErr
}

func s6Config(root string) string {
	return fmt.Sprintf(`socket:
  enabled: true
  path: %[1]s/ctl.sock
levels:
  - interval: 40ms
  - interval: 150ms
snapshot:
  interval: 250ms
  retention: 400ms
l0-retention: 60ms
l0-retention-check-interval: 50ms
shutdown-sync-timeout: 5s
logging:
  level: error
dbs:
  - path: %[1]s/db
    monitor-interval: 5ms
    checkpoint-interval: 80ms
    min-checkpoint-page-count: 12
    replica:
      type: file
      path: %[1]s/rep
      sync-interval: 5ms
`, root)
}

type daemon struct {
	cmd  *exec.Cmd
	sock string
	hc   *http.Client
	done chan struct{}
}

func startDaemon(bin, root, cfgPath, errLog string, l Launch) (*daemon, error) {
	vargs := []string{bin, "replicate", "-config", cfgPath}
	var args []string
	switch l.Mode {
	case Count:
		args = append([]string{PtsupPath(), "count", root, l.Log, "--"}, vargs...)
	case Kill:
		args = append([]string{PtsupPath(), "kill", root, l.Log, strconv.Itoa(l.KillN), "--"}, vargs...)
	default:
		args = vargs
	}
	cmd := exec.Command(args[0], args[1:]...)
	cmd.SysProcAttr = &syscall.SysProcAttr{Setpgid: true}
	ef, err := os.OpenFile(errLog, os.O_CREATE|os.O_WRONLY|os.O_APPEND, 0o644)
	if err != nil {
		return nil, err
	}
	defer ef.Close()
	cmd.Stdout, cmd.Stderr = ef, ef
	cmd.Env = append(os.Environ(), "GOMAXPROCS=4")
	if err := cmd.Start(); err != nil {
		return nil, err
	}
	d := &daemon{cmd: cmd, sock: filepath.Join(root, "ctl.sock"), done: make(chan struct{})}
	go func() { _ = cmd.Wait(); close(d.done) }()
	d.hc = &http.Client{Timeout: 40 * time.Second, Transport: &http.Transport{DisableKeepAlives: true, DialContext: func(ctx context.Context, _, _ string) (net.Conn, error) {
		var dl net.Dialer
		return dl.DialContext(ctx, "unix", d.sock)
	}}}
	return d, nil
}

func (d *daemon) alive() bool {
	select {
	case <-d.done:
		return false
	default:
		return true
	}
}

// waitReady waits for the control socket to accept connections.
func (d *daemon) waitReady(timeout time.Duration) bool {
	deadline := time.Now().Add(timeout)
	for time.Now().Before(deadline) && d.alive() {
		if c, err := net.DialTimeout("unix", d.sock, time.Second); err == nil {
			c.Close()
			return true
		}
		time.Sleep(5 * time.Millisecond)
	}
	return false
}

// syncWait is `litestream sync -wait`: returns the replicated TXID on HTTP 200.
func (d *daemon) syncWait(dbPath string) (uint64, error) {
	b, _ := json.Marshal(litestream.SyncRequest{Path: dbPath, Wait: true, Timeout: 30})
	resp, err := d.hc.Post("http://localhost/sync", "application/json", bytes.NewReader(b))
	if err != nil {
		return 0, err
	}
	defer resp.Body.Close()
	body, _ := io.ReadAll(resp.Body)
	if resp.StatusCode != 200 {
		return 0, fmt.Errorf("http %d: %s", resp.StatusCode, bytes.TrimSpace(body))
	}
	var sr litestream.SyncResponse
	if err := json.Unmarshal(body, &sr); err != nil {
		return 0, err
	}
	return sr.ReplicatedTXID, nil
}

// stop ends the daemon gracefully (SIGTERM), hard after a while.
func (d *daemon) stop() int {
	if d.alive() {
		_ = syscall.Kill(d.cmd.Process.Pid, syscall.SIGTERM)
		// under ptsup the pid is the supervisor: it forwards by dying with its tracee group
		select {
		case <-d.done:
		case <-time.After(20 * time.Second):
			_ = syscall.Kill(-d.cmd.Process.Pid, syscall.SIGKILL)
			<-d.done
		}
	}
	_ = syscall.Kill(-d.cmd.Process.Pid, syscall.SIGKILL)
	return d.cmd.ProcessState.ExitCode()
}

type s6World struct {
	*World
	hashes map[int64]string
	ackK   int64
	ackTX  uint64
	acks   int
}

// newS6World wraps a World for the daemon scenario. The daemon takes SQLite's write lock for
// every sync on its own clock, so the application waits for the lock like a real one would.
func newS6World(w0 *World) (*s6World, error) {
	if _, err := w0.App.Exec(`PRAGMA busy_timeout=20000`); err != nil {
		return nil, err
	}
	return &s6World{World: w0, hashes: map[int64]string{}}, nil
}

func (w *s6World) write(i int) error {
	kinds := []string{"small", "multi", "big", "update", "small", "delete", "ddl"}
	if err := w.AppWrite(kinds[i%len(kinds)]); err != nil {
		return err
	}
	d, err := sq.DumpConn(context.Background(), w.App, false)
	if err != nil {
		return fmt.Errorf("dump after commit: %w", err)
	}
	if d.K != w.K {
		return fmt.Errorf("ledger is %d, expected %d", d.K, w.K)
	}
	w.hashes[w.K] = d.Hash
	return nil
}

// drive runs the write / sync -wait rounds until done or the daemon is gone.
func (w *s6World) drive(d *daemon, rounds int, logf func(string, ...any)) (daemonGone bool, err error) {
	for i := 0; i < rounds; i++ {
		if err := w.write(i); err != nil {
			return false, err
		}
		tx, serr := d.syncWait(w.VC.DBPath())
		if serr != nil {
			logf("round %d: k=%d sync -wait: %v", i, w.K, serr)
			if !d.alive() {
				return true, nil
			}
			// alive but refusing: give it a moment (it may be exiting) and look again
			time.Sleep(20 * time.Millisecond)
			if !d.alive() {
				return true, nil
			}
			continue
		}
		w.ackK, w.ackTX = w.K, tx
		w.acks++
		logf("round %d: k=%d acknowledged, replicated TXID %d", i, w.K, tx)
		time.Sleep(12 * time.Millisecond) // let compaction / retention monitors take their turns
		if !d.alive() {
			return true, nil
		}
	}
	return !d.alive(), nil
}

func s6CountRun(run *vf.Run, seed int64) (int, error) {
	bin, err := ensureRealBinary(run)
	if err != nil {
		return 0, err
	}
	base := filepath.Join(run.Scratch, "count-S6")
	defer os.RemoveAll(base)
	root := filepath.Join(base, "s")
	w0, err := NewWorld(root, filepath.Join(base, "w"), Configs[0], seed, func(string, ...any) {})
	if err != nil {
		return 0, err
	}
	defer w0.Close()
	w, err := newS6World(w0)
	if err != nil {
		return 0, err
	}
	cfgPath := filepath.Join(base, "litestream.yml")
	if err := os.WriteFile(cfgPath, []byte(s6Config(root)), 0o644); err != nil {
		return 0, err
	}
	logPath := filepath.Join(base, "pt.log")
	d, err := startDaemon(bin, root, cfgPath, filepath.Join(base, "daemon.log"), Launch{Mode: Count, Log: logPath})
	if err != nil {
		return 0, err
	}
	defer d.stop()
	if !d.waitReady(60 * time.Second) {
		b, _ := os.ReadFile(filepath.Join(base, "daemon.log"))
		return 0, fmt.Errorf("real litestream did not open its control socket: %s", tail(string(b), 400))
	}
	if _, err := w.drive(d, s6Rounds, func(string, ...any) {}); err != nil {
		return 0, err
	}
	if w.acks == 0 {
		return 0, fmt.Errorf("S6 count run: no sync -wait succeeded")
	}
	d.stop()
	pl, err := ReadPtLog(logPath)
	if err != nil {
		return 0, err
	}
	return len(pl.Events), nil
}

func tail(s string, n int) string {
	if len(s) > n {
		return s[len(s)-n:]
	}
	return s
}

func runS6(run *vf.Run, s spec, dir string, res *vf.Result) *vf.Result {
	bin, err := ensureRealBinary(run)
	if err != nil {
		res.HarnessErr = err.Error()
		return res
	}
	root, work := filepath.Join(dir, "s"), filepath.Join(dir, "w")
	res.Sig = fmt.Sprintf("S6/%d", s.N)
	res.Logf("S6: real `litestream replicate` (5ms monitor/upload, compaction 40ms/150ms, snapshots 250ms, snapshot retention 400ms, L0 retention 60ms), kill before fs-mutating syscall %d (count run saw %d)", s.N, s.M)
	w0, err := NewWorld(root, work, Configs[0], s.DataSeed, res.Logf)
	if err != nil {
		res.HarnessErr = err.Error()
		return res
	}
	defer w0.Close()
	w, err := newS6World(w0)
	if err != nil {
		res.HarnessErr = err.Error()
		return res
	}
	cfgPath := filepath.Join(dir, "litestream.yml")
	if err := os.WriteFile(cfgPath, []byte(s6Config(root)), 0o644); err != nil {
		res.HarnessErr = err.Error()
		return res
	}
	logPath := filepath.Join(dir, "pt.log")
	d, err := startDaemon(bin, root, cfgPath, filepath.Join(dir, "daemon.log"), Launch{Mode: Kill, KillN: s.N, Log: logPath})
	if err != nil {
		res.HarnessErr = err.Error()
		return res
	}
	defer d.stop()
	gone := false
	if !d.waitReady(60 * time.Second) {
		if d.alive() {
			res.HarnessErr = "real litestream did not open its control socket"
			return res
		}
		gone = true // killed during start-up
	}
	if !gone {
		gone, err = w.drive(d, s6Rounds, res.Logf)
		if err != nil {
			res.HarnessErr = err.Error()
			return res
		}
	}
	if !gone {
		d.stop()
		res.Count("not_killed_n_beyond_run", 1)
		res.Sample = map[string]any{"scenario": "S6", "n": s.N, "killed": false}
		return res
	}
	code := d.stop()
	pl, lerr := ReadPtLog(logPath)
	if lerr != nil {
		res.HarnessErr = "supervisor log: " + lerr.Error()
		return res
	}
	if code >= 200 && code <= 203 {
		res.HarnessErr = fmt.Sprintf("supervisor failed (exit %d)", code)
		return res
	}
	if !pl.Killed {
		b, _ := os.ReadFile(filepath.Join(dir, "daemon.log"))
		res.Evals++
		res.Violate("victim-died-by-itself", "real litestream process ended without being killed by the supervisor (exit %d): %s", code, tail(string(b), 600))
		return res
	}
	killEv := pl.Events[len(pl.Events)-1]
	kd := describe(root, killEv)
	res.Logf("killed immediately before: %s %s %s (acks so far %d, last k=%d at replicated TXID %d)", killEv.Name, killEv.P1, killEv.P2, w.acks, w.ackK, w.ackTX)
	res.Count("kill:"+kd, 1)
	res.Count("kills", 1)
	res.Count("killed_during:daemon", 1)
	res.Nontrivial = nontrivialClass(PathClass(root, killEv.P1)) || (killEv.P2 != "" && nontrivialClass(PathClass(root, killEv.P2)))

	// (a)
	postKillFiles(w.World, res)
	// (b) logical: latest restorable state contains everything acknowledged
	check := func(tag string, minK int64) bool {
		opt := litestream.NewRestoreOptions()
		got, err := restoreBytes(w.World, opt)
		res.Evals++
		if err != nil {
			res.Violate("s6-restore-fails-"+tag, "%s: Restore() from the replica fails: %v", tag, err)
			return false
		}
		dmp, err := sq.DumpBytes(got, w.Work, true)
		if err != nil {
			res.Violate("s6-restore-unreadable-"+tag, "%s: restored database unreadable: %v", tag, err)
			return false
		}
		switch {
		case dmp.Integ != "ok":
			res.Violate("s6-restore-integrity-"+tag, "%s: restored database fails integrity_check: %s", tag, dmp.Integ)
		case dmp.K < minK:
			res.Violate("s6-acked-commit-lost-"+tag, "%s: restored database is at application commit k=%d but k=%d was acknowledged (replicated TXID %d)", tag, dmp.K, minK, w.ackTX)
		case w.hashes[dmp.K] != dmp.Hash:
			res.Violate("s6-restore-not-a-committed-state-"+tag, "%s: restored database (k=%d) is not the state the application committed at k=%d", tag, dmp.K, dmp.K)
		default:
			return true
		}
		return false
	}
	if w.acks > 0 {
		res.Count("postkill_ack_restore_compared", 1)
		if !check("post-kill", w.ackK) {
			return res
		}
	} else {
		res.Count("killed_before_first_ack", 1)
	}
	if len(res.Violations) > 0 {
		return res
	}
	// (c) restart the real binary, write, sync -wait within 3 attempts, shut down, compare
	d2, err := startDaemon(bin, root, cfgPath, filepath.Join(dir, "daemon2.log"), Launch{Mode: Plain})
	if err != nil {
		res.HarnessErr = err.Error()
		return res
	}
	defer d2.stop()
	if !d2.waitReady(60 * time.Second) {
		b, _ := os.ReadFile(filepath.Join(dir, "daemon2.log"))
		res.Evals++
		res.Violate("restart-fails", "after the kill the real litestream binary does not come up: %s", tail(string(b), 600))
		return res
	}
	for i := 0; i < 2; i++ {
		if err := w.write(100 + i); err != nil {
			res.HarnessErr = err.Error()
			return res
		}
	}
	acked := false
	var last error
	for try := 1; try <= 3 && !acked; try++ {
		_, last = d2.syncWait(w.VC.DBPath())
		res.Logf("restart: sync -wait attempt %d -> %v", try, last)
		if last == nil {
			acked = true
			res.Count(fmt.Sprintf("restart_ack_on_attempt_%d", try), 1)
		} else {
			time.Sleep(200 * time.Millisecond)
		}
	}
	res.Evals++
	if !acked {
		b, _ := os.ReadFile(filepath.Join(dir, "daemon2.log"))
		res.Violate("no-ack-after-restart", "after restart, sync -wait failed 3 times; last: %v; daemon log: %s", last, tail(string(b), 600))
		return res
	}
	d2.stop() // graceful: now nobody but the application touches the database
	res.Count("restart_ack_restore_compared", 1)
	if !check("after-restart", w.K) {
		return res
	}
	src, err := w.SourceImage()
	if err != nil {
		res.HarnessErr = err.Error()
		return res
	}
	opt := litestream.NewRestoreOptions()
	opt.IntegrityCheck = litestream.IntegrityCheckFull
	got, err := restoreBytes(w.World, opt)
	res.Evals++
	if err != nil {
		res.Violate("restore-after-restart-fails", "after restart, acknowledged sync and clean shutdown, Restore() fails: %v", err)
		return res
	}
	if err := oracle.CompareMasked(src, got, w.Work); err != nil {
		if strings.HasPrefix(err.Error(), "harness:") {
			res.HarnessErr = err.Error()
			return res
		}
		res.Violate("restore-after-restart-differs", "after restart, acknowledged sync and clean shutdown, Restore() differs from the source: %v", err)
	}
	res.Sample = map[string]any{"scenario": "S6", "n": s.N, "killed_before": kd, "acks_before_kill": w.acks}
	return res
}
