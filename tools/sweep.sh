#!/bin/bash
# sweep.sh <seed> [check ...]: runs the quick tier of the given checks (default: all) on /repo at VERIF_SEED=<seed>.
# Seed 1 rewrites /verif/evidence (the registered default); other seeds leave the evidence alone.
seed=${1:-1}; shift
checks=${@:-C01 C02 C03 C04 C05 C06 C07 C08 C09 C10 C11 C12 C13 C14 C15 C16 C17 C18 C19 C20}
cd "$(dirname "$0")/.."
for c in $checks; do
  if [ "$seed" = 1 ]; then out=$(VERIF_SEED=$seed ./check $c quick 2>&1); rc=$?
  else out=$(VERIF_SEED=$seed VERIF_NO_EVIDENCE=1 ./check $c quick 2>&1); rc=$?; fi
  echo "seed=$seed $c exit=$rc $(echo "$out" | grep -E "^$c quick" | cut -c1-150)"
  echo "$out" | grep -E "^(VIOLATION|INCONCLUSIVE)|^  key=" | cut -c1-300 | head -6
done
