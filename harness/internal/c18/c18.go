//go:build vfs

// Package c18: a VFS read replica serves the same pages as a full restore
// (DESIGN §4 C18).
//
// The primary is an E-HIST history (growth, auto_vacuum / incremental_vacuum
// partial shrink, VACUUM, Compact(1|2), Snapshot, level-0 retention) on a
// plain file replica. On the read side a litestream.VFSFile is opened on the
// same replica directory and, at PRNG-chosen points between primary
// operations, polled exactly once through the verif hook VerifPollOnce (its own
// ticker is parked at 24h). After every open / poll / time-travel step every
// page is read with ReadAt and compared, together with FileSize, against
// image_n (n = VFSFile.Pos().TXID) re-composed from the level-0 archive, which
// is itself cross-checked against Restore(TXID=n) while n is still a
// restorable boundary. A subset of the histories also drives a real SQLite
// connection (mattn) on the registered VFS and compares logical dumps.
//
// Time travel is exercised between polls, while a poll is in flight, inside a
// read transaction during which a poll staged newer files (SetTargetTime /
// ResetTime under a SHARED lock, then Unlock), and with primary commits inside
// the time-travel window. A share of the histories opens the views with
// hydration enabled (hydration.go): the same steps and the same oracle, with
// ReadAt served from the local hydrated copy.
package c18

import (
	"bytes"
	"context"
	"crypto/sha256"
	"database/sql"
	"encoding/json"
	"fmt"
	"io"
	"log/slog"
	"math/rand"
	"os"
	"sort"
	"strings"
	"sync"
	"sync/atomic"
	"time"

	"github.com/benbjohnson/litestream"
	"github.com/benbjohnson/litestream/file"
	_ "github.com/mattn/go-sqlite3"
	"github.com/psanford/sqlite3vfs"
	"github.com/superfly/ltx"

	"verif/harness/internal/hist"
	"verif/harness/internal/oracle"
	"verif/harness/internal/sq"
	"verif/harness/internal/vf"
)

type spec struct {
	Seed  int64       `json:"seed"`
	Ops   int         `json:"ops"`
	Cfg   hist.Config `json:"cfg"`
	SQL   bool        `json:"sql"`         // also drive a real SQLite connection on the registered VFS
	Cache int         `json:"cache_pages"` // VFS page cache in pages (0 = litestream's default 10 MB)
	Demo  string      `json:"demo,omitempty"`
	// Hyd: "" | "temp" | "persist". The views are opened through litestream.VFS with
	// HydrationEnabled (temp file, or a persistent file that survives Close and is
	// resumed by the next Open of the history).
	Hyd string `json:"hydration,omitempty"`
}

// Violation keys. The first three are decided by a predicate over the history
// (never over the symptom); the others are the generic classes.
const (
	keyOpenShrink = "open-plan-contains-shrink"
	keyPollShrink = "poll-batch-contains-shrink"
	keyL1Behind   = "l1-file-behind-position"
	keySize       = "vfs-size-mismatch"
	keyPage       = "vfs-page-mismatch"
	keyRead       = "vfs-read-error"
	keySQL        = "vfs-sql-mismatch"
	keyTT         = "vfs-timetravel-availability"
	// F18: read errors only, every one of them the VFS's "file is gone" answer (Busy
	// after its not-exist retries), and the history shows the cause: see
	// cursorSeedingExplains. Any other Busy page is keyRead.
	keyRetention = "index-file-deleted-by-retention"
)

func init() {
	vf.Register(&vf.Check{
		ID:    "C18",
		Level: "exploration",
		Rule: "generated primary histories (seeded PRNG) over {insert small/big/multi, update, DDL, delete half/all, incremental_vacuum(n|all), auto_vacuum=FULL shrink at commit, VACUUM, SyncAndWait, Compact(1) with level-0 retention 1ns|1h, Compact(1) whose level-1 file becomes visible to the reader one sync and one poll late, Compact(2), Snapshot, EnforceL0RetentionByTime} x {page size, auto_vacuum, checkpoint thresholds}; " +
			"VFS steps placed between primary operations: Open, VerifPollOnce, poll under a SHARED lock (pending index) + Unlock, SetTargetTime(T from recorded level-0 header timestamps) between polls, while a poll is in flight (gated level-0 listing) or under a SHARED lock after a poll under that lock staged newer files (growth or a shrink) followed by Unlock / poll during time travel / primary commits and syncs inside the time-travel window / ResetTime (plain or under a SHARED lock), ResetTime outside time travel with unpolled or staged files, Close; page cache 1 page | 8 pages | default; " +
			"hydration dimension (5 of 16 histories, one of them with the SQLite connection): the views are opened through litestream.VFS with HydrationEnabled (temp file | persistent file resumed by the next Open of the history); the end of the background hydration is awaited through the hydrator's own 'hydration complete' log record before anything is compared, or the hydration goroutine is held in flight at its first log record while the view polls / SetTargetTime / ResetTime and released afterwards; the same steps and the same oracle then run on reads served from the hydrated copy (observed: no replica fetch during the comparison); " +
			"a quarter of the histories also poll a real SQLite (mattn) connection on the registered VFS, idle and inside a read transaction (logical dump + integrity_check vs the reference image, plus the byte comparison on that file). " +
			"At every step: FileSize and ReadAt of every page (and three random sub-page ranges) vs image_n from the level-0 archive, n = VFSFile.Pos().TXID, mask page1[18:20] and page1[24:28] only; image_n cross-checked against Restore(TXID=n) while restorable; time travel vs Restore(Timestamp=T). " +
			"Twelve pinned demonstration histories precede the generated ones (a,b,c = F5; d = F18; e = page last written by the last transaction of a level-1 file polled after its level-0 file, then level-0 retention; f = SetTargetTime while a poll that finds new files is in flight, held in its level-0 listing by a gating client; g = SetTargetTime under a SHARED lock with staged growth, then with a staged shrink, then ResetTime under a lock with staged files; h = hydrated view: polls incl. a shrink, time travel, primary commits in the window, ResetTime, poll; i,j,k,l = F28..F31: poll while hydration is in flight, SetTargetTime while hydration is in flight, ResetTime outside time travel on a hydrated view, persistent hydrated copy resumed over a level-0 gap). " +
			"distinct = hash(config, step sequence); non-trivial = >=3 comparisons at >=2 distinct TXIDs, >=1 poll that advanced the position, and >=1 commit decrease in the level-0 chain",
		Assumptions: []string{
			"file replica client only (no network); file mtime == LTX header timestamp as written by file.ReplicaClient",
			"ltx decoder/LZ4 trusted; the level-0 overlay (oracle.Archive) is the reference, cross-checked against Restore(TXID=n)",
			"VerifPollOnce (verif hook) is one call of pollReplicaClient; the VFS's own ticker is parked (PollInterval=24h)",
			"a failing poll or Open is counted, not judged (the statement is about what is served at Pos())",
			"hydration: VFSFile's hydrator is not reachable from outside the package; its completion, failures, 'disabled for time travel' and failed updates are taken from its slog records (handler called synchronously by the hydration goroutine), and the same handler is the suspension point of the held-in-flight steps; whether a comparison was served from the hydrated copy is observed as 'no OpenLTXFile call at the read side's client'",
		},
		Cases:       cases,
		RunCase:     runCase,
		MinEvals:    2000,
		CaseTimeout: 10 * time.Minute,
	})
}

func cases(run *vf.Run) ([]json.RawMessage, error) {
	n := 16
	if run.Tier == "thorough" {
		n = 300
	}
	var out []json.RawMessage
	demoCfg := hist.Config{PageSize: 4096, AutoVacuum: 2, MinCheckpointPageN: 1000, TruncatePageN: 0, CheckpointInterval: 0, MaxSyncWALFrames: -1, MaxSyncLTXFiles: 0}
	for _, d := range []string{"a", "b", "c", "d", "e", "f", "g", "h", "i", "j", "k", "l"} {
		out = append(out, vf.Spec(spec{Seed: vf.SubSeed(run.Seed, "C18-demo", d), Cfg: demoCfg, Cache: 1, Demo: d, Hyd: demoHyd[d]}))
	}
	for i := 0; i < n; i++ {
		rng := rand.New(rand.NewSource(vf.SubSeed(run.Seed, "C18", i)))
		cfg := hist.RandomConfig(rng)
		cfg.PageSize = hist.PageSizes[i%len(hist.PageSizes)]
		cfg.AutoVacuum = []int{2, 1, 0, 2}[(i/len(hist.PageSizes)+i)%4]
		s := spec{
			Seed:  vf.SubSeed(run.Seed, "C18-case", i),
			Ops:   50 + rng.Intn(40),
			Cfg:   cfg,
			SQL:   i%4 == 1,
			Cache: []int{1, 0, 8, 1}[i%4],
		}
		// hydration dimension: 5 of 16 histories (one of them with the SQLite connection)
		switch {
		case i%8 == 2:
			s.Hyd = "temp"
		case i%8 == 6:
			s.Hyd = "persist"
		case i%16 == 13:
			s.Hyd = "temp"
		}
		out = append(out, vf.Spec(s))
	}
	return out, nil
}

// facts are the history predicates of one VFS step.
type facts struct {
	kind        string
	planShrink  bool // the restore plan the index was (re)built from contains a commit decrease
	batchShrink bool // the files this poll read contain a commit decrease
	l1Behind    bool // this poll read a level-1 file whose MaxTXID is below the position reached through level 0
	desc        string
	files       []fileID // the files the step reads its index entries from
	allBusy     bool     // (symptom side) every failing read answered Busy
	busyPages   []int    // the pages that answered Busy
	ref         int      // the TXID of the reference image the step is compared with
	badPages    []int    // (symptom side) the pages that differ or read short; explained per page by the hydration predicates
	local       bool     // (observation) hydration-enabled view and no replica fetch during the comparison: the index was not consulted
}

type fileID struct {
	level    int
	min, max ltx.TXID
}

type view struct {
	label        string
	f            *litestream.VFSFile
	stickyShrink string // an earlier poll of this index saw a shrink batch (symptoms can be latent behind the LRU cache)
	stickyL1     string
	files        map[fileID]bool // files this view has taken index entries from since it was opened
	client       *viewClient
	noL1Plan     bool     // the index was (re)built from a plan without a level-1 file ...
	seed         ltx.TXID // ... so the level-1 cursor was seeded with this position
	broken       bool
	tt           bool
	ttWant       []byte // the time-travel view's reference: Restore(Timestamp=T)
	ttWhat       string
	ttFx         facts
	db           *sql.DB
	conn         *sql.Conn

	// hydration dimension (hydration.go)
	hw          *hydWatch
	gated       bool     // the hydration goroutine is held in flight
	posAtGate   ltx.TXID // position when it was held
	posAtOpen   ltx.TXID // position at Open (what the hydration goroutine restores / catches up to)
	hydAt       int      // the TXID the hydrated copy has been brought to (restore, catch-up, polls after completion)
	missed      []missedRange
	ttDuringHyd string // predicate of keyHydTT
	ttTXID      int    // the TXID the current time-travel view stands for
	resumeFrom  int
}

type harness struct {
	s      spec
	res    *vf.Result
	e      *hist.Env
	rng    *rand.Rand
	ctx    context.Context
	ps     int
	rep    string
	client *viewClient
	logger *slog.Logger

	direct *view
	sqlv   *view
	cap    *capVFS
	capC   *viewClient
	// what the history says never reached a persistent hydrated copy; the copy
	// outlives the view, the next Open that resumes it inherits the ranges
	persistMissed map[string][]missedRange
	capH          *hydHandler
	vfsNm         string

	queue []string
	toks  []string

	imgCache  map[int][]byte
	dumpCache map[int]*sq.Dump
	xchecked  map[int]bool
	hdrCache  map[string]ltx.Header
	seenKeys  map[string]bool
	stop      bool
	scanned   int

	cmpTXIDs      map[int]bool
	compares      int
	advancedPolls int
	histShrinks   int
	ddlN          int
	hidden        map[fileID]bool // level-1 files not yet visible to the read side
}

var vfsSeq int64

// viewClient is the read side's replica client. It can withhold a level-1 file
// that Compact(1) has just written: for the reader this is the schedule in
// which a compaction that started before a sync becomes visible only after
// the reader has polled the level-0 file of that sync (compaction is not
// atomic with respect to syncs and polls).
type viewClient struct {
	*file.ReplicaClient
	h *harness

	// gate: when armed, the next level-0 listing (the first replica call of a
	// poll) reports on entered and waits for release -- a slow object store.
	armed   atomic.Bool
	entered chan struct{}
	release chan struct{}

	opens atomic.Int64 // OpenLTXFile calls: every page, index or header fetch of the read side
}

func (c *viewClient) OpenLTXFile(ctx context.Context, level int, minTXID, maxTXID ltx.TXID, offset, size int64) (io.ReadCloser, error) {
	c.opens.Add(1)
	return c.ReplicaClient.OpenLTXFile(ctx, level, minTXID, maxTXID, offset, size)
}

func (c *viewClient) arm() {
	c.entered = make(chan struct{})
	c.release = make(chan struct{})
	c.armed.Store(true)
}

func (h *harness) newClient() *viewClient {
	return &viewClient{ReplicaClient: file.NewReplicaClient(h.rep), h: h}
}

func (c *viewClient) LTXFiles(ctx context.Context, level int, seek ltx.TXID, useMetadata bool) (ltx.FileIterator, error) {
	if level == 0 && c.armed.CompareAndSwap(true, false) {
		close(c.entered)
		<-c.release
	}
	itr, err := c.ReplicaClient.LTXFiles(ctx, level, seek, useMetadata)
	if err != nil || level != 1 || len(c.h.hidden) == 0 {
		return itr, err
	}
	defer itr.Close()
	var keep []*ltx.FileInfo
	for itr.Next() {
		if info := itr.Item(); !c.h.hidden[fileID{1, info.MinTXID, info.MaxTXID}] {
			keep = append(keep, info)
		}
	}
	if err := itr.Err(); err != nil {
		return nil, err
	}
	return ltx.NewFileInfoSliceIterator(keep), nil
}

func quiet() *slog.Logger { return slog.New(slog.NewTextHandler(io.Discard, nil)) }

func runCase(run *vf.Run, raw json.RawMessage, dir string) *vf.Result {
	var s spec
	res := &vf.Result{}
	if err := json.Unmarshal(raw, &s); err != nil {
		res.HarnessErr = err.Error()
		return res
	}
	// litestream.VFS creates its temp directory under os.TempDir(): keep it in the case directory.
	os.Setenv("TMPDIR", dir)
	rng := rand.New(rand.NewSource(s.Seed))
	e, err := hist.NewEnv(dir, s.Cfg, rng, res)
	if err != nil {
		res.HarnessErr = err.Error()
		return res
	}
	defer e.Close()
	if err := e.StartLS(); err != nil {
		res.HarnessErr = "open litestream: " + err.Error()
		return res
	}
	h := &harness{s: s, res: res, e: e, rng: rng, ctx: context.Background(), ps: s.Cfg.PageSize, rep: e.RepPath,
		logger:   quiet(),
		imgCache: map[int][]byte{}, dumpCache: map[int]*sq.Dump{}, xchecked: map[int]bool{}, hdrCache: map[string]ltx.Header{},
		seenKeys: map[string]bool{}, cmpTXIDs: map[int]bool{}}
	h.client = h.newClient()
	defer h.closeViews()

	if s.Demo != "" {
		h.queue = demoScript(s.Demo)
		for len(h.queue) > 0 && !h.stop && res.HarnessErr == "" {
			h.next()
		}
	} else {
		// every history starts with some content on the replica
		h.queue = append(h.queue, "w:ins-multi", "w:ins-big", "sync")
		for i := 0; i < s.Ops && !h.stop && res.HarnessErr == ""; i++ {
			if len(h.queue) == 0 {
				h.gen()
			}
			h.next()
		}
		// closing phase: bring every open view to the end of the history
		if !h.stop && res.HarnessErr == "" {
			h.queue = append(h.queue[:0], "unhide", "w:ins-small", "sync")
			if h.direct != nil {
				if h.direct.gated {
					h.queue = append(h.queue, "hrelease")
				}
				if h.direct.tt {
					h.queue = append(h.queue, "ttreset")
				}
				h.queue = append(h.queue, "poll")
			}
			if h.sqlv != nil {
				h.queue = append(h.queue, "sqlpoll")
			}
			for len(h.queue) > 0 && !h.stop && res.HarnessErr == "" {
				h.next()
			}
		}
	}

	res.Count(fmt.Sprintf("page_size_%d", s.Cfg.PageSize), 1)
	res.Count(fmt.Sprintf("auto_vacuum_%d", s.Cfg.AutoVacuum), 1)
	res.Count(fmt.Sprintf("cache_pages_%d", s.Cache), 1)
	if s.Hyd != "" {
		res.Count("histories_with_hydration", 1)
		res.Count("histories_with_hydration_"+s.Hyd, 1)
	}
	res.Count("level0_commit_decreases", h.histShrinks)
	res.Sig = fmt.Sprintf("%x", sha256.Sum256([]byte(s.Cfg.String()+fmt.Sprint(s.SQL, s.Cache, s.Hyd)+strings.Join(h.toks, ","))))[:16]
	res.Nontrivial = h.compares >= 3 && len(h.cmpTXIDs) >= 2 && h.advancedPolls >= 1 && h.histShrinks >= 1
	steps := strings.Join(h.toks, " ")
	if len(steps) > 1500 {
		steps = steps[:1500] + "..."
	}
	res.Sample = map[string]any{"cfg": s.Cfg.String(), "sql": s.SQL, "cache_pages": s.Cache, "hydration": s.Hyd, "demo": s.Demo, "steps": steps,
		"comparisons": h.compares, "distinct_txids_compared": len(h.cmpTXIDs), "polls_that_advanced": h.advancedPolls, "level0_commit_decreases": h.histShrinks}
	return res
}

// demoHyd: the hydration mode of the pinned demonstration histories.
var demoHyd = map[string]string{"h": "temp", "i": "temp", "j": "temp", "k": "temp", "l": "persist"}

func demoScript(d string) []string {
	grow := []string{"x:INSERT INTO t0(v) VALUES(zeroblob(80000))", "x:INSERT INTO t0(v) VALUES(zeroblob(60000))", "sync"}
	switch d {
	case "a": // open on a plan that contains a shrink
		return append(grow, "x:DELETE FROM t0", "incvac:0", "sync", "open", "x:INSERT INTO t1(v) VALUES(zeroblob(100))", "sync", "poll")
	case "b": // poll across an incremental-vacuum shrink
		return append(grow, "open", "x:DELETE FROM t0 WHERE id=1", "incvac:3", "sync", "poll", "x:INSERT INTO t1(v) VALUES(zeroblob(100))", "sync", "poll")
	case "c": // poll a level-1 file that ends before the level-0 position already reached
		return append(grow, "compact1:keep", "open", "x:INSERT INTO t1(v) VALUES(zeroblob(100))", "sync", "compact1:keep",
			"x:INSERT INTO t1(v) VALUES(zeroblob(200))", "sync", "poll", "x:INSERT INTO t1(v) VALUES(zeroblob(300))", "sync", "poll")
	case "e": // a page whose last writer is the last transaction of a level-1 file the view polled after the level-0 file; then retention
		return append(grow, "compact1:keep", "open", "x:INSERT INTO t1(v) VALUES(zeroblob(100))", "sync", "poll", "compact1:keep", "poll",
			"x:INSERT INTO t2(v) VALUES(zeroblob(100))", "sync", "l0ret", "poll")
	case "f": // SetTargetTime while a poll that will find new files is in flight
		return append(grow, "open", "x:INSERT INTO t1(v) VALUES(zeroblob(100))", "sync", "poll",
			"x:INSERT INTO t1(v) VALUES(zeroblob(3000))", "sync", "x:INSERT INTO t2(v) VALUES(zeroblob(3000))", "sync", "ttrace:pos")
	case "g": // SetTargetTime / ResetTime inside a read transaction during which a poll staged newer files (growth, then a shrink)
		return append(grow, "open", "x:INSERT INTO t1(v) VALUES(zeroblob(100))", "sync", "poll",
			"x:INSERT INTO t1(v) VALUES(zeroblob(9000))", "x:UPDATE t0 SET v=zeroblob(70000) WHERE id=2", "sync", "ttlock:pos",
			"x:DELETE FROM t0 WHERE id=1", "incvac:3", "sync", "ttlock:pos",
			"x:INSERT INTO t2(v) VALUES(zeroblob(5000))", "sync", "rtlock")
	case "h": // hydrated view: polls, then time travel with primary commits in the window, ResetTime, poll
		return append(grow, "open", "x:INSERT INTO t1(v) VALUES(zeroblob(100))", "sync", "poll",
			"x:DELETE FROM t0 WHERE id=1", "incvac:3", "sync", "poll",
			"ttset:pos", "x:INSERT INTO t1(v) VALUES(zeroblob(9000))", "x:UPDATE t0 SET v=zeroblob(50000) WHERE id=2", "sync", "ttpoll",
			"x:INSERT INTO t2(v) VALUES(zeroblob(100))", "sync", "ttreset",
			"x:INSERT INTO t2(v) VALUES(zeroblob(200))", "sync", "poll")
	case "i": // a poll advances the position while the background hydration is in flight
		return append(grow, "open:gate", "x:INSERT INTO t1(v) VALUES(zeroblob(9000))", "sync", "poll", "hrelease",
			"x:INSERT INTO t2(v) VALUES(zeroblob(100))", "sync", "poll")
	case "j": // SetTargetTime while the background hydration is in flight; it completes during time travel
		return append(grow, "x:INSERT INTO t1(v) VALUES(zeroblob(9000))", "sync", "open:gate", "ttset:first", "hrelease", "ttreset")
	case "k": // ResetTime (PRAGMA litestream_time = latest) on a hydrated view that is not time travelling, with unpolled files on the replica
		return append(grow, "open", "x:INSERT INTO t1(v) VALUES(zeroblob(9000))", "sync", "rtplain",
			"x:INSERT INTO t2(v) VALUES(zeroblob(100))", "sync", "poll")
	case "l": // persistent hydrated copy resumed after level-0 retention removed files it has not seen
		return append(grow, "open", "close", "x:INSERT INTO t1(v) VALUES(zeroblob(9000))", "sync", "x:INSERT INTO t2(v) VALUES(zeroblob(100))", "sync",
			"compact1:del", "open", "x:INSERT INTO t2(v) VALUES(zeroblob(100))", "sync", "poll")
	case "d": // compaction + level-0 retention of the files the view was reading
		return append(grow, "open", "x:INSERT INTO t1(v) VALUES(zeroblob(100))", "sync", "compact1:del", "poll")
	}
	return nil
}

// gen appends the tokens of one PRNG-chosen operation to the queue.
func (h *harness) gen() {
	r := h.rng.Intn(100)
	switch {
	case r < 24:
		kinds := []string{"ins-big", "ins-multi", "ins-small", "update", "ddl", "ins-big", "ins-multi"}
		n := 1 + h.rng.Intn(3)
		for i := 0; i < n; i++ {
			h.queue = append(h.queue, "w:"+kinds[h.rng.Intn(len(kinds))])
		}
		h.queue = append(h.queue, "sync")
	case r < 38:
		h.queue = append(h.queue, []string{"w:delete-half", "w:delete-all"}[h.rng.Intn(2)])
		if h.rng.Intn(3) == 0 {
			h.queue = append(h.queue, "w:delete-half")
		}
		switch h.s.Cfg.AutoVacuum {
		case 2:
			h.queue = append(h.queue, fmt.Sprintf("incvac:%d", []int{0, 1, 2, 3, 5, 8, 20}[h.rng.Intn(7)]))
		case 0:
			if h.rng.Intn(2) == 0 {
				h.queue = append(h.queue, "vacuum")
			}
		}
		if h.rng.Intn(4) == 0 { // regrow inside the same sync batch
			h.queue = append(h.queue, "w:ins-multi")
		}
		h.queue = append(h.queue, "sync")
	case r < 41:
		h.queue = append(h.queue, "vacuum", "sync")
	case r < 49:
		if h.rng.Intn(4) == 0 && h.direct != nil {
			// a compaction that becomes visible to the reader one sync and one poll late
			h.queue = append(h.queue, "compact1:hide", "w:"+[]string{"update", "ins-small", "ins-multi"}[h.rng.Intn(3)], "sync", "poll", "unhide", "poll")
			return
		}
		if h.rng.Intn(4) == 0 && h.direct != nil {
			// the view follows through level 0, then level 1, then retention removes the level-0 files
			h.queue = append(h.queue, "w:"+[]string{"update", "ins-small", "ins-multi"}[h.rng.Intn(3)], "sync", "poll", "compact1:keep", "poll",
				"w:"+[]string{"update", "ins-small"}[h.rng.Intn(2)], "sync", "l0ret", "poll")
			return
		}
		h.queue = append(h.queue, []string{"compact1:keep", "compact1:del"}[h.rng.Intn(2)])
	case r < 52:
		h.queue = append(h.queue, "compact2")
	case r < 55:
		h.queue = append(h.queue, "snapshot")
	case r < 59:
		h.queue = append(h.queue, "l0ret")
	default:
		if h.s.SQL && h.rng.Intn(2) == 0 {
			if h.sqlv == nil {
				h.queue = append(h.queue, "sqlopen")
				return
			}
			switch q := h.rng.Intn(100); {
			case q < 50:
				h.queue = append(h.queue, "sqlpoll")
			case q < 88:
				h.queue = append(h.queue, "sqltxpoll")
			default:
				h.queue = append(h.queue, "sqlclose")
			}
			return
		}
		small := func() string { return "w:" + []string{"update", "ins-small", "ins-multi"}[h.rng.Intn(3)] }
		if h.direct == nil {
			if h.s.Hyd != "" {
				// a slow hydration: the background restore is held in flight while the view is used
				switch q := h.rng.Intn(100); {
				case q < 15:
					h.queue = append(h.queue, "open:gate", small(), "sync", "poll", "hrelease")
					return
				case q < 22:
					h.queue = append(h.queue, "open:gate", "ttset", "hrelease", "ttreset")
					return
				case q < 27:
					h.queue = append(h.queue, "open:gate", small(), "sync", "rtplain", "hrelease")
					return
				}
			}
			h.queue = append(h.queue, "open")
			return
		}
		if h.s.Hyd != "" && h.direct.hw != nil && !h.direct.hw.serving() && h.rng.Intn(3) == 0 {
			// time travel switched hydrated reads off for the rest of this file's life: reopen
			h.queue = append(h.queue, "close", "open")
			return
		}
		// staged: commits for the next poll to find, a third of the time with a shrink among them
		staged := func() []string {
			if h.rng.Intn(3) > 0 {
				return []string{small(), "sync"}
			}
			t := []string{[]string{"w:delete-half", "w:delete-all"}[h.rng.Intn(2)]}
			switch h.s.Cfg.AutoVacuum {
			case 2:
				t = append(t, fmt.Sprintf("incvac:%d", []int{0, 2, 5, 20}[h.rng.Intn(4)]))
			case 0:
				t = append(t, "vacuum")
			}
			if h.rng.Intn(3) == 0 {
				t = append(t, small())
			}
			return append(t, "sync")
		}
		switch q := h.rng.Intn(100); {
		case q < 46:
			h.queue = append(h.queue, "poll")
		case q < 56:
			h.queue = append(h.queue, "lpoll")
		case q < 61:
			h.queue = append(h.queue, "tt")
		case q < 66:
			h.queue = append(h.queue, small(), "sync", "ttrace")
		case q < 74:
			// SetTargetTime inside a read transaction during which a poll staged newer files
			h.queue = append(h.queue, append(staged(), "ttlock")...)
		case q < 78:
			// ResetTime inside a read transaction during which a poll staged newer files
			h.queue = append(h.queue, append(staged(), "rtlock")...)
		case q < 81:
			// ResetTime with unpolled files on the replica, not time travelling
			h.queue = append(h.queue, small(), "sync", "rtplain")
		case q < 90:
			// the primary keeps committing while the view looks at the past
			h.queue = append(h.queue, "ttset", small(), "sync")
			if h.rng.Intn(2) == 0 {
				h.queue = append(h.queue, "ttpoll")
			}
			if h.rng.Intn(3) == 0 {
				h.queue = append(h.queue, staged()...)
			}
			h.queue = append(h.queue, []string{"ttreset", "ttreset", "ttreset:lock"}[h.rng.Intn(3)])
			if h.rng.Intn(2) == 0 {
				h.queue = append(h.queue, small(), "sync", "poll")
			}
		case q < 95:
			h.queue = append(h.queue, "close")
		default:
			h.queue = append(h.queue, "close", "open")
		}
	}
}

func (h *harness) next() {
	tok := h.queue[0]
	h.queue = h.queue[1:]
	h.toks = append(h.toks, tok)
	name, arg, _ := strings.Cut(tok, ":")
	e := h.e
	switch name {
	case "w":
		h.write(arg)
	case "x":
		_, err := e.W.Exec(arg)
		e.Logf("app %s err=%v", arg, err)
	case "incvac":
		q := "PRAGMA incremental_vacuum"
		if arg != "0" {
			q += "(" + arg + ")"
		}
		_, err := e.W.Exec(q)
		e.Logf("app %s err=%v", q, err)
		if err == nil {
			h.res.Count("app_incremental_vacuum", 1)
		}
	case "vacuum":
		_, err := e.W.Exec(`VACUUM`)
		e.Logf("app VACUUM err=%v", err)
		if err == nil {
			h.res.Count("app_vacuum", 1)
		}
	case "sync":
		h.sync()
	case "compact1":
		if arg == "del" {
			e.LS.L0Retention = time.Nanosecond
		} else { // keep | hide
			e.LS.L0Retention = time.Hour
		}
		before := len(oracle.ListLevel(h.rep, 0))
		info, err := e.LS.Compact(h.ctx, 1)
		after := len(oracle.ListLevel(h.rep, 0))
		e.Logf("Compact(1) l0retention=%s -> %s err=%v; level-0 files %d -> %d", arg, infoStr(info), err, before, after)
		if err == nil {
			h.res.Count("compact_l1", 1)
			if arg == "hide" && info != nil {
				if h.hidden == nil {
					h.hidden = map[fileID]bool{}
				}
				h.hidden[fileID{1, info.MinTXID, info.MaxTXID}] = true
				e.Logf("%s is not yet visible to the read side", infoStr(info))
				h.res.Count("compact_l1_visible_late", 1)
			}
		}
		if after < before {
			h.res.Count("level0_files_deleted_by_retention", before-after)
		}
	case "unhide":
		if len(h.hidden) > 0 {
			e.Logf("pending level-1 files become visible to the read side")
		}
		h.hidden = nil
	case "compact2":
		info, err := e.LS.Compact(h.ctx, 2)
		e.Logf("Compact(2) -> %s err=%v", infoStr(info), err)
		if err == nil {
			h.res.Count("compact_l2", 1)
		}
	case "snapshot":
		info, err := e.LS.Snapshot(h.ctx)
		e.Logf("Snapshot -> %s err=%v", infoStr(info), err)
		if err == nil {
			h.res.Count("snapshot", 1)
		}
	case "l0ret":
		e.LS.L0Retention = time.Nanosecond
		before := len(oracle.ListLevel(h.rep, 0))
		err := e.LS.EnforceL0RetentionByTime(h.ctx)
		after := len(oracle.ListLevel(h.rep, 0))
		e.Logf("EnforceL0RetentionByTime(1ns) err=%v; level-0 files %d -> %d", err, before, after)
		if after < before {
			h.res.Count("level0_files_deleted_by_retention", before-after)
		}
	case "open":
		h.open(arg == "gate")
	case "hrelease":
		h.releaseHydration(h.direct)
	case "close":
		h.closeView(&h.direct)
	case "poll":
		h.poll(h.direct, false)
	case "lpoll":
		h.poll(h.direct, true)
	case "tt":
		h.timeTravel(h.direct, "", arg)
	case "ttrace":
		h.timeTravel(h.direct, "race", arg)
	case "ttlock":
		h.timeTravel(h.direct, "lock", arg)
	case "ttset":
		h.ttSet(h.direct, "", arg)
	case "ttpoll":
		h.ttPoll(h.direct)
	case "ttreset":
		h.ttReset(h.direct, arg == "lock")
	case "rtlock":
		h.resetOutsideTimeTravel(h.direct, true)
	case "rtplain":
		h.resetOutsideTimeTravel(h.direct, false)
	case "sqlopen":
		h.sqlOpen()
	case "sqlclose":
		h.closeView(&h.sqlv)
	case "sqlpoll":
		h.sqlPoll(false)
	case "sqltxpoll":
		h.sqlPoll(true)
	}
	// a view that showed a violation is discarded: its state says nothing about later steps
	if h.direct != nil && h.direct.broken {
		h.closeView(&h.direct)
	}
	if h.sqlv != nil && h.sqlv.broken {
		h.closeView(&h.sqlv)
	}
}

// write runs one application transaction of the given shape (the shapes of
// hist.Env.AppWriteKind, without its per-commit source image and dump: C18
// takes its reference from the replica, not from the source).
func (h *harness) write(kind string) {
	e := h.e
	tx, err := e.W.Begin()
	if err != nil {
		e.Logf("app begin err=%v", err)
		return
	}
	blob := func(n int) []byte {
		b := make([]byte, n)
		h.rng.Read(b)
		return b
	}
	ti := h.rng.Intn(3)
	tbl := fmt.Sprintf("t%d", ti)
	var ex error
	switch kind {
	case "ins-small":
		_, ex = tx.Exec(`INSERT INTO `+tbl+`(v) VALUES(?)`, blob(10+h.rng.Intn(200)))
	case "ins-big":
		_, ex = tx.Exec(`INSERT INTO `+tbl+`(v) VALUES(?)`, blob([]int{3000, 20000, 70000}[h.rng.Intn(3)]))
	case "ins-multi":
		n := 2 + h.rng.Intn(5)
		for i := 0; i < n && ex == nil; i++ {
			_, ex = tx.Exec(`INSERT INTO `+tbl+`(v) VALUES(?)`, blob(100+h.rng.Intn(3000)))
		}
	case "update":
		_, ex = tx.Exec(`UPDATE `+tbl+` SET v=? WHERE id%3=?`, blob(50), h.rng.Intn(3))
	case "delete-half":
		_, ex = tx.Exec(`DELETE FROM `+tbl+` WHERE id%2=?`, h.rng.Intn(2))
	case "delete-all":
		_, ex = tx.Exec(`DELETE FROM ` + tbl)
	case "ddl":
		h.ddlN++
		switch h.rng.Intn(4) {
		case 0:
			_, ex = tx.Exec(fmt.Sprintf(`CREATE TABLE x%d(id INTEGER PRIMARY KEY, a, b)`, h.ddlN))
			if ex == nil {
				_, ex = tx.Exec(fmt.Sprintf(`INSERT INTO x%d(a,b) VALUES(?,?)`, h.ddlN), h.ddlN, blob(300))
			}
		case 1:
			_, ex = tx.Exec(fmt.Sprintf(`CREATE INDEX IF NOT EXISTS i%d_%d ON %s(v)`, ti, h.ddlN%2, tbl))
		case 2:
			_, ex = tx.Exec(fmt.Sprintf(`DROP INDEX IF EXISTS i%d_%d`, ti, h.ddlN%2))
		case 3:
			var name sql.NullString
			_ = tx.QueryRow(`SELECT name FROM sqlite_master WHERE type='table' AND name LIKE 'x%' ORDER BY name LIMIT 1`).Scan(&name)
			if name.Valid {
				_, ex = tx.Exec(`DROP TABLE ` + name.String)
			}
		}
	}
	if ex == nil {
		_, ex = tx.Exec(`UPDATE ledger SET k=k+1`)
	}
	if ex != nil {
		_ = tx.Rollback()
		e.Logf("app %s %s err=%v (rolled back)", kind, tbl, ex)
		return
	}
	if err := tx.Commit(); err != nil {
		e.Logf("app %s %s commit err=%v", kind, tbl, err)
		return
	}
	e.Logf("app %s %s committed", kind, tbl)
	h.res.Count("app_commit_"+kind, 1)
}

func infoStr(info *ltx.FileInfo) string {
	if info == nil {
		return "-"
	}
	return fmt.Sprintf("L%d/%d-%d", info.Level, info.MinTXID, info.MaxTXID)
}

func (h *harness) sync() {
	err := h.e.LS.SyncAndWait(h.ctx)
	if aerr := h.e.Arch.Scan(h.rep); aerr != nil {
		h.res.HarnessErr = "level-0 archive: " + aerr.Error()
		return
	}
	mx := h.e.Arch.Max()
	var cs []string
	for n := h.scanned + 1; n <= mx; n++ {
		lf := h.e.Arch.Files[n]
		if lf == nil {
			h.res.HarnessErr = fmt.Sprintf("level-0 archive has no file for TXID %d (max %d)", n, mx)
			return
		}
		if prev := h.e.Arch.Files[n-1]; prev != nil && lf.Hdr.Commit < prev.Hdr.Commit {
			h.histShrinks++
		}
		cs = append(cs, fmt.Sprintf("%d:commit=%d,pages=%d", n, lf.Hdr.Commit, len(lf.Pages)))
	}
	h.scanned = mx
	h.e.Logf("SyncAndWait err=%v; new level-0 %v", err, cs)
	if err == nil {
		h.res.Count("sync_and_wait", 1)
	}
	// spread the millisecond header timestamps (only to make time-travel targets distinct)
	time.Sleep(2 * time.Millisecond)
}

// ---------------------------------------------------------------------------
// history predicates

func (h *harness) header(level int, min, max ltx.TXID) (ltx.Header, error) {
	if level == 0 && min == max {
		if lf := h.e.Arch.Files[int(max)]; lf != nil {
			return lf.Hdr, nil
		}
	}
	k := fmt.Sprintf("%d/%d-%d", level, min, max)
	if hd, ok := h.hdrCache[k]; ok {
		return hd, nil
	}
	f, err := os.Open(h.client.LTXFilePath(level, min, max))
	if err != nil {
		return ltx.Header{}, err
	}
	defer f.Close()
	hd, _, err := ltx.PeekHeader(f)
	if err != nil {
		return ltx.Header{}, err
	}
	h.hdrCache[k] = hd
	return hd, nil
}

func (h *harness) planFacts(kind string, plan []*ltx.FileInfo) facts {
	fx := facts{kind: kind}
	var prev uint32
	var parts []string
	for _, info := range plan {
		fx.files = append(fx.files, fileID{info.Level, info.MinTXID, info.MaxTXID})
		hd, err := h.header(info.Level, info.MinTXID, info.MaxTXID)
		if err != nil {
			parts = append(parts, infoStr(info)+":?")
			continue
		}
		if prev != 0 && hd.Commit < prev {
			fx.planShrink = true
		}
		prev = hd.Commit
		parts = append(parts, fmt.Sprintf("%s:commit=%d", infoStr(info), hd.Commit))
	}
	fx.desc = "plan " + strings.Join(parts, " ")
	return fx
}

// pollFacts looks at the replica the way the next poll will (the primary is
// quiescent between steps): level 0 from Pos()+1 while contiguous, level 1 from
// MaxTXID1()+1 while contiguous.
func (h *harness) pollFacts(v *view, kind string) facts {
	fx := facts{kind: kind}
	pos := int(v.f.Pos().TXID)
	max1 := int(v.f.MaxTXID1())
	var c uint32
	if lf := h.e.Arch.Files[pos]; lf != nil {
		c = lf.Hdr.Commit
	}
	var parts []string
	max0 := pos
	for _, fr := range oracle.ListLevel(h.rep, 0) {
		if fr.Min <= pos {
			continue
		}
		if fr.Min != max0+1 {
			parts = append(parts, fmt.Sprintf("(level-0 gap before %d)", fr.Min))
			break
		}
		hd, err := h.header(0, ltx.TXID(fr.Min), ltx.TXID(fr.Max))
		if err != nil {
			break
		}
		if c != 0 && hd.Commit < c {
			fx.batchShrink = true
		}
		c = hd.Commit
		max0 = fr.Max
		fx.files = append(fx.files, fileID{0, ltx.TXID(fr.Min), ltx.TXID(fr.Max)})
		parts = append(parts, fmt.Sprintf("%s:commit=%d", fr, hd.Commit))
	}
	var c1 uint32
	if lf := h.e.Arch.Files[max1]; lf != nil {
		c1 = lf.Hdr.Commit
	}
	m1 := max1
	for _, fr := range oracle.ListLevel(h.rep, 1) {
		if fr.Min < max1+1 || h.hidden[fileID{1, ltx.TXID(fr.Min), ltx.TXID(fr.Max)}] {
			continue
		}
		if fr.Min != m1+1 {
			parts = append(parts, fmt.Sprintf("(level-1 not contiguous at %s)", fr))
			break
		}
		hd, err := h.header(1, ltx.TXID(fr.Min), ltx.TXID(fr.Max))
		if err != nil {
			break
		}
		if c1 != 0 && hd.Commit < c1 {
			fx.batchShrink = true
		}
		c1 = hd.Commit
		if fr.Max < max0 {
			fx.l1Behind = true
		}
		m1 = fr.Max
		fx.files = append(fx.files, fileID{1, ltx.TXID(fr.Min), ltx.TXID(fr.Max)})
		parts = append(parts, fmt.Sprintf("%s:commit=%d", fr, hd.Commit))
	}
	fx.desc = fmt.Sprintf("poll from pos=%d maxTXID1=%d reads %s", pos, max1, strings.Join(parts, " "))
	if len(parts) == 0 {
		fx.desc = fmt.Sprintf("poll from pos=%d maxTXID1=%d reads nothing new", pos, max1)
	}
	return fx
}

// deletedFile names a file this view indexed that is gone from the replica.
func (h *harness) deletedFile(v *view) string {
	var gone []string
	for id := range v.files {
		if _, err := os.Stat(h.client.LTXFilePath(id.level, id.min, id.max)); os.IsNotExist(err) {
			gone = append(gone, fmt.Sprintf("L%d/%d-%d", id.level, id.min, id.max))
		}
	}
	sort.Strings(gone)
	if len(gone) > 6 {
		gone = append(gone[:6], "...")
	}
	return strings.Join(gone, " ")
}

// cursorSeedingExplains is the history predicate of the known finding F18. It
// holds when, for every page that answered Busy,
//   - the view's index was (re)built from a plan without a level-1 file, so its
//     level-1 cursor was seeded with its position at that time (seed),
//   - the level-0 file of the page's last writer w (w <= view position) has been
//     deleted from the replica, i.e. it was compacted into a level-1 file C,
//   - the view never took C's entries (C is not among the files it polled), and
//     that is explained by the seeding: C.MinTXID <= seed (C can never be listed,
//     the listing seeks MinTXID >= seed+1), or another level-1 file U with
//     U.MinTXID <= seed < U.MaxTXID can never be listed, which makes every later
//     level-1 file "non-contiguous" for this view.
//
// A Busy page whose covering level-1 file the view did poll is not explained.
func (h *harness) cursorSeedingExplains(v *view, pages []int) string {
	if !v.noL1Plan || len(pages) == 0 {
		return ""
	}
	pos := int(v.f.Pos().TXID)
	seed := int(v.seed)
	var l1 []oracle.FileRef
	for _, fr := range oracle.ListLevel(h.rep, 1) {
		if !h.hidden[fileID{1, ltx.TXID(fr.Min), ltx.TXID(fr.Max)}] {
			l1 = append(l1, fr)
		}
	}
	broken := ""
	for _, fr := range l1 {
		if fr.Min <= seed && fr.Max > seed && !v.files[fileID{1, ltx.TXID(fr.Min), ltx.TXID(fr.Max)}] {
			broken = fr.String()
		}
	}
	var parts []string
	for _, pg := range pages {
		w := h.lastWriter(pg, pos)
		if w == 0 {
			return ""
		}
		if _, err := os.Stat(h.client.LTXFilePath(0, ltx.TXID(w), ltx.TXID(w))); !os.IsNotExist(err) {
			return "" // the last writer's level-0 file is still there: something else is wrong
		}
		var c *oracle.FileRef
		for i := range l1 {
			if l1[i].Min <= w && w <= l1[i].Max {
				c = &l1[i]
			}
		}
		switch {
		case c == nil:
			return ""
		case v.files[fileID{1, ltx.TXID(c.Min), ltx.TXID(c.Max)}]:
			return "" // the view polled the covering file and still reads the deleted one
		case c.Min <= seed:
			parts = append(parts, fmt.Sprintf("page %d: last writer %d, covered by %s which starts at or below the seeded cursor", pg, w, c))
		case broken != "":
			parts = append(parts, fmt.Sprintf("page %d: last writer %d, covered by %s, not contiguous for this view because %s can never be listed", pg, w, c, broken))
		default:
			return ""
		}
	}
	return fmt.Sprintf("index built from a plan without a level-1 file, level-1 cursor seeded with position %d; %s", seed, strings.Join(parts, "; "))
}

// lastWriter: the newest transaction <= upTo whose level-0 file holds the page.
func (h *harness) lastWriter(pg, upTo int) int {
	for n := upTo; n >= 1; n-- {
		if lf := h.e.Arch.Files[n]; lf != nil {
			if _, ok := lf.Pages[uint32(pg)]; ok {
				return n
			}
		}
	}
	return 0
}

func (v *view) addFiles(ids []fileID) {
	if v.files == nil {
		v.files = map[fileID]bool{}
	}
	for _, id := range ids {
		v.files[id] = true
	}
}

func (h *harness) classify(v *view, fx facts, generic string) (string, string) {
	if key, why := h.hydClassify(v, fx); key != "" {
		return key, why
	}
	if fx.local || v.hw.serving() {
		// the reads did not go through the index: its predicates explain nothing here
		return generic, fx.desc
	}
	if generic == keyRead && fx.allBusy {
		if why := h.cursorSeedingExplains(v, fx.busyPages); why != "" {
			return keyRetention, why + "; files this view took index entries from that retention deleted: " + h.deletedFile(v) + "; " + fx.desc
		}
	}
	switch {
	case fx.planShrink:
		return keyOpenShrink, fx.desc
	case fx.batchShrink && fx.l1Behind:
		return keyPollShrink, fx.desc + " (the batch also holds a level-1 file behind the position: " + keyL1Behind + " applies as well)"
	case fx.batchShrink:
		return keyPollShrink, fx.desc
	case fx.l1Behind:
		return keyL1Behind, fx.desc
	case v.stickyShrink != "":
		return keyPollShrink, "latent since an earlier poll of this index: " + v.stickyShrink + "; now " + fx.desc
	case v.stickyL1 != "":
		return keyL1Behind, "latent since an earlier poll of this index: " + v.stickyL1 + "; now " + fx.desc
	}
	return generic, fx.desc
}

func (h *harness) violate(v *view, fx facts, generic, format string, a ...any) {
	key, why := h.classify(v, fx, generic)
	v.broken = true
	msg := fmt.Sprintf(format, a...)
	h.e.Logf("VIOLATION key=%s (%s view, step %s): %s", key, v.label, fx.kind, msg)
	if h.seenKeys[key] {
		h.res.Count("further_witnesses_same_key_in_case", 1)
		return
	}
	h.seenKeys[key] = true
	h.res.Violate(key, "%s view, step %d %q: %s; history predicate: %s [%s cache_pages=%d hydration=%q]", v.label, len(h.toks), fx.kind, msg, why, h.s.Cfg, h.s.Cache, h.hydDesc(v))
	if len(h.seenKeys) >= 4 {
		h.stop = true
	}
}

// ---------------------------------------------------------------------------
// reference

func (h *harness) image(n int) ([]byte, error) {
	if img, ok := h.imgCache[n]; ok {
		return img, nil
	}
	img, err := h.e.Arch.Image(n)
	if err != nil {
		return nil, err
	}
	if len(h.imgCache) > 6 {
		h.imgCache = map[int][]byte{}
	}
	h.imgCache[n] = img
	return img, nil
}

// xcheck compares image_n with Restore(TXID=n) once per n while n is a
// restorable boundary. A disagreement is a defect of the reference (or a C06
// matter), never a C18 violation.
func (h *harness) xcheck(n int, ref []byte) {
	if h.xchecked[n] {
		return
	}
	h.xchecked[n] = true
	opt := litestream.NewRestoreOptions()
	opt.TXID = ltx.TXID(n)
	got, err := h.e.RestoreBytes(opt)
	switch {
	case err != nil && strings.Contains(err.Error(), litestream.ErrTxNotAvailable.Error()):
		h.res.Count("restore_xcheck_txid_no_longer_a_boundary", 1)
	case err != nil:
		h.res.Count("restore_xcheck_error", 1)
		h.e.Logf("Restore(TXID=%d) err=%v (cross-check skipped)", n, err)
	case !bytes.Equal(got, ref):
		h.res.HarnessErr = fmt.Sprintf("reference self-check failed: Restore(TXID=%d) (%d bytes) differs from image_%d of the level-0 archive (%d bytes)", n, len(got), n, len(ref))
	default:
		h.res.Count("restore_xcheck_equal", 1)
	}
}

// compareBytes is the deciding oracle: FileSize and every page against ref.
func (h *harness) compareBytes(v *view, fx facts, ref []byte, what string) bool {
	ps := h.ps
	npages := len(ref) / ps
	lock := int(ltx.LockPgno(uint32(ps)))
	var opens0 int64
	if v.client != nil {
		opens0 = v.client.opens.Load()
	}
	defer func() {
		// how the reads of this comparison were served: a view that serves from its
		// hydrated copy does not touch the replica (observed at the read side's client)
		if v.client == nil || v.hw == nil {
			return
		}
		fetched := v.client.opens.Load() - opens0
		switch model := v.hw.serving(); {
		case model && fetched == 0:
			h.res.Count("compare_served_from_hydrated_file", 1)
			h.res.Count("pages_read_while_hydrated", npages)
		case model:
			h.res.Count("compare_hydrated_view_fetched_from_replica", 1)
		case fetched == 0 && npages > h.cachePages():
			h.res.Count("compare_without_replica_fetch_although_hydrated_reads_are_off", 1)
		default:
			h.res.Count("compare_hydration_enabled_served_through_index", 1)
		}
	}()
	size, err := v.f.FileSize()
	h.res.Evals++
	var sizeMsg string
	if err != nil {
		sizeMsg = fmt.Sprintf("FileSize error %v", err)
	} else if size != int64(len(ref)) {
		sizeMsg = fmt.Sprintf("FileSize=%d (%d pages) but %s has %d bytes (%d pages)", size, size/int64(ps), what, len(ref), npages)
	}
	var bad, rerr []string
	nbad, nerr, nbusy := 0, 0, 0
	buf := make([]byte, ps)
	for pg := 1; pg <= npages; pg++ {
		if pg == lock {
			continue
		}
		want := ref[(pg-1)*ps : pg*ps]
		n, err := v.f.ReadAt(buf, int64(pg-1)*int64(ps))
		h.res.Evals++
		if err != nil || n != ps {
			nerr++
			fx.badPages = append(fx.badPages, pg)
			if err == sqlite3vfs.BusyError {
				nbusy++
				fx.busyPages = append(fx.busyPages, pg)
			}
			if len(rerr) < 4 {
				rerr = append(rerr, fmt.Sprintf("page %d: n=%d err=%v", pg, n, err))
			}
			if nerr >= 4 { // a missing file costs 225 ms of retries per page
				break
			}
			continue
		}
		got := buf
		if pg == 1 {
			got = append([]byte{}, buf...)
			copy(got[18:20], want[18:20])
			copy(got[24:28], want[24:28])
			if buf[18] != 1 || buf[19] != 1 {
				h.res.Count("page1_version_bytes_not_rewritten", 1)
			}
		}
		if !bytes.Equal(got, want) {
			nbad++
			fx.badPages = append(fx.badPages, pg)
			if len(bad) < 8 {
				off := 0
				for i := range want {
					if got[i] != want[i] {
						off = i
						break
					}
				}
				bad = append(bad, fmt.Sprintf("%d@%d", pg, off))
			}
		}
	}
	h.res.Count("pages_compared", npages)
	// sub-page ranges (SQLite reads the first 100 bytes and 16 bytes at offset 24)
	if nerr == 0 && nbad == 0 && npages > 0 {
		// own PRNG: the main stream must not depend on comparison outcomes
		sub := rand.New(rand.NewSource(vf.SubSeed(h.s.Seed, "sub", len(h.toks))))
		for i := 0; i < 3; i++ {
			pg := 1 + sub.Intn(npages)
			off := sub.Intn(ps)
			ln := 1 + sub.Intn(ps-off)
			if i == 0 {
				pg, off, ln = 1, 24, 16
			}
			if pg == lock {
				continue
			}
			p := make([]byte, ln)
			n, err := v.f.ReadAt(p, int64(pg-1)*int64(ps)+int64(off))
			h.res.Evals++
			want := ref[(pg-1)*ps+off : (pg-1)*ps+off+ln]
			if err != nil || n != ln {
				nerr++
				if err == sqlite3vfs.BusyError {
					nbusy++
					fx.busyPages = append(fx.busyPages, pg)
				}
				rerr = append(rerr, fmt.Sprintf("page %d [%d:+%d]: n=%d err=%v", pg, off, ln, n, err))
				continue
			}
			if pg == 1 && off == 0 { // only a read at offset 0 is rewritten
				if ln > 18 {
					copy(p[18:min(20, ln)], want[18:min(20, ln)])
				}
				if ln > 24 {
					copy(p[24:min(28, ln)], want[24:min(28, ln)])
				}
			}
			if !bytes.Equal(p, want) {
				nbad++
				bad = append(bad, fmt.Sprintf("%d[%d:+%d]", pg, off, ln))
			}
		}
	}
	if sizeMsg == "" && nbad == 0 && nerr == 0 {
		return true
	}
	generic := keyPage
	var parts []string
	if sizeMsg != "" {
		generic = keySize
		parts = append(parts, sizeMsg)
	}
	if nbad > 0 {
		parts = append(parts, fmt.Sprintf("%d page(s) differ from %s (page@first differing byte): %v", nbad, what, bad))
	}
	if nerr > 0 {
		if sizeMsg == "" && nbad == 0 {
			generic = keyRead
			fx.allBusy = nbusy == nerr
		}
		parts = append(parts, fmt.Sprintf("ReadAt failed for page(s) inside the database: %v", rerr))
	}
	if v.client != nil && v.hw != nil && v.client.opens.Load() == opens0 && npages > h.cachePages() {
		fx.local = true
		parts = append(parts, "no replica fetch during this comparison: every read was served from the hydrated copy")
	}
	h.violate(v, fx, generic, "%s", strings.Join(parts, "; "))
	return false
}

// compare checks a view against image_n, n = Pos().TXID.
func (h *harness) compare(v *view, fx facts) bool {
	n := int(v.f.Pos().TXID)
	ref, err := h.image(n)
	if err != nil {
		h.res.HarnessErr = fmt.Sprintf("no reference for VFS position %d: %v", n, err)
		return false
	}
	h.xcheck(n, ref)
	if h.res.HarnessErr != "" {
		return false
	}
	h.compares++
	h.cmpTXIDs[n] = true
	fx.ref = n
	h.res.Count("compare_"+fx.kind, 1)
	if fx.planShrink {
		h.res.Count("index_built_from_plan_with_shrink", 1)
	}
	if fx.batchShrink {
		h.res.Count("poll_batch_with_shrink", 1)
	}
	if fx.l1Behind {
		h.res.Count("poll_saw_l1_file_behind_position", 1)
	}
	ok := h.compareBytes(v, fx, ref, fmt.Sprintf("the restore at TXID %d", n))
	h.e.Logf("%s view %s: pos=%d ref=%d pages -> ok=%v (%s)", v.label, fx.kind, n, len(ref)/h.ps, ok, fx.desc)
	return ok
}

// ---------------------------------------------------------------------------
// direct view

func (h *harness) newFile() (*litestream.VFSFile, *viewClient) {
	c := h.newClient()
	f := litestream.NewVFSFile(c, "db", h.logger)
	f.PollInterval = 24 * time.Hour // the ticker never fires; polls are placed by VerifPollOnce
	if h.s.Cache > 0 {
		f.CacheSize = h.s.Cache * h.ps
	}
	return f, c
}

// built records what the narrowed F18 predicate needs about the plan a view's
// index was (re)built from.
func (v *view) built(fx facts) {
	v.stickyShrink, v.stickyL1 = "", ""
	v.files = nil
	v.addFiles(fx.files)
	v.noL1Plan = true
	for _, id := range fx.files {
		if id.level == 1 {
			v.noL1Plan = false
		}
	}
	v.seed = v.f.MaxTXID1()
}

func (h *harness) latestPlan() ([]*ltx.FileInfo, error) {
	return litestream.CalcRestorePlan(h.ctx, h.client, 0, time.Time{}, h.logger)
}

func (h *harness) cachePages() int {
	if h.s.Cache > 0 {
		return h.s.Cache
	}
	return litestream.DefaultCacheSize / h.ps
}

func (h *harness) hydDesc(v *view) string {
	if v.hw == nil {
		return "off"
	}
	finished, completed, failed, disabled, applyErrs := v.hw.state()
	d := h.s.Hyd
	switch {
	case v.gated:
		d += ", held in flight"
	case !finished:
		d += ", in flight"
	case completed && disabled == 0:
		d += ", complete, hydrated reads on"
	case completed:
		d += ", complete, hydrated reads switched off by SetTargetTime"
	default:
		d += ", failed: " + failed
	}
	if applyErrs > 0 {
		d += fmt.Sprintf(", %d failed update(s) of the hydrated copy", applyErrs)
	}
	if v.resumeFrom > 0 {
		d += fmt.Sprintf(", resumed at TXID %d", v.resumeFrom)
	}
	return d
}

// open opens the direct view. With the hydration dimension on it goes through
// litestream.VFS (HydrationEnabled) and, unless gate is set, waits for the
// background hydration to complete before anything is compared; with gate the
// hydration goroutine is held at its first step until "hrelease".
func (h *harness) open(gate bool) {
	if h.direct != nil {
		return
	}
	plan, err := h.latestPlan()
	if err != nil { // Open would wait for a plan
		h.e.Logf("vfs open skipped: no restore plan (%v)", err)
		h.res.Count("open_skipped_no_plan", 1)
		return
	}
	var v *view
	if h.s.Hyd == "" {
		f, c := h.newFile()
		if err := f.Open(); err != nil {
			h.e.Logf("vfs Open err=%v", err)
			h.res.Count("open_error", 1)
			_ = f.Close()
			return
		}
		v = &view{label: "direct", f: f, client: c}
	} else {
		persisted := persistedTXID(h.hydPath("direct"))
		f, c, w, err := h.newHydratedFile(gate)
		if err != nil {
			h.e.Logf("vfs Open (hydration) err=%v", err)
			h.res.Count("open_error", 1)
			return
		}
		v = &view{label: "direct", f: f, client: c, hw: w, posAtOpen: f.Pos().TXID}
		h.res.Count("hydration_started", 1)
		h.noteResume(v, persisted)
	}
	h.direct = v
	fx := h.planFacts("open", plan)
	v.built(fx)
	h.e.Logf("vfs Open -> pos=%d maxTXID1=%d hydration=%q", v.f.Pos().TXID, v.f.MaxTXID1(), h.s.Hyd)
	if v.hw != nil {
		if gate {
			if !h.gatedOpenEntered(v) && h.res.HarnessErr != "" {
				return
			}
		} else if !h.awaitHydration(v) && h.res.HarnessErr != "" {
			return
		}
		if v.hw.serving() {
			fx.kind = "open-hydrated"
		}
	}
	h.compare(v, fx)
}

func (h *harness) closeView(pv **view) {
	v := *pv
	if v == nil {
		return
	}
	*pv = nil
	if v.gated { // Close waits for the hydration goroutine
		v.gated = false
		close(v.hw.release)
	}
	if v.hw != nil && h.s.Hyd == "persist" {
		if h.persistMissed == nil {
			h.persistMissed = map[string][]missedRange{}
		}
		h.persistMissed[v.label] = v.missed
	}
	if v.conn != nil {
		_ = v.conn.Close()
	}
	if v.db != nil {
		_ = v.db.Close()
	} else if v.f != nil {
		_ = v.f.Close()
	}
	h.e.Logf("%s view closed", v.label)
}

func (h *harness) closeViews() {
	h.closeView(&h.direct)
	h.closeView(&h.sqlv)
}

func (h *harness) pollOnce(v *view, fx facts) {
	before := v.f.Pos().TXID
	err := v.f.VerifPollOnce(h.ctx)
	after := v.f.Pos().TXID
	h.e.Logf("%s view VerifPollOnce err=%v pos %d -> %d maxTXID1=%d", v.label, err, before, after, v.f.MaxTXID1())
	switch {
	case err != nil:
		h.res.Count("poll_error", 1)
		if strings.Contains(err.Error(), "non-contiguous") {
			h.res.Count("poll_error_non_contiguous_level1", 1)
		}
	case after > before:
		h.advancedPolls++
		h.res.Count("poll_advanced", 1)
	default:
		h.res.Count("poll_no_change", 1)
	}
	if after < before {
		h.res.Count("poll_position_regressed", 1)
	}
	if v.hw != nil && after > before {
		switch {
		case v.gated:
			v.miss(keyHydPoll, int(before), int(after), nil, fmt.Sprintf("a poll advanced the position %d -> %d while the background hydration (started at position %d) was in flight", before, after, v.posAtGate))
			h.res.Count("poll_advanced_while_hydration_in_flight", 1)
		case v.hw.serving() && err == nil:
			v.hydAt = int(after)
			h.res.Count("poll_applied_to_hydrated_file", 1)
		}
	}
	if err == nil {
		v.addFiles(fx.files)
		if fx.batchShrink {
			v.stickyShrink = fx.desc
		}
		if fx.l1Behind {
			v.stickyL1 = fx.desc
		}
	}
}

func (h *harness) poll(v *view, locked bool) {
	if v == nil {
		return
	}
	if v.tt {
		return
	}
	kind := "poll"
	if locked {
		kind = "poll-locked"
	}
	fx := h.pollFacts(v, kind)
	if locked {
		// what SQLite does around a read transaction: SHARED, (poll lands in the pending index), NONE
		if err := v.f.Lock(sqlite3vfs.LockShared); err != nil {
			h.e.Logf("Lock(SHARED) err=%v", err)
			return
		}
	}
	h.pollOnce(v, fx)
	if locked {
		if err := v.f.Unlock(sqlite3vfs.LockNone); err != nil {
			h.e.Logf("Unlock(NONE) err=%v", err)
		}
	}
	h.compare(v, fx)
}

// timeTravel: SetTargetTime(T) vs Restore(Timestamp=T), T derived from a
// recorded level-0 header timestamp; then (sometimes) a poll during time
// travel, then ResetTime vs the latest position. The three phases are also
// available as separate steps (ttset / ttpoll / ttreset) so that primary
// commits can be placed inside the time-travel window.
func (h *harness) timeTravel(v *view, mode, arg string) {
	if v == nil || h.e.Arch.Max() == 0 || v.tt || v.gated {
		return
	}
	pollDuring := h.rng.Intn(2) == 0 // drawn before any timing-dependent outcome
	resetLocked := h.rng.Intn(4) == 0
	ok := h.ttSet(v, mode, arg)
	if ok && pollDuring {
		ok = h.ttPoll(v)
	}
	if ok {
		h.ttReset(v, resetLocked)
	}
}

// ttSet issues SetTargetTime and compares the view with Restore(Timestamp=T).
//
// mode "race": SetTargetTime is issued while a poll is in flight. The poll runs
// in a goroutine and is held in its first replica call (the level-0 listing) by
// the gate of the view's client -- the code's own suspension point, f.mu is not
// held there -- until SetTargetTime has returned; then the listing is released
// and the poll runs to its end before anything is compared.
//
// mode "lock": what a connection does that executes PRAGMA litestream_time
// inside a read transaction: Lock(SHARED); a poll lands in the staging area
// (pending index); SetTargetTime under the lock; Unlock(NONE). The comparison
// runs after the Unlock.
//
// arg "pos" (pinned demonstrations) takes T just after the timestamp of the
// view's position at the start of the step, "before" the newest earlier time.
func (h *harness) ttSet(v *view, mode, arg string) bool {
	if v == nil || h.e.Arch.Max() == 0 || v.tt {
		return false
	}
	n := 1 + h.rng.Intn(h.e.Arch.Max())
	q := h.rng.Intn(10)
	pos := int(v.f.Pos().TXID)
	switch arg {
	case "pos":
		n, q = pos, 0
	case "before":
		n, q = 1, 0
		for m := pos - 1; m >= 1; m-- {
			if h.e.Arch.Files[m] != nil && h.e.Arch.Files[pos] != nil && h.e.Arch.Files[m].Hdr.Timestamp+1 < h.e.Arch.Files[pos].Hdr.Timestamp {
				n = m
				break
			}
		}
	}
	ts := time.UnixMilli(h.e.Arch.Files[n].Hdr.Timestamp).UTC()
	var T time.Time
	var how string
	switch {
	case q < 6:
		T, how = ts.Add(time.Millisecond), fmt.Sprintf("timestamp of TXID %d + 1ms", n)
	case q < 8:
		T, how = ts, fmt.Sprintf("timestamp of TXID %d", n)
	case q < 9:
		T, how = time.UnixMilli(h.e.Arch.Files[1].Hdr.Timestamp).UTC().Add(-time.Hour), "one hour before TXID 1"
	default:
		T, how = time.UnixMilli(h.e.Arch.Files[h.e.Arch.Max()].Hdr.Timestamp).UTC().Add(time.Hour), "one hour after the newest TXID"
	}
	plan, perr := litestream.CalcRestorePlan(h.ctx, h.client, 0, T, h.logger)
	opt := litestream.NewRestoreOptions()
	opt.Timestamp = T
	want, rerr := h.e.RestoreBytes(opt)
	kind := "set-target-time"
	var serr error
	var pfx facts
	wasServing := v.hw.serving()
	switch mode {
	case "":
		serr = v.f.SetTargetTime(h.ctx, T)
	case "lock":
		kind = "set-target-time-locked"
		pfx = h.pollFacts(v, "poll")
		if err := v.f.Lock(sqlite3vfs.LockShared); err != nil {
			h.e.Logf("Lock(SHARED) err=%v", err)
			return false
		}
		before := v.f.Pos().TXID
		h.pollOnce(v, pfx) // lands in the staging area
		staged := v.f.Pos().TXID > before
		serr = v.f.SetTargetTime(h.ctx, T)
		if err := v.f.Unlock(sqlite3vfs.LockNone); err != nil {
			h.e.Logf("Unlock(NONE) err=%v", err)
		}
		h.e.Logf("direct view SetTargetTime under a SHARED lock; poll under the lock from pos=%d (%s) staged=%v; pos after Unlock %d", before, pfx.desc, staged, v.f.Pos().TXID)
		h.res.Count("set_target_time_under_lock", 1)
		if staged {
			h.res.Count("set_target_time_under_lock_with_staged_updates", 1)
			if pfx.batchShrink {
				h.res.Count("set_target_time_under_lock_staged_batch_contains_shrink", 1)
			}
			if serr == nil {
				h.res.Count("set_target_time_under_lock_with_staged_updates_served", 1)
			}
		}
	case "race":
		kind = "set-target-time-during-poll"
		pfx = h.pollFacts(v, "poll")
		before := v.f.Pos().TXID
		v.client.arm()
		done := make(chan error, 1)
		go func() { done <- v.f.VerifPollOnce(h.ctx) }()
		select {
		case <-v.client.entered:
		case err := <-done:
			v.client.armed.Store(false)
			h.res.HarnessErr = fmt.Sprintf("gated poll returned (err=%v) without listing level 0", err)
			return false
		case <-time.After(30 * time.Second):
			h.res.HarnessErr = "gated poll did not reach its level-0 listing within 30s"
			close(v.client.release)
			return false
		}
		serr = v.f.SetTargetTime(h.ctx, T) // the poll is in flight, waiting for the replica
		close(v.client.release)
		var perr2 error
		select {
		case perr2 = <-done:
		case <-time.After(60 * time.Second):
			h.res.HarnessErr = "released poll did not return within 60s"
			return false
		}
		h.e.Logf("direct view poll in flight from pos=%d (%s) while SetTargetTime ran; poll err=%v, pos now %d", before, pfx.desc, perr2, v.f.Pos().TXID)
		h.res.Count("set_target_time_during_poll", 1)
		if len(pfx.files) > 0 {
			h.res.Count("set_target_time_during_poll_with_new_files", 1)
		}
		if serr != nil && perr2 == nil {
			v.addFiles(pfx.files) // no time travel: the poll simply applied
		}
	}
	h.e.Logf("direct view SetTargetTime(%s = %s) err=%v; Restore(Timestamp) err=%v; plan err=%v", T.Format(time.RFC3339Nano), how, serr, rerr, perr)
	h.res.Evals++
	fx := h.planFacts(kind, plan)
	switch {
	case serr != nil && rerr != nil:
		h.res.Count("timetravel_both_unavailable", 1)
		if mode != "" {
			pfx.desc = "poll that ran (" + mode + ") around a refused SetTargetTime: " + pfx.desc
			h.compare(v, pfx)
		}
		return false
	case serr != nil:
		h.violate(v, fx, keyTT, "SetTargetTime(%s) fails (%v) although Restore(Timestamp) for that time succeeds", how, serr)
		return false
	case rerr != nil:
		h.violate(v, fx, keyTT, "SetTargetTime(%s) serves a view although Restore(Timestamp) for that time fails: %v", how, rerr)
		return false
	}
	v.tt = true
	v.built(fx)
	if v.hw != nil {
		h.res.Count("set_target_time_on_hydration_enabled_view", 1)
		if wasServing {
			h.res.Count("set_target_time_switched_hydrated_reads_off", 1)
		}
		if v.gated {
			v.ttDuringHyd = fmt.Sprintf("SetTargetTime(%s) ran while the background hydration (started at position %d) was in flight", how, v.posAtGate)
			h.res.Count("set_target_time_while_hydration_in_flight", 1)
		}
	}
	m := int(plan[len(plan)-1].MaxTXID) // the TXID the timestamp restore ends at
	if img, err := h.image(m); err != nil || !bytes.Equal(img, want) {
		h.res.HarnessErr = fmt.Sprintf("reference self-check failed: Restore(Timestamp=%s) differs from image_%d (end of the restore plan for that time) err=%v", how, m, err)
		return false
	}
	h.compares++
	h.cmpTXIDs[m] = true
	h.res.Count("compare_"+kind, 1)
	if fx.planShrink {
		h.res.Count("index_built_from_plan_with_shrink", 1)
	}
	what := fmt.Sprintf("Restore(Timestamp=%s) (TXID %d)", how, m)
	if got := int(v.f.Pos().TXID); got != m {
		what += fmt.Sprintf(" [the view reports position %d]", got)
		h.res.Count("timetravel_position_differs_from_plan", 1)
	}
	fx.ref = m
	v.ttWant, v.ttWhat, v.ttFx, v.ttTXID = want, what, fx, m
	ok := h.compareBytes(v, fx, want, what)
	h.e.Logf("direct view %s: plan ends at %d, view pos=%d -> ok=%v (%s)", kind, m, v.f.Pos().TXID, ok, fx.desc)
	return ok
}

// ttPoll: a poll must not disturb the historical view (whatever the primary
// has committed since SetTargetTime).
func (h *harness) ttPoll(v *view) bool {
	if v == nil || !v.tt {
		return false
	}
	err := v.f.VerifPollOnce(h.ctx)
	h.e.Logf("direct view VerifPollOnce during time travel err=%v pos=%d", err, v.f.Pos().TXID)
	fx2 := v.ttFx
	fx2.kind = "poll-in-time-travel"
	h.compares++
	h.res.Count("compare_poll-in-time-travel", 1)
	return h.compareBytes(v, fx2, v.ttWant, v.ttWhat)
}

// ttReset: ResetTime (optionally inside a read transaction) vs the restore at
// the position the view reports afterwards.
func (h *harness) ttReset(v *view, locked bool) {
	if v == nil || !v.tt {
		return
	}
	ttPos := int(v.f.Pos().TXID)
	kind := "reset-time"
	if locked {
		kind = "reset-time-locked"
		if err := v.f.Lock(sqlite3vfs.LockShared); err != nil {
			h.e.Logf("Lock(SHARED) err=%v", err)
			locked = false
		}
	}
	plan2, _ := h.latestPlan()
	fx3 := h.planFacts(kind, plan2)
	err := v.f.ResetTime(h.ctx)
	if locked {
		if uerr := v.f.Unlock(sqlite3vfs.LockNone); uerr != nil {
			h.e.Logf("Unlock(NONE) err=%v", uerr)
		}
	}
	if err != nil {
		h.e.Logf("ResetTime err=%v", err)
		h.res.Count("reset_time_error", 1)
		v.broken = true // cannot be used further; not judged
		return
	}
	v.tt = false
	v.ttWant = nil
	v.built(fx3)
	if n := len(plan2); n > 0 && h.e.Arch.Max() > 0 {
		// commits that reached the replica after the historical view's position
		if end := int(plan2[n-1].MaxTXID); end > ttPos {
			h.res.Count("reset_time_over_commits_after_the_historical_position", 1)
		}
	}
	if v.hw != nil {
		h.res.Count("reset_time_on_hydration_enabled_view", 1)
		if after := int(v.f.Pos().TXID); v.hw.serving() && after > v.hydAt {
			// hydrated reads were never switched off (SetTargetTime ran while the hydration was in flight)
			v.miss(keyHydReset, v.hydAt, after, nil, fmt.Sprintf("ResetTime moved the position to %d of a view that serves from its hydrated copy (at TXID %d; SetTargetTime ran while the hydration was in flight, so hydrated reads stayed on)", after, v.hydAt))
			v.hydAt = after
			h.res.Count("reset_time_moved_position_of_hydrated_view", 1)
		}
	}
	h.compare(v, fx3)
}

// resetOutsideTimeTravel: ResetTime (PRAGMA litestream_time = latest) on a view
// that is not time travelling while the replica holds files the view has not
// polled. locked: inside a read transaction during which a poll staged those
// files (Lock(SHARED); poll; ResetTime; Unlock(NONE)).
func (h *harness) resetOutsideTimeTravel(v *view, locked bool) {
	if v == nil || v.tt {
		return
	}
	kind := "reset-time-not-travelling"
	before := v.f.Pos().TXID
	if locked {
		kind = "reset-time-locked-staged"
		pfx := h.pollFacts(v, "poll")
		if err := v.f.Lock(sqlite3vfs.LockShared); err != nil {
			h.e.Logf("Lock(SHARED) err=%v", err)
			return
		}
		h.pollOnce(v, pfx)
		h.res.Count("reset_time_under_lock", 1)
		if v.f.Pos().TXID > before {
			h.res.Count("reset_time_under_lock_with_staged_updates", 1)
		}
	}
	polled := v.f.Pos().TXID
	serving := v.hw.serving()
	plan, _ := h.latestPlan()
	fx := h.planFacts(kind, plan)
	err := v.f.ResetTime(h.ctx)
	if locked {
		if uerr := v.f.Unlock(sqlite3vfs.LockNone); uerr != nil {
			h.e.Logf("Unlock(NONE) err=%v", uerr)
		}
	}
	after := v.f.Pos().TXID
	h.e.Logf("direct view ResetTime outside time travel (locked=%v) err=%v pos %d -> %d -> %d", locked, err, before, polled, after)
	if err != nil {
		h.res.Count("reset_time_error", 1)
		v.broken = true
		return
	}
	h.res.Count("reset_time_outside_time_travel", 1)
	v.built(fx)
	if after > polled {
		h.res.Count("reset_time_outside_time_travel_moved_position", 1)
		switch {
		case serving:
			v.miss(keyHydReset, int(polled), int(after), nil, fmt.Sprintf("ResetTime outside time travel moved the position %d -> %d of a view that serves from its hydrated copy", polled, after))
			v.hydAt = int(after)
			h.res.Count("reset_time_moved_position_of_hydrated_view", 1)
		case v.gated:
			v.miss(keyHydPoll, int(polled), int(after), nil, fmt.Sprintf("ResetTime advanced the position %d -> %d while the background hydration (started at position %d) was in flight", polled, after, v.posAtGate))
			h.res.Count("reset_time_advanced_while_hydration_in_flight", 1)
		}
	}
	h.compare(v, fx)
}

// ---------------------------------------------------------------------------
// SQLite on the registered VFS

type capVFS struct {
	*litestream.VFS
	mu   sync.Mutex
	last *litestream.VFSFile
}

func (c *capVFS) Open(name string, flags sqlite3vfs.OpenFlag) (sqlite3vfs.File, sqlite3vfs.OpenFlag, error) {
	f, fl, err := c.VFS.Open(name, flags)
	if vf, ok := f.(*litestream.VFSFile); ok && err == nil {
		c.mu.Lock()
		c.last = vf
		c.mu.Unlock()
	}
	return f, fl, err
}

func (h *harness) sqlOpen() {
	if h.sqlv != nil {
		return
	}
	plan, err := h.latestPlan()
	if err != nil {
		h.res.Count("open_skipped_no_plan", 1)
		return
	}
	if h.cap == nil {
		h.capC = h.newClient()
		lg := h.logger
		if h.s.Hyd != "" {
			h.capH = newHydHandler()
			lg = slog.New(h.capH)
		}
		v := litestream.NewVFS(h.capC, lg)
		v.PollInterval = 24 * time.Hour
		if h.s.Cache > 0 {
			v.CacheSize = h.s.Cache * h.ps
		}
		if h.s.Hyd != "" {
			v.HydrationEnabled = true
			v.HydrationPath = h.hydPath("sql")
		}
		h.cap = &capVFS{VFS: v}
		h.vfsNm = fmt.Sprintf("c18-%d-%d", os.Getpid(), atomic.AddInt64(&vfsSeq, 1))
		if err := sqlite3vfs.RegisterVFS(h.vfsNm, h.cap); err != nil {
			h.res.HarnessErr = "register vfs: " + err.Error()
			return
		}
	}
	h.cap.last = nil
	var hw *hydWatch
	persisted := 0
	if h.capH != nil {
		hw = newHydWatch(false)
		h.capH.cur.Store(hw)
		persisted = persistedTXID(h.hydPath("sql"))
	}
	db, err := sql.Open("sqlite3", "file:/"+h.vfsNm+".db?vfs="+h.vfsNm+"&mode=ro")
	if err != nil {
		h.res.HarnessErr = "sql.Open on vfs: " + err.Error()
		return
	}
	db.SetMaxOpenConns(1)
	conn, err := db.Conn(h.ctx)
	if err != nil || h.cap.last == nil {
		h.e.Logf("sqlite open on vfs err=%v file=%v", err, h.cap.last != nil)
		h.res.Count("open_error", 1)
		if conn != nil {
			conn.Close()
		}
		db.Close()
		return
	}
	v := &view{label: "sql", f: h.cap.last, db: db, conn: conn, client: h.capC, hw: hw, posAtOpen: h.cap.last.Pos().TXID}
	h.sqlv = v
	if hw != nil {
		h.res.Count("hydration_started", 1)
		h.noteResume(v, persisted)
		if !h.awaitHydration(v) && h.res.HarnessErr != "" {
			return
		}
	}
	h.e.Logf("sqlite connection opened on registered vfs %s -> pos=%d maxTXID1=%d", h.vfsNm, v.f.Pos().TXID, v.f.MaxTXID1())
	h.res.Count("sql_open", 1)
	fx := h.planFacts("sql-open", plan)
	v.built(fx)
	h.sqlCompare(v, fx)
}

func (h *harness) refDump(n int) (*sq.Dump, error) {
	if d, ok := h.dumpCache[n]; ok {
		return d, nil
	}
	img, err := h.image(n)
	if err != nil {
		return nil, err
	}
	d, err := sq.DumpBytes(img, h.e.Dir, true)
	if err != nil {
		return nil, err
	}
	h.dumpCache[n] = d
	return d, nil
}

// sqlCompare: byte comparison on the connection's file (no SQLite transaction
// is open, so the file is unlocked) and logical dump through SQLite.
func (h *harness) sqlCompare(v *view, fx facts) {
	if !h.compare(v, fx) {
		return
	}
	n := int(v.f.Pos().TXID)
	ref, err := h.refDump(n)
	if err != nil {
		h.res.HarnessErr = fmt.Sprintf("reference dump of image_%d: %v", n, err)
		return
	}
	got, err := sq.DumpConn(h.ctx, v.conn, true)
	after := int(v.f.Pos().TXID)
	h.res.Evals++
	h.res.Count("sql_dump_compared", 1)
	switch {
	case after != n:
		h.res.HarnessErr = fmt.Sprintf("VFS position moved during a dump (%d -> %d) although the ticker is parked", n, after)
	case err != nil:
		h.violate(v, fx, keySQL, "SQLite on the VFS at TXID %d fails: %v (the restore at that TXID dumps fine: %d rows, k=%d)", n, err, ref.Rows, ref.K)
	case got.Hash != ref.Hash || got.K != ref.K || got.Rows != ref.Rows:
		h.violate(v, fx, keySQL, "logical dump through SQLite on the VFS at TXID %d (rows=%d k=%d tables=%d) differs from the restore at that TXID (rows=%d k=%d tables=%d)", n, got.Rows, got.K, got.Tables, ref.Rows, ref.K, ref.Tables)
	case ref.Integ == "ok" && got.Integ != "ok":
		h.violate(v, fx, keySQL, "integrity_check through the VFS at TXID %d: %q (ok on the restore at that TXID)", n, trim(got.Integ, 200))
	}
	h.e.Logf("sql view dump at pos=%d rows=%v err=%v", n, got != nil && got.Rows == ref.Rows, err)
}

func (h *harness) sqlPoll(inTxn bool) {
	v := h.sqlv
	if v == nil {
		return
	}
	kind := "sql-poll"
	if inTxn {
		kind = "sql-poll-in-txn"
	}
	fx := h.pollFacts(v, kind)
	if inTxn {
		var c int
		_, err := v.conn.ExecContext(h.ctx, "BEGIN")
		if err == nil {
			err = v.conn.QueryRowContext(h.ctx, "SELECT count(*) FROM sqlite_master").Scan(&c)
		}
		if err != nil {
			h.e.Logf("sql view: read transaction could not be started: %v", err)
			_, _ = v.conn.ExecContext(h.ctx, "ROLLBACK")
			h.violate(v, fx, keySQL, "SQLite on the VFS cannot start a read transaction at TXID %d: %v", v.f.Pos().TXID, err)
			return
		}
		if v.f.LockType() >= sqlite3vfs.LockShared {
			h.res.Count("sql_poll_under_shared_lock", 1)
		}
	}
	h.pollOnce(v, fx)
	if inTxn {
		if _, err := v.conn.ExecContext(h.ctx, "COMMIT"); err != nil {
			h.e.Logf("sql view COMMIT err=%v", err)
		}
		if v.f.LockType() != sqlite3vfs.LockNone {
			h.res.Count("sql_lock_still_held_after_commit", 1)
		}
	}
	h.sqlCompare(v, fx)
}

func trim(s string, n int) string {
	if len(s) > n {
		return s[:n] + "..."
	}
	return s
}
