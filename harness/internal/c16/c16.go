// Package c16: follow-mode restore converges and resumes correctly after being
// killed (DESIGN §4 C16).
//
// Three case kinds ("big", a follower of a database larger than 4 GiB, is
// described in big.go):
//
//   - "hist": an in-process follower (Replica.Restore with Follow) free-running
//     at its poll interval against a live primary (application + litestream with
//     compaction to levels 1..3, snapshots, 1ns level-0 retention, snapshot
//     retention); it is stopped by context cancellation and restarted at seeded
//     points while the primary keeps changing.
//   - "kill": the follower is a victim process (this binary, sub-command
//     victim-c16) under the ptrace supervisor; it is SIGKILLed immediately before
//     the N-th file-system-mutating syscall under its output directory, the
//     primary moves on while it is down, it is restarted (thorough: as a new
//     process; quick: the same Restore call inside the worker), and must converge.
//     The replica is presented to the victim as a sequence of frozen stages of a
//     real primary history (hard-link snapshots behind an atomically switched
//     symlink), which makes the follower's syscall sequence reproducible so that
//     "every kill point" is well defined.
//
// Oracle (both kinds): whenever the replica has stopped changing and a poll
// cycle starts with applied TXID == replica max (a logical criterion reported by
// a counting ReplicaClient proxy, not a timer), the follower's bytes must equal
// Restore(TXID = replica max) masking page-1 bytes 18-19, 24-27, 92-99; the
// sidecar values observed by the harness never decrease; a (re)started follower
// does not exit with an error while its sidecar TXID is <= the replica max and
// >= the oldest snapshot's TXID; 50 poll cycles without progress while behind
// the replica max = no convergence. A wall-clock limit alone is a harness error.
package c16

import (
	"encoding/json"
	"math/rand"
	"os"
	"time"

	"verif/harness/internal/vf"
)

func init() {
	if len(os.Args) > 1 && os.Args[1] == "victim-c16" {
		os.Exit(victimMain(os.Args[2:]))
	}
	vf.Register(&vf.Check{
		ID:    "C16",
		Level: "fault_enumeration",
		Rule: "kind=kill: per scenario (seeded primary history frozen into stages: writes, shrink/VACUUM, Compact(1..2) with 1ns L0 retention, snapshots, snapshot retention; page sizes 512..65536) one unkilled count run, then one run per kill index N (quick: 40 evenly spread indices per scenario plus every index between publication of the restored database and of its first sidecar; thorough: every index, plus double kills): kill before the N-th fs-mutating syscall of the follower process, primary advances 0-2 stages while it is down, restart, drive through the remaining stages, compare at every stage and at final quiescence. " +
			"kind=hist: generated histories over {write+sync, shrink, VACUUM/incremental_vacuum, Compact(1),(2),(3), Snapshot, snapshot retention + level pruning, follower stop (context cancel) / start, catch-up check, jitter} with a free-running in-process follower at 1-30 ms poll interval. " +
			"kind=big: a source database larger than 4 GiB (zeroblob bulk up to the 4 GiB offset, then rows with random content that live above it; page size 65536, thorough also 32768, auto_vacuum=incremental with a shrink, and Compact(1) with 1ns L0 retention while the follower is down) is followed by a free-running in-process follower; rounds update rows above the 4 GiB offset, grow the database and update pages below 1 GiB and above 4 GiB in one transaction, with one graceful stop/resume from the sidecar while the primary moves on. " +
			"After each round the follower is awaited on poll cycles as in kind=hist and its file is compared in one streaming pass with Restore(TXID=replica max) (same mask) and with the committed source image (database file overlaid with the committed WAL frames; additionally the _litestream_seq root page is masked). " +
			"distinct = hash(config, stage structure, kill indices) resp. hash(config, interval, op sequence); non-trivial = (kill) the follower was really killed and afterwards converged or saw the primary advance while down; (hist) >=1 restart with the replica ahead of the sidecar and >=1 byte comparison; (big) followed level-0 files contain pages above the 4 GiB offset, one of them also pages below 1 GiB, >=1 restart with the replica ahead and >=2 comparisons",
		Assumptions: []string{
			"file replica client only (no network)",
			"reference = litestream's own ordinary Restore(TXID=replica max) as the property states; its correctness is C01/C02/C06's subject",
			"poll cycles are counted at the ReplicaClient interface (LTXFiles level 0): follow mode lists level 0 exactly once per cycle",
			"kill points are enumerated against frozen replica stages switched atomically between poll cycles; polls that observe a replica mid-change are exercised by the hist kind only",
			"ptsup classifies fs-mutating syscalls by path prefix of the follower's output directory",
		},
		Cases:       cases,
		RunCase:     runCase,
		MinEvals:    100,
		CaseTimeout: 20 * time.Minute, // the thorough tier's three big cases run one at a time (flock): the last one waits for the other two inside its own budget
		Finish: func(run *vf.Run, results []*vf.Result, ev map[string]any) []vf.Violation {
			if run.Tier == "thorough" {
				ev["kill_point_selection"] = "every index 1..T of each scenario's count run (T = fs-mutating syscalls of the unkilled follower), plus seeded double kills"
			} else {
				ev["kill_point_selection"] = "40 evenly spread indices of 1..T per scenario plus every index between publication of the restored database and of its first sidecar"
			}
			return nil
		},
	})
}

func cases(run *vf.Run) ([]json.RawMessage, error) {
	var out []json.RawMessage
	nHist, ops := 20, 50
	scns, stages, parts, sample, double := 2, 5, 4, 40, 0
	inproc := true // quick: the restarted follower runs inside the worker (one process start per kill run)
	if run.Tier == "thorough" {
		nHist, ops = 120, 80
		scns, stages, parts, sample, double = 4, 6, 16, 0, 2
		inproc = false
	}
	// demonstration history for F4 (pinned first)
	{
		rng := rand.New(rand.NewSource(vf.SubSeed(run.Seed, "C16-demo")))
		out = append(out, vf.Spec(histSpec{Kind: "hist", Idx: -1, Seed: vf.SubSeed(run.Seed, "C16-demo-case"), IntervalMs: 10, Cfg: pickConfig(rng, 2), Demo: "F4"}))
	}
	// demonstration history for multi-level gap bridging (pinned second)
	{
		rng := rand.New(rand.NewSource(vf.SubSeed(run.Seed, "C16-demo2")))
		out = append(out, vf.Spec(histSpec{Kind: "hist", Idx: -2, Seed: vf.SubSeed(run.Seed, "C16-demo2-case"), IntervalMs: 10, Cfg: pickConfig(rng, 2), Demo: "bridge2"}))
	}
	// demonstration history: restart below the first level-9 snapshot (pinned third)
	{
		rng := rand.New(rand.NewSource(vf.SubSeed(run.Seed, "C16-demo3")))
		out = append(out, vf.Spec(histSpec{Kind: "hist", Idx: -3, Seed: vf.SubSeed(run.Seed, "C16-demo3-case"), IntervalMs: 10, Cfg: pickConfig(rng, 2), Demo: "first-snapshot-later"}))
	}
	// kill campaigns first: they are the long cases
	for sc := 0; sc < scns; sc++ {
		seed := vf.SubSeed(run.Seed, "C16-scenario", sc)
		for part := 0; part < parts; part++ {
			out = append(out, vf.Spec(killSpec{Kind: "kill", Scn: sc + int(uint64(run.Seed)%15), Seed: seed, Stages: stages, Part: part, Parts: parts, Sample: sample, Double: double, Windows: part == 0, InprocRestart: inproc, Deep: sc%2 == 1}))
		}
	}
	for i := 0; i < nHist; i++ {
		rng := rand.New(rand.NewSource(vf.SubSeed(run.Seed, "C16-hist", i)))
		cfg := pickConfig(rng, i)
		out = append(out, vf.Spec(histSpec{Kind: "hist", Idx: i, Seed: vf.SubSeed(run.Seed, "C16-hist-case", i), Ops: ops + rng.Intn(30), IntervalMs: []int{1, 5, 10, 10, 30}[rng.Intn(5)], Cfg: cfg}))
	}
	// databases larger than 4 GiB (appended last: the indices of the cases above do not move)
	bigs := []bigSpec{{PageSize: 65536, Rounds: []string{"span", "multi"}, RestartAt: 1}}
	if run.Tier == "thorough" {
		bigs = []bigSpec{
			{PageSize: 65536, Rounds: []string{"upd-hi", "upd-ovf", "span", "grow-zero", "multi"}, RestartAt: 2},
			{PageSize: 65536, AutoVacuum: 2, Bridge: true, Rounds: []string{"span", "grow", "multi", "shrink", "upd-hi"}, RestartAt: 3},
			{PageSize: 32768, Bridge: true, Rounds: []string{"grow-zero", "upd-hi", "span", "upd-ovf"}, RestartAt: 1},
		}
	}
	for i, b := range bigs {
		b.Kind, b.Idx, b.Seed, b.IntervalMs = "big", i, vf.SubSeed(run.Seed, "C16-big", i), 10
		out = append(out, vf.Spec(b))
	}
	return out, nil
}

func runCase(run *vf.Run, raw json.RawMessage, dir string) *vf.Result {
	var k struct {
		Kind string `json:"kind"`
	}
	if err := json.Unmarshal(raw, &k); err != nil {
		return &vf.Result{HarnessErr: err.Error()}
	}
	var res *vf.Result
	switch k.Kind {
	case "hist":
		res = runHist(run, raw, dir)
	case "kill":
		res = runKill(run, raw, dir)
	case "big":
		res = runBig(run, raw, dir)
	default:
		return &vf.Result{HarnessErr: "unknown case kind " + k.Kind}
	}
	capViolations(res)
	return res
}

// expected classes on a tree without the F4/F15 repairs
var expectedKeys = map[string]bool{"resume-refused-ahead-of-snapshot": true, "resume-refused-no-sidecar": true}

func unexpectedViolations(res *vf.Result) int {
	n := 0
	for _, v := range res.Violations {
		if !expectedKeys[v.Key] {
			n++
		}
	}
	return n
}

// capViolations keeps at most 3 witnesses per key in one case result (a kill
// campaign on an unrepaired tree produces one per kill point) and counts all.
func capViolations(res *vf.Result) {
	seen := map[string]int{}
	var keep []vf.Violation
	for _, v := range res.Violations {
		seen[v.Key]++
		res.Count("violations:"+v.Key, 1)
		if seen[v.Key] <= 3 {
			keep = append(keep, v)
		}
	}
	res.Violations = keep
}
