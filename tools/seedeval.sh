#!/bin/bash
# seedeval.sh <seeddir> <demo-dest-relpath> <go-test-run-regex> <pkg> <check> [<check>...]
# Confirms a seeded change (patch.diff + demo) on a scratch worktree of /repo HEAD and runs
# the given checks (quick tier) against it through VERIF_REPO. Prints a summary line.
set -u
sd="$1"; dest="$2"; rx="$3"; pkg="$4"; shift 4
export GOFLAGS=-mod=mod GOPROXY=off
wt=/dev/shm/seedwt-$$-$RANDOM
git -C /repo worktree add -q --detach "$wt" HEAD || exit 3
trap 'git -C /repo worktree remove --force "$wt" 2>/dev/null; rm -f /verif/bin/*-$(echo -n "$wt" | md5sum | cut -c1-8)*' EXIT
mkdir -p "$(dirname "$wt/$dest")"; cp "$sd/demo_test.go" "$wt/$dest"
cd "$wt"
clean=$(timeout 1500 go test ${SEED_TEST_FLAGS:-} -vet=off -count=1 -run "$rx" "$pkg" 2>&1 | grep -E "^(ok|FAIL|---)" | tr '\n' ' ')
if ! git apply --whitespace=nowarn "$sd/patch.diff" 2>/dev/null; then
  if ! patch -p1 -s < "$sd/patch.diff"; then echo "SEED $sd: PATCH DOES NOT APPLY to HEAD"; exit 4; fi
fi
if ! go build ./... 2>/dev/null; then echo "SEED $sd: DOES NOT BUILD"; exit 5; fi
mut=$(timeout 1500 go test ${SEED_TEST_FLAGS:-} -vet=off -count=1 -run "$rx" "$pkg" 2>&1 | grep -E "^(ok|FAIL|---)" | tr '\n' ' ')
echo "SEED $sd demo clean: [$clean] mutated: [$mut]"
rm -f "$wt/$dest"
cd /verif
for c in "$@"; do
  out=$(VERIF_REPO="$wt" timeout 3000 ./check "$c" quick 2>&1)
  rc=$?
  echo "SEED $sd check $c exit=$rc $(echo "$out" | grep -E "^$c quick" | cut -c1-160)"
  echo "$out" | grep -E "key=" | sed 's/^ *//' | cut -c1-200 | sort | uniq -c | sort -rn | head -4
done
