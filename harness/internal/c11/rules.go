package c11

import (
	"fmt"
	"path/filepath"
	"sort"
	"strconv"
	"strings"

	"github.com/superfly/ltx"

	"verif/harness/internal/c03"
)

// Finding is one rule violation found in a trace.
type Finding struct {
	Key   string
	Msg   string
	Phase int // victim process (0-based) in whose trace the witness lies
}

type inode struct {
	dirty   bool // data modified since the last fsync/fdatasync of this file
	written bool // ever modified
	synced  bool // ever fsynced
}

type ltxKey struct {
	side     string // "rep" | "meta"
	level    int
	min, max uint64
}

func (k ltxKey) String() string { return fmt.Sprintf("%s:L%d/%d-%d", k.side, k.level, k.min, k.max) }

type ltxState struct {
	dataOK    bool // R1 held when it was published
	dirSynced bool // directory flushed after the rename
	present   bool
	path      string
}

type pendingRename struct {
	dst   string
	class string
	dir   string
	owner string // main | follower
	line  int
	phase int
}

// Checker replays events of consecutive victim processes of one scenario and
// evaluates R1, R2, R3 (DESIGN §4 C11).
type Checker struct {
	cwd string // working directory of the traced process as far as the trace shows it
	Root     string
	Findings []Finding
	Counts   map[string]int
	Evals    int
	Problems []string // parser/tracker inconsistencies (harness side)

	files    map[string]*inode
	pending  []*pendingRename
	ltx      map[ltxKey]*ltxState
	acked    uint64
	follower bool
	phase    int
	Log      []string
}

func NewChecker(root string) *Checker {
	return &Checker{Root: root, Counts: map[string]int{}, files: map[string]*inode{}, ltx: map[ltxKey]*ltxState{}}
}

func (c *Checker) logf(f string, a ...any) { c.Log = append(c.Log, fmt.Sprintf(f, a...)) }

func (c *Checker) under(p string) bool { return p == c.Root || strings.HasPrefix(p, c.Root+"/") }

func clean(p string) string { return strings.TrimSuffix(p, " (deleted)") }

func (c *Checker) rel(p string) string { return strings.TrimPrefix(p, c.Root+"/") }

// parseLTXPath recognises <root>/{rep,.db-litestream}/ltx/<level>/<min>-<max>.ltx
func (c *Checker) parseLTXPath(p string) (ltxKey, bool) {
	cl := c03.PathClass(c.Root, p)
	var side string
	switch cl {
	case "rep-ltx":
		side = "rep"
	case "meta-ltx":
		side = "meta"
	default:
		return ltxKey{}, false
	}
	mn, mx, err := ltx.ParseFilename(filepath.Base(p))
	if err != nil {
		return ltxKey{}, false
	}
	lvl, err := strconv.Atoi(filepath.Base(filepath.Dir(p)))
	if err != nil {
		return ltxKey{}, false
	}
	return ltxKey{side, lvl, uint64(mn), uint64(mx)}, true
}

// publishClass names the publishing call-site class of a rename destination
// ("" = not a published name).
func (c *Checker) publishClass(dst string) string {
	switch c03.PathClass(c.Root, dst) {
	case "meta-ltx":
		k, ok := c.parseLTXPath(dst)
		if !ok {
			return ""
		}
		if k.level == 0 {
			// a level-0 file that already exists on the replica when it appears locally was
			// fetched from there (checkDatabaseBehindReplica), not produced by DB.sync
			if st := c.ltx[ltxKey{"rep", 0, k.min, k.max}]; st != nil && st.present {
				return "fetched-baseline-l0"
			}
			return "local-l0"
		}
		return fmt.Sprintf("local-l%d", k.level)
	case "rep-ltx":
		k, ok := c.parseLTXPath(dst)
		if !ok {
			return ""
		}
		switch {
		case k.level == 0:
			return "replica-l0"
		case k.level == 9:
			return "replica-snapshot"
		}
		return "replica-compacted"
	case "out":
		return "restore-output"
	case "txid":
		return "txid-sidecar"
	}
	return ""
}

func (c *Checker) violate(key, f string, a ...any) {
	c.Findings = append(c.Findings, Finding{key, fmt.Sprintf(f, a...), c.phase})
}

func (c *Checker) modify(p string) {
	p = clean(p)
	if !c.under(p) {
		return
	}
	in := c.files[p]
	if in == nil {
		in = &inode{}
		c.files[p] = in
	}
	in.dirty, in.written = true, true
}

func hasFlag(arg, flag string) bool {
	for _, f := range strings.Split(arg, "|") {
		if f == flag {
			return true
		}
	}
	return false
}

// StartProcess / EndProcess bracket the events of one victim process.
func (c *Checker) StartProcess(phase int) {
	c.phase = phase
	c.follower = false
}

func (c *Checker) EndProcess() {
	// whatever was published but whose directory was never flushed when the process ended
	for _, p := range c.pending {
		c.Evals++
		c.Counts["R2_evaluated:"+p.class]++
		c.violate("R2-missing-dirsync-at-exit:"+p.class, "R2: %s was renamed into place (trace line %d of process %d) and the process ended without an fsync of directory %s", c.rel(p.dst), p.line, p.phase, c.rel(p.dir))
	}
	c.pending = nil
}

// Feed processes one event.
// at resolves a (dirfd, path) pair like atPath; a relative path without a directory
// annotation is taken relative to the working directory the trace has shown so far
// (chdir calls and AT_FDCWD</dir> annotations).
func (c *Checker) at(dirArg, pathArg string) (string, error) {
	p, err := atPath(dirArg, pathArg)
	if err != nil && c.cwd != "" {
		if rel, ok := strArg(pathArg); ok && !strings.HasPrefix(rel, "/") {
			return c.cwd + "/" + rel, nil
		}
	}
	return p, err
}

func (c *Checker) Feed(ev Event) {
	if ev.Exit {
		return
	}
	ok := ev.Ret >= 0
	a := ev.Args
	for _, arg := range a {
		if strings.HasPrefix(arg, "AT_FDCWD<") {
			if _, d := fdArg(arg); d != "" {
				c.cwd = d
			}
		}
	}
	switch ev.Name {
	case "chdir":
		if ok && len(a) >= 1 {
			if d, sok := strArg(a[0]); sok {
				if strings.HasPrefix(d, "/") {
					c.cwd = clean(d)
				} else if c.cwd != "" {
					c.cwd = clean(c.cwd + "/" + d)
				}
			}
		}
	case "open", "openat", "creat":
		if !ok {
			return
		}
		var flags string
		switch ev.Name {
		case "open":
			if len(a) >= 2 {
				flags = a[1]
			}
		case "openat":
			if len(a) >= 3 {
				flags = a[2]
			}
		case "creat":
			flags = "O_CREAT|O_TRUNC|O_WRONLY"
		}
		p := clean(ev.RetP)
		if !c.under(p) {
			return
		}
		if hasFlag(flags, "O_CREAT") || hasFlag(flags, "O_TRUNC") || hasFlag(flags, "O_WRONLY") || hasFlag(flags, "O_RDWR") {
			in := c.files[p]
			if in == nil {
				c.files[p] = &inode{}
			} else if hasFlag(flags, "O_TRUNC") && in.written {
				in.dirty = true // content changed
			}
		}
	case "write", "pwrite64", "writev", "pwritev", "pwritev2":
		if len(a) == 0 {
			return
		}
		fd, p := fdArg(a[0])
		if fd == 1 && len(a) >= 2 {
			if s, sok := strArg(a[1]); sok && ok {
				c.marker(s, ev)
			}
			return
		}
		if ok && ev.Ret > 0 {
			c.modify(p)
		}
	case "copy_file_range":
		if ok && ev.Ret > 0 && len(a) >= 3 {
			_, p := fdArg(a[2])
			c.modify(p)
		}
	case "sendfile":
		if ok && ev.Ret > 0 && len(a) >= 1 {
			_, p := fdArg(a[0])
			c.modify(p)
		}
	case "ftruncate", "fallocate":
		if ok && len(a) >= 1 {
			_, p := fdArg(a[0])
			c.modify(p)
		}
	case "fsync", "fdatasync":
		if !ok {
			c.Counts["fsyncs_failed(not a flush)"]++
		}
		if !ok || len(a) == 0 {
			return
		}
		_, p := fdArg(a[0])
		p = clean(p)
		if !c.under(p) {
			return
		}
		if in := c.files[p]; in != nil {
			in.dirty = false
			in.synced = true
			c.Counts["file_fsyncs"]++
			return
		}
		// not a file we saw being created/written: a directory (or a pre-existing file)
		c.dirSynced(p, ev)
	case "rename", "renameat", "renameat2":
		if !ok {
			return
		}
		var src, dst string
		var err1, err2 error
		if ev.Name == "rename" && len(a) >= 2 {
			src, err1 = c.at("", a[0])
			dst, err2 = c.at("", a[1])
		} else if len(a) >= 4 {
			src, err1 = c.at(a[0], a[1])
			dst, err2 = c.at(a[2], a[3])
		} else {
			return
		}
		if err1 != nil || err2 != nil {
			c.Problems = append(c.Problems, fmt.Sprintf("line %d: rename with unparseable paths: %v %v", ev.Line, err1, err2))
			return
		}
		c.rename(src, dst, ev)
	case "unlink", "unlinkat", "rmdir":
		if !ok {
			return
		}
		var p string
		var err error
		if ev.Name == "unlinkat" && len(a) >= 3 {
			if hasFlag(a[2], "AT_REMOVEDIR") {
				return
			}
			p, err = c.at(a[0], a[1])
		} else if ev.Name == "unlink" && len(a) >= 1 {
			p, err = c.at("", a[0])
		} else {
			return
		}
		if err != nil {
			c.Problems = append(c.Problems, fmt.Sprintf("line %d: unlink with unparseable path: %v", ev.Line, err))
			return
		}
		c.unlink(p, ev)
	}
}

func (c *Checker) dirSynced(dir string, ev Event) {
	c.Counts["dir_fsyncs"]++
	kept := c.pending[:0]
	for _, p := range c.pending {
		if p.dir == dir {
			c.Evals++
			c.Counts["R2_evaluated:"+p.class]++
			c.Counts["R2_ok"]++
			continue
		}
		kept = append(kept, p)
	}
	c.pending = kept
	for k, st := range c.ltx {
		if st.present && !st.dirSynced && filepath.Dir(st.path) == dir {
			st.dirSynced = true
			_ = k
		}
	}
}

// marker handles a line the victim wrote to stdout: "ok <cmd> ..." is the
// operation reporting success, "err <cmd> ..." reporting failure.
func (c *Checker) marker(s string, ev Event) {
	f := strings.Fields(s)
	if len(f) < 2 || (f[0] != "ok" && f[0] != "err") {
		return
	}
	c.Counts["markers"]++
	cmd := f[1]
	owners := map[string]bool{"main": true}
	switch cmd {
	case "follow-entered", "follow-applied":
		owners = map[string]bool{"follower": true}
	case "follow-stop":
		owners = map[string]bool{"main": true, "follower": true}
	}
	if f[0] == "ok" {
		switch cmd {
		case "follow-start":
			c.follower = true
		case "follow-stop":
			c.follower = false
		case "sync-wait", "close":
			if len(f) >= 3 {
				if n, err := strconv.ParseUint(f[2], 10, 64); err == nil && n > c.acked {
					c.acked = n
				}
			}
		}
	}
	kept := c.pending[:0]
	for _, p := range c.pending {
		if !owners[p.owner] {
			kept = append(kept, p)
			continue
		}
		if f[0] == "ok" {
			c.Evals++
			c.Counts["R2_evaluated:"+p.class]++
			c.violate("R2-missing-dirsync:"+p.class, "R2: %s was renamed into place (trace line %d of process %d) and the operation reported success (%q, line %d) without an fsync of directory %s in between",
				c.rel(p.dst), p.line, p.phase, strings.TrimSpace(s), ev.Line, c.rel(p.dir))
		} else {
			c.Counts["R2_not_applicable_operation_failed"]++
		}
	}
	c.pending = kept
}

func (c *Checker) rename(src, dst string, ev Event) {
	in := c.files[src]
	class := ""
	if c.under(dst) {
		class = c.publishClass(dst)
	}
	if class != "" {
		c.Counts["renames_published:"+class]++
		c.Evals++
		c.Counts["R1_evaluated:"+class]++
		dataOK := true
		switch {
		case in == nil:
			c.Problems = append(c.Problems, fmt.Sprintf("line %d: %s published from %s, a file the trace never saw being created", ev.Line, c.rel(dst), c.rel(src)))
			dataOK = false
		case in.dirty:
			dataOK = false
			how := "was never flushed"
			if in.synced {
				how = "was modified again after its last fsync"
			}
			c.violate("R1-unflushed-data:"+class, "R1: %s was renamed to its final name %s (trace line %d of process %d) but its data %s", c.rel(src), c.rel(dst), ev.Line, c.phase, how)
		default:
			c.Counts["R1_ok"]++
		}
		// follow-mode outputs are named follow* by the scenarios: their publisher is the follower
		// goroutine, whose success reports are the follow-entered / follow-applied lines
		owner := "main"
		if (class == "restore-output" || class == "txid-sidecar") && strings.HasPrefix(filepath.Base(dst), "follow") {
			owner = "follower"
		}
		c.pending = append(c.pending, &pendingRename{dst: dst, class: class, dir: filepath.Dir(dst), owner: owner, line: ev.Line, phase: c.phase})
		if k, ok := c.parseLTXPath(dst); ok {
			c.ltx[k] = &ltxState{dataOK: dataOK, present: true, path: dst}
		}
	}
	// the inode moves with the name
	if in != nil {
		delete(c.files, src)
		c.files[dst] = in
	} else {
		delete(c.files, dst)
	}
}

func (c *Checker) durableReplica(except ltxKey) []ltxKey {
	var out []ltxKey
	for k, st := range c.ltx {
		if k.side == "rep" && k != except && st.present && st.dataOK && st.dirSynced {
			out = append(out, k)
		}
	}
	sort.Slice(out, func(i, j int) bool {
		if out[i].min != out[j].min {
			return out[i].min < out[j].min
		}
		return out[i].max < out[j].max
	})
	return out
}

// chainReaches reports whether files contain a chain from TXID 1 up to at
// least target: start at a file with min==1, extend with any file whose range
// begins at or before the next TXID and ends beyond the current end.
func chainReaches(files []ltxKey, target uint64) (uint64, bool) {
	var cur uint64
	for {
		best := cur
		for _, f := range files {
			if f.min >= 1 && f.min <= cur+1 && f.max > best {
				best = f.max
			}
		}
		if best == cur {
			return cur, cur >= target
		}
		cur = best
		if cur >= target {
			return cur, true
		}
	}
}

// uncovered returns the TXIDs of k that no file in files contains. With higher set only files
// that can supersede k count: a higher compaction level, or another snapshot for a snapshot.
func uncovered(k ltxKey, files []ltxKey, higher bool) []uint64 {
	var missing []uint64
	for n := k.min; n <= k.max; n++ {
		ok := false
		for _, f := range files {
			if f.min <= n && n <= f.max && (!higher || f.level > k.level || (k.level == 9 && f.level == 9)) {
				ok = true
				break
			}
		}
		if !ok {
			missing = append(missing, n)
		}
	}
	return missing
}

func (c *Checker) unlink(p string, ev Event) {
	delete(c.files, p)
	if !c.under(p) {
		return
	}
	k, ok := c.parseLTXPath(p)
	if !ok {
		return
	}
	st := c.ltx[k]
	switch k.side {
	case "rep":
		c.Evals++
		c.Counts[fmt.Sprintf("R3_evaluated:replica-l%d", k.level)]++
		rest := c.durableReplica(k)
		if reach, ok := chainReaches(rest, c.acked); !ok {
			c.violate(fmt.Sprintf("R3-replica-unlink-breaks-durable-chain:l%d", k.level),
				"R3: replica file %s unlinked (trace line %d of process %d) although the remaining durable replica files %v only chain from TXID 1 to %d; TXID %d was already acknowledged — a power failure now leaves no restorable replica of it",
				k, ev.Line, c.phase, rest, reach, c.acked)
		} else if missing := uncovered(k, rest, true); st != nil && st.present && len(missing) > 0 {
			// the file itself must be superseded: every TXID it covers is contained in some other
			// durable replica file of a higher level (for a snapshot: another snapshot)
			c.violate(fmt.Sprintf("R3-replica-unlink-without-durable-superseder:l%d", k.level),
				"R3: replica file %s unlinked (trace line %d of process %d) although TXID(s) %v it covers are not contained in any durable replica file that supersedes it — a higher level, or another snapshot for a snapshot (durable: %v)", k, ev.Line, c.phase, missing, rest)
		} else {
			c.Counts["R3_ok"]++
		}
	case "meta":
		c.Evals++
		c.Counts[fmt.Sprintf("R3_evaluated:local-l%d", k.level)]++
		rest := c.durableReplica(ltxKey{})
		var missing []uint64
		for n := k.min; n <= k.max; n++ {
			covered := false
			for _, f := range rest {
				if f.min <= n && n <= f.max {
					covered = true
					break
				}
			}
			if !covered {
				missing = append(missing, n)
			}
		}
		if len(missing) > 0 {
			c.violate(fmt.Sprintf("R3-local-unlink-before-replica-durable:l%d", k.level),
				"R3: local file %s unlinked (trace line %d of process %d) while TXID(s) %v are not contained in any durable replica file (durable: %v)", k, ev.Line, c.phase, missing, rest)
		} else {
			c.Counts["R3_ok"]++
		}
	}
	if st != nil {
		st.present = false
	}
}
