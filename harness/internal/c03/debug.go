package c03

import (
	"encoding/json"
	"fmt"
	"os"
	"path/filepath"
	"strconv"
	"time"

	"verif/harness/internal/vf"
)

// `vh c03-count <scenario> <config> [plain|count|strace]` runs one scenario and prints the
// history and the supervisor log: a diagnostic aid, not a check.
func init() {
	if len(os.Args) > 3 && os.Args[1] == "c03-count" {
		os.Exit(debugCount(os.Args[2], os.Args[3], append(os.Args[4:], "count")[0]))
	}
}

// `vh c03-s6 <N>`: one S6 run (N=0: count run only) against a private scratch directory.
func init() {
	if len(os.Args) > 2 && os.Args[1] == "c03-s6" {
		os.Exit(debugS6(os.Args[2]))
	}
}

func debugS6(ns string) int {
	n, _ := strconv.Atoi(ns)
	base, err := os.MkdirTemp("/dev/shm", "c03s6-")
	if err != nil {
		return 2
	}
	defer os.RemoveAll(base)
	if err := EnsurePtsup(); err != nil {
		fmt.Fprintln(os.Stderr, err)
		return 2
	}
	run := &vf.Run{ID: "C03", Tier: "thorough", Seed: 1, Scratch: base}
	if bin := os.Getenv("C03_REAL_BIN"); bin != "" {
		_ = os.Symlink(bin, realBinPath(run))
	}
	t0 := time.Now()
	if n == 0 {
		m, err := s6CountRun(run, 1)
		fmt.Printf("count run: M=%d err=%v (%.1fs)\n", m, err, time.Since(t0).Seconds())
		return 0
	}
	dir := filepath.Join(base, "case")
	_ = os.MkdirAll(dir, 0o755)
	res := runS6(run, spec{Scenario: "S6", N: n, DataSeed: 1, M: -1}, dir, &vf.Result{})
	b, _ := json.MarshalIndent(res, "", " ")
	fmt.Printf("%s\n(%.1fs)\n", b, time.Since(t0).Seconds())
	return 0
}

func debugCount(scn, cfgn, mode string) int {
	sc := ScenarioByName(scn)
	cfg, ok := configByName(cfgn)
	if sc == nil || !ok {
		fmt.Fprintln(os.Stderr, "unknown scenario/config")
		return 2
	}
	if err := EnsurePtsup(); err != nil {
		fmt.Fprintln(os.Stderr, err)
		return 2
	}
	base, err := os.MkdirTemp("/dev/shm", "c03dbg-")
	if err != nil {
		fmt.Fprintln(os.Stderr, err)
		return 2
	}
	defer os.RemoveAll(base)
	logPath := filepath.Join(base, "trace.log")
	l := Launch{Mode: Count, Log: logPath}
	switch mode {
	case "plain":
		l = Launch{Mode: Plain}
	case "strace":
		l = Launch{Mode: Strace, Log: logPath}
	}
	w, at, err := runScenario(sc, cfg, filepath.Join(base, "s"), filepath.Join(base, "w"), 1, l, "", false, func(f string, a ...any) { fmt.Printf("| "+f+"\n", a...) })
	if w != nil {
		w.Close()
	}
	fmt.Printf("ended at step %d err=%v acks=%d\n", at, err, len(w.Acks))
	if b, err := os.ReadFile(logPath); err == nil {
		os.Stdout.Write(b)
	}
	return 0
}
