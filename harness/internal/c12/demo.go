package c12

import (
	"context"
	"fmt"
	"math/rand"
	"os"
	"path/filepath"
	"time"

	"github.com/benbjohnson/litestream"
	"github.com/benbjohnson/litestream/file"

	"verif/harness/internal/hist"
	"verif/harness/internal/sq"
	"verif/harness/internal/vf"
)

// runDemoReset is the pinned sequential demonstration of the witness class
// "snapshot ahead of level 0 at reset" (no concurrency needed):
//
//  1. app commit; SyncAndWait                      -> L0/1 on the replica
//  2. app commit; DB.Sync only                     -> local L0/2, not uploaded
//  3. DB.Snapshot                                  -> L9/1-2 uploaded before L0/2
//  4. DB.ResetLocalState                           -> local L0/2 dropped
//  5. app commit (multi-page, other table); SyncAndWait -> TXID 2 issued again
//  6. app commit (multi-page, third table); SyncAndWait -> L0/3; acknowledged
//
// and then the same post-run oracles as for a stress run. Monitors are off, so
// the interleaving is exactly this list.
func runDemoReset(run *vf.Run, s Spec, dir string) *vf.Result {
	res := &vf.Result{Sig: "demo-snapshot-ahead-of-l0-at-reset", Nontrivial: true}
	ctx := context.Background()
	cfg := hist.Config{PageSize: 4096, AutoVacuum: 0, MinCheckpointPageN: 1000, TruncatePageN: 0, CheckpointInterval: 0, MaxSyncWALFrames: 0, MaxSyncLTXFiles: 0}
	e, err := hist.NewEnv(dir, cfg, rand.New(rand.NewSource(s.Seed)), res)
	if err != nil {
		res.HarnessErr = err.Error()
		return res
	}
	defer e.Close()
	arch := &archiver{dir: filepath.Join(dir, "arch-db0")}
	e.Wrap = func(c litestream.ReplicaClient) litestream.ReplicaClient {
		return newProxy(c.(*file.ReplicaClient), arch, 0, 1, &proxyStats{})
	}
	if err := e.StartLS(); err != nil {
		res.HarnessErr = "open litestream: " + err.Error()
		return res
	}
	t0 := time.Now()
	commit := func(tbl string, n int) error {
		tx, err := e.W.Begin()
		if err != nil {
			return err
		}
		if _, err = tx.Exec(`INSERT INTO `+tbl+`(v) VALUES(randomblob(?))`, n); err == nil {
			_, err = tx.Exec(`UPDATE ledger SET k=k+1`)
		}
		if err != nil {
			_ = tx.Rollback()
			return err
		}
		if err := tx.Commit(); err != nil {
			return err
		}
		e.K++
		return e.Record()
	}
	var resets []resetObs
	step := func(what string, err error) bool {
		res.Logf("%s err=%v", what, err)
		if err != nil {
			// the sequence no longer runs as written: nothing to demonstrate
			res.Logf("demonstration sequence stopped at %q", what)
			return false
		}
		return true
	}
	ok := step("app commit t0", commit("t0", 200)) &&
		step("SyncAndWait", e.LS.SyncAndWait(ctx)) &&
		step("app commit t0", commit("t0", 200)) &&
		step("DB.Sync", e.LS.Sync(ctx))
	if ok {
		_, err := e.LS.Snapshot(ctx)
		ok = step("DB.Snapshot", err)
	}
	if ok {
		err := e.LS.ResetLocalState(ctx)
		_, l0, hi := snapshotAheadOfL0(e.RepPath)
		ok = step(fmt.Sprintf("DB.ResetLocalState (replica then: level 0 up to %d, higher levels up to %d)", l0, hi), err)
		if ok {
			resets = append(resets, resetObs{At: time.Since(t0).Seconds(), L0Max: l0, HiMax: hi})
		}
	}
	ok = ok && step("app commit t1 (multi-page)", commit("t1", 9000)) &&
		step("SyncAndWait", e.LS.SyncAndWait(ctx)) &&
		step("app commit t2 (multi-page)", commit("t2", 9000))
	ack := false
	if ok {
		ack = step("SyncAndWait (acknowledgement)", e.LS.SyncAndWait(ctx))
	}
	mf := MainFinal{Name: "db0", Path: e.DBPath, Rep: e.RepPath, Arch: arch.dir, AckSync: ack, Hashes: e.Hashes}
	cp := filepath.Join(dir, "final-db0")
	_ = os.MkdirAll(cp, 0o755)
	mf.SrcCopy = filepath.Join(cp, "db")
	if err := sq.CopyFile(e.DBPath, mf.SrcCopy); err != nil {
		res.HarnessErr = err.Error()
		return res
	}
	if err := sq.CopyFile(e.DBPath+"-wal", mf.SrcCopy+"-wal"); err != nil && !os.IsNotExist(err) {
		res.HarnessErr = err.Error()
		return res
	}
	cctx, cancel := context.WithTimeout(ctx, 60*time.Second)
	cerr := e.LS.Close(cctx)
	cancel()
	res.Logf("DB.Close err=%v", cerr)
	mf.AckClose = ack && cerr == nil
	postRun(res, mf, dir, caps{txids: 20, snaps: 10, derived: 20}, resets, "", "")
	res.Count("demo_cases", 1)
	res.Sample = map[string]any{"demonstration": "snapshot-ahead-of-l0-at-reset", "sequence": "commit; SyncAndWait; commit; DB.Sync; DB.Snapshot; DB.ResetLocalState; commit(t1, 9000 B); SyncAndWait; commit(t2, 9000 B); SyncAndWait", "completed": ok}
	return res
}
