// private development binary for C16
package main

import (
	"io"
	"log/slog"
	"os"

	"verif/harness/internal/vf"

	_ "verif/harness/internal/c16"
)

func main() {
	slog.SetDefault(slog.New(slog.NewTextHandler(io.Discard, nil)))
	os.Exit(vf.Main(os.Args[1:]))
}
