package c16

import (
	"bufio"
	"context"
	"fmt"
	"io"
	"os"
	"os/exec"
	"path/filepath"
	"strconv"
	"strings"
	"sync"
	"syscall"
	"time"

	"github.com/benbjohnson/litestream"
	"github.com/benbjohnson/litestream/file"

	"verif/harness/internal/vf"
)

// follower is a running Restore(Follow) — in this process or as a victim
// process (optionally under the ptrace supervisor).
type follower struct {
	ps   pollState
	done chan struct{}

	mu       sync.Mutex
	exitErr  string // "" = returned nil / exit 0 with EXIT OK
	exitCode int

	// in-process
	cancel context.CancelFunc
	// process
	cmd   *exec.Cmd
	stdin io.WriteCloser
	ptlog string
	// poll gate (victim started with "gate"): the victim announces every poll
	// cycle and waits for a permit; permits are granted at once unless held.
	gmu      sync.Mutex
	held     bool
	pending  bool
	permitCh chan struct{} // in-process gated follower
}

func (f *follower) grant() {
	if f.stdin != nil {
		_, _ = io.WriteString(f.stdin, "P\n")
		return
	}
	select {
	case f.permitCh <- struct{}{}:
	default:
	}
}

// onPoll is called by the reader goroutine for every announced poll cycle.
func (f *follower) onPoll() {
	f.gmu.Lock()
	defer f.gmu.Unlock()
	if f.held {
		f.pending = true
		return
	}
	f.grant()
}

// holdAtPoll blocks the follower at the start of its next poll cycle. Returns
// false if the follower ended (or the wall-clock limit passed) instead.
func (f *follower) holdAtPoll(wall time.Duration) bool {
	f.gmu.Lock()
	f.held = true
	f.gmu.Unlock()
	deadline := time.Now().Add(wall)
	for {
		f.gmu.Lock()
		p := f.pending
		f.gmu.Unlock()
		if p {
			return true
		}
		if f.exited() || time.Now().After(deadline) {
			return false
		}
		time.Sleep(2 * time.Millisecond)
	}
}

func (f *follower) release() {
	f.gmu.Lock()
	defer f.gmu.Unlock()
	f.held = false
	if f.pending {
		f.pending = false
		f.grant()
	}
}

func (f *follower) exited() bool {
	select {
	case <-f.done:
		return true
	default:
		return false
	}
}

func (f *follower) exitInfo() (string, int) {
	f.mu.Lock()
	defer f.mu.Unlock()
	return f.exitErr, f.exitCode
}

// startInproc runs follow mode in a goroutine of this process. gated: every
// poll cycle waits for a permit, like the victim process started with "gate".
func startInproc(rep, out string, interval time.Duration, gated bool) *follower {
	f := &follower{done: make(chan struct{}), permitCh: make(chan struct{}, 64)}
	ctx, cancel := context.WithCancel(context.Background())
	f.cancel = cancel
	onList := f.ps.note
	if gated {
		onList = func(seek int) {
			f.ps.note(seek)
			if seek > 0 {
				f.onPoll()
				select {
				case <-f.permitCh:
				case <-ctx.Done():
				}
			}
		}
	}
	pc := &pollClient{ReplicaClient: file.NewReplicaClient(rep), onList: onList}
	r := litestream.NewReplicaWithClient(nil, pc)
	go func() {
		err := r.Restore(ctx, followOptions(out, interval))
		f.mu.Lock()
		if err != nil {
			f.exitErr = oneLine(err.Error())
			f.exitCode = 1
		}
		f.mu.Unlock()
		close(f.done)
	}()
	return f
}

// startProc starts the victim process. mode "" = plain, "count" / "kill" = under ptsup.
func startProc(self, ptsup, mode string, n int, root, ptlog, rep, out string, ms int) (*follower, error) {
	victim := []string{self, "victim-c16", rep, out, strconv.Itoa(ms), "gate"}
	var args []string
	switch mode {
	case "":
		args = victim
	case "count":
		args = append([]string{ptsup, "count", root, ptlog, "--"}, victim...)
	case "kill":
		args = append([]string{ptsup, "kill", root, ptlog, strconv.Itoa(n), "--"}, victim...)
	default:
		return nil, fmt.Errorf("bad mode %q", mode)
	}
	cmd := exec.Command(args[0], args[1:]...)
	// no Pdeathsig (it is bound to the spawning OS thread); a victim whose driver
	// dies sees EOF on stdin and stops by itself.
	stdin, err := cmd.StdinPipe()
	if err != nil {
		return nil, err
	}
	stdout, err := cmd.StdoutPipe()
	if err != nil {
		return nil, err
	}
	errb := &tailBuffer{max: 8 << 10}
	cmd.Stderr = errb
	if err := cmd.Start(); err != nil {
		return nil, err
	}
	f := &follower{done: make(chan struct{}), cmd: cmd, stdin: stdin, ptlog: ptlog}
	go func() {
		sc := bufio.NewScanner(stdout)
		sc.Buffer(make([]byte, 64<<10), 1<<20)
		exitLine := ""
		for sc.Scan() {
			line := sc.Text()
			if rest, ok := strings.CutPrefix(line, "POLL "); ok {
				var k, seek int
				if _, err := fmt.Sscanf(rest, "%d %d", &k, &seek); err == nil {
					f.ps.note(seek)
					if seek > 0 {
						f.onPoll()
					}
				}
			} else if strings.HasPrefix(line, "EXIT ") {
				exitLine = line
			}
		}
		werr := cmd.Wait()
		f.mu.Lock()
		if werr != nil {
			f.exitCode = 1
			if ee, ok := werr.(*exec.ExitError); ok {
				f.exitCode = ee.ExitCode()
				if f.exitCode < 0 {
					f.exitCode = 128 + int(ee.Sys().(syscall.WaitStatus).Signal())
				}
			}
			f.exitErr = strings.TrimPrefix(exitLine, "EXIT ERR ")
			if f.exitErr == "" || exitLine == "EXIT OK" {
				f.exitErr = "process ended: " + werr.Error() + " " + exitLine + " " + panicLine(errb.String())
			}
		} else if exitLine != "EXIT OK" {
			f.exitCode = 1
			f.exitErr = "process exited 0 without EXIT OK: " + exitLine
		}
		f.mu.Unlock()
		close(f.done)
	}()
	return f, nil
}

// stop asks the follower to stop gracefully and waits for it. ok=false if it
// did not end within the wall-clock limit (it is then killed).
func (f *follower) stop(wall time.Duration) (ok bool) {
	if f.cancel != nil {
		f.cancel()
	}
	if f.stdin != nil {
		_ = f.stdin.Close()
	}
	select {
	case <-f.done:
		return true
	case <-time.After(wall):
		f.kill()
		return false
	}
}

func (f *follower) kill() {
	if f.cancel != nil {
		f.cancel()
	}
	if f.cmd != nil && f.cmd.Process != nil {
		_ = f.cmd.Process.Kill() // ptsup dies => PTRACE_O_EXITKILL takes the victim with it
		if f.stdin != nil {
			_ = f.stdin.Close()
		}
	}
	select {
	case <-f.done:
	case <-time.After(15 * time.Second):
	}
}

// tailBuffer keeps the first max bytes written to it (a panic message comes first).
type tailBuffer struct {
	mu  sync.Mutex
	b   []byte
	max int
}

func (t *tailBuffer) Write(p []byte) (int, error) {
	t.mu.Lock()
	if room := t.max - len(t.b); room > 0 {
		if len(p) < room {
			room = len(p)
		}
		t.b = append(t.b, p[:room]...)
	}
	t.mu.Unlock()
	return len(p), nil
}

func (t *tailBuffer) String() string {
	t.mu.Lock()
	defer t.mu.Unlock()
	return string(t.b)
}

func panicLine(stderr string) string {
	for _, l := range strings.Split(stderr, "\n") {
		if strings.HasPrefix(l, "panic:") || strings.HasPrefix(l, "fatal error:") {
			return l
		}
	}
	if len(stderr) > 300 {
		stderr = stderr[:300]
	}
	return oneLine(stderr)
}

type awaitStatus int

const (
	awReached awaitStatus = iota // a poll cycle started with applied TXID >= want (+ stable further cycles)
	awExited                     // the follower ended
	awStalled                    // stallPolls poll cycles without any progress and applied TXID != want
	awTimeout                    // wall clock ran out before any of the above: inconclusive
)

func (s awaitStatus) String() string {
	return [...]string{"reached", "exited", "stalled", "timeout"}[s]
}

// await watches a follower until it has caught up with TXID want. All
// deciding criteria are logical (poll cycles counted by the proxy client); the
// wall-clock limit only yields awTimeout.
func (f *follower) await(want, stable, stallPolls int, wall time.Duration, tick func()) (awaitStatus, int) {
	deadline := time.Now().Add(wall)
	polls0, last0 := f.ps.get()
	progressAt, lastSeen := polls0, last0
	reachedAt := -1
	for {
		polls, last := f.ps.get()
		if last != lastSeen {
			lastSeen, progressAt = last, polls
		}
		if polls > 0 && last >= want {
			if reachedAt < 0 {
				reachedAt = polls
			}
			if polls >= reachedAt+stable {
				return awReached, last
			}
		} else {
			reachedAt = -1
			if polls-progressAt >= stallPolls {
				return awStalled, last
			}
		}
		if f.exited() {
			// drain: state may have advanced just before the exit
			_, last = f.ps.get()
			return awExited, last
		}
		if tick != nil {
			tick()
		}
		if time.Now().After(deadline) {
			return awTimeout, last
		}
		time.Sleep(4 * time.Millisecond)
	}
}

// sidecarTrack observes the -txid sidecar across the life of one output path.
type sidecarTrack struct {
	out     string
	res     *vf.Result
	last    int
	samples int
	seq     []int
	bad     bool
}

func (t *sidecarTrack) sample(where string) int {
	tx, err := litestream.ReadTXIDFile(t.out)
	if err != nil {
		t.res.Logf("sidecar unreadable at %s: %v", where, err)
		t.res.Count("sidecar_unreadable_samples", 1)
		return -1
	}
	v := int(tx)
	t.samples++
	if len(t.seq) == 0 || t.seq[len(t.seq)-1] != v {
		t.seq = append(t.seq, v)
	}
	if v < t.last && !t.bad {
		t.bad = true
		t.res.Violate("sidecar-regressed", "the -txid sidecar went from %d to %d (%s); observed sequence %v", t.last, v, where, t.seq)
	}
	if v > t.last {
		t.last = v
	}
	return v
}

// ---------------------------------------------------------------------------
// ptsup log

type ptEntry struct {
	N    int
	Sys  string
	P1   string
	P2   string
	Line string
}

type ptLog struct {
	Entries []ptEntry
	Killed  bool
	KillN   int
	Total   int // from TOTAL line (count mode / run that ended by itself)
}

func readPtLog(path string) (*ptLog, error) {
	b, err := os.ReadFile(path)
	if err != nil {
		return nil, err
	}
	l := &ptLog{}
	for _, line := range strings.Split(string(b), "\n") {
		line = strings.TrimRight(line, "\r")
		switch {
		case line == "":
		case strings.HasPrefix(line, "KILL"):
			l.Killed = true
			fmt.Sscanf(line, "KILL before %d", &l.KillN)
		case strings.HasPrefix(line, "TOTAL"):
			fmt.Sscanf(line, "TOTAL %d", &l.Total)
		default:
			fs := strings.Fields(line)
			if len(fs) < 3 {
				continue
			}
			n, err := strconv.Atoi(fs[0])
			if err != nil {
				continue
			}
			e := ptEntry{N: n, Sys: fs[2], Line: line}
			if len(fs) > 3 {
				e.P1 = fs[3]
			}
			if len(fs) > 4 {
				e.P2 = fs[4]
			}
			l.Entries = append(l.Entries, e)
		}
	}
	return l, nil
}

// classify names the file a syscall of the follower touches, relative to the
// output path: restore (f.db.tmp), publish (rename tmp->db), db (apply),
// sidecar-tmp, sidecar-publish, dir.
func classify(e ptEntry, out string) string {
	dir := filepath.Dir(out)
	strip := func(p string) string { return strings.TrimSuffix(p, " (deleted)") }
	p1, p2 := strip(e.P1), strip(e.P2)
	switch {
	case strings.HasPrefix(e.Sys, "rename") && p2 == out:
		return "publish-db"
	case strings.HasPrefix(e.Sys, "rename") && p2 == out+"-txid":
		return "publish-sidecar"
	case p1 == out+".tmp":
		return "restore-tmp"
	case p1 == out+"-txid.tmp":
		return "sidecar-tmp"
	case p1 == out+"-txid":
		return "sidecar"
	case p1 == out:
		return "db"
	case p1 == dir:
		return "dir"
	}
	return "other"
}
