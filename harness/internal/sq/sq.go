// Package sq holds the SQLite-side helpers of the harness: application
// connections with verified pragmas, the committed source image (O-SRC) and
// logical dumps (O-LEDGER).
package sq

import (
	"context"
	"crypto/sha256"
	"database/sql"
	"encoding/hex"
	"fmt"
	"io"
	"os"
	"path/filepath"
	"sort"
	"strings"

	_ "modernc.org/sqlite"
)

// DSN builds a modernc DSN. Only per-connection pragmas that are honoured in a
// DSN are passed here; page_size/auto_vacuum/journal_mode are set by statements
// (modernc ignores them in the DSN) and read back.
// ExtraPragmas is appended to every DSN built by this package (e.g.
// "&_pragma=secure_delete(1)"). A worker process runs one case at a time, so the
// sequential history runner sets it for the duration of a case.
var ExtraPragmas string

func DSN(path string, busyMs int, cacheSize int) string {
	s := fmt.Sprintf("file:%s?_pragma=busy_timeout(%d)&_pragma=wal_autocheckpoint(0)", path, busyMs) + ExtraPragmas
	if cacheSize != 0 {
		s += fmt.Sprintf("&_pragma=cache_size(%d)", cacheSize)
	}
	return s
}

// Create makes a new WAL-mode database with the requested page size and
// auto_vacuum mode and returns a single-connection handle. The values are read
// back; a mismatch is a harness error.
func Create(path string, pageSize, autoVacuum int) (*sql.DB, error) {
	db, err := sql.Open("sqlite", DSN(path, 50, 0))
	if err != nil {
		return nil, err
	}
	db.SetMaxOpenConns(1)
	if _, err := db.Exec(fmt.Sprintf("PRAGMA page_size=%d; PRAGMA auto_vacuum=%d;", pageSize, autoVacuum)); err != nil {
		db.Close()
		return nil, err
	}
	var jm string
	if err := db.QueryRow(`PRAGMA journal_mode=wal`).Scan(&jm); err != nil || jm != "wal" {
		db.Close()
		return nil, fmt.Errorf("journal_mode=wal: %v %q", err, jm)
	}
	// force creation of page 1 so the settings stick
	if _, err := db.Exec(`CREATE TABLE IF NOT EXISTS ledger(k INTEGER); INSERT INTO ledger SELECT 0 WHERE NOT EXISTS(SELECT 1 FROM ledger);`); err != nil {
		db.Close()
		return nil, err
	}
	var ps, av, ac int
	if err := db.QueryRow(`PRAGMA page_size`).Scan(&ps); err != nil {
		db.Close()
		return nil, err
	}
	if err := db.QueryRow(`PRAGMA auto_vacuum`).Scan(&av); err != nil {
		db.Close()
		return nil, err
	}
	if err := db.QueryRow(`PRAGMA wal_autocheckpoint`).Scan(&ac); err != nil {
		db.Close()
		return nil, err
	}
	if ps != pageSize || av != autoVacuum || ac != 0 {
		db.Close()
		return nil, fmt.Errorf("pragmas not applied: page_size=%d (want %d) auto_vacuum=%d (want %d) wal_autocheckpoint=%d (want 0)", ps, pageSize, av, autoVacuum, ac)
	}
	return db, nil
}

// Open opens an existing database with n pooled connections.
func Open(path string, busyMs, cacheSize, maxConns int) (*sql.DB, error) {
	db, err := sql.Open("sqlite", DSN(path, busyMs, cacheSize))
	if err != nil {
		return nil, err
	}
	db.SetMaxOpenConns(maxConns)
	return db, nil
}

func CopyFile(src, dst string) error {
	in, err := os.Open(src)
	if err != nil {
		return err
	}
	defer in.Close()
	out, err := os.Create(dst)
	if err != nil {
		return err
	}
	if _, err := io.Copy(out, in); err != nil {
		out.Close()
		return err
	}
	return out.Close()
}

// SourceImage returns the committed state of the database at dbPath as a page
// image: it copies db and db-wal (no -shm, so SQLite runs recovery), opens the
// copy, checkpoints with TRUNCATE and reads the file. The caller guarantees no
// writer is active during the copy.
func SourceImage(dbPath, scratch string) ([]byte, error) {
	ref, err := os.MkdirTemp(scratch, "src")
	if err != nil {
		return nil, err
	}
	defer os.RemoveAll(ref)
	cp := filepath.Join(ref, "db")
	if err := CopyFile(dbPath, cp); err != nil {
		return nil, err
	}
	if err := CopyFile(dbPath+"-wal", cp+"-wal"); err != nil && !os.IsNotExist(err) {
		return nil, err
	}
	return CheckpointedImage(cp)
}

// CheckpointedImage opens path (with its -wal if present), checkpoints
// TRUNCATE, closes and returns the database file bytes. Modifies the files.
func CheckpointedImage(path string) ([]byte, error) {
	db, err := sql.Open("sqlite", "file:"+path+"?_pragma=busy_timeout(2000)")
	if err != nil {
		return nil, err
	}
	db.SetMaxOpenConns(1)
	var a, b, c int
	if err := db.QueryRow(`PRAGMA wal_checkpoint(TRUNCATE)`).Scan(&a, &b, &c); err != nil {
		db.Close()
		return nil, fmt.Errorf("checkpoint reference copy: %w", err)
	}
	if a != 0 {
		db.Close()
		return nil, fmt.Errorf("checkpoint reference copy busy")
	}
	if err := db.Close(); err != nil {
		return nil, err
	}
	return os.ReadFile(path)
}

// SeqInfo returns the root page of _litestream_seq and its seq value (0,0 if absent).
func SeqInfo(path string) (root int, seq int64, rows int, err error) {
	d, err := sql.Open("sqlite", "file:"+path+"?mode=ro&immutable=1")
	if err != nil {
		return 0, 0, 0, err
	}
	defer d.Close()
	err = d.QueryRow(`SELECT rootpage FROM sqlite_master WHERE name='_litestream_seq'`).Scan(&root)
	if err == sql.ErrNoRows {
		return 0, 0, 0, nil
	} else if err != nil {
		return 0, 0, 0, err
	}
	var s sql.NullInt64
	if err := d.QueryRow(`SELECT count(*), max(seq) FROM _litestream_seq`).Scan(&rows, &s); err != nil {
		return root, 0, 0, err
	}
	return root, s.Int64, rows, nil
}

// Dump describes the logical content visible to the application.
type Dump struct {
	K        int64  // ledger value (-1 if no ledger)
	Hash     string // hash over schema and rows of all non-litestream objects
	Poison   int    // rows that only rolled-back transactions write
	Integ    string // integrity_check result
	Tables   int
	Rows     int
	LockRows int // rows in _litestream_lock (-1 if absent)
	UserVer  int
	Schema   []string
}

// DumpDB computes the logical dump of a database file (read-only unless rw).
func DumpDB(path string, integrity bool) (*Dump, error) {
	d, err := sql.Open("sqlite", "file:"+path+"?mode=ro")
	if err != nil {
		return nil, err
	}
	defer d.Close()
	d.SetMaxOpenConns(1)
	return DumpConn(context.Background(), d, integrity)
}

type Queryer interface {
	QueryContext(ctx context.Context, q string, args ...any) (*sql.Rows, error)
	QueryRowContext(ctx context.Context, q string, args ...any) *sql.Row
}

func DumpConn(ctx context.Context, d Queryer, integrity bool) (*Dump, error) {
	out := &Dump{K: -1, LockRows: -1}
	rows, err := d.QueryContext(ctx, `SELECT type, name, tbl_name, coalesce(sql,'') FROM sqlite_master ORDER BY type, name`)
	if err != nil {
		return nil, err
	}
	var tables []string
	hh := sha256.New()
	for rows.Next() {
		var typ, name, tbl, sqls string
		if err := rows.Scan(&typ, &name, &tbl, &sqls); err != nil {
			rows.Close()
			return nil, err
		}
		if strings.HasPrefix(name, "_litestream_") || strings.HasPrefix(tbl, "_litestream_") {
			continue
		}
		line := fmt.Sprintf("%s|%s|%s|%s", typ, name, tbl, sqls)
		out.Schema = append(out.Schema, line)
		fmt.Fprintln(hh, line)
		if typ == "table" && !strings.HasPrefix(name, "sqlite_") {
			tables = append(tables, name)
		}
	}
	if err := rows.Err(); err != nil {
		rows.Close()
		return nil, err
	}
	rows.Close()
	sort.Strings(tables)
	out.Tables = len(tables)
	for _, t := range tables {
		rs, err := d.QueryContext(ctx, `SELECT rowid, * FROM "`+t+`" ORDER BY rowid`)
		if err != nil {
			return nil, fmt.Errorf("dump %s: %w", t, err)
		}
		cols, _ := rs.Columns()
		vals := make([]any, len(cols))
		ptrs := make([]any, len(cols))
		for i := range vals {
			ptrs[i] = &vals[i]
		}
		for rs.Next() {
			if err := rs.Scan(ptrs...); err != nil {
				rs.Close()
				return nil, err
			}
			out.Rows++
			fmt.Fprintf(hh, "%s:", t)
			for _, v := range vals {
				switch x := v.(type) {
				case []byte:
					fmt.Fprintf(hh, "x%s,", hex.EncodeToString(x))
				case nil:
					fmt.Fprint(hh, "NULL,")
				default:
					fmt.Fprintf(hh, "%v,", x)
				}
			}
			fmt.Fprintln(hh)
			if t == "t0" {
				if id, ok := vals[0].(int64); ok && id < 0 {
					out.Poison++
				}
			}
		}
		if err := rs.Err(); err != nil {
			rs.Close()
			return nil, fmt.Errorf("dump %s: %w", t, err)
		}
		rs.Close()
		if t == "ledger" {
			var k sql.NullInt64
			if err := d.QueryRowContext(ctx, `SELECT max(k) FROM ledger`).Scan(&k); err == nil && k.Valid {
				out.K = k.Int64
			}
		}
	}
	out.Hash = hex.EncodeToString(hh.Sum(nil))
	var n int
	if err := d.QueryRowContext(ctx, `SELECT count(*) FROM _litestream_lock`).Scan(&n); err == nil {
		out.LockRows = n
	}
	_ = d.QueryRowContext(ctx, `PRAGMA user_version`).Scan(&out.UserVer)
	if integrity {
		var ic string
		if err := d.QueryRowContext(ctx, `PRAGMA integrity_check`).Scan(&ic); err != nil {
			return nil, fmt.Errorf("integrity_check: %w", err)
		}
		out.Integ = ic
	}
	return out, nil
}

// DumpBytes writes img to a temp file in scratch and dumps it.
func DumpBytes(img []byte, scratch string, integrity bool) (*Dump, error) {
	f, err := os.CreateTemp(scratch, "img")
	if err != nil {
		return nil, err
	}
	p := f.Name()
	defer os.Remove(p)
	if _, err := f.Write(img); err != nil {
		f.Close()
		return nil, err
	}
	f.Close()
	return DumpDB(p, integrity)
}
