package c16

import (
	"crypto/sha256"
	"encoding/json"
	"fmt"
	"math/rand"
	"os"
	"path/filepath"
	"strings"
	"time"

	"verif/harness/internal/hist"
	"verif/harness/internal/oracle"
	"verif/harness/internal/vf"
)

// histSpec: an in-process follower that is stopped gracefully (context cancel)
// and restarted while the primary keeps writing, compacting, snapshotting and
// pruning; the follower free-runs at its own poll interval, so what each poll
// cycle sees is decided by real timing ("for all poll timings").
type histSpec struct {
	Kind       string      `json:"kind"` // "hist"
	Idx        int         `json:"idx"`
	Seed       int64       `json:"seed"`
	Ops        int         `json:"ops"`
	IntervalMs int         `json:"interval_ms"`
	Cfg        hist.Config `json:"cfg"`
	Demo       string      `json:"demo,omitempty"` // fixed demonstration history instead of a generated one
}

type histRun struct {
	s     histSpec
	res   *vf.Result
	p     *primary
	rng   *rand.Rand
	out   string
	f     *follower
	track *sidecarTrack
	ops   []string

	restarts         int
	restartsBehind   int // restarts with the replica ahead of the sidecar
	restartsBridging int // ... and the next level-0 file already gone
	checks           int
	startedWithDB    bool
	sidecarAtStart   int
	everStarted      bool
	restartsMulti    int  // restarts whose only path goes through >= 2 compaction levels
	pathOK           bool // at the last restart every TXID above the sidecar was covered by levels 0..8
}

func (h *histRun) interval() time.Duration { return time.Duration(h.s.IntervalMs) * time.Millisecond }

func (h *histRun) start() {
	_, err := os.Stat(h.out)
	h.startedWithDB = err == nil
	h.sidecarAtStart = h.track.sample("before start")
	h.pathOK = false
	rmax := h.p.max()
	if h.everStarted {
		h.restarts++
		h.res.Count("follower_restarts", 1)
		if h.startedWithDB && h.sidecarAtStart > 0 && h.sidecarAtStart < rmax {
			h.restartsBehind++
			h.res.Count("restart_with_replica_ahead", 1)
			if !hasL0(h.p.e.RepPath, h.sidecarAtStart+1) {
				h.restartsBridging++
				h.res.Count("restart_needs_gap_bridging", 1)
			}
			ok, levels, path := bridgePath(h.p.e.RepPath, h.sidecarAtStart)
			h.pathOK = ok
			switch {
			case !ok:
				h.res.Count("restart_without_incremental_path", 1)
			case levels >= 2:
				h.restartsMulti++
				h.res.Count("restart_bridges_ge2_levels", 1)
				if levels >= 3 {
					h.res.Count("restart_bridges_ge3_levels", 1)
				}
			}
			h.res.Logf("restart path from %d: ok=%v levels=%d %v", h.sidecarAtStart, ok, levels, path)
		}
	}
	h.everStarted = true
	h.f = startInproc(h.p.e.RepPath, h.out, h.interval(), false)
	h.res.Logf("follower start: db exists=%v sidecar=%d replica max=%d floor=%d L0=%v", h.startedWithDB, h.sidecarAtStart, rmax, snapshotFloor(h.p.e.RepPath), l0Set(h.p.e.RepPath))
	if !h.startedWithDB {
		// An initial restore racing the primary's retention is not this property's
		// subject (C07): let it finish (first poll cycle) before the primary moves on.
		deadline := time.Now().Add(waitWall)
		for !h.f.exited() && time.Now().Before(deadline) {
			if polls, _ := h.f.ps.get(); polls >= 1 {
				break
			}
			time.Sleep(time.Millisecond)
		}
	}
}

// checkAlive reports a follower that ended without being asked to. Returns false if the case is over.
func (h *histRun) checkAlive(where string) bool {
	if h.f == nil || !h.f.exited() {
		return true
	}
	msg, _ := h.f.exitInfo()
	rep := h.p.e.RepPath
	if msg == "" {
		h.res.Evals++
		h.res.Violate("follower-exited", "%s: follow mode returned nil without being cancelled", where)
		return false
	}
	// the precondition is evaluated against the replica as it is now: max only grows, the floor only rises
	classifyExit(h.res, where, msg, h.startedWithDB, h.startedWithDB, h.sidecarAtStart, h.p.max(), snapshotFloor(rep), h.pathOK, h.s.Cfg.String())
	return false
}

func (h *histRun) stop() bool {
	if h.f == nil {
		return true
	}
	if !h.checkAlive("before stop") {
		h.f = nil
		return false
	}
	if !h.f.stop(60 * time.Second) {
		h.res.HarnessErr = "in-process follower did not return within 60s of context cancellation"
		h.f = nil
		return false
	}
	msg, _ := h.f.exitInfo()
	sc := h.track.sample("after stop")
	h.res.Logf("follower stopped: err=%q sidecar=%d replica max=%d", msg, sc, h.p.max())
	if strings.Contains(msg, "cannot resume follow mode") {
		// The resume validation refused before the cancellation took effect: this
		// error does not depend on the stop request.
		classifyExit(h.res, "stop right after restart", msg, h.startedWithDB, h.startedWithDB, h.sidecarAtStart, h.p.max(), snapshotFloor(h.p.e.RepPath), h.pathOK, h.s.Cfg.String())
		h.f = nil
		return false
	}
	if msg != "" {
		h.res.Count("graceful_stop_returned_error", 1) // e.g. cancelled during the initial restore: allowed
		if os.Getenv("VERIF_C16_KEEP") != "" {
			h.res.Count(fmt.Sprintf("graceful_stop_error:%.100s", msg), 1)
		}
	}
	h.f = nil
	return true
}

// catchUp waits (logically) until the follower has applied the replica max and
// compares it with an ordinary restore. final additionally requires idle cycles.
func (h *histRun) catchUp(tag string, final bool) bool {
	want := h.p.max()
	stable := 1
	if final {
		stable = stablePolls
	}
	status, applied := h.f.await(want, stable, stallPolls, waitWall, func() { h.track.sample(tag) })
	h.track.sample(tag)
	rep := h.p.e.RepPath
	switch status {
	case awExited:
		h.checkAlive(tag)
		h.f = nil
		return false
	case awStalled:
		h.res.Evals++
		floor := snapshotFloor(rep)
		sc := h.track.sample(tag + " stalled")
		h.f.kill()
		h.f = nil
		if h.startedWithDB && h.sidecarAtStart < floor && !h.pathOK {
			h.res.Count("stall_outside_precondition", 1)
			return false
		}
		h.res.Violate("no-convergence", "%s: follower completed %d poll cycles without progress while the primary was idle: applied TXID %d, sidecar %d, replica max %d, L0=%v, oldest snapshot %d, files %v [%s]",
			tag, stallPolls, applied, sc, want, l0Set(rep), floor, oracle.ListAll(rep), h.s.Cfg)
		return false
	case awTimeout:
		h.f.kill()
		h.f = nil
		h.res.HarnessErr = fmt.Sprintf("%s: wall-clock limit while waiting for the in-process follower (applied=%d want=%d)", tag, applied, want)
		return false
	}
	if applied > want {
		h.res.Evals++
		h.res.Violate("follower-ahead-of-replica", "%s: follower reports applied TXID %d, replica max is %d", tag, applied, want)
		return false
	}
	ref, err := reference(rep, h.p.e.Dir, want)
	if err != nil {
		h.res.HarnessErr = fmt.Sprintf("%s: reference Restore(TXID=%d) failed: %v", tag, want, err)
		return false
	}
	got, err := os.ReadFile(h.out)
	h.res.Evals++
	h.checks++
	h.res.Count("compared_with_restore", 1)
	if err != nil {
		h.res.Violate("follower-differs", "%s: follower database unreadable: %v", tag, err)
		return false
	}
	if err := oracle.CompareHeaderMasked(ref, got, followMask); err != nil {
		h.res.Violate("follower-differs", "%s: follower caught up with replica max TXID %d but differs from Restore(TXID=%d): %v [%s]", tag, want, want, err, h.s.Cfg)
		return false
	}
	if sc := h.track.sample(tag + " compared"); sc > want {
		h.res.Violate("sidecar-ahead-of-replica", "%s: sidecar TXID %d is above the replica max %d", tag, sc, want)
		return false
	}
	return true
}

// deepDown is what the primary does while the follower is down: for each of
// the levels top..2 a batch of writes compacted up to that level, then a batch
// that only reaches level 1, then a snapshot with TXID retention on the
// compaction levels (old L1.. files vanish, the newest file of every level
// stays), then a level-0 tail.
func (h *histRun) deepDown(top int) error {
	p := h.p
	for lvl := top; lvl >= 1; lvl-- {
		if err := p.write(1 + h.rng.Intn(3)); err != nil {
			return err
		}
		if err := p.marker(); err != nil {
			return err
		}
		for l := 1; l <= lvl; l++ {
			p.compact(l)
		}
	}
	p.deepPrune()
	return p.write(1 + h.rng.Intn(3))
}

func runHist(run *vf.Run, raw json.RawMessage, dir string) *vf.Result {
	res := &vf.Result{}
	var s histSpec
	if err := json.Unmarshal(raw, &s); err != nil {
		res.HarnessErr = err.Error()
		return res
	}
	rng := rand.New(rand.NewSource(s.Seed))
	p, err := newPrimary(filepath.Join(dir, "prim"), s.Cfg, rng, res)
	if err != nil {
		res.HarnessErr = err.Error()
		return res
	}
	defer p.close()
	h := &histRun{s: s, res: res, p: p, rng: rng, out: filepath.Join(dir, "fol", "f.db")}
	if err := os.MkdirAll(filepath.Dir(h.out), 0o755); err != nil {
		res.HarnessErr = err.Error()
		return res
	}
	h.track = &sidecarTrack{out: h.out, res: res}
	defer func() {
		if h.f != nil {
			h.f.kill()
		}
	}()
	fail := func(err error) *vf.Result {
		res.HarnessErr = err.Error()
		return res
	}
	if err := p.write(2); err != nil {
		return fail(err)
	}
	finish := func() *vf.Result {
		res.Sig = fmt.Sprintf("%x", sha256.Sum256([]byte(s.Cfg.String()+fmt.Sprint(s.IntervalMs)+strings.Join(h.ops, ","))))[:16]
		res.Nontrivial = h.restartsBehind >= 1 && h.checks >= 1
		res.Sample = map[string]any{"kind": "hist", "cfg": s.Cfg.String(), "interval_ms": s.IntervalMs, "ops": strings.Join(h.ops, " "), "restarts": h.restarts,
			"restarts_with_replica_ahead": h.restartsBehind, "restarts_needing_gap_bridging": h.restartsBridging, "restarts_bridging_ge2_levels": h.restartsMulti, "comparisons": h.checks, "sidecar_sequence": h.track.seq, "final_txid": p.max()}
		res.Count(fmt.Sprintf("page_size_%d", s.Cfg.PageSize), 1)
		return res
	}

	if s.Demo == "F4" {
		// DESIGN §5 F4: snapshot at an early TXID, follower beyond it, follower restarted
		p.snapshot()
		if err := p.write(3); err != nil {
			return fail(err)
		}
		h.ops = []string{"demo-F4"}
		h.start()
		if !h.catchUp("demo: first catch-up", false) {
			return finish()
		}
		if !h.stop() {
			return finish()
		}
		if err := p.write(1); err != nil {
			return fail(err)
		}
		h.start()
		if h.catchUp("demo: after restart", true) {
			h.stop()
		}
		return finish()
	}

	if s.Demo == "first-snapshot-later" {
		// the follower goes down before the primary has taken any level-9 snapshot; the first
		// snapshot is taken above the follower's sidecar, every level-0 file is still there
		h.ops = []string{"demo-first-snapshot-later"}
		h.start()
		if !h.catchUp("demo: first catch-up", false) || !h.stop() {
			return finish()
		}
		if err := p.write(3); err != nil {
			return fail(err)
		}
		p.snapshot()
		if err := p.write(1); err != nil {
			return fail(err)
		}
		h.start()
		if h.pathOK && h.sidecarAtStart < snapshotFloor(p.e.RepPath) {
			res.Count("restart_below_oldest_snapshot_with_incremental_path", 1)
		}
		if h.catchUp("demo: after restart below the first snapshot", true) {
			h.stop()
		}
		return finish()
	}

	if s.Demo == "bridge2" {
		// follower down at an early TXID; afterwards the only way up is L2 -> L1 -> L0
		p.snapshot()
		if err := p.write(1); err != nil {
			return fail(err)
		}
		h.ops = []string{"demo-bridge2"}
		h.start()
		if !h.catchUp("demo: first catch-up", false) || !h.stop() {
			return finish()
		}
		if err := h.deepDown(2); err != nil {
			return fail(err)
		}
		h.start()
		if h.catchUp("demo: after multi-level bridge", true) {
			h.stop()
		}
		return finish()
	}

	h.start()
	for i := 0; i < s.Ops; i++ {
		if !h.checkAlive(fmt.Sprintf("op %d", i)) {
			h.f = nil
			return finish()
		}
		op := ""
		switch r := rng.Intn(24); {
		case r < 8:
			op = "write"
			if err := p.write(1 + rng.Intn(3)); err != nil {
				return fail(err)
			}
		case r < 9:
			op = "shrink"
			if err := p.shrink(); err != nil {
				return fail(err)
			}
		case r < 10:
			op = "maint"
			p.e.Maint()
			if err := p.sync(); err != nil {
				return fail(err)
			}
		case r < 13:
			op = "compact1"
			p.compact(1)
			if rng.Intn(2) == 0 {
				op = "compact12"
				p.compact(2)
				if rng.Intn(2) == 0 {
					op = "compact123"
					p.compact(3)
				}
			}
		case r < 15:
			op = "snapshot"
			p.snapshot()
		case r < 16:
			// prune only below what the follower has durably reached
			pos := h.track.sample("before prune")
			if _, err := os.Stat(h.out); err == nil && pos > 0 && p.pruneSnapshots(pos) {
				op = "prune"
			} else {
				op = "prune-skipped"
			}
		case r < 20:
			if h.f != nil {
				op = "stop"
				if !h.stop() {
					return finish()
				}
			} else {
				op = "start"
				h.start()
			}
		case r < 21 && i > 3:
			// the follower is down while the primary compacts through several levels and
			// prunes: on restart the way up leads through >= 2 compaction levels
			op = "deep"
			// go down from a caught-up position, so that the way up exists by construction
			if h.f == nil {
				h.start()
			}
			if !h.catchUp(fmt.Sprintf("op %d before deep down-phase", i), false) || !h.stop() {
				return finish()
			}
			if err := h.deepDown(2 + rng.Intn(2)); err != nil {
				return fail(err)
			}
			h.start()
			if !h.catchUp(fmt.Sprintf("op %d after deep down-phase", i), false) {
				return finish()
			}
		case r < 22:
			op = "sleep"
			time.Sleep(time.Duration(rng.Intn(30)) * time.Millisecond) // timing jitter only; never decides anything
		default:
			if h.f != nil {
				op = "check"
				if !h.catchUp(fmt.Sprintf("op %d catch-up", i), false) {
					return finish()
				}
			} else {
				op = "write"
				if err := p.write(1); err != nil {
					return fail(err)
				}
			}
		}
		h.ops = append(h.ops, op)
		h.track.sample(fmt.Sprintf("after op %d %s", i, op))
	}
	// the primary stops changing; the follower must converge
	if h.f == nil {
		h.start()
	}
	if h.catchUp("final", true) {
		h.stop()
	}
	return finish()
}
