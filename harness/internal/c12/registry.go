package c12

import (
	"sort"
	"time"

	"github.com/anishathalye/porcupine"
)

// Registry model: one boolean per path ("the store manages an instance for this
// path"). It encodes only what the property states:
//   - a listing shows a path at most once, and exactly once while it is present;
//   - a path is present after a returned Register until an Unregister is invoked
//     (Register on a present path keeps it present: exactly one instance);
//   - a failed Register / Unregister may or may not have taken effect.
type regIn struct {
	Kind string // reg | unreg | list
	Path string
}

type regOut struct {
	OK    bool
	Count int
}

func registryModel() porcupine.Model {
	nm := porcupine.NondeterministicModel{
		Partition: func(h []porcupine.Operation) [][]porcupine.Operation {
			m := map[string][]porcupine.Operation{}
			for _, op := range h {
				p := op.Input.(regIn).Path
				m[p] = append(m[p], op)
			}
			keys := make([]string, 0, len(m))
			for k := range m {
				keys = append(keys, k)
			}
			sort.Strings(keys)
			var out [][]porcupine.Operation
			for _, k := range keys {
				out = append(out, m[k])
			}
			return out
		},
		Init: func() []interface{} { return []interface{}{false} },
		Step: func(state, input, output interface{}) []interface{} {
			present := state.(bool)
			in := input.(regIn)
			out := output.(regOut)
			switch in.Kind {
			case "reg":
				if out.OK {
					return []interface{}{true}
				}
				return []interface{}{present, true}
			case "unreg":
				if out.OK {
					return []interface{}{false}
				}
				return []interface{}{present, false}
			case "list":
				if (present && out.Count == 1) || (!present && out.Count == 0) {
					return []interface{}{present}
				}
				return nil
			}
			return nil
		},
		Equal: func(a, b interface{}) bool { return a.(bool) == b.(bool) },
	}
	return nm.ToModel()
}

// checkRegistry runs porcupine over the registry history extracted from the
// event log. initiallyPresent lists the paths registered before the first event.
func checkRegistry(evs []Event, paths []string, initiallyPresent []string) (porcupine.CheckResult, int) {
	var ops []porcupine.Operation
	for i, p := range initiallyPresent {
		ops = append(ops, porcupine.Operation{ClientId: 0, Input: regIn{"reg", p}, Output: regOut{OK: true}, Call: int64(-10 - 2*i), Return: int64(-9 - 2*i)})
	}
	for _, e := range evs {
		switch e.Reg {
		case "reg", "unreg":
			ops = append(ops, porcupine.Operation{ClientId: e.G + 1, Input: regIn{e.Reg, e.DB}, Output: regOut{OK: e.Err == ""}, Call: e.T0, Return: e.T1})
		case "list":
			if e.List == nil {
				continue
			}
			for _, p := range paths {
				ops = append(ops, porcupine.Operation{ClientId: e.G + 1, Input: regIn{"list", p}, Output: regOut{Count: e.List[p]}, Call: e.T0, Return: e.T1})
			}
		}
	}
	return porcupine.CheckOperationsTimeout(registryModel(), ops, 30*time.Second), len(ops)
}
