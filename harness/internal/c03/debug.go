package c03

import (
	"fmt"
	"os"
	"path/filepath"
)

// `vh c03-count <scenario> <config> [plain|count|strace]` runs one scenario and prints the
// history and the supervisor log: a diagnostic aid, not a check.
func init() {
	if len(os.Args) > 3 && os.Args[1] == "c03-count" {
		os.Exit(debugCount(os.Args[2], os.Args[3], append(os.Args[4:], "count")[0]))
	}
}

func debugCount(scn, cfgn, mode string) int {
	sc := ScenarioByName(scn)
	cfg, ok := configByName(cfgn)
	if sc == nil || !ok {
		fmt.Fprintln(os.Stderr, "unknown scenario/config")
		return 2
	}
	if err := EnsurePtsup(); err != nil {
		fmt.Fprintln(os.Stderr, err)
		return 2
	}
	base, err := os.MkdirTemp("/dev/shm", "c03dbg-")
	if err != nil {
		fmt.Fprintln(os.Stderr, err)
		return 2
	}
	defer os.RemoveAll(base)
	logPath := filepath.Join(base, "trace.log")
	l := Launch{Mode: Count, Log: logPath}
	switch mode {
	case "plain":
		l = Launch{Mode: Plain}
	case "strace":
		l = Launch{Mode: Strace, Log: logPath}
	}
	w, at, err := runScenario(sc, cfg, filepath.Join(base, "s"), filepath.Join(base, "w"), 1, l, "", false, func(f string, a ...any) { fmt.Printf("| "+f+"\n", a...) })
	if w != nil {
		w.Close()
	}
	fmt.Printf("ended at step %d err=%v acks=%d\n", at, err, len(w.Acks))
	if b, err := os.ReadFile(logPath); err == nil {
		os.Stdout.Write(b)
	}
	return 0
}
