package c15

// Variant "live": timestamp restores and snapshots that OVERLAP replication.
//
// A writer, litestream's own monitors (1-3 ms), a snapshotter and two
// restorers run concurrently for RunMs. Replication goes through a delaying
// proxy that numbers every completed publication; restores go through a second
// delaying proxy so that files are published between Restore's internal steps.
// Every verdict is taken afterwards from recorded values only: the header
// timestamps read back from the level-0 files, the requested T, the hash of the
// restored bytes and the publication sequence numbers seen at call start.

import (
	"context"
	"crypto/sha256"
	"encoding/binary"
	"fmt"
	"io"
	"math/rand"
	"os"
	"path/filepath"
	"sort"
	"sync"
	"sync/atomic"
	"time"

	"github.com/benbjohnson/litestream"
	"github.com/benbjohnson/litestream/file"
	"github.com/superfly/ltx"

	"verif/harness/internal/hist"
	"verif/harness/internal/oracle"
	"verif/harness/internal/sq"
	"verif/harness/internal/vf"
)

// ---------------------------------------------------------------------------
// delaying proxy

type pubKey struct{ level, min, max int }

type pubRec struct {
	seq    int64 // publication sequence number of the LAST completed publication
	first  int64 // ... of the first one
	wallMs int64 // wall clock when the publication completed (evidence only)
	times  int
}

// liveProxy is an ordinary ReplicaClient: it sleeps at PRNG-chosen calls of
// LTXFiles / WriteLTXFile (before the call; it never injects an error) and,
// after a successful WriteLTXFile, gives the file a publication sequence
// number. A file with number q has been completely published (final name,
// final mtime) once seq >= q is observed.
type liveProxy struct {
	litestream.ReplicaClient
	listPct, writePct   int
	listMax, writeMax   time.Duration
	mu                  sync.Mutex
	rng                 *rand.Rand
	pubs                map[pubKey]*pubRec
	recent              []int64 // CreatedAt (= header time, ms) returned for recently published level-0 files
	seq                 atomic.Int64
	lists, writes, naps atomic.Int64
}

func newLiveProxy(c litestream.ReplicaClient, seed int64, listPct int, listMax time.Duration, writePct int, writeMax time.Duration) *liveProxy {
	return &liveProxy{ReplicaClient: c, rng: rand.New(rand.NewSource(seed)), pubs: map[pubKey]*pubRec{},
		listPct: listPct, listMax: listMax, writePct: writePct, writeMax: writeMax}
}

func (p *liveProxy) nap(ctx context.Context, pct int, max time.Duration) {
	if max <= 0 || pct <= 0 {
		return
	}
	p.mu.Lock()
	var d time.Duration
	if p.rng.Intn(100) < pct {
		d = time.Duration(p.rng.Int63n(int64(max) + 1))
	}
	p.mu.Unlock()
	if d <= 0 {
		return
	}
	p.naps.Add(1)
	t := time.NewTimer(d)
	defer t.Stop()
	select {
	case <-t.C:
	case <-ctx.Done():
	}
}

func (p *liveProxy) LTXFiles(ctx context.Context, level int, seek ltx.TXID, useMetadata bool) (ltx.FileIterator, error) {
	p.lists.Add(1)
	p.nap(ctx, p.listPct, p.listMax)
	return p.ReplicaClient.LTXFiles(ctx, level, seek, useMetadata)
}

func (p *liveProxy) WriteLTXFile(ctx context.Context, level int, minTXID, maxTXID ltx.TXID, r io.Reader) (*ltx.FileInfo, error) {
	p.writes.Add(1)
	p.nap(ctx, p.writePct, p.writeMax)
	info, err := p.ReplicaClient.WriteLTXFile(ctx, level, minTXID, maxTXID, r)
	if err == nil {
		p.mu.Lock()
		q := p.seq.Load() + 1
		k := pubKey{level, int(minTXID), int(maxTXID)}
		rec := p.pubs[k]
		if rec == nil {
			rec = &pubRec{first: q}
			p.pubs[k] = rec
		}
		rec.seq, rec.wallMs = q, time.Now().UnixMilli()
		rec.times++
		if level == 0 && info != nil {
			p.recent = append(p.recent, info.CreatedAt.UnixMilli())
			if len(p.recent) > 64 {
				p.recent = p.recent[len(p.recent)-64:]
			}
		}
		p.seq.Store(q) // last: whoever observes q also finds the record complete
		p.mu.Unlock()
	}
	return info, err
}

func (p *liveProxy) recentL0Time(r *rand.Rand) (int64, bool) {
	p.mu.Lock()
	defer p.mu.Unlock()
	if len(p.recent) == 0 {
		return 0, false
	}
	n := len(p.recent)
	back := r.Intn(8)
	if r.Intn(4) == 0 {
		back = r.Intn(n)
	}
	if back >= n {
		back = n - 1
	}
	return p.recent[n-1-back], true
}

// ---------------------------------------------------------------------------
// page-wise image hashes: H(image) = sha256(commit || sha256(page 1) || ...),
// so that one more TXID costs only its own pages.

type pageHasher struct {
	ps     uint32
	pages  map[uint32][32]byte
	commit uint32
	zero   [32]byte
}

func newPageHasher(ps uint32) *pageHasher {
	return &pageHasher{ps: ps, pages: map[uint32][32]byte{}, zero: sha256.Sum256(make([]byte, ps))}
}

func (h *pageHasher) apply(lf *oracle.LTXFile) {
	for pg, d := range lf.Pages {
		h.pages[pg] = sha256.Sum256(d)
	}
	h.commit = lf.Hdr.Commit
	for pg := range h.pages {
		if pg > h.commit {
			delete(h.pages, pg)
		}
	}
}

func (h *pageHasher) sum() ([32]byte, error) {
	w := sha256.New()
	var b [4]byte
	binary.BigEndian.PutUint32(b[:], h.commit)
	w.Write(b[:])
	lock := ltx.LockPgno(h.ps)
	for pg := uint32(1); pg <= h.commit; pg++ {
		ph, ok := h.pages[pg]
		if !ok {
			if pg != lock {
				return [32]byte{}, fmt.Errorf("page %d of %d never written by the level-0 files so far", pg, h.commit)
			}
			ph = h.zero
		}
		w.Write(ph[:])
	}
	var out [32]byte
	copy(out[:], w.Sum(nil))
	return out, nil
}

func hashImage(img []byte, ps uint32) ([32]byte, bool) {
	if len(img) == 0 || len(img)%int(ps) != 0 {
		return sha256.Sum256(img), false
	}
	w := sha256.New()
	var b [4]byte
	binary.BigEndian.PutUint32(b[:], uint32(len(img)/int(ps)))
	w.Write(b[:])
	for off := 0; off < len(img); off += int(ps) {
		ph := sha256.Sum256(img[off : off+int(ps)])
		w.Write(ph[:])
	}
	var out [32]byte
	copy(out[:], w.Sum(nil))
	return out, true
}

// ---------------------------------------------------------------------------

type liveRestore struct {
	who      int
	kind     string
	T        int64 // requested timestamp (whole ms)
	startMs  int64 // wall clock at call start (evidence only)
	startSeq int64 // publications completed before the call started
	endSeq   int64 // ... when it returned
	ok       bool
	hash     [32]byte
	size     int
	wholePgs bool
	err      string
}

type liveSnap struct {
	startMs int64
	max     int
	ok      bool
}

type live struct {
	s    spec
	e    *hist.Env
	res  *vf.Result
	pub  *liveProxy
	max  int
	ts   []int64    // ts[n], n = 1..max
	img  [][32]byte // img[n]
	by   map[[32]byte][]int
	l0q  []int64 // publication number of level-0 file n (last completed publication), neverPublished = not seen by the proxy
	dupN int

	snapFiles []liveSnapFile // level-9 files left on the replica, with the header time read back
	snapS     map[int]int64  // N -> header time of level-9 file 1..N
}

type liveSnapFile struct {
	oracle.FileRef
	S int64
}

const neverPublished = int64(1) << 62

func runLive(s spec, dir string, res *vf.Result) *vf.Result {
	herr := func(format string, a ...any) *vf.Result { res.HarnessErr = fmt.Sprintf(format, a...); return res }
	rng := rand.New(rand.NewSource(s.Seed))
	e, err := hist.NewEnv(dir, s.Cfg, rng, res)
	if err != nil {
		return herr("%v", err)
	}
	defer e.Close()
	mon := time.Duration(1+rng.Intn(3)) * time.Millisecond
	rmon := time.Duration(1+rng.Intn(3)) * time.Millisecond
	e.Tune = func(db *litestream.DB) {
		db.MonitorInterval = mon
		db.BusyTimeout = 200 * time.Millisecond
		db.L0Retention = 24 * time.Hour
		db.Replica.MonitorEnabled = true
		db.Replica.SyncInterval = rmon
	}
	var pub *liveProxy
	e.Wrap = func(c litestream.ReplicaClient) litestream.ReplicaClient {
		pub = newLiveProxy(c, s.Seed*3+1, 100, 6*time.Millisecond, 30, 6*time.Millisecond)
		return pub
	}
	e.W.Close()
	w, err := sq.Open(e.DBPath, 2000, 0, 1)
	if err != nil {
		return herr("%v", err)
	}
	e.W = w
	if err := e.StartLS(); err != nil {
		return herr("open litestream: %v", err)
	}
	ctx := context.Background()
	stop := make(chan struct{})
	stopped := func() bool {
		select {
		case <-stop:
			return true
		default:
			return false
		}
	}
	var wg sync.WaitGroup
	var commits, wfail atomic.Int64

	// (w) application writer: small multi-table transactions, each bumping the ledger;
	// now and then it goes quiet for a while (a replica nobody writes to).
	wg.Add(1)
	go func() {
		defer wg.Done()
		r := rand.New(rand.NewSource(s.Seed*7 + 1))
		blob := func(n int) []byte { b := make([]byte, n); r.Read(b); return b }
		k := e.K
		rows := 0
		for !stopped() {
			tx, err := w.Begin()
			if err != nil {
				wfail.Add(1)
				time.Sleep(time.Millisecond)
				continue
			}
			var ex error
			switch c := r.Intn(10); {
			case rows < 60 || (rows < 300 && c < 6):
				n := 1 + r.Intn(3)
				for i := 0; i < n && ex == nil; i++ {
					sz := []int{20, 200, 600, 600, 3000}[r.Intn(5)]
					_, ex = tx.Exec(`INSERT INTO t1(v) VALUES(?)`, blob(sz))
					if ex == nil {
						_, ex = tx.Exec(`INSERT INTO t2(v) VALUES(?)`, blob(sz/2+1))
					}
					rows++
				}
				if ex == nil && r.Intn(4) == 0 {
					_, ex = tx.Exec(`INSERT OR REPLACE INTO t0(id,v) VALUES(?,?)`, 1+r.Intn(40), blob(100+r.Intn(900)))
				}
			case c < 8:
				_, ex = tx.Exec(`UPDATE t1 SET v=? WHERE id%7=?`, blob(40), r.Intn(7))
				if ex == nil {
					_, ex = tx.Exec(`UPDATE t2 SET v=? WHERE id%11=?`, blob(25), r.Intn(11))
				}
			default:
				var rr interface{ RowsAffected() (int64, error) }
				rr, ex = tx.Exec(`DELETE FROM t1 WHERE id IN (SELECT id FROM t1 ORDER BY id LIMIT 4)`)
				if ex == nil {
					if n, _ := rr.RowsAffected(); n > 0 {
						rows -= int(n)
					}
					_, ex = tx.Exec(`DELETE FROM t2 WHERE id IN (SELECT id FROM t2 ORDER BY id LIMIT 4)`)
				}
			}
			if ex == nil {
				_, ex = tx.Exec(`UPDATE ledger SET k=?`, k+1)
			}
			if ex != nil {
				_ = tx.Rollback()
				wfail.Add(1)
				continue
			}
			if ex = tx.Commit(); ex != nil {
				wfail.Add(1)
				continue
			}
			k++
			commits.Add(1)
			switch c := r.Intn(40); {
			case c == 0:
				time.Sleep(time.Duration(15+r.Intn(50)) * time.Millisecond)
			default:
				time.Sleep(time.Duration(1000+r.Intn(2000)) * time.Microsecond)
			}
		}
	}()

	// (s) snapshotter
	var snaps []liveSnap
	wg.Add(1)
	go func() {
		defer wg.Done()
		r := rand.New(rand.NewSource(s.Seed*11 + 2))
		for !stopped() {
			time.Sleep(time.Duration(10+r.Intn(21)) * time.Millisecond)
			t0 := time.Now().UnixMilli()
			info, err := e.LS.Snapshot(ctx)
			sn := liveSnap{startMs: t0, ok: err == nil}
			if err == nil && info != nil {
				sn.max = int(info.MaxTXID)
			}
			snaps = append(snaps, sn)
		}
	}()

	// (r) restorers: each has its own delaying proxy around its own file client
	const restorers = 2
	recs := make([][]liveRestore, restorers)
	rproxies := make([]*liveProxy, restorers)
	for g := 0; g < restorers; g++ {
		g := g
		rp := newLiveProxy(file.NewReplicaClient(e.RepPath), s.Seed*17+int64(g), 50, 8*time.Millisecond, 0, 0)
		rproxies[g] = rp
		rr := litestream.NewReplicaWithClient(nil, rp)
		wg.Add(1)
		go func() {
			defer wg.Done()
			r := rand.New(rand.NewSource(s.Seed*13 + int64(g)*101 + 3))
			for i := 0; !stopped(); i++ {
				time.Sleep(time.Duration(r.Intn(10_000)) * time.Microsecond)
				rec := liveRestore{who: g}
				now := time.Now()
				rec.startMs = now.UnixMilli()
				switch c := r.Intn(12); {
				case c < 6:
					d := []int64{0, 1, 2, 5, 20, 100}[r.Intn(6)]
					rec.T, rec.kind = rec.startMs-d, fmt.Sprintf("now-%dms", d)
				case c < 8:
					d := []int64{3, 10, 30}[r.Intn(3)]
					rec.T, rec.kind = rec.startMs+d, fmt.Sprintf("now+%dms", d)
				default:
					if t, ok := pub.recentL0Time(r); ok {
						d := int64(r.Intn(3) - 1)
						rec.T, rec.kind = t+d, fmt.Sprintf("recent-l0-time%+d", d)
					} else {
						rec.T, rec.kind = rec.startMs, "now-0ms"
					}
				}
				out := filepath.Join(dir, fmt.Sprintf("live-out-%d-%d", g, i))
				opt := litestream.NewRestoreOptions()
				opt.Timestamp = time.UnixMilli(rec.T).UTC()
				opt.OutputPath = out
				rec.startSeq = pub.seq.Load()
				err := rr.Restore(ctx, opt)
				rec.endSeq = pub.seq.Load()
				if err != nil {
					rec.err = err.Error()
				} else if b, rerr := os.ReadFile(out); rerr != nil {
					rec.err = "harness: read restored file: " + rerr.Error()
				} else {
					rec.ok, rec.size = true, len(b)
					rec.hash, rec.wholePgs = hashImage(b, uint32(s.Cfg.PageSize))
				}
				os.Remove(out)
				os.Remove(out + ".tmp")
				os.Remove(out + "-txid")
				recs[g] = append(recs[g], rec)
			}
		}()
	}

	time.Sleep(time.Duration(s.RunMs) * time.Millisecond)
	// on a loaded machine keep going (at most as long again) until enough has been
	// replicated for the case to say something; duration never enters a verdict
	for extra := 0; extra < s.RunMs && pub.seq.Load() < 150; extra += 250 {
		time.Sleep(250 * time.Millisecond)
	}
	close(stop)
	wg.Wait()

	var ferr error
	for i := 0; i < 5; i++ {
		if ferr = e.LS.SyncAndWait(ctx); ferr == nil {
			break
		}
		time.Sleep(50 * time.Millisecond)
	}
	cctx, cancel := context.WithTimeout(ctx, 60*time.Second)
	cerr := e.LS.Close(cctx)
	cancel()
	e.Logf("live: monitor=%v replica-monitor=%v commits=%d writer-failures=%d snapshot calls=%d final sync err=%v close err=%v", mon, rmon, commits.Load(), wfail.Load(), len(snaps), ferr, cerr)
	if ferr != nil {
		return herr("final SyncAndWait failed: %v", ferr)
	}

	lv := &live{s: s, e: e, res: res, pub: pub}
	if lv.scan() || lv.readSnapshots() {
		return res
	}

	var all []liveRestore
	for _, a := range recs {
		all = append(all, a...)
	}
	sort.SliceStable(all, func(i, j int) bool { return all[i].startSeq < all[j].startSeq })
	decided, overlapped := 0, 0
	for i := range all {
		r := &all[i]
		if len(res.Violations) >= 3 || res.HarnessErr != "" {
			break // enough witnesses
		}
		if lv.decide(fmt.Sprintf("live restore #%d by restorer %d (%s)", i, r.who, r.kind), r, false) {
			decided++
			if r.endSeq > r.startSeq {
				overlapped++
			}
		}
	}
	res.Count("live_restore_calls", len(all))
	res.Count("live_restores_decided", decided)
	res.Count("live_restores_overlapping_a_publication", overlapped)

	// snapshots: calls, and the stamps of the level-9 files left on the (now static) replica
	snapOK, snapWaited := 0, 0
	for _, sn := range snaps {
		if !sn.ok {
			res.Count("live_snapshot_calls_failed", 1)
			continue
		}
		snapOK++
		// evidence only: the newest TXID of the snapshot was replicated after the call started,
		// i.e. the call queued behind (or raced with) the sync that produced it
		if sn.max >= 1 && sn.max <= lv.max && lv.ts[sn.max] > sn.startMs {
			snapWaited++
		}
	}
	res.Count("live_snapshots_taken", snapOK)
	res.Count("live_snapshot_calls_that_waited_for_a_sync", snapWaited)
	examined := 0
	if res.HarnessErr == "" {
		examined = lv.checkSnapshots()
	}

	for _, rp := range rproxies {
		res.Count("live_restore_proxy_listings", int(rp.lists.Load()))
		res.Count("live_restore_proxy_delays", int(rp.naps.Load()))
	}
	res.Count("live_publish_proxy_writes", int(pub.writes.Load()))
	res.Count("live_publish_proxy_delays", int(pub.naps.Load()))
	res.Count("live_publications", int(pub.seq.Load()))
	res.Count("live_l0_files_published_more_than_once", lv.dupN)
	res.Count("live_commits", int(commits.Load()))
	res.Count("live_txids", lv.max)
	res.Count("variant_live", 1)
	res.Count(fmt.Sprintf("page_size_%d", s.Cfg.PageSize), 1)
	res.Sig = fmt.Sprintf("live-%d-%s", s.Seed, s.Cfg.String())
	e.Logf("live: litestream log messages: %v", e.Logs.Snapshot())
	e.Logf("live: cfg %s: txids=%d restore calls=%d decided=%d overlapping a publication=%d snapshots ok=%d level-9 files=%d", s.Cfg.String(), lv.max, len(all), decided, overlapped, snapOK, examined)
	res.Nontrivial = decided >= 40 && lv.max >= 50 && overlapped >= 5
	res.Sample = map[string]any{"cfg": s.Cfg.String(), "variant": "live", "run_ms": s.RunMs, "monitor": mon.String(), "replica_monitor": rmon.String(),
		"commits": commits.Load(), "txids": lv.max, "restore_calls": len(all), "restores_decided": decided, "restores_overlapping_a_publication": overlapped,
		"snapshots_taken": snapOK, "snapshot_files_examined": examined, "replica_at_end": summary(e.RepPath)}
	return res
}

// scan reads every level-0 file of the (static) replica: ts(n), image hashes,
// publication numbers. Returns true when the case must end (violation or harness error).
func (lv *live) scan() bool {
	e, res := lv.e, lv.res
	l0 := oracle.ListLevel(e.RepPath, 0)
	if len(l0) == 0 {
		res.HarnessErr = "history replicated nothing"
		return true
	}
	lv.max = len(l0)
	lv.ts = make([]int64, lv.max+1)
	lv.img = make([][32]byte, lv.max+1)
	lv.l0q = make([]int64, lv.max+1)
	lv.by = map[[32]byte][]int{}
	var ph *pageHasher
	for i, fi := range l0 {
		n := i + 1
		if fi.Min != fi.Max {
			res.Violate("l0-file-invalid", "level-0 file %s covers more than one TXID", fi)
			return true
		}
		if fi.Max != n {
			res.Violate("l0-file-invalid", "level-0 files are not contiguous although nothing is ever removed in this variant: file #%d is %s", n, fi)
			return true
		}
		lf, err := oracle.DecodeLTX(fi.Path)
		if err != nil {
			res.Violate("l0-file-invalid", "decode %s: %v", fi, err)
			return true
		}
		if int(lf.Hdr.MinTXID) != n || int(lf.Hdr.MaxTXID) != n {
			res.Violate("l0-file-invalid", "%s: header says %d-%d", fi, lf.Hdr.MinTXID, lf.Hdr.MaxTXID)
			return true
		}
		if ph == nil {
			if int(lf.Hdr.PageSize) != lv.s.Cfg.PageSize {
				res.HarnessErr = fmt.Sprintf("level-0 file 1 has page size %d, configured %d", lf.Hdr.PageSize, lv.s.Cfg.PageSize)
				return true
			}
			ph = newPageHasher(lf.Hdr.PageSize)
		}
		lv.ts[n] = lf.Hdr.Timestamp
		if n > 1 && lv.ts[n] < lv.ts[n-1] {
			res.HarnessErr = fmt.Sprintf("recorded timestamps decrease: ts(%d)=%d ts(%d)=%d (clock stepped)", n-1, lv.ts[n-1], n, lv.ts[n])
			return true
		}
		if n > 1 && lv.ts[n] == lv.ts[n-1] {
			res.Count("neighbouring_txids_sharing_a_millisecond", 1)
		}
		ph.apply(lf)
		h, err := ph.sum()
		if err != nil {
			res.Violate("l0-image-incomplete", "image %d: %v", n, err)
			return true
		}
		lv.img[n] = h
		lv.by[h] = append(lv.by[h], n)
		lv.l0q[n] = neverPublished
		if rec := lv.pub.pubs[pubKey{0, n, n}]; rec != nil {
			lv.l0q[n] = rec.seq
			if rec.times > 1 {
				lv.dupN++
			}
		}
	}
	return false
}

// exp = largest n with ts(m) < T for all m <= n (timestamps are non-decreasing).
func (lv *live) exp(T int64) int {
	return sort.Search(lv.max, func(i int) bool { return lv.ts[i+1] >= T })
}

// available = largest m such that every level-0 file 1..m was replicated before
// T AND its publication had completed before the restore call started.
func (lv *live) available(T, startSeq int64) int {
	m := 0
	for n := 1; n <= lv.max && lv.ts[n] < T && lv.l0q[n] <= startSeq; n++ {
		m = n
	}
	return m
}

// decide applies the oracle to one recorded restore. static: the replica did
// not change during the call and every level-0 file is present, so the result
// must be precisely the last transaction replicated before T.
func (lv *live) decide(what string, r *liveRestore, static bool) (decided bool) {
	res := lv.res
	exp := lv.exp(r.T)
	avail := exp
	if !static {
		avail = lv.available(r.T, r.startSeq)
	}
	where := fmt.Sprintf("%s T=%d (ts(1)=%d ts(%d)=%d; %d TXIDs replicated before T, level-0 files 1..%d of them completely published before the call started; publications %d at start, %d at return; call started at wall clock %d)",
		what, r.T, lv.ts[1], lv.max, lv.ts[lv.max], exp, avail, r.startSeq, r.endSeq, r.startMs)
	if !r.ok {
		if len(r.err) > 8 && r.err[:8] == "harness:" {
			res.HarnessErr = r.err
			return false
		}
		switch {
		case avail == 0:
			res.Evals++
			res.Count("live_T_before_anything_available_fails", 1)
			return true
		case static:
			res.Evals++
			res.Violate("ts-restore-failed-although-state-available", "%s: fails although TXID %d was replicated before T and every level-0 file is present: %s", where, exp, r.err)
			return true
		default:
			// counted, not a verdict: whether a restore may fail while files are being
			// added is outside this property
			res.Count("ts-restore-failed-although-state-available", 1)
			lv.e.Logf("%s -> error %s", where, r.err)
			return false
		}
	}
	res.Evals++
	match := lv.by[r.hash]
	var before []int
	for _, n := range match {
		if lv.ts[n] < r.T {
			before = append(before, n)
		}
	}
	lv.e.Logf("%s -> state of TXID %v", where, match)
	switch {
	case len(match) == 0:
		res.Violate("ts-restore-not-a-replicated-state", "%s: output (%d bytes, whole pages: %v) equals the image of no TXID 1..%d", where, r.size, r.wholePgs, lv.max)
		return true
	case len(before) == 0:
		n := match[0]
		hint := ""
		for _, m := range match {
			if S, ok := lv.snapS[m]; ok && S < lv.ts[m] {
				hint += fmt.Sprintf("; level-9 file 1-%d on the replica carries header time %d, %d ms before ts(%d)", m, S, lv.ts[m]-S, m)
			}
		}
		res.Violate("ts-restore-includes-later-transaction", "%s: output is the state of TXID %v; TXID %d was replicated at %d >= T (%d ms after T), the newest transaction replicated before T is TXID %d at %d%s",
			where, match, n, lv.ts[n], lv.ts[n]-r.T, exp, lv.tsOr0(exp), hint)
		return true
	case before[len(before)-1] < avail:
		key := "ts-restore-older-than-available"
		if static {
			key = "ts-restore-not-the-last-transaction-before-T"
		}
		if lv.dupN > 0 && !static {
			res.Count(key+"(not judged: a level-0 file was published twice)", 1)
			return false
		}
		res.Violate(key, "%s: output is the state of TXID %v (ts %d) although TXID %d (ts %d) was replicated before T and available", where, match, lv.ts[before[len(before)-1]], avail, lv.ts[avail])
		return true
	}
	res.Count("live_restores_matching_a_state_before_T", 1)
	if before[len(before)-1] > avail {
		res.Count("live_restores_newer_than_what_was_available_at_call_start", 1)
	}
	return true
}

func (lv *live) tsOr0(n int) int64 {
	if n < 1 || n > lv.max {
		return 0
	}
	return lv.ts[n]
}

// readSnapshots reads the header time S of every level-9 file 1..N left on the
// replica. Returns true when the case must end.
func (lv *live) readSnapshots() bool {
	e, res := lv.e, lv.res
	lv.snapS = map[int]int64{}
	for _, f := range oracle.ListLevel(e.RepPath, 9) {
		fh, err := os.Open(f.Path)
		if err != nil {
			res.HarnessErr = "open snapshot: " + err.Error()
			return true
		}
		dec := ltx.NewDecoder(fh)
		err = dec.DecodeHeader()
		fh.Close()
		if err != nil {
			res.Violate("snapshot-invalid", "%s: %v", f, err)
			return true
		}
		hd := dec.Header()
		if int(hd.MaxTXID) != f.Max || f.Min != 1 || int(hd.MinTXID) != 1 || f.Max > lv.max {
			res.Violate("snapshot-invalid", "%s: header says %d-%d, level-0 files reach %d", f, hd.MinTXID, hd.MaxTXID, lv.max)
			return true
		}
		lv.snapFiles = append(lv.snapFiles, liveSnapFile{f, hd.Timestamp})
		lv.snapS[f.Max] = hd.Timestamp
	}
	return false
}

// checkSnapshots: S < ts(N) alone is only counted; the verdict comes from
// restores run now (static replica, plain client) at T = ts(N), S+1ms and S.
func (lv *live) checkSnapshots() int {
	e, res := lv.e, lv.res
	var early, other []liveSnapFile
	for _, sf := range lv.snapFiles {
		switch {
		case sf.S < lv.ts[sf.Max]:
			res.Count("live_snapshots_stamped_before_their_newest_txid", 1)
			early = append(early, sf)
		case sf.S == lv.ts[sf.Max]:
			res.Count("snapshots_sharing_the_millisecond_of_their_newest_txid", 1)
			other = append(other, sf)
		default:
			other = append(other, sf)
		}
	}
	res.Count("live_snapshot_files_examined", len(lv.snapFiles))
	if len(early) > 8 {
		early = early[:8]
	}
	lv.e.Rng.Shuffle(len(other), func(i, j int) { other[i], other[j] = other[j], other[i] })
	if len(other) > 12 {
		other = other[:12]
	}
	rr := e.ReadReplica()
	q := lv.pub.seq.Load()
	nv := len(res.Violations)
	for _, sf := range append(early, other...) {
		for _, T := range []int64{lv.ts[sf.Max], sf.S + 1, sf.S} {
			opt := litestream.NewRestoreOptions()
			opt.Timestamp = time.UnixMilli(T).UTC()
			rec := liveRestore{who: -1, kind: "static", T: T, startMs: time.Now().UnixMilli(), startSeq: q, endSeq: q}
			got, err := hist.RestoreBytes(e.Ctx, rr, e.Dir, opt)
			if err != nil {
				rec.err = err.Error()
			} else {
				rec.ok, rec.size = true, len(got)
				rec.hash, rec.wholePgs = hashImage(got, uint32(lv.s.Cfg.PageSize))
			}
			lv.decide(fmt.Sprintf("restore on the static replica around snapshot %s (header time %d, ts(%d)=%d)", sf.FileRef, sf.S, sf.Max, lv.ts[sf.Max]), &rec, true)
			res.Count("live_static_restores_around_snapshot_stamps", 1)
			if len(res.Violations) > nv || res.HarnessErr != "" {
				return len(lv.snapFiles)
			}
		}
	}
	return len(lv.snapFiles)
}
