// Package c08: restore plans are valid chains and are found whenever one
// exists (DESIGN §4 C08). litestream.CalcRestorePlan is driven directly with an
// in-memory ReplicaClient that only lists files; every answer is judged by the
// independent brute-force reachability oracle O-PLAN (oracle.go).
package c08

import (
	"context"
	"encoding/binary"
	"encoding/json"
	"errors"
	"fmt"
	"hash/fnv"
	"io"
	"log/slog"
	"math/rand"
	"os"
	"path/filepath"
	"runtime"
	"runtime/debug"
	"sort"
	"strings"
	"time"

	"github.com/benbjohnson/litestream"
	"github.com/superfly/ltx"

	"verif/harness/internal/vf"
)

type spec struct {
	Kind string `json:"kind"` // selftest | exh | rand
	// exh: subsets (size 0..MaxFiles) of the universe over TXIDs 1..N whose
	// enumeration index is congruent to Offset modulo Stride; createdAt vectors
	// {1..Times}^n plus the natural vector.
	N        int `json:"n,omitempty"`
	MaxFiles int `json:"max_files,omitempty"`
	Times    int `json:"times,omitempty"`
	Stride   int `json:"stride,omitempty"`
	Offset   int `json:"offset,omitempty"`
	// rand
	Seed int64 `json:"seed,omitempty"`
	Sets int   `json:"sets,omitempty"`
}

// sub-spaces that a tier enumerates completely
type subspace struct{ N, MaxFiles, Times, Stride int }

func subspaces(tier string) []subspace {
	if tier == "thorough" {
		return []subspace{{3, 5, 4, 48}, {4, 5, 2, 160}}
	}
	return []subspace{{3, 5, 4, 64}}
}

func randomPlan(tier string) (cases, setsPerCase int) {
	if tier == "thorough" {
		return 200, 1000
	}
	return 50, 1000
}

func init() {
	vf.Register(&vf.Check{
		ID:    "C08",
		Level: "exploration",
		Rule: "CalcRestorePlan is called on in-memory listings (sorted by level, MinTXID, MaxTXID like the real iterators). " +
			"EXHAUSTIVE sub-space (quick and thorough): every subset of 0..5 files out of the 18 possible files over TXIDs 1..3 (level 0: n..n; levels 1 and 2: every range a..b; level 9: 1..b) x every createdAt vector in {1,2,3,4}^n plus the 'natural' vector (level-0 file n at time 2n, compacted file a..b inherits 2b, snapshot 1..b at 2b+1) x every request {TXID 1..3, latest, latest before T for every T from 1 to one past the largest time}; " +
			"thorough additionally exhausts TXIDs 1..4 (28 possible files, subsets of 0..5, createdAt in {1,2}^n plus natural). " +
			"Seeded random sets (3..8 TXIDs, 1..14 files, structured and unstructured, arbitrary createdAt) get every request as well. One evaluation = one planner call judged by O-PLAN. " +
			"distinct = the file set (level,min,max,createdAt of every file); non-trivial = some request has a valid chain AND some request must fail because of a gap / missing chain start although a file ending at the requested TXID or lying beyond the chain end is present, or a timestamp removes a needed file (latest-before-T has eligible files but ends lower than latest). " +
			"distinct_nontrivial is counted: exhaustive sets are distinct by construction, random sets are deduplicated by hash and sets lying inside an exhausted sub-space are not counted twice",
		Assumptions: []string{
			"only the listing interface of ReplicaClient is exercised (LTXFiles with seek honoured as by the file client); snapshots always start at TXID 1 as litestream writes them",
			"for a timestamp request the statement's gap clause is not demanded (it speaks of the latest state); such requests stopping before eligible files beyond a gap are only counted",
		},
		Cases:       cases,
		RunCase:     runCase,
		Finish:      finish,
		MinEvals:    500000,
		CaseTimeout: 20 * time.Minute,
		Exhaustive:  true,
	})
}

func cases(run *vf.Run) ([]json.RawMessage, error) {
	var out []json.RawMessage
	out = append(out, vf.Spec(spec{Kind: "selftest"}))
	for _, sp := range subspaces(run.Tier) {
		for o := 0; o < sp.Stride; o++ {
			out = append(out, vf.Spec(spec{Kind: "exh", N: sp.N, MaxFiles: sp.MaxFiles, Times: sp.Times, Stride: sp.Stride, Offset: o}))
		}
	}
	nc, per := randomPlan(run.Tier)
	for i := 0; i < nc; i++ {
		out = append(out, vf.Spec(spec{Kind: "rand", Seed: vf.SubSeed(run.Seed, "C08-rand", i), Sets: per}))
	}
	return out, nil
}

// ---------------------------------------------------------------------------
// in-memory listing client

var base = time.Unix(1700000000, 0).UTC()

func at(t int) time.Time { return base.Add(time.Duration(t) * time.Second) }

// memClient keeps one slice per level. ltx.NewFileInfoSliceIterator sorts the
// slice it is given in place and then only re-slices its own header, so the
// same backing array can be handed out for every listing (single goroutine).
type memClient struct {
	byLevel [litestream.SnapshotLevel + 1][]*ltx.FileInfo
}

func (c *memClient) Type() string                    { return "mem" }
func (c *memClient) Init(context.Context) error      { return nil }
func (c *memClient) SetLogger(*slog.Logger)          {}
func (c *memClient) DeleteAll(context.Context) error { return errors.New("read-only") }
func (c *memClient) DeleteLTXFiles(context.Context, []*ltx.FileInfo) error {
	return errors.New("read-only")
}
func (c *memClient) OpenLTXFile(context.Context, int, ltx.TXID, ltx.TXID, int64, int64) (io.ReadCloser, error) {
	return nil, os.ErrNotExist
}
func (c *memClient) WriteLTXFile(context.Context, int, ltx.TXID, ltx.TXID, io.Reader) (*ltx.FileInfo, error) {
	return nil, errors.New("read-only")
}

// LTXFiles lists one level the way file.ReplicaClient does: entries below seek
// are dropped and ltx.NewFileInfoSliceIterator sorts by (level, min, max).
func (c *memClient) LTXFiles(_ context.Context, level int, seek ltx.TXID, _ bool) (ltx.FileIterator, error) {
	if level < 0 || level >= len(c.byLevel) {
		return ltx.NewFileInfoSliceIterator(nil), nil
	}
	if seek == 0 {
		return ltx.NewFileInfoSliceIterator(c.byLevel[level]), nil
	}
	var a []*ltx.FileInfo
	for _, f := range c.byLevel[level] {
		if f.MinTXID >= seek {
			a = append(a, f)
		}
	}
	return ltx.NewFileInfoSliceIterator(a), nil
}

func newClient(fs []F) *memClient {
	c := &memClient{}
	infos := make([]ltx.FileInfo, len(fs))
	// listing order must not matter (Readdir order is arbitrary): hand the
	// files over in reverse so the iterator's sort does the work
	for i := len(fs) - 1; i >= 0; i-- {
		f := fs[i]
		infos[i] = ltx.FileInfo{Level: f.L, MinTXID: ltx.TXID(f.Min), MaxTXID: ltx.TXID(f.Max), Size: 1000, CreatedAt: at(f.T)}
		c.byLevel[f.L] = append(c.byLevel[f.L], &infos[i])
	}
	return c
}

// ---------------------------------------------------------------------------
// evaluation of one file set

// counters of the hot path (one planner call each); names in hotNames
const (
	hCalls = iota
	hViolation
	hExpErrTXID
	hExpErrNoChain
	hExpErrGap
	hPlanTXID
	hPlanLatest
	hPlanTimestamp
	hErrTxNotAvailable
	hErrNonContiguous
	hErrOther
	hPlan3
	hPlanMixed
	hTsBeyondGap
	nHot
)

var hotNames = [nHot]string{"planner_calls", "outcome_violation", "outcome_expected_error_txid_unreachable", "outcome_expected_error_no_chain",
	"outcome_expected_error_gap_reported", "outcome_plan_to_txid", "outcome_plan_to_latest", "outcome_plan_before_timestamp",
	"error_is_ErrTxNotAvailable", "error_is_non_contiguous", "error_other", "plans_with_3_or_more_files", "plans_mixing_levels",
	"info_timestamp_request_with_eligible_files_beyond_a_gap"}

type evaluator struct {
	res     *vf.Result
	hot     [nHot]int
	logger  *slog.Logger
	cnt     map[string]int
	perKey  map[string]int
	example map[string]any
}

func newEvaluator(res *vf.Result) *evaluator {
	return &evaluator{res: res, logger: slog.New(slog.DiscardHandler), cnt: map[string]int{}, perKey: map[string]int{}}
}

func (e *evaluator) flush() {
	for i, n := range e.hot {
		if n > 0 {
			e.res.Count(hotNames[i], n)
		}
	}
	for k, n := range e.cnt {
		e.res.Count(k, n)
	}
}

func setString(fs []F) string {
	a := append([]F(nil), fs...)
	sort.Slice(a, func(i, j int) bool {
		if a[i].L != a[j].L {
			return a[i].L < a[j].L
		}
		if a[i].Min != a[j].Min {
			return a[i].Min < a[j].Min
		}
		return a[i].Max < a[j].Max
	})
	var sb strings.Builder
	for i, f := range a {
		if i > 0 {
			sb.WriteByte(' ')
		}
		fmt.Fprintf(&sb, "L%d:%d-%d@%d", f.L, f.Min, f.Max, f.T)
	}
	return sb.String()
}

func setHash(fs []F) uint64 {
	h := fnv.New64a()
	io.WriteString(h, setString(fs))
	return h.Sum64()
}

func planString(plan []*ltx.FileInfo) string {
	var sb strings.Builder
	for i, p := range plan {
		if i > 0 {
			sb.WriteByte(' ')
		}
		if p == nil {
			sb.WriteString("<nil>")
			continue
		}
		fmt.Fprintf(&sb, "L%d:%d-%d@%d", p.Level, p.MinTXID, p.MaxTXID, int(p.CreatedAt.Sub(base)/time.Second))
	}
	return "[" + sb.String() + "]"
}

// evalSet issues every request against the set and judges each answer.
// maxTXID bounds the TXID targets, tvals are the timestamps to ask for.
// It reports whether the set is non-trivial by the rule in Check.Rule.
func (e *evaluator) evalSet(fs []F, maxTXID int, tvals []int) bool {
	client := newClient(fs)
	ctx := context.Background()
	succ, gapFail, tsEffect := false, false, false
	latestReach := 0
	do := func(rq request) {
		var ts time.Time
		if rq.T != 0 {
			ts = at(rq.T)
		}
		plan, err := litestream.CalcRestorePlan(ctx, client, ltx.TXID(rq.TXID), ts, e.logger)
		e.res.Evals++
		var v verdict
		judge(&v, fs, rq, plan, err)
		e.hot[hCalls]++
		e.hot[v.class]++
		if err != nil {
			switch {
			case errors.Is(err, litestream.ErrTxNotAvailable):
				e.hot[hErrTxNotAvailable]++
			case strings.Contains(err.Error(), "non-contiguous"):
				e.hot[hErrNonContiguous]++
			default:
				e.hot[hErrOther]++
			}
		} else {
			if len(plan) >= 3 {
				e.hot[hPlan3]++
			}
			lv := 0
			for _, p := range plan {
				if p != nil {
					lv |= 1 << uint(p.Level&15)
				}
			}
			if lv&(lv-1) != 0 {
				e.hot[hPlanMixed]++
			}
		}
		if v.mustSucceed {
			succ = true
		}
		if v.gapFail {
			gapFail = true
		}
		if rq.TXID == 0 && rq.T == 0 {
			latestReach = v.maxReach
		}
		if rq.TXID == 0 && rq.T != 0 {
			if v.eligible > 0 && v.maxReach < latestReach {
				tsEffect = true
			}
			if v.beyond && v.maxReach > 0 {
				e.hot[hTsBeyondGap]++
			}
		}
		if v.key != "" {
			e.perKey[v.key]++
			e.cnt["violation_witnesses"]++
			if e.perKey[v.key] <= 3 {
				e.res.Logf("set {%s} request txid=%d T=%d -> plan=%s err=%v ; oracle: reachable=%v maxReach=%d eligible=%d beyond=%v", setString(fs), rq.TXID, rq.T, planString(plan), err, reachList(v.reach), v.maxReach, v.eligible, v.beyond)
				e.res.Violate(v.key, "files {%s}, request (TXID=%d, T=%d): %s; planner returned plan=%s err=%v", setString(fs), rq.TXID, rq.T, v.msg, planString(plan), err)
			}
		} else if e.example == nil && err == nil && len(plan) >= 3 {
			e.example = map[string]any{"files": setString(fs), "request_txid": rq.TXID, "request_T": rq.T, "plan": planString(plan)}
		}
	}
	// latest first: the timestamp requests compare against it
	do(request{})
	for t := 1; t <= maxTXID; t++ {
		do(request{TXID: t})
	}
	for _, T := range tvals {
		do(request{T: T})
	}
	return succ && (gapFail || tsEffect)
}

func reachList(m uint64) []int {
	var a []int
	for t := 1; t < 64; t++ {
		if m&(1<<uint(t)) != 0 {
			a = append(a, t)
		}
	}
	return a
}

// ---------------------------------------------------------------------------
// exhaustive enumeration

func universe(n int) []F {
	var u []F
	for i := 1; i <= n; i++ {
		u = append(u, F{L: 0, Min: i, Max: i})
	}
	for _, lvl := range []int{1, 2} {
		for a := 1; a <= n; a++ {
			for b := a; b <= n; b++ {
				u = append(u, F{L: lvl, Min: a, Max: b})
			}
		}
	}
	for b := 1; b <= n; b++ {
		u = append(u, F{L: litestream.SnapshotLevel, Min: 1, Max: b})
	}
	return u
}

func naturalTime(f F) int {
	if f.L == litestream.SnapshotLevel {
		return 2*f.Max + 1
	}
	return 2 * f.Max
}

func seq(from, to int) []int {
	var a []int
	for i := from; i <= to; i++ {
		a = append(a, i)
	}
	return a
}

func binom(n, k int) int64 {
	r := int64(1)
	for i := 1; i <= k; i++ {
		r = r * int64(n-k+i) / int64(i)
	}
	return r
}

func ipow(b, e int) int64 {
	r := int64(1)
	for i := 0; i < e; i++ {
		r *= int64(b)
	}
	return r
}

// expected number of (subset, createdAt vector) pairs and planner calls of a sub-space
func (sp subspace) expected() (subsets, sets, calls int64) {
	u := len(universe(sp.N))
	for k := 0; k <= sp.MaxFiles; k++ {
		c := binom(u, k)
		subsets += c
		sets += c * (ipow(sp.Times, k) + 1)
		calls += c * (ipow(sp.Times, k)*int64(1+sp.N+sp.Times+1) + int64(1+sp.N+2*sp.N+2))
	}
	return
}

func (sp subspace) tag() string {
	return fmt.Sprintf("N%d_le%dfiles_times%d", sp.N, sp.MaxFiles, sp.Times)
}

func runExh(s spec, e *evaluator) {
	uni := universe(s.N)
	tag := subspace{s.N, s.MaxFiles, s.Times, s.Stride}.tag()
	tv := seq(1, s.Times+1)
	tvNat := seq(1, 2*s.N+2)
	idx := 0
	cur := make([]F, 0, s.MaxFiles)
	visit := func() {
		n := len(cur)
		fs := make([]F, n)
		copy(fs, cur)
		e.cnt["exh_subsets_"+tag]++
		// every createdAt vector in {1..Times}^n (odometer)
		for i := range fs {
			fs[i].T = 1
		}
		for {
			e.cnt["exh_sets_"+tag]++
			if e.evalSet(fs, s.N, tv) {
				e.cnt["exh_nontrivial_sets_"+tag]++
			}
			i := 0
			for i < n {
				fs[i].T++
				if fs[i].T <= s.Times {
					break
				}
				fs[i].T = 1
				i++
			}
			if i == n {
				break
			}
		}
		// the natural vector (compacted files inherit the newest input's time)
		for i := range fs {
			fs[i].T = naturalTime(fs[i])
		}
		e.cnt["exh_sets_"+tag]++
		e.cnt["exh_natural_sets_"+tag]++
		if e.evalSet(fs, s.N, tvNat) {
			e.cnt["exh_nontrivial_sets_"+tag]++
		}
	}
	var rec func(start int)
	rec = func(start int) {
		if idx%s.Stride == s.Offset {
			visit()
		}
		idx++
		if len(cur) == s.MaxFiles {
			return
		}
		for i := start; i < len(uni); i++ {
			cur = append(cur, uni[i])
			rec(i + 1)
			cur = cur[:len(cur)-1]
		}
	}
	rec(0)
}

// inExhausted reports whether a set lies inside a sub-space the tier enumerates completely.
func inExhausted(tier string, fs []F) bool {
	for _, sp := range subspaces(tier) {
		if len(fs) > sp.MaxFiles {
			continue
		}
		inTimes, natural, inTX := true, true, true
		for _, f := range fs {
			if f.Max > sp.N {
				inTX = false
			}
			if f.T < 1 || f.T > sp.Times {
				inTimes = false
			}
			if f.T != naturalTime(f) {
				natural = false
			}
		}
		if inTX && (inTimes || natural) {
			return true
		}
	}
	return false
}

// ---------------------------------------------------------------------------
// random sets

func randomSet(rng *rand.Rand) (fs []F, n int) {
	n = 3 + rng.Intn(6)
	used := map[[3]int]bool{}
	add := func(l, a, b, t int) {
		k := [3]int{l, a, b}
		if used[k] || len(fs) >= 14 {
			return
		}
		used[k] = true
		fs = append(fs, F{L: l, Min: a, Max: b, T: t})
	}
	if rng.Intn(2) == 0 {
		// unstructured
		k := 1 + rng.Intn(14)
		for j := 0; j < k; j++ {
			lvl := []int{0, 0, 0, 1, 1, 2, 9}[rng.Intn(7)]
			a := 1 + rng.Intn(n)
			b := a + rng.Intn(n-a+1)
			if lvl == 0 {
				b = a
			}
			if lvl == 9 {
				a = 1
			}
			add(lvl, a, b, 1+rng.Intn(n+2))
		}
		return fs, n
	}
	// structured: what a replica looks like after syncs, compactions, snapshots
	// and retention, with a few files knocked out and times perturbed
	tOf := func(b int, snap bool) int {
		t := 2 * b
		if snap {
			t++
		}
		if rng.Intn(6) == 0 {
			t = 1 + rng.Intn(2*n+2)
		}
		return t
	}
	lo := 1 + rng.Intn(n) // retention removed level-0 files below lo
	for i := lo; i <= n; i++ {
		if rng.Intn(8) != 0 {
			add(0, i, i, tOf(i, false))
		}
	}
	for _, lvl := range []int{1, 2} {
		a := 1
		if rng.Intn(3) == 0 {
			a = 1 + rng.Intn(n)
		}
		for a <= n {
			b := a + rng.Intn(3)
			if b > n {
				b = n
			}
			if rng.Intn(5) != 0 {
				add(lvl, a, b, tOf(b, false))
			}
			a = b + 1
			if rng.Intn(6) == 0 {
				a++ // hole inside the level
			}
		}
	}
	for j := rng.Intn(3); j > 0; j-- {
		b := 1 + rng.Intn(n)
		add(9, 1, b, tOf(b, true))
	}
	if len(fs) == 0 {
		add(0, 1, 1, 2)
	}
	return fs, n
}

func runRand(run *vf.Run, s spec, e *evaluator) error {
	rng := rand.New(rand.NewSource(s.Seed))
	seen := map[uint64]bool{}
	var sigs []byte
	for i := 0; i < s.Sets; i++ {
		fs, n := randomSet(rng)
		maxT := 0
		for _, f := range fs {
			if f.T > maxT {
				maxT = f.T
			}
		}
		e.cnt["random_sets"]++
		e.cnt[fmt.Sprintf("random_sets_%02d_files", len(fs))]++
		nt := e.evalSet(fs, n, seq(1, maxT+1))
		h := setHash(fs)
		if nt && !seen[h] {
			seen[h] = true
			if inExhausted(run.Tier, fs) {
				e.cnt["random_nontrivial_sets_inside_exhausted_subspace"]++
				continue
			}
			sigs = binary.LittleEndian.AppendUint64(sigs, h)
		}
	}
	// signatures of non-trivial sets go to the run's scratch directory; finish() merges them
	return os.WriteFile(filepath.Join(run.Scratch, fmt.Sprintf("c08-sigs-%d.bin", s.Seed)), sigs, 0o644)
}

// ---------------------------------------------------------------------------

func runCase(run *vf.Run, raw json.RawMessage, dir string) *vf.Result {
	var s spec
	res := &vf.Result{}
	if err := json.Unmarshal(raw, &s); err != nil {
		res.HarnessErr = err.Error()
		return res
	}
	// one compute-bound goroutine per worker process: keep the collector from
	// fanning out over all cores of a busy machine
	runtime.GOMAXPROCS(1)
	debug.SetGCPercent(200)
	e := newEvaluator(res)
	switch s.Kind {
	case "selftest":
		if msg := selfTest(e); msg != "" {
			res.HarnessErr = "O-PLAN self-test: " + msg
		}
		res.Sample = map[string]any{"kind": "selftest", "what": "hand-worked cases of TestReplica_CalcRestorePlan and gap cases: oracle answers asserted, planner judged"}
	case "exh":
		runExh(s, e)
		sp := subspace{s.N, s.MaxFiles, s.Times, s.Stride}
		res.Sample = map[string]any{"kind": "exh", "subspace": sp.tag(), "part": fmt.Sprintf("%d/%d", s.Offset, s.Stride), "subsets": e.cnt["exh_subsets_"+sp.tag()], "sets": e.cnt["exh_sets_"+sp.tag()], "nontrivial_sets": e.cnt["exh_nontrivial_sets_"+sp.tag()], "example": e.example}
		res.Nontrivial = e.cnt["exh_nontrivial_sets_"+sp.tag()] > 0
	case "rand":
		if err := runRand(run, s, e); err != nil {
			res.HarnessErr = err.Error()
		}
		res.Sample = map[string]any{"kind": "rand", "sets": s.Sets, "example": e.example}
		res.Nontrivial = true
	default:
		res.HarnessErr = "unknown kind " + s.Kind
	}
	for k, n := range e.perKey {
		if n > 3 {
			res.Logf("%d further witnesses with key %s not listed", n-3, k)
		}
	}
	e.flush()
	res.Sig = fmt.Sprintf("%s-%d-%d-%d-%d-%d", s.Kind, s.N, s.Times, s.Stride, s.Offset, s.Seed)
	return res
}

func finish(run *vf.Run, results []*vf.Result, ev map[string]any) []vf.Violation {
	sum := map[string]int64{}
	for _, r := range results {
		if r == nil {
			continue
		}
		for k, n := range r.Counters {
			sum[k] += int64(n)
		}
	}
	complete := true
	var spaces []map[string]any
	distinct := int64(0)
	for _, sp := range subspaces(run.Tier) {
		subsets, sets, calls := sp.expected()
		gotSubsets, gotSets := sum["exh_subsets_"+sp.tag()], sum["exh_sets_"+sp.tag()]
		ok := gotSubsets == subsets && gotSets == sets
		if !ok {
			complete = false
		}
		distinct += sum["exh_nontrivial_sets_"+sp.tag()]
		spaces = append(spaces, map[string]any{
			"txids": sp.N, "possible_files": len(universe(sp.N)), "max_files": sp.MaxFiles,
			"created_at_values": sp.Times, "subsets_expected": subsets, "subsets_enumerated": gotSubsets,
			"file_sets_expected": sets, "file_sets_enumerated": gotSets, "planner_calls_expected": calls,
			"nontrivial_sets": sum["exh_nontrivial_sets_"+sp.tag()], "complete": ok,
		})
	}
	// random sets: distinct non-trivial signatures outside the exhausted sub-spaces
	seen := map[uint64]bool{}
	files, _ := filepath.Glob(filepath.Join(run.Scratch, "c08-sigs-*.bin"))
	for _, f := range files {
		b, err := os.ReadFile(f)
		if err != nil {
			continue
		}
		for i := 0; i+8 <= len(b); i += 8 {
			seen[binary.LittleEndian.Uint64(b[i:])] = true
		}
	}
	ev["exhaustive_subspaces"] = spaces
	ev["exhaustive"] = complete
	if !complete {
		ev["exhaustive_note"] = "a part of the declared sub-space was not enumerated (case died or timed out)"
	}
	ev["distinct_nontrivial"] = distinct + int64(len(seen))
	ev["distinct_nontrivial_exhaustive_sets"] = distinct
	ev["distinct_nontrivial_random_sets"] = len(seen)
	fmt.Printf("C08: exhaustive sub-spaces complete=%v; distinct non-trivial file sets: %d exhaustive + %d random = %d\n", complete, distinct, len(seen), distinct+int64(len(seen)))
	return nil
}
