// private development binary for C03/C11 (deleted when the checks are registered)
package main

import (
	"io"
	"log/slog"
	"os"

	"verif/harness/internal/vf"

	_ "verif/harness/internal/c03"
)

func main() {
	slog.SetDefault(slog.New(slog.NewTextHandler(io.Discard, nil)))
	os.Exit(vf.Main(os.Args[1:]))
}
