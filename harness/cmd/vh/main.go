// vh is the harness binary: driver, batch worker, victims.
package main

import (
	"io"
	"log/slog"
	"os"

	"verif/harness/internal/vf"

	_ "verif/harness/internal/c01"
)

func main() {
	slog.SetDefault(slog.New(slog.NewTextHandler(io.Discard, nil)))
	os.Exit(vf.Main(os.Args[1:]))
}
