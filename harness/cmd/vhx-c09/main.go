// private development binary for C09
package main

import (
	"io"
	"log/slog"
	"os"

	"verif/harness/internal/vf"

	_ "verif/harness/internal/c09"
)

func main() {
	slog.SetDefault(slog.New(slog.NewTextHandler(io.Discard, nil)))
	os.Exit(vf.Main(os.Args[1:]))
}
