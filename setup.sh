#!/bin/bash
# Run once after a fresh restore (offline): builds the supervisor and the harness variants.
set -eu
here="$(cd "$(dirname "$0")" && pwd)"
cd "$here"
mkdir -p bin evidence replays
if [ -f ptsup/ptsup.c ]; then gcc -O2 -o bin/ptsup ptsup/ptsup.c; fi
if [ -f ptsup/lockprobe.c ]; then gcc -O2 -o bin/lockprobe ptsup/lockprobe.c; fi
./build.sh std
./build.sh race || echo "race variant failed to build" >&2
./build.sh vfs || echo "vfs variant failed to build" >&2
