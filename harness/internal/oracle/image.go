package oracle

import (
	"bytes"
	"encoding/binary"
	"fmt"
	"os"
	"path/filepath"

	"verif/harness/internal/sq"
)

// PageSizeOf reads the page size from a database image header.
func PageSizeOf(img []byte) int {
	if len(img) < 100 {
		return 0
	}
	ps := int(binary.BigEndian.Uint16(img[16:18]))
	if ps == 1 {
		ps = 65536
	}
	return ps
}

// CompareMasked implements the O-SRC comparison: src is the committed source
// image, got the restored file. Masked (both sides): page 1 bytes 24..27
// (change counter) and 92..99 (version-valid-for, library version), and the
// root page of _litestream_seq provided both sides agree on which page that
// is. The seq value restored must not exceed the source's.
func CompareMasked(src, got []byte, scratch string) error {
	if len(got) != len(src) {
		return fmt.Errorf("size differs: source %d bytes, restored %d bytes", len(src), len(got))
	}
	ps := PageSizeOf(src)
	if ps == 0 || len(src)%ps != 0 {
		return fmt.Errorf("source image has odd size %d for page size %d", len(src), ps)
	}
	sp := filepath.Join(scratch, "cmp-src")
	gp := filepath.Join(scratch, "cmp-got")
	if err := os.WriteFile(sp, src, 0o644); err != nil {
		return err
	}
	defer os.Remove(sp)
	if err := os.WriteFile(gp, got, 0o644); err != nil {
		return err
	}
	defer os.Remove(gp)
	r1, s1, n1, err1 := sq.SeqInfo(sp)
	r2, s2, n2, err2 := sq.SeqInfo(gp)
	if err1 != nil {
		return fmt.Errorf("harness: reading source seq: %w", err1)
	}
	if err2 != nil {
		return fmt.Errorf("restored database unreadable: %w", err2)
	}
	if r1 != r2 {
		return fmt.Errorf("_litestream_seq root page differs: source %d restored %d", r1, r2)
	}
	if s2 > s1 || n2 > n1 {
		return fmt.Errorf("_litestream_seq restored (rows=%d seq=%d) is ahead of source (rows=%d seq=%d)", n2, s2, n1, s1)
	}
	var bad []string
	for pg := 0; pg < len(src)/ps; pg++ {
		a := src[pg*ps : (pg+1)*ps]
		b := got[pg*ps : (pg+1)*ps]
		if pg+1 == r1 && r1 != 0 {
			continue
		}
		if bytes.Equal(a, b) {
			continue
		}
		if pg == 0 {
			aa := append([]byte{}, a...)
			bb := append([]byte{}, b...)
			for _, r := range [][2]int{{24, 28}, {92, 100}} {
				for i := r[0]; i < r[1]; i++ {
					aa[i], bb[i] = 0, 0
				}
			}
			if bytes.Equal(aa, bb) {
				continue
			}
			a, b = aa, bb
		}
		off := 0
		for i := range a {
			if a[i] != b[i] {
				off = i
				break
			}
		}
		if len(bad) < 10 {
			bad = append(bad, fmt.Sprintf("page %d @%d", pg+1, off))
		}
	}
	if len(bad) > 0 {
		return fmt.Errorf("pages differ from source: %v (seq source=%d restored=%d)", bad, s1, s2)
	}
	return nil
}

// CompareFollower compares a follow-mode / VFS image with a reference,
// masking header bytes 18..19 (read/write versions) and 24..27 and 92..99.
func CompareHeaderMasked(ref, got []byte, extraMask [][2]int) error {
	if len(got) != len(ref) {
		return fmt.Errorf("size differs: reference %d bytes, got %d bytes", len(ref), len(got))
	}
	ps := PageSizeOf(ref)
	if ps == 0 {
		if len(ref) == 0 {
			return nil
		}
		return fmt.Errorf("reference image has no valid header")
	}
	var bad []string
	for pg := 0; pg < len(ref)/ps; pg++ {
		a := ref[pg*ps : (pg+1)*ps]
		b := got[pg*ps : (pg+1)*ps]
		if bytes.Equal(a, b) {
			continue
		}
		if pg == 0 {
			aa := append([]byte{}, a...)
			bb := append([]byte{}, b...)
			for _, r := range extraMask {
				for i := r[0]; i < r[1]; i++ {
					aa[i], bb[i] = 0, 0
				}
			}
			if bytes.Equal(aa, bb) {
				continue
			}
			a, b = aa, bb
		}
		off := 0
		for i := range a {
			if a[i] != b[i] {
				off = i
				break
			}
		}
		if len(bad) < 10 {
			bad = append(bad, fmt.Sprintf("page %d @%d", pg+1, off))
		}
	}
	if len(bad) > 0 {
		return fmt.Errorf("pages differ: %v", bad)
	}
	return nil
}

// ---------------------------------------------------------------------------
// O-WAL: independent reference decoder of SQLite WAL files.

type WALFrame struct {
	Index  int // 0-based frame index
	Offset int64
	Pgno   uint32
	Commit uint32 // db size after commit, 0 if not a commit frame
}

type WALInfo struct {
	PageSize   int
	BigEndian  bool
	Salt1      uint32
	Salt2      uint32
	Valid      []WALFrame // frames valid by salt+cumulative checksum, in order
	LastCommit int        // number of frames up to and including the last commit frame (SQLite's mxFrame); 0 if none
	DBSize     uint32     // commit value of last commit frame
	HeaderOK   bool
}

func walChecksum(bo binary.ByteOrder, s0, s1 uint32, b []byte) (uint32, uint32) {
	for i := 0; i+8 <= len(b); i += 8 {
		s0 += bo.Uint32(b[i:]) + s1
		s1 += bo.Uint32(b[i+4:]) + s0
	}
	return s0, s1
}

// ParseWAL decodes a WAL byte string the way SQLite's recovery does.
func ParseWAL(b []byte) *WALInfo {
	w := &WALInfo{}
	if len(b) < 32 {
		return w
	}
	magic := binary.BigEndian.Uint32(b[0:])
	var bo binary.ByteOrder
	switch magic {
	case 0x377f0682:
		bo = binary.LittleEndian
	case 0x377f0683:
		bo = binary.BigEndian
		w.BigEndian = true
	default:
		return w
	}
	if binary.BigEndian.Uint32(b[4:]) != 3007000 {
		return w
	}
	ps := int(binary.BigEndian.Uint32(b[8:]))
	if ps < 512 || ps > 65536 || ps&(ps-1) != 0 {
		return w
	}
	w.PageSize = ps
	w.Salt1 = binary.BigEndian.Uint32(b[16:])
	w.Salt2 = binary.BigEndian.Uint32(b[20:])
	c0, c1 := walChecksum(bo, 0, 0, b[:24])
	if c0 != binary.BigEndian.Uint32(b[24:]) || c1 != binary.BigEndian.Uint32(b[28:]) {
		return w
	}
	w.HeaderOK = true
	fsz := 24 + ps
	for i, off := 0, 32; off+fsz <= len(b); i, off = i+1, off+fsz {
		fh := b[off : off+24]
		pgno := binary.BigEndian.Uint32(fh[0:])
		if pgno == 0 {
			break
		}
		if binary.BigEndian.Uint32(fh[8:]) != w.Salt1 || binary.BigEndian.Uint32(fh[12:]) != w.Salt2 {
			break
		}
		c0, c1 = walChecksum(bo, c0, c1, fh[:8])
		c0, c1 = walChecksum(bo, c0, c1, b[off+24:off+fsz])
		if c0 != binary.BigEndian.Uint32(fh[16:]) || c1 != binary.BigEndian.Uint32(fh[20:]) {
			break
		}
		fr := WALFrame{Index: i, Offset: int64(off), Pgno: pgno, Commit: binary.BigEndian.Uint32(fh[4:])}
		w.Valid = append(w.Valid, fr)
		if fr.Commit != 0 {
			w.LastCommit = i + 1
			w.DBSize = fr.Commit
		}
	}
	return w
}

// CommittedPages returns the latest committed version offset of every page in
// the WAL (up to the last commit frame).
func (w *WALInfo) CommittedPages() map[uint32]int64 {
	m := map[uint32]int64{}
	for _, fr := range w.Valid {
		if fr.Index >= w.LastCommit {
			break
		}
		m[fr.Pgno] = fr.Offset
	}
	return m
}

// LiveWALFrames returns SQLite's mxFrame for the WAL file at path: the number
// of frames up to the last valid commit frame of the current generation.
func LiveWALFrames(path string) (int, error) {
	b, err := os.ReadFile(path)
	if os.IsNotExist(err) {
		return 0, nil
	} else if err != nil {
		return 0, err
	}
	return ParseWAL(b).LastCommit, nil
}
