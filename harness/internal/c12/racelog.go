package c12

import (
	"crypto/sha256"
	"fmt"
	"os"
	"path/filepath"
	"regexp"
	"sort"
	"strings"
)

const lsPkg = "github.com/benbjohnson/litestream"

// raceReport is one "WARNING: DATA RACE" block.
type raceReport struct {
	Access   [2]raceStack // the two conflicting accesses
	Raw      string
	HasLS    bool   // at least one access stack has a litestream frame
	EntryKey string // sorted pair of outermost litestream entry points
	StackKey string // hash of the line-stripped access stack pair
}

type raceStack struct {
	Kind   string   // "Write", "Previous read", ...
	Funcs  []string // innermost first, "()" stripped, no line numbers
	Entry  string   // outermost litestream function ("?" if the stack could not be restored, "-" if none)
	Inner  string   // innermost litestream function
	Lines  []string // file:line per frame (diagnostics only)
	Failed bool
}

var (
	reAccess = regexp.MustCompile(`^(Read|Write|Previous read|Previous write|Atomic read|Atomic write|Previous atomic read|Previous atomic write) at 0x[0-9a-f]+ by (main goroutine|goroutine \d+)`)
	reFrame  = regexp.MustCompile(`^  (\S.*)$`)
	reLoc    = regexp.MustCompile(`^      (\S+):(\d+)`)
)

func shortFn(fn string) string {
	fn = strings.TrimSuffix(fn, "()")
	return strings.TrimPrefix(fn, "github.com/benbjohnson/")
}

func isLS(fn string) bool { return strings.HasPrefix(fn, lsPkg) }

// parseRaceLogs reads every race.* file under dir.
func parseRaceLogs(dir string) ([]raceReport, int64, error) {
	files, _ := filepath.Glob(filepath.Join(dir, "race.*"))
	sort.Strings(files)
	var out []raceReport
	var size int64
	for _, f := range files {
		b, err := os.ReadFile(f)
		if err != nil {
			return nil, 0, err
		}
		size += int64(len(b))
		out = append(out, parseRaceText(string(b))...)
	}
	return out, size, nil
}

func parseRaceText(s string) []raceReport {
	var out []raceReport
	blocks := strings.Split(s, "==================")
	for _, blk := range blocks {
		if !strings.Contains(blk, "WARNING: DATA RACE") {
			continue
		}
		out = append(out, parseRaceBlock(blk))
	}
	return out
}

func parseRaceBlock(blk string) raceReport {
	r := raceReport{Raw: strings.TrimSpace(blk)}
	lines := strings.Split(blk, "\n")
	idx := -1
	var cur *raceStack
	for _, ln := range lines {
		if m := reAccess.FindStringSubmatch(ln); m != nil {
			idx++
			if idx < 2 {
				cur = &r.Access[idx]
				cur.Kind = m[1]
			} else {
				cur = nil
			}
			continue
		}
		if strings.HasPrefix(ln, "Goroutine ") || strings.HasPrefix(ln, "Mutex ") {
			cur = nil
			continue
		}
		if cur == nil {
			continue
		}
		if strings.Contains(ln, "[failed to restore the stack]") {
			cur.Failed = true
			continue
		}
		if m := reLoc.FindStringSubmatch(ln); m != nil {
			cur.Lines = append(cur.Lines, filepath.Base(m[1])+":"+m[2])
			continue
		}
		if m := reFrame.FindStringSubmatch(ln); m != nil {
			cur.Funcs = append(cur.Funcs, strings.TrimSuffix(strings.TrimSpace(m[1]), "()"))
		}
	}
	var entries []string
	var sk []string
	for i := range r.Access {
		st := &r.Access[i]
		st.Entry, st.Inner = "-", "-"
		if st.Failed || len(st.Funcs) == 0 {
			st.Entry = "?"
		}
		for _, fn := range st.Funcs {
			if isLS(fn) {
				if st.Inner == "-" {
					st.Inner = shortFn(fn)
				}
				st.Entry = shortFn(fn)
				r.HasLS = true
			}
		}
		entries = append(entries, st.Entry)
		sk = append(sk, strings.Join(st.Funcs, ";"))
	}
	sort.Strings(entries)
	sort.Strings(sk)
	r.EntryKey = "race:" + strings.Join(entries, "|")
	r.StackKey = fmt.Sprintf("%x", sha256.Sum256([]byte(strings.Join(sk, "||"))))[:16]
	return r
}

func (r raceReport) brief() string {
	var sb strings.Builder
	for i, st := range r.Access {
		if i > 0 {
			sb.WriteString("  vs  ")
		}
		loc := ""
		for j, fn := range st.Funcs {
			if isLS(fn) && j < len(st.Lines) {
				loc = " (" + st.Lines[j] + ")"
				break
			}
		}
		fmt.Fprintf(&sb, "%s in %s%s via %s", st.Kind, st.Inner, loc, st.Entry)
	}
	return sb.String()
}

// ---------------------------------------------------------------------------
// goroutine dumps (pprof.Lookup("goroutine") debug=2 format)

type gStack struct {
	ID    string
	State string   // e.g. "sync.Mutex.Lock", "semacquire", "select"
	Funcs []string // innermost first
	Text  string   // frames with file:line (identity across dumps)
	HasLS bool
}

var reGHdr = regexp.MustCompile(`^goroutine (\d+) (?:gp=\S+ m=\S+ (?:mp=\S+ )?)?\[([^\],]+)(?:, [^\]]*)?\]:`)

func parseGoroutineDump(s string) map[string]*gStack {
	out := map[string]*gStack{}
	for _, blk := range strings.Split(s, "\n\n") {
		lines := strings.Split(strings.TrimSpace(blk), "\n")
		if len(lines) == 0 {
			continue
		}
		m := reGHdr.FindStringSubmatch(lines[0])
		if m == nil {
			continue
		}
		g := &gStack{ID: m[1], State: m[2]}
		var txt []string
		for _, ln := range lines[1:] {
			if strings.HasPrefix(ln, "\t") {
				// file:line +0x..; drop the pc offset
				f := strings.Fields(strings.TrimSpace(ln))
				if len(f) > 0 {
					txt = append(txt, f[0])
				}
				continue
			}
			if strings.HasPrefix(ln, "created by ") {
				txt = append(txt, ln)
				continue
			}
			fn := ln
			if i := strings.LastIndex(fn, "("); i > 0 {
				fn = fn[:i]
			}
			g.Funcs = append(g.Funcs, fn)
			txt = append(txt, fn)
			if isLS(fn) {
				g.HasLS = true
			}
		}
		g.Text = strings.Join(txt, "\n")
		out[g.ID] = g
	}
	return out
}

// lockWait reports whether the goroutine is parked waiting for a lock-like
// resource (mutex, rwmutex, waitgroup, cond, weighted semaphore, sql
// connection pool), as opposed to a timer, I/O or a monitor's select loop.
func (g *gStack) lockWait() bool {
	switch g.State {
	case "semacquire", "sync.Mutex.Lock", "sync.RWMutex.Lock", "sync.RWMutex.RLock", "sync.WaitGroup.Wait", "sync.Cond.Wait":
		return true
	case "select", "chan receive", "chan send":
		for _, fn := range g.Funcs {
			if strings.HasPrefix(fn, "runtime.") {
				continue
			}
			// innermost non-runtime frame
			return strings.Contains(fn, "semaphore.(*Weighted).Acquire") ||
				strings.Contains(fn, "database/sql.(*DB).conn") ||
				strings.Contains(fn, "sync.(*WaitGroup).Wait")
		}
	}
	return false
}

// stuckGoroutines returns the goroutines that sit in the same litestream
// lock-wait stack in both dumps.
func stuckGoroutines(d1, d2 string) []*gStack {
	a, b := parseGoroutineDump(d1), parseGoroutineDump(d2)
	var out []*gStack
	for id, g1 := range a {
		g2, ok := b[id]
		if !ok || !g1.HasLS || !g1.lockWait() || !g2.lockWait() {
			continue
		}
		if g1.Text != g2.Text {
			continue
		}
		out = append(out, g2)
	}
	sort.Slice(out, func(i, j int) bool { return out[i].ID < out[j].ID })
	return out
}
