package c03

// Scenarios S1..S5 of DESIGN §4 C03 (+ S5b, S7, S8). Every scenario has exactly one
// traced phase (startT): that is where kill points are enumerated; phases
// before it only build the state the traced phase starts from. C11 traces all
// phases of the same scenarios.
var Scenarios = []Scenario{
	{
		Name: "S1",
		Doc:  "write / sync / upload with checkpoints (PASSIVE, TRUNCATE, RESTART; automatic ones under config B)",
		Steps: steps(
			"startT",
			"w small", "v sync-wait",
			"w big", "v sync-wait",
			"w multi", "v sync", // local copy only: publishes a local L0 and nothing else
			"v replica-sync", // upload only
			"w update", "v sync-wait",
			"v checkpoint PASSIVE",
			"w small", "v sync-wait",
			"v checkpoint TRUNCATE",
			"w delete", "v sync-wait",
			"w big", "v checkpoint RESTART", "v sync-wait",
			"w ddl", "v sync-wait",
			"v close",
			"stop",
		),
	},
	{
		Name: "S2",
		Doc:  "S1 shape + compaction into L1 and L2 + snapshot",
		Steps: steps(
			"startT",
			"w small", "v sync-wait",
			"w multi", "v sync-wait",
			"v compact 1",
			"w big", "v sync-wait",
			"v compact 1",
			"v compact 2",
			"v snapshot",
			"v checkpoint TRUNCATE",
			"w update", "v sync-wait",
			"v close",
			"stop",
		),
	},
	{
		Name: "S3",
		Doc:  "S2 shape + L0 retention, snapshot retention with TXID retention of L1/L2",
		Steps: steps(
			"startT",
			"w small", "v sync-wait",
			"w multi", "v sync-wait",
			"w small", "v sync-wait",
			"v compact 1",
			"v snapshot",
			"w update", "v sync-wait",
			"w small", "v sync-wait",
			"v compact 1",
			"v compact 2",
			"v retention l0",
			"w big", "v sync-wait",
			"v snapshot",
			"v retention snap 1 2",
			"w small", "v sync-wait",
			"w multi", "v sync-wait",
			"v retention l0", // two L0 files not yet compacted into L1: nothing may be deleted
			"v compact 1",    // L0Retention is 1ns by now: compaction also enforces L0 retention
			"w small", "v sync-wait",
			"v compact 1",
			"v compact 2",
			"v snapshot",
			"v retention snap 1 2",
			"v retention l0",
			"v close",
			"stop",
		),
	},
	{
		Name: "S4",
		Doc:  "restore to an output path: plain, with full integrity check, to an older TXID with quick check",
		Steps: steps(
			"start",
			"w small", "v sync-wait",
			"w big", "v sync-wait",
			"w multi", "v sync-wait",
			"v compact 1",
			"v snapshot",
			"w update", "v sync-wait",
			"w small", "v sync-wait",
			"v close",
			"stop",
			"startT",
			"v restore out1",
			"v restore out2 ic=full",
			"v restore out3 txid=@2 ic=quick",
			"stop",
		),
	},
	{
		Name: "S5",
		Doc:  "meta directory lost while down: baseline L0 fetched from the replica at init; first sync has nothing new to copy",
		Steps: steps(
			"start",
			"w small", "v sync-wait",
			"w multi", "v sync-wait",
			"w big", "v sync-wait",
			"v close",
			"stop",
			"rmmeta",
			"startT",
			"v sync-wait", // nothing new: only the fetched baseline is published in this call
			"w small", "v sync-wait",
			"w update", "v sync-wait",
			"v close",
			"stop",
		),
	},
	{
		Name: "S5b",
		Doc:  "database, WAL and meta directory rolled back to an earlier state while down: local L0 files cleared, baseline fetched, snapshot taken",
		Steps: steps(
			"start",
			"w small", "v sync-wait",
			"w multi", "v sync-wait",
			"v close",
			"stop",
			"save",
			"start",
			"w big", "v sync-wait",
			"w small", "v sync-wait",
			"w update", "v sync-wait",
			"v close",
			"stop",
			"rollback",
			"startT",
			"w small", "v sync-wait",
			"w multi", "v sync-wait",
			"v close",
			"stop",
		),
	},
	{
		Name: "S7",
		Doc:  "follow-mode restore running inside the victim while it replicates: output path and -txid sidecar",
		Steps: steps(
			"start",
			"w small", "v sync-wait",
			"w multi", "v sync-wait",
			"v snapshot",
			"v close",
			"stop",
			"startT",
			"v follow-start follow1",
			"v follow-wait 1",
			"w small", "v sync-wait",
			"v follow-wait @0", // @0: the TXID just acknowledged (@k: TXID of the k-th acknowledgement)
			"w big", "v sync-wait",
			"v follow-wait @0",
			"v follow-stop",
			"v close",
			"stop",
		),
	},
	{
		Name: "S8",
		Doc:  "re-upload of an already published snapshot fails mid-stream (upload stream broken by the victim's client wrapper), then a failing compaction upload; restores in between",
		Steps: steps(
			"start",
			"w small", "v sync-wait",
			"w multi", "v sync-wait",
			"v compact 1",
			"v snapshot",
			"v retention l0",
			"w small", "v sync-wait",
			"v snapshot",
			"v retention snap 1",
			"v close",
			"stop",
			"startT",
			"v sync-wait",
			"v snapshot",           // published at the current position ...
			"v? snapshot-fail 700", // ... and written again under the same name; this time the stream breaks
			"v restore out1",       // the replica must still be restorable
			"w small", "v sync-wait",
			"v? compact-fail 1 150", // failing upload of a new name
			"v restore out2",
			"v compact 1",
			"v close",
			"stop",
		),
	},
}

func ScenarioByName(name string) *Scenario {
	for i := range Scenarios {
		if Scenarios[i].Name == name {
			return &Scenarios[i]
		}
	}
	return nil
}
